/-
  XotModel.Lemmas.LexFree — the layout theorem of the reference tokenizer:

      LexOKL frag lts = true  →  the tokenizer reads `renderL lts` back as `lts.map LToken.token`
                                 up to byte positions (`Token.erase`), without error

  for token lists of every length and nesting depth and EVERY layout: either quote per attribute,
  any white space (blank, TAB, LF, CR) before attributes, around `=`, before `>` / `/>`, inside end
  tags, inside PIs, between the top-level items of a document and after the last one.  The
  induction is the one of Lemmas/LexCanon.lean redone over `LToken`s; the canonical theorems stay
  as they are (they also give the byte positions).
-/
import XotModel.Lemmas.LexFreeStep

namespace XotModel.Lex.Free

open XotModel.Lex XotModel.Lex.Stream XotModel.Lex.Canon

theorem renderL_cons (lt : LToken) (lts : List LToken) : renderL (lt :: lts) = renderLT lt ++ renderL lts := by
  simp [renderL]

theorem stream_eq {s : Stream} {X : Str} (h : s.rest = X) : s = ⟨s.pos, X⟩ := by
  cases s; simp_all

/-- Read one token, then the rest. -/
theorem loop_reads {tk tk0 tk1 : Tokenizer} {t t' : Token} {rest : List Token} {position : Nat}
    (e0 : lexLoop tk position = lexLoop tk0 position)
    (he0 : tk0.stream.atEnd = false) (hf0 : tk0.state ≠ .finished)
    (hstep : parseNextImpl tk0 = .token t' tk1) (her : t'.ReadAs t)
    (ih : ∃ ts', lexLoop tk1 tk1.stream.pos = (ts', none) ∧ ReadAsList ts' rest) :
    ∃ ts', lexLoop tk position = (ts', none) ∧ ReadAsList ts' (t :: rest) := by
  obtain ⟨ts', h1, h2⟩ := ih
  refine ⟨t' :: ts', ?_, ReadAsList.cons her h2⟩
  rw [e0, lexLoop_token position he0 hf0 hstep, h1]

/-! ### White space at the top level of a document -/

theorem ws_not_xmldecl {w X : Str} (hw : isWs w = true) (hne : w ≠ []) :
    litXmlDecl.isPrefixOf (w ++ X) = false := by
  obtain ⟨c, cs, rfl⟩ := List.exists_cons_of_ne_nil hne
  have hc := (isWs_cons hw).1
  have : c ≠ '<' := by intro e; rw [e] at hc; revert hc; decide
  simp [litXmlDecl, List.isPrefixOf_cons_cons, Ne.symm this]

/-- Outside the root element of a document the tokenizer skips white space: it reaches the text
    after it in a state of the same context. -/
theorem loop_lead {frag : Bool} {ctx : LexCtx} (hctx : ctx = .prolog ∨ ctx = .after) (tk : Tokenizer)
    (position : Nat) (w X : Str) (hm : Matches frag ctx tk) (hs : tk.stream.rest = w ++ X)
    (hw : isWs w = true) (hX : Stops isXmlSpace X) :
    ∃ tk0, Matches frag ctx tk0 ∧ tk0.stream.rest = X ∧ lexLoop tk position = lexLoop tk0 position := by
  by_cases hne : w = []
  · subst hne; exact ⟨tk, hm, by simpa using hs, rfl⟩
  have hs' := stream_eq hs
  have hend : tk.stream.atEnd = false := by
    rw [hs']; obtain ⟨c, cs, rfl⟩ := List.exists_cons_of_ne_nil hne; rfl
  -- in one of the three states that skip white space
  have skip : ∀ tk1 : Tokenizer, MiscState tk1.state → tk1.stream = tk.stream →
      lexLoop tk1 position = lexLoop { tk1 with stream := ⟨tk.stream.pos + strLen w, X⟩ } position := by
    intro tk1 h1 hs1
    exact lexLoop_skip position (by rw [hs1]; exact hend)
      (by rcases h1 with h | h | h <;> simp [h])
      (step_misc_space tk1 tk.stream.pos w X h1 (by rw [hs1]; exact hs') hw hne hX)
  rcases hctx with rfl | rfl
  · obtain ⟨hfr, hd, h | h | h⟩ := hm
    · have hx : tk.stream.startsWith litXmlDecl = false := by
        rw [hs']; exact ws_not_xmldecl hw hne
      refine ⟨{ tk with state := .afterDeclaration, stream := ⟨tk.stream.pos + strLen w, X⟩ },
        ⟨hfr, hd, .inr (.inl rfl)⟩, rfl, ?_⟩
      rw [loop_declaration tk position h hend hx]
      exact skip { tk with state := .afterDeclaration } (.inl rfl) rfl
    · exact ⟨{ tk with stream := ⟨tk.stream.pos + strLen w, X⟩ }, ⟨hfr, hd, .inr (.inl h)⟩, rfl,
        skip tk (.inl h) rfl⟩
    · exact ⟨{ tk with stream := ⟨tk.stream.pos + strLen w, X⟩ }, ⟨hfr, hd, .inr (.inr h)⟩, rfl,
        skip tk (.inr (.inl h)) rfl⟩
  · obtain ⟨hfr, h⟩ := hm
    exact ⟨{ tk with stream := ⟨tk.stream.pos + strLen w, X⟩ }, ⟨hfr, h⟩, rfl, skip tk (.inr (.inr h)) rfl⟩

/-- Only white space is left at the top level of a document: no more tokens, no error. -/
theorem loop_trail {frag : Bool} {ctx : LexCtx} (hctx : ctx = .prolog ∨ ctx = .after) (tk : Tokenizer)
    (position : Nat) (w : Str) (hm : Matches frag ctx tk) (hs : tk.stream.rest = w) (hw : isWs w = true) :
    lexLoop tk position = ([], none) := by
  obtain ⟨tk0, _, hs0, e⟩ := loop_lead hctx tk position w [] hm (by simpa using hs) hw (Stops.nil _)
  rw [e]
  exact lexLoop_end position (by simp [atEnd, hs0])

/-! ### What follows a token -/

theorem renderL_cons_app (lt : LToken) (lts : List LToken) (trail : Str) :
    renderL (lt :: lts) ++ trail = lt.lead ++ (lt.body ++ (renderL lts ++ trail)) := by
  simp [renderL_cons, renderLT]

/-- After a start-tag name (and after an attribute) comes white space, `>`, `/>` or the end. -/
theorem tail_stops_name {frag : Bool} {d : Nat} {lts : List LToken} {trail : Str}
    (hok : lts.all LToken.okL = true) (hn : lexNest frag (.inTag d) (lts.map LToken.token) = true)
    (hl : leadsOK frag (.inTag d) lts = true) (ht : isWs trail = true) :
    Stops isNameChar (renderL lts ++ trail) := by
  cases lts with
  | nil => simpa [renderL] using stops_ws_app (fun _ => space_not_nameChar) ht (Stops.nil _)
  | cons lt rest =>
    rw [renderL_cons_app]
    simp only [List.all_cons, Bool.and_eq_true] at hok
    obtain ⟨tok, w, e1, e2, b⟩ := lt
    have hw : isWs w = true := by
      have := hok.1; simp only [LToken.okL, Bool.and_eq_true] at this; exact this.1
    simp only [List.map_cons] at hn
    cases tok with
    | «attribute» p l v sp =>
      simp only [leadsOK, leadOK, Bool.and_eq_true, Bool.not_eq_true', List.isEmpty_eq_false_iff] at hl
      obtain ⟨c, cs, rfl⟩ := List.exists_cons_of_ne_nil hl.1
      exact Stops.cons _ (space_not_nameChar (isWs_cons hw).1)
    | elementEnd e sp =>
      cases e with
      | «open» => exact stops_ws_app (fun _ => space_not_nameChar) hw (Stops.cons _ (by decide))
      | empty => exact stops_ws_app (fun _ => space_not_nameChar) hw (Stops.cons _ (by decide))
      | close p l => simp [lexNest] at hn
    | _ => simp [lexNest] at hn

/-- After character data comes markup or the end. -/
theorem tail_markup {frag : Bool} {d : Nat} {a : StrSpan} {lts : List LToken} {trail : Str}
    (hn : lexNest frag (.content d) (.text a :: lts.map LToken.token) = true)
    (hl : leadsOK frag (.content d) lts = true)
    (ht : trailOK frag (.content d) (lts.map LToken.token) trail = true) :
    StartsMarkup (renderL lts ++ trail) := by
  cases lts with
  | nil =>
    have : trail = [] := by
      have := ht; simp [trailOK, ctxAfter] at this; exact this.2
    subst this; exact .inl rfl
  | cons lt rest =>
    rw [renderL_cons_app]
    obtain ⟨tok, w, e1, e2, b⟩ := lt
    simp only [leadsOK, leadOK, Bool.and_eq_true, List.isEmpty_iff] at hl
    obtain ⟨rfl, _⟩ := hl
    simp only [List.map_cons] at hn
    cases tok with
    | text b => simp [lexNest] at hn
    | cdata b sp => exact .inr ⟨_, rfl⟩
    | comment b sp => exact .inr ⟨_, rfl⟩
    | pi b c sp => cases c <;> exact .inr ⟨_, rfl⟩
    | elementStart p l sp => exact .inr ⟨_, rfl⟩
    | elementEnd e sp =>
      cases e with
      | close p l => exact .inr ⟨_, rfl⟩
      | «open» => simp [lexNest] at hn
      | empty => simp [lexNest] at hn
    | _ => simp [lexNest] at hn

theorem stops_space_lt (r : Str) : Stops isXmlSpace ('<' :: r) := Stops.cons r (by decide)

theorem trailOK_cons (frag : Bool) (ctx : LexCtx) (t : Token) (ts : List Token) (trail : Str) :
    trailOK frag ctx (t :: ts) trail = trailOK frag (ctxStep frag ctx t) ts trail := rfl

/-! ### The induction -/

/-- **Layout theorem at loop level.** -/
theorem lexLoop_layout (frag : Bool) (lts : List LToken) (trail : Str) :
    ∀ (ctx : LexCtx) (tk : Tokenizer) (position : Nat), Matches frag ctx tk →
      lts.all LToken.okL = true → lexNest frag ctx (lts.map LToken.token) = true →
      leadsOK frag ctx lts = true → trailOK frag ctx (lts.map LToken.token) trail = true →
      tk.stream.rest = renderL lts ++ trail →
      ∃ ts', lexLoop tk position = (ts', none) ∧ ReadAsList ts' (lts.map LToken.token) := by
  induction lts with
  | nil =>
    intro ctx tk position hm _ _ _ ht hs
    refine ⟨[], ?_, ReadAsList.nil⟩
    simp only [trailOK, ctxAfter, List.map_nil, List.foldl_nil, Bool.and_eq_true, Bool.or_eq_true,
      List.isEmpty_iff] at ht
    simp only [renderL, List.flatMap_nil, List.nil_append] at hs
    rcases ht.2 with rfl | h
    · exact lexLoop_end position (by simp [atEnd, hs])
    · cases ctx with
      | prolog => exact loop_trail (.inl rfl) tk position trail hm hs ht.1
      | after => exact loop_trail (.inr rfl) tk position trail hm hs ht.1
      | inTag d => simp at h
      | content d => simp at h
  | cons lt lts ih =>
    intro ctx tk position hm hok hn hl ht hs
    simp only [List.all_cons, Bool.and_eq_true] at hok
    obtain ⟨hok1, hoks⟩ := hok
    rw [renderL_cons_app] at hs
    simp only [List.map_cons] at hn ht ⊢
    rw [trailOK_cons] at ht
    simp only [leadsOK, Bool.and_eq_true] at hl
    obtain ⟨hl1, hls⟩ := hl
    have hwt : isWs trail = true := by
      simp only [trailOK, Bool.and_eq_true] at ht; exact ht.1
    have hwl : isWs lt.lead = true := by
      simp only [LToken.okL, Bool.and_eq_true] at hok1; exact hok1.1
    -- assembling the conclusion from a token step and the induction hypothesis
    have finish : ∀ (ctx1 : LexCtx) (tk0 tk1 : Tokenizer) (t' : Token),
        lexLoop tk position = lexLoop tk0 position → tk0.stream.atEnd = false →
        tk0.state ≠ .finished → parseNextImpl tk0 = .token t' tk1 → t'.ReadAs lt.token →
        tk1.stream.rest = renderL lts ++ trail → Matches frag ctx1 tk1 →
        lexNest frag ctx1 (lts.map LToken.token) = true → ctxStep frag ctx lt.token = ctx1 →
        ∃ ts', lexLoop tk position = (ts', none) ∧
          ReadAsList ts' (lt.token :: lts.map LToken.token) := by
      intro ctx1 tk0 tk1 t' e0 he0 hf0 hstep her hs1 hm1 hn1 hc1
      subst hc1
      exact loop_reads e0 he0 hf0 hstep her (ih _ tk1 tk1.stream.pos hm1 hoks hn1 hls ht hs1)
    -- a canonical step lemma gives the token re-positioned
    have canon : ∀ {tk0 tk1 : Tokenizer} {t : Token} {pos : Nat},
        parseNextImpl tk0 = .token (t.place pos) tk1 → t = lt.token →
        ∃ t', parseNextImpl tk0 = .token t' tk1 ∧ t'.ReadAs lt.token := by
      intro tk0 tk1 t pos h e
      exact ⟨_, h, by rw [← e]; exact Token.place_readAs pos t⟩
    obtain ⟨tok, w, e1, e2, b⟩ := lt
    simp only at hn ht hl1 hls hwl finish canon hs
    cases ctx with
    | prolog =>
      have hX : ∀ rest : Str, LToken.body ⟨tok, w, e1, e2, b⟩ = '<' :: rest →
          ∃ tk0, Matches frag .prolog tk0 ∧
            tk0.stream = ⟨tk0.stream.pos, LToken.body ⟨tok, w, e1, e2, b⟩ ++ (renderL lts ++ trail)⟩ ∧
            lexLoop tk position = lexLoop tk0 position := by
        intro rest hb
        obtain ⟨tk0, hm0, hs0, e0⟩ := loop_lead (.inl rfl) tk position w _ hm hs hwl
          (by rw [hb]; exact stops_space_lt _)
        exact ⟨tk0, hm0, stream_eq hs0, e0⟩
      cases tok with
      | comment a sp =>
        obtain ⟨tk0, hm0, hs0, e0⟩ := hX _ rfl
        have he0 : tk0.stream.atEnd = false := by rw [hs0]; rfl
        have hx : tk0.stream.startsWith litXmlDecl = false := by
          rw [hs0]; exact comment_not_xmldecl a sp _
        obtain ⟨st, hms, hst2, e⟩ := loop_prolog_misc tk0 position hm0 he0 hx
        obtain ⟨t', hstep, her⟩ := canon
          (step_misc_comment { tk0 with state := st } tk0.stream.pos a sp _ hms hs0
            (by simp only [LToken.okL, Bool.and_eq_true] at hok1; exact hok1.2)) rfl
        exact finish .prolog { tk0 with state := st } _ t' (e0.trans e) he0
          (by rcases hst2 with h | h <;> simp [h]) hstep her rfl
          ⟨hm0.1, hm0.2.1, by rcases hst2 with h | h <;> simp [h]⟩ (by simpa [lexNest] using hn) rfl
      | pi a c sp =>
        obtain ⟨rest, hb, _⟩ := pi_body ⟨.pi a c sp, w, e1, e2, b⟩ a c sp rfl hok1
        obtain ⟨tk0, hm0, hs0, e0⟩ := hX _ hb
        have he0 : tk0.stream.atEnd = false := by rw [hs0, hb]; rfl
        have hx : tk0.stream.startsWith litXmlDecl = false := by
          rw [hs0]; exact pi_not_xmldeclL _ a c sp _ rfl hok1
        obtain ⟨st, hms, hst2, e⟩ := loop_prolog_misc tk0 position hm0 he0 hx
        obtain ⟨t', pos', hstep, her⟩ :=
          step_misc_piL { tk0 with state := st } tk0.stream.pos _ a c sp _ rfl hok1 hms hs0
        exact finish .prolog { tk0 with state := st } _ t' (e0.trans e) he0
          (by rcases hst2 with h | h <;> simp [h]) hstep her rfl
          ⟨hm0.1, hm0.2.1, by rcases hst2 with h | h <;> simp [h]⟩ (by simpa [lexNest] using hn) rfl
      | elementStart p l sp =>
        have hn' : lexNest frag (.inTag 0) (lts.map LToken.token) = true := by simpa [lexNest] using hn
        have hls' : leadsOK frag (.inTag 0) lts = true := by simpa [ctxStep] using hls
        obtain ⟨tk0, hm0, hs0, e0⟩ := hX _ rfl
        have he0 : tk0.stream.atEnd = false := by rw [hs0]; rfl
        have hokt : (Token.elementStart p l sp).lexOK = true := by
          simp only [LToken.okL, Bool.and_eq_true] at hok1; exact hok1.2
        have e := loop_prolog_start tk0 position tk0.stream.pos p l sp _ hm0 hs0 hokt
        obtain ⟨t', hstep, her⟩ := canon
          (step_afterDtd_start { tk0 with state := .afterDtd } tk0.stream.pos p l sp _ rfl hs0 hokt
            (tail_stops_name hoks hn' hls' hwt)) rfl
        exact finish (.inTag 0) { tk0 with state := .afterDtd } _ t' (e0.trans e) he0 (by simp) hstep her
          rfl ⟨hm0.1, hm0.2.1, rfl⟩ hn' rfl
      | _ => simp [lexNest] at hn
    | inTag d =>
      obtain ⟨hfr, hd, hst⟩ := hm
      have hf : tk.state ≠ .finished := by simp [hst]
      have hs' : tk.stream = ⟨tk.stream.pos, renderLT ⟨tok, w, e1, e2, b⟩ ++ (renderL lts ++ trail)⟩ := by
        rw [stream_eq hs]; simp [renderLT]
      cases tok with
      | «attribute» p l v sp =>
        have hne : w ≠ [] := by simpa [leadOK] using hl1
        have he : tk.stream.atEnd = false := by
          rw [stream_eq hs]; obtain ⟨c, cs, rfl⟩ := List.exists_cons_of_ne_nil hne; rfl
        obtain ⟨t', pos', hstep, her⟩ :=
          step_attr_attrL tk tk.stream.pos _ p l v sp _ rfl hok1 hne hst hs'
        exact finish (.inTag d) tk _ t' rfl he hf hstep her rfl ⟨hfr, hd, hst⟩
          (by simpa [lexNest] using hn) rfl
      | elementEnd e sp =>
        cases e with
        | «open» =>
          have he : tk.stream.atEnd = false := by
            rw [stream_eq hs]; exact atEnd_app_cons _ _ _ _
          obtain ⟨t', pos', hstep, her⟩ := step_attr_openL tk tk.stream.pos _ sp _ rfl hok1 hst hs'
          exact finish (.content (d + 1)) tk _ t' rfl he hf hstep her rfl ⟨hfr, by simp [hd], rfl⟩
            (by simpa [lexNest] using hn) rfl
        | empty =>
          have he : tk.stream.atEnd = false := by
            rw [stream_eq hs]; exact atEnd_app_cons _ _ _ _
          obtain ⟨t', pos', hstep, her⟩ := step_attr_emptyL tk tk.stream.pos _ sp _ rfl hok1 hst hs'
          refine finish (LexCtx.closed frag d) tk _ t' rfl he hf hstep her rfl ?_
            (by simpa [lexNest] using hn) rfl
          rw [hd, hfr]; exact matches_closed frag d _
        | close p l => simp [lexNest] at hn
      | _ => simp [lexNest] at hn
    | content d =>
      obtain ⟨hfr, hd, hst⟩ := hm
      have hf : tk.state ≠ .finished := by simp [hst]
      have hw0 : w = [] := by simpa [leadOK] using hl1
      subst hw0
      have hs' : tk.stream = ⟨tk.stream.pos, LToken.body ⟨tok, [], e1, e2, b⟩ ++ (renderL lts ++ trail)⟩ := by
        rw [stream_eq hs]; simp
      cases tok with
      | text a =>
        have hok' : (Token.text a).lexOK = true := by
          simp only [LToken.okL, Bool.and_eq_true] at hok1; exact hok1.2
        have he := atEnd_of_render hok' hs'
        obtain ⟨t', hstep, her⟩ := canon
          (step_el_text tk tk.stream.pos a _ hst hs' hok' (tail_markup hn (by simpa [ctxStep] using hls)
            (by simpa [ctxStep] using ht))) rfl
        exact finish (.content d) tk _ t' rfl he hf hstep her rfl ⟨hfr, hd, hst⟩ (nest_after_text hn).2 rfl
      | cdata a sp =>
        have hok' : (Token.cdata a sp).lexOK = true := by
          simp only [LToken.okL, Bool.and_eq_true] at hok1; exact hok1.2
        have he := atEnd_of_render hok' hs'
        obtain ⟨t', hstep, her⟩ := canon (step_el_cdata tk tk.stream.pos a sp _ hst hs' hok') rfl
        exact finish (.content d) tk _ t' rfl he hf hstep her rfl ⟨hfr, hd, hst⟩
          (by simpa [lexNest] using hn) rfl
      | comment a sp =>
        have hok' : (Token.comment a sp).lexOK = true := by
          simp only [LToken.okL, Bool.and_eq_true] at hok1; exact hok1.2
        have he := atEnd_of_render hok' hs'
        obtain ⟨t', hstep, her⟩ := canon (step_el_comment tk tk.stream.pos a sp _ hst hs' hok') rfl
        exact finish (.content d) tk _ t' rfl he hf hstep her rfl ⟨hfr, hd, hst⟩
          (by simpa [lexNest] using hn) rfl
      | pi a c sp =>
        obtain ⟨rest, hb, _⟩ := pi_body ⟨.pi a c sp, [], e1, e2, b⟩ a c sp rfl hok1
        have he : tk.stream.atEnd = false := by rw [hs', hb]; rfl
        obtain ⟨t', pos', hstep, her⟩ := step_el_piL tk tk.stream.pos _ a c sp _ rfl hok1 hst hs'
        exact finish (.content d) tk _ t' rfl he hf hstep her rfl ⟨hfr, hd, hst⟩
          (by simpa [lexNest] using hn) rfl
      | elementStart p l sp =>
        have hn' : lexNest frag (.inTag d) (lts.map LToken.token) = true := by simpa [lexNest] using hn
        have hls' : leadsOK frag (.inTag d) lts = true := by simpa [ctxStep] using hls
        have hok' : (Token.elementStart p l sp).lexOK = true := by
          simp only [LToken.okL, Bool.and_eq_true] at hok1; exact hok1.2
        have he := atEnd_of_render hok' hs'
        obtain ⟨t', hstep, her⟩ := canon
          (step_el_start tk tk.stream.pos p l sp _ hst hs' hok' (tail_stops_name hoks hn' hls' hwt)) rfl
        exact finish (.inTag d) tk _ t' rfl he hf hstep her rfl ⟨hfr, hd, rfl⟩ hn' rfl
      | elementEnd e sp =>
        cases e with
        | close p l =>
          have he : tk.stream.atEnd = false := by rw [hs']; rfl
          obtain ⟨t', pos', hstep, her⟩ := step_el_closeL tk tk.stream.pos _ p l sp _ rfl hok1 hst hs'
          refine finish (LexCtx.closed frag (d - 1)) tk _ t' rfl he hf hstep her rfl ?_
            (by simpa [lexNest] using hn) rfl
          rw [hd, hfr]; exact matches_closed frag (d - 1) _
        | «open» => simp [lexNest] at hn
        | empty => simp [lexNest] at hn
      | _ => simp [lexNest] at hn
    | after =>
      have hX : ∀ rest : Str, LToken.body ⟨tok, w, e1, e2, b⟩ = '<' :: rest →
          ∃ tk0, Matches frag .after tk0 ∧
            tk0.stream = ⟨tk0.stream.pos, LToken.body ⟨tok, w, e1, e2, b⟩ ++ (renderL lts ++ trail)⟩ ∧
            lexLoop tk position = lexLoop tk0 position := by
        intro rest hb
        obtain ⟨tk0, hm0, hs0, e0⟩ := loop_lead (.inr rfl) tk position w _ hm hs hwl
          (by rw [hb]; exact stops_space_lt _)
        exact ⟨tk0, hm0, stream_eq hs0, e0⟩
      cases tok with
      | comment a sp =>
        obtain ⟨tk0, hm0, hs0, e0⟩ := hX _ rfl
        obtain ⟨hfr, hst⟩ := hm0
        have he0 : tk0.stream.atEnd = false := by rw [hs0]; rfl
        obtain ⟨t', hstep, her⟩ := canon
          (step_misc_comment tk0 tk0.stream.pos a sp _ (.inr (.inr hst)) hs0
            (by simp only [LToken.okL, Bool.and_eq_true] at hok1; exact hok1.2)) rfl
        exact finish .after tk0 _ t' e0 he0 (by simp [hst]) hstep her rfl ⟨hfr, hst⟩
          (by simpa [lexNest] using hn) rfl
      | pi a c sp =>
        obtain ⟨rest, hb, _⟩ := pi_body ⟨.pi a c sp, w, e1, e2, b⟩ a c sp rfl hok1
        obtain ⟨tk0, hm0, hs0, e0⟩ := hX _ hb
        obtain ⟨hfr, hst⟩ := hm0
        have he0 : tk0.stream.atEnd = false := by rw [hs0, hb]; rfl
        obtain ⟨t', pos', hstep, her⟩ :=
          step_misc_piL tk0 tk0.stream.pos _ a c sp _ rfl hok1 (.inr (.inr hst)) hs0
        exact finish .after tk0 _ t' e0 he0 (by simp [hst]) hstep her rfl ⟨hfr, hst⟩
          (by simpa [lexNest] using hn) rfl
      | _ => simp [lexNest] at hn

end XotModel.Lex.Free
