/-
  Lemmas for C12, part 16 (locality): histories, and separation of the clone and of every old
  root right after `clone_node`.
-/
import XotModel.Lemmas.FcloneLocal3
import XotModel.Lemmas.FcloneMain

namespace XotModel
open HTree

/-- One call whose node arguments all lie outside `r` leaves `r` a separated root. -/
theorem Sep.edit {r : HTree} {f : Forest} (s : Sep r f) (op : EditOp)
    (h : ∀ a ∈ op.args, a ∉ handles r) : Sep r (f.edit op) := by
  cases op with
  | append p c => exact s.append (h p (by simp [EditOp.args])) (h c (by simp [EditOp.args]))
  | prepend p c => exact s.prepend (h p (by simp [EditOp.args])) (h c (by simp [EditOp.args]))
  | insertAfter a b => exact s.insertAfter (h a (by simp [EditOp.args])) (h b (by simp [EditOp.args]))
  | insertBefore a b => exact s.insertBefore (h a (by simp [EditOp.args])) (h b (by simp [EditOp.args]))
  | detach n => exact s.detach (h n (by simp [EditOp.args]))
  | remove n => exact s.remove (h n (by simp [EditOp.args]))
  | setText n x => exact s.setText (h n (by simp [EditOp.args])) x
  | setComment n x => exact s.setComment (h n (by simp [EditOp.args])) x
  | setPiData n d => exact s.setPiData (h n (by simp [EditOp.args])) d
  | setElementName n x => exact s.setElementName (h n (by simp [EditOp.args])) x

/-- Any history of such calls. -/
theorem Sep.edits {r : HTree} : ∀ (ops : List EditOp) {f : Forest}, Sep r f →
    (∀ op ∈ ops, ∀ a ∈ op.args, a ∉ handles r) → Sep r (f.edits ops)
  | [], _, s, _ => s
  | op :: ops, f, s, h => by
    have s1 := s.edit op (h op (by simp))
    exact Sep.edits ops s1 (fun o ho => h o (by simp [ho]))

/-- Distinct roots of a forest with distinct handles share none. -/
theorem nodup_disj : ∀ (L : List HTree), (handlesList L).Nodup → ∀ t ∈ L, ∀ r ∈ L, t ≠ r →
    ∀ a ∈ handles r, a ∉ handles t
  | [], _, t, ht, _, _, _, _, _ => by cases ht
  | x :: L, hn, t, ht, r, hr, hne, a, har => by
    simp only [handlesList] at hn
    obtain ⟨_, h2, h3⟩ := List.nodup_append.mp hn
    intro hat
    rcases List.mem_cons.mp ht with rfl | ht'
    · rcases List.mem_cons.mp hr with rfl | hr'
      · exact hne rfl
      · exact h3 a hat a (handles_subset_handlesList hr' a har) rfl
    · rcases List.mem_cons.mp hr with rfl | hr'
      · exact h3 a har a (handles_subset_handlesList ht' a hat) rfl
      · exact nodup_disj L h2 t ht' r hr' hne a har hat

theorem Sep.of_inv {f : Forest} (inv : f.Inv) {r : HTree} (hr : r ∈ f.roots) : Sep r f :=
  ⟨hr, fun t ht hne => nodup_disj f.roots inv.nodup t ht r hr hne⟩

/-- A new last root made of new handles, and every old root, are separated roots. -/
theorem sep_after_clone (f : Forest) (inv : f.Inv) (C : HTree) (f' : Forest)
    (h2 : f'.roots = f.roots ++ [C]) (h4 : ∀ a ∈ handles C, f.next ≤ a) :
    Sep C f' ∧ ∀ r ∈ f.roots, Sep r f' := by
  refine ⟨⟨by rw [h2]; simp, ?_⟩, ?_⟩
  · intro t ht hne a ha hat
    rw [h2] at ht
    rcases List.mem_append.mp ht with x | x
    · have := inv.below a (handles_subset_handlesList x a hat)
      have := h4 a ha
      omega
    · simp at x; exact hne x
  · intro r hr
    refine ⟨by rw [h2]; simp [hr], ?_⟩
    intro t ht hne a ha hat
    rw [h2] at ht
    rcases List.mem_append.mp ht with x | x
    · exact nodup_disj f.roots inv.nodup t x r hr hne a ha hat
    · simp at x
      subst x
      have := inv.below a (handles_subset_handlesList hr a ha)
      have := h4 a hat
      omega

end XotModel
