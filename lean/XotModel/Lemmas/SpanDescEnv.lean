/-
  XotModel.Lemmas.SpanDescEnv — pieces of the C17 description invariant that do not look at the
  tree: interning only appends (`SdEnvApp`) and name resolution delivers `NameFacts`; text runs
  (`runValue`, `RunOk`, `OpenText`) under one more token; which paths are `Seen`.
-/
import XotModel.Lemmas.SpanDescMono
import XotModel.Lemmas.ParseScope

namespace XotModel

/-! ### Interning -/

theorem sd_internPrefix_app (e : Env) (p : Str) : SdEnvApp e (e.internPrefix p).1 :=
  ⟨internIn_ext e.prefixes p, ⟨[], by simp [Env.internPrefix]⟩, ⟨[], by simp [Env.internPrefix]⟩⟩

theorem sd_internNamespace_app (e : Env) (u : Str) : SdEnvApp e (e.internNamespace u).1 :=
  ⟨⟨[], by simp [Env.internNamespace]⟩, internIn_ext e.namespaces u, ⟨[], by simp [Env.internNamespace]⟩⟩

theorem sd_internName_app (e : Env) (a : Str) (ns : Nat) : SdEnvApp e (e.internName a ns).1 :=
  ⟨⟨[], by simp [Env.internName]⟩, ⟨[], by simp [Env.internName]⟩, internIn_ext e.names (a, ns)⟩

/-- The id `get_id_mut` returns is the index of the value in the table afterwards. -/
theorem sd_internIn_idx {α : Type} [BEq α] [LawfulBEq α] (l : List α) (v : α) :
    v ∈ (internIn l v).1 ∧ (internIn l v).1.idxOf v = (internIn l v).2 := by
  unfold internIn
  by_cases h : l.contains v = true
  · have hm : v ∈ l := by simpa using h
    rw [if_pos h]
    exact ⟨hm, rfl⟩
  · rw [if_neg h]
    have hn : v ∉ l := by simpa using h
    refine ⟨by simp, ?_⟩
    show (l ++ [v]).idxOf v = l.idxOf v
    rw [List.idxOf_append, if_neg hn, List.idxOf_eq_length hn]
    simp

theorem elementNameId_facts {env env1 : Env} {stack : NsStack} {pfx name : Str} {sp : Span} {id : Nat}
    (h : elementNameId env stack pfx name sp = .ok (env1, id)) :
    SdEnvApp env env1 ∧ NameFacts env1 stack false id pfx name := by
  unfold elementNameId at h
  dsimp only at h
  split at h
  · next ns hns =>
    simp only [Step.ok.injEq] at h
    have he := congrArg Prod.fst h
    have hi := congrArg Prod.snd h
    simp only at he hi
    subst he hi
    obtain ⟨hm, hidx⟩ := sd_internIn_idx env.prefixes pfx
    refine ⟨(sd_internPrefix_app env pfx).trans (sd_internName_app _ name ns), hm, ns, internName_get _ name ns, ?_⟩
    rw [if_neg (by simp)]
    show lookupPrefix stack ((internIn env.prefixes pfx).1.idxOf pfx) = some ns
    rw [hidx]; exact hns
  · cases h

theorem attributeNameId_facts {env env1 : Env} {stack : NsStack} {pfx name : Str} {sp : Span} {id : Nat}
    (h : attributeNameId env stack pfx name sp = .ok (env1, id)) :
    SdEnvApp env env1 ∧ NameFacts env1 stack true id pfx name := by
  obtain ⟨hm, hidx⟩ := sd_internIn_idx env.prefixes pfx
  unfold attributeNameId at h
  dsimp only at h
  split at h
  · next hz =>
    simp only [Step.ok.injEq] at h
    have he := congrArg Prod.fst h
    have hi := congrArg Prod.snd h
    simp only at he hi
    subst he hi
    refine ⟨(sd_internPrefix_app env pfx).trans (sd_internName_app _ name _), hm, Env.noNamespace,
      internName_get _ name _, ?_⟩
    have : (internIn env.prefixes pfx).1.idxOf pfx = Env.emptyPrefix := by
      rw [hidx]; simpa [Env.internPrefix] using hz
    have hcond : (true = true ∧ List.idxOf pfx ((env.internPrefix pfx).1.internName name Env.noNamespace).1.prefixes =
        Env.emptyPrefix) := ⟨rfl, this⟩
    rw [if_pos hcond]
  · next hz =>
    split at h
    · next ns hns =>
      simp only [Step.ok.injEq] at h
      have he := congrArg Prod.fst h
      have hi := congrArg Prod.snd h
      simp only at he hi
      subst he hi
      refine ⟨(sd_internPrefix_app env pfx).trans (sd_internName_app _ name ns), hm, ns, internName_get _ name ns, ?_⟩
      have : ¬ ((internIn env.prefixes pfx).1.idxOf pfx = Env.emptyPrefix) := by
        rw [hidx]; simpa [Env.internPrefix] using hz
      have hcond : ¬ (true = true ∧ List.idxOf pfx ((env.internPrefix pfx).1.internName name ns).1.prefixes =
          Env.emptyPrefix) := fun h => this h.2
      rw [if_neg hcond]
      show lookupPrefix stack ((internIn env.prefixes pfx).1.idxOf pfx) = some ns
      rw [hidx]; exact hns
    · cases h

/-! ### Runs -/

theorem runValue_append : ∀ (a b : List Token) (va vb : Str), runValue a = some va → runValue b = some vb →
    runValue (a ++ b) = some (va ++ vb) := by
  intro a
  induction a with
  | nil => intro b va vb ha hb; simp only [runValue, Option.some.injEq] at ha; subst ha; simpa using hb
  | cons t r ih =>
    intro b va vb ha hb
    cases t with
    | text s =>
      simp only [List.cons_append, runValue] at ha ⊢
      cases hp : parseContentGo false s.start 0 s.text with
      | error e => rw [hp] at ha; cases ha
      | ok v =>
        rw [hp] at ha
        cases hr : runValue r with
        | none => rw [hr] at ha; cases ha
        | some w =>
          rw [hr] at ha
          simp only [Option.some.injEq] at ha
          subst ha
          rw [ih b w vb hr hb]
          simp
    | cdata s sp =>
      simp only [List.cons_append, runValue] at ha ⊢
      cases hr : runValue r with
      | none => rw [hr] at ha; cases ha
      | some w =>
        rw [hr] at ha
        simp only [Option.map_some, Option.some.injEq] at ha
        subst ha
        rw [ih b w vb hr hb]
        simp
    | _ => simp only [List.cons_append, runValue] at ha ⊢; exact ih b va vb ha hb

theorem replaceCrLf_nil : replaceCrLf [] = [] := by unfold replaceCrLf; rfl

theorem runValue_passive : ∀ (l : List Token), (∀ t ∈ l, t.passive = true) → runValue l = some [] := by
  intro l
  induction l with
  | nil => intro _; rfl
  | cons t r ih =>
    intro h
    have ht := h t (by simp)
    have hr := ih (fun x hx => h x (by simp [hx]))
    cases t with
    | text s => simp [Token.passive] at ht
    | cdata s sp =>
      simp only [Token.passive] at ht
      have : s.text = [] := by simpa using ht
      simp only [runValue, hr, this, replaceCrLf_nil, replaceCr]
      rfl
    | _ => simp only [runValue]; exact hr

theorem Token.passive_isRunTok {t : Token} (h : t.passive = true) : t.isRunTok = true := by
  simp [Token.isRunTok, h]

/-- A run of one real token. -/
theorem runOk_single {t : Token} {sp : StrSpan} (hr : t.isReal = true) (hs : t.textSpan? = some sp) :
    RunOk [t] sp.span :=
  ⟨fun x hx => by simp only [List.mem_singleton] at hx; subst hx; simp [Token.isRunTok, hr],
    ⟨t, [], sp, rfl, hr, hs, rfl⟩, ⟨[], t, sp, rfl, hr, hs, rfl⟩⟩

/-- A run extended by passive tokens and one more real token. -/
theorem RunOk.extend {run skips : List Token} {sp : Span} {t : Token} {st : StrSpan} (h : RunOk run sp)
    (hsk : ∀ x ∈ skips, x.passive = true) (hr : t.isReal = true) (hs : t.textSpan? = some st) :
    RunOk (run ++ skips ++ [t]) ⟨sp.start, st.stop⟩ := by
  obtain ⟨t0, rest, f, he, h1, h2, h3⟩ := h.first
  refine ⟨?_, ⟨t0, rest ++ skips ++ [t], f, by rw [he]; simp, h1, h2, h3⟩, ⟨run ++ skips, t, st, rfl, hr, hs, rfl⟩⟩
  intro x hx
  simp only [List.mem_append, List.mem_singleton] at hx
  rcases hx with (hx | hx) | rfl
  · exact h.toks x hx
  · exact Token.passive_isRunTok (hsk x hx)
  · simp [Token.isRunTok, hr]

theorem OpenText.toFacts {ts done : List Token} {g : SpanKey → Option Span} {path : Path} {v : Str}
    (hpre : done <+: ts) (h : OpenText done g path v) : TextFacts ts g path v := by
  obtain ⟨run, skips, sp, hsuf, _, hok, hv, hg⟩ := h
  refine ⟨run, sp, ?_, hok, hv, hg⟩
  exact (List.infix_append_left.trans hsuf.isInfix).trans hpre.isInfix

/-- One more passive token. -/
theorem OpenText.skip {done : List Token} {g : SpanKey → Option Span} {path : Path} {v : Str} {t : Token}
    (ht : t.passive = true) (h : OpenText done g path v) : OpenText (done ++ [t]) g path v := by
  obtain ⟨run, skips, sp, hsuf, hsk, hok, hv, hg⟩ := h
  refine ⟨run, skips ++ [t], sp, ?_, ?_, hok, hv, hg⟩
  · obtain ⟨pre, hp⟩ := hsuf
    exact ⟨pre, by rw [← hp]; simp⟩
  · intro x hx
    simp only [List.mem_append, List.mem_singleton] at hx
    rcases hx with hx | rfl
    · exact hsk x hx
    · exact ht

theorem OpenText.congr {done : List Token} {g g' : SpanKey → Option Span} {path : Path} {v : Str}
    (hg : g' ⟨path, .text⟩ = g ⟨path, .text⟩) (h : OpenText done g path v) : OpenText done g' path v := by
  obtain ⟨run, skips, sp, hsuf, hsk, hok, hv, hgg⟩ := h
  exact ⟨run, skips, sp, hsuf, hsk, hok, hv, by rw [hg]; exact hgg⟩

/-! ### Seen paths -/

theorem Frozen.tail {f : Frame} {rest : List Frame} {x : Path} (h : Frozen rest x) : Frozen (f :: rest) x := .inr h

/-- The frame on top gets one more child (or keeps its children). -/
theorem Frozen.grow {f f' : Frame} {rest : List Frame} {x : Path} (hl : f.rkids.length ≤ f'.rkids.length)
    (h : Frozen (f :: rest) x) : Frozen (f' :: rest) x := by
  rcases h with ⟨i, hi, hp⟩ | h
  · exact .inl ⟨i, by omega, hp⟩
  · exact .inr h

theorem Seen.grow {f f' : Frame} {rest : List Frame} {x : Path} (hl : f.rkids.length ≤ f'.rkids.length)
    (h : Seen (f :: rest) x) : Seen (f' :: rest) x := by
  rcases h with h | h
  · exact .inl h
  · exact .inr (h.grow hl)

/-- The path of the next child of the top frame is not seen yet. -/
theorem not_seen_next (f : Frame) (rest : List Frame) : ¬ Seen (f :: rest) (framesPath (f :: rest)) := by
  rintro (h | h)
  · have := h.length_le
    simp only [List.tail_cons, framesPath_length, List.length_cons] at this
    omega
  · exact not_frozen (f :: rest) _ [] (by simp) h

/-- … and is seen once that child exists. -/
theorem seen_next {f f' : Frame} {rest : List Frame} (hl : f.rkids.length < f'.rkids.length) :
    Seen (f' :: rest) (framesPath (f :: rest)) :=
  .inr (.inl ⟨f.rkids.length, hl, by rw [framesPath_cons]; exact List.prefix_refl _⟩)

/-- A new frame on top: its own path is seen, everything seen stays seen. -/
theorem Seen.push {f : Frame} {l : List Frame} {x : Path} (h : Seen l x) (hl : l ≠ []) : Seen (f :: l) x := by
  cases l with
  | nil => exact absurd rfl hl
  | cons g rest =>
    rcases h with h | h
    · refine .inl (h.trans ?_)
      simp only [List.tail_cons, framesPath_cons]
      exact List.prefix_append _ _
    · exact .inr (.inr h)

/-- The top frame is closed into its parent. -/
theorem Seen.pop {c p p' : Frame} {rest : List Frame} {x : Path} (hl : p'.rkids.length = p.rkids.length + 1)
    (h : Seen (c :: p :: rest) x) : Seen (p' :: rest) x := by
  rcases h with h | h
  · -- a prefix of the closed node's path
    simp only [List.tail_cons, framesPath_cons] at h
    by_cases hx : x = framesPath rest ++ [p.rkids.length]
    · exact .inr (.inl ⟨p.rkids.length, by omega, by rw [hx]; exact List.prefix_refl _⟩)
    · left
      simp only [List.tail_cons]
      obtain ⟨t, ht⟩ := h
      -- x is a proper prefix
      rcases List.eq_nil_or_concat t with rfl | ⟨t', a, rfl⟩
      · exact absurd (by simpa using ht) hx
      · rw [List.concat_eq_append, ← List.append_assoc] at ht
        have := List.append_inj' ht rfl
        exact ⟨t', this.1⟩
  · rcases h with ⟨i, hi, hp⟩ | ⟨i, hi, hp⟩ | h
    · refine .inr (.inl ⟨p.rkids.length, by omega, ?_⟩)
      rw [framesPath_cons] at hp
      exact (List.prefix_append _ [i]).trans hp
    · exact .inr (.inl ⟨i, by omega, hp⟩)
    · exact .inr (.inr h)

end XotModel
