/-
  XotModel.Lemmas.RoundTripParams — C01 under non-default token parameters (`unescaped_gt`,
  CDATA-section elements): what the tokens of a text node are, which characters a CDATA section written by
  `serialize_cdata` carries, and the closed loop bundled (string → tokens → tree).  The tree induction is
  the one of C14_options (Lemmas/SerOpt*.lean: `serTokensAtO`, `spellAtO`, `NSNode.Resp`); this file adds
  the statements Props/C01.lean exports.
-/
import XotModel.Lemmas.SerOptMain
import XotModel.Lemmas.C14Proofs

namespace XotModel
open Gen

/-! ### The tokens of one text node -/

/-- Outside CDATA-section elements: ONE text token, `serialize_text` with the `unescaped_gt` setting. -/
theorem textTokens_plain (pr : TokenParams) (str : Str) :
    textTokens pr false str = [.text (sp0 (serializeText pr.unescapedGt str))] := by
  simp [textTokens, textParts, SPart.token, renderPieces_txtPieces, sp0]

/-- Under a CDATA-section element: the run `cdataTokens` (`unescaped_gt` plays no role). -/
theorem textTokens_cdata (pr : TokenParams) (str : Str) : textTokens pr true str = cdataTokens str := by
  simp [textTokens, textParts, cdataTokens]

/-- A text leaf contributes exactly `textTokens`. -/
theorem serNodeO_text_leaf (env : Env) (pr : TokenParams) (inScope : List (Nat × Nat)) (isTop : Bool)
    (s : FStack) (cd : Bool) (str : Str) :
    serNodeO env pr inScope isTop s cd (.node (.text str) []) = .ok (textTokens pr cd str) := by
  simp [serNodeO, serNodeO.serKidsO, appendOk]

/-! ### What a CDATA section written by `serialize_cdata` carries -/

/-- The characters of every section are characters of the text (or of the section already begun):
    nothing is escaped, nothing is added. -/
theorem cdataPartsGo_chars (s : Str) : ∀ (rc : Str) (t j : StrSpan), SPart.cd t j ∈ cdataPartsGo rc s →
    ∀ c ∈ t.text, c ∈ rc ∨ c ∈ s := by
  induction s with
  | nil =>
    intro rc t j hm c hc
    simp only [cdataPartsGo, List.mem_singleton, SPart.cd.injEq] at hm
    rw [hm.1] at hc
    left; simpa [sp0] using hc
  | cons d ds ih =>
    intro rc t j hm c hc
    unfold cdataPartsGo at hm
    split at hm
    · rename_i hd
      rcases List.mem_cons.mp hm with h | h
      · simp only [SPart.cd.injEq] at h
        rw [h.1] at hc
        left; simpa [sp0] using hc
      · rcases ih ['>'] t j h c hc with h' | h'
        · right
          simp only [List.mem_singleton] at h'
          rw [h', hd.1]; simp
        · right; exact List.mem_cons_of_mem _ h'
    · split at hm
      · rcases List.mem_cons.mp hm with h | h
        · simp only [SPart.cd.injEq] at h
          rw [h.1] at hc
          left; simpa [sp0] using hc
        · rcases List.mem_cons.mp h with h | h
          · simp [crPart] at h
          · rcases ih [] t j h c hc with h' | h'
            · simp at h'
            · right; exact List.mem_cons_of_mem _ h'
      · rcases ih (d :: rc) t j hm c hc with h' | h'
        · rcases List.mem_cons.mp h' with rfl | h''
          · right; simp
          · left; exact h''
        · right; exact List.mem_cons_of_mem _ h'

/-- The only text part of the run is the reference `&#xD;`. -/
theorem cdataPartsGo_txt (s : Str) : ∀ (rc : Str) (ps : List Piece) (st : Nat),
    SPart.txt ps st ∈ cdataPartsGo rc s → SPart.txt ps st = crPart := by
  induction s with
  | nil =>
    intro rc ps st hm
    simp [cdataPartsGo] at hm
  | cons d ds ih =>
    intro rc ps st hm
    unfold cdataPartsGo at hm
    split at hm
    · rcases List.mem_cons.mp hm with h | h
      · cases h
      · exact ih _ ps st h
    · split at hm
      · rcases List.mem_cons.mp hm with h | h
        · cases h
        · rcases List.mem_cons.mp h with h | h
          · exact h
          · exact ih _ ps st h
      · exact ih _ ps st hm

/-- **What a section carries.**  For a text of XML characters, every CDATA token of the run
    `serialize_cdata` stands for consists of XML characters of the text, written as they are, contains no
    `]]>` and no carriage return. -/
theorem cdata_sections_carry (s : Str) (hs : s.all isXmlChar = true) (t j : StrSpan)
    (hm : SPart.cd t j ∈ cdataPartsGo [] s) :
    t.text.all isXmlChar = true ∧ hasCdataEnd t.text = false ∧ '\r' ∉ t.text ∧ ∀ c ∈ t.text, c ∈ s := by
  have hsub : ∀ c ∈ t.text, c ∈ s := by
    intro c hc
    rcases cdataPartsGo_chars s [] t j hm c hc with h | h
    · simp at h
    · exact h
  have hok := cdataPartsGo_lexOK s hs [] rfl rfl _ hm
  simp only [SPart.token, Token.lexOK, Bool.and_eq_true, Bool.not_eq_true', hasInfix_cdataEnd] at hok
  exact ⟨hok.1, hok.2, cdataPartsGo_noCr s [] (by simp) t j hm, hsub⟩

/-- **No escaping inside a section**: a character of the text that is no XML character (it is not the
    carriage return, which is one) is written raw into some section, and that CDATA token violates the
    tokenizer's side condition — the crate has no way to write it. -/
theorem cdata_nonXmlChar_unwritable (s : Str) (c : Char) (hc : c ∈ s) (hx : isXmlChar c = false) :
    ∃ k ∈ cdataTokens s, k.lexOK = false := by
  have hv := partsValue_cdataPartsGo s [] (by simp)
  simp only [List.reverse_nil, List.nil_append] at hv
  rw [← hv, partsValue, List.mem_flatMap] at hc
  obtain ⟨p, hp, hcp⟩ := hc
  cases p with
  | txt ps st =>
    rw [cdataPartsGo_txt s [] ps st hp, crPart_value, List.mem_singleton] at hcp
    subst hcp
    exact absurd hx (by decide)
  | cd t j =>
    have hcr := cdataPartsGo_noCr s [] (by simp) t j hp
    have hval : SPart.value (.cd t j) = t.text := by
      simp only [SPart.value]
      rw [replaceCrLf_noCr _ hcr, replaceCr_noCr _ hcr]
    rw [hval] at hcp
    refine ⟨SPart.token (.cd t j), List.mem_map.mpr ⟨_, hp, rfl⟩, ?_⟩
    simp only [SPart.token, Token.lexOK, Bool.and_eq_false_iff]
    left
    rw [List.all_eq_false]
    exact ⟨c, hcp, by simp [hx]⟩

/-! ### `unescaped_gt` described on the input -/

/-- `serialize_text(unescaped_gt = true)` described on the INPUT: `rin` = the characters read so far,
    reversed; a `>` is escaped exactly when the two characters before it are `]]`. -/
def gtIn : Str → Str → Str
  | _, [] => []
  | rin, c :: cs =>
    (if c = '>' then (if startsBrBr rin then textGtEscape else ['>']) else escapeWith textEscapes c) ++
      gtIn (c :: rin) cs

theorem startsBrBr_head {l : Str} (h : startsBrBr l = true) : l.head? = some ']' := by
  match l with
  | [] => simp [startsBrBr] at h
  | [a] => simp [startsBrBr] at h
  | a :: b :: r =>
    simp only [startsBrBr, Bool.and_eq_true, beq_iff_eq] at h
    simp [h.1]

theorem startsBrBr_cons_bracket (l : Str) : startsBrBr (']' :: l) = decide (l.head? = some ']') := by
  match l with
  | [] => simp [startsBrBr]
  | b :: r => by_cases h : b = ']' <;> simp [startsBrBr, h]

theorem startsBrBr_of_head_ne {l : Str} (h : l.head? ≠ some ']') : startsBrBr l = false := by
  cases hb : startsBrBr l with
  | false => rfl
  | true => exact absurd (startsBrBr_head hb) h

/-- What an escaped character leaves at the end of the output: `]` only for `]` itself. -/
theorem escape_last (c : Char) (hc : c ≠ ']') (racc : Str) :
    ((escapeWith textEscapes c).reverse ++ racc).head? ≠ some ']' := by
  by_cases h2 : c = '&'
  · subst h2
    simp [escapeWith, textEscapes, List.lookup]
  by_cases h3 : c = '<'
  · subst h3
    simp [escapeWith, textEscapes, List.lookup]
  by_cases h4 : c = '\r'
  · subst h4
    simp [escapeWith, textEscapes, List.lookup]
  have e2 : (c == '&') = false := by simpa using h2
  have e3 : (c == '<') = false := by simpa using h3
  have e4 : (c == '\r') = false := by simpa using h4
  simp [escapeWith, textEscapes, List.lookup, e2, e3, e4, hc]

theorem gtOut_eq_gtIn (s : Str) : ∀ (racc rin : Str), startsBrBr racc = startsBrBr rin →
    (racc.head? = some ']' ↔ rin.head? = some ']') → gtOut racc s = gtIn rin s := by
  induction s with
  | nil => intro racc rin _ _; rfl
  | cons c cs ih =>
    intro racc rin h1 h2
    unfold gtOut gtIn
    by_cases hg : c = '>'
    · subst hg
      rw [gtPiece_gt, h1]
      simp only [if_true]
      congr 1
      apply ih
      · rw [startsBrBr_of_head_ne, startsBrBr_of_head_ne]
        · simp
        · split <;> simp [textGtEscape]
      · constructor
        · intro h; exfalso; revert h; split <;> simp [textGtEscape]
        · intro h; simp at h
    · have hp : gtPiece racc c = escapeWith textEscapes c := by simp [gtPiece, hg]
      rw [hp]
      simp only [hg, if_false]
      congr 1
      apply ih
      · by_cases hb : c = ']'
        · subst hb
          have : escapeWith textEscapes ']' = [']'] := by decide
          rw [this]
          simp only [List.reverse_cons, List.reverse_nil, List.nil_append, List.cons_append]
          rw [startsBrBr_cons_bracket, startsBrBr_cons_bracket]
          simp [h2]
        · rw [startsBrBr_of_head_ne (escape_last c hb racc), startsBrBr_of_head_ne]
          simp [hb]
      · by_cases hb : c = ']'
        · subst hb
          have : escapeWith textEscapes ']' = [']'] := by decide
          rw [this]; simp
        · constructor
          · intro h; exact absurd h (escape_last c hb racc)
          · intro h; simp at h; exact absurd h hb

theorem serializeText_true_input (s : Str) : serializeText true s = gtIn [] s := by
  rw [serializeText_true_eq]
  exact gtOut_eq_gtIn s [] [] rfl (by simp)


/-! ### The closed loop, bundled -/

variable (env : Env) (pr : TokenParams)

/-- Everything the round trip under token parameters says, in one statement (`parse`): the string is the
    canonical rendering of `serTokensAtO`; the reference tokenizer returns exactly those tokens (up to
    byte positions) without error; the builder turns them into the original tree, tables unchanged. -/
theorem params_roundtrip_full {t : Tree} (hr : Representable env t = true) {s : Str}
    (hs : serializeString env pr t [] = .ok s) :
    ∃ ts ts' p, serTokensAtO env pr t [] = .ok ts ∧ s = renderTokens ts ∧ LexOK false ts = true ∧
      lexDocument s = (ts', none) ∧ ts'.map Token.erase = ts.map Token.erase ∧
      parseString .document env s = .ok p ∧ p.tree = t ∧ p.env = env ∧ deepEqual p.tree t = true := by
  have hfrag : RepresentableFragment env t = true := by
    simp only [Representable, Bool.and_eq_true] at hr; exact hr.1
  obtain ⟨ts, hser, rfl⟩ := serializeString_ok_representable env pr hfrag [] hs
  have hl := options_lexOK env pr hr hser
  obtain ⟨ts', h1, h2, _⟩ := lexDocument_render_erase ts hl
  obtain ⟨p, hp, ht, he⟩ := options_roundtrip env pr hr hs
  refine ⟨ts, ts', p, hser, rfl, hl, h1, h2, hp, ht, he, ?_⟩
  rw [ht]
  exact deepEqual_self_representable env hfrag

/-- `parse_fragment`. -/
theorem params_roundtrip_full_fragment {t : Tree} (hr : RepresentableFragment env t = true) {s : Str}
    (hs : serializeString env pr t [] = .ok s) :
    ∃ ts ts' p, serTokensAtO env pr t [] = .ok ts ∧ s = renderTokens ts ∧ LexOK true ts = true ∧
      lexFragment s = (ts', none) ∧ ts'.map Token.erase = ts.map Token.erase ∧
      parseString .fragment env s = .ok p ∧ p.tree = t ∧ p.env = env ∧ deepEqual p.tree t = true := by
  obtain ⟨ts, hser, rfl⟩ := serializeString_ok_representable env pr hr [] hs
  have hl := options_lexOK_fragment env pr hr hser
  obtain ⟨ts', h1, h2, _⟩ := lexFragment_render_erase ts hl
  obtain ⟨p, hp, ht, he⟩ := options_roundtrip_fragment env pr hr hs
  refine ⟨ts, ts', p, hser, rfl, hl, h1, h2, hp, ht, he, ?_⟩
  rw [ht]
  exact deepEqual_self_representable env hr

end XotModel
