/-
  FparseHist, part 1: the CONVERSE of the bridge of Lemmas/ReachNode.lean, and the tree an accepted parse
  installs.

  `Reach.forall_erase` turns the tree clause `validTree` of the forest invariant into `Tree.Forall` facts
  about the erased tree.  Here the other direction: a handle tree whose erasure satisfies `SoundAt`
  (Lemmas/ParseSound.lean: ordered children, kind rules, no adjacent text, unique attribute names and
  prefixes — what `C03_sound` proves of every accepted tree) at every node is `validTree`, strictly.
  With `erase (ofTree n t) = t`: the tree `IdStore.parseInto` installs for an accepted text is valid
  (`fph_parseOK`), which is the hypothesis `IdStore.parseOK` of `C04_parse_inv` / `C04_reach_parse`,
  now a theorem.
-/
import XotModel.Lemmas.ReachNode
import XotModel.Lemmas.ParseSound
import XotModel.Lemmas.FinvIdIndex
import XotModel.Model.FparseHist

namespace XotModel
open HTree

/-! ### `ofTree` forgets to the tree it numbers -/

mutual
  theorem fph_erase_ofTree (n : Nat) : ∀ t : Tree, (ofTree n t).erase = t
    | .node v ks => by rw [ofTree, erase, fph_eraseList_ofTreeList (n + 1) ks]
  theorem fph_eraseList_ofTreeList (n : Nat) : ∀ ks : List Tree, eraseList (ofTreeList n ks) = ks
    | [] => by simp [ofTreeList, eraseList]
    | k :: ks => by rw [ofTreeList, eraseList, fph_erase_ofTree n k, fph_eraseList_ofTreeList (n + k.size) ks]
end

/-! ### The local clauses, from the erased tree back to the handle tree -/

theorem fph_kidsOrdered_of_erase : ∀ ks : List HTree, OrderedKids (eraseList ks) → kidsOrdered ks = true
  | [], _ => rfl
  | [_], _ => rfl
  | a :: b :: ks, h => by
    unfold OrderedKids at h
    simp only [eraseList, List.pairwise_cons] at h
    have hab := h.1 (erase b) (List.mem_cons_self ..)
    rw [Reach.erase_value, Reach.erase_value, Reach.phase_eq_rank, Reach.phase_eq_rank] at hab
    have ih := fph_kidsOrdered_of_erase (b :: ks) (by
      unfold OrderedKids; simp only [eraseList, List.pairwise_cons]; exact h.2)
    simp only [kidsOrdered, Bool.and_eq_true, decide_eq_true_eq]
    exact ⟨hab, ih⟩

theorem fph_mem_eraseList {ks : List HTree} {k : HTree} (h : k ∈ ks) : erase k ∈ eraseList ks := by
  rw [Reach.eraseList_eq_map]; exact List.mem_map_of_mem h

theorem fph_kidAllowed_of_erase {v : Value} {ks : List HTree} (h : KindsOk v (eraseList ks)) :
    ∀ k ∈ ks, kidAllowed v k.value = true := by
  intro k hk
  obtain ⟨h1, h2, h3⟩ := h
  have hm := fph_mem_eraseList hk
  have hd := h3 _ hm
  rw [Reach.erase_value] at hd
  cases v with
  | element n => simp [kidAllowed, hd]
  | document =>
    have hn := h2 rfl _ hm
    rw [Reach.erase_value] at hn
    simp [kidAllowed, hd, hn]
  | text s => have := h1 rfl; rw [this] at hm; cases hm
  | comment s => have := h1 rfl; rw [this] at hm; cases hm
  | pi t d => have := h1 rfl; rw [this] at hm; cases hm
  | «attribute» n s => have := h1 rfl; rw [this] at hm; cases hm
  | «namespace» p n => have := h1 rfl; rw [this] at hm; cases hm

theorem fph_keysUnique_of_erase {ks : List HTree} (h : UniqueKids (eraseList ks)) :
    keysUnique .attribute ks = true ∧ keysUnique .namespace ks = true := by
  obtain ⟨ha, hn⟩ := h
  rw [Reach.attrNames_eraseList] at ha
  rw [Reach.nsPrefixes_eraseList] at hn
  exact ⟨by simpa [keysUnique] using ha, by simpa [keysUnique] using hn⟩

/-! ### The converse bridge -/

mutual
  /-- A handle tree whose erasure is sound at every node is valid — strictly: `SoundAt` has the
      no-adjacent-text clause, so the flag does not matter. -/
  theorem fph_validTree_of_erase (b : Bool) : ∀ r : HTree, (erase r).Forall SoundAt → validTree b r = true
    | .node h v ks => by
      intro hs
      simp only [erase] at hs
      rw [Tree.Forall] at hs
      obtain ⟨⟨ho, hk, hadj, hu⟩, hl⟩ := hs
      have hU := fph_keysUnique_of_erase hu
      have hA : ks.all (fun k => kidAllowed v k.value) = true :=
        List.all_eq_true.mpr (fph_kidAllowed_of_erase hk)
      have hN : noAdjacentText ks = true := by rw [← Reach.noAdjText_eraseList]; exact hadj
      simp only [validTree, Bool.and_eq_true, Bool.or_eq_true]
      exact ⟨⟨⟨⟨⟨hA, fph_kidsOrdered_of_erase ks ho⟩, hU.1⟩, hU.2⟩, Or.inr hN⟩,
        fph_validList_of_erase b ks hl⟩
  theorem fph_validList_of_erase (b : Bool) : ∀ ks : List HTree,
      Tree.Forall.forallList SoundAt (eraseList ks) → validList b ks = true
    | [] => fun _ => rfl
    | k :: ks => by
      intro hs
      simp only [eraseList, Tree.Forall.forallList] at hs
      simp only [validList, Bool.and_eq_true]
      exact ⟨fph_validTree_of_erase b k hs.1, fph_validList_of_erase b ks hs.2⟩
end

/-- The tree of a sound `Tree`, numbered from anywhere, is valid. -/
theorem fph_validTree_ofTree (b : Bool) (n : Nat) (t : Tree) (h : t.Forall SoundAt) :
    validTree b (ofTree n t) = true :=
  fph_validTree_of_erase b _ (by rw [fph_erase_ofTree]; exact h)

/-- **`IdStore.parseOK` is a theorem for the trees the builder returns**, from any token list. -/
theorem fph_parseOK_build (s : IdStore) {m : Mode} {len : Nat} {env : Env} {ts : List Token}
    {lexErr : Option Nat} {p : Parsed} (h : build m len env ts lexErr = .ok p) : s.parseOK p.tree :=
  fph_validTree_ofTree _ _ _ (build_sound h).1

/-- … in particular for every accepted text. -/
theorem fph_parseOK (s : IdStore) {m : Mode} {env : Env} {text : Str} {p : Parsed}
    (h : parseString m env text = .ok p) : s.parseOK p.tree :=
  fph_parseOK_build s h

/-- The root of an accepted tree is a document node. -/
theorem fph_parsed_document {m : Mode} {env : Env} {text : Str} {p : Parsed}
    (h : parseString m env text = .ok p) : p.tree.value = .document :=
  (build_sound h).2

end XotModel
