/-
  Lemmas for C13, part 5: string_value of a document / element is the concatenated text of the
  canonical form.
-/
import XotModel.Lemmas.CompareCanon

namespace XotModel

/-- The text of a list of nodes as `descendants_to_string` collects it. -/
def textOfNodes (l : List Tree) : Str :=
  ((l.filter fun n => n.value.isNormal).filterMap Tree.textStr).flatten

theorem textOfNodes_append (a b : List Tree) : textOfNodes (a ++ b) = textOfNodes a ++ textOfNodes b := by
  simp [textOfNodes, List.filter_append, List.filterMap_append, List.flatten_append]

theorem textOfNodes_cons (t : Tree) (l : List Tree) :
    textOfNodes (t :: l) = textOfNodes [t] ++ textOfNodes l := textOfNodes_append [t] l

theorem descendantsToString_eq (t : Tree) : descendantsToString t = textOfNodes (allDescendants t) := rfl

theorem leavesList_iff (ks : List Tree) :
    Tree.contentLeaves.leavesList ks = true ↔ ∀ k ∈ ks, k.contentLeaves = true := by
  induction ks with
  | nil => simp [Tree.contentLeaves.leavesList]
  | cons k ks ih => simp [Tree.contentLeaves.leavesList, ih]

/-- What `descendants_to_string` collects below one node. -/
def TextSpec (t : Tree) : Prop :=
  t.valid = true → t.contentLeaves = true →
    textOfNodes (allDescendants t) = if t.value.isNormal then (canon t).text else []

theorem textOfNodes_kids (ks : List Tree) (ih : ∀ k ∈ ks, TextSpec k)
    (hv : ∀ k ∈ ks, k.valid = true) (hl : ∀ k ∈ ks, k.contentLeaves = true) :
    textOfNodes (allDescendants.allDescendantsList ks) = Canon.text.textList (canon.canonList ks) := by
  induction ks with
  | nil => simp [allDescendants.allDescendantsList, textOfNodes, canon.canonList, Canon.text.textList]
  | cons k ks ihk =>
    have hk := ih k List.mem_cons_self (hv k List.mem_cons_self) (hl k List.mem_cons_self)
    have hrest := ihk (fun x hx => ih x (List.mem_cons_of_mem _ hx)) (fun x hx => hv x (List.mem_cons_of_mem _ hx))
      (fun x hx => hl x (List.mem_cons_of_mem _ hx))
    simp only [allDescendants.allDescendantsList, textOfNodes_append, hk, hrest]
    by_cases hn : k.value.isNormal = true
    · simp [canon.canonList, hn, Canon.text.textList]
    · simp [canon.canonList, hn]

theorem contentLeaves_node {v : Value} {ks : List Tree} (h : (Tree.node v ks).contentLeaves = true) :
    ((v.isText = true ∨ (∃ s, v = .comment s) ∨ (∃ t d, v = .pi t d)) → ks = []) ∧
      ∀ k ∈ ks, k.contentLeaves = true := by
  simp only [Tree.contentLeaves, Bool.and_eq_true, leavesList_iff] at h
  refine ⟨?_, h.2⟩
  have h1 := h.1
  cases v <;> simp [Value.isText] at h1 ⊢
  all_goals exact h1

theorem textSpec (t : Tree) : TextSpec t := by
  induction t using Tree.induct_mem with
  | h v ks ih =>
    intro hv hl
    obtain ⟨_, _, hleaf, hvk⟩ := valid_node hv
    obtain ⟨hcl, hlk⟩ := contentLeaves_node hl
    have hkids := textOfNodes_kids ks ih hvk hlk
    simp only [allDescendants]
    rw [textOfNodes_cons, hkids]
    cases v
    case document =>
      simp [textOfNodes, Tree.textStr, Tree.value, Value.isNormal, Value.category, canon, cvalue, Canon.text]
    case element n =>
      simp [textOfNodes, Tree.textStr, Tree.value, Value.isNormal, Value.category, canon, cvalue, Canon.text]
    case text s =>
      have : ks = [] := hcl (Or.inl rfl)
      subst this
      simp [textOfNodes, Tree.textStr, Tree.value, Value.isNormal, Value.category, canon, cvalue, Canon.text,
        canon.canonList, Canon.text.textList]
    case comment s =>
      have : ks = [] := hcl (Or.inr (Or.inl ⟨s, rfl⟩))
      subst this
      simp [textOfNodes, Tree.textStr, Tree.value, Value.isNormal, Value.category, canon, cvalue, Canon.text,
        canon.canonList, Canon.text.textList]
    case pi t d =>
      have : ks = [] := hcl (Or.inr (Or.inr ⟨t, d, rfl⟩))
      subst this
      simp [textOfNodes, Tree.textStr, Tree.value, Value.isNormal, Value.category, canon, cvalue, Canon.text,
        canon.canonList, Canon.text.textList]
    case «attribute» n s =>
      have : ks = [] := by
        rcases hleaf with h | h
        · simp [Value.isNormal, Value.category] at h
        · exact h
      subst this
      simp [textOfNodes, Tree.value, Value.isNormal, Value.category, canon.canonList, Canon.text.textList]
    case «namespace» p n =>
      have : ks = [] := by
        rcases hleaf with h | h
        · simp [Value.isNormal, Value.category] at h
        · exact h
      subst this
      simp [textOfNodes, Tree.value, Value.isNormal, Value.category, canon.canonList, Canon.text.textList]

end XotModel
