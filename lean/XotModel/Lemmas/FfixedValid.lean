/-
  Any handle-labelled copy of `treeOfContent c` for a well-formed `c` is structurally valid
  (`validTree`, the C04 predicate): so every C20 route turns a store satisfying `Forest.Inv` into
  a store satisfying `Forest.Inv`.
-/
import XotModel.Lemmas.FfixedTopDown

namespace XotModel
open HTree

theorem eraseList_eq_append : ∀ (a : List Tree) (ks : List HTree) (b : List Tree),
    eraseList ks = a ++ b → ∃ k1 k2, ks = k1 ++ k2 ∧ eraseList k1 = a ∧ eraseList k2 = b
  | [], ks, b, h => ⟨[], ks, rfl, rfl, h⟩
  | x :: a, [], b, h => by simp [eraseList] at h
  | x :: a, k :: ks, b, h => by
    simp only [eraseList, List.cons_append, List.cons.injEq] at h
    obtain ⟨k1, k2, rfl, h1, h2⟩ := eraseList_eq_append a ks b h.2
    exact ⟨k :: k1, k2, rfl, by simp [eraseList, h.1, h1], h2⟩

theorem erase_leaf {t : HTree} {v : Value} (h : t.erase = .node v []) : t.value = v ∧ t.kids = [] := by
  cases t with
  | node hh vv ks =>
    simp only [erase, Tree.node.injEq] at h
    refine ⟨h.1, ?_⟩
    cases ks with
    | nil => rfl
    | cons k ks => simp [eraseList] at h

theorem eraseList_leaves : ∀ (vs : List Value) (ks : List HTree),
    eraseList ks = vs.map (fun v => Tree.node v []) →
    ks.map HTree.value = vs ∧ ∀ k ∈ ks, k.kids = []
  | [], [], _ => ⟨rfl, by intro k hk; cases hk⟩
  | [], k :: ks, h => by simp [eraseList] at h
  | v :: vs, [], h => by simp [eraseList] at h
  | v :: vs, k :: ks, h => by
    simp only [eraseList, List.map_cons, List.cons.injEq] at h
    obtain ⟨h1, h2⟩ := eraseList_leaves vs ks h.2
    obtain ⟨hv, hk⟩ := erase_leaf h.1
    refine ⟨by simp [hv, h1], ?_⟩
    intro x hx
    rw [List.mem_cons] at hx
    rcases hx with rfl | hx
    · exact hk
    · exact h2 x hx

theorem validTree_leaf (b : Bool) (t : HTree) (h : t.kids = []) : validTree b t = true := by
  cases t with
  | node hh v ks =>
    simp only [HTree.kids] at h
    subst h
    simp [validTree, kidsOrdered, keysUnique, noAdjacentText, validList]

theorem validList_leaves (b : Bool) : ∀ ks : List HTree, (∀ k ∈ ks, k.kids = []) → validList b ks = true
  | [], _ => rfl
  | k :: ks, h => by
    simp only [validList, Bool.and_eq_true]
    exact ⟨validTree_leaf b k (h k (by simp)),
      validList_leaves b ks (fun x hx => h x (List.mem_cons_of_mem _ hx))⟩

theorem ff_validList_append (b : Bool) (a c : List HTree) :
    validList b (a ++ c) = (validList b a && validList b c) := by
  induction a with
  | nil => simp [validList]
  | cons k ks ih => simp [validList, ih, Bool.and_assoc]

theorem kidsOrdered_append : ∀ (a c : List HTree), kidsOrdered a = true → kidsOrdered c = true →
    (∀ x ∈ a, ∀ y ∈ c, x.value.category.rank ≤ y.value.category.rank) → kidsOrdered (a ++ c) = true
  | [], c, _, hc, _ => hc
  | [x], [], _, _, _ => rfl
  | [x], y :: c, _, hc, h => by
    simp only [List.cons_append, List.nil_append, kidsOrdered, Bool.and_eq_true, decide_eq_true_eq]
    exact ⟨h x (by simp) y (by simp), hc⟩
  | x :: x' :: a, c, ha, hc, h => by
    simp only [kidsOrdered, Bool.and_eq_true, decide_eq_true_eq] at ha
    simp only [List.cons_append, kidsOrdered, Bool.and_eq_true, decide_eq_true_eq]
    exact ⟨ha.1, kidsOrdered_append (x' :: a) c ha.2 hc
      (fun u hu w hw => h u (List.mem_cons_of_mem _ hu) w hw)⟩

theorem kidsOrdered_const (r : Nat) : ∀ a : List HTree, (∀ x ∈ a, x.value.category.rank = r) →
    kidsOrdered a = true
  | [], _ => rfl
  | [_], _ => rfl
  | x :: y :: a, h => by
    simp only [kidsOrdered, Bool.and_eq_true, decide_eq_true_eq]
    refine ⟨by rw [h x (by simp), h y (by simp)]; exact Nat.le_refl _, ?_⟩
    exact kidsOrdered_const r (y :: a) (fun u hu => h u (List.mem_cons_of_mem _ hu))

theorem noAdjacentText_of_no_text : ∀ l : List HTree, (∀ k ∈ l, k.value.isText = false) →
    noAdjacentText l = true
  | [], _ => rfl
  | [_], _ => rfl
  | a :: b :: rest, h => by
    simp only [noAdjacentText, Bool.and_eq_true]
    exact ⟨by simp [h a (by simp)],
      noAdjacentText_of_no_text (b :: rest) (fun c hc => h c (List.mem_cons_of_mem _ hc))⟩

mutual
  theorem FContent.wf_weaken : ∀ (c : FContent) (b : Bool), c.wf b = true → c.wf false = true
    | .text _, _, _ => rfl
    | .comment _, _, _ => rfl
    | .pi _ _, _, _ => rfl
    | .element nm ps as cs, b, h => by
      simp only [FContent.wf, Bool.and_eq_true, decide_eq_true_eq] at h ⊢
      exact ⟨⟨⟨h.1.1.1, h.1.1.2⟩, by simp⟩, FContent.wfList_weaken cs b h.2⟩
  theorem FContent.wfList_weaken : ∀ (cs : List FContent) (b : Bool), FContent.wfList b cs = true →
      FContent.wfList false cs = true
    | [], _, _ => rfl
    | c :: cs, b, h => by
      simp only [FContent.wfList, Bool.and_eq_true] at h ⊢
      exact ⟨FContent.wf_weaken c b h.1, FContent.wfList_weaken cs b h.2⟩
end

theorem ns_part {ps : List (Nat × Nat)} {k1 : List HTree} (h : eraseList k1 = ps.map nsTree) :
    k1.map HTree.value = ps.map Forest.nsVal ∧ ∀ k ∈ k1, k.kids = [] := by
  apply eraseList_leaves
  rw [h, List.map_map]; rfl

theorem attr_part {as : List (Nat × Str)} {k2 : List HTree} (h : eraseList k2 = as.map attrTree) :
    k2.map HTree.value = as.map Forest.attrVal ∧ ∀ k ∈ k2, k.kids = [] := by
  apply eraseList_leaves
  rw [h, List.map_map]; rfl

theorem value_mem_of_map {ks : List HTree} {vs : List Value} (h : ks.map HTree.value = vs)
    {k : HTree} (hk : k ∈ ks) : k.value ∈ vs := by
  rw [← h]; exact List.mem_map.2 ⟨k, hk, rfl⟩

mutual
  theorem validTree_of_erase : ∀ (c : FContent) (t : HTree) (b : Bool), t.erase = treeOfContent c →
      c.wf b = true → validTree b t = true
    | .text s, t, b, h, _ => validTree_leaf b t (erase_leaf h).2
    | .comment s, t, b, h, _ => validTree_leaf b t (erase_leaf h).2
    | .pi tt d, t, b, h, _ => validTree_leaf b t (erase_leaf h).2
    | .element nm ps as cs, .node hh v ks, b, h, hwf => by
      simp only [erase, treeOfContent, Tree.node.injEq] at h
      obtain ⟨hv, hks⟩ := h
      subst hv
      obtain ⟨k1, k23, rfl, h1, h23⟩ := eraseList_eq_append _ ks _ hks
      obtain ⟨k2, k3, rfl, h2, h3⟩ := eraseList_eq_append _ k23 _ h23
      simp only [FContent.wf, Bool.and_eq_true, decide_eq_true_eq, Bool.or_eq_true] at hwf
      obtain ⟨⟨⟨hps, has⟩, hadj⟩, hwfl⟩ := hwf
      obtain ⟨hv1, hl1⟩ := ns_part h1
      obtain ⟨hv2, hl2⟩ := attr_part h2
      have hc1 : ∀ k ∈ k1, k.value.category = .namespace := by
        intro k hk
        have := value_mem_of_map hv1 hk
        obtain ⟨p, _, e⟩ := List.mem_map.1 this
        rw [← e]; rfl
      have hc2 : ∀ k ∈ k2, k.value.category = .attribute := by
        intro k hk
        have := value_mem_of_map hv2 hk
        obtain ⟨p, _, e⟩ := List.mem_map.1 this
        rw [← e]; rfl
      have hc3 := built_normal k3 cs h3
      have hc3' : ∀ k ∈ k3, k.value.category = .normal := by
        intro k hk
        have := (hc3 k hk).1
        simpa [Value.isNormal] using this
      have hkeys1 : k1.map (fun k => Forest.entryKey k.value) = ps.map (·.1) := by
        have : k1.map (fun k => Forest.entryKey k.value) = (k1.map HTree.value).map Forest.entryKey := by
          rw [List.map_map]; rfl
        rw [this, hv1, List.map_map]; rfl
      have hkeys2 : k2.map (fun k => Forest.entryKey k.value) = as.map (·.1) := by
        have : k2.map (fun k => Forest.entryKey k.value) = (k2.map HTree.value).map Forest.entryKey := by
          rw [List.map_map]; rfl
        rw [this, hv2, List.map_map]; rfl
      unfold validTree
      simp only [Bool.and_eq_true]
      refine ⟨⟨⟨⟨⟨?_, ?_⟩, ?_⟩, ?_⟩, ?_⟩, ?_⟩
      · -- what may sit under an element
        rw [List.all_eq_true]
        intro k hk
        simp only [List.mem_append] at hk
        simp only [kidAllowed, Bool.not_eq_true']
        rcases hk with hk | hk | hk
        · have := hc1 k hk; cases hvv : k.value <;> simp_all [Value.category, Value.isDocument]
        · have := hc2 k hk; cases hvv : k.value <;> simp_all [Value.category, Value.isDocument]
        · exact (hc3 k hk).2
      · -- order
        apply kidsOrdered_append _ _ (kidsOrdered_const 0 k1 (fun x hx => by rw [hc1 x hx]; rfl))
        · apply kidsOrdered_append _ _ (kidsOrdered_const 1 k2 (fun x hx => by rw [hc2 x hx]; rfl))
            (kidsOrdered_const 2 k3 (fun x hx => by rw [hc3' x hx]; rfl))
          intro x hx y hy
          rw [hc2 x hx, hc3' y hy]; decide
        · intro x hx y hy
          rw [hc1 x hx]
          exact Nat.zero_le _
      · -- attribute names
        simp only [keysUnique, List.filter_append, List.map_append, decide_eq_true_eq]
        have e1 : k1.filter (fun k => k.value.category == Category.attribute) = [] := by
          rw [List.filter_eq_nil_iff]; intro k hk; rw [hc1 k hk]; decide
        have e2 : k2.filter (fun k => k.value.category == Category.attribute) = k2 := by
          rw [List.filter_eq_self]; intro k hk; rw [hc2 k hk]; decide
        have e3 : k3.filter (fun k => k.value.category == Category.attribute) = [] := by
          rw [List.filter_eq_nil_iff]; intro k hk; rw [hc3' k hk]; decide
        rw [e1, e2, e3]
        simpa [hkeys2] using has
      · -- prefixes
        simp only [keysUnique, List.filter_append, List.map_append, decide_eq_true_eq]
        have e1 : k1.filter (fun k => k.value.category == Category.namespace) = k1 := by
          rw [List.filter_eq_self]; intro k hk; rw [hc1 k hk]; decide
        have e2 : k2.filter (fun k => k.value.category == Category.namespace) = [] := by
          rw [List.filter_eq_nil_iff]; intro k hk; rw [hc2 k hk]; decide
        have e3 : k3.filter (fun k => k.value.category == Category.namespace) = [] := by
          rw [List.filter_eq_nil_iff]; intro k hk; rw [hc3' k hk]; decide
        rw [e1, e2, e3]
        simpa [hkeys1] using hps
      · -- adjacency of text
        cases b with
        | false => rfl
        | true =>
          simp only [Bool.not_true, Bool.false_or]
          have hadj' : noAdjacentFText cs = true := by
            rcases hadj with hadj | hadj
            · cases hadj
            · exact hadj
          apply noAdjacentText_append_nontext
          · intro k hk; have := hc1 k hk
            cases hvv : k.value <;> simp_all [Value.category, Value.isText]
          · apply noAdjacentText_append_nontext
            · intro k hk; have := hc2 k hk
              cases hvv : k.value <;> simp_all [Value.category, Value.isText]
            · exact built_noAdjacentText k3 cs h3 hadj'
      · rw [ff_validList_append, ff_validList_append, validList_leaves b k1 hl1, validList_leaves b k2 hl2,
          validList_of_erase cs k3 b h3 hwfl]
        rfl
  theorem validList_of_erase : ∀ (cs : List FContent) (ts : List HTree) (b : Bool),
      eraseList ts = treeOfList cs → FContent.wfList b cs = true → validList b ts = true
    | [], [], _, _, _ => rfl
    | [], t :: ts, _, h, _ => by simp [eraseList, treeOfList] at h
    | c :: cs, [], _, h, _ => by simp [eraseList, treeOfList] at h
    | c :: cs, t :: ts, b, h, hwf => by
      simp only [eraseList, treeOfList, List.cons.injEq] at h
      simp only [FContent.wfList, Bool.and_eq_true] at hwf
      simp only [validList, Bool.and_eq_true]
      exact ⟨validTree_of_erase c t b h.1 hwf.1, validList_of_erase cs ts b h.2 hwf.2⟩
end

/-- A labelled copy of `treeOf d` is a valid tree. -/
theorem validTree_document (d : FDocument) (t : HTree) (b : Bool) (h : t.erase = treeOf d)
    (hwf : d.wf b = true) : validTree b t = true := by
  cases t with
  | node hh v ks =>
    simp only [erase, treeOf, Tree.node.injEq] at h
    obtain ⟨hv, hks⟩ := h
    subst hv
    have hn := built_normal ks d.items hks
    have hcat : ∀ k ∈ ks, k.value.category = .normal := by
      intro k hk; simpa [Value.isNormal] using (hn k hk).1
    unfold validTree
    simp only [Bool.and_eq_true]
    refine ⟨⟨⟨⟨⟨?_, ?_⟩, ?_⟩, ?_⟩, ?_⟩, ?_⟩
    · rw [List.all_eq_true]
      intro k hk
      simp [kidAllowed, (hn k hk).1, (hn k hk).2]
    · exact kidsOrdered_const 2 ks (fun x hx => by rw [hcat x hx]; rfl)
    · simp only [keysUnique, decide_eq_true_eq]
      have : ks.filter (fun k => k.value.category == Category.attribute) = [] := by
        rw [List.filter_eq_nil_iff]; intro k hk; rw [hcat k hk]; decide
      rw [this]; simp
    · simp only [keysUnique, decide_eq_true_eq]
      have : ks.filter (fun k => k.value.category == Category.namespace) = [] := by
        rw [List.filter_eq_nil_iff]; intro k hk; rw [hcat k hk]; decide
      rw [this]; simp
    · cases b with
      | false => rfl
      | true =>
        simp only [Bool.not_true, Bool.false_or]
        exact built_noAdjacentText ks d.items hks (noAdjacentFText_of_no_text _ (items_no_text d))
    · exact validList_of_erase d.items ks b hks (items_wfList d b hwf)

/-- Adding one valid tree with fresh handles to a store satisfying the C04 invariant. -/
theorem Forest.inv_add_root (f : Forest) (hinv : f.Inv) (d : FDocument) (t : HTree) (n' : Nat)
    (he : t.erase = treeOf d) (hwf : d.wf f.consolidation = true)
    (hg : Good ({ f with roots := f.roots ++ [t], next := n' } : Forest)) :
    ({ f with roots := f.roots ++ [t], next := n' } : Forest).Inv := by
  refine ⟨hinv.notCorrupt, hg.nodup, hg.below, ?_, hinv.consOn⟩
  show validList (!f.everOff) (f.roots ++ [t]) = true
  rw [ff_validList_append, hinv.valid]
  simp only [validList, Bool.and_true, Bool.true_and]
  cases heo : f.everOff with
  | true =>
    exact validTree_document d t false he (FContent.wf_weaken _ _ hwf)
  | false =>
    have hc : f.consolidation = true := by
      rcases hinv.consOn with h | h
      · exact h
      · rw [heo] at h; cases h
    rw [hc] at hwf
    exact validTree_document d t true he hwf

end XotModel
