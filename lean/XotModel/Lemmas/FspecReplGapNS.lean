/-
  FspecReplGapNS — C05 for `replace(a, b)`, the "gap" geometry with a replacing node that is NOT
  text and is itself a child of the parent of `a` (a sibling of `a`, not adjacent to it):
  `a` sits between two TEXT nodes `P` and `N`.  After `remove_subtree(a)` the child list has `P`
  and `N` adjacent, so it is not `Forest.Normal` and `insertAfter_spec` does not apply: the call
  `insert_after(P, b)` is evaluated by hand on that forest (`insertAfter_eval`), then the last
  `remove_consolidate_text_nodes(P, next_sibling(P))` is shown to do nothing, and the outcome is
  compared with `specReplace (Keep.resident b) a b f` on the child list.
-/
import XotModel.Lemmas.FspecRepl1
import XotModel.Lemmas.FspecRepl2
import XotModel.Lemmas.FspecSurvivor

namespace XotModel
open HTree Spec

namespace ReplGapNS

/-! ### The argument checks of `insert_after`, from the facts -/

theorem structureCheck_intro {g : Forest} {q c : Nat} {vq : Value} {L : List HTree} {t : HTree}
    (nd : g.allHandles.Nodup) (hq : g.get? q = some (.node q vq L))
    (hvq : vq.isElement = true ∨ vq.isDocument = true)
    (hgc : g.get? c = some t) (hqt : q ∉ handles t) (htn : t.value.isNormal = true)
    (htd : t.value.isDocument = false) :
    g.structureCheck (some q) c = true := by
  have hanc : (g.ancestors q).contains c = false := by
    cases h : (g.ancestors q).contains c with
    | false => rfl
    | true =>
      obtain ⟨u, hu, hin⟩ := (Forest.ancestors_contains_iff nd).1 h
      rw [hgc] at hu
      cases hu
      exact absurd hin hqt
  have hvc : g.value? c = some t.value := by unfold Forest.value?; rw [hgc]; rfl
  have hvq' : g.value? q = some vq := by unfold Forest.value?; rw [hq]; rfl
  unfold Forest.structureCheck
  simp only [hanc, Forest.isElement, Forest.isDocument, hvc, hvq', Option.map_some]
  cases hv : t.value <;> rw [hv] at htn htd <;>
    rcases hvq with h | h <;> simp_all [Value.isNormal, Value.category, Value.isDocument]

theorem siblingReferenceCheck_intro {g : Forest} {w : HTree} {c : Nat} (hg : g.get? w.handle = some w)
    (hne : w.handle ≠ c) (hwn : w.value.isNormal = true) : g.siblingReferenceCheck w.handle c = true := by
  unfold Forest.siblingReferenceCheck Forest.isNormalNode Forest.value?
  rw [hg]
  simp [hne, hwn]

/-! ### The second half of `insert_after` for a node that is not text, at one site -/

theorem mem_without_mid {X Z : List HTree} {t k : HTree} (h : k ∈ X ++ Z) : k ∈ X ++ t :: Z := by
  cases List.mem_append.1 h with
  | inl h => exact List.mem_append_left _ h
  | inr h => exact List.mem_append_right _ (List.mem_cons_of_mem _ h)

theorem sublist_without_mid (X Z : List HTree) (t : HTree) :
    (handlesList (X ++ Z)).Sublist (handlesList (X ++ t :: Z)) := by
  simp only [fs_handlesList_append, handlesList_cons]
  exact (List.Sublist.refl _).append (List.sublist_append_right _ _)

/-- `add_consolidate` does nothing (the node is not text); indextree's checked insertion is the
    list insertion after the child `ref`. -/
theorem insertAfterTail_eval {g : Forest} {q : Nat} {vq : Value} {X : List HTree} {t : HTree}
    {Z : List HTree} {ref : Nat} (sg : SiteAt g q vq (X ++ t :: Z)) (htx : textData t = none)
    (href : IsTop ref (X ++ Z)) :
    insertAfterTail g ref t.handle = (g.editAt (some q) (fun _ => insertAfterTop ref t (X ++ Z)), .ok) := by
  obtain ⟨ndL, hqL⟩ := sg.nodupKids
  obtain ⟨tl, tr⟩ := tops_ne_of_nodup ndL
  have hget : g.get? t.handle = some t := sg.getKid
  have hpar : g.parent? t.handle = some q := Forest.parent?_of_ctx sg.ctx
  have hqt : q ∉ handles t := by
    intro hin
    apply hqL
    rw [fs_handlesList_append, handlesList_cons]
    exact List.mem_append_right _ (List.mem_append_left _ hin)
  obtain ⟨Pw, w, Qw, hsplit, hw⟩ := isTop_split href
  have hwXZ : w ∈ X ++ Z := by rw [hsplit]; simp
  obtain ⟨A', B', hAB⟩ := List.append_of_mem (mem_without_mid (t := t) hwXZ)
  have sg' : SiteAt g q vq (A' ++ w :: B') := hAB ▸ sg
  have hne : w.handle ≠ t.handle := by
    cases List.mem_append.1 hwXZ with
    | inl h => exact tl w h
    | inr h => exact tr w h
  have hdrop : dropTop t.handle (X ++ t :: Z) = X ++ Z := dropTop_mid rfl tl tr
  have sY : SiteAt (g.editAt (some q) (dropTop t.handle)) q vq (Pw ++ w :: Qw) := by
    have := sg.edit (dropTop t.handle) (by rw [hdrop]; exact sublist_without_mid X Z t)
    rw [hdrop, hsplit] at this
    exact this
  have hctx := sY.ctx
  rw [hw] at hctx
  unfold insertAfterTail
  rw [Forest.addConsolidate_not_text (by rw [Forest.textOf_of_get hget]; exact htx)]
  simp only [Bool.false_eq_true, if_false]
  have hci := Forest.checkedInsertAfter_ok hget sg' hqt hne
  rw [hw] at hci
  rw [hci]
  simp only [if_true]
  rw [hpar, Forest.placeAfter_of_ctx t sY.nd hctx, Forest.editAt_editAt]
  congr 1
  apply sg.congr
  simp only [Function.comp]
  rw [hdrop]

/-! ### `insert_after` within one child list, evaluated on a forest that need not be normal -/

/-- The moved node `t` (not text) and the reference `w` are children of `q`; `X`, `Z` are the
    children before / after `t`.  Either nothing is merged at the old place of `t`, or its two
    text neighbours `u`, `v` are merged into `u` (and the reference is rewritten to `u` when it
    was `v`). Only LOCAL facts are used: nothing is assumed about other adjacent text nodes. -/
theorem insertAfter_eval {g : Forest} {q : Nat} {vq : Value} {X : List HTree} {t : HTree}
    {Z : List HTree} {w : HTree} (sg : SiteAt g q vq (X ++ t :: Z))
    (hvq : vq.isElement = true ∨ vq.isDocument = true)
    (htn : t.value.isNormal = true) (htd : t.value.isDocument = false) (htx : textData t = none)
    (hw : w ∈ X ++ Z) (hwn : w.value.isNormal = true)
    (hns : g.nextSibling w.handle ≠ some t.handle)
    (hleaf : ∀ k ∈ Z, k.value.isText = true → k.kids = []) :
    ((g.consolidation = true → ∀ a b, X.getLast? = some a → Z.head? = some b →
        ¬ (a.value.isText = true ∧ b.value.isText = true)) ∧
      g.insertAfter w.handle t.handle =
        (g.editAt (some q) (fun _ => insertAfterTop w.handle t (X ++ Z)), .ok))
    ∨ (g.consolidation = true ∧ ∃ X' u v Z' x y, X = X' ++ [u] ∧ Z = v :: Z' ∧
        u.value = .text x ∧ v.value = .text y ∧
        g.insertAfter w.handle t.handle =
          (g.editAt (some q) (fun _ =>
            insertAfterTop (if v.handle = w.handle then u.handle else w.handle) t
              (X' ++ u.setValue (.text (x ++ y)) :: Z')), .ok)) := by
  have nd := sg.nd
  obtain ⟨ndL, hqL⟩ := sg.nodupKids
  obtain ⟨tl, tr⟩ := tops_ne_of_nodup ndL
  have hget : g.get? t.handle = some t := sg.getKid
  have hqt : q ∉ handles t := by
    intro hin
    apply hqL
    rw [fs_handlesList_append, handlesList_cons]
    exact List.mem_append_right _ (List.mem_append_left _ hin)
  obtain ⟨A', B', hAB⟩ := List.append_of_mem (mem_without_mid (t := t) hw)
  have sg' : SiteAt g q vq (A' ++ w :: B') := hAB ▸ sg
  have hne : w.handle ≠ t.handle := by
    cases List.mem_append.1 hw with
    | inl h => exact tl w h
    | inr h => exact tr w h
  have hparw : g.parent? w.handle = some q := Forest.parent?_of_ctx sg'.ctx
  have hsc := structureCheck_intro nd sg.kids hvq hget hqt htn htd
  have hsr := siblingReferenceCheck_intro sg'.getKid hne hwn
  have hnb : (g.nextSibling w.handle == some t.handle) = false := by simpa using hns
  have hcat : ∀ a b, X.getLast? = some a → Z.head? = some b → a.value.isText = true →
      b.value.isText = true →
      a.value.category = t.value.category ∧ b.value.category = t.value.category := by
    intro a b _ _ ha hb
    have : t.value.category = .normal := by simpa [Value.isNormal] using htn
    rw [text_category ha, text_category hb, this]
    exact ⟨rfl, rfl⟩
  have sg0 : SiteAt g q vq (X ++ ([t] ++ Z)) := sg
  have hold := oldSite (k := t) sg0 hleaf hcat
  rw [insertAfter_unfold, hparw]
  simp only [hsc, hsr, hnb, Bool.not_true, Bool.false_eq_true, if_false]
  rw [Forest.prevSibling_of_ctx sg.ctx, Forest.nextSibling_of_ctx sg.ctx]
  simp only
  rcases hold with ⟨h1, h2⟩ | ⟨hc, X', u, v, Z', x, y, eX, eZ, hx, hy, hp, hn, h3⟩
  · left
    refine ⟨h2, ?_⟩
    rw [h1]
    simp only [Bool.false_and, Bool.false_eq_true, if_false]
    exact insertAfterTail_eval sg htx ⟨w, hw, rfl⟩
  · right
    refine ⟨hc, X', u, v, Z', x, y, eX, eZ, hx, hy, ?_⟩
    subst eX eZ
    rw [h3, hp, hn]
    simp only [Bool.true_and, Option.getD_some]
    have hbeq : (if (some v.handle == some w.handle) = true then u.handle else w.handle)
        = (if v.handle = w.handle then u.handle else w.handle) := by
      by_cases h : v.handle = w.handle <;> simp [h]
    rw [hbeq]
    have sX : SiteAt (g.editAt (some q) (fun _ => X' ++ u.setValue (.text (x ++ y)) :: ([t] ++ Z'))) q vq
        ((X' ++ [u.setValue (.text (x ++ y))]) ++ t :: Z') := by
      have := sg.edit (fun _ => X' ++ u.setValue (.text (x ++ y)) :: ([t] ++ Z')) (by
        simp only [fs_handlesList_append, handlesList_cons, setValue_handles, handlesList_nil, List.append_nil,
          List.append_assoc]
        refine (List.Sublist.refl _).append ((List.Sublist.refl _).append ((List.Sublist.refl _).append ?_))
        exact List.sublist_append_right _ _)
      simpa using this
    have hvw_of : v.handle ≠ w.handle → w ∈ X' ++ [u] ∨ w ∈ Z' := by
      intro h
      cases List.mem_append.1 hw with
      | inl h' => exact Or.inl h'
      | inr h' =>
        cases List.mem_cons.1 h' with
        | inl e => exact absurd (by rw [e]) h
        | inr e => exact Or.inr e
    have href : IsTop (if v.handle = w.handle then u.handle else w.handle)
        ((X' ++ [u.setValue (.text (x ++ y))]) ++ Z') := by
      by_cases h : v.handle = w.handle
      · rw [if_pos h]
        exact ⟨u.setValue (.text (x ++ y)), by simp, setValue_handle _ _⟩
      · rw [if_neg h]
        rcases hvw_of h with h' | h'
        · cases List.mem_append.1 h' with
          | inl h'' => exact ⟨w, by simp [h''], rfl⟩
          | inr h'' =>
            have : w = u := by simpa using h''
            exact ⟨u.setValue (.text (x ++ y)), by simp, by rw [setValue_handle, this]⟩
        · exact ⟨w, by simp [h'], rfl⟩
    rw [insertAfterTail_eval sX htx href, Forest.editAt_editAt]
    have e : (X' ++ [u.setValue (.text (x ++ y))]) ++ Z' = X' ++ u.setValue (.text (x ++ y)) :: Z' := by simp
    rw [e]
    rfl

/-! ### The last `remove_consolidate_text_nodes(P, next_sibling(P))` does nothing -/

/-- `P` is still there and the moved node (not text) stands directly after it. -/
theorem final_alive {f : Forest} {q : Nat} {vq : Value} {L R1 R2 : List HTree} {Pn t : HTree}
    (sq : SiteAt f q vq L)
    (hcnt : ∀ z, (handlesList (R1 ++ Pn :: t :: R2)).count z ≤ (handlesList L).count z)
    (hPn : Pn.value.isNormal = true) (htn : t.value.isNormal = true) (htx : textData t = none) :
    ((f.editAt (some q) (fun _ => R1 ++ Pn :: t :: R2)).removeConsolidate (some Pn.handle)
      ((f.editAt (some q) (fun _ => R1 ++ Pn :: t :: R2)).nextSibling Pn.handle)).1
      = f.editAt (some q) (fun _ => R1 ++ Pn :: t :: R2) := by
  have s2 : SiteAt (f.editAt (some q) (fun _ => R1 ++ Pn :: t :: R2)) q vq (R1 ++ Pn :: t :: R2) := by
    constructor
    · apply sq.nodup_of_count
      intro z
      have h1 := (List.nodup_iff_count.1 sq.nd) z
      have h2 := hcnt z
      omega
    · exact Forest.get?_editAt_self _ sq.kids
  have s2' : SiteAt (f.editAt (some q) (fun _ => R1 ++ Pn :: t :: R2)) q vq ((R1 ++ [Pn]) ++ t :: R2) := by
    simpa using s2
  have h1 : t.value.category = .normal := by simpa [Value.isNormal] using htn
  have h2 : Pn.value.category = .normal := by simpa [Value.isNormal] using hPn
  have hnx : nextOf (t :: R2) Pn = some t.handle := by simp [nextOf, h1, h2]
  rw [Forest.nextSibling_of_ctx s2.ctx]
  simp only
  rw [hnx, Forest.removeConsolidate_not_text_right (by rw [Forest.textOf_of_get s2'.getKid]; exact htx)]

/-- `P` has been consumed by the merge at the old place of the moved node. -/
theorem final_dead {f : Forest} {q : Nat} {vq : Value} {L R : List HTree} {p : Nat}
    (sq : SiteAt f q vq L) (hp : p ∈ handlesList L) (hR : p ∉ handlesList R) :
    ((f.editAt (some q) (fun _ => R)).removeConsolidate (some p)
      ((f.editAt (some q) (fun _ => R)).nextSibling p)).1 = f.editAt (some q) (fun _ => R) := by
  have hdead : (f.editAt (some q) (fun _ => R)).get? p = none := by
    apply get?_none_of_count
    have h1 := sq.count (fun _ => R) p
    have h2 := (List.nodup_iff_count.1 sq.nd) p
    have h3 : 0 < (handlesList L).count p := List.count_pos_iff.2 hp
    have h4 : (handlesList R).count p = 0 := List.count_eq_zero.2 hR
    omega
  have htext : (f.editAt (some q) (fun _ => R)).textOf p = none := by
    unfold Forest.textOf Forest.value?
    rw [hdead]
    rfl
  cases (f.editAt (some q) (fun _ => R)).nextSibling p with
  | none => rw [Forest.removeConsolidate_none_right]
  | some n => rw [Forest.removeConsolidate_not_text_left htext]

/-! ### Model outcome, final no-op and specification put together -/

theorem close {f : Forest} {a b q : Nat} {vq : Value} {L R : List HTree} {t : HTree} {p : Nat}
    (sq : SiteAt f q vq L) (hc : f.consolidation = true) (hgb : f.get? b = some t)
    (hpa : f.parent? a = some q) (hpb : f.parent? b = some q)
    (hmodel : (f.editAt (some q) (dropTop a)).insertAfter p b = (f.editAt (some q) (fun _ => R), .ok))
    (hspec : mergeRuns (Keep.resident b) (replaceTop a (fun _ => [t]) (dropTop b L)) = R)
    (hfinal : ((f.editAt (some q) (fun _ => R)).removeConsolidate (some p)
      ((f.editAt (some q) (fun _ => R)).nextSibling p)).1 = f.editAt (some q) (fun _ => R)) :
    ∃ f2, (f.editAt (some q) (dropTop a)).insertAfter p b = (f2, .ok) ∧
      (f2.removeConsolidate (some p) (f2.nextSibling p)).1 = specReplace (Keep.resident b) a b f := by
  refine ⟨_, hmodel, ?_⟩
  rw [hfinal]
  unfold specReplace
  rw [hgb, hpa]
  simp only
  rw [hpb]
  have c1 : ((f.editAt (some q) (dropTop b)).editAt (some q) (replaceTop a (fun _ => [t]))).consolidation
      = true := by
    rw [Forest.editAt_consolidation, Forest.editAt_consolidation]; exact hc
  have c2 : (((f.editAt (some q) (dropTop b)).editAt (some q) (replaceTop a (fun _ => [t]))).editAt (some q)
      (mergeRuns (Keep.resident b))).consolidation = true := by
    rw [Forest.editAt_consolidation]; exact c1
  rw [mergeAt_on c1, mergeAt_on c2, Forest.editAt_editAt, Forest.editAt_editAt, Forest.editAt_editAt]
  apply sq.congr
  simp only [Function.comp]
  rw [mergeRuns_idem, hspec]

/-! ### List facts -/

/-- The specification's child list: `A` replaced by `t` (not text), merged. -/
theorem spec_list {keep : Keep} {U V : List HTree} {A t : HTree} {a : Nat} (hA : A.handle = a)
    (hU : ∀ k ∈ U, k.handle ≠ a) (htt : t.value.isText = false) :
    mergeRuns keep (replaceTop a (fun _ => [t]) (U ++ A :: V)) = mergeRuns keep U ++ t :: mergeRuns keep V := by
  rw [replaceTop_mid hA hU]
  simp only [List.append_assoc, List.singleton_append]
  exact mergeRuns_barrier htt U V

theorem head?_append_cons (l : List HTree) (p : HTree) (r : List HTree) :
    (l ++ p :: r).head? = (l ++ [p]).head? := by
  cases l <;> rfl

theorem textData_none_of_not_text {t : HTree} (h : t.value.isText = false) : textData t = none := by
  cases hd : textData t with
  | none => rfl
  | some x => rw [isText_iff_textData.2 ⟨x, hd⟩] at h; cases h

theorem normal_of_text {k : HTree} (h : k.value.isText = true) : k.value.isNormal = true := by
  simp [Value.isNormal, text_category h]

theorem noAdj_nontext_cons {t : HTree} {V : List HTree} (ht : t.value.isText = false)
    (hV : noAdjacentText V = true) : noAdjacentText (t :: V) = true := by
  cases V with
  | nil => rfl
  | cons b r => rw [noAdj_cons_cons, ht]; simpa using hV

end ReplGapNS
end XotModel
