/-
  XotModel.Lemmas.ScopeName — `prefix_for_name` (behind `full_name`, `name_ref`, `node_name_ref`)
  characterised against the specification `scopeSpecChain`:

    namespacePrefixChain_sound / _complete / _none_iff   `namespace_prefix(node, ns, non_empty)`
    defaultInScope_iff        `namespace_for_prefix(node, empty_prefix).is_some()`
    prefixForNameChain_cases  the four exits of `prefix_for_name`, each with its exact condition
    resolveQName_*            the reported prefix read back by the rule for the kind of name
-/
import XotModel.Lemmas.Scope

namespace XotModel

/-- How `full_name` spells a name with a prefix id: `prefix:local`, or `local` for a prefix whose
    string is empty. -/
def qnameSpelling (env : Env) (p name : Nat) : Str :=
  if (env.prefixStr p).isEmpty then env.localName name
  else env.prefixStr p ++ [':'] ++ env.localName name

theorem fullNameChain_eq (env : Env) (chain : List Tree) (name : Nat) :
    fullNameChain env chain name =
      match nameRefChain env chain name with
      | .ok p => .ok (qnameSpelling env p name)
      | .error e => .error e := by
  unfold fullNameChain nameRefChain qnameSpelling
  cases prefixForNameChain env chain name with
  | error e => rfl
  | ok p => cases h : (env.prefixStr p).isEmpty <;> simp [h]

theorem fullNameChain_ok_iff (env : Env) (chain : List Tree) (name : Nat) (s : Str) :
    fullNameChain env chain name = .ok s ↔
      ∃ p, nameRefChain env chain name = .ok p ∧ s = qnameSpelling env p name := by
  rw [fullNameChain_eq]
  cases nameRefChain env chain name with
  | error e => simp
  | ok p => simp [eq_comm]

theorem fullNameChain_error_iff (env : Env) (chain : List Tree) (name : Nat) (e : XotError) :
    fullNameChain env chain name = .error e ↔ nameRefChain env chain name = .error e := by
  rw [fullNameChain_eq]
  cases nameRefChain env chain name with
  | error e' => simp
  | ok p => simp

/-! ### `namespace_prefix` -/

theorem namespacePrefixChain_sound {chain : List Tree} {ns : Nat} {ne : Bool} {p : Nat}
    (h : namespacePrefixChain chain ns ne = some p) (hns : ns ≠ Env.noNamespace) :
    scopeSpecChain chain p = some ns ∧ pfnUsable ne p = true := by
  rw [namespacePrefixChain_eq] at h
  cases hd : pfnDecls ns ne [] (allDecls chain) with
  | cont s => simp [hd, pfnResult] at h
  | ret r =>
    simp only [hd, pfnResult] at h
    subst h
    obtain ⟨_, h2, h3⟩ := pfnDecls_sound ns ne _ _ _ hd
    exact ⟨scopeSpecChain_of_lookup h2 hns, h3⟩

theorem namespacePrefixChain_complete {chain : List Tree} {ns : Nat} {ne : Bool}
    (h : ∃ q, scopeSpecChain chain q = some ns ∧ pfnUsable ne q = true) :
    ∃ p, namespacePrefixChain chain ns ne = some p := by
  obtain ⟨q, hq, hu⟩ := h
  obtain ⟨p, hp⟩ := pfnDecls_complete ns ne (allDecls chain) []
    ⟨q, by simp, scopeSpecChain_some_lookup hq, hu⟩
  exact ⟨p, by rw [namespacePrefixChain_eq, hp]; rfl⟩

theorem namespacePrefixChain_none_iff {chain : List Tree} {ns : Nat} {ne : Bool}
    (hns : ns ≠ Env.noNamespace) :
    namespacePrefixChain chain ns ne = none ↔
      ∀ q, pfnUsable ne q = true → scopeSpecChain chain q ≠ some ns := by
  constructor
  · intro h q hu hq
    obtain ⟨p, hp⟩ := namespacePrefixChain_complete (ne := ne) ⟨q, hq, hu⟩
    rw [h] at hp
    simp at hp
  · intro h
    cases hp : namespacePrefixChain chain ns ne with
    | none => rfl
    | some p =>
      obtain ⟨h1, h2⟩ := namespacePrefixChain_sound hp hns
      exact absurd h1 (h p h2)

/-- `namespace_for_prefix(node, empty_prefix).is_some()`: a default namespace is in scope. -/
theorem defaultInScope_iff (chain : List Tree) :
    (namespaceForPrefixChain chain Env.emptyPrefix).isSome = true ↔
      ∃ d, scopeSpecChain chain Env.emptyPrefix = some d := by
  rw [namespaceForPrefixChain_eq]
  cases hs : scopeSpecChain chain Env.emptyPrefix with
  | none => simp
  | some d => simp

/-! ### `prefix_for_name` -/

/-- The name is the context node's own element name and a default namespace is in scope there:
    the one situation in which a no-namespace name is refused. -/
def OwnNameUnderDefault (chain : List Tree) (name : Nat) : Prop :=
  elementNameChain chain = some name ∧ ∃ d, scopeSpecChain chain Env.emptyPrefix = some d

/-- The four exits of `prefix_for_name`, each with the exact condition under which it is taken
    (`isAttributeNodeChain chain` decides whether the empty prefix is usable). -/
theorem prefixForNameChain_cases (env : Env) (chain : List Tree) (name : Nat) :
    (env.nsOfName name = Env.noNamespace ∧ OwnNameUnderDefault chain name ∧
      prefixForNameChain env chain name = .error (.missingPrefix Env.noNamespace)) ∨
    (env.nsOfName name = Env.noNamespace ∧ ¬ OwnNameUnderDefault chain name ∧
      prefixForNameChain env chain name = .ok Env.emptyPrefix) ∨
    (env.nsOfName name ≠ Env.noNamespace ∧ ∃ p,
      prefixForNameChain env chain name = .ok p ∧
      scopeSpecChain chain p = some (env.nsOfName name) ∧
      pfnUsable (isAttributeNodeChain chain) p = true) ∨
    (env.nsOfName name ≠ Env.noNamespace ∧
      prefixForNameChain env chain name = .error (.missingPrefix (env.nsOfName name)) ∧
      ∀ q, pfnUsable (isAttributeNodeChain chain) q = true →
        scopeSpecChain chain q ≠ some (env.nsOfName name)) := by
  unfold prefixForNameChain
  by_cases hns : env.nsOfName name = Env.noNamespace
  · have hb : (env.nsOfName name == Env.noNamespace) = true := by simpa using hns
    simp only [hb, ↓reduceIte]
    by_cases hown : OwnNameUnderDefault chain name
    · refine .inl ⟨hns, hown, ?_⟩
      have h1 : (elementNameChain chain == some name) = true := by simp [hown.1]
      have h2 := (defaultInScope_iff chain).2 hown.2
      simp [h1, h2]
    · refine .inr (.inl ⟨hns, hown, ?_⟩)
      have : (elementNameChain chain == some name &&
          (namespaceForPrefixChain chain Env.emptyPrefix).isSome) = false := by
        cases h1 : (elementNameChain chain == some name)
        · rfl
        · cases h2 : (namespaceForPrefixChain chain Env.emptyPrefix).isSome
          · rfl
          · exact absurd ⟨by simpa using h1, (defaultInScope_iff chain).1 h2⟩ hown
      simp [this]
  · have hb : (env.nsOfName name == Env.noNamespace) = false := by simpa using hns
    simp only [hb, Bool.false_eq_true, ↓reduceIte]
    cases hp : namespacePrefixChain chain (env.nsOfName name) (isAttributeNodeChain chain) with
    | some p =>
      obtain ⟨h1, h2⟩ := namespacePrefixChain_sound hp hns
      exact .inr (.inr (.inl ⟨hns, p, rfl, h1, h2⟩))
    | none =>
      exact .inr (.inr (.inr ⟨hns, rfl, (namespacePrefixChain_none_iff hns).1 hp⟩))

/-! ### Reading a reported prefix back -/

theorem resolveQName_attribute_empty (chain : List Tree) :
    resolveQName chain true Env.emptyPrefix = some Env.noNamespace := by
  simp [resolveQName]

theorem resolveQName_element_empty (chain : List Tree) :
    resolveQName chain false Env.emptyPrefix =
      some ((scopeSpecChain chain Env.emptyPrefix).getD Env.noNamespace) := by
  simp [resolveQName]

theorem resolveQName_nonempty (chain : List Tree) (isAttribute : Bool) {p : Nat}
    (hp : p ≠ Env.emptyPrefix) : resolveQName chain isAttribute p = scopeSpecChain chain p := by
  have : (p == Env.emptyPrefix) = false := by simpa using hp
  simp [resolveQName, this]

/-- A prefix bound to `ns` reads back as `ns` by the element rule (the empty prefix included:
    then `ns` is the default namespace). -/
theorem resolveQName_element_of_bound (chain : List Tree) {p ns : Nat}
    (h : scopeSpecChain chain p = some ns) : resolveQName chain false p = some ns := by
  by_cases hp : p = Env.emptyPrefix
  · subst hp; simp [resolveQName_element_empty, h]
  · rw [resolveQName_nonempty chain false hp, h]

/-- A non-empty prefix bound to `ns` reads back as `ns` by the attribute rule. -/
theorem resolveQName_attribute_of_bound (chain : List Tree) {p ns : Nat}
    (h : scopeSpecChain chain p = some ns) (hp : p ≠ Env.emptyPrefix) :
    resolveQName chain true p = some ns := by
  rw [resolveQName_nonempty chain true hp, h]

/-- The unprefixed element name means "no namespace" exactly when no default namespace is in
    scope. -/
theorem resolveQName_element_empty_none_iff (chain : List Tree) :
    resolveQName chain false Env.emptyPrefix = some Env.noNamespace ↔
      ¬ ∃ d, scopeSpecChain chain Env.emptyPrefix = some d := by
  rw [resolveQName_element_empty]
  cases hs : scopeSpecChain chain Env.emptyPrefix with
  | none => simp
  | some d =>
    have hd : d ≠ Env.noNamespace := fun h => scopeSpecChain_empty_ne chain (h ▸ hs)
    simp [hd]

/-- The head of the chain is the node itself. -/
theorem isAttributeNodeChain_of_head {chain : List Tree} {a : Tree} {n : Nat} {v : Str}
    (hh : chain.head? = some a) (hv : a.value = .attribute n v) :
    isAttributeNodeChain chain = true := by
  simp [isAttributeNodeChain, hh, hv, valueIsAttribute]

theorem isAttributeNodeChain_false_of_head {chain : List Tree} {a : Tree}
    (hh : chain.head? = some a) (hv : valueIsAttribute a.value = false) :
    isAttributeNodeChain chain = false := by
  simp [isAttributeNodeChain, hh, hv]

theorem elementNameChain_of_head {chain : List Tree} {a : Tree}
    (hh : chain.head? = some a) : elementNameChain chain = valueElementName a.value := by
  simp [elementNameChain, hh]

/-! ### `name_ref` by kind of context node (proofs of C09_nameref_attribute / _element / _other_name) -/

theorem nameRefChain_attribute (env : Env) (chain : List Tree) (a : Tree) (n : Nat) (v : Str)
    (name : Nat) (hh : chain.head? = some a) (hv : a.value = .attribute n v) :
    (∀ p, nameRefChain env chain name = .ok p →
      (env.nsOfName name ≠ Env.noNamespace → p ≠ Env.emptyPrefix) ∧
      resolveQName chain true p = some (env.nsOfName name)) ∧
    (∀ e, nameRefChain env chain name = .error e ↔
      e = .missingPrefix (env.nsOfName name) ∧ env.nsOfName name ≠ Env.noNamespace ∧
      ∀ q, q ≠ Env.emptyPrefix → scopeSpecChain chain q ≠ some (env.nsOfName name)) ∧
    ((∃ p, nameRefChain env chain name = .ok p) ↔
      env.nsOfName name = Env.noNamespace ∨
      ∃ q, q ≠ Env.emptyPrefix ∧ scopeSpecChain chain q = some (env.nsOfName name)) := by
  have hattr := isAttributeNodeChain_of_head hh hv
  have hnown : ¬ OwnNameUnderDefault chain name := by
    rintro ⟨h, _⟩
    rw [elementNameChain_of_head hh, hv] at h
    simp [valueElementName] at h
  unfold nameRefChain
  rcases prefixForNameChain_cases env chain name with
    ⟨_, hown, _⟩ | ⟨h0, _, hr⟩ | ⟨hne, p, hr, hs, hu⟩ | ⟨hne, hr, hall⟩
  · exact absurd hown hnown
  · rw [hr]
    refine ⟨fun p hp => ?_, fun e => ?_, ?_⟩
    · simp only [Except.ok.injEq] at hp
      subst hp
      exact ⟨fun h => absurd h0 h, by rw [resolveQName_attribute_empty, h0]⟩
    · simp [h0]
    · simp [h0]
  · rw [hattr, pfnUsable_true_iff] at hu
    rw [hr]
    refine ⟨fun p' hp => ?_, fun e => ?_, ?_⟩
    · simp only [Except.ok.injEq] at hp
      subst hp
      exact ⟨fun _ => hu, resolveQName_attribute_of_bound chain hs hu⟩
    · constructor
      · intro h; simp at h
      · rintro ⟨_, _, hall⟩; exact absurd hs (hall p hu)
    · exact ⟨fun _ => .inr ⟨p, hu, hs⟩, fun _ => ⟨p, rfl⟩⟩
  · rw [hattr] at hall
    rw [hr]
    refine ⟨fun p hp => by simp at hp, fun e => ?_, ?_⟩
    · constructor
      · intro h
        simp only [Except.error.injEq] at h
        exact ⟨h.symm, hne, fun q hq => hall q ((pfnUsable_true_iff q).2 hq)⟩
      · rintro ⟨rfl, _, _⟩; rfl
    · constructor
      · rintro ⟨p, hp⟩; simp at hp
      · rintro (h0 | ⟨q, hq, hs⟩)
        · exact absurd h0 hne
        · exact absurd hs (hall q ((pfnUsable_true_iff q).2 hq))

theorem nameRefChain_element (env : Env) (chain : List Tree) (e : Tree) (name : Nat)
    (hh : chain.head? = some e) (hv : e.value = .element name) :
    (∀ p, nameRefChain env chain name = .ok p →
      resolveQName chain false p = some (env.nsOfName name)) ∧
    (∀ err, nameRefChain env chain name = .error err ↔
      err = .missingPrefix (env.nsOfName name) ∧
      ((env.nsOfName name ≠ Env.noNamespace ∧
          ∀ q, scopeSpecChain chain q ≠ some (env.nsOfName name)) ∨
       (env.nsOfName name = Env.noNamespace ∧
          ∃ d, scopeSpecChain chain Env.emptyPrefix = some d))) := by
  have hattr : isAttributeNodeChain chain = false :=
    isAttributeNodeChain_false_of_head hh (by simp [hv, valueIsAttribute])
  have hown : elementNameChain chain = some name := by
    rw [elementNameChain_of_head hh, hv]; rfl
  unfold nameRefChain
  rcases prefixForNameChain_cases env chain name with
    ⟨h0, hud, hr⟩ | ⟨h0, hnud, hr⟩ | ⟨hne, p, hr, hs, _⟩ | ⟨hne, hr, hall⟩
  · rw [hr]
    refine ⟨fun p hp => by simp at hp, fun err => ?_⟩
    constructor
    · intro h
      simp only [Except.error.injEq] at h
      exact ⟨by rw [← h, h0], .inr ⟨h0, hud.2⟩⟩
    · rintro ⟨rfl, _⟩; rw [h0]
  · have hnd : ¬ ∃ d, scopeSpecChain chain Env.emptyPrefix = some d := fun hd => hnud ⟨hown, hd⟩
    rw [hr]
    refine ⟨fun p hp => ?_, fun err => ?_⟩
    · simp only [Except.ok.injEq] at hp
      subst hp
      rw [h0]
      exact (resolveQName_element_empty_none_iff chain).2 hnd
    · constructor
      · intro h; simp at h
      · rintro ⟨_, ⟨hne, _⟩ | ⟨_, hd⟩⟩
        · exact absurd h0 hne
        · exact absurd hd hnd
  · rw [hr]
    refine ⟨fun p' hp => ?_, fun err => ?_⟩
    · simp only [Except.ok.injEq] at hp
      subst hp
      exact resolveQName_element_of_bound chain hs
    · constructor
      · intro h; simp at h
      · rintro ⟨_, ⟨_, hall⟩ | ⟨h0, _⟩⟩
        · exact absurd hs (hall p)
        · exact absurd h0 hne
  · rw [hattr] at hall
    rw [hr]
    refine ⟨fun p hp => by simp at hp, fun err => ?_⟩
    constructor
    · intro h
      simp only [Except.error.injEq] at h
      exact ⟨h.symm, .inl ⟨hne, fun q => hall q rfl⟩⟩
    · rintro ⟨rfl, _⟩; rfl

theorem nameRefChain_other_name (env : Env) (chain : List Tree) (c : Tree) (name : Nat)
    (hh : chain.head? = some c) (hna : valueIsAttribute c.value = false)
    (hne : c.value ≠ .element name) :
    (env.nsOfName name = Env.noNamespace → nameRefChain env chain name = .ok Env.emptyPrefix) ∧
    (env.nsOfName name ≠ Env.noNamespace →
      (nameRefChain env chain name =
        match prefixForNamespaceChain chain (env.nsOfName name) with
        | some p => .ok p
        | none => .error (.missingPrefix (env.nsOfName name))) ∧
      (∀ p, nameRefChain env chain name = .ok p →
        resolveQName chain false p = some (env.nsOfName name)) ∧
      (∀ e, nameRefChain env chain name = .error e ↔
        e = .missingPrefix (env.nsOfName name) ∧
        ∀ q, scopeSpecChain chain q ≠ some (env.nsOfName name))) := by
  have hattr : isAttributeNodeChain chain = false := isAttributeNodeChain_false_of_head hh hna
  have hnown : ¬ OwnNameUnderDefault chain name := by
    rintro ⟨h, _⟩
    rw [elementNameChain_of_head hh] at h
    apply hne
    cases hc : c.value <;> simp [hc, valueElementName] at h
    rw [h]
  have hexact : env.nsOfName name ≠ Env.noNamespace → nameRefChain env chain name =
      match prefixForNamespaceChain chain (env.nsOfName name) with
      | some p => .ok p
      | none => .error (.missingPrefix (env.nsOfName name)) := by
    intro h
    have hb : (env.nsOfName name == Env.noNamespace) = false := by simpa using h
    simp only [nameRefChain, prefixForNameChain, hb, Bool.false_eq_true, ↓reduceIte, hattr,
      prefixForNamespaceChain]
    cases namespacePrefixChain chain (env.nsOfName name) false <;> rfl
  unfold nameRefChain at hexact ⊢
  rcases prefixForNameChain_cases env chain name with
    ⟨_, hown, _⟩ | ⟨h0, _, hr⟩ | ⟨hne', p, hr, hs, _⟩ | ⟨hne', hr, hall⟩
  · exact absurd hown hnown
  · exact ⟨fun _ => hr, fun h => absurd h0 h⟩
  · refine ⟨fun h => absurd h hne', fun _ => ⟨hexact hne', ?_, ?_⟩⟩ <;> rw [hr]
    · intro p' hp
      simp only [Except.ok.injEq] at hp
      subst hp
      exact resolveQName_element_of_bound chain hs
    · intro e
      constructor
      · intro h; simp at h
      · rintro ⟨_, hall⟩; exact absurd hs (hall p)
  · rw [hattr] at hall
    refine ⟨fun h => absurd h hne', fun _ => ⟨hexact hne', ?_, ?_⟩⟩ <;> rw [hr]
    · intro p hp; simp at hp
    · intro e
      constructor
      · intro h
        simp only [Except.error.injEq] at h
        exact ⟨h.symm, fun q => hall q rfl⟩
      · rintro ⟨rfl, _⟩; rfl

end XotModel
