/-
  FframeGeneralMove — the frame of the moves in the `get?`-of-the-node form: a node `z` that is neither the parent the
  moved subtree leaves nor the one it arrives at, not a text child of either and not inside the moved subtree keeps
  its value and the handles of its children.  The proofs follow `frame_specRemoveP`, `frame_insert_stepP`,
  `frame_specMoveP` (Lemmas/FspecAllFrame.lean), which state the same for `ctx?` of a CHILD of `z`.
-/
import XotModel.Lemmas.FframeGeneral
import XotModel.Lemmas.FspecAllFrame2
import XotModel.Lemmas.FspecFrameComposite

namespace XotModel
open HTree Spec PairAll

/-- The node `z`, if live in `f`, is live in `f'` with the same value and the same child handles. -/
def GetFrame (f f' : Forest) (z : Nat) : Prop :=
  ∀ t, f.get? z = some t →
    ∃ t', f'.get? z = some t' ∧ t'.value = t.value ∧ t'.kids.map (·.handle) = t.kids.map (·.handle)

theorem GetFrame.refl (f : Forest) (z : Nat) : GetFrame f f z := fun t h => ⟨t, h, rfl, rfl⟩

theorem GetFrame.trans {f g h : Forest} {z : Nat} (a : GetFrame f g z) (b : GetFrame g h z) : GetFrame f h z := by
  intro t ht
  obtain ⟨t1, h1, v1, k1⟩ := a t ht
  obtain ⟨t2, h2, v2, k2⟩ := b t1 h1
  exact ⟨t2, h2, v2.trans v1, k2.trans k1⟩

theorem GetFrame.frameAt {f f' : Forest} {z : Nat} (a : GetFrame f f' z) (hl : f.isLive z = true) :
    Forest.FrameAt f f' z := by
  obtain ⟨t, hg⟩ := Forest.get_of_live hl
  obtain ⟨t', hg', hv, hk⟩ := a t hg
  exact Forest.FrameAt.of_get hg hg' hv hk

/-- One edit of the child list of `s`: another node keeps value and child handles. -/
theorem SiteAt.frameGet {f : Forest} {s : Nat} {vs : Value} {L : List HTree} (ss : SiteAt f s vs L)
    (g : List HTree → List HTree) {z : Nat} (hne : z ≠ s) (hlook : findList? z (g L) = findList? z L) :
    GetFrame f (f.editAt (some s) g) z := by
  intro t ht
  have hget := Forest.get?_editAt_other (g := g) hne ss.nd (by
    intro v' L' e
    rw [ss.kids] at e
    have e' := Option.some.inj e
    injection e' with _ _ e3
    subst e3
    exact hlook)
  rw [ht, Option.map_some] at hget
  have hth : t.handle = z := (findList?_some f.roots t ht).1
  refine ⟨_, hget, ?_, ?_⟩
  · exact (kidMap_editAt s g).value t
  · cases t with
    | node h v ks =>
      have hh : h ≠ s := by
        have : h = z := hth
        rw [this]; exact hne
      rw [editAt_node, if_neg hh]
      show (ks.map (HTree.editAt s g)).map (·.handle) = ks.map (·.handle)
      exact map_handle_kidMap (kidMap_editAt s g) ks

/-- The text children of the node `p` are not `z`. -/
def TextFree (f : Forest) (z : Nat) (p : Option Nat) : Prop :=
  ∀ q v L, p = some q → f.get? q = some (.node q v L) → ∀ k ∈ L, k.value.isText = true → k.handle ≠ z

theorem textFree_of_not_mem {f : Forest} {z : Nat} {p : Option Nat} (h : z ∉ f.siteW p) : TextFree f z p := by
  intro q v L e hg k hk hkt hkz
  subst e
  apply h
  show z ∈ q :: f.textKidHandles q
  apply List.mem_cons_of_mem
  unfold Forest.textKidHandles
  rw [hg]
  exact List.mem_map.2 ⟨k, List.mem_filter.2 ⟨hk, hkt⟩, hkz⟩

theorem leafZ_of_textFree {f : Forest} {z p : Nat} {v : Value} {L : List HTree} {b : Bool} (so : SiteAt f p v L)
    (hv : validList b f.roots = true) (h : TextFree f z (some p)) : LeafZ z L :=
  fun k hk hkt => ⟨so.leaf hv k hk hkt, h p v L rfl so.kids k hk hkt⟩

/-- Frame of `specRemoveP` in the `get?` form. -/
theorem getFrame_specRemoveP {f : Forest} {n : Nat} {t : HTree} (inv : f.Inv)
    (hg : f.get? n = some t) {z : Nat}
    (h1 : some z ≠ f.parent? n) (hT : TextFree f z (f.parent? n)) (h3 : z ∉ handles t) :
    GetFrame f (specRemoveP n f) z := by
  have nd := inv.nodup
  rcases Forest.root_or_ctx hg with hroot | ⟨c, hctx⟩
  · rw [specRemoveP_root (Forest.parent?_of_no_ctx (Forest.ctx_none_of_root nd hroot))]
    intro u hu
    refine ⟨u, ?_, rfl, rfl⟩
    show findList? z (dropTop n f.roots) = some u
    rw [findList?_dropTop f.roots (by
      intro k hk hkn
      rw [root_is nd hg k hk hkn]; exact h3)]
    exact hu
  · obtain ⟨e0, v, so⟩ := SiteAt.of_ctx nd hctx
    have hself : c.self = t := by
      have := Forest.get?_of_ctx nd hctx
      rw [hg] at this
      exact (Option.some.inj this).symm
    obtain ⟨p, l, k, r⟩ := c
    simp only at e0 so hself
    subst hself
    subst e0
    have hpar : f.parent? k.handle = some p := Forest.parent?_of_ctx hctx
    rw [hpar] at h1 hT
    have hne : z ≠ p := fun e => h1 (by rw [e])
    rw [specRemoveP_kid hpar]
    obtain ⟨ndL, _⟩ := so.nodupKids
    obtain ⟨tl, tr⟩ := tops_ne_of_nodup ndL
    have hLZ := leafZ_of_textFree so inv.valid hT
    apply so.frameGet _ hne
    simp only [Function.comp]
    rw [findList?_pairOpt, findList?_dropTop]
    · intro k' hk' hkc
      have : k' = k := PairAfter.eq_of_handle ndL hk' (by simp) hkc
      rw [this]; exact h3
    · intro k' hk' hkt
      exact hLZ k' (mem_of_mem_dropTop hk') hkt

/-- The second half of a move. -/
theorem getFrame_insert_stepP {Y : Forest} {dest : Dest} {t : HTree} {q : Nat} {vq : Value} (c : Nat)
    {LY : List HTree} (sY : SiteAt Y q vq LY) {z : Nat} (hne : z ≠ q)
    (hleaf : LeafZ z LY)
    (hleaft : t.value.isText = true → t.kids = [] ∧ t.handle ≠ z)
    (hpt : z ∉ handles t) :
    GetFrame Y ((Y.editAt (some q) (dest.insert t)).mergeNewAt q c) z := by
  rw [mergeNewAt_eq_newOpt, Forest.editAt_consolidation, Forest.editAt_editAt]
  apply sY.frameGet _ hne
  simp only [Function.comp]
  rw [findList?_newOpt _ _ (leafZ_insert hleaf hleaft), findList?_insert hpt]

/-- **Frame of a move, pair reading, `get?` form.** -/
theorem getFrame_specMoveP {f : Forest} {dest : Dest} {c : Nat} {t : HTree} {q : Nat} {vq : Value}
    {Lq : List HTree} (inv : f.Inv) (hgc : f.get? c = some t) (sq : SiteAt f q vq Lq) (hqt : q ∉ handles t)
    (hvq : vq.isText = false) (hsite : dest.site f = some q)
    {z : Nat} (h1 : z ≠ q) (h2 : some z ≠ f.parent? c) (h3 : z ∉ handles t)
    (hTq : TextFree f z (some q)) (hTo : TextFree f z (f.parent? c)) :
    GetFrame f (specMoveP dest c f) z := by
  have nd := inv.nodup
  cases hocc : dest.occupiedBy f c with
  | true =>
    unfold specMoveP; rw [hocc]; exact GetFrame.refl f z
  | false =>
  rw [specMoveP_unfold hocc hgc hsite]
  have htc : t.handle = c := (findList?_some f.roots t hgc).1
  have hleaft : t.value.isText = true → t.kids = [] ∧ t.handle ≠ z := by
    intro ht
    exact ⟨leaf_of_text inv.valid hgc ht, fun e => h3 (e ▸ fs_handle_mem_handles t)⟩
  have hleafq : LeafZ z Lq := leafZ_of_textFree sq inv.valid hTq
  cases hpar : f.parent? c with
  | none =>
    have hno : f.ctx? c = none := by
      cases h : f.ctx? c with
      | none => rfl
      | some cc => rw [Forest.parent?_of_ctx h] at hpar; cases hpar
    have g1 := getFrame_specRemoveP (z := z) inv hgc (by rw [hpar]; simp) hTo h3
    rw [Forest.nbOf_root hpar, Forest.mergeLeftAt_none, ← specRemoveP_root hpar]
    have sY : SiteAt (specRemoveP c f) q vq Lq := by
      rw [specRemoveP_root hpar]; exact sq.dropRoot hgc hqt
    have g2 := getFrame_insert_stepP (dest := dest) (t := t) c sY h1 hleafq hleaft h3
    exact g1.trans g2
  | some po =>
    rw [hpar] at h2 hTo
    have hne_po : z ≠ po := fun e => h2 (by rw [e])
    cases hctx : f.ctx? c with
    | none => rw [Forest.parent?_of_no_ctx hctx] at hpar; cases hpar
    | some cc =>
      obtain ⟨e0, vo, so⟩ := SiteAt.of_ctx nd hctx
      have hself : cc.self = t := by
        have := Forest.get?_of_ctx nd hctx
        rw [hgc] at this
        exact (Option.some.inj this).symm
      obtain ⟨po', l, k, r⟩ := cc
      simp only at e0 so hself
      subst hself
      subst e0
      have hpo' : po' = po := by
        rw [Forest.parent?_of_ctx hctx] at hpar
        exact Option.some.inj hpar
      subst hpo'
      obtain ⟨ndL, hpoL⟩ := so.nodupKids
      obtain ⟨tl, tr⟩ := tops_ne_of_nodup ndL
      have hdrop : dropTop k.handle (l ++ k :: r) = l ++ r := dropTop_mid rfl tl tr
      have hLZo : LeafZ z (l ++ k :: r) := leafZ_of_textFree so inv.valid hTo
      rw [mergeLeftAt_eq_pairOpt]
      simp only [Forest.editAt_consolidation]
      by_cases hpq : po' = q
      · subst hpq
        rw [mergeNewAt_eq_newOpt]
        simp only [Forest.editAt_consolidation]
        rw [Forest.editAt_editAt, Forest.editAt_editAt, Forest.editAt_editAt]
        apply so.frameGet _ h1
        simp only [Function.comp]
        rw [hdrop]
        have hLZ1 : LeafZ z (dest.insert k (l ++ r)) := by
          apply leafZ_insert _ hleaft
          intro k' hk'
          apply hLZo k'
          cases List.mem_append.1 hk' with
          | inl h => exact List.mem_append_left _ h
          | inr h => exact List.mem_append_right _ (List.mem_cons_of_mem _ h)
        rw [findList?_newOpt _ _ (leafZ_pairOpt _ _ hLZ1), findList?_pairOpt _ _ hLZ1, findList?_insert h3,
          ← hdrop, findList?_dropTop]
        intro k' hk' hkc
        have : k' = k := PairAfter.eq_of_handle ndL hk' (by simp) hkc
        rw [this]; exact h3
      · have hpot : po' ∉ handles k := by
          intro hin
          apply hpoL
          rw [fs_handlesList_append, handlesList_cons]
          exact List.mem_append_right _ (List.mem_append_left _ hin)
        have hnatI : ∀ g, NatFor (HTree.editAt po' g) (dest.insert k) :=
          fun g => natFor_insert (kidMap_editAt _ _) (editAt_of_not_mem k hpot) dest
        have hnatP : NatFor (HTree.editAt q (dest.insert k)) (pairOpt f.consolidation (f.nbOf k.handle)) := by
          unfold pairOpt
          split
          · exact natFor_adjOpt (kidMap_editAt _ _) _
          · exact natFor_id _
        rw [Forest.editAt_comm _ hpq hnatP (hnatI _), Forest.editAt_editAt, ← specRemoveP_kid hpar]
        have g1 := getFrame_specRemoveP (z := z) inv hgc (by rw [hpar]; exact h2) (by rw [hpar]; exact hTo) h3
        have hsub : (handlesList ((pairOpt f.consolidation (f.nbOf k.handle) ∘ dropTop k.handle) (l ++ k :: r))).Sublist
            (handlesList (l ++ k :: r)) := by
          simp only [Function.comp]
          exact (pairOpt_sublist _ _ _).trans (handlesList_dropTop_sublist _ _)
        have hLZq : LeafZ q (l ++ k :: r) := by
          intro k' hk' hkt
          exact ⟨so.leaf inv.valid k' hk' hkt, PairAfter.text_ne_site sq hvq (PairAfter.site_getKid so hk') hkt⟩
        have hlook : findList? q ((pairOpt f.consolidation (f.nbOf k.handle) ∘ dropTop k.handle) (l ++ k :: r)) =
            findList? q (l ++ k :: r) := by
          simp only [Function.comp]
          rw [findList?_pairOpt, findList?_dropTop]
          · intro k' hk' hkc
            have : k' = k := PairAfter.eq_of_handle ndL hk' (by simp) hkc
            rw [this]; exact hqt
          · intro k' hk' hkt
            exact hLZq k' (mem_of_mem_dropTop hk') hkt
        have sY := so.other sq.kids (fun e => hpq e.symm) _ hsub hlook
        rw [← specRemoveP_kid hpar] at sY
        have hkm := kidMap_editAt po' (pairOpt f.consolidation (f.nbOf k.handle) ∘ dropTop k.handle)
        have g2 := getFrame_insert_stepP (dest := dest) (t := k) k.handle sY h1
          (by
            intro k' hk' hkt
            obtain ⟨k0, hk0, e⟩ := List.mem_map.1 hk'
            subst e
            rw [hkm.value] at hkt
            obtain ⟨hl0, hz0⟩ := hleafq k0 hk0 hkt
            refine ⟨?_, by rw [hkm.handle]; exact hz0⟩
            exact ReplGapNF.editAt_kids_leaf hl0 (PairAfter.leaf_ne_site so (PairAfter.site_getKid sq hk0) hl0))
          hleaft h3
        exact g1.trans g2

end XotModel
