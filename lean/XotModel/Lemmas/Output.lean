/-
  Helper lemmas about the serialiser's stream folds (Model/Output, Model/Pretty):
  the token stream, the pretty token stream and the `Write` folds are one traversal.
-/
import XotModel.Model.XmlDecl

namespace XotModel
open Gen

variable (esc : Escapers) (env : Env) (pr : TokenParams) (t : Tree)

/-- Bytes of a rendered stream, as `serialize_node` writes them. -/
def streamBytes (l : List (Path × Output × OutputToken)) : Str :=
  l.flatMap (fun k => tokenBytes k.2.2)

/-- Bytes of a pretty stream, as `serialize_pretty` writes them. -/
def prettyStreamBytes (l : List (Path × Output × PrettyOutputToken)) : Str :=
  l.flatMap (fun k => prettyTokenBytes k.2.2)

/-- Forget the two fields `Pretty` adds. -/
def erasePretty (k : Path × Output × PrettyOutputToken) : Path × Output × OutputToken :=
  (k.1, k.2.1, ⟨k.2.2.space, k.2.2.text⟩)

/-! ### `serialize` writes what `tokens` yields -/

theorem writeGo_of_renderAll_ok (s : FStack) (outs : List (Path × Output))
    (l : List (Path × Output × OutputToken))
    (h : renderAllWith esc env pr t s outs = .ok l) :
    writeGoWith esc env pr t s outs = (streamBytes l, .ok ()) := by
  induction outs generalizing s l with
  | nil =>
    simp only [renderAllWith] at h
    cases h
    simp [writeGoWith, streamBytes]
  | cons po rest ih =>
    obtain ⟨p, o⟩ := po
    simp only [renderAllWith] at h
    simp only [writeGoWith]
    cases hr : renderAtWith esc env pr t s p o with
    | ok st =>
      obtain ⟨s', tok⟩ := st
      simp only [hr] at h ⊢
      cases hrest : renderAllWith esc env pr t s' rest with
      | ok l' =>
        simp only [hrest] at h
        cases h
        rw [ih s' l' hrest]
        simp [streamBytes]
      | err e => simp [hrest] at h
      | panic => simp [hrest] at h
    | err e => simp [hr] at h
    | panic => simp [hr] at h

theorem writeGo_of_renderAll_err (s : FStack) (outs : List (Path × Output)) (e : XotError)
    (h : renderAllWith esc env pr t s outs = .err e) :
    (writeGoWith esc env pr t s outs).2 = .err e := by
  induction outs generalizing s with
  | nil => simp [renderAllWith] at h
  | cons po rest ih =>
    obtain ⟨p, o⟩ := po
    simp only [renderAllWith] at h
    simp only [writeGoWith]
    cases hr : renderAtWith esc env pr t s p o with
    | ok st =>
      obtain ⟨s', tok⟩ := st
      simp only [hr] at h ⊢
      cases hrest : renderAllWith esc env pr t s' rest with
      | ok l' => simp [hrest] at h
      | err e' =>
        simp only [hrest] at h
        cases h
        exact ih s' hrest
      | panic => simp [hrest] at h
    | err e' =>
      simp only [hr] at h ⊢
      cases h
      rfl
    | panic => simp [hr] at h

theorem writeGo_of_renderAll_panic (s : FStack) (outs : List (Path × Output))
    (h : renderAllWith esc env pr t s outs = .panic) :
    (writeGoWith esc env pr t s outs).2 = .panic := by
  induction outs generalizing s with
  | nil => simp [renderAllWith] at h
  | cons po rest ih =>
    obtain ⟨p, o⟩ := po
    simp only [renderAllWith] at h
    simp only [writeGoWith]
    cases hr : renderAtWith esc env pr t s p o with
    | ok st =>
      obtain ⟨s', tok⟩ := st
      simp only [hr] at h ⊢
      cases hrest : renderAllWith esc env pr t s' rest with
      | ok l' => simp [hrest] at h
      | err e' => simp [hrest] at h
      | panic => exact ih s' hrest
    | err e' => simp [hr] at h
    | panic => simp

/-! ### `pretty_tokens` = `tokens` + two fields; `serialize_pretty` writes what it yields -/

theorem prettyAll_erase (sup : List Nat) (ps : PStack) (s : FStack) (outs : List (Path × Output)) :
    (match prettyAllWith esc env pr sup t ps s outs with
     | .ok l => renderAllWith esc env pr t s outs = .ok (l.map erasePretty)
     | .err e => renderAllWith esc env pr t s outs = .err e
     | .panic => renderAllWith esc env pr t s outs = .panic) := by
  induction outs generalizing ps s with
  | nil => simp [prettyAllWith, renderAllWith]
  | cons po rest ih =>
    obtain ⟨p, o⟩ := po
    simp only [prettyAllWith, renderAllWith]
    cases hr : renderAtWith esc env pr t s p o with
    | ok st =>
      obtain ⟨s', tok⟩ := st
      simp only []
      have := ih (prettifyAt sup t ps p o).1 s'
      cases hp : prettyAllWith esc env pr sup t (prettifyAt sup t ps p o).1 s' rest with
      | ok l => simp only [hp] at this; simp [this, erasePretty]
      | err e => simp only [hp] at this; simp [this]
      | panic => simp only [hp] at this; simp [this]
    | err e => simp
    | panic => simp

theorem renderAll_lift_pretty (sup : List Nat) (ps : PStack) (s : FStack) (outs : List (Path × Output))
    (l : List (Path × Output × OutputToken)) (h : renderAllWith esc env pr t s outs = .ok l) :
    ∃ ks, prettyAllWith esc env pr sup t ps s outs = .ok ks ∧ ks.map erasePretty = l := by
  have := prettyAll_erase esc env pr t sup ps s outs
  cases hp : prettyAllWith esc env pr sup t ps s outs with
  | ok ks =>
    simp only [hp] at this
    rw [this] at h
    cases h
    exact ⟨ks, rfl, rfl⟩
  | err e => simp only [hp] at this; rw [this] at h; cases h
  | panic => simp only [hp] at this; rw [this] at h; cases h

theorem writePrettyGo_of_prettyAll_ok (sup : List Nat) (ps : PStack) (s : FStack)
    (outs : List (Path × Output)) (l : List (Path × Output × PrettyOutputToken))
    (h : prettyAllWith esc env pr sup t ps s outs = .ok l) :
    writePrettyGoWith esc env pr sup t ps s outs = (prettyStreamBytes l, .ok ()) := by
  induction outs generalizing ps s l with
  | nil =>
    simp only [prettyAllWith] at h
    cases h
    simp [writePrettyGoWith, prettyStreamBytes]
  | cons po rest ih =>
    obtain ⟨p, o⟩ := po
    simp only [prettyAllWith] at h
    simp only [writePrettyGoWith]
    cases hr : renderAtWith esc env pr t s p o with
    | ok st =>
      obtain ⟨s', tok⟩ := st
      simp only [hr] at h ⊢
      cases hrest : prettyAllWith esc env pr sup t (prettifyAt sup t ps p o).1 s' rest with
      | ok l' =>
        simp only [hrest] at h
        cases h
        rw [ih _ s' l' hrest]
        simp [prettyStreamBytes, prettyTokenBytes, tokenBytes]
      | err e => simp [hrest] at h
      | panic => simp [hrest] at h
    | err e => simp [hr] at h
    | panic => simp [hr] at h

theorem writePrettyGo_outcome (sup : List Nat) (ps : PStack) (s : FStack) (outs : List (Path × Output)) :
    (writePrettyGoWith esc env pr sup t ps s outs).2 =
      (match prettyAllWith esc env pr sup t ps s outs with
       | .ok _ => .ok ()
       | .err e => .err e
       | .panic => .panic) := by
  induction outs generalizing ps s with
  | nil => simp [writePrettyGoWith, prettyAllWith]
  | cons po rest ih =>
    obtain ⟨p, o⟩ := po
    simp only [prettyAllWith, writePrettyGoWith]
    cases hr : renderAtWith esc env pr t s p o with
    | ok st =>
      obtain ⟨s', tok⟩ := st
      simp only []
      rw [ih]
      cases prettyAllWith esc env pr sup t (prettifyAt sup t ps p o).1 s' rest <;> rfl
    | err e => rfl
    | panic => rfl

end XotModel
