/-
  C17, scoping at STRING level.

  `parseString_sliced` (Lemmas/SpanSliceNode.lean) resolves the written prefix of an element / attribute by
  `lookupPrefix` over the ids on `scopeAt p.tree baseStack q`.  Here: the tables a parse leaves behind when it
  started from tables REACHABLE from `Xot::new()` are duplicate-free, start with the empty prefix and hold
  the ids of every namespace node of the tree, hence (`lookupPrefix_str`, C02_scope_strings) the id-level
  lookup IS "nearest enclosing declaration wins" on the declared STRINGS: `scopeStrAt`, the frames of
  (prefix string, namespace URI string) of the namespace nodes of the elements on the path.
-/
import XotModel.Lemmas.SpanSliceNode
import XotModel.Lemmas.ParseScope
import XotModel.Lemmas.IdMapParseTop
import XotModel.Lemmas.IdMapParseWitness

namespace XotModel
open IdMap Gen

/-! ### What every reachable interner has: the built-in entries -/

/-- The first entries `Xot::new()` registers: the empty prefix has id 0, and ids 0 / 1 of prefixes and
    namespaces exist. -/
structure Env.BaseTables (e : Env) : Prop where
  head : e.prefixes[0]? = some []
  pf2 : 2 ≤ e.prefixes.length
  ns2 : 2 ≤ e.namespaces.length

theorem Env.BaseTables.grow {e e' : Env} (h : e.BaseTables) (hp : e.prefixes <+: e'.prefixes)
    (hn : e.namespaces <+: e'.namespaces) : e'.BaseTables := by
  obtain ⟨x, hx⟩ := hp
  obtain ⟨y, hy⟩ := hn
  refine ⟨?_, ?_, ?_⟩
  · rw [← hx, List.getElem?_append_left (by have := h.pf2; omega)]; exact h.head
  · rw [← hx, List.length_append]; have := h.pf2; omega
  · rw [← hy, List.length_append]; have := h.ns2; omega

theorem Interner.Reachable.baseTables {x : Interner} (h : Interner.Reachable x) : x.env.BaseTables := by
  induction h with
  | new => exact ⟨by decide, by decide, by decide⟩
  | addNameNs x l ns _ ih => exact ih.grow List.prefix_rfl List.prefix_rfl
  | addNamespace x s _ ih =>
    obtain ⟨t, ht, _⟩ := getIdMut_prefix namespaceIdBits x.namespaceLookup s
    exact ih.grow List.prefix_rfl ⟨t, ht.symm⟩
  | addPrefix x s _ ih =>
    obtain ⟨t, ht, _⟩ := getIdMut_prefix prefixIdBits x.prefixLookup s
    exact ih.grow ⟨t, ht.symm⟩ List.prefix_rfl
  | clone x _ ih => exact ih

/-! ### The stack of declarations of a tree whose ids are in range -/

theorem frameValid_declsOf {e : Env} (ks : List Tree) (h : ∀ k ∈ ks, k.idsIn e = true) :
    FrameValid e (sdDeclsOf ks) := by
  intro x hx
  simp only [sdDeclsOf, List.mem_filterMap] at hx
  obtain ⟨k, hk, hkx⟩ := hx
  have hi := h k hk
  cases k with
  | node v ks' =>
    rw [Tree.idsIn, Bool.and_eq_true] at hi
    cases v <;> simp only [Tree.value, reduceCtorEq, Option.some.injEq] at hkx
    subst hkx
    simpa [Value.idsIn] using hi.1

theorem stackValid_inner {e : Env} {v : Value} {ks : List Tree} {stack : NsStack}
    (h : ∀ k ∈ ks, k.idsIn e = true) (hs : StackValid e stack) : StackValid e (innerStack v ks stack) := by
  cases v <;> try exact hs
  intro d hd
  simp only [innerStack, List.mem_cons] at hd
  rcases hd with rfl | hd
  · exact frameValid_declsOf ks h
  · exact hs d hd

theorem stackValid_scopeAt {e : Env} : ∀ (q : Path) (t : Tree) (stack : NsStack), t.idsIn e = true →
    StackValid e stack → StackValid e (scopeAt t stack q) := by
  intro q
  induction q with
  | nil =>
    intro t stack ht hs
    cases t with
    | node v ks =>
      rw [Tree.idsIn, Bool.and_eq_true] at ht
      exact stackValid_inner ((idsInList_iff e ks).1 ht.2) hs
  | cons i rest ih =>
    intro t stack ht hs
    cases t with
    | node v ks =>
      rw [Tree.idsIn, Bool.and_eq_true] at ht
      have hks := (idsInList_iff e ks).1 ht.2
      have hin := stackValid_inner (v := v) hks hs
      simp only [scopeAt]
      cases hk : ks[i]? with
      | none => exact hin
      | some k => exact ih k _ (hks k (List.mem_of_getElem? hk)) hin

theorem stackValid_base {e : Env} (h : e.BaseTables) : StackValid e baseStack := by
  intro d hd x hx
  have := h.pf2
  have := h.ns2
  simp only [baseStack, List.mem_cons, List.not_mem_nil, or_false] at hd
  rcases hd with rfl | rfl <;>
    (simp only [List.mem_cons, List.not_mem_nil, or_false] at hx; subst hx
     simp only [Env.emptyPrefix, Env.noNamespace, Env.xmlPrefix, Env.xmlNamespace]; omega)

/-! ### The declared strings in force at a node -/

/-- The namespace declarations in force inside the node at `q`, as STRINGS: one frame per element on the
    path (innermost first, the node itself included) holding (prefix, namespace URI) of its namespace-node
    children in document order, above the two initial bindings. -/
def scopeStrAt (p : Parsed) (q : Path) : List (List (Str × Str)) :=
  strStack p.env (scopeAt p.tree baseStack q)

/-- The tables after an accepted parse from reachable tables. -/
structure ParsedTables (p : Parsed) : Prop where
  nodup : p.env.prefixes.Nodup
  nsNodup : p.env.namespaces.Nodup
  base : p.env.BaseTables
  ids : p.tree.idsIn p.env = true

theorem build_parsedTables {x : Interner} (hx : Interner.Reachable x) {m : Mode} {len : Nat} {ts : List Token}
    {lexErr : Option Nat} {p : Parsed} (hb : build m len x.env ts lexErr = .ok p) : ParsedTables p := by
  have hinv := hx.inv
  have he : (x.parse ts).env = p.env := (Interner.parse_build hinv m len ts lexErr).1 p hb
  have hi := Interner.regAll_inv (buildRegs x.env ts) hinv
  have hm := (Interner.regAll_mono (buildRegs x.env ts) x).prefixOf
  refine ⟨?_, ?_, ?_, (Interner.parse_tree hb).2⟩
  · rw [← he]; exact hi.pf.nodup
  · rw [← he]; exact hi.ns.nodup
  · rw [← he]; exact hx.baseTables.grow hm.prefixes hm.namespaces

theorem idxOf_eq_zero_iff {e : Env} (hb : e.BaseTables) {pfx : Str} (hm : pfx ∈ e.prefixes) :
    e.prefixes.idxOf pfx = Env.emptyPrefix ↔ pfx = [] := by
  have hh := hb.head
  cases hp : e.prefixes with
  | nil => rw [hp] at hh; simp at hh
  | cons a rest =>
    rw [hp] at hh
    simp only [List.getElem?_cons_zero, Option.some.injEq] at hh
    subst hh
    simp only [Env.emptyPrefix, List.idxOf_cons]
    constructor
    · intro h
      by_cases hc : ([] : Str) = pfx
      · exact hc.symm
      · have : (([] : Str) == pfx) = false := by simpa using hc
        rw [this] at h
        simp at h
    · rintro rfl; simp

/-- The id-level lookup of `NameFacts` read as strings. -/
theorem lookup_scope_str {p : Parsed} (ht : ParsedTables p) (q : Path) (pfx : Str) {ns : Nat}
    (h : lookupPrefix (scopeAt p.tree baseStack q) (p.env.prefixes.idxOf pfx) = some ns) :
    lookupStr (scopeStrAt p q) pfx = some (p.env.namespaceStr ns) := by
  have hv : StackValid p.env (scopeAt p.tree baseStack q) :=
    stackValid_scopeAt q p.tree baseStack ht.ids (stackValid_base ht.base)
  have := lookupPrefix_str ht.nodup pfx _ hv
  have hid : (p.env.internPrefix pfx).2 = p.env.prefixes.idxOf pfx := rfl
  rw [hid, h] at this
  exact this.symm

/-- The scope at a child is the child's own declarations on top of the scope at its parent. -/
theorem scopeAt_snoc : ∀ (q : Path) (i : Nat) (t : Tree) (stack : NsStack) {v : Value} {ks : List Tree}
    {v' : Value} {ks' : List Tree}, t.at? q = some (.node v ks) → ks[i]? = some (.node v' ks') →
    scopeAt t stack (q ++ [i]) = innerStack v' ks' (scopeAt t stack q) := by
  intro q
  induction q with
  | nil =>
    intro i t stack v ks v' ks' hat hk
    cases t with
    | node tv tks =>
      simp only [Tree.at?, Option.some.injEq, Tree.node.injEq] at hat
      obtain ⟨rfl, rfl⟩ := hat
      simp only [List.nil_append, scopeAt, hk]
  | cons j rest ih =>
    intro i t stack v ks v' ks' hat hk
    cases t with
    | node tv tks =>
      simp only [List.cons_append, scopeAt]
      cases hj : tks[j]? with
      | none => simp [Tree.at?, hj] at hat
      | some c =>
        have hat' : c.at? rest = some (.node v ks) := by simpa [Tree.at?, hj] using hat
        exact ih i c _ hat' hk

/-! ### A witness: `<p:a xmlns:p='u'><p:b xmlns:p='w'/><p:c/></p:a>` -/

def scopeWitness : List Token :=
  [.elementStart ⟨['p'], 0⟩ ⟨['a'], 0⟩ ⟨[], 0⟩,
   .attribute ⟨['x', 'm', 'l', 'n', 's'], 0⟩ ⟨['p'], 0⟩ ⟨['u'], 0⟩ ⟨[], 0⟩,
   .elementEnd .open ⟨[], 0⟩,
   .elementStart ⟨['p'], 0⟩ ⟨['b'], 0⟩ ⟨[], 0⟩,
   .attribute ⟨['x', 'm', 'l', 'n', 's'], 0⟩ ⟨['p'], 0⟩ ⟨['w'], 0⟩ ⟨[], 0⟩,
   .elementEnd .empty ⟨[], 0⟩,
   .elementStart ⟨['p'], 0⟩ ⟨['c'], 0⟩ ⟨[], 0⟩,
   .elementEnd .empty ⟨[], 0⟩,
   .elementEnd (.close ⟨['p'], 0⟩ ⟨['a'], 0⟩) ⟨[], 0⟩]

/-- `p:b` (path `0.1`) sees its own `p ↦ w` above `p ↦ u`; `p:c` (path `0.2`) sees `p ↦ u` only; the names
    of the two elements carry these namespaces. -/
def scopeWitnessCheck (r : BuildResult) : Bool :=
  match r with
  | .ok p =>
    (scopeStrAt p [0, 1]).take 2 == [[(['p'], ['w'])], [(['p'], ['u'])]] &&
    (scopeStrAt p [0, 2]).take 2 == [[], [(['p'], ['u'])]] &&
    lookupStr (scopeStrAt p [0, 1]) ['p'] == some ['w'] &&
    lookupStr (scopeStrAt p [0, 2]) ['p'] == some ['u'] &&
    (match p.tree.at? [0, 1] with
     | some (.node (.element id) _) => p.env.namespaceStr (p.env.nsOfName id) == ['w'] && p.env.localName id == ['b']
     | _ => false) &&
    (match p.tree.at? [0, 2] with
     | some (.node (.element id) _) => p.env.namespaceStr (p.env.nsOfName id) == ['u'] && p.env.localName id == ['c']
     | _ => false)
  | _ => false

/-- What `scopeWitnessCheck` says about the element `p:b` at path `0.1`. -/
theorem scopeWitnessCheck_spec {r : BuildResult} (h : scopeWitnessCheck r = true) :
    ∃ p, r = .ok p ∧ (∃ id ks, p.tree.at? [0, 1] = some (.node (.element id) ks) ∧ p.env.localName id = ['b']) ∧
      (scopeStrAt p [0, 1]).take 2 = [[(['p'], ['w'])], [(['p'], ['u'])]] := by
  unfold scopeWitnessCheck at h
  split at h
  · rename_i p
    simp only [Bool.and_eq_true] at h
    obtain ⟨⟨⟨⟨⟨h1, _⟩, _⟩, _⟩, h5⟩, _⟩ := h
    refine ⟨p, rfl, ?_, by simpa using h1⟩
    split at h5
    · rename_i id ks hat
      simp only [Bool.and_eq_true, beq_iff_eq] at h5
      exact ⟨id, ks, hat, h5.2⟩
    · cases h5
  · cases h

open Witness in
theorem interner_new_env : Interner.new.env = Env.fresh := ofInterner_new

end XotModel
