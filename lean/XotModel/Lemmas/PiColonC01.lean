/-
  GENERATED COPY (wt-c17str) of the declarations of XotModel.Props.C01 that depend on `valueOK`, restated in the
  namespace `XotModel.PiColon`, where `valueOK` asks of a PI target what the tokenizer's `consume_name` accepts
  (`nameOK`: colons allowed) instead of an NCName (Lemmas/PiColonDefs.lean).  Proof texts unchanged except where noted.
-/
import XotModel.Props.C01
import XotModel.Lemmas.PiColonAcceptedMain

namespace XotModel.PiColon
open XotModel XotModel.Gen XotModel.Props

/-- On the round-trip domain no side condition is left. -/
theorem C01_serialised_is_rendering_representable (env : Env) (t : Tree)
    (hr : RepresentableFragment env t = true) :
    toXmlString env t [] =
      (match serTokensTop env t with
       | .ok ts => .ok (renderTokens ts)
       | .error e => .err e) := by
  obtain ⟨henv, _, hn, _⟩ := (representableFragment_iff env t).mp hr
  apply C01_serialised_is_rendering env t
  · rw [envOK_xmlPrefix env henv]; simp
  · exact nodeOK_declsNamed env t hn
/-- The tokens of a representable document whose serialisation succeeds satisfy the side
    conditions of the tokenizer contract in document mode: NCName prefixes and local names,
    attribute values without `<` and `"`, non-empty text without `<` and `]]>`, XML Chars only,
    comment and PI conditions, attributes only inside start tags, balanced tags, no two text
    tokens in a row, comments / PIs around exactly one top-level element. -/
theorem C01_rendering_lexok (env : Env) (t : Tree) (hr : Representable env t = true)
    (ts : List Token) (h : serTokensTop env t = .ok ts) : LexOK false ts = true :=
  lexOK_document env t hr ts h
/-- Fragment mode (`parse_fragment`): any well-formed content under the document node. -/
theorem C01_rendering_lexok_fragment (env : Env) (t : Tree) (hr : RepresentableFragment env t = true)
    (ts : List Token) (h : serTokensTop env t = .ok ts) : LexOK true ts = true :=
  lexOK_fragment env t hr ts h
theorem C01_serialised_ok_representable {env : Env} {t : Tree} (hr : RepresentableFragment env t = true) {s : Str}
    (hs : toXmlString env t [] = .ok s) : ∃ ts, serTokensTop env t = .ok ts ∧ s = renderTokens ts := by
  rw [C01_serialised_is_rendering_representable env t hr] at hs
  cases hts : serTokensTop env t with
  | ok ts => rw [hts] at hs; cases hs; exact ⟨ts, rfl, rfl⟩
  | error e => rw [hts] at hs; cases hs
/-- **C01_build** (`parse` without the tokenizer): the builder, run on the tokens `to_string` renders
    (any source length, any byte positions: `C02_positions_irrelevant`), returns the original tree
    and leaves the interning tables unchanged. -/
theorem C01_build (env : Env) (t : Tree) (hr : Representable env t = true) (ts : List Token)
    (h : serTokensTop env t = .ok ts) (len : Nat) :
    ∃ p, build .document len env ts none = .ok p ∧ p.tree = t ∧ p.env = env := by
  simp only [Representable, Bool.and_eq_true] at hr
  obtain ⟨hfrag, hsingle⟩ := hr
  obtain ⟨ks, rfl, hf⟩ := topFacts hfrag h
  obtain ⟨p0, hb, ht, he⟩ := build_document_spelled_ns hf.he.envBaseNs len
    (spellTop env (.node .document ks)) (spellTop_well hf)
    (wellFormedTop_of_abstractNs (spellTop_abstractTop hf hsingle))
  rw [spell_tokens env _ ts h] at hb
  rw [spellTop_encode hf] at ht he
  exact ⟨p0, hb, ht, he⟩
/-- `parse_fragment` without the tokenizer. -/
theorem C01_build_fragment (env : Env) (t : Tree) (hr : RepresentableFragment env t = true)
    (ts : List Token) (h : serTokensTop env t = .ok ts) (len : Nat) :
    ∃ p, build .fragment len env ts none = .ok p ∧ p.tree = t ∧ p.env = env := by
  obtain ⟨ks, rfl, hf⟩ := topFacts hr h
  obtain ⟨p0, hb, ht, he⟩ := build_fragment_spelled_ns hf.he.envBaseNs len
    (spellTop env (.node .document ks)) (spellTop_well hf)
  rw [spell_tokens env _ ts h] at hb
  rw [spellTop_encode hf] at ht he
  exact ⟨p0, hb, ht, he⟩
/-- **C01_main, strong form** (`parse`): the reparsed tree is the original tree, node for node and id
    for id — names, attribute sets and values, character data, comments, PIs, namespace declarations
    on the same elements with the same prefix-to-URI bindings — and the interning tables are
    unchanged. -/
theorem C01_main_identical (env : Env) (t : Tree) (hr : Representable env t = true)
    (lex : Str → List Token × Option Nat) (hlex : LexCanon false lex) (s : Str)
    (hs : toXmlString env t [] = .ok s) :
    ∃ ts p, lex s = (ts, none) ∧ build .document (strLen s) env ts none = .ok p ∧
      p.tree = t ∧ p.env = env := by
  have hfrag : RepresentableFragment env t = true := by
    simp only [Representable, Bool.and_eq_true] at hr; exact hr.1
  obtain ⟨ts0, hser, rfl⟩ := C01_serialised_ok_representable hfrag hs
  obtain ⟨ts, hl, her⟩ := hlex ts0 (C01_rendering_lexok env t hr ts0 hser)
  obtain ⟨p0, hb, ht, he⟩ := C01_build env t hr ts0 hser (strLen (renderTokens ts0))
  obtain ⟨p, hp, h1, h2, _⟩ := C02_positions_irrelevant_ok .document _ (strLen (renderTokens ts0)) env ts0 ts
    her.1.symm her.2 p0 hb
  exact ⟨ts, p, hl, hp, by rw [h1, ht], by rw [h2, he]⟩
/-- **C01_main_fragment, strong form** (`parse_fragment`). -/
theorem C01_main_fragment_identical (env : Env) (t : Tree) (hr : RepresentableFragment env t = true)
    (lex : Str → List Token × Option Nat) (hlex : LexCanon true lex) (s : Str)
    (hs : toXmlString env t [] = .ok s) :
    ∃ ts p, lex s = (ts, none) ∧ build .fragment (strLen s) env ts none = .ok p ∧
      p.tree = t ∧ p.env = env := by
  obtain ⟨ts0, hser, rfl⟩ := C01_serialised_ok_representable hr hs
  obtain ⟨ts, hl, her⟩ := hlex ts0 (C01_rendering_lexok_fragment env t hr ts0 hser)
  obtain ⟨p0, hb, ht, he⟩ := C01_build_fragment env t hr ts0 hser (strLen (renderTokens ts0))
  obtain ⟨p, hp, h1, h2, _⟩ := C02_positions_irrelevant_ok .fragment _ (strLen (renderTokens ts0)) env ts0 ts
    her.1.symm her.2 p0 hb
  exact ⟨ts, p, hl, hp, by rw [h1, ht], by rw [h2, he]⟩
/-- **C01_serialises**: for a representable document or fragment, `to_string` succeeds exactly when
    every namespaced name has a usable prefix in scope — `namesWritable` (Model/Scope.lean), the
    serialiser's own `MissingPrefix` checks run over the tree with the name stack
    `XmlSerializer::new` builds: no element in no namespace under a default namespace,
    `element_fullname` and every `attribute_fullname` answer (C10_error_element / _attribute say when;
    `create_missing_prefixes` establishes it: C10_repair_document_writable).  The hypothesis
    `toXmlString … = .ok s` of C01_main is therefore this decidable condition on the tree. -/
theorem C01_serialises (env : Env) (t : Tree) (hr : RepresentableFragment env t = true) :
    (∃ s, toXmlString env t [] = .ok s) ↔ namesWritable env t [] = some true := by
  rw [← serTokensTop_ok_iff hr, C01_serialised_is_rendering_representable env t hr]
  cases serTokensTop env t <;> simp [exceptIsOk]
/-- **C01_main as the property words it**: the reparsed tree is `deep_equal` (Model/Compare.lean,
    the crate's own comparison; canonical-form equality by C13_iff) to the original.  A corollary of
    the literal equality `C01_main_identical`, which says more (declarations and prefixes too). -/
theorem C01_main_deep_equal (env : Env) (t : Tree) (hr : Representable env t = true)
    (lex : Str → List Token × Option Nat) (hlex : LexCanon false lex) (s : Str)
    (hs : toXmlString env t [] = .ok s) :
    ∃ ts p, lex s = (ts, none) ∧ build .document (strLen s) env ts none = .ok p ∧
      deepEqual p.tree t = true := by
  obtain ⟨ts, p, h1, h2, h3, _⟩ := C01_main_identical env t hr lex hlex s hs
  refine ⟨ts, p, h1, h2, ?_⟩
  have hfrag : RepresentableFragment env t = true := by
    simp only [Representable, Bool.and_eq_true] at hr; exact hr.1
  obtain ⟨_, _, hn, _⟩ := (representableFragment_iff env t).mp hfrag
  have hv := valid_of_nodeOK t hn
  rw [h3]
  exact (deepEqual_iff_canon t t hv hv).mpr rfl
theorem C01_main_fragment_deep_equal (env : Env) (t : Tree) (hr : RepresentableFragment env t = true)
    (lex : Str → List Token × Option Nat) (hlex : LexCanon true lex) (s : Str)
    (hs : toXmlString env t [] = .ok s) :
    ∃ ts p, lex s = (ts, none) ∧ build .fragment (strLen s) env ts none = .ok p ∧
      deepEqual p.tree t = true := by
  obtain ⟨ts, p, h1, h2, h3, _⟩ := C01_main_fragment_identical env t hr lex hlex s hs
  refine ⟨ts, p, h1, h2, ?_⟩
  obtain ⟨_, _, hn, _⟩ := (representableFragment_iff env t).mp hr
  have hv := valid_of_nodeOK t hn
  rw [h3]
  exact (deepEqual_iff_canon t t hv hv).mpr rfl
/-- **C01_roundtrip_identical**: the reparsed tree IS the original tree — node kinds and order, name
    ids (expanded names), attribute sets and values, character data, comments, PIs, namespace
    declarations on the same elements with the same prefix-to-URI bindings — the interning tables are
    unchanged, and `deep_equal` answers `true`. -/
theorem C01_roundtrip_identical (env : Env) (t : Tree) (hr : Representable env t = true) (s : Str)
    (hs : toXmlString env t [] = .ok s) :
    ∃ p, parseString .document env s = .ok p ∧ p.tree = t ∧ p.env = env ∧ deepEqual p.tree t = true := by
  obtain ⟨ts, p, h1, h2, h3, h4⟩ := C01_main_identical env t hr lexDocument C01_lexCanon_document s hs
  obtain ⟨ts', p', k1, k2, k3⟩ := C01_main_deep_equal env t hr lexDocument C01_lexCanon_document s hs
  rw [h1] at k1
  cases k1
  rw [h2] at k2
  cases k2
  refine ⟨p, ?_, h3, h4, k3⟩
  simp only [parseString, lexMode, h1]
  exact h2
theorem C01_roundtrip_fragment_identical (env : Env) (t : Tree) (hr : RepresentableFragment env t = true)
    (s : Str) (hs : toXmlString env t [] = .ok s) :
    ∃ p, parseString .fragment env s = .ok p ∧ p.tree = t ∧ p.env = env ∧ deepEqual p.tree t = true := by
  obtain ⟨ts, p, h1, h2, h3, h4⟩ :=
    C01_main_fragment_identical env t hr lexFragment C01_lexCanon_fragment s hs
  obtain ⟨ts', p', k1, k2, k3⟩ := C01_main_fragment_deep_equal env t hr lexFragment C01_lexCanon_fragment s hs
  rw [h1] at k1
  cases k1
  rw [h2] at k2
  cases k2
  refine ⟨p, ?_, h3, h4, k3⟩
  simp only [parseString, lexMode, h1]
  exact h2
/-- The property as one statement on the tree: a representable document every namespaced name of which
    has a usable prefix in scope serialises, and the text parses back to the same tree. -/
theorem C01_roundtrip_writable (env : Env) (t : Tree) (hr : Representable env t = true)
    (hw : namesWritable env t [] = some true) :
    ∃ s p, toXmlString env t [] = .ok s ∧ parseString .document env s = .ok p ∧ p.tree = t ∧ p.env = env ∧
      deepEqual p.tree t = true := by
  have hfrag : RepresentableFragment env t = true := by
    simp only [Representable, Bool.and_eq_true] at hr; exact hr.1
  obtain ⟨s, hs⟩ := (C01_serialises env t hfrag).mpr hw
  obtain ⟨p, h1, h2, h3, h4⟩ := C01_roundtrip_identical env t hr s hs
  exact ⟨s, p, hs, h1, h2, h3, h4⟩

end XotModel.PiColon
