/-
  C06 lemmas: `element_unwrap`: refused with nothing changed, or carried out; the only panic
  (`last_child` is `None` although `first_child` is `Some`) needs an ill-ordered child list, which
  the full invariant excludes.
-/
import XotModel.Lemmas.FatomWrap

namespace XotModel
open HTree

theorem map_handle_sublist : ∀ ks : List HTree, (ks.map HTree.handle).Sublist (handlesList ks)
  | [] => List.Sublist.refl _
  | k :: ks => by
    simp only [List.map_cons, handlesList]
    rw [handles_eq, List.cons_append]
    exact List.Sublist.cons_cons _
      (List.Sublist.trans (map_handle_sublist ks) (List.sublist_append_right _ _))

namespace Forest

/-- Splicing out a list of distinct leaves (attribute / namespace nodes). -/
theorem spliceLeaves : ∀ (L : List HTree) (f : Forest), f.W →
    (∀ k ∈ L, f.isElement k.handle = false ∧ f.isDocument k.handle = false) →
    (L.map HTree.handle).Nodup →
    (L.foldl (fun acc k => acc.spliceOut k.handle) f).W ∧
    Frame f (L.foldl (fun acc k => acc.spliceOut k.handle) f) (L.map HTree.handle)
  | [], f, w, _, _ => ⟨w, Frame.refl _ _⟩
  | k :: L, f, w, hL, hn => by
    simp only [List.foldl_cons, List.map_cons]
    rw [List.map_cons] at hn
    have hn' := List.nodup_cons.1 hn
    cases hg : f.get? k.handle with
    | none =>
      rw [spliceOut_dead hg]
      obtain ⟨w', fr⟩ := spliceLeaves L f w (fun k' hk' => hL k' (List.mem_cons_of_mem _ hk')) hn'.2
      exact ⟨w', fr.mono (fun x hx => List.mem_cons_of_mem _ hx)⟩
    | some t' =>
      have hv : f.value? k.handle = some t'.value := by unfold value?; rw [hg]; rfl
      obtain ⟨he, hd⟩ := hL k (List.mem_cons_self ..)
      have hkids : t'.kids = [] := by
        apply leafOk_kids_nil (findList?_leafOk _ f.roots t' w.leaves hg)
        · unfold isElement at he; rw [hv] at he
          cases h : t'.value.isElement with
          | false => rfl
          | true => simp [h] at he
        · unfold isDocument at hd; rw [hv] at hd
          cases h : t'.value.isDocument with
          | false => rfl
          | true => simp [h] at hd
      have hh : handles t' = [k.handle] := by rw [handles_eq, hkids, get?_handle hg]; rfl
      obtain ⟨w1, _, fr1⟩ := spliceOut_spec w hg (fun _ => by rw [hkids]; exact Nat.zero_le _)
      rw [hh] at fr1
      have hL1 : ∀ k' ∈ L, (f.spliceOut k.handle).isElement k'.handle = false ∧
          (f.spliceOut k.handle).isDocument k'.handle = false := by
        intro k' hk'
        have hne : k'.handle ∉ [k.handle] := by
          simp only [List.mem_singleton]
          intro e
          exact hn'.1 (e ▸ List.mem_map_of_mem hk')
        rw [fr1.isElement hne, fr1.isDocument hne]
        exact hL k' (List.mem_cons_of_mem _ hk')
      obtain ⟨w', fr⟩ := spliceLeaves L _ w1 hL1 hn'.2
      exact ⟨w', (fr1.trans fr).mono (fun x hx => by simpa using hx)⟩

theorem removeElement_spec {f : Forest} (w : f.W) {node q : Nat} (hp : f.parent? node = some q) :
    (f.removeElement node).W ∧ (f.removeElement node).corrupt = f.corrupt := by
  unfold removeElement
  obtain ⟨t, hg⟩ := get?_of_isLive (parent?_live hp).1
  rw [hg]
  simp only
  have hnt : (handles t).Nodup := (findList?_sublist node f.roots t hg).nodup w.nodup
  rw [handles_eq] at hnt
  have hsub : (t.kids.takeWhile (fun k => !k.value.isNormal)).Sublist t.kids :=
    List.takeWhile_sublist _
  have hL : ∀ k ∈ t.kids.takeWhile (fun k => !k.value.isNormal),
      f.isElement k.handle = false ∧ f.isDocument k.handle = false := by
    intro k hk
    have hp' := mem_takeWhile_imp' _ _ _ hk
    have hv : f.value? k.handle = some k.value := by
      unfold value?; rw [(kid_spec w hg (hsub.subset hk)).1]; rfl
    unfold isElement isDocument
    rw [hv]
    cases hkv : k.value <;> simp_all [Value.isNormal, Value.category, Value.isElement, Value.isDocument]
  have hnd : ((t.kids.takeWhile (fun k => !k.value.isNormal)).map HTree.handle).Nodup :=
    ((hsub.map HTree.handle).trans (map_handle_sublist t.kids)).nodup (List.nodup_cons.1 hnt).2
  obtain ⟨w1, fr1⟩ := spliceLeaves _ f w hL hnd
  generalize (t.kids.takeWhile (fun k => !k.value.isNormal)).foldl
    (fun acc k => acc.spliceOut k.handle) f = f1 at w1 fr1
  have hnP : node ∉ (t.kids.takeWhile (fun k => !k.value.isNormal)).map HTree.handle := by
    intro h'
    have : node ∈ handlesList t.kids :=
      (map_handle_sublist t.kids).subset ((hsub.map HTree.handle).subset h')
    rw [get?_handle hg] at hnt
    exact (List.nodup_cons.1 hnt).1 this
  have hp1 : f1.parent? node = some q := by rw [fr1.parent node hnP]; exact hp
  obtain ⟨t1, hg1⟩ := get?_of_isLive (parent?_live hp1).1
  obtain ⟨w2, _, fr2⟩ := spliceOut_spec w1 hg1 (fun h => by
    rw [isRoot_false_of_parent w1 hp1] at h; cases h)
  exact ⟨w2, by rw [fr2.corrupt, fr1.corrupt]⟩

/-- `element_unwrap`: refused with nothing changed, carried out, or — only if the element has a
    normal child but its last child is not normal — the `unwrap` panic. -/
theorem elementUnwrap_outcome {f : Forest} (w : f.W) (node : Nat) :
    f.elementUnwrap node = (f, .err .invalidOperation) ∨ OkRes f (f.elementUnwrap node) ∨
    (f.elementUnwrap node = (f, .panic) ∧ (f.firstChild node).isSome = true ∧
      f.lastChild node = none) := by
  unfold elementUnwrap
  cases he : f.isElement node with
  | false => left; simp
  | true =>
    simp only [Bool.not_true, Bool.false_eq_true, if_false]
    cases hfc : f.firstChild node with
    | none => right; left; exact remove_ok w node
    | some first =>
      simp only
      cases hp : f.parent? node with
      | none => left; simp
      | some q =>
        simp only [Option.isNone_some, Bool.false_eq_true, if_false]
        cases hlc : f.lastChild node with
        | none => right; right; exact ⟨rfl, rfl, rfl⟩
        | some last =>
          right; left
          simp only
          obtain ⟨w1, hc1⟩ := removeElement_spec w hp
          generalize f.removeElement node = f1 at w1 hc1
          obtain ⟨w2, _, P, _, fr2⟩ := removeConsolidate_spec w1 (f1.prevSibling first) (some first)
          have hc2 : (f1.removeConsolidate (f1.prevSibling first) (some first)).1.corrupt = f.corrupt := by
            rw [fr2.corrupt, hc1]
          split
          · split
            · exact okRes_consolidate w2 hc2 _ _
            · exact okRes_consolidate w2 hc2 _ _
          · exact okRes_consolidate w2 hc2 _ _

end Forest
end XotModel
