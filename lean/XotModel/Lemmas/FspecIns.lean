/-
  FspecIns — what `insert_after`, `insert_before` and `prepend` (which uses
  `checked_insert_after` behind the attribute nodes) need on top of `append`: a reference node
  that is a child of `q` is not a parentless tree and the moved subtree is not among its
  ancestors, so indextree's checked insertion is the plain list insertion.
-/
import XotModel.Lemmas.FspecAppend

namespace XotModel
open HTree Spec

/-- The parent of a node that lies strictly inside the subtree `t` lies inside `t`. -/
theorem parent_inside {Z : Forest} {c : Nat} {t : HTree} {q : Nat} {vq : Value} {A : List HTree} {w : HTree}
    {B : List HTree} (hgc : Z.get? c = some t) (sq : SiteAt Z q vq (A ++ w :: B))
    (hin : w.handle ∈ handles t) (hne : w.handle ≠ c) : q ∈ handles t := by
  have nd := sq.nd
  have htc : t.handle = c := (findList?_some Z.roots t hgc).1
  have ndt : (handles t).Nodup := (fs_findList?_sublist Z.roots t hgc).nodup nd
  have hsome := find?_isSome_of_mem t hin
  cases hf : find? w.handle t with
  | none => rw [hf] at hsome; cases hsome
  | some w' =>
    rcases find?_root_or_ctx t w' hf with h | h
    · exact absurd (h.symm.trans htc) hne
    · cases hb : ctxBelow w.handle t with
      | none => rw [hb] at h; cases h
      | some c' =>
        obtain ⟨e0, v', e1⟩ := ctxBelow_find t c' ndt hb
        have hpin : c'.parent ∈ handles t := mem_of_find?_some e1
        have hget : Z.get? c'.parent = some (.node c'.parent v' (c'.left ++ c'.self :: c'.right)) := by
          rw [Forest.get?_eq, findList?_inside Z.roots t nd hgc hpin]; exact e1
        have hctx1 := Forest.ctx_of_kids nd hget
        rw [e0, sq.ctx] at hctx1
        have := Option.some.inj hctx1
        injection this with ep _ _ _
        rw [ep]; exact hpin

/-- indextree's two refusals for `checked_insert_after/before` do not arise. -/
theorem insert_guard {Z : Forest} {c : Nat} {t : HTree} {q : Nat} {vq : Value} {A : List HTree} {w : HTree}
    {B : List HTree} (hgc : Z.get? c = some t) (sq : SiteAt Z q vq (A ++ w :: B))
    (hq : q ∉ handles t) (hne : w.handle ≠ c) :
    ((Z.ancestors w.handle).contains c || Z.isRoot w.handle) = false := by
  rw [Forest.isRoot_of_ctx sq.nd sq.ctx, Bool.or_false]
  cases h : (Z.ancestors w.handle).contains c with
  | false => rfl
  | true =>
    obtain ⟨u, hu, hin⟩ := (Forest.ancestors_contains_iff sq.nd).1 h
    rw [hgc] at hu
    have := Option.some.inj hu
    subst this
    exact absurd (parent_inside hgc sq hin hne) hq

namespace Forest

theorem checkedInsertAfter_ok {Z : Forest} {c : Nat} {t : HTree} {q : Nat} {vq : Value} {A : List HTree} {w : HTree}
    {B : List HTree} (hgc : Z.get? c = some t) (sq : SiteAt Z q vq (A ++ w :: B))
    (hq : q ∉ handles t) (hne : w.handle ≠ c) :
    Z.checkedInsertAfter w.handle c = ((Z.editAt (Z.parent? c) (dropTop c)).placeAfter w.handle t, true) := by
  unfold checkedInsertAfter
  rw [if_neg hne, insert_guard hgc sq hq hne]
  simp only [Bool.false_eq_true, if_false]
  rw [cut_any sq.nd hgc]

theorem checkedInsertBefore_ok {Z : Forest} {c : Nat} {t : HTree} {q : Nat} {vq : Value} {A : List HTree} {w : HTree}
    {B : List HTree} (hgc : Z.get? c = some t) (sq : SiteAt Z q vq (A ++ w :: B))
    (hq : q ∉ handles t) (hne : w.handle ≠ c) :
    Z.checkedInsertBefore w.handle c = ((Z.editAt (Z.parent? c) (dropTop c)).placeBefore w.handle t, true) := by
  unfold checkedInsertBefore
  rw [if_neg hne, insert_guard hgc sq hq hne]
  simp only [Bool.false_eq_true, if_false]
  rw [cut_any sq.nd hgc]

end Forest

/-- Inserting after / before a child, on a child list split at that child. -/
theorem insertAfterTop_mid {A : List HTree} {w : HTree} {B : List HTree} (t : HTree)
    (hA : ∀ k ∈ A, k.handle ≠ w.handle) : insertAfterTop w.handle t (A ++ w :: B) = A ++ w :: t :: B := by
  unfold insertAfterTop
  rw [replaceTop_mid rfl hA]; simp

theorem insertBeforeTop_mid {A : List HTree} {w : HTree} {B : List HTree} (t : HTree)
    (hA : ∀ k ∈ A, k.handle ≠ w.handle) : insertBeforeTop w.handle t (A ++ w :: B) = A ++ t :: w :: B := by
  unfold insertBeforeTop
  rw [replaceTop_mid rfl hA]; simp

/-- What the model reads off the destination child list while the node has not been moved yet:
    the nodes of `L` are live as themselves, text nodes among them are leaves, their handles are
    distinct and (consolidation on) no two adjacent ones are text. -/
structure View (f : Forest) (L : List HTree) : Prop where
  get : ∀ k ∈ L, f.get? k.handle = some k
  leaf : ∀ k ∈ L, k.value.isText = true → k.kids = []
  nd : (handlesList L).Nodup
  noadj : f.consolidation = true → noAdjacentText L = true

theorem View.of_site {f : Forest} {q : Nat} {vq : Value} {L : List HTree} (inv : f.Inv) (norm : f.Normal)
    (sq : SiteAt f q vq L) : View f L := by
  refine ⟨?_, sq.leaf inv.valid, sq.nodupKids.1, fun hc => (validTree_node (sq.valid (norm hc))).2.2.1 rfl⟩
  intro k hk
  obtain ⟨A, B, hAB⟩ := List.append_of_mem hk
  have s' : SiteAt f q vq (A ++ k :: B) := hAB ▸ sq
  exact s'.getKid

end XotModel
