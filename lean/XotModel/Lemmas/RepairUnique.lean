/-
  The call keeps "no element declares a prefix twice": `insert` updates an existing key in place and
  appends only new keys, whatever is inserted.  (Needed to repeat the call in a history: C10_iter.)
-/
import XotModel.Lemmas.RepairDecls

namespace XotModel.Repair
open XotModel

mutual
/-- `UniqueBelow` as a recursion over the tree. -/
def URec : Tree → Prop
  | .node v ks => UniquePrefixes (frameOf (.node v ks)) ∧ UKids ks
def UKids : List Tree → Prop
  | [] => True
  | k :: ks => URec k ∧ UKids ks
end

theorem ukids_mem : ∀ (ks : List Tree), UKids ks → ∀ k ∈ ks, URec k
  | [], _, k, hk => by cases hk
  | k0 :: ks, h, k, hk => by
    simp only [UKids] at h
    rcases List.mem_cons.mp hk with rfl | hk
    · exact h.1
    · exact ukids_mem ks h.2 k hk

theorem ukids_of_mem : ∀ (ks : List Tree), (∀ k ∈ ks, URec k) → UKids ks
  | [], _ => trivial
  | k0 :: ks, h => ⟨h k0 (by simp), ukids_of_mem ks (fun k hk => h k (by simp [hk]))⟩

mutual
theorem urec_of_uniqueBelow : ∀ (t : Tree), UniqueBelow t → URec t
  | .node v ks, h => ⟨h [] _ rfl, ukids_of_uniqueBelow ks (uniqueBelow_kids h)⟩
theorem ukids_of_uniqueBelow : ∀ (ks : List Tree), (∀ k ∈ ks, UniqueBelow k) → UKids ks
  | [], _ => trivial
  | k :: ks, h => ⟨urec_of_uniqueBelow k (h k (by simp)),
      ukids_of_uniqueBelow ks (fun k' hk' => h k' (by simp [hk']))⟩
end

theorem uniqueBelow_of_urec : ∀ (rel : Path) (t : Tree), URec t → ∀ n', t.at? rel = some n' →
    UniquePrefixes (frameOf n')
  | [], .node v ks, h, n', hn => by
    simp only [Tree.at?, Option.some.injEq] at hn
    subst hn
    exact h.1
  | i :: rel, .node v ks, h, n', hn => by
    rw [at?_cons] at hn
    cases hk : ks[i]? with
    | none => rw [hk] at hn; cases hn
    | some k =>
      rw [hk] at hn
      simp only [Option.bind_some] at hn
      exact uniqueBelow_of_urec rel k (ukids_mem ks h.2 k (List.mem_of_getElem? hk)) n' hn

theorem uniqueBelow_iff (t : Tree) : UniqueBelow t ↔ URec t :=
  ⟨urec_of_uniqueBelow t, fun h rel n' hn => uniqueBelow_of_urec rel t h n' hn⟩

theorem frameOf_node (v : Value) (ks : List Tree) :
    frameOf (.node v ks) = if v.isElement then declsOfKids ks else [] := by
  cases v <;> simp [frameOf, Tree.value, Value.isElement, nsDecls_node]

theorem ukids_insertNsKid (p ns : Nat) : ∀ (ks : List Tree), UKids ks → UKids (insertNsKid p ns ks)
  | [], _ => by
    simp only [insertNsKid, UKids, URec, and_true]
    simp [frameOf, Tree.value, UniquePrefixes]
  | k :: ks, h => by
    cases k with
    | node kv kk =>
      simp only [UKids] at h
      cases kv with
      | «namespace» q m =>
        simp only [insertNsKid, Tree.value]
        by_cases hq : (q == p) = true
        · simp only [hq, if_true, UKids, Tree.kids]
          refine ⟨?_, h.2⟩
          have := h.1
          simp only [URec] at this ⊢
          exact ⟨by simp [frameOf, Tree.value, UniquePrefixes], this.2⟩
        · simp only [hq, Bool.false_eq_true, if_false, UKids]
          exact ⟨h.1, ukids_insertNsKid p ns ks h.2⟩
      | _ =>
        simp only [insertNsKid, Tree.value, UKids]
        exact ⟨⟨by simp [frameOf, Tree.value, UniquePrefixes], trivial⟩, h.1, h.2⟩

theorem urec_insertNamespace (p ns : Nat) (t : Tree) (h : URec t) : URec (insertNamespace p ns t) := by
  cases t with
  | node v ks =>
    simp only [insertNamespace, URec] at h ⊢
    refine ⟨?_, ukids_insertNsKid p ns ks h.2⟩
    rw [frameOf_node] at h ⊢
    split
    · rename_i hv
      simp only [hv, if_true] at h
      rw [declsOfKids_insertNsKid]
      exact nodup_insertDecl p ns _ h.1
    · simp [UniquePrefixes]

theorem urec_insertNamespaces (nd : List (Nat × Nat)) (t : Tree) (h : URec t) :
    URec (insertNamespaces nd t) := by
  unfold insertNamespaces
  induction nd generalizing t with
  | nil => exact h
  | cons d nd ih => simp only [List.foldl_cons]; exact ih _ (urec_insertNamespace d.1 d.2 t h)

theorem frameOf_congr {v : Value} {ks ks' : List Tree} (h : ks.map Tree.value = ks'.map Tree.value) :
    frameOf (.node v ks) = frameOf (.node v ks') := by
  rw [frameOf_node, frameOf_node, declsOfKids_congr h]

mutual
theorem urec_rebuild (nsOf : Nat → Nat) (nd : List (Nat × Nat)) : ∀ (x : Tree) (b : Bool)
    (top : List (Nat × Nat)), URec x → URec (rebuild nsOf nd b top x)
  | .node v ks, b, top, h => by
    have hbase : ∀ top', URec (.node v (rebuildKids nsOf nd top' ks)) := by
      intro top'
      simp only [URec] at h ⊢
      exact ⟨by rw [frameOf_congr (map_value_rebuildKids nsOf nd top' ks)]; exact h.1,
        ukids_rebuildKids nsOf nd ks top' h.2⟩
    by_cases hv : v.isElement = true
    · cases v <;> simp [Value.isElement] at hv
      rename_i name
      simp only [rebuild]
      split <;> split <;>
        first
          | exact urec_insertNamespace _ _ _ (urec_insertNamespaces _ _ (hbase _))
          | exact urec_insertNamespace _ _ _ (hbase _)
          | exact urec_insertNamespaces _ _ (hbase _)
          | exact hbase _
    · rw [rebuild_other nsOf nd b top v ks (by simpa using hv)]
      split
      · exact urec_insertNamespaces _ _ (hbase _)
      · exact hbase _
theorem ukids_rebuildKids (nsOf : Nat → Nat) (nd : List (Nat × Nat)) : ∀ (ks : List Tree)
    (top : List (Nat × Nat)), UKids ks → UKids (rebuildKids nsOf nd top ks)
  | [], _, _ => by simp [rebuildKids, UKids]
  | k :: ks, top, h => by
    simp only [UKids] at h
    simp only [rebuildKids, UKids]
    exact ⟨urec_rebuild nsOf nd k false top h.1, ukids_rebuildKids nsOf nd ks top h.2⟩
end

theorem ukids_modify (g : Tree → Tree) : ∀ (ks : List Tree) (i : Nat), UKids ks →
    (∀ k, ks[i]? = some k → URec (g k)) → UKids (ks.modify i g)
  | [], _, _, _ => by simp [UKids]
  | k :: ks, 0, h, hg => by
    simp only [UKids] at h
    simp only [List.modify_zero_cons, UKids]
    exact ⟨hg k (by simp), h.2⟩
  | k :: ks, i + 1, h, hg => by
    simp only [UKids] at h
    simp only [List.modify_succ_cons, UKids]
    exact ⟨h.1, ukids_modify g ks i h.2 (fun k' hk' => hg k' (by simpa using hk'))⟩

theorem urec_scopeModifyAt (f : Tree → Tree) : ∀ (path : Path) (t : Tree), URec t →
    (∀ x, t.at? path = some x → (f x).value = x.value ∧ (URec x → URec (f x))) →
    URec (scopeModifyAt f t path)
  | [], t, h, hf => by rw [scopeModifyAt_nil]; exact (hf t rfl).2 h
  | i :: p, .node v ks, h, hf => by
    rw [scopeModifyAt_cons]
    simp only [URec] at h ⊢
    have hx : ∀ k, ks[i]? = some k → ∀ x, k.at? p = some x → (f x).value = x.value ∧ (URec x → URec (f x)) :=
      fun k hk x hx => hf x (by rw [at?_cons, hk]; exact hx)
    refine ⟨?_, ukids_modify _ ks i h.2 (fun k hk =>
      urec_scopeModifyAt f p k (ukids_mem ks h.2 k (List.mem_of_getElem? hk)) (hx k hk))⟩
    rw [frameOf_congr (map_value_modify ks i _ (fun k hk =>
      value_scopeModifyAt f p k (fun x h' => (hx k hk x h').1)))]
    exact h.1

/-- The whole tree still declares no prefix twice on one element after the call. -/
theorem facts_unique {env : Env} {t : Tree} {path : Path} {E : Tree} {env' : Env} {t' : Tree}
    (hat : t.at? path = some E) (hf : RepairFacts env t path E env' t') (hu : UniqueBelow t) :
    UniqueBelow t' := by
  obtain ⟨nd, _, rfl, _⟩ := hf.nd
  rw [uniqueBelow_iff] at hu ⊢
  apply urec_scopeModifyAt _ path t hu
  intro x hx
  rw [hat] at hx
  cases hx
  exact ⟨value_rebuild _ _ _ _ _, urec_rebuild _ _ _ _ _⟩

end XotModel.Repair
