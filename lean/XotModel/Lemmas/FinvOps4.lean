/-
  Finv (C04), part 15: `prepend` preserves the invariant (all outcomes).
-/
import XotModel.Lemmas.FinvOps3

namespace XotModel
open HTree

/-- "not a normal node", the filter of `prepend`'s insertion point and of `first_child`. -/
def fiAbn (k : HTree) : Bool := k.value.category != .normal

theorem abn_eq_not_isNormal : (fun k : HTree => !k.value.isNormal) = fiAbn := by
  funext k; simp [fiAbn, Value.isNormal, bne]

/-- In a sorted child list everything after the leading non-normal children is normal. -/
theorem normal_dropWhile_of_sorted {ks : List HTree} (h : Sorted ks) :
    ∀ y ∈ ks.dropWhile fiAbn, y.value.category = .normal := by
  induction ks with
  | nil => simp
  | cons k ks ih =>
    have hs : Sorted ks := by
      unfold Sorted at h ⊢; rw [List.map_cons, List.pairwise_cons] at h; exact h.2
    by_cases hk : fiAbn k = true
    · rw [List.dropWhile_cons_of_pos hk]; exact ih hs
    · rw [List.dropWhile_cons_of_neg hk]
      have hkn : k.value.category = .normal := by simpa [fiAbn] using hk
      intro y hy
      rw [List.mem_cons] at hy
      rcases hy with hy | hy
      · subst hy; exact hkn
      · unfold Sorted at h
        rw [List.map_cons, List.pairwise_cons] at h
        have := h.1 (rankOf y) (List.mem_map.mpr ⟨y, hy, rfl⟩)
        rw [rankOf_normal hkn] at this
        exact category_normal_of_rank this

namespace Forest

theorem firstChild_eq {f : Forest} {p : Nat} {K : HTree} (hK : f.get? p = some K) :
    f.firstChild p = ((K.kids.dropWhile fiAbn).head?).map (·.handle) := by
  unfold firstChild; rw [hK, abn_eq_not_isNormal]

theorem prependPoint_eq {f : Forest} {p : Nat} {K : HTree} (hK : f.get? p = some K) :
    f.prependPoint p = ((K.kids.takeWhile fiAbn).getLast?).map (·.handle) := by
  unfold prependPoint; rw [hK]; rfl

/-- `prepend` preserves the invariant, whatever it answers. -/
theorem prepend_inv {f : Forest} (hi : f.Inv) (p c : Nat) : (f.prepend p c).1.Inv := by
  unfold prepend
  split
  · exact hi
  rename_i hsc
  split
  · exact hi
  rename_i hfirst
  obtain ⟨pv, cv, hpv, hpk, hanc, hcv, hcn, hcd⟩ := fi_structureCheck_some (by simpa using hsc)
  obtain ⟨g, b, so⟩ := exists_sibsOut hi (mem_allHandles_of_isLive (isLive_of_value? hcv))
  rw [so.eq]
  simp only
  cases h2 : g.addConsolidate c none (g.firstChild p) with
  | mk f2 cc =>
    simp only
    have hi2 : f2.Inv := by
      have := addConsolidate_inv so.inv c none (g.firstChild p); rw [h2] at this; exact this
    cases cc with
    | true => simpa using hi2
    | false =>
      have := addConsolidate_false h2; subst this
      simp only [Bool.false_eq_true, if_false]
      have hcv' : f2.value? c = some cv := by rw [so.valC]; exact hcv
      have hpv' : f2.value? p = some pv := so.keep_nontext hpv (isText_false_of_kind hpk)
      have hpg : p ∈ f2.allHandles := mem_allHandles_of_isLive (isLive_of_value? hpv')
      have hanc' : (f2.ancestors p).contains c = false := by rw [so.anc p hpg]; exact hanc
      have nd := so.inv.nodup
      obtain ⟨path, lp, K, rp, locp⟩ := exists_loc hpg
      have hK := get?_of_loc locp nd
      have hKv : K.value = pv := by
        have := value?_of_loc locp nd; rw [hpv'] at this; exact (Option.some.inj this).symm
      have hKvalid := so.inv.validTree_of_loc locp
      rw [validTree_eq, Bool.and_eq_true] at hKvalid
      have KK := (kidsOK_iff _ _ _).mp hKvalid.1
      have hsplit : K.kids.takeWhile fiAbn ++ K.kids.dropWhile fiAbn = K.kids := List.takeWhile_append_dropWhile
      have hrestn := normal_dropWhile_of_sorted KK.sorted
      -- in strict mode with a text `c`: nothing has happened so far, and the first normal child
      -- of `p` is neither `c` nor text
      have hhead : f2.everOff = false → cv.isText = true → ∀ n rest', K.kids.dropWhile fiAbn = n :: rest' →
          n.handle ≠ c ∧ n.value.isText = false := by
        intro hoff hct n rest' hn
        have hoff' : f.everOff = false := by rw [← so.everOff]; exact hoff
        obtain ⟨e1, e2⟩ := so.same hoff' (fun cv' h => by rw [hcv] at h; cases h; exact hct)
        subst e1
        have hcons := consolidation_of_strict hi hoff'
        obtain ⟨a, hta⟩ := textOf_of_value? hcv hct
        have hfc : f2.firstChild p = some n.handle := by rw [firstChild_eq hK, hn]; rfl
        have hnmem : n ∈ K.kids := by rw [← hsplit, hn]; simp
        have hnv := value?_of_mem_kids nd hK hnmem
        have hnc : n.handle ≠ c := by intro e; apply hfirst; rw [hfc, e]; simp
        refine ⟨hnc, ?_⟩
        · cases hnt : n.value.isText with
          | false => rfl
          | true =>
            exfalso
            obtain ⟨s, hts⟩ := textOf_of_value? hnv hnt
            have := addConsolidate_next_true none hcons hta hts hnc
            rw [← hfc, h2] at this
            cases this
      rw [prependPoint_eq hK]
      cases hlast : (K.kids.takeWhile fiAbn).getLast? with
      | none =>
        simp only [Option.map_none]
        rw [List.getLast?_eq_none_iff] at hlast
        rw [hlast, List.nil_append] at hsplit
        have key : (f2.checkedPrepend p c).1.Inv := by
          apply checkedPrepend_inv so.inv hcv' hcn hcd hpv' hpk so.cutOK
          · intro K' hK' y hy
            rw [hK] at hK'; cases hK'
            exact hrestn y (by rw [hsplit]; exact hy)
          · intro hoff hct K' hK' n rest' hn
            rw [hK] at hK'; cases hK'
            exact hhead hoff hct n rest' (by rw [hsplit]; exact hn)
        cases h3 : f2.checkedPrepend p c with
        | mk f3 okb =>
          rw [h3] at key
          cases okb <;> simpa using key
      | some IP =>
        simp only [Option.map_some]
        have key : (f2.checkedInsertAfter IP.handle c).1.Inv := by
          obtain ⟨a, hnn⟩ : ∃ a, K.kids.takeWhile fiAbn = a ++ [IP] := by
            rcases List.eq_nil_or_concat (K.kids.takeWhile fiAbn) with h0 | ⟨a, x, h0⟩
            · rw [h0] at hlast; simp at hlast
            · rw [List.concat_eq_append] at h0
              rw [h0] at hlast; simp at hlast; subst hlast; exact ⟨a, h0⟩
          have hIPabn : fiAbn IP = true := by
            have := List.all_takeWhile (l := K.kids) (p := fiAbn)
            rw [hnn, List.all_eq_true] at this
            exact this IP (by simp)
          have hIPcat : IP.value.category ≠ .normal := by simpa [fiAbn] using hIPabn
          have hkids : K.kids = a ++ IP :: K.kids.dropWhile fiAbn := by
            have : K.kids = (a ++ [IP]) ++ K.kids.dropWhile fiAbn := by rw [← hnn]; exact hsplit.symm
            simpa using this
          have locip : Loc f2.roots IP.handle (path ++ [⟨lp, p, pv, rp⟩]) a IP (K.kids.dropWhile fiAbn) := by
            refine ⟨?_, rfl⟩
            rw [plug_append, locp.eq, ← hkids, ← hKv, ← locp.hk]
            simp [node_eta]
          have hctxip := ctx?_of_loc_snoc locip nd
          apply checkedInsertAfter_inv so.inv hcv' hcn hcd (value?_of_loc locip nd)
          · intro ctx hctx y hy
            rw [hctxip] at hctx; cases hctx
            exact hrestn y hy
          · exact isRoot_of_loc_ne locip (by simp) nd
          · rw [ancestors_of_ctx? nd hctxip]
            simp only [List.contains_cons, Bool.or_eq_false_iff, beq_eq_false_iff_ne, ne_eq]
            refine ⟨?_, hanc'⟩
            intro e
            have := value?_of_loc locip nd
            rw [← e, hcv'] at this
            cases this
            exact hIPcat hcn
          · exact so.cutOK
          · intro hoff hct
            refine ⟨?_, ?_⟩
            · cases hnt : IP.value.isText with
              | false => rfl
              | true => exact absurd (category_normal_of_isText hnt) hIPcat
            · intro ctx hctx n rest' hn
              rw [hctxip] at hctx; cases hctx
              exact hhead hoff hct n rest' hn
        cases h3 : f2.checkedInsertAfter IP.handle c with
        | mk f3 okb =>
          rw [h3] at key
          cases okb <;> simpa using key

end Forest
end XotModel
