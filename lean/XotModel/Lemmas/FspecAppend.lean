/-
  FspecAppend — C05 for `append`: the model's `append` is the specification `specMove` to
  `lastChildOf p` (with xot's survivor rule, handle for handle).
-/
import XotModel.Lemmas.FspecNew

namespace XotModel
open HTree Spec

/-- `append` after the old-site merge. -/
def appendTail (X : Forest) (p c : Nat) : Forest × Res :=
  let r2 := X.addConsolidate c (X.lastChild p) none
  if r2.2 then (r2.1, .ok) else
  let r3 := r2.1.checkedAppend p c
  if r3.2 then (r3.1, .ok) else (r3.1, .err .nodeError)

theorem append_eq_tail {f : Forest} {p c : Nat} (hsc : f.structureCheck (some p) c = true)
    (hsame : ¬ f.lastChild p = some c) :
    f.append p c = appendTail (f.removeConsolidate (f.prevSibling c) (f.nextSibling c)).1 p c := by
  rw [Forest.append_unfold]
  simp [hsc, hsame, appendTail]

/-- A text node is a leaf (validity). -/
theorem leaf_of_text {f : Forest} {c : Nat} {t : HTree} {b : Bool} (hv : validList b f.roots = true)
    (hg : f.get? c = some t) (ht : t.value.isText = true) : t.kids = [] := by
  have := valid_findList f.roots t hv hg
  cases t with
  | node h v ks =>
    simp only [HTree.value] at ht
    simp only [HTree.kids]
    apply kids_nil_of_valid this
    · cases v <;> simp_all [Value.isText, Value.isElement]
    · cases v <;> simp_all [Value.isText, Value.isDocument]

theorem lastOf_eq_some {L : List HTree} {a : Nat} (h : Forest.lastOf L = some a) :
    ∃ L' ka, L = L' ++ [ka] ∧ ka.handle = a ∧ ka.value.isNormal = true := by
  unfold Forest.lastOf at h
  cases hl : L.getLast? with
  | none => rw [hl] at h; cases h
  | some k =>
    rw [hl] at h
    simp only at h
    obtain ⟨L', e⟩ := List.getLast?_eq_some_iff.1 hl
    by_cases hk : k.value.isNormal = true
    · rw [if_pos hk] at h
      exact ⟨L', k, e, Option.some.inj h, hk⟩
    · rw [if_neg hk] at h; cases h

theorem isNormal_of_text {v : Value} (h : v.isText = true) : v.isNormal = true := by
  cases v <;> simp_all [Value.isText, Value.isNormal, Value.category]

/-- The far geometry: the node does not come from the child list of `p`. -/
theorem appendTail_far {f : Forest} {p c : Nat} {t : HTree} {vp : Value} {Lp : List HTree} {X Y : Forest}
    {φ : HTree → HTree} {keep : Keep} (hkeep : ∀ a b, a ≠ c → keep a b = true) (inv : f.Inv) (norm : f.Normal)
    (F : Far f keep c t p vp Lp X Y φ) (sp : SiteAt f p vp Lp) (hgc : f.get? c = some t)
    (hX : X = f ∨ textData t = none)
    (hsame : ¬ Forest.lastOf Lp = some c)
    (hocc : Dest.occupiedBy f c (.lastChildOf p) = false)
    (hok : (appendTail X p c).2 = .ok) :
    (appendTail X p c).1 = specMove keep (.lastChildOf p) c f := by
  have hsite : Dest.site f (.lastChildOf p) = some p := by
    simp [Dest.site, Forest.isLive_of_get sp.kids]
  have hspec := F.spec (.lastChildOf p) hocc hsite (fun ψ _ hψ => natFor_insertLast hψ)
  simp only [Dest.insert] at hspec
  rw [hspec]
  have hYc : (Y.editAt (some p) (insertLast t)).consolidation = f.consolidation := by
    rw [Forest.editAt_consolidation, F.ycons]
  have hXtext : X.textOf c = textData t := Forest.textOf_of_get F.xget
  have hstrictY : f.consolidation = true → noAdjacentText (Lp.map φ) = true := by
    intro hc
    rw [noAdj_map F.kid]
    exact (validTree_node (sp.valid (norm hc))).2.2.1 rfl
  -- Flow 1: no merge at the destination
  have flow1 : X.addConsolidate c (X.lastChild p) none = (X, false) →
      (f.consolidation = true → ∀ k, Lp.getLast? = some k → ¬ (k.value.isText = true ∧ t.value.isText = true)) →
      (appendTail X p c).1 = (Y.editAt (some p) (insertLast t)).mergeAt keep (some p) := by
    intro hr2 hseam
    unfold appendTail at hok ⊢
    rw [hr2] at hok ⊢
    simp only [Bool.false_eq_true, if_false] at hok ⊢
    have hr3 : (X.checkedAppend p c).2 = true := by
      cases h : (X.checkedAppend p c).2 with
      | true => rfl
      | false => rw [h] at hok; simp at hok
    rw [hr3]
    simp only [if_true]
    rw [Forest.checkedAppend_ok F.xnd F.xget hr3, F.xcut]
    rcases Bool.eq_false_or_eq_true f.consolidation with hc | hc
    · rw [mergeAt_on (hYc.trans hc), Forest.editAt_editAt]
      apply F.ysite.congr
      simp only [Function.comp, insertLast]
      symm
      apply mergeRuns_id
      apply noAdj_append.2
      refine ⟨hstrictY hc, rfl, ?_⟩
      intro a b ha hb
      rw [List.getLast?_map] at ha
      cases hl : Lp.getLast? with
      | none => rw [hl] at ha; cases ha
      | some k =>
        rw [hl] at ha
        simp only [Option.map_some, Option.some.injEq] at ha
        simp only [List.head?_cons, Option.some.injEq] at hb
        subst ha hb
        rw [F.kid.value]
        exact hseam hc k hl
    · rw [mergeAt_off (hYc.trans hc)]
  rcases Bool.eq_false_or_eq_true f.consolidation with hc | hc
  case inr =>
    exact flow1 (Forest.addConsolidate_off (F.xcons.trans hc) _ _ _) (fun h => by rw [hc] at h; cases h)
  cases htd : textData t with
  | none =>
    refine flow1 (Forest.addConsolidate_not_text (hXtext.trans htd) _ _) ?_
    intro _ k _ ⟨_, h2⟩
    obtain ⟨z, hz⟩ := isText_iff_textData.1 h2
    rw [htd] at hz; cases hz
  | some tc =>
    have hXf : X = f := by
      cases hX with
      | inl h => exact h
      | inr h => rw [htd] at h; cases h
    subst hXf
    have htt : t.value.isText = true := isText_iff_textData.2 ⟨tc, htd⟩
    have hlast : X.lastChild p = Forest.lastOf Lp := Forest.lastChild_of_get sp.kids
    cases hlo : Forest.lastOf Lp with
    | none =>
      refine flow1 (by rw [hlast, hlo]; exact Forest.addConsolidate_none (fun a h => by cases h) (fun b h => by cases h)) ?_
      intro _ k hk ⟨h1, _⟩
      unfold Forest.lastOf at hlo
      rw [hk] at hlo
      simp only [isNormal_of_text h1, if_true] at hlo
      cases hlo
    | some a =>
      obtain ⟨L', ka, eL, eka, hkn⟩ := lastOf_eq_some hlo
      subst eL
      subst eka
      have hka_get : X.get? ka.handle = some ka := by
        have : SiteAt X p vp (L' ++ ka :: []) := sp
        exact this.getKid
      cases hta : textData ka with
      | none =>
        refine flow1 (by
          rw [hlast, hlo]
          exact Forest.addConsolidate_none
            (fun a h => by cases h; rw [Forest.textOf_of_get hka_get]; exact hta)
            (fun b h => by cases h)) ?_
        intro _ k hk ⟨h1, _⟩
        rw [List.getLast?_concat] at hk
        cases hk
        obtain ⟨z, hz⟩ := isText_iff_textData.1 h1
        rw [hta] at hz; cases hz
      | some ta =>
        -- Flow 2: the moved text node is merged into the last child
        have hkac : ka.handle ≠ c := fun e => hsame (by rw [hlo, e])
        have hr2 : X.addConsolidate c (X.lastChild p) none =
            ((X.setValue ka.handle (.text (ta ++ tc))).spliceOut c, true) := by
          rw [hlast, hlo]
          exact Forest.addConsolidate_prev hc (hXtext.trans htd) ((Forest.textOf_of_get hka_get).trans hta) _ hkac
        have hkatext : ka.value.isText = true := isText_iff_textData.2 ⟨ta, hta⟩
        have hleaf_t : t.kids = [] := leaf_of_text inv.valid hgc htt
        have hleaf_ka : ∀ k' ∈ L' ++ [ka], k'.handle = ka.handle → k'.kids = [] := by
          intro k' hk' e
          obtain ⟨ndL, _⟩ := sp.nodupKids
          have : k' = ka := by
            cases List.mem_append.1 hk' with
            | inl h =>
              have hsplit : L' ++ [ka] = L' ++ ka :: [] := rfl
              rw [hsplit] at ndL
              exact absurd e ((tops_ne_of_nodup ndL).1 k' h)
            | inr h => simpa using h
          rw [this]
          exact sp.leaf inv.valid ka (by simp) hkatext
        have hflow := F.flow2 rfl ka.handle (.text (ta ++ tc)) ⟨ka, by simp, rfl⟩ hkac hleaf_t hleaf_ka
        unfold appendTail
        rw [hr2]
        simp only [if_true]
        rw [hflow, mergeAt_on (hYc.trans hc), Forest.editAt_editAt]
        apply F.ysite.congr
        simp only [Function.comp, insertLast, List.map_append, List.map_cons, List.map_nil]
        obtain ⟨ndLY, _⟩ := F.ysite.nodupKids
        rw [List.map_append, List.map_cons, List.map_nil] at ndLY
        have hsplit : L'.map φ ++ [φ ka] = L'.map φ ++ φ ka :: [] := rfl
        rw [hsplit] at ndLY
        have htops := (tops_ne_of_nodup ndLY).1
        rw [F.kid.handle] at htops
        rw [hsplit, replaceTop_mid (F.kid.handle ka) htops]
        have hstr := hstrictY hc
        rw [List.map_append, List.map_cons, List.map_nil] at hstr
        have hvka : (φ ka).value = .text ta := by rw [F.kid.value]; exact textData_some hta
        have := mergeRuns_seam keep (l := L'.map φ) (r := []) hvka (textData_some htd) hstr rfl
        have e2 : L'.map φ ++ φ ka :: [] ++ [t] = L'.map φ ++ φ ka :: t :: [] := by simp
        rw [e2, this]
        simp [join, F.kid.handle, hkeep _ _ hkac]

end XotModel

namespace XotModel
open HTree Spec

theorem lastOf_append_cons {l : List HTree} {t k : HTree} {r : List HTree} :
    Forest.lastOf (l ++ t :: (r ++ [k])) = Forest.lastOf ((l ++ r) ++ [k]) := by
  unfold Forest.lastOf
  have e1 : l ++ t :: (r ++ [k]) = (l ++ t :: r) ++ [k] := by simp
  rw [e1, List.getLast?_concat, List.getLast?_concat]

/-- The same-site geometry: the node is a child of `p` already (but not the last one). -/
theorem appendTail_same {f : Forest} {p : Nat} {t : HTree} {vp : Value} {l r : List HTree}
    {keep : Keep} (hkeep : ∀ a b, a ≠ t.handle → keep a b = true) (inv : f.Inv) (norm : f.Normal) (sp : SiteAt f p vp (l ++ t :: r)) (hnorm : t.value.isNormal = true)
    (hsame : ¬ Forest.lastOf (l ++ t :: r) = some t.handle)
    (hocc : Dest.occupiedBy f t.handle (.lastChildOf p) = false)
    (hok : (appendTail (f.removeConsolidate (prevOf l t) (nextOf r t)).1 p t.handle).2 = .ok) :
    (appendTail (f.removeConsolidate (prevOf l t) (nextOf r t)).1 p t.handle).1 =
      specMove keep (.lastChildOf p) t.handle f := by
  have nd := sp.nd
  have hgc : f.get? t.handle = some t := sp.getKid
  have hsite : Dest.site f (.lastChildOf p) = some p := by
    simp [Dest.site, Forest.isLive_of_get sp.kids]
  have hpar : f.parent? t.handle = some p := Forest.parent?_of_ctx sp.ctx
  obtain ⟨ndL, _⟩ := sp.nodupKids
  obtain ⟨tl, tr⟩ := tops_ne_of_nodup ndL
  have hdrop : dropTop t.handle (l ++ t :: r) = l ++ r := dropTop_mid rfl tl tr
  -- `t` is not the last child
  have hr : r ≠ [] := by
    intro e
    subst e
    apply hsame
    unfold Forest.lastOf
    rw [List.getLast?_concat]
    simp [hnorm]
  -- the specification, as one edit of `p`'s child list
  have hspec : specMove keep (.lastChildOf p) t.handle f =
      f.editAt (some p) (fun _ => if f.consolidation then mergeRuns keep ((l ++ r) ++ [t])
        else (l ++ r) ++ [t]) := by
    rw [specMove_unfold hocc hgc hsite, hpar]
    simp only [Dest.insert]
    rcases Bool.eq_false_or_eq_true f.consolidation with hc | hc
    · have c1 : ((f.editAt (some p) (dropTop t.handle)).editAt (some p) (insertLast t)).consolidation = true := by
        rw [Forest.editAt_consolidation, Forest.editAt_consolidation]; exact hc
      have c2 : (((f.editAt (some p) (dropTop t.handle)).editAt (some p) (insertLast t)).editAt (some p)
          (mergeRuns keep)).consolidation = true := by
        rw [Forest.editAt_consolidation]; exact c1
      rw [mergeAt_on c1, mergeAt_on c2, Forest.editAt_editAt, Forest.editAt_editAt, Forest.editAt_editAt]
      apply sp.congr
      simp only [Function.comp, hc, if_true, insertLast]
      rw [hdrop, mergeRuns_idem]
    · have c1 : ((f.editAt (some p) (dropTop t.handle)).editAt (some p) (insertLast t)).consolidation = false := by
        rw [Forest.editAt_consolidation, Forest.editAt_consolidation]; exact hc
      rw [mergeAt_off c1, mergeAt_off c1, Forest.editAt_editAt]
      apply sp.congr
      simp only [Function.comp, hc, insertLast]
      rw [hdrop]
      rfl
  rw [hspec]
  have hold := old_stage inv norm sp
  generalize f.removeConsolidate (prevOf l t) (nextOf r t) = res at hold hok ⊢
  -- Flow 1 from a description of the forest after the old-site merge
  have flow1 : ∀ (X : Forest) (l1 r1 : List HTree), SiteAt X p vp (l1 ++ t :: r1) →
      X = f.editAt (some p) (fun _ => l1 ++ t :: r1) →
      res.1 = X →
      X.addConsolidate t.handle (X.lastChild p) none = (X, false) →
      ((if f.consolidation then mergeRuns keep ((l ++ r) ++ [t]) else (l ++ r) ++ [t])
        = (l1 ++ r1) ++ [t]) →
      (appendTail res.1 p t.handle).1 =
        f.editAt (some p) (fun _ => if f.consolidation then mergeRuns keep ((l ++ r) ++ [t])
          else (l ++ r) ++ [t]) := by
    intro X l1 r1 sX hX hres hr2 hlist
    rw [hres] at hok ⊢
    unfold appendTail at hok ⊢
    rw [hr2] at hok ⊢
    simp only [Bool.false_eq_true, if_false] at hok ⊢
    have hr3 : (X.checkedAppend p t.handle).2 = true := by
      cases h : (X.checkedAppend p t.handle).2 with
      | true => rfl
      | false => rw [h] at hok; simp at hok
    rw [hr3]
    simp only [if_true]
    rw [Forest.checkedAppend_ok sX.nd sX.getKid hr3, Forest.parent?_of_ctx sX.ctx, hX,
      Forest.editAt_editAt, Forest.editAt_editAt]
    apply sp.congr
    simp only [Function.comp, insertLast]
    obtain ⟨ndL1, _⟩ := sX.nodupKids
    obtain ⟨tl1, tr1⟩ := tops_ne_of_nodup ndL1
    rw [dropTop_mid rfl tl1 tr1, hlist]
  cases hold with
  | merged l' a b r' x y hc el er hx hy hp hn ht =>
    subst el er
    have hleafo := sp.leaf inv.valid
    have hstrict := (validTree_node (sp.valid (norm hc))).2.2.1 rfl
    obtain ⟨hl, hkr, _⟩ := noAdj_append.1 hstrict
    have hbr := noAdj_tail hkr
    have hak : a.handle ≠ t.handle := tl a (List.mem_append_right _ List.mem_cons_self)
    have sX : SiteAt (f.editAt (some p) (fun _ => l' ++ a.setValue (.text (x ++ y)) :: t :: r')) p vp
        ((l' ++ [a.setValue (.text (x ++ y))]) ++ t :: r') := by
      have := sp.edit (fun _ => l' ++ a.setValue (.text (x ++ y)) :: t :: r') (by
        simp only [fs_handlesList_append, handlesList_cons, setValue_handles, handlesList_nil, List.append_nil,
          List.append_assoc]
        refine (List.Sublist.refl _).append ((List.Sublist.refl _).append ((List.Sublist.refl _).append ?_))
        exact List.sublist_append_right _ _)
      simpa using this
    refine flow1 _ (l' ++ [a.setValue (.text (x ++ y))]) r' sX (by simp) rfl ?_ ?_
    · apply Forest.addConsolidate_not_text
      rw [Forest.textOf_of_get sX.getKid]; exact ht
    · rw [hc]
      simp only [if_true]
      have htn : ¬ t.value.isText = true := by
        intro h
        obtain ⟨z, hz⟩ := isText_iff_textData.1 h
        rw [ht] at hz; cases hz
      have hbrt : noAdjacentText (b :: (r' ++ [t])) = true := by
        have : b :: (r' ++ [t]) = (b :: r') ++ [t] := rfl
        rw [this]
        apply noAdj_append.2
        refine ⟨hbr, rfl, ?_⟩
        intro a' b' _ hb' ⟨_, h2⟩
        simp only [List.head?_cons, Option.some.injEq] at hb'
        subst hb'
        exact htn h2
      have e1 : (l' ++ [a] ++ b :: r') ++ [t] = l' ++ a :: b :: (r' ++ [t]) := by simp
      rw [e1, mergeRuns_seam _ hx hy hl hbrt]
      simp [join, hkeep _ _ hak]
  | same hseam =>
    have sX : SiteAt f p vp (l ++ t :: r) := sp
    have hXid : f = f.editAt (some p) (fun _ => l ++ t :: r) := by
      rw [sp.congr (g := fun _ => l ++ t :: r) (g' := id) rfl, Forest.editAt_id]
    have hlast : f.lastChild p = Forest.lastOf (l ++ t :: r) := Forest.lastChild_of_get sp.kids
    -- split `r` at its last element
    obtain ⟨r'', ka, er⟩ : ∃ r'' ka, r = r'' ++ [ka] := by
      cases hl : r.getLast? with
      | none => exact absurd (List.getLast?_eq_none_iff.1 hl) hr
      | some k => exact ⟨_, k, (List.getLast?_eq_some_iff.1 hl).choose_spec⟩
    subst er
    have hstrictL : f.consolidation = true → noAdjacentText ((l ++ r'') ++ [ka]) = true := by
      intro hc
      have hstrict := (validTree_node (sp.valid (norm hc))).2.2.1 rfl
      obtain ⟨hl, hkr, _⟩ := noAdj_append.1 hstrict
      have : (l ++ r'') ++ [ka] = l ++ (r'' ++ [ka]) := by simp
      rw [this]
      exact noAdj_append.2 ⟨hl, noAdj_tail hkr, hseam hc⟩
    have flow1' : f.addConsolidate t.handle (f.lastChild p) none = (f, false) →
        (f.consolidation = true → ¬ (ka.value.isText = true ∧ t.value.isText = true)) →
        (appendTail (f, false).1 p t.handle).1 =
          f.editAt (some p) (fun _ => if f.consolidation then
            mergeRuns keep ((l ++ (r'' ++ [ka])) ++ [t]) else (l ++ (r'' ++ [ka])) ++ [t]) := by
      intro hr2 hsm
      refine flow1 f l (r'' ++ [ka]) sX hXid rfl hr2 ?_
      rcases Bool.eq_false_or_eq_true f.consolidation with hc | hc
      · rw [hc]
        simp only [if_true]
        apply mergeRuns_id
        apply noAdj_append.2
        refine ⟨by have := hstrictL hc; simpa using this, rfl, ?_⟩
        intro a' b' ha' hb'
        have : (l ++ (r'' ++ [ka])).getLast? = some ka := by
          rw [← List.append_assoc, List.getLast?_concat]
        rw [this] at ha'
        cases ha'
        simp only [List.head?_cons, Option.some.injEq] at hb'
        subst hb'
        exact hsm hc
      · rw [hc]; rfl
    rcases Bool.eq_false_or_eq_true f.consolidation with hc | hc
    case inr =>
      exact flow1' (Forest.addConsolidate_off hc _ _ _) (fun h => by rw [hc] at h; cases h)
    cases htd : textData t with
    | none =>
      refine flow1' (Forest.addConsolidate_not_text ((Forest.textOf_of_get hgc).trans htd) _ _) ?_
      intro _ ⟨_, h2⟩
      obtain ⟨z, hz⟩ := isText_iff_textData.1 h2
      rw [htd] at hz; cases hz
    | some tc =>
      have htt : t.value.isText = true := isText_iff_textData.2 ⟨tc, htd⟩
      have hlo : Forest.lastOf (l ++ t :: (r'' ++ [ka])) = if ka.value.isNormal then some ka.handle else none := by
        unfold Forest.lastOf
        have e1 : l ++ t :: (r'' ++ [ka]) = (l ++ t :: r'') ++ [ka] := by simp
        rw [e1, List.getLast?_concat]
      have ska : SiteAt f p vp ((l ++ t :: r'') ++ ka :: []) := by
        have e1 : (l ++ t :: r'') ++ ka :: [] = l ++ t :: (r'' ++ [ka]) := by simp
        rw [e1]; exact sp
      have hka_get : f.get? ka.handle = some ka := ska.getKid
      by_cases hkn' : ¬ ka.value.isNormal = true
      · have hkn := hkn'
        refine flow1' (by
          rw [hlast, hlo, if_neg hkn]
          exact Forest.addConsolidate_none (fun a h => by cases h) (fun b h => by cases h)) ?_
        intro _ ⟨h1, _⟩
        exact hkn (isNormal_of_text h1)
      have hkn : ka.value.isNormal = true := Classical.not_not.1 hkn'
      rw [if_pos hkn] at hlo
      cases hta : textData ka with
      | none =>
        refine flow1' (by
          rw [hlast, hlo]
          exact Forest.addConsolidate_none
            (fun a h => by cases h; rw [Forest.textOf_of_get hka_get]; exact hta)
            (fun b h => by cases h)) ?_
        intro _ ⟨h1, _⟩
        obtain ⟨z, hz⟩ := isText_iff_textData.1 h1
        rw [hta] at hz; cases hz
      | some ta =>
        -- Flow 2
        have hkat : ka.handle ≠ t.handle := tr ka (by simp)
        have hr2 : f.addConsolidate t.handle (f.lastChild p) none =
            ((f.setValue ka.handle (.text (ta ++ tc))).spliceOut t.handle, true) := by
          rw [hlast, hlo]
          exact Forest.addConsolidate_prev hc ((Forest.textOf_of_get hgc).trans htd)
            ((Forest.textOf_of_get hka_get).trans hta) _ hkat
        have hleaf_t : t.kids = [] := leaf_of_text inv.valid hgc htt
        let S : List HTree → List HTree := replaceTop ka.handle (fun k => [k.setValue (.text (ta ++ tc))])
        have hset : f.setValue ka.handle (.text (ta ++ tc)) = f.editAt (some p) S :=
          Forest.setValue_of_ctx _ nd ska.ctx
        obtain ⟨ndLk, _⟩ := ska.nodupKids
        have hSL : S (l ++ t :: (r'' ++ [ka])) = l ++ t :: (r'' ++ [ka.setValue (.text (ta ++ tc))]) := by
          have e1 : l ++ t :: (r'' ++ [ka]) = (l ++ t :: r'') ++ ka :: [] := by simp
          simp only [S]
          rw [e1, replaceTop_mid rfl (tops_ne_of_nodup ndLk).1]
          simp
        have sZ : SiteAt (f.editAt (some p) S) p vp (l ++ t :: (r'' ++ [ka.setValue (.text (ta ++ tc))])) := by
          have := sp.edit S (by simp only [S]; rw [handlesList_setValTop]; exact List.Sublist.refl _)
          rw [hSL] at this
          exact this
        unfold appendTail
        simp only
        rw [hr2]
        simp only [if_true]
        rw [hset, Forest.spliceOut_leaf sZ.nd sZ.getKid hleaf_t, Forest.parent?_of_ctx sZ.ctx,
          Forest.editAt_editAt]
        apply sp.congr
        simp only [Function.comp, hc, if_true]
        rw [hSL]
        obtain ⟨ndLZ, _⟩ := sZ.nodupKids
        obtain ⟨tlZ, trZ⟩ := tops_ne_of_nodup ndLZ
        rw [dropTop_mid rfl tlZ trZ]
        have e2 : (l ++ (r'' ++ [ka])) ++ [t] = (l ++ r'') ++ ka :: t :: [] := by simp
        rw [e2, mergeRuns_seam _ (textData_some hta) (textData_some htd) (hstrictL hc) rfl]
        simp [join, hkeep _ _ hkat]

end XotModel

namespace XotModel
open HTree Spec

theorem OldOutcome.same_or_not_text {f : Forest} {po : Nat} {l : List HTree} {t : HTree} {r : List HTree}
    {res : Forest × Bool} (h : OldOutcome f po l t r res) : res.1 = f ∨ textData t = none := by
  cases h with
  | same _ => exact Or.inl rfl
  | merged _ _ _ _ _ _ _ _ _ _ _ _ _ ht => exact Or.inr ht

theorem occupied_lastChild {f : Forest} {p c : Nat} {vp : Value} {Lp : List HTree} {t : HTree}
    (sp : SiteAt f p vp Lp) (hgc : f.get? c = some t) (hnorm : t.value.isNormal = true) :
    Dest.occupiedBy f c (.lastChildOf p) = true ↔ Forest.lastOf Lp = some c := by
  simp only [Dest.occupiedBy, Forest.kidsOf_of_get sp.kids, beq_iff_eq]
  constructor
  · intro h
    cases hl : Lp.getLast? with
    | none => rw [hl] at h; cases h
    | some k =>
      rw [hl] at h
      simp only [Option.map_some, Option.some.injEq] at h
      obtain ⟨L', e⟩ := List.getLast?_eq_some_iff.1 hl
      subst e
      have sk : SiteAt f p vp (L' ++ k :: []) := sp
      have := sk.getKid
      rw [h, hgc] at this
      have := Option.some.inj this
      subst this
      unfold Forest.lastOf
      rw [hl]
      simp [hnorm, h]
  · intro h
    obtain ⟨L', ka, e, eka, _⟩ := lastOf_eq_some h
    subst e
    rw [List.getLast?_concat]
    simp [eka]

/-- **append**: the model's `append`, when it succeeds, is the specification's move to the last
    position of `p` — handle for handle, with xot's survivor rule. -/
theorem append_spec {f : Forest} {p c : Nat} {keep : Keep} (hkeep : ∀ a b, a ≠ c → keep a b = true) (inv : f.Inv) (norm : f.Normal)
    (hok : (f.append p c).2 = .ok) :
    (f.append p c).1 = specMove keep (.lastChildOf p) c f := by
  have nd := inv.nodup
  have hsc : f.structureCheck (some p) c = true := by
    cases h : f.structureCheck (some p) c with
    | true => rfl
    | false => rw [Forest.append_unfold] at hok; simp [h] at hok
  obtain ⟨vp, Lp, t, hgp, hgc, hpt, hnorm, hndoc, hvp⟩ := Forest.structureCheck_unpack nd hsc
  have sp : SiteAt f p vp Lp := ⟨nd, hgp⟩
  have htc : t.handle = c := (findList?_some f.roots t hgc).1
  have hlast : f.lastChild p = Forest.lastOf Lp := Forest.lastChild_of_get hgp
  have hoccIff := occupied_lastChild sp hgc hnorm
  by_cases hsame : Forest.lastOf Lp = some c
  · -- already the last child
    have hocc := hoccIff.2 hsame
    rw [Forest.append_unfold]
    unfold specMove
    simp [hsc, hlast, hsame, hocc]
  · have hocc : Dest.occupiedBy f c (.lastChildOf p) = false := by
      cases h : Dest.occupiedBy f c (.lastChildOf p) with
      | false => rfl
      | true => exact absurd (hoccIff.1 h) hsame
    have hsame' : ¬ f.lastChild p = some c := by rw [hlast]; exact hsame
    rw [append_eq_tail hsc hsame'] at hok ⊢
    rcases Forest.root_or_ctx hgc with hroot | ⟨cx, hctx⟩
    · have hno := Forest.ctx_none_of_root nd hroot
      have hr1 : f.removeConsolidate (f.prevSibling c) (f.nextSibling c) = (f, false) := by
        rw [Forest.prevSibling_of_no_ctx hno]; exact Forest.removeConsolidate_none_left _ _
      rw [hr1] at hok ⊢
      exact appendTail_far hkeep inv norm (far_root hgc hno sp hpt) sp hgc (Or.inl rfl) hsame hocc hok
    · obtain ⟨e0, vo, so⟩ := SiteAt.of_ctx nd hctx
      have hself : cx.self = t := by
        have := Forest.get?_of_ctx nd hctx
        rw [hgc] at this
        exact (Option.some.inj this).symm
      obtain ⟨po, l, k, r⟩ := cx
      simp only at e0 so hself
      subst hself
      subst htc
      rw [Forest.prevSibling_of_ctx hctx, Forest.nextSibling_of_ctx hctx] at hok ⊢
      simp only at hok ⊢
      by_cases hpo : po = p
      · subst hpo
        have : vo = vp ∧ l ++ k :: r = Lp := by
          have := so.kids
          rw [hgp] at this
          have := Option.some.inj this
          injection this with _ e2 e3
          exact ⟨e2.symm, e3.symm⟩
        obtain ⟨ev, eL⟩ := this
        subst ev eL
        exact appendTail_same hkeep inv norm so hnorm hsame hocc hok
      · have hvq : vp.isText = false := by
          cases hvp with
          | inl h => cases vp <;> simp_all [Value.isElement, Value.isText]
          | inr h => cases vp <;> simp_all [Value.isDocument, Value.isText]
        obtain ⟨⟨φ, F⟩, _⟩ := far_kid (keep := keep) inv norm hkeep so sp hpo hpt hvq
        exact appendTail_far hkeep inv norm F sp hgc (old_stage inv norm so).same_or_not_text hsame hocc hok

end XotModel
