/-
  FspecAppend — C05 for `append`: the model's `append` is the specification `specMove` to
  `lastChildOf p` (with xot's survivor rule, handle for handle).
-/
import XotModel.Lemmas.FspecNew

namespace XotModel
open HTree Spec

/-- `append` after the old-site merge. -/
def appendTail (X : Forest) (p c : Nat) : Forest × Res :=
  let r2 := X.addConsolidate c (X.lastChild p) none
  if r2.2 then (r2.1, .ok) else
  let r3 := r2.1.checkedAppend p c
  if r3.2 then (r3.1, .ok) else (r3.1, .err .nodeError)

theorem append_eq_tail {f : Forest} {p c : Nat} (hsc : f.structureCheck (some p) c = true)
    (hsame : ¬ f.lastChild p = some c) :
    f.append p c = appendTail (f.removeConsolidate (f.prevSibling c) (f.nextSibling c)).1 p c := by
  rw [Forest.append_unfold]
  simp [hsc, hsame, appendTail]

/-- A text node is a leaf (validity). -/
theorem leaf_of_text {f : Forest} {c : Nat} {t : HTree} {b : Bool} (hv : validList b f.roots = true)
    (hg : f.get? c = some t) (ht : t.value.isText = true) : t.kids = [] := by
  have := valid_findList f.roots t hv hg
  cases t with
  | node h v ks =>
    simp only [HTree.value] at ht
    simp only [HTree.kids]
    apply kids_nil_of_valid this
    · cases v <;> simp_all [Value.isText, Value.isElement]
    · cases v <;> simp_all [Value.isText, Value.isDocument]

theorem lastOf_eq_some {L : List HTree} {a : Nat} (h : Forest.lastOf L = some a) :
    ∃ L' ka, L = L' ++ [ka] ∧ ka.handle = a ∧ ka.value.isNormal = true := by
  unfold Forest.lastOf at h
  cases hl : L.getLast? with
  | none => rw [hl] at h; cases h
  | some k =>
    rw [hl] at h
    simp only at h
    obtain ⟨L', e⟩ := List.getLast?_eq_some_iff.1 hl
    by_cases hk : k.value.isNormal = true
    · rw [if_pos hk] at h
      exact ⟨L', k, e, Option.some.inj h, hk⟩
    · rw [if_neg hk] at h; cases h

theorem isNormal_of_text {v : Value} (h : v.isText = true) : v.isNormal = true := by
  cases v <;> simp_all [Value.isText, Value.isNormal, Value.category]

/-- The far geometry: the node does not come from the child list of `p`. -/
theorem appendTail_far {f : Forest} {p c : Nat} {t : HTree} {vp : Value} {Lp : List HTree} {X Y : Forest}
    {φ : HTree → HTree} (inv : f.Inv) (norm : f.Normal)
    (F : Far f (Keep.resident c) c t p vp Lp X Y φ) (sp : SiteAt f p vp Lp) (hgc : f.get? c = some t)
    (hX : X = f ∨ textData t = none)
    (hsame : ¬ Forest.lastOf Lp = some c)
    (hocc : Dest.occupiedBy f c (.lastChildOf p) = false)
    (hok : (appendTail X p c).2 = .ok) :
    (appendTail X p c).1 = specMove (Keep.resident c) (.lastChildOf p) c f := by
  have hsite : Dest.site f (.lastChildOf p) = some p := by
    simp [Dest.site, Forest.isLive_of_get sp.kids]
  have hspec := F.spec (.lastChildOf p) hocc hsite (fun ψ _ hψ => natFor_insertLast hψ)
  simp only [Dest.insert] at hspec
  rw [hspec]
  have hYc : (Y.editAt (some p) (insertLast t)).consolidation = f.consolidation := by
    rw [Forest.editAt_consolidation, F.ycons]
  have hXtext : X.textOf c = textData t := Forest.textOf_of_get F.xget
  have hstrictY : f.consolidation = true → noAdjacentText (Lp.map φ) = true := by
    intro hc
    rw [noAdj_map F.kid]
    exact (validTree_node (sp.valid (norm hc))).2.2.1 rfl
  -- Flow 1: no merge at the destination
  have flow1 : X.addConsolidate c (X.lastChild p) none = (X, false) →
      (f.consolidation = true → ∀ k, Lp.getLast? = some k → ¬ (k.value.isText = true ∧ t.value.isText = true)) →
      (appendTail X p c).1 = (Y.editAt (some p) (insertLast t)).mergeAt (Keep.resident c) (some p) := by
    intro hr2 hseam
    unfold appendTail at hok ⊢
    rw [hr2] at hok ⊢
    simp only [Bool.false_eq_true, if_false] at hok ⊢
    have hr3 : (X.checkedAppend p c).2 = true := by
      cases h : (X.checkedAppend p c).2 with
      | true => rfl
      | false => rw [h] at hok; simp at hok
    rw [hr3]
    simp only [if_true]
    rw [Forest.checkedAppend_ok F.xnd F.xget hr3, F.xcut]
    rcases Bool.eq_false_or_eq_true f.consolidation with hc | hc
    · rw [mergeAt_on (hYc.trans hc), Forest.editAt_editAt]
      apply F.ysite.congr
      simp only [Function.comp, insertLast]
      symm
      apply mergeRuns_id
      apply noAdj_append.2
      refine ⟨hstrictY hc, rfl, ?_⟩
      intro a b ha hb
      rw [List.getLast?_map] at ha
      cases hl : Lp.getLast? with
      | none => rw [hl] at ha; cases ha
      | some k =>
        rw [hl] at ha
        simp only [Option.map_some, Option.some.injEq] at ha
        simp only [List.head?_cons, Option.some.injEq] at hb
        subst ha hb
        rw [F.kid.value]
        exact hseam hc k hl
    · rw [mergeAt_off (hYc.trans hc)]
  rcases Bool.eq_false_or_eq_true f.consolidation with hc | hc
  case inr =>
    exact flow1 (Forest.addConsolidate_off (F.xcons.trans hc) _ _ _) (fun h => by rw [hc] at h; cases h)
  cases htd : textData t with
  | none =>
    refine flow1 (Forest.addConsolidate_not_text (hXtext.trans htd) _ _) ?_
    intro _ k _ ⟨_, h2⟩
    obtain ⟨z, hz⟩ := isText_iff_textData.1 h2
    rw [htd] at hz; cases hz
  | some tc =>
    have hXf : X = f := by
      cases hX with
      | inl h => exact h
      | inr h => rw [htd] at h; cases h
    subst hXf
    have htt : t.value.isText = true := isText_iff_textData.2 ⟨tc, htd⟩
    have hlast : X.lastChild p = Forest.lastOf Lp := Forest.lastChild_of_get sp.kids
    cases hlo : Forest.lastOf Lp with
    | none =>
      refine flow1 (by rw [hlast, hlo]; exact Forest.addConsolidate_none (fun a h => by cases h) (fun b h => by cases h)) ?_
      intro _ k hk ⟨h1, _⟩
      unfold Forest.lastOf at hlo
      rw [hk] at hlo
      simp only [isNormal_of_text h1, if_true] at hlo
      cases hlo
    | some a =>
      obtain ⟨L', ka, eL, eka, hkn⟩ := lastOf_eq_some hlo
      subst eL
      subst eka
      have hka_get : X.get? ka.handle = some ka := by
        have : SiteAt X p vp (L' ++ ka :: []) := sp
        exact this.getKid
      cases hta : textData ka with
      | none =>
        refine flow1 (by
          rw [hlast, hlo]
          exact Forest.addConsolidate_none
            (fun a h => by cases h; rw [Forest.textOf_of_get hka_get]; exact hta)
            (fun b h => by cases h)) ?_
        intro _ k hk ⟨h1, _⟩
        rw [List.getLast?_concat] at hk
        cases hk
        obtain ⟨z, hz⟩ := isText_iff_textData.1 h1
        rw [hta] at hz; cases hz
      | some ta =>
        -- Flow 2: the moved text node is merged into the last child
        have hr2 : X.addConsolidate c (X.lastChild p) none =
            ((X.setValue ka.handle (.text (ta ++ tc))).spliceOut c, true) := by
          rw [hlast, hlo]
          exact Forest.addConsolidate_prev hc (hXtext.trans htd) ((Forest.textOf_of_get hka_get).trans hta) _
        have hkac : ka.handle ≠ c := fun e => hsame (by rw [hlo, e])
        have hkatext : ka.value.isText = true := isText_iff_textData.2 ⟨ta, hta⟩
        have hleaf_t : t.kids = [] := leaf_of_text inv.valid hgc htt
        have hleaf_ka : ∀ k' ∈ L' ++ [ka], k'.handle = ka.handle → k'.kids = [] := by
          intro k' hk' e
          obtain ⟨ndL, _⟩ := sp.nodupKids
          have : k' = ka := by
            cases List.mem_append.1 hk' with
            | inl h =>
              have hsplit : L' ++ [ka] = L' ++ ka :: [] := rfl
              rw [hsplit] at ndL
              exact absurd e ((tops_ne_of_nodup ndL).1 k' h)
            | inr h => simpa using h
          rw [this]
          exact sp.leaf inv.valid ka (by simp) hkatext
        have hflow := F.flow2 rfl ka.handle (.text (ta ++ tc)) ⟨ka, by simp, rfl⟩ hkac hleaf_t hleaf_ka
        unfold appendTail
        rw [hr2]
        simp only [if_true]
        rw [hflow, mergeAt_on (hYc.trans hc), Forest.editAt_editAt]
        apply F.ysite.congr
        simp only [Function.comp, insertLast, List.map_append, List.map_cons, List.map_nil]
        obtain ⟨ndLY, _⟩ := F.ysite.nodupKids
        rw [List.map_append, List.map_cons, List.map_nil] at ndLY
        have hsplit : L'.map φ ++ [φ ka] = L'.map φ ++ φ ka :: [] := rfl
        rw [hsplit] at ndLY
        have htops := (tops_ne_of_nodup ndLY).1
        rw [F.kid.handle] at htops
        rw [hsplit, replaceTop_mid (F.kid.handle ka) htops]
        have hstr := hstrictY hc
        rw [List.map_append, List.map_cons, List.map_nil] at hstr
        have hvka : (φ ka).value = .text ta := by rw [F.kid.value]; exact textData_some hta
        have := mergeRuns_seam (Keep.resident c) (l := L'.map φ) (r := []) hvka (textData_some htd) hstr rfl
        have e2 : L'.map φ ++ φ ka :: [] ++ [t] = L'.map φ ++ φ ka :: t :: [] := by simp
        rw [e2, this]
        simp [join, Keep.resident, F.kid.handle, hkac]

end XotModel
