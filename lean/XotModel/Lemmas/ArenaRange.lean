/-
  XotModel.Lemmas.ArenaRange — the range operations `NodeId::remove` uses on the children of the
  removed node: `detach_from_siblings` of a whole child list, `rewrite_parents` along the
  `next_sibling` chain (the `while let` loop), `transplant` of the range; closed forms under the
  chain hypotheses a well-formed arena provides.
-/
import XotModel.Lemmas.ArenaRemoveLeaf

namespace XotModel
namespace Arena

/-- `parent := o` on every slot of the list. -/
def setParents (b : Arena) (ks : List Nat) (o : Option NodeId) : Arena :=
  ks.foldl (fun b c => b.mod c (fun s => { s with parent := o })) b

theorem slot_setParents (o : Option NodeId) : ∀ (ks : List Nat) (b : Arena) (j : Nat),
    (setParents b ks o).slot j = if j ∈ ks then (b.slot j).map (fun s => { s with parent := o }) else b.slot j
  | [], b, j => by simp [setParents]
  | c :: rest, b, j => by
    have ih := slot_setParents o rest (b.mod c (fun s => { s with parent := o })) j
    show (setParents (b.mod c (fun s => { s with parent := o })) rest o).slot j = _
    rw [ih, slot_mod]
    by_cases h1 : j ∈ rest
    · by_cases h2 : c = j
      · subst h2; simp only [h1, if_true, List.mem_cons, true_or]; cases b.slot c <;> simp
      · simp [h1, h2]
    · by_cases h2 : c = j
      · subst h2; simp [h1]
      · simp [h1, h2, Ne.symm h2]

theorem MetaEq.setParents (o : Option NodeId) : ∀ (ks : List Nat) (b : Arena), MetaEq b (setParents b ks o)
  | [], b => MetaEq.refl b
  | c :: rest, b =>
    (MetaEq.mod b c (f := fun s => { s with parent := o }) (fun s => ⟨rfl, rfl⟩)).trans
      (MetaEq.setParents o rest _)

theorem setParents_fuel (o : Option NodeId) : ∀ (ks : List Nat) (b : Arena), (setParents b ks o).fuel = b.fuel
  | [], b => rfl
  | c :: rest, b => by
    show (setParents (b.mod c _) rest o).fuel = _
    rw [setParents_fuel o rest]; simp

/-- In `b`, the `next_sibling` pointers along `ks` form the chain (ids as in `a`). -/
def ChainNext (b a : Arena) : List Nat → Prop
  | [] => True
  | c :: rest => (∃ s, b.slot c = some s ∧ s.next = rest.head?.map a.idAt) ∧ ChainNext b a rest

theorem ChainNext.congr {b b' a : Arena} : ∀ (ks : List Nat), (∀ c ∈ ks, b'.slot c = b.slot c) →
    ChainNext b a ks → ChainNext b' a ks
  | [], _, _ => trivial
  | c :: rest, h, ⟨⟨s, hs, hn⟩, hrest⟩ =>
    ⟨⟨s, by rw [h c (by simp)]; exact hs, hn⟩,
     ChainNext.congr rest (fun c' hc' => h c' (List.mem_cons_of_mem _ hc')) hrest⟩

/-- The `while let Some(child) = child_opt` loop of `rewrite_parents` along a chain. -/
theorem rewriteParents_chain (a : Arena) (o : Option NodeId) : ∀ (ks : List Nat) (b : Arena) (fuel : Nat),
    ks.length < fuel → ks.Nodup → (∀ c ∈ ks, some (a.idAt c) ≠ o) → ChainNext b a ks →
    rewriteParents fuel b (ks.head?.map a.idAt) o = .done (setParents b ks o) (.ok ())
  | [], b, fuel, hf, _, _, _ => by
    obtain ⟨n, rfl⟩ : ∃ n, fuel = n + 1 := ⟨fuel - 1, by simp at hf; omega⟩
    simp [rewriteParents, setParents]
  | c :: rest, b, fuel, hf, hnd, hne, ⟨⟨s, hs, hn⟩, hrest⟩ => by
    obtain ⟨n, rfl⟩ : ∃ n, fuel = n + 1 := ⟨fuel - 1, by simp at hf; omega⟩
    simp only [List.head?_cons, Option.map_some]
    unfold rewriteParents
    simp only []
    rw [if_neg (hne c (by simp))]
    have hs' : b.slot (a.idAt c).index0 = some s := by rw [idAt_index0]; exact hs
    rw [wr_some _ _ _ _ _ hs', idAt_index0]
    have hs1 : (b.mod c (fun s => { s with parent := o })).slot (a.idAt c).index0 = some { s with parent := o } := by
      rw [idAt_index0]; simp [hs]
    rw [rd_some _ _ _ _ hs1]
    simp only [hn]
    have hc : c ∉ rest := (List.nodup_cons.mp hnd).1
    rw [rewriteParents_chain a o rest _ n (by simp at hf; omega) (List.nodup_cons.mp hnd).2
      (fun c' hc' => hne c' (List.mem_cons_of_mem _ hc'))
      (ChainNext.congr rest (fun c' hc' => by
        have : c ≠ c' := fun e => hc (e ▸ hc')
        simp [this]) hrest)]
    rfl

/-- `detach_from_siblings` of a full child list (`first` has no previous, `last` no next sibling). -/
theorem detachFromSiblings_all_eq (a : Arena) (first last : NodeId) (sf sl : Slot)
    (hf : a.slot first.index0 = some sf) (hfp : sf.prev = none) (hl : a.slot last.index0 = some sl)
    (hln : sl.next = none) (hpr : InRange a sf.parent) :
    detachFromSiblings a first last =
      .done (a.modOpt sf.parent (fun s => { s with first := none, last := none })) () := by
  unfold detachFromSiblings
  rw [rd_some _ _ _ _ hf, wr_some _ _ _ _ _ hf]
  have e1 : a.mod first.index0 (fun s => { s with prev := none }) = a :=
    mod_id_of_fix hf (by cases sf; simp_all)
  rw [e1, rd_some _ _ _ _ hl, wr_some _ _ _ _ _ hl]
  have e2 : a.mod last.index0 (fun s => { s with next := none }) = a :=
    mod_id_of_fix hl (by cases sl; simp_all)
  rw [e2, hfp, hln, connectNeighbors_eq _ _ _ _ hpr (InRange.none a) (InRange.none a)]
  simp [newFirst, newLast]

theorem InRange.setParents {b : Arena} {x : Option NodeId} (h : InRange b x) (ks : List Nat) (o : Option NodeId) :
    InRange (setParents b ks o) x := by
  intro id hid
  obtain ⟨s, hs⟩ := h id hid
  rw [slot_setParents]
  split
  · exact ⟨_, by rw [hs]; rfl⟩
  · exact ⟨s, hs⟩

theorem InRange.unlink {b : Arena} {x : Option NodeId} (h : InRange b x) (p v n : Option NodeId) :
    InRange (unlink b p v n) x := by
  unfold Arena.unlink
  exact ((h.modOpt _ _).modOpt _ _).modOpt _ _

/-- `DetachedSiblingsRange { first, last }.transplant` of a chain `ks`. -/
theorem transplant_chain_eq (a b : Arena) (ks : List Nat) (c1 ck : Nat) (P V N : Option NodeId)
    (hhead : ks.head? = some c1) (hnd : ks.Nodup) (hne : ∀ c ∈ ks, some (a.idAt c) ≠ P)
    (hchain : ChainNext b a ks) (hlen : ks.length < b.fuel)
    (hP : InRange b P) (hV : InRange b V) (hN : InRange b N)
    (h1 : InRange b (some (a.idAt c1))) (hk : InRange b (some (a.idAt ck))) :
    transplant b (a.idAt c1) (a.idAt ck) P V N =
      .done (unlink (unlink (setParents b ks P) P V (some (a.idAt c1))) P (some (a.idAt ck)) N) (.ok ()) := by
  unfold transplant
  have := rewriteParents_chain a P ks b b.fuel hlen hnd hne hchain
  rw [hhead] at this
  simp only [Option.map_some] at this
  rw [this]
  simp only [Step.bind_done]
  rw [connectNeighbors_eq _ _ _ _ (hP.setParents _ _) (hV.setParents _ _) (h1.setParents _ _)]
  simp only [Step.bind_done]
  have e : ∀ (b' : Arena) (p v n : Option NodeId),
      ((b'.modOpt v (fun s => { s with next := n })).modOpt n (fun s => { s with prev := v })).modOpt p
        (fun s => { s with first := newFirst (b'.parentEnds p).1 v n, last := newLast (b'.parentEnds p).2 v n })
      = unlink b' p v n := fun _ _ _ _ => rfl
  rw [e, connectNeighbors_eq _ _ _ _ ((hP.setParents _ _).unlink _ _ _) ((hk.setParents _ _).unlink _ _ _)
    ((hN.setParents _ _).unlink _ _ _)]
  rfl

end Arena
end XotModel
