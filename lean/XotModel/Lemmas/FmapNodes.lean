/-
  Lemmas for C11 with the nodes that carry the entries, part 1: `knFollow` is what a `KNStep`
  amounts to once the key list afterwards and the node of a new last entry are known; when a
  view grows, which node the new entry is carried by (`grow_*`), for the model functions behind
  the updates.
-/
import XotModel.Lemmas.FmapRetHist
import XotModel.Lemmas.FmapHistPos
import XotModel.Model.FmapNodes

namespace XotModel
namespace Fmap
open HTree
open Forest (MapKind entryKey mapChildren MapEntry)

/-! ### Association lists with distinct keys -/

theorem lookup_of_mem {l : List (Nat × Nat)} (hnd : (l.map (·.1)).Nodup) {a b : Nat}
    (h : (a, b) ∈ l) : l.lookup a = some b := by
  induction l with
  | nil => cases h
  | cons x l ih =>
    obtain ⟨xa, xb⟩ := x
    simp only [List.map_cons, List.nodup_cons] at hnd
    rcases List.mem_cons.mp h with h | h
    · cases h; simp
    · have hne : (a == xa) = false := by
        simp only [beq_eq_false_iff_ne, ne_eq]
        intro hh
        apply hnd.1
        rw [← hh]
        exact List.mem_map.mpr ⟨_, h, rfl⟩
      simp only [List.lookup_cons, hne]
      exact ih hnd.2 h

theorem lookup_none_of_not_mem {l : List (Nat × Nat)} {a : Nat} (h : a ∉ l.map (·.1)) :
    l.lookup a = none := by
  induction l with
  | nil => rfl
  | cons x l ih =>
    obtain ⟨xa, xb⟩ := x
    simp only [List.map_cons, List.mem_cons, not_or] at h
    have hne : (a == xa) = false := by simpa using h.1
    simp only [List.lookup_cons, hne]
    exact ih h.2

theorem follow_self (old : List (Nat × Nat)) (ho : (old.map (·.1)).Nodup) (given : Nat) :
    ∀ sub : List (Nat × Nat), (∀ q ∈ sub, q ∈ old) →
      sub.map (fun q => (q.1, (old.lookup q.1).getD given)) = sub := by
  intro sub
  induction sub with
  | nil => intro _; rfl
  | cons q sub ih =>
    intro hs
    obtain ⟨qa, qb⟩ := q
    simp only [List.map_cons]
    rw [lookup_of_mem ho (hs _ List.mem_cons_self), ih (fun q hq => hs q (List.mem_cons_of_mem _ hq))]
    rfl

/-- A `KNStep` between lists with distinct keys is `knFollow`, once the node of a new last entry
    is known. -/
theorem knFollow_of_step {old new : List (Nat × Nat)} (h : KNStep old new)
    (ho : (old.map (·.1)).Nodup) (hn : (new.map (·.1)).Nodup) (given : Nat)
    (hg : ∀ p, new = old ++ [p] → p.2 = given) : new = knFollow old (new.map (·.1)) given := by
  unfold knFollow
  rw [List.map_map]
  rcases h with h | ⟨p, h⟩
  · exact (follow_self old ho given new (fun q hq => h.subset hq)).symm
  · have hp := hg p h
    subst h
    obtain ⟨pa, pb⟩ := p
    simp only at hp
    subst hp
    have hnot : pa ∉ old.map (·.1) := by
      rw [List.map_append, List.nodup_append] at hn
      intro hm
      exact hn.2.2 _ hm _ (by simp) rfl
    rw [List.map_append]
    have := follow_self old ho pb old (fun q hq => hq)
    simp only [Function.comp_def] at this ⊢
    rw [this]
    simp [lookup_none_of_not_mem hnot]

theorem lookup_map_kn (cs : List HTree) (key : Nat) :
    (cs.map (fun c => (entryKey c.value, c.handle))).lookup key =
      (cs.find? (fun c => entryKey c.value == key)).map (·.handle) := by
  induction cs with
  | nil => rfl
  | cons c cs ih =>
    simp only [List.map_cons, List.find?_cons]
    by_cases hk : entryKey c.value = key
    · simp [hk]
    · have h1 : (key == entryKey c.value) = false := by
        simp only [beq_eq_false_iff_ne, ne_eq]; exact fun h => hk h.symm
      have h2 : (entryKey c.value == key) = false := by simpa using hk
      simp only [List.lookup_cons, h1, h2]
      exact ih

/-- `get_node(key)` is the lookup in the (key, node) list. -/
theorem getN_lookup (f : Forest) (k : MapKind) (e key : Nat) :
    getN f k e key = (absKN k f e).lookup key := by
  unfold getN Forest.mapGetNode absKN
  cases f.get? e with
  | none => rfl
  | some t => simp only; rw [lookup_map_kn]

theorem nodeView_eq (f : Forest) : nodeView f = viewOf (nfamOf f) f.next := by
  unfold nodeView viewOf nfamOf
  congr 1
  funext e k key
  exact getN_lookup f k e key

/-! ### When a view grows -/

/-- View `k` of `x` has one more entry, `p`, in `f'` than in `f`. -/
def Grows (f f' : Forest) (x : Nat) (k : MapKind) (p : Nat × Nat) : Prop :=
  absKN k f' x = absKN k f x ++ [p]

theorem absKN_length (k : MapKind) (f : Forest) (x : Nat) :
    (absKN k f x).length = (abs k f x).length := by
  have := congrArg List.length (absKN_fst k f x)
  simpa [omKeys] using this

theorem Grows.absurd_of_le {f f' : Forest} {x : Nat} {k : MapKind} {p : Nat × Nat}
    (h : Grows f f' x k p) (hl : (abs k f' x).length ≤ (abs k f x).length) : False := by
  have := congrArg List.length h
  rw [List.length_append, absKN_length, absKN_length] at this
  simp at this
  omega

theorem Grows.absurd_of_kn {f f' : Forest} {x : Nat} {k : MapKind} {p : Nat × Nat}
    (h : Grows f f' x k p) (hl : absKN k f' x = absKN k f x) : False := by
  unfold Grows at h
  rw [hl] at h
  have := congrArg List.length h
  simp at this

theorem Grows.not_refl {f : Forest} {x : Nat} {k : MapKind} {p : Nat × Nat} (h : Grows f f x k p) :
    False := h.absurd_of_kn rfl

/-- A step whose reference meaning is `F.upd e k g` can only make view `k` of `e` grow. -/
theorem grow_upd {f f' : Forest} {F : Fam} {e : Nat} {k : MapKind} {g : OMap Payload → OMap Payload}
    (hF : Agree f F) (hF' : Agree f' (F.upd e k g)) {x : Nat} {k' : MapKind} {p : Nat × Nat}
    (hg : Grows f f' x k' p) : x = e ∧ k' = k := by
  by_cases h : x = e ∧ k' = k
  · exact h
  · exfalso
    apply hg.absurd_of_le
    rw [hF' x k', hF x k']
    unfold Fam.upd Fam.set
    rw [if_neg h]
    exact Nat.le_refl _

/-- … and not even that one if `g` does not make the map longer. -/
theorem no_grow_upd {f f' : Forest} {F : Fam} {e : Nat} {k : MapKind} {g : OMap Payload → OMap Payload}
    (hF : Agree f F) (hF' : Agree f' (F.upd e k g)) (hle : (g (F e k)).length ≤ (F e k).length)
    {x : Nat} {k' : MapKind} {p : Nat × Nat} (hg : Grows f f' x k' p) : False := by
  obtain ⟨hx, hk⟩ := grow_upd hF hF' hg
  subst hx; subst hk
  apply hg.absurd_of_le
  rw [hF' x k', hF x k', Fam.upd_same]
  exact hle

theorem omInsert_length_contains (m : OMap Payload) (key : Nat) (p : Payload)
    (h : omContainsKey m key = true) : (omInsert m key p).length = m.length := by
  induction m with
  | nil => simp [omContainsKey, omGet] at h
  | cons a m ih =>
    obtain ⟨ka, va⟩ := a
    simp only [omInsert]
    by_cases hk : ka = key
    · simp [hk]
    · simp only [if_neg hk, List.length_cons]
      have hb : (key == ka) = false := by simpa using fun hh : key = ka => hk hh.symm
      have : omContainsKey m key = true := by
        simpa [omContainsKey, omGet, List.lookup_cons, hb] using h
      rw [ih this]

theorem omRemove_length_le (m : OMap Payload) (key : Nat) : (omRemove m key).length ≤ m.length := by
  induction m with
  | nil => simp [omRemove]
  | cons a m ih =>
    obtain ⟨ka, va⟩ := a
    simp only [omRemove]
    by_cases hk : ka = key
    · simp [hk]
    · simp only [if_neg hk, List.length_cons]; omega

theorem omModify_length (m : OMap Payload) (key : Nat) (g : Payload → Payload) :
    (omModify m key g).length = m.length := by
  have := congrArg List.length (omKeys_modify m key g)
  simpa [omKeys] using this

/-! ### The node of the new entry -/

/-- A parentless entry leaf is appended: if the view grows, the new entry is carried by it. -/
theorem grow_appendLeafRoot {f : Forest} (hi : f.Inv) (k : MapKind) (e nd : Nat) (v : Value)
    (he : f.isElement e = true) (hm : k.matches v = true) (hroot : HTree.node nd v [] ∈ f.roots)
    (p : Nat × Nat) (hg : Grows f (f.appendEntryNode k e nd).1 e k p) : p.2 = nd := by
  obtain ⟨nm, N, A, S, h⟩ := minv_of_inv f e hi he
  cases hn : f.mapGetNode k e (entryKey v) with
  | some n =>
    exfalso
    obtain ⟨_, t⟩ := touch_appendLeafRoot hi k e nd v he hm hroot
    apply hg.absurd_of_le
    rw [t.same]
    unfold opInsert
    rw [omInsert_length_contains _ _ _ (contains_of_getNode hn)]
    exact Nat.le_refl _
  | none =>
    obtain ⟨_, _, hkn⟩ := touch_place hi h k nd v hm hroot hn
    unfold Grows at hg
    rw [hkn] at hg
    have := List.append_cancel_left hg
    simp only [List.cons.injEq, and_true] at this
    rw [← this]

/-- `new_*_node(v)` followed by `append_*_node`: the new entry is carried by the new node. -/
theorem grow_appendNew {f : Forest} (hi : f.Inv) (k : MapKind) (e : Nat) (v : Value)
    (he : f.isElement e = true) (hm : k.matches v = true) (p : Nat × Nat)
    (hg : Grows f ((f.newNode v).1.appendEntryNode k e f.next).1 e k p) : p.2 = f.next := by
  have hi1 := newNode_inv f hi v
  have he1 := isElement_newNode f v e he
  have hroot : HTree.node f.next v [] ∈ (f.newNode v).1.roots := by simp [newNode_eq]
  have s := newNode_sameViews f hi v (matches_not_element k v hm)
  apply grow_appendLeafRoot hi1 k e f.next v he1 hm hroot p
  unfold Grows at hg ⊢
  rw [(s e).kn k]
  exact hg

/-- `insert(key, value)`: a new entry is carried by the node made for it. -/
theorem grow_mapInsert {f : Forest} (hi : f.Inv) (k : MapKind) (e : Nat) (v : Value)
    (he : f.isElement e = true) (hm : k.matches v = true) (p : Nat × Nat)
    (hg : Grows f (f.mapInsert k e v).1 e k p) : p.2 = f.next := by
  cases hn : f.mapGetNode k e (entryKey v) with
  | some n =>
    exfalso
    obtain ⟨_, t⟩ := touch_mapInsert hi k e v he hm
    apply hg.absurd_of_le
    rw [t.same]
    unfold opInsert
    rw [omInsert_length_contains _ _ _ (contains_of_getNode hn)]
    exact Nat.le_refl _
  | none =>
    rw [mapInsert_absent_eq f hi k e v he hm hn] at hg
    exact grow_appendNew hi k e v he hm p hg

/-! ### The forests of the entry calls -/

theorem entryOrInsert_fst (f : Forest) (k : MapKind) (e : Nat) (d : Value)
    (he : f.isElement e = true) :
    (f.entryOrInsert k e d).1 =
      if omContainsKey (abs k f e) (entryKey d) then f else (f.mapInsert k e d).1 := by
  unfold Forest.entryOrInsert
  rw [he, mapEntry_eq]
  simp only [Bool.not_true, Bool.false_eq_true, if_false]
  cases omContainsKey (abs k f e) (entryKey d) with
  | true => rfl
  | false => simp only [Bool.false_eq_true, if_false]; exact vacInsert_fst f k e d

theorem vacantInsert_fst (f : Forest) (k : MapKind) (e : Nat) (d : Value)
    (he : f.isElement e = true) :
    (f.vacantInsert k e d).1 =
      if omContainsKey (abs k f e) (entryKey d) then f else (f.mapInsert k e d).1 := by
  unfold Forest.vacantInsert
  rw [he, mapEntry_eq]
  simp only [Bool.not_true, Bool.false_eq_true, if_false]
  cases omContainsKey (abs k f e) (entryKey d) with
  | true => rfl
  | false => simp only [Bool.false_eq_true, if_false]; exact vacInsert_fst f k e d

theorem occupiedInsert_fst (f : Forest) (k : MapKind) (e : Nat) (d : Value)
    (he : f.isElement e = true) :
    (f.occupiedInsert k e d).1 =
      if omContainsKey (abs k f e) (entryKey d) then (f.mapInsert k e d).1 else f := by
  unfold Forest.occupiedInsert
  rw [he, mapEntry_eq]
  simp only [Bool.not_true, Bool.false_eq_true, if_false]
  cases omContainsKey (abs k f e) (entryKey d) with
  | true => simp only [if_true]; exact occInsert_fst f k e d
  | false => rfl

theorem entryInsert_fst (f : Forest) (k : MapKind) (e : Nat) (d : Value)
    (he : f.isElement e = true) : (f.entryInsert k e d).1 = (f.mapInsert k e d).1 := by
  unfold Forest.entryInsert
  rw [he, mapEntry_eq]
  simp only [Bool.not_true, Bool.false_eq_true, if_false]
  cases omContainsKey (abs k f e) (entryKey d) with
  | true => simp only [if_true]; exact occInsert_fst f k e d
  | false => simp only [Bool.false_eq_true, if_false]; exact vacInsert_fst f k e d

/-- If `f'` is `f` or the forest after `insert`, a new entry of view `k` of `e` is carried by
    the node made for it. -/
theorem grow_ite_insert {f : Forest} (hi : f.Inv) (k : MapKind) (e : Nat) (v : Value)
    (he : f.isElement e = true) (hm : k.matches v = true) (c : Bool) (p : Nat × Nat) :
    Grows f (if c then f else (f.mapInsert k e v).1) e k p → p.2 = f.next := by
  cases c with
  | true => intro hg; exact hg.not_refl.elim
  | false => intro hg; exact grow_mapInsert hi k e v he hm p hg

end Fmap
end XotModel
