/-
  Finv (C04), part 6: the (handle, value) pairs of a forest.  Under distinct handles
  `f.value? x = some v ↔ (x, v) ∈ hvList f.roots`, which turns "this node is still there with the
  same value" into list membership across an edit.
-/
import XotModel.Lemmas.FinvKids

namespace XotModel
open HTree

mutual
  def hv : HTree → List (Nat × Value)
    | .node h v ks => (h, v) :: hvList ks
  def hvList : List HTree → List (Nat × Value)
    | [] => []
    | k :: ks => hv k ++ hvList ks
end

def pathHV : List ZipFrame → List (Nat × Value)
  | [] => []
  | fr :: rest => hvList fr.l ++ (fr.h, fr.v) :: (pathHV rest ++ hvList fr.r)

@[simp] theorem hv_node (h : Nat) (v : Value) (ks : List HTree) : hv (.node h v ks) = (h, v) :: hvList ks := by
  simp [hv]
@[simp] theorem hvList_nil : hvList [] = [] := by simp [hvList]
@[simp] theorem hvList_cons (k : HTree) (ks : List HTree) : hvList (k :: ks) = hv k ++ hvList ks := by
  simp [hvList]
@[simp] theorem hvList_append (a b : List HTree) : hvList (a ++ b) = hvList a ++ hvList b := by
  induction a with
  | nil => simp
  | cons k ks ih => simp [ih]

theorem hv_eq (t : HTree) : hv t = (t.handle, t.value) :: hvList t.kids := by cases t; simp

mutual
  theorem map_fst_hv : ∀ t : HTree, (hv t).map Prod.fst = handles t
    | .node h v ks => by simp [map_fst_hvList ks]
  theorem map_fst_hvList : ∀ ks : List HTree, (hvList ks).map Prod.fst = handlesList ks
    | [] => by simp
    | k :: ks => by simp [map_fst_hv k, map_fst_hvList ks]
end

theorem mem_handlesList_of_mem_hvList {x : Nat} {v : Value} {ks : List HTree}
    (h : (x, v) ∈ hvList ks) : x ∈ handlesList ks := by
  rw [← map_fst_hvList]; exact List.mem_map.mpr ⟨(x, v), h, rfl⟩

theorem mem_handles_of_mem_hv {x : Nat} {v : Value} {t : HTree} (h : (x, v) ∈ hv t) : x ∈ handles t := by
  rw [← map_fst_hv]; exact List.mem_map.mpr ⟨(x, v), h, rfl⟩

theorem hvList_plug_perm (path : List ZipFrame) (ks : List HTree) :
    (hvList (plug path ks)).Perm (pathHV path ++ hvList ks) := by
  induction path with
  | nil => simp [pathHV]
  | cons fr rest ih =>
    simp only [plug_cons, hvList_append, hvList_cons, hv_node, pathHV,
      List.append_assoc, List.cons_append]
    refine List.Perm.append_left _ (List.Perm.cons _ ?_)
    refine (List.Perm.append_right _ ih).trans ?_
    simp only [List.append_assoc]
    exact List.Perm.append_left _ List.perm_append_comm

theorem mem_hvList_plug {path : List ZipFrame} {ks : List HTree} {p : Nat × Value} :
    p ∈ hvList (plug path ks) ↔ p ∈ pathHV path ∨ p ∈ hvList ks := by
  rw [(hvList_plug_perm path ks).mem_iff]; simp

theorem mem_pathHandles_of_mem_pathHV {x : Nat} {v : Value} {path : List ZipFrame}
    (h : (x, v) ∈ pathHV path) : x ∈ pathHandles path := by
  induction path with
  | nil => simp [pathHV] at h
  | cons fr rest ih =>
    simp only [pathHV, pathHandles, List.mem_append, List.mem_cons, Prod.mk.injEq] at h ⊢
    rcases h with h | h | h | h
    · exact Or.inl (mem_handlesList_of_mem_hvList h)
    · exact Or.inr (Or.inl h.1)
    · exact Or.inr (Or.inr (Or.inl (ih h)))
    · exact Or.inr (Or.inr (Or.inr (mem_handlesList_of_mem_hvList h)))

/-- Decomposition at a (handle, value) pair. -/
theorem exists_plug_of_mem_hv (x : Nat) (w : Value) : ∀ ks : List HTree, (x, w) ∈ hvList ks →
    ∃ path l k r, ks = plug path (l ++ k :: r) ∧ k.handle = x ∧ k.value = w
  | [] => by intro hm; simp at hm
  | .node h' v kids :: ks => by
    intro hm
    simp only [hvList_cons, hv_node, List.cons_append, List.mem_cons, List.mem_append, Prod.mk.injEq] at hm
    rcases hm with hm | hm | hm
    · exact ⟨[], [], .node h' v kids, ks, by simp, by simp [hm.1], by simp [hm.2]⟩
    · obtain ⟨path, l, k, r, he, hk⟩ := exists_plug_of_mem_hv x w kids hm
      refine ⟨⟨[], h', v, ks⟩ :: path, l, k, r, ?_, hk⟩
      simp [← he]
    · obtain ⟨path, l, k, r, he, hk⟩ := exists_plug_of_mem_hv x w ks hm
      cases path with
      | nil => exact ⟨[], .node h' v kids :: l, k, r, by simp [he], hk⟩
      | cons fr rest =>
        exact ⟨⟨.node h' v kids :: fr.l, fr.h, fr.v, fr.r⟩ :: rest, l, k, r, by simp [he], hk⟩

namespace Forest

theorem value?_of_loc {f : Forest} {h : Nat} {path l k r} (lc : Loc f.roots h path l k r)
    (nd : f.allHandles.Nodup) : f.value? h = some k.value := by
  simp [value?, get?_of_loc lc nd]

/-- Under distinct handles, the value of a handle is its entry in the pair list. -/
theorem value?_eq_some_iff {f : Forest} (nd : f.allHandles.Nodup) (x : Nat) (v : Value) :
    f.value? x = some v ↔ (x, v) ∈ hvList f.roots := by
  constructor
  · intro hv'
    have hl : f.isLive x = true := by
      unfold value? at hv'; unfold isLive
      cases hg : f.get? x with
      | none => rw [hg] at hv'; cases hv'
      | some _ => rfl
    obtain ⟨path, l, k, r, lc⟩ := exists_loc (mem_allHandles_of_isLive hl)
    rw [value?_of_loc lc nd] at hv'
    cases hv'
    rw [lc.eq, mem_hvList_plug]
    refine Or.inr ?_
    simp [hv_eq k, lc.hk]
  · intro hm
    obtain ⟨path, l, k, r, he, hk, hw⟩ := exists_plug_of_mem_hv x v f.roots hm
    rw [value?_of_loc ⟨he, hk⟩ nd, hw]

theorem fi_isLive_iff_mem {f : Forest} (nd : f.allHandles.Nodup) (x : Nat) :
    f.isLive x = true ↔ x ∈ f.allHandles := by
  constructor
  · exact mem_allHandles_of_isLive
  · intro hm
    obtain ⟨path, l, k, r, lc⟩ := exists_loc hm
    exact isLive_of_loc lc nd

theorem isLive_of_value? {f : Forest} {x : Nat} {v : Value} (h : f.value? x = some v) :
    f.isLive x = true := by
  unfold value? at h; unfold isLive
  cases hg : f.get? x with
  | none => rw [hg] at h; cases h
  | some _ => rfl

end Forest
end XotModel
