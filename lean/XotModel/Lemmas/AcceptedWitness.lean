/-
  XotModel.Lemmas.AcceptedWitness — closed witnesses around "accepted ⇒ serialises and reparses
  deep-equal": the minimal input of the known finding that is still open (the prefix `xml` rebound:
  outside `NoReservedDecls` the clause fails in the model), the former witnesses that are now REJECTED
  (reserved declarations, `xmlns:p=""`, the processing-instruction target `xml`), and a document
  inside the guards (namespaces, references, CDATA,
  comment, PI).  Everything is evaluated through the canonical-rendering theorem of the reference
  tokenizer (`lexDocument_render`) and the explicit builder `buildE`.
-/
import XotModel.Lemmas.AcceptedDefs
import XotModel.Lemmas.LexRejectShapes
import XotModel.Lemmas.ParseWitnessData
import XotModel.Model.Compare
import XotModel.Model.ParseString

namespace XotModel.Lex.Canon

open XotModel.Lex XotModel.Lex.Stream

/-- In element content the literal `<?xml ` is refused (`UnknownToken`), whatever follows: a
    processing instruction whose target is `xml` cannot be written with a blank after the target. -/
theorem failsAt_xml_pi (frag : Bool) (d pos : Nat) (rest : Str) :
    FailsAt frag (.content d) pos (litXmlDecl ++ rest) := by
  refine failsAt_content_of_markup (c := '?') (cs := 'x' :: 'm' :: 'l' :: ' ' :: rest) rfl ?_
  intro tk hst hs
  have he : tk.stream.atEnd = false := by rw [hs]; rfl
  have h1 : tk.stream.curr? = some '<' := by rw [hs]; rfl
  have h2 : tk.stream.next? = some '?' := by rw [hs]; rfl
  have h3 : tk.stream.startsWith litXmlDecl = true := by
    rw [hs]; simp [startsWith, litXmlDecl, List.isPrefixOf]
  unfold parseNextImpl
  simp only [he, Bool.false_eq_true, if_false, hst, h1, h2, beq_self_eq_true, if_true,
    show ('?' == '!') = false from by decide, h3, Bool.not_true]

end XotModel.Lex.Canon

namespace XotModel.Witness

open XotModel

/-- `parse` on the canonical spelling of a `LexOK` token list, computed by the explicit builder. -/
theorem parseString_render (env : Env) (ts : List Token) (h : LexOK false ts = true) :
    parseString .document env (renderTokens ts) =
      buildE .document (strLen (renderTokens ts)) env (placeTokens 0 ts) none := by
  simp only [parseString, lexMode, lexDocument_render ts h]
  exact build_eq_buildE _ _ _ _ _

private def sp (s : String) : StrSpan := ⟨s.toList, 0⟩
private def nosp : StrSpan := ⟨[], 0⟩

/-- `<a xmlns:p="" p:xmlns="v"/>`: a prefixed undeclaration, and an attribute `xmlns` in no namespace
    (before /repo a5dcf8e accepted, and serialised as `<a xmlns:p="" xmlns="v"/>`: another tree). -/
def undeclTokens : List Token :=
  [.elementStart nosp (sp "a") nosp, .attribute (sp "xmlns") (sp "p") nosp nosp,
   .attribute (sp "p") (sp "xmlns") (sp "v") nosp, .elementEnd .empty nosp]

/-- `<a xmlns:xmlns="u"/>`: the prefix `xmlns` declared. -/
def xmlnsPrefixTokens : List Token :=
  [.elementStart nosp (sp "a") nosp, .attribute (sp "xmlns") (sp "xmlns") (sp "u") nosp, .elementEnd .empty nosp]

/-- `<a xmlns:p="http://www.w3.org/XML/1998/namespace"/>`: another prefix than `xml` for the XML namespace. -/
def xmlUriTokens : List Token :=
  [.elementStart nosp (sp "a") nosp,
   .attribute (sp "xmlns") (sp "p") (sp "http://www.w3.org/XML/1998/namespace") nosp, .elementEnd .empty nosp]

/-- `<a xmlns="http://www.w3.org/2000/xmlns/"/>`: the xmlns namespace name as default namespace. -/
def xmlnsUriTokens : List Token :=
  [.elementStart nosp (sp "a") nosp,
   .attribute nosp (sp "xmlns") (sp "http://www.w3.org/2000/xmlns/") nosp, .elementEnd .empty nosp]

/-- `<a xmlns:p="http://www.w3.org/2000/xmlns&#x2F;"/>`: the reserved name through a character reference
    (the test is on the DECODED value). -/
def xmlnsUriRefTokens : List Token :=
  [.elementStart nosp (sp "a") nosp,
   .attribute (sp "xmlns") (sp "p") (sp "http://www.w3.org/2000/xmlns&#x2F;") nosp, .elementEnd .empty nosp]

/-- The error of `parse` on the canonical spelling of `ts` (from `Xot::new()`'s tables). -/
def rejection (ts : List Token) : Option ParseErr :=
  match buildE .document (strLen (renderTokens ts)) Env.fresh (placeTokens 0 ts) none with
  | .err e _ => some e
  | _ => none

/-- What `rejection` says, on `parseString`. -/
theorem rejection_spec {ts : List Token} {e : ParseErr} (h1 : LexOK false ts = true) (h : rejection ts = some e) :
    ∃ env', parseString .document Env.fresh (renderTokens ts) = .err e env' := by
  unfold rejection at h
  split at h
  · rename_i e' env' he
    simp only [Option.some.injEq] at h
    subst h
    exact ⟨env', by rw [parseString_render _ _ h1]; exact he⟩
  · cases h

theorem undecl_rejected : LexOK false undeclTokens = true ∧
    rejection undeclTokens = some (.invalidNamespaceDeclaration "xmlns:p".toList ⟨3, 10⟩) := by decide +kernel

theorem reserved_rejected :
    (LexOK false xmlnsPrefixTokens = true ∧
      rejection xmlnsPrefixTokens = some (.invalidNamespaceDeclaration "xmlns:xmlns".toList ⟨3, 14⟩)) ∧
    (LexOK false xmlUriTokens = true ∧
      rejection xmlUriTokens = some (.invalidNamespaceDeclaration "xmlns:p".toList ⟨3, 10⟩)) ∧
    (LexOK false xmlnsUriTokens = true ∧
      rejection xmlnsUriTokens = some (.invalidNamespaceDeclaration "xmlns".toList ⟨3, 8⟩)) ∧
    (LexOK false xmlnsUriRefTokens = true ∧
      rejection xmlnsUriRefTokens = some (.invalidNamespaceDeclaration "xmlns:p".toList ⟨3, 10⟩)) := by
  decide +kernel

/-- `<a xmlns:xml="zzz"><b xmlns:xml="http://www.w3.org/XML/1998/namespace" xml:id="i"/></a>`: the prefix
    `xml` rebound (still accepted: known finding C03:xml-prefix-rebound-accepted), and bound back to the
    XML namespace below, with a name in that namespace. -/
def xmlReboundTokens : List Token :=
  [.elementStart nosp (sp "a") nosp, .attribute (sp "xmlns") (sp "xml") (sp "zzz") nosp, .elementEnd .open nosp,
   .elementStart nosp (sp "b") nosp,
   .attribute (sp "xmlns") (sp "xml") (sp "http://www.w3.org/XML/1998/namespace") nosp,
   .attribute (sp "xml") (sp "id") (sp "i") nosp, .elementEnd .empty nosp,
   .elementEnd (.close nosp (sp "a")) nosp]

/-- Its serialisation `<a xmlns:xml="zzz"><b xml:id="i"/></a>`: a binding of the XML namespace is never
    written, so `xml:id` now means `{zzz}id`. -/
def xmlReboundTokens' : List Token :=
  [.elementStart nosp (sp "a") nosp, .attribute (sp "xmlns") (sp "xml") (sp "zzz") nosp, .elementEnd .open nosp,
   .elementStart nosp (sp "b") nosp, .attribute (sp "xml") (sp "id") (sp "i") nosp, .elementEnd .empty nosp,
   .elementEnd (.close nosp (sp "a")) nosp]

/-- The tree is accepted, violates the guard, serialises to the rendering of `ts'`, and that text
    reparses to a tree that is NOT `deep_equal`. -/
def roundTripBroken (ts ts' : List Token) : Bool :=
  match buildE .document (strLen (renderTokens ts)) Env.fresh (placeTokens 0 ts) none with
  | .ok p =>
    !NoReservedDecls p.env p.tree && PlainPiTargets p.env p.tree &&
    (match toXmlString p.env p.tree [] with
     | .ok s' => s' == renderTokens ts'
     | _ => false) &&
    (match buildE .document (strLen (renderTokens ts')) p.env (placeTokens 0 ts') none with
     | .ok p' => !deepEqual p'.tree p.tree
     | _ => false)
  | _ => false

theorem xmlRebound_broken : LexOK false xmlReboundTokens = true ∧ LexOK false xmlReboundTokens' = true ∧
    roundTripBroken xmlReboundTokens xmlReboundTokens' = true := by decide +kernel

/-- What `roundTripBroken` says, on `parseString`. -/
theorem roundTripBroken_spec {ts ts' : List Token} (h1 : LexOK false ts = true) (h2 : LexOK false ts' = true)
    (h : roundTripBroken ts ts' = true) :
    ∃ p, parseString .document Env.fresh (renderTokens ts) = .ok p ∧ NoReservedDecls p.env p.tree = false ∧
      PlainPiTargets p.env p.tree = true ∧ toXmlString p.env p.tree [] = .ok (renderTokens ts') ∧
      ∃ p', parseString .document p.env (renderTokens ts') = .ok p' ∧ deepEqual p'.tree p.tree = false := by
  unfold roundTripBroken at h
  split at h
  · rename_i p hp
    simp only [Bool.and_eq_true, Bool.not_eq_true'] at h
    obtain ⟨⟨⟨g1, g2⟩, g3⟩, g4⟩ := h
    refine ⟨p, by rw [parseString_render _ _ h1]; exact hp, g1, g2, ?_, ?_⟩
    · split at g3
      · rename_i s' hs
        have : s' = renderTokens ts' := by simpa using g3
        rw [hs, this]
      · cases g3
    · split at g4
      · rename_i p' hp'
        exact ⟨p', by rw [parseString_render _ _ h2]; exact hp', by simpa using g4⟩
      · cases g4
  · cases h

/-- `<a><?xml` TAB `x?></a>` is no canonical spelling; the tokens the tokenizer returns for it are
    the tokens of `<a><?xml x?></a>` (positions apart: the target at 5..8), so the builder's result is
    computed on these. -/
def xmlPiTokens : List Token :=
  [.elementStart nosp (sp "a") ⟨[], 0⟩, .elementEnd .open ⟨[], 2⟩, .pi ⟨"xml".toList, 5⟩ (some ⟨"x".toList, 9⟩) ⟨[], 3⟩,
   .elementEnd (.close ⟨[], 14⟩ ⟨"a".toList, 14⟩) ⟨[], 12⟩]

/-- … and with the target in another letter case, `<a><?XmL?></a>` (a canonical spelling). -/
def xmlPiMixedTokens : List Token :=
  [.elementStart nosp (sp "a") nosp, .elementEnd .open nosp, .pi (sp "XmL") none nosp,
   .elementEnd (.close nosp (sp "a")) nosp]

/-- The builder on the tokens of `<a><?xml` TAB `x?></a>`: rejected at the target (before /repo 002854f:
    accepted, and serialised to `<a><?xml x?></a>`, which the tokenizer refuses). -/
theorem xmlPi_rejected :
    (match buildE .document 17 Env.fresh xmlPiTokens none with
     | .err e _ => e == .invalidTarget "xml".toList ⟨5, 8⟩
     | _ => false) = true ∧
    LexOK false xmlPiMixedTokens = true ∧
    rejection xmlPiMixedTokens = some (.invalidTarget "XmL".toList ⟨5, 8⟩) := by decide +kernel

/-- A document inside both guards: default namespace, prefixed names, `xml:id` with surrounding
    blanks, predefined and numeric references, a CDATA section next to text, a comment, a PI,
    `xmlns=""`.
    `<r xmlns="urn:a" xmlns:p="urn:b" k="&lt;&#x41;&amp;"><p:c xml:id=" i "/><![CDATA[x]]>y&#xD;<!--c--><?t d?><e xmlns=""/></r>` -/
def goodTokens : List Token :=
  [.elementStart nosp (sp "r") nosp, .attribute nosp (sp "xmlns") (sp "urn:a") nosp,
   .attribute (sp "xmlns") (sp "p") (sp "urn:b") nosp, .attribute nosp (sp "k") (sp "&lt;&#x41;&amp;") nosp,
   .elementEnd .open nosp,
   .elementStart (sp "p") (sp "c") nosp, .attribute (sp "xml") (sp "id") (sp " i ") nosp, .elementEnd .empty nosp,
   .cdata (sp "x") nosp, .text (sp "y&#xD;"), .comment (sp "c") nosp, .pi (sp "t") (some (sp "d")) nosp,
   .elementStart nosp (sp "e") nosp, .attribute nosp (sp "xmlns") nosp nosp, .elementEnd .empty nosp,
   .elementEnd (.close nosp (sp "r")) nosp]

def goodText : Str :=
  "<r xmlns=\"urn:a\" xmlns:p=\"urn:b\" k=\"&lt;&#x41;&amp;\"><p:c xml:id=\" i \"/><![CDATA[x]]>y&#xD;<!--c--><?t d?><e xmlns=\"\"/></r>".toList

def goodAccepted : Bool :=
  match buildE .document (strLen goodText) Env.fresh (placeTokens 0 goodTokens) none with
  | .ok p => NoReservedDecls p.env p.tree && PlainPiTargets p.env p.tree
  | _ => false

theorem good_accepted : LexOK false goodTokens = true ∧ renderTokens goodTokens = goodText ∧
    envOK Env.fresh = true ∧ goodAccepted = true := by decide +kernel

theorem good_spec : ∃ p, parseString .document Env.fresh goodText = .ok p ∧
    NoReservedDecls p.env p.tree = true ∧ PlainPiTargets p.env p.tree = true := by
  obtain ⟨h1, h2, _, h4⟩ := good_accepted
  unfold goodAccepted at h4
  split at h4
  · rename_i p hp
    simp only [Bool.and_eq_true] at h4
    refine ⟨p, ?_, h4.1, h4.2⟩
    rw [← h2, parseString_render _ _ h1, h2]; exact hp
  · cases h4

end XotModel.Witness
