/-
  Lemmas for C11, part 15: the map operations preserve the whole invariant `Forest.Inv`
  (structural validity of every tree included), so they chain with every other operation.
-/
import XotModel.Lemmas.FmapNode

namespace XotModel
namespace Fmap
open HTree
open Forest (MapKind entryKey mapChildren)

/-! ### The checks a parent makes on its children depend on the children's values only -/

theorem all_kidAllowed_map (v : Value) (φ : HTree → HTree) (hφ : ∀ k, (φ k).value = k.value)
    (ks : List HTree) :
    (ks.map φ).all (fun k => kidAllowed v k.value) = ks.all (fun k => kidAllowed v k.value) := by
  induction ks with
  | nil => rfl
  | cons k ks ih => simp only [List.map_cons, List.all_cons, hφ, ih]

theorem kidsOrdered_map (φ : HTree → HTree) (hφ : ∀ k, (φ k).value = k.value) :
    ∀ ks : List HTree, kidsOrdered (ks.map φ) = kidsOrdered ks
  | [] => rfl
  | [_] => rfl
  | a :: b :: rest => by
    have ih := kidsOrdered_map φ hφ (b :: rest)
    simp only [List.map_cons] at ih ⊢
    simp only [kidsOrdered, hφ, ih]

theorem noAdjacentText_map (φ : HTree → HTree) (hφ : ∀ k, (φ k).value = k.value) :
    ∀ ks : List HTree, noAdjacentText (ks.map φ) = noAdjacentText ks
  | [] => rfl
  | [_] => rfl
  | a :: b :: rest => by
    have ih := noAdjacentText_map φ hφ (b :: rest)
    simp only [List.map_cons] at ih ⊢
    simp only [noAdjacentText, hφ, ih]

theorem keysUnique_map (c : Category) (φ : HTree → HTree) (hφ : ∀ k, (φ k).value = k.value)
    (ks : List HTree) : keysUnique c (ks.map φ) = keysUnique c ks := by
  have : ((ks.map φ).filter (fun k => k.value.category == c)).map (fun k => entryKey k.value) =
      (ks.filter (fun k => k.value.category == c)).map (fun k => entryKey k.value) := by
    induction ks with
    | nil => rfl
    | cons k ks ih =>
      simp only [List.map_cons, List.filter_cons, hφ]
      split
      · simp only [List.map_cons, hφ, ih]
      · exact ih
  simp only [keysUnique, this]

theorem mapAt_atKids_value (e : Nat) (F : List HTree → List HTree) (k : HTree) :
    (mapAt e (atKids F) k).value = k.value := by
  cases k with
  | node h v ks =>
    simp only [mapAt]
    split <;> rfl

mutual
  /-- Replacing the child list of the node `e` by a list that is valid under `e`'s value keeps
      the whole tree valid. -/
  theorem validTree_withKids (b : Bool) (e : Nat) (ev : Value) (ks ks' : List HTree)
      (hnew : validTree b (.node e ev ks') = true) : ∀ k : HTree, (handles k).Nodup →
      find? e k = some (.node e ev ks) → validTree b k = true →
      validTree b (mapAt e (atKids (fun _ => ks')) k) = true
    | .node h' v ks0 => by
      intro hnd hf hv
      simp only [handles, List.nodup_cons] at hnd
      simp only [find?] at hf
      simp only [mapAt]
      split at hf
      · rename_i hh
        rw [if_pos hh]
        simp only [Option.some.injEq, HTree.node.injEq] at hf
        obtain ⟨h1, h2, _⟩ := hf
        subst h1 h2
        exact hnew
      · rename_i hh
        rw [if_neg hh]
        simp only [validTree, Bool.and_eq_true] at hv ⊢
        obtain ⟨⟨⟨⟨⟨h1, h2⟩, h3⟩, h4⟩, h5⟩, h6⟩ := hv
        have hφ := mapAt_atKids_value e (fun _ => ks')
        rw [mapAtList_eq_map, all_kidAllowed_map v _ hφ, kidsOrdered_map _ hφ,
          keysUnique_map _ _ hφ, keysUnique_map _ _ hφ, noAdjacentText_map _ hφ,
          ← mapAtList_eq_map]
        exact ⟨⟨⟨⟨⟨h1, h2⟩, h3⟩, h4⟩, h5⟩,
          validList_withKids b e ev ks ks' hnew ks0 hnd.2 hf h6⟩
  theorem validList_withKids (b : Bool) (e : Nat) (ev : Value) (ks ks' : List HTree)
      (hnew : validTree b (.node e ev ks') = true) : ∀ l : List HTree, (handlesList l).Nodup →
      findList? e l = some (.node e ev ks) → validList b l = true →
      validList b (mapAtList e (atKids (fun _ => ks')) l) = true
    | [] => by simp [findList?]
    | k :: l => by
      intro hnd hf hv
      simp only [handlesList] at hnd
      have hnd' := List.nodup_append.mp hnd
      simp only [findList?] at hf
      simp only [validList, Bool.and_eq_true] at hv
      simp only [mapAtList, validList, Bool.and_eq_true]
      cases hk : find? e k with
      | some t' =>
        rw [hk] at hf; cases hf
        have hek : e ∈ handles k := find?_mem e k _ hk
        have h2 : e ∉ handlesList l := fun hx => hnd'.2.2 _ hek _ hx rfl
        rw [mapAtList_not_mem e _ l h2]
        exact ⟨validTree_withKids b e ev ks ks' hnew k hnd'.1 hk hv.1, hv.2⟩
      | none =>
        rw [hk] at hf
        have h2 : e ∉ handles k := not_mem_of_find?_none e k hk
        rw [mapAt_not_mem e _ k h2]
        exact ⟨hv.1, validList_withKids b e ev ks ks' hnew l hnd'.2.1 hf hv.2⟩
end

/-! ### Validity of the new child list -/

theorem validList_append (b : Bool) (a c : List HTree) :
    validList b (a ++ c) = (validList b a && validList b c) := by
  induction a with
  | nil => simp [validList]
  | cons x a ih => simp [validList, ih, Bool.and_assoc]

theorem validList_of_forall (b : Bool) (l : List HTree) (h : ∀ x ∈ l, validTree b x = true) :
    validList b l = true := by
  induction l with
  | nil => rfl
  | cons x l ih =>
    simp only [validList, Bool.and_eq_true]
    exact ⟨h x List.mem_cons_self, ih (fun y hy => h y (List.mem_cons_of_mem _ hy))⟩

theorem validTree_leaf (b : Bool) (x : HTree) (h : x.kids = []) : validTree b x = true := by
  cases x with
  | node h' v ks =>
    simp only [HTree.kids] at h
    subst h
    simp [validTree, kidsOrdered, keysUnique, noAdjacentText, validList]

theorem isText_false_of_entry (x : HTree) (h : x.value.category ≠ .normal) :
    x.value.isText = false := by
  cases hv : x.value <;> simp_all [Value.category, Value.isText]

/-- Entry nodes in front do not matter for the no-adjacent-text check. -/
theorem noAdjacentText_entries (P S : List HTree) (hP : ∀ x ∈ P, x.value.category ≠ .normal) :
    noAdjacentText (P ++ S) = noAdjacentText S := by
  induction P with
  | nil => rfl
  | cons a P ih =>
    have ha := isText_false_of_entry a (hP a List.mem_cons_self)
    have ih' := ih (fun x hx => hP x (List.mem_cons_of_mem _ hx))
    cases hPS : P ++ S with
    | nil =>
      have hS : S = [] := (List.append_eq_nil_iff.mp hPS).2
      have hP' : P = [] := (List.append_eq_nil_iff.mp hPS).1
      subst hS hP'
      simp [noAdjacentText]
    | cons c rest =>
      rw [hPS] at ih'
      simp only [List.cons_append, hPS, noAdjacentText, ha, Bool.false_and, Bool.not_false,
        Bool.true_and]
      exact ih'

/-- The element with its sections is valid as soon as the sections are what `MInv` says and the
    normal children are valid and without adjacent text. -/
theorem validTree_of_minv {f : Forest} {e nm : Nat} {N A S : List HTree} (h : MInv f e nm N A S)
    (b : Bool) (hS : validList b S = true) (hSt : (!b || noAdjacentText S) = true)
    (hSd : S.all (fun k => kidAllowed (.element nm) k.value) = true) :
    validTree b (.node e (.element nm) (N ++ A ++ S)) = true := by
  have hentry : ∀ x ∈ N ++ A, x.value.category ≠ .normal := by
    intro x hx
    rcases List.mem_append.mp hx with hx | hx
    · rw [h.sect.allNs x hx]; simp
    · rw [h.sect.allAt x hx]; simp
  have hleaf : ∀ x ∈ N ++ A, x.kids = [] := by
    intro x hx
    rcases List.mem_append.mp hx with hx | hx
    · exact h.leaf .namespaces x hx
    · exact h.leaf .attributes x hx
  simp only [validTree, Bool.and_eq_true]
  refine ⟨⟨⟨⟨⟨?_, h.sect.ordered⟩, ?_⟩, ?_⟩, ?_⟩, ?_⟩
  · rw [List.all_append, Bool.and_eq_true]
    refine ⟨?_, hSd⟩
    rw [List.all_eq_true]
    intro x hx
    have := hentry x hx
    cases hv : x.value <;> simp_all [kidAllowed, Value.isDocument, Value.category]
  · exact h.sect.keysUnique_at.mpr (h.uniq .attributes)
  · exact h.sect.keysUnique_ns.mpr (h.uniq .namespaces)
  · rw [noAdjacentText_entries (N ++ A) S hentry]; exact hSt
  · rw [validList_append, Bool.and_eq_true]
    exact ⟨validList_of_forall b _ (fun x hx => validTree_leaf b x (hleaf x hx)), hS⟩

/-- What validity of the old element says about its normal children. -/
theorem normal_part_valid {f : Forest} {e nm : Nat} {N A S : List HTree} (h : MInv f e nm N A S)
    (b : Bool) (hv : validList b f.roots = true) :
    validList b S = true ∧ (!b || noAdjacentText S) = true ∧
    S.all (fun k => kidAllowed (.element nm) k.value) = true := by
  have hentry : ∀ x ∈ N ++ A, x.value.category ≠ .normal := by
    intro x hx
    rcases List.mem_append.mp hx with hx | hx
    · rw [h.sect.allNs x hx]; simp
    · rw [h.sect.allAt x hx]; simp
  have ht := validList_findList? b e f.roots _ hv h.loc.get
  simp only [validTree, Bool.and_eq_true] at ht
  obtain ⟨⟨⟨⟨⟨h1, _⟩, _⟩, _⟩, h5⟩, h6⟩ := ht
  rw [validList_append, Bool.and_eq_true] at h6
  rw [List.all_append, Bool.and_eq_true] at h1
  rw [noAdjacentText_entries (N ++ A) S hentry] at h5
  exact ⟨h6.2, h5, h1.2⟩

/-! ### The invariant after a step -/

theorem validList_filter (b : Bool) (p : HTree → Bool) (l : List HTree)
    (h : validList b l = true) : validList b (l.filter p) = true := by
  apply validList_of_forall
  intro x hx
  exact validList_mem' b l h x (List.mem_filter.mp hx).1

/-- A step whose untouched roots `roots0` are valid, with distinct handles, and contain the
    element as before, preserves `Forest.Inv`. -/
theorem inv_of_step {f f' : Forest} {e nm : Nat} {N A S roots0 s' : List HTree} {k : MapKind}
    (hi : f.Inv) (h : MInv f e nm N A S) (st : Step f f' e nm N A S k roots0 s')
    (hv0 : validList (!f.everOff) roots0 = true) (hnd0 : (handlesList roots0).Nodup)
    (hg0 : findList? e roots0 = some (.node e (.element nm) (N ++ A ++ S))) : f'.Inv := by
  have hst := st.state
  have h' := st.inv
  obtain ⟨hS, hSt, hSd⟩ := normal_part_valid h _ hi.valid
  have hnew := validTree_of_minv h' _ hS hSt hSd
  rw [setSec_kids] at hnew
  have hval : validList (!f.everOff) (withKids roots0 e (preK k N ++ s' ++ postK k A S)) = true :=
    validList_withKids _ e _ _ _ hnew roots0 hnd0 hg0 hv0
  refine ⟨?_, h'.loc.nodup, h'.below, ?_, ?_⟩
  · rw [hst]; exact hi.notCorrupt
  · rw [hst]; exact hval
  · rw [hst]; exact hi.consOn

end Fmap
end XotModel

namespace XotModel
namespace Fmap
open HTree
open Forest (MapKind entryKey mapChildren)

theorem inv_of_step_same {f f' : Forest} {e nm : Nat} {N A S s' : List HTree} {k : MapKind}
    (hi : f.Inv) (h : MInv f e nm N A S) (st : Step f f' e nm N A S k f.roots s') : f'.Inv :=
  inv_of_step hi h st hi.valid hi.nodup h.loc.get

theorem mapInsert_inv (f : Forest) (hi : f.Inv) (k : MapKind) (e : Nat) (entry : Value)
    (he : f.isElement e = true) (hm : k.matches entry = true) : (f.mapInsert k e entry).1.Inv := by
  obtain ⟨nm, N, A, S, h⟩ := minv_of_inv f e hi he
  obtain ⟨s', st, _⟩ := mapInsert_step h k entry hm
  exact inv_of_step_same hi h st

theorem mapRemove_inv (f : Forest) (hi : f.Inv) (k : MapKind) (e key : Nat)
    (he : f.isElement e = true) : (f.mapRemove k e key).1.Inv := by
  obtain ⟨nm, N, A, S, h⟩ := minv_of_inv f e hi he
  obtain ⟨s', st, _⟩ := mapRemove_step h k key
  exact inv_of_step_same hi h st

theorem mapClear_inv (f : Forest) (hi : f.Inv) (k : MapKind) (e : Nat)
    (he : f.isElement e = true) : (f.mapClear k e).1.Inv := by
  obtain ⟨nm, N, A, S, h⟩ := minv_of_inv f e hi he
  obtain ⟨st, _⟩ := mapClear_step h k
  exact inv_of_step_same hi h st

theorem appendEntryNode_inv (f : Forest) (hi : f.Inv) (k : MapKind) (e nd : Nat) (v : Value)
    (he : f.isElement e = true) (hroot : f.isRoot nd = true) (hval : f.value? nd = some v)
    (hm : k.matches v = true) : (f.appendEntryNode k e nd).1.Inv := by
  obtain ⟨nm, N, A, S, h⟩ := minv_of_inv f e hi he
  have hleaf := leafRoot_of_inv f hi k nd v hroot hval hm
  obtain ⟨s', roots0, st, _, _, _, h1, h2⟩ := appendEntryNode_step h k nd v hm hleaf
  cases hn : f.mapGetNode k e (entryKey v) with
  | some n =>
    have hr : roots0 = f.roots := (h1 n hn).2.2.2
    subst hr
    exact inv_of_step_same hi h st
  | none =>
    have hr : roots0 = rootsWithout f nd := (h2 hn).2.2
    subst hr
    have h0 := located_without h.loc nd v hleaf (leafRoot_ne_elem h k nd v hm hleaf)
    exact inv_of_step hi h st (validList_filter _ _ _ hi.valid) h0.nodup h0.get

theorem newNode_inv (f : Forest) (hi : f.Inv) (v : Value) : (f.newNode v).1.Inv := by
  have hfresh : f.next ∉ f.allHandles := fun hx => Nat.lt_irrefl _ (hi.below _ hx)
  refine ⟨hi.notCorrupt, ?_, ?_, ?_, hi.consOn⟩
  · rw [allHandles_newNode]
    apply List.nodup_append.mpr
    refine ⟨hi.nodup, by simp, ?_⟩
    intro a ha b hb hab
    simp only [List.mem_singleton] at hb
    subst hab hb
    exact hfresh ha
  · intro x hx
    rw [allHandles_newNode] at hx
    simp only [newNode_eq]
    rcases List.mem_append.mp hx with hx | hx
    · exact Nat.lt_succ_of_lt (hi.below x hx)
    · simp only [List.mem_singleton] at hx; omega
  · show validList (!f.everOff) (f.roots ++ [.node f.next v []]) = true
    rw [validList_append, Bool.and_eq_true]
    exact ⟨hi.valid, by simp [validList, validTree_leaf _ (.node f.next v []) rfl]⟩

theorem isElement_newNode (f : Forest) (v : Value) (e : Nat) (he : f.isElement e = true) :
    (f.newNode v).1.isElement e = true := by
  unfold Forest.isElement Forest.value? at he ⊢
  cases hg : f.get? e with
  | none => rw [hg] at he; simp at he
  | some t =>
    have : (f.newNode v).1.get? e = some t := findList?_append_left e f.roots _ _ hg
    rw [this]
    rw [hg] at he
    exact he

theorem op_inv (f : Forest) (hi : f.Inv) (e : Nat) (he : f.isElement e = true) (op : MapOp)
    (hwf : op.wf = true) : (op.run e f).1.Inv := by
  cases op with
  | insert k v => exact mapInsert_inv f hi k e v he hwf
  | remove k key => exact mapRemove_inv f hi k e key he
  | clear k => exact mapClear_inv f hi k e he
  | insertNode k v =>
    have hi1 := newNode_inv f hi v
    have he1 := isElement_newNode f v e he
    have hroot : (f.newNode v).1.isRoot f.next = true := by
      simp [Forest.isRoot, newNode_eq, HTree.handle]
    have hval : (f.newNode v).1.value? f.next = some v := by
      have hg : (f.newNode v).1.get? f.next = some (.node f.next v []) :=
        findList?_direct _ hi1.nodup (.node f.next v []) (by simp [newNode_eq])
      simp [Forest.value?, hg, HTree.value]
    exact appendEntryNode_inv (f.newNode v).1 hi1 k e f.next v he1 hroot hval hwf

theorem runOps_inv (e : Nat) : ∀ (ops : List MapOp) (f : Forest), f.Inv → f.isElement e = true →
    (∀ op ∈ ops, op.wf = true) → (runOps e f ops).1.Inv
  | [], f => fun hi _ _ => hi
  | op :: ops, f => by
    intro hi he hwf
    have hi1 := op_inv f hi e he op (hwf op List.mem_cons_self)
    obtain ⟨nm, N, A, S, h⟩ := minv_of_inv f e hi he
    obtain ⟨N', A', h', _, _⟩ := op_step h op (hwf op List.mem_cons_self)
    exact runOps_inv e ops _ hi1 h'.isElement (fun o ho => hwf o (List.mem_cons_of_mem _ ho))

/-- `detach` of an entry node keeps the invariant. -/
theorem detach_node_inv (f : Forest) (hi : f.Inv) (k : MapKind) (e hd : Nat)
    (he : f.isElement e = true) (hm : hd ∈ absNodes k f e) : (f.detach hd).1.Inv := by
  obtain ⟨nm, N, A, S, h⟩ := minv_of_inv f e hi he
  rw [h.absNodes_eq k] at hm
  obtain ⟨n, hn, hh⟩ := List.mem_map.mp hm
  obtain ⟨s', st, _, _, _⟩ := detach_node_step h k n hn
  rw [hh] at st
  have hst := st.state
  have h' := st.inv
  obtain ⟨hS, hSt, hSd⟩ := normal_part_valid h _ hi.valid
  have hnew := validTree_of_minv h' _ hS hSt hSd
  rw [setSec_kids] at hnew
  have hen : e ∉ handles n := by
    intro hx
    apply h.loc.kidsNodup.2
    have hnk : n ∈ N ++ A ++ S := by
      cases k
      · exact List.mem_append_left _ (List.mem_append_right _ hn)
      · exact List.mem_append_left _ (List.mem_append_left _ hn)
    exact mem_handlesList_of_mem _ n hnk e hx
  have hval : validList (!f.everOff)
      (withKids (f.roots ++ [n]) e (preK k N ++ s' ++ postK k A S)) = true := by
    unfold withKids
    rw [mapAtList_append]
    simp only [mapAtList, mapAt_not_mem e _ n hen]
    rw [validList_append, Bool.and_eq_true]
    refine ⟨validList_withKids _ e _ _ _ hnew f.roots hi.nodup h.loc.get hi.valid, ?_⟩
    simp [validList, validTree_leaf _ n (h.leaf k n hn)]
  refine ⟨?_, h'.loc.nodup, h'.below, ?_, ?_⟩
  · rw [hst]; exact hi.notCorrupt
  · rw [hst]; exact hval
  · rw [hst]; exact hi.consOn

end Fmap
end XotModel
