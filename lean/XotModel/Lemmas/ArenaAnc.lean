/-
  XotModel.Lemmas.ArenaAnc — walking up the `parent` pointers of a well-formed arena: the chain
  of ancestors of a live node exists, has no repetition, hence at most `count` members
  (pigeonhole), so the fuel `count + 1` of `ancestors().any(..)` and the limit of the
  `ancestors` iterator are never exhausted; the walk yields exactly that chain.
-/
import XotModel.Lemmas.ArenaLinkRep

namespace XotModel
namespace Arena

/-- A list of distinct numbers below `n` has at most `n` members. -/
theorem nodup_bounded : ∀ (n : Nat) (l : List Nat), l.Nodup → (∀ x ∈ l, x < n) → l.length ≤ n
  | 0, l, _, hb => by
    cases l with
    | nil => simp
    | cons x xs => exact absurd (hb x (by simp)) (by omega)
  | n + 1, l, hn, hb => by
    have h1 : (l.erase n).Nodup := hn.erase n
    have h2 : ∀ x ∈ l.erase n, x < n := by
      intro x hx
      have hx' := (List.Nodup.mem_erase_iff hn).mp hx
      have := hb x hx'.2
      omega
    have h3 := nodup_bounded n (l.erase n) h1 h2
    by_cases hm : n ∈ l
    · rw [List.length_erase_of_mem hm] at h3; omega
    · rw [List.erase_of_not_mem hm] at h3; omega

/-- `l` is the chain `c, parent c, parent (parent c), …` up to a parentless node. -/
inductive UpChain (par : Nat → Option Nat) : Nat → List Nat → Prop where
  | root {c : Nat} : par c = none → UpChain par c [c]
  | step {c q : Nat} {l : List Nat} : par c = some q → UpChain par q l → UpChain par c (c :: l)

theorem UpChain.mem_iff {par : Nat → Option Nat} {c : Nat} {l : List Nat} (h : UpChain par c l) (t : Nat) :
    t ∈ l ↔ Reach par c t := by
  induction h with
  | @root c hc =>
    constructor
    · intro hm; simp at hm; subst hm; exact .refl _
    · intro hr
      cases hr with
      | refl => simp
      | step hp _ => rw [hc] at hp; cases hp
  | @step c q l hc _ ih =>
    constructor
    · intro hm
      rcases List.mem_cons.mp hm with h | h
      · subst h; exact .refl _
      · exact .step hc (ih.mp h)
    · intro hr
      cases hr with
      | refl => simp
      | step hp hr' =>
        rw [hc] at hp; cases hp
        exact List.mem_cons_of_mem _ (ih.mpr hr')

theorem UpChain.head {par : Nat → Option Nat} {c : Nat} {l : List Nat} (h : UpChain par c l) :
    ∃ rest, l = c :: rest := by
  cases h with
  | root _ => exact ⟨[], rfl⟩
  | step _ _ => exact ⟨_, rfl⟩

/-- The chain exists and is short (fuel argument with the set of nodes already passed). -/
theorem Rep.upChain_aux {a : Arena} {g : Shape} (r : Rep a g) :
    ∀ (fuel : Nat) (path : List Nat) (c : Nat), Live a c → path.Nodup →
      (∀ v ∈ path, v < a.nodes.length ∧ ∃ v', g.par v = some v' ∧ Reach g.par v' c) →
      a.nodes.length ≤ fuel + path.length →
      ∃ l, UpChain g.par c l ∧ l.length ≤ fuel := by
  intro fuel
  induction fuel with
  | zero =>
    intro path c hc hnd hinv hlen
    exfalso
    obtain ⟨s, hs, _⟩ := hc
    have hcn := lt_of_slot hs
    have hcp : c ∉ path := by
      intro hm
      obtain ⟨_, v', hv', hr⟩ := hinv c hm
      exact r.acyclic c v' hv' hr
    have := nodup_bounded a.nodes.length (c :: path) (List.nodup_cons.mpr ⟨hcp, hnd⟩) (by
      intro x hx
      rcases List.mem_cons.mp hx with h | h
      · subst h; exact hcn
      · exact (hinv x h).1)
    simp at this
    omega
  | succ n ih =>
    intro path c hc hnd hinv hlen
    cases hp : g.par c with
    | none => exact ⟨[c], .root hp, by simp⟩
    | some q =>
      have hq : Live a q := (r.live_of_par hp).2
      obtain ⟨s, hs, _⟩ := hc
      have hcn := lt_of_slot hs
      have hcp : c ∉ path := by
        intro hm
        obtain ⟨_, v', hv', hr⟩ := hinv c hm
        exact r.acyclic c v' hv' hr
      obtain ⟨l, hl, hlen'⟩ := ih (c :: path) q hq (List.nodup_cons.mpr ⟨hcp, hnd⟩) (by
        intro v hv
        rcases List.mem_cons.mp hv with h | h
        · subst h; exact ⟨hcn, q, hp, .refl _⟩
        · obtain ⟨h1, v', hv', hr⟩ := hinv v h
          exact ⟨h1, v', hv', hr.trans (.single hp)⟩) (by simp; omega)
      exact ⟨c :: l, .step hp hl, by simp; omega⟩

theorem Rep.upChain {a : Arena} {g : Shape} (r : Rep a g) (c : Nat) (hc : Live a c) :
    ∃ l, UpChain g.par c l ∧ l.length ≤ a.nodes.length :=
  r.upChain_aux a.nodes.length [] c hc List.nodup_nil (by intro v hv; cases hv) (by simp)

/-- `self.ancestors(arena).any(|n| n == target)` along the chain. -/
theorem Rep.ancestorsAny_chain {a : Arena} {g : Shape} (r : Rep a g) (t : Nat) :
    ∀ (c : Nat) (l : List Nat), UpChain g.par c l → Live a c → ∀ fuel, l.length < fuel →
      ancestorsAny fuel a (some (a.idAt c)) (a.idAt t) = .done a (decide (t ∈ l)) := by
  intro c l h
  induction h with
  | @root c hc =>
    intro hl fuel hf
    obtain ⟨s, hs, h0⟩ := hl
    obtain ⟨n, rfl⟩ : ∃ n, fuel = n + 2 := ⟨fuel - 2, by simp at hf; omega⟩
    unfold ancestorsAny
    simp only []
    rw [rd_some _ _ _ _ (show a.slot (a.idAt c).index0 = some s by rw [idAt_index0]; exact hs)]
    have hpar : s.parent = none := by rw [(r.ptrs c s hs h0).parent, hc]; rfl
    by_cases htc : t = c
    · subst htc; simp
    · have : a.idAt t ≠ a.idAt c := by
        intro e
        have := congrArg NodeId.index0 e
        simp at this; exact htc this
      simp only [this, if_false, hpar]
      unfold ancestorsAny
      simp [htc]
  | @step c q l hc _ ih =>
    intro hl fuel hf
    obtain ⟨s, hs, h0⟩ := hl
    obtain ⟨n, rfl⟩ : ∃ n, fuel = n + 1 := ⟨fuel - 1, by simp at hf; omega⟩
    unfold ancestorsAny
    simp only []
    rw [rd_some _ _ _ _ (show a.slot (a.idAt c).index0 = some s by rw [idAt_index0]; exact hs)]
    have hpar : s.parent = some (a.idAt q) := by rw [(r.ptrs c s hs h0).parent, hc]; rfl
    by_cases htc : t = c
    · subst htc; simp
    · have : a.idAt t ≠ a.idAt c := by
        intro e
        have := congrArg NodeId.index0 e
        simp at this; exact htc this
      simp only [this, if_false, hpar]
      rw [ih (r.live_of_par hc).2 n (by simp at hf; omega)]
      simp [htc]

/-- The check of `checked_append` / `checked_prepend` on live ids: it ends, writes nothing, and
    answers whether `t` is `c` or an ancestor of `c`. -/
theorem Rep.ancestorsAny_spec {a : Arena} {g : Shape} (r : Rep a g) (c t : Nat) (hc : Live a c) :
    ∃ b, ancestorsAny a.fuel a (some (a.idAt c)) (a.idAt t) = .done a b ∧ (b = true ↔ Reach g.par c t) := by
  obtain ⟨l, hl, hlen⟩ := r.upChain c hc
  refine ⟨decide (t ∈ l), r.ancestorsAny_chain t c l hl hc a.fuel (by unfold fuel; omega), ?_⟩
  simp [hl.mem_iff t]

/-- The `ancestors` iterator yields the chain (the node itself first, the root last). -/
theorem Rep.ancestors_chain {a : Arena} {g : Shape} (r : Rep a g) :
    ∀ (c : Nat) (l : List Nat), UpChain g.par c l → Live a c → ∀ limit, l.length ≤ limit →
      ancestors a (a.idAt c) limit = .done a (l.map a.idAt) := by
  intro c l h
  induction h with
  | @root c hc =>
    intro hl limit hf
    obtain ⟨s, hs, h0⟩ := hl
    obtain ⟨n, rfl⟩ : ∃ n, limit = n + 1 := ⟨limit - 1, by simp at hf; omega⟩
    unfold ancestors walk
    simp only []
    rw [rd_some _ _ _ _ (show a.slot (a.idAt c).index0 = some s by rw [idAt_index0]; exact hs)]
    have hpar : s.parent = none := by rw [(r.ptrs c s hs h0).parent, hc]; rfl
    rw [hpar]
    cases n <;> simp [walk]
  | @step c q l hc _ ih =>
    intro hl limit hf
    obtain ⟨s, hs, h0⟩ := hl
    obtain ⟨n, rfl⟩ : ∃ n, limit = n + 1 := ⟨limit - 1, by simp at hf; omega⟩
    unfold ancestors walk
    simp only []
    rw [rd_some _ _ _ _ (show a.slot (a.idAt c).index0 = some s by rw [idAt_index0]; exact hs)]
    have hpar : s.parent = some (a.idAt q) := by rw [(r.ptrs c s hs h0).parent, hc]; rfl
    rw [hpar]
    have := ih (r.live_of_par hc).2 n (by simp at hf; omega)
    unfold ancestors at this
    rw [this]
    simp

end Arena
end XotModel
