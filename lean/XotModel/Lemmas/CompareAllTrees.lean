/-
  Lemmas for C13, part 12: deep_equal on ARBITRARY trees (children in any order, children under
  attribute / namespace nodes, repeated attribute names).
  * transitive: always;
  * reflexive and symmetric: as soon as, at every node, the attribute view
    (`skip_while namespace / take_while attribute`) has no repeated name (`attrViewsNodup`);
    with a repeated name both fail.
-/
import XotModel.Lemmas.CompareCanon

namespace XotModel

/-! ### `compareValue` with `==` -/

theorem attrLen_eq_attrs_length (t : Tree) : t.attrLen = t.attrs.length := by
  unfold Tree.attrLen
  rw [attrs_eq_attrPairs, attrPairs_length_of_all (mem_attributeNodes_category t)]

theorem compareAttributes_strEq_true_iff (a b : Tree) :
    compareAttributes strEq a b = true ↔
      a.attrs.length = b.attrs.length ∧ ∀ kv ∈ a.attrs, b.attrs.lookup kv.1 = some kv.2 := by
  unfold compareAttributes
  rw [attrLen_eq_attrs_length, attrLen_eq_attrs_length]
  unfold Tree.getAttribute
  by_cases hlen : a.attrs.length = b.attrs.length
  · simp only [hlen, bne_self_eq_false, Bool.false_eq_true, ↓reduceIte, List.all_eq_true, true_and]
    constructor
    · intro h kv hkv
      have := h kv hkv
      cases hl : List.lookup kv.1 b.attrs with
      | none => rw [hl] at this; simp [cmpFound] at this
      | some v => rw [hl] at this; simp [cmpFound, strEq] at this; rw [this]
    · intro h kv hkv
      rw [h kv hkv]; simp [cmpFound, strEq]
  · have : (a.attrs.length != b.attrs.length) = true := by simpa using hlen
    simp [this, hlen]

/-- `advanced_compare_value` with `==`: same value, and for elements the attribute comparison. -/
theorem compareValue_strEq_true_iff (a b : Tree) :
    compareValue strEq a b = true ↔
      a.value = b.value ∧ (a.value.isElement = true → compareAttributes strEq a b = true) := by
  obtain ⟨va, ka⟩ := a
  obtain ⟨vb, kb⟩ := b
  cases va <;> cases vb <;> simp [compareValue, Tree.value, strEq, Value.isElement]
  case pi.pi t d t' d' =>
    by_cases ht : t = t'
    · subst ht; cases d <;> cases d' <;> simp
    · simp [ht]

theorem compareAttributes_strEq_trans {a b c : Tree} (h1 : compareAttributes strEq a b = true)
    (h2 : compareAttributes strEq b c = true) : compareAttributes strEq a c = true := by
  rw [compareAttributes_strEq_true_iff] at *
  exact ⟨h1.1.trans h2.1, fun kv hkv => h2.2 _ (mem_of_lookup (h1.2 kv hkv))⟩

theorem compareValue_strEq_trans {a b c : Tree} (h1 : compareValue strEq a b = true)
    (h2 : compareValue strEq b c = true) : compareValue strEq a c = true := by
  rw [compareValue_strEq_true_iff] at *
  refine ⟨h1.1.trans h2.1, fun he => compareAttributes_strEq_trans (h1.2 he) (h2.2 (h1.1 ▸ he))⟩

theorem compareAttributes_strEq_refl {a : Tree} (h : keysNodup a.attrs) : compareAttributes strEq a a = true := by
  rw [compareAttributes_strEq_true_iff]
  exact ⟨rfl, fun kv hkv => lookup_of_mem h hkv⟩

theorem compareValue_strEq_refl {a : Tree} (h : keysNodup a.attrs) : compareValue strEq a a = true := by
  rw [compareValue_strEq_true_iff]
  exact ⟨rfl, fun _ => compareAttributes_strEq_refl h⟩

theorem compareAttributes_strEq_symm {a b : Tree} (ha : keysNodup a.attrs) (hb : keysNodup b.attrs)
    (h : compareAttributes strEq a b = true) : compareAttributes strEq b a = true := by
  rw [compareAttributes_strEq_true_iff] at *
  exact (attrs_lookup_iff_perm hb ha).mpr ((attrs_lookup_iff_perm ha hb).mp h).symm

theorem compareValue_strEq_symm' {a b : Tree} (ha : keysNodup a.attrs) (hb : keysNodup b.attrs)
    (h : compareValue strEq a b = true) : compareValue strEq b a = true := by
  rw [compareValue_strEq_true_iff] at *
  exact ⟨h.1.symm, fun he => compareAttributes_strEq_symm ha hb (h.2 (h.1 ▸ he))⟩

theorem compareValue_strEq_symm {a b : Tree} (ha : keysNodup a.attrs) (hb : keysNodup b.attrs) :
    compareValue strEq a b = compareValue strEq b a := by
  cases h1 : compareValue strEq a b
  · cases h2 : compareValue strEq b a
    · rfl
    · rw [compareValue_strEq_symm' hb ha h2] at h1; cases h1
  · exact (compareValue_strEq_symm' ha hb h1).symm

/-! ### Forests -/

mutual
theorem nodeEqv_trans : ∀ (x y z : FNode), nodeEqv strEq x y = true → nodeEqv strEq y z = true →
    nodeEqv strEq x z = true
  | .mk a ka, .mk b kb, .mk c kc, h1, h2 => by
    simp only [nodeEqv, Bool.and_eq_true] at *
    exact ⟨compareValue_strEq_trans h1.1 h2.1, forestEqv_trans ka kb kc h1.2 h2.2⟩
theorem forestEqv_trans : ∀ (xs ys zs : List FNode), forestEqv strEq xs ys = true → forestEqv strEq ys zs = true →
    forestEqv strEq xs zs = true
  | [], [], [], _, _ => rfl
  | [], [], _ :: _, _, h2 => by simp [forestEqv] at h2
  | [], _ :: _, _, h1, _ => by simp [forestEqv] at h1
  | _ :: _, [], _, h1, _ => by simp [forestEqv] at h1
  | _ :: _, _ :: _, [], _, h2 => by simp [forestEqv] at h2
  | x :: xs, y :: ys, z :: zs, h1, h2 => by
    simp only [forestEqv, Bool.and_eq_true] at *
    exact ⟨nodeEqv_trans x y z h1.1 h2.1, forestEqv_trans xs ys zs h1.2 h2.2⟩
end

/-- Every node of the forest has an attribute view without repeated names. -/
def FNode.ok : FNode → Prop
  | .mk o ks => keysNodup o.attrs ∧ okList ks
where
  okList : List FNode → Prop
    | [] => True
    | k :: ks => FNode.ok k ∧ okList ks

theorem okList_append (a b : List FNode) : FNode.ok.okList (a ++ b) ↔ FNode.ok.okList a ∧ FNode.ok.okList b := by
  induction a with
  | nil => simp [FNode.ok.okList]
  | cons x xs ih => simp [FNode.ok.okList, ih, and_assoc]

mutual
theorem nodeEqv_refl : ∀ (x : FNode), x.ok → nodeEqv strEq x x = true
  | .mk a ka, h => by
    simp only [nodeEqv, Bool.and_eq_true]
    exact ⟨compareValue_strEq_refl h.1, forestEqv_refl ka h.2⟩
theorem forestEqv_refl : ∀ (xs : List FNode), FNode.ok.okList xs → forestEqv strEq xs xs = true
  | [], _ => rfl
  | x :: xs, h => by
    simp only [forestEqv, Bool.and_eq_true]
    exact ⟨nodeEqv_refl x h.1, forestEqv_refl xs h.2⟩
end

mutual
theorem nodeEqv_symm : ∀ (x y : FNode), x.ok → y.ok → nodeEqv strEq x y = nodeEqv strEq y x
  | .mk a ka, .mk b kb, hx, hy => by
    simp only [nodeEqv, compareValue_strEq_symm hx.1 hy.1, forestEqv_symm ka kb hx.2 hy.2]
theorem forestEqv_symm : ∀ (xs ys : List FNode), FNode.ok.okList xs → FNode.ok.okList ys →
    forestEqv strEq xs ys = forestEqv strEq ys xs
  | [], [], _, _ => rfl
  | [], _ :: _, _, _ => rfl
  | _ :: _, [], _, _ => rfl
  | x :: xs, y :: ys, hx, hy => by
    simp only [forestEqv, nodeEqv_symm x y hx.1 hy.1, forestEqv_symm xs ys hx.2 hy.2]
end

/-! ### The hypothesis on trees -/

/-- At every node below (and including) `t` the attribute view has no repeated name.  Nothing is
    asked about the order of the children or about children of attribute / namespace nodes. -/
def Tree.attrViewsNodup : Tree → Bool
  | .node v ks => decide (((Tree.node v ks).attrs.map (·.1)).Nodup) && viewsList ks
where
  viewsList : List Tree → Bool
    | [] => true
    | k :: ks => Tree.attrViewsNodup k && viewsList ks

mutual
theorem proj_ok (f : NodeFilter) : ∀ t : Tree, t.attrViewsNodup = true → FNode.ok.okList (proj f t)
  | .node v ks => by
    intro h
    simp only [Tree.attrViewsNodup, Bool.and_eq_true, decide_eq_true_eq] at h
    have hk := projList_ok f ks h.2
    simp only [proj]
    split
    · exact ⟨⟨h.1, hk⟩, trivial⟩
    · exact hk
theorem projList_ok (f : NodeFilter) : ∀ ks : List Tree, Tree.attrViewsNodup.viewsList ks = true →
    FNode.ok.okList (projList f ks)
  | [] => fun _ => trivial
  | k :: ks => by
    intro h
    simp only [Tree.attrViewsNodup.viewsList, Bool.and_eq_true] at h
    simp only [projList, okList_append]
    exact ⟨proj_ok f k h.1, projList_ok f ks h.2⟩
end

theorem attrViewsNodup_root {t : Tree} (h : t.attrViewsNodup = true) : keysNodup t.attrs := by
  obtain ⟨v, ks⟩ := t
  simp only [Tree.attrViewsNodup, Bool.and_eq_true, decide_eq_true_eq] at h
  exact h.1

/-- A structurally valid tree satisfies the hypothesis. -/
theorem attrViewsNodup_of_valid (t : Tree) : t.valid = true → t.attrViewsNodup = true := by
  induction t using Tree.induct_mem with
  | h v ks ih =>
    intro hv
    obtain ⟨ho, hn, _, hk⟩ := valid_node hv
    simp only [Tree.attrViewsNodup, Bool.and_eq_true, decide_eq_true_eq]
    refine ⟨?_, ?_⟩
    · rw [attrs_of_ordered ho]; simpa [attrNamesNodup, keysNodup] using hn
    · have : ∀ l : List Tree, (∀ k ∈ l, k.attrViewsNodup = true) → Tree.attrViewsNodup.viewsList l = true := by
        intro l
        induction l with
        | nil => intro _; rfl
        | cons x xs ihx =>
          intro hl
          simp only [Tree.attrViewsNodup.viewsList, Bool.and_eq_true]
          exact ⟨hl x List.mem_cons_self, ihx (fun y hy => hl y (List.mem_cons_of_mem _ hy))⟩
      exact this ks (fun k hk' => ih k hk' (hk k hk'))

/-! ### deep_equal on arbitrary trees -/

theorem deepEqual_cases (a b : Tree) :
    (a.value.isNormal = true ∧ b.value.isNormal = true ∧
        deepEqual a b = forestEqv strEq (proj (fun _ => true) a) (proj (fun _ => true) b)) ∨
    ((¬ a.value.isNormal = true ∨ ¬ b.value.isNormal = true) ∧ deepEqual a b = compareValue strEq a b) := by
  unfold deepEqual
  by_cases ha : a.value.isNormal = true
  · by_cases hb : b.value.isNormal = true
    · exact Or.inl ⟨ha, hb, advancedDeepEqual_eq _ _ _ _ ha hb⟩
    · exact Or.inr ⟨Or.inr hb, advancedDeepEqual_abnormal _ _ _ _ (Or.inr hb)⟩
  · exact Or.inr ⟨Or.inl ha, advancedDeepEqual_abnormal _ _ _ _ (Or.inl ha)⟩

/-- A true answer relates nodes of the same normality. -/
theorem deepEqual_isNormal {a b : Tree} (h : deepEqual a b = true) : a.value.isNormal = b.value.isNormal := by
  rcases deepEqual_cases a b with ⟨ha, hb, _⟩ | ⟨_, he⟩
  · rw [ha, hb]
  · rw [he, compareValue_strEq_true_iff] at h
    rw [h.1]

theorem deepEqual_trans_all (a b c : Tree) (hab : deepEqual a b = true) (hbc : deepEqual b c = true) :
    deepEqual a c = true := by
  have n1 := deepEqual_isNormal hab
  have n2 := deepEqual_isNormal hbc
  rcases deepEqual_cases a b with ⟨ha, hb, e1⟩ | ⟨hn, e1⟩
  · have hc : c.value.isNormal = true := by rw [← n2]; exact hb
    rcases deepEqual_cases b c with ⟨_, _, e2⟩ | ⟨hn, _⟩
    · rcases deepEqual_cases a c with ⟨_, _, e3⟩ | ⟨hn, _⟩
      · rw [e3]; exact forestEqv_trans _ _ _ (e1 ▸ hab) (e2 ▸ hbc)
      · rcases hn with h | h <;> contradiction
    · rcases hn with h | h <;> contradiction
  · have ha : ¬ a.value.isNormal = true := by rcases hn with h | h; exact h; rw [n1]; exact h
    have hb : ¬ b.value.isNormal = true := by rw [← n1]; exact ha
    rcases deepEqual_cases b c with ⟨hb', _, _⟩ | ⟨_, e2⟩
    · contradiction
    · rcases deepEqual_cases a c with ⟨ha', _, _⟩ | ⟨_, e3⟩
      · contradiction
      · rw [e3]; exact compareValue_strEq_trans (e1 ▸ hab) (e2 ▸ hbc)

theorem deepEqual_refl_all (a : Tree) (h : a.attrViewsNodup = true) : deepEqual a a = true := by
  rcases deepEqual_cases a a with ⟨_, _, e⟩ | ⟨_, e⟩
  · rw [e]; exact forestEqv_refl _ (proj_ok _ a h)
  · rw [e]; exact compareValue_strEq_refl (attrViewsNodup_root h)

theorem deepEqual_symm_all (a b : Tree) (ha : a.attrViewsNodup = true) (hb : b.attrViewsNodup = true) :
    deepEqual a b = deepEqual b a := by
  rcases deepEqual_cases a b with ⟨na, nb, e1⟩ | ⟨hn, e1⟩
  · rcases deepEqual_cases b a with ⟨_, _, e2⟩ | ⟨hn, _⟩
    · rw [e1, e2]; exact forestEqv_symm _ _ (proj_ok _ a ha) (proj_ok _ b hb)
    · rcases hn with h | h <;> contradiction
  · rcases deepEqual_cases b a with ⟨nb, na, _⟩ | ⟨_, e2⟩
    · rcases hn with h | h <;> contradiction
    · rw [e1, e2]; exact compareValue_strEq_symm (attrViewsNodup_root ha) (attrViewsNodup_root hb)

end XotModel
