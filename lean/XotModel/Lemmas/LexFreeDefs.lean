/-
  XotModel.Lemmas.LexFreeDefs — lexical layout as data (C02: "either quote style; arbitrary in-tag
  white space; optional XML declaration or BOM").

  `LToken` = a token plus the layout freedom the XML grammar leaves when writing it:
      lead    white space written BEFORE the token
                attribute         before the name (at least one character)
                `>` / `/>`        before it (any)
                comment, PI, the root's start tag at the TOP LEVEL OF A DOCUMENT: the white space
                                  between top-level items, which the tokenizer skips without a token
                anywhere else     must be empty (white space in content is character data)
      ws1     attribute: before `=`;  end tag: between the name and `>`;
              PI: between target and content (at least one character), or before `?>`
      ws2     attribute: after `=`
      single  attribute: `'…'` instead of `"…"`
  White space = blank, TAB, LF, CR (`isXmlSpace`; the tokenizer does not normalise line ends, a raw
  CR inside a tag is white space like the others).  `text`, `cdata`, `comment` and start-tag names
  have no freedom.  The canonical spelling (`renderTokens`) is the instance: lead = one blank for
  attributes, ws1 = one blank for PIs with content, everything else empty, double quotes.

  A document (`LDoc`) adds: an optional BOM, an optional XML declaration with its own layout
  (`LDecl`), white space after the last top-level item.

  `LexOKL` / `LDoc.ok` = `LexOK` with the quote-dependent value condition (no `<`, not the quote
  actually used) and the conditions on the layout strings.
-/
import XotModel.Lemmas.LexCanon
import XotModel.Lemmas.LexReadAs

namespace XotModel

open XotModel.Lex.Canon

/-- A string of XML white space (blank, TAB, LF, CR), possibly empty. -/
def isWs (w : Str) : Bool := w.all isXmlSpace

/-- The quote character of an attribute value / pseudo-attribute. -/
def quoteChar (single : Bool) : Char := if single then '\'' else '"'

/-- A token with its layout. Fields that have no meaning for the token kind are ignored. -/
structure LToken where
  token : Token
  lead : Str := []
  ws1 : Str := []
  ws2 : Str := []
  single : Bool := false
  deriving Repr, DecidableEq, Inhabited

/-- The token as written, without the white space in front of it. -/
def LToken.body (lt : LToken) : Str :=
  match lt.token with
  | .attribute p l v _ =>
    tokQName p.text l.text ++
      (lt.ws1 ++ '=' :: (lt.ws2 ++ quoteChar lt.single :: (v.text ++ [quoteChar lt.single])))
  | .elementEnd (.close p l) _ => '<' :: '/' :: (tokQName p.text l.text ++ (lt.ws1 ++ ['>']))
  | .pi t none _ => '<' :: '?' :: (t.text ++ (lt.ws1 ++ ['?', '>']))
  | .pi t (some c) _ => '<' :: '?' :: (t.text ++ (lt.ws1 ++ (c.text ++ ['?', '>'])))
  | t => renderToken t

/-- One token as written. -/
def renderLT (lt : LToken) : Str := lt.lead ++ lt.body

/-- A token list as written with the given layout. -/
def renderL (lts : List LToken) : Str := lts.flatMap renderLT

/-- Per-token side conditions: `Token.lexOK` with the value condition for the quote actually used,
    plus: the layout strings are white space, a PI with content has white space in front of the
    content, `<?xml` followed by white space is not a PI. -/
def LToken.okL (lt : LToken) : Bool :=
  isWs lt.lead &&
  (match lt.token with
   | .attribute p l v _ =>
     qnameOK p.text l.text && isWs lt.ws1 && isWs lt.ws2 &&
       v.text.all (fun c => isXmlChar c && c != quoteChar lt.single && c != '<')
   | .elementEnd (.close p l) _ => qnameOK p.text l.text && isWs lt.ws1
   | .pi t none _ => nameOK t.text && isWs lt.ws1 && (lt.ws1.isEmpty || t.text != ['x', 'm', 'l'])
   | .pi t (some c) sp => (Token.pi t (some c) sp).lexOK && isWs lt.ws1 && !lt.ws1.isEmpty
   | t => t.lexOK)

/-- Where white space in front of a token is allowed / required. -/
def leadOK : LexCtx → LToken → Bool
  | .inTag _, lt => (match lt.token with | .attribute _ _ _ _ => !lt.lead.isEmpty | _ => true)
  | .content _, lt => lt.lead.isEmpty
  | .prolog, _ => true
  | .after, _ => true

def leadsOK (frag : Bool) : LexCtx → List LToken → Bool
  | _, [] => true
  | ctx, lt :: rest => leadOK ctx lt && leadsOK frag (ctxStep frag ctx lt.token) rest

/-- White space after the last token: only at the top level of a document. -/
def trailOK (frag : Bool) (ctx : LexCtx) (ts : List Token) (trail : Str) : Bool :=
  isWs trail &&
    (trail.isEmpty || (match ctxAfter frag ctx ts with | .prolog => true | .after => true | _ => false))

/-- The lexical side conditions on a token list with layout (`frag = true`: `parse_fragment`). -/
def LexOKL (frag : Bool) (lts : List LToken) : Bool :=
  lts.all LToken.okL && lexNest frag (LexCtx.init frag) (lts.map LToken.token) &&
    leadsOK frag (LexCtx.init frag) lts

def Mode.isFragment : Mode → Bool
  | .fragment => true
  | .document => false

/-! ### The XML declaration and the document -/

/-- The layout of `name = "value"` inside the XML declaration. -/
structure EqLayout where
  before : Str := []
  after : Str := []
  single : Bool := false
  deriving Repr, DecidableEq, Inhabited

def EqLayout.render (L : EqLayout) (val : Str) : Str :=
  L.before ++ '=' :: (L.after ++ quoteChar L.single :: (val ++ [quoteChar L.single]))

def EqLayout.ok (L : EqLayout) : Bool := isWs L.before && isWs L.after

/-- `<?xml version="1.N" [encoding="…"] [standalone="yes|no"] ?>` with its layout: `w0` after
    `<?xml `, `wEnc` / `wSa` in front of `encoding` / `standalone` (at least one character each),
    `wEnd` in front of `?>`. -/
structure LDecl where
  /-- the digits after `1.` -/
  minor : Str := ['0']
  encoding : Option Str := none
  standalone : Option Bool := none
  w0 : Str := []
  vEq : EqLayout := {}
  wEnc : Str := [' ']
  eEq : EqLayout := {}
  wSa : Str := [' ']
  sEq : EqLayout := {}
  wEnd : Str := []
  deriving Repr, DecidableEq, Inhabited

def yesNo (b : Bool) : Str := if b then ['y', 'e', 's'] else ['n', 'o']

/-- What follows the `encoding` part (or the version, when there is none). -/
def LDecl.saPart (d : LDecl) : Str :=
  match d.standalone with
  | some b =>
    d.wSa ++ (['s', 't', 'a', 'n', 'd', 'a', 'l', 'o', 'n', 'e'] ++ (d.sEq.render (yesNo b) ++ (d.wEnd ++ ['?', '>'])))
  | none => d.wEnd ++ ['?', '>']

def LDecl.encPart (d : LDecl) : Str :=
  match d.encoding with
  | some e => d.wEnc ++ (['e', 'n', 'c', 'o', 'd', 'i', 'n', 'g'] ++ (d.eEq.render e ++ d.saPart))
  | none => d.saPart

def LDecl.render (d : LDecl) : Str :=
  ['<', '?', 'x', 'm', 'l', ' '] ++ (d.w0 ++ (['v', 'e', 'r', 's', 'i', 'o', 'n'] ++
    (d.vEq.render ('1' :: '.' :: d.minor) ++ d.encPart)))

/-- The `Declaration` token the tokenizer makes of it (positions forgotten). -/
def LDecl.token (d : LDecl) : Token :=
  .declaration ⟨'1' :: '.' :: d.minor, 0⟩ (d.encoding.map (fun e => ⟨e, 0⟩)) d.standalone ⟨[], 0⟩

/-- The characters `parse_encoding_decl` takes for an encoding name. -/
def isEncChar (c : Char) : Bool :=
  Lex.isXmlLetter c || Lex.isXmlDigit c || c == '.' || c == '-' || c == '_'

def LDecl.ok (d : LDecl) : Bool :=
  d.minor.all Lex.isXmlDigit && isWs d.w0 && d.vEq.ok &&
    (match d.encoding with
     | some e => e.all isEncChar && isWs d.wEnc && !d.wEnc.isEmpty && d.eEq.ok
     | none => true) &&
    (match d.standalone with
     | some _ => isWs d.wSa && !d.wSa.isEmpty && d.sEq.ok
     | none => true) &&
    isWs d.wEnd

/-- A document as written: optional BOM, optional XML declaration, the tokens with their layout
    (top-level white space is the `lead` of the top-level tokens), white space at the very end. -/
structure LDoc where
  bom : Bool := false
  decl : Option LDecl := none
  items : List LToken
  trail : Str := []
  deriving Repr, DecidableEq, Inhabited

/-- The XML declaration as written (nothing when there is none). -/
def LDoc.declText (d : LDoc) : Str := match d.decl with | some x => x.render | none => []

def LDoc.render (d : LDoc) : Str :=
  (if d.bom then ['\uFEFF'] else []) ++ (d.declText ++ (renderL d.items ++ d.trail))

/-- The tokens the document stands for. -/
def LDoc.tokens (d : LDoc) : List Token :=
  (match d.decl with | some x => [x.token] | none => []) ++ d.items.map LToken.token

def LDoc.ok (d : LDoc) : Bool :=
  (match d.decl with | some x => x.ok | none => true) && LexOKL false d.items &&
    trailOK false .prolog (d.items.map LToken.token) d.trail

end XotModel
