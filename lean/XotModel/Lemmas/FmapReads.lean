/-
  Lemmas for C11, part 11: the reads (`get_node`, `get`, `contains_key`, `len`, `is_empty`,
  `keys`, `values`), key uniqueness at any node, the serialisation order (`Tree.nsDecls`,
  `Tree.attrs` of the erased element), and the frame of a step.
-/
import XotModel.Lemmas.FmapOps4

namespace XotModel
namespace Fmap
open HTree
open Forest (MapKind entryKey mapChildren)

/-! ### Reads -/

theorem lookup_map_entryPair (cs : List HTree) (key : Nat) :
    (cs.map entryPair).lookup key =
      (cs.find? (fun c => entryKey c.value == key)).map (fun c => payloadOf c.value) := by
  induction cs with
  | nil => rfl
  | cons c cs ih =>
    simp only [List.map_cons, List.find?_cons]
    by_cases hk : entryKey c.value = key
    · simp [entryPair, hk]
    · have h1 : (key == entryKey c.value) = false := by
        simp only [beq_eq_false_iff_ne, ne_eq]; exact fun h => hk h.symm
      have h2 : (entryKey c.value == key) = false := by simpa using hk
      simp only [entryPair, List.lookup_cons, h1, h2]
      exact ih

theorem get_eq (f : Forest) (k : MapKind) (e key : Nat) :
    (f.mapGetNode k e key).map (fun c => payloadOf c.value) = omGet (abs k f e) key := by
  unfold Forest.mapGetNode Fmap.abs absT omGet
  cases f.get? e with
  | none => rfl
  | some t => simp only; rw [lookup_map_entryPair]

theorem containsKey_eq (f : Forest) (k : MapKind) (e key : Nat) :
    (f.mapGetNode k e key).isSome = omContainsKey (abs k f e) key := by
  unfold omContainsKey
  rw [← get_eq]
  cases f.mapGetNode k e key <;> rfl

theorem getNode_mem (f : Forest) (k : MapKind) (e key : Nat) (n : HTree)
    (h : f.mapGetNode k e key = some n) :
    n.handle ∈ absNodes k f e ∧ entryKey n.value = key := by
  unfold Forest.mapGetNode at h
  unfold absNodes
  cases hg : f.get? e with
  | none => rw [hg] at h; cases h
  | some t =>
    rw [hg] at h
    simp only at h ⊢
    exact ⟨List.mem_map.mpr ⟨n, List.mem_of_find?_eq_some h, rfl⟩,
      by simpa using List.find?_some h⟩

/-- What `showMap` (the driver's `map_read`) prints, in terms of the reference map. -/
theorem reads_eq (f : Forest) (k : MapKind) (e : Nat) (t : HTree) (h : f.get? e = some t) :
    (mapChildren k t).length = omLen (abs k f e) ∧
    (mapChildren k t).isEmpty = omIsEmpty (abs k f e) ∧
    (mapChildren k t).map (fun c => entryKey c.value) = omKeys (abs k f e) ∧
    (mapChildren k t).map (fun c => payloadOf c.value) = omValues (abs k f e) ∧
    (mapChildren k t).map (·.handle) = absNodes k f e := by
  unfold Fmap.abs absT absNodes omLen omIsEmpty omKeys omValues
  rw [h]
  simp only [List.length_map, List.map_map]
  refine ⟨trivial, ?_, rfl, rfl, trivial⟩
  cases mapChildren k t <;> rfl

/-! ### Unique keys, at any node -/

theorem unique_keys_of_inv (f : Forest) (hi : f.Inv) (k : MapKind) (e : Nat) :
    omWf (abs k f e) := by
  unfold omWf omKeys Fmap.abs absT
  cases hg : f.get? e with
  | none => simp
  | some t =>
    cases t with
    | node h v ks =>
      have hv := validList_findList? _ e f.roots _ hi.valid hg
      simp only [validTree, Bool.and_eq_true] at hv
      obtain ⟨⟨⟨⟨⟨_, ho⟩, hua⟩, hun⟩, _⟩, _⟩ := hv
      have hs := sect_of_ordered ks ho
      simp only [List.map_map]
      rw [mapChildren_eq]
      simp only [HTree.kids]
      rw [hs.kidsOf]
      cases k
      · exact hs.keysUnique_at.mp hua
      · exact hs.keysUnique_ns.mp hun

/-! ### Serialisation order: the erased element's declaration and attribute lists -/

theorem eraseList_eq_map (ks : List HTree) : eraseList ks = ks.map erase := by
  induction ks with
  | nil => rfl
  | cons k ks ih => simp [eraseList, ih]

theorem erase_value (t : HTree) : (erase t).value = t.value := by
  cases t; rfl

theorem erase_kids (t : HTree) : (erase t).kids = t.kids.map erase := by
  cases t with
  | node h v ks => simp [erase, Tree.kids, HTree.kids, eraseList_eq_map]

theorem nsDecls_erase (t : HTree) :
    (erase t).nsDecls = (absT .namespaces t).filterMap
      (fun p => match p.2 with | .ns n => some (p.1, n) | _ => none) := by
  unfold Tree.nsDecls Tree.namespaceNodes absT
  rw [erase_kids, List.takeWhile_map, List.filterMap_map, List.filterMap_map]
  have hp : ((fun k : Tree => k.value.category == Category.namespace) ∘ erase) =
      (fun c : HTree => c.value.category == Category.namespace) := by
    funext c; simp [erase_value]
  rw [hp]
  show List.filterMap _ (mapChildren .namespaces t) = _
  congr 1
  funext c
  simp only [Function.comp, erase_value, entryPair]
  cases c.value <;> rfl

theorem attrs_erase (t : HTree) :
    (erase t).attrs = (absT .attributes t).filterMap
      (fun p => match p.2 with | .str s => some (p.1, s) | _ => none) := by
  unfold Tree.attrs Tree.attributeNodes absT
  rw [erase_kids, List.dropWhile_map, List.takeWhile_map, List.filterMap_map, List.filterMap_map]
  have hp : ((fun k : Tree => k.value.category == Category.namespace) ∘ erase) =
      (fun c : HTree => c.value.category == Category.namespace) := by
    funext c; simp [erase_value]
  have hq : ((fun k : Tree => k.value.category == Category.attribute) ∘ erase) =
      (fun c : HTree => c.value.category == Category.attribute) := by
    funext c; simp [erase_value]
  rw [hp, hq]
  show List.filterMap _ (mapChildren .attributes t) = _
  congr 1
  funext c
  simp only [Function.comp, erase_value, entryPair]
  cases c.value <;> rfl

/-! ### The frame of a step -/

theorem filter_not_matches_sec {N A S : List HTree} (k : MapKind)
    (s' : List HTree) (hs : ∀ x ∈ s', x.value.category = kindCat k) :
    (preK k N ++ s' ++ postK k A S).filter (fun c => !k.matches c.value) =
      (preK k N ++ postK k A S).filter (fun c => !k.matches c.value) := by
  have : s'.filter (fun c => !k.matches c.value) = [] := by
    apply List.filter_eq_nil_iff.mpr
    intro x hx
    simp [(matches_iff_cat k x.value).mpr (hs x hx)]
  simp [List.filter_append, this]

/-- Everything of the element that is not an entry of view `k` — the normal children and the
    other view's nodes — is the same after a step, and the rest of the forest is the old one. -/
theorem Step.frame {f f' : Forest} {e nm : Nat} {N A S roots0 s' : List HTree} {k : MapKind}
    (h : MInv f e nm N A S) (st : Step f f' e nm N A S k roots0 s') :
    ∃ ks ks', f.get? e = some (.node e (.element nm) ks) ∧
      f' = { f with roots := withKids roots0 e ks', next := f'.next } ∧
      ks'.filter (fun c => !k.matches c.value) = ks.filter (fun c => !k.matches c.value) := by
  refine ⟨_, _, h.loc.get, st.state, ?_⟩
  have hcat : ∀ x ∈ s', x.value.category = kindCat k := by
    intro x hx
    have := st.inv.sect.sec_cat k x
    rw [sec_setSec] at this
    exact this hx
  rw [filter_not_matches_sec k s' hcat, split_kids k N A S,
    filter_not_matches_sec k _ (h.sect.sec_cat k)]

end Fmap
end XotModel

namespace XotModel
namespace Fmap
open HTree
open Forest (MapKind entryKey mapChildren)

theorem validList_mem (b : Bool) (ks : List HTree) (hv : validList b ks = true) (r : HTree)
    (hr : r ∈ ks) : validTree b r = true := by
  induction ks with
  | nil => cases hr
  | cons k ks ih =>
    simp only [validList, Bool.and_eq_true] at hv
    rcases List.mem_cons.mp hr with rfl | hr
    · exact hv.1
    · exact ih hv.2 hr

/-- Under the invariant, a parentless attribute / namespace node is a leaf among the roots. -/
theorem leafRoot_of_inv (f : Forest) (hi : f.Inv) (k : MapKind) (nd : Nat) (v : Value)
    (hroot : f.isRoot nd = true) (hval : f.value? nd = some v) (hm : k.matches v = true) :
    HTree.node nd v [] ∈ f.roots := by
  unfold Forest.isRoot at hroot
  obtain ⟨r, hr, hh⟩ := List.any_eq_true.mp hroot
  have hh' : r.handle = nd := by simpa using hh
  have hg : f.get? r.handle = some r := findList?_direct f.roots hi.nodup r hr
  rw [hh'] at hg
  unfold Forest.value? at hval
  rw [hg] at hval
  cases r with
  | node h' v' ks =>
    simp only [HTree.handle] at hh'
    simp only [Option.map_some, HTree.value, Option.some.injEq] at hval
    subst hh' hval
    have hvt := validList_mem _ _ hi.valid _ hr
    simp only [validTree, Bool.and_eq_true] at hvt
    obtain ⟨⟨⟨⟨⟨hall, _⟩, _⟩, _⟩, _⟩, _⟩ := hvt
    cases ks with
    | nil => exact hr
    | cons c cs =>
      exfalso
      simp only [List.all_cons, Bool.and_eq_true] at hall
      cases k <;> cases v' <;> simp [MapKind.matches, kidAllowed] at hm hall

end Fmap
end XotModel
