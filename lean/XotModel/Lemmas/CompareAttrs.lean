/-
  Lemmas for C13, part 2: attribute lists as finite maps.
  `sortAttrs` is a canonical representative of a key-unique association list up to permutation;
  "same length and every entry of the first found in the second" is permutation.
-/
import XotModel.Model.Compare

namespace XotModel

abbrev Attrs := List (Nat × Str)

def keysNodup (l : Attrs) : Prop := (l.map (·.1)).Nodup

theorem keysNodup_cons {x : Nat × Str} {l : Attrs} :
    keysNodup (x :: l) ↔ (∀ y ∈ l, y.1 ≠ x.1) ∧ keysNodup l := by
  unfold keysNodup
  simp only [List.map_cons, List.nodup_cons, List.mem_map, not_exists, not_and]

/-- In a key-unique list an entry is determined by its key. -/
theorem eq_of_key_eq {l : Attrs} (h : keysNodup l) {a b : Nat × Str} (ha : a ∈ l) (hb : b ∈ l)
    (hk : a.1 = b.1) : a = b := by
  induction l with
  | nil => cases ha
  | cons x xs ih =>
    rw [keysNodup_cons] at h
    rcases List.mem_cons.mp ha with rfl | ha' <;> rcases List.mem_cons.mp hb with rfl | hb'
    · rfl
    · exact absurd hk.symm (h.1 b hb')
    · exact absurd hk (h.1 a ha')
    · exact ih h.2 ha' hb'

theorem keysNodup_perm {l₁ l₂ : Attrs} (p : l₁.Perm l₂) (h : keysNodup l₁) : keysNodup l₂ :=
  List.Perm.nodup (p.map (fun x : Nat × Str => x.1)) h

theorem nodup_of_keysNodup {l : Attrs} (h : keysNodup l) : l.Nodup := by
  induction l with
  | nil => exact List.nodup_nil
  | cons x xs ih =>
    rw [keysNodup_cons] at h
    refine List.nodup_cons.mpr ⟨fun hx => h.1 x hx rfl, ih h.2⟩

/-! ### lookup -/

theorem mem_of_lookup {l : Attrs} {k : Nat} {v : Str} (h : l.lookup k = some v) : (k, v) ∈ l := by
  induction l with
  | nil => simp at h
  | cons x xs ih =>
    obtain ⟨k', v'⟩ := x
    rw [List.lookup_cons] at h
    by_cases hk : k = k'
    · subst hk; simp at h; subst h; exact List.mem_cons_self
    · have : (k == k') = false := by simpa using hk
      rw [this] at h
      exact List.mem_cons_of_mem _ (ih h)

theorem lookup_of_mem {l : Attrs} (hl : keysNodup l) {k : Nat} {v : Str} (h : (k, v) ∈ l) :
    l.lookup k = some v := by
  induction l with
  | nil => cases h
  | cons x xs ih =>
    obtain ⟨k', v'⟩ := x
    rw [keysNodup_cons] at hl
    rw [List.lookup_cons]
    rcases List.mem_cons.mp h with heq | h'
    · cases heq; simp
    · have hne : k ≠ k' := hl.1 (k, v) h'
      have : (k == k') = false := by simpa using hne
      rw [this]; exact ih hl.2 h'

/-! ### length + inclusion = permutation -/

theorem perm_of_subset_length {l₁ l₂ : Attrs} (h₁ : l₁.Nodup) (hs : ∀ x ∈ l₁, x ∈ l₂)
    (hlen : l₁.length = l₂.length) : l₁.Perm l₂ := by
  induction l₁ generalizing l₂ with
  | nil =>
    have : l₂ = [] := List.eq_nil_of_length_eq_zero (by simpa using hlen.symm)
    subst this; exact List.Perm.refl _
  | cons x xs ih =>
    have hx : x ∈ l₂ := hs x List.mem_cons_self
    have hp : l₂.Perm (x :: l₂.erase x) := List.perm_cons_erase hx
    rw [List.nodup_cons] at h₁
    have hsub : ∀ y ∈ xs, y ∈ l₂.erase x := by
      intro y hy
      have hne : y ≠ x := fun e => h₁.1 (e ▸ hy)
      exact (List.mem_erase_of_ne hne).mpr (hs y (List.mem_cons_of_mem _ hy))
    have hl : xs.length = (l₂.erase x).length := by
      have := hp.length_eq
      simp only [List.length_cons] at this hlen
      omega
    exact ((ih h₁.2 hsub hl).cons x).trans hp.symm

/-- The comparison `advanced_compare_attributes` makes (with `==` on the values), on key-unique
    lists, is permutation. -/
theorem attrs_lookup_iff_perm {l₁ l₂ : Attrs} (h₁ : keysNodup l₁) (h₂ : keysNodup l₂) :
    (l₁.length = l₂.length ∧ ∀ kv ∈ l₁, l₂.lookup kv.1 = some kv.2) ↔ l₁.Perm l₂ := by
  constructor
  · rintro ⟨hlen, hl⟩
    exact perm_of_subset_length (nodup_of_keysNodup h₁) (fun x hx => mem_of_lookup (hl x hx)) hlen
  · intro p
    exact ⟨p.length_eq, fun kv hkv => lookup_of_mem h₂ (p.subset hkv)⟩

/-! ### sortAttrs -/

theorem insertAttr_perm (x : Nat × Str) (l : Attrs) : (insertAttr x l).Perm (x :: l) := by
  induction l with
  | nil => exact List.Perm.refl _
  | cons y ys ih =>
    unfold insertAttr
    split
    · exact List.Perm.refl _
    · exact (ih.cons y).trans (List.Perm.swap x y ys)

theorem sortAttrs_perm (l : Attrs) : (sortAttrs l).Perm l := by
  induction l with
  | nil => exact List.Perm.refl _
  | cons x xs ih => exact (insertAttr_perm x _).trans (ih.cons x)

def keyLe (a b : Nat × Str) : Prop := a.1 ≤ b.1

theorem insertAttr_sorted (x : Nat × Str) (l : Attrs) (h : l.Pairwise keyLe) :
    (insertAttr x l).Pairwise keyLe := by
  induction l with
  | nil => simp [insertAttr]
  | cons y ys ih =>
    unfold insertAttr
    rw [List.pairwise_cons] at h
    split
    · rename_i hle
      refine List.pairwise_cons.mpr ⟨?_, List.pairwise_cons.mpr h⟩
      intro z hz
      rcases List.mem_cons.mp hz with rfl | hz'
      · exact hle
      · exact Nat.le_trans hle (h.1 z hz')
    · rename_i hnle
      refine List.pairwise_cons.mpr ⟨?_, ih h.2⟩
      intro z hz
      rcases List.mem_cons.mp ((insertAttr_perm x ys).subset hz) with rfl | hz'
      · exact Nat.le_of_lt (Nat.lt_of_not_le hnle)
      · exact h.1 z hz'

theorem sortAttrs_sorted (l : Attrs) : (sortAttrs l).Pairwise keyLe := by
  induction l with
  | nil => exact List.Pairwise.nil
  | cons x xs ih => exact insertAttr_sorted x _ ih

/-- `sortAttrs` is a canonical form of key-unique lists up to permutation. -/
theorem sortAttrs_eq_iff_perm {l₁ l₂ : Attrs} (h₁ : keysNodup l₁) :
    sortAttrs l₁ = sortAttrs l₂ ↔ l₁.Perm l₂ := by
  constructor
  · intro h
    exact (sortAttrs_perm l₁).symm.trans (h ▸ sortAttrs_perm l₂)
  · intro p
    have ps : (sortAttrs l₁).Perm (sortAttrs l₂) := (sortAttrs_perm l₁).trans (p.trans (sortAttrs_perm l₂).symm)
    have hn : keysNodup (sortAttrs l₁) := keysNodup_perm (sortAttrs_perm l₁).symm h₁
    refine List.Perm.eq_of_pairwise (le := keyLe) ?_ (sortAttrs_sorted l₁) (sortAttrs_sorted l₂) ps
    intro a b ha hb hab hba
    exact eq_of_key_eq hn ha (ps.symm.subset hb) (Nat.le_antisymm hab hba)

/-- Finite-map equality, three ways. -/
theorem attrs_lookup_iff_sort {l₁ l₂ : Attrs} (h₁ : keysNodup l₁) (h₂ : keysNodup l₂) :
    (l₁.length = l₂.length ∧ ∀ kv ∈ l₁, l₂.lookup kv.1 = some kv.2) ↔ sortAttrs l₁ = sortAttrs l₂ :=
  (attrs_lookup_iff_perm h₁ h₂).trans (sortAttrs_eq_iff_perm h₁).symm

end XotModel
