/-
  Finv (C04), part 21: histories.  Every step is `Le` (all calls); every `core` step preserves
  the invariant.
-/
import XotModel.Model.FinvSpec
import XotModel.Lemmas.FinvMono2

namespace XotModel
namespace Forest

theorem setConsolidation_inv {f : Forest} (hi : f.Inv) (b : Bool) : (f.setConsolidation b).Inv := by
  obtain ⟨h1, h2, h3, h4, h5⟩ := hi
  refine ⟨h1, h2, h3, ?_, ?_⟩
  · show validList (!(f.everOff || !b)) f.roots = true
    cases b with
    | true => simpa using h4
    | false => simpa using validList_weaken' _ _ h4
  · show b = true ∨ (f.everOff || !b) = true
    cases b <;> simp

theorem le_step (f : Forest) (o : Op) : Le f (f.step o) := by
  cases o with
  | newDocument => exact le_newNode f _
  | newElement n => exact le_newNode f _
  | newText s => exact le_newNode f _
  | newComment s => exact le_newNode f _
  | newPi t d => exact le_newNode f _
  | newAttributeNode n v => exact le_newNode f _
  | newNamespaceNode p n => exact le_newNode f _
  | append p c => exact le_append f p c
  | prepend p c => exact le_prepend f p c
  | insertAfter r n => exact le_insertAfter f r n
  | insertBefore r n => exact le_insertBefore f r n
  | detach n => exact le_detach f n
  | remove n => exact le_remove f n
  | anyAppend p c => exact le_anyAppend f p c
  | appendAttributeNode p c => exact le_appendEntryNode f _ p c
  | appendNamespaceNode p c => exact le_appendEntryNode f _ p c
  | attrInsert p n v => exact le_mapInsert f _ p _
  | nsInsert p pf ns => exact le_mapInsert f _ p _
  | attrRemove p n => exact le_mapRemove f _ p n
  | nsRemove p pf => exact le_mapRemove f _ p pf
  | attrClear p => exact le_mapClear f _ p
  | nsClear p => exact le_mapClear f _ p
  | setElementName n name => exact le_setElementName f n name
  | setText n s => exact le_setText f n s
  | setComment n s => exact le_setComment f n s
  | setPiData n d => exact le_setPiData f n d
  | textContentSet n s => exact le_textContentSet f n s
  | setConsolidation b => exact le_setConsolidation f b
  | removeInsignificantWhitespace n => exact le_removeInsignificantWhitespace f n
  | replace a b => exact le_replace f a b
  | elementWrap n name => exact le_elementWrap f n name
  | elementUnwrap n => exact le_elementUnwrap f n
  | cloneNode n => exact le_cloneNode f n

theorem le_run (f : Forest) (ops : List Op) : Le f (f.run ops) := by
  unfold run
  induction ops generalizing f with
  | nil => exact Le.refl f
  | cons o ops ih => exact (le_step f o).trans (ih _)

end Forest
end XotModel
