/-
  Set-level reading of the name stack and of `namespaces_mut(node).insert`: which pairs a pushed
  frame holds, when the name checks succeed, what `insert` does to the declarations of a node.
-/
import XotModel.Lemmas.RepairWalk
import XotModel.Lemmas.Scope10

namespace XotModel.Repair
open XotModel

/-- Prefixes declared by a declaration list. -/
abbrev keys (d : List (Nat × Nat)) : List Nat := d.map Prod.fst

theorem mem_keys {d : List (Nat × Nat)} {p : Nat} : p ∈ keys d ↔ ∃ n, (p, n) ∈ d := by
  simp only [keys, List.mem_map]
  constructor
  · rintro ⟨⟨q, n⟩, h, rfl⟩; exact ⟨n, h⟩
  · rintro ⟨n, h⟩; exact ⟨(p, n), h, rfl⟩

theorem mem_pushTop (top D : List (Nat × Nat)) (p n : Nat) :
    (p, n) ∈ pushTop top D ↔ ((p, n) ∈ top ∧ p ∉ keys D) ∨ (p, n) ∈ D := by
  unfold pushTop
  cases D with
  | nil => simp
  | cons d ds =>
    simp only [List.isEmpty_cons, Bool.false_eq_true, if_false]
    exact mem_fullnameInfoNew (d :: ds) top p n

theorem elemOk_iff (ns : Nat) (top : List (Nat × Nat)) :
    elemOk ns top = true ↔ ns = Env.noNamespace ∨ ns = Env.xmlNamespace ∨ ∃ p, (p, ns) ∈ top := by
  unfold elemOk
  simp only [Bool.or_eq_true, beq_iff_eq, or_assoc]
  refine or_congr Iff.rfl (or_congr Iff.rfl ?_)
  cases h : elementPrefixByNamespace top ns with
  | none =>
    simp only [Option.isSome_none, Bool.false_eq_true, false_iff, not_exists]
    exact fun p => elementPrefixByNamespace_none h p
  | some q => simp only [Option.isSome_some, true_iff]; exact ⟨q, elementPrefixByNamespace_mem h⟩

theorem attrOk_iff (ns : Nat) (top : List (Nat × Nat)) :
    attrOk ns top = true ↔
      ns = Env.noNamespace ∨ ns = Env.xmlNamespace ∨ ∃ p, p ≠ Env.emptyPrefix ∧ (p, ns) ∈ top := by
  unfold attrOk
  simp only [Bool.or_eq_true, beq_iff_eq, or_assoc]
  refine or_congr Iff.rfl (or_congr Iff.rfl ?_)
  cases h : attributePrefixByNamespace top ns with
  | none =>
    simp only [Option.isSome_none, Bool.false_eq_true, false_iff, not_exists, not_and]
    exact fun p hp => attributePrefixByNamespace_none h p hp
  | some q =>
    simp only [Option.isSome_some, true_iff]
    exact ⟨q, (attributePrefixByNamespace_mem h).2, (attributePrefixByNamespace_mem h).1⟩

theorem hasDefault_iff (top : List (Nat × Nat)) :
    hasDefault top = true ↔ ∃ n, n ≠ Env.noNamespace ∧ (Env.emptyPrefix, n) ∈ top := by
  unfold hasDefault
  rw [List.any_eq_true]
  constructor
  · rintro ⟨⟨p, n⟩, hm, hc⟩
    simp only [Bool.and_eq_true, beq_iff_eq, bne_iff_ne, ne_eq] at hc
    obtain ⟨rfl, hn⟩ := hc
    exact ⟨n, hn, hm⟩
  · rintro ⟨n, hn, hm⟩
    exact ⟨(Env.emptyPrefix, n), hm, by simp [hn]⟩

/-! ### `insert` on the declarations of a node -/

/-- `NodeMap::insert` on the `(prefix, namespace)` view. -/
def insertDecl (p ns : Nat) : List (Nat × Nat) → List (Nat × Nat)
  | [] => [(p, ns)]
  | (q, m) :: rest => if q == p then (q, ns) :: rest else (q, m) :: insertDecl p ns rest

/-- The declarations read off a child list. -/
def declsOfKids (ks : List Tree) : List (Nat × Nat) :=
  (ks.takeWhile (fun k => k.value.category == .namespace)).filterMap fun k => match k.value with
    | .namespace p n => some (p, n)
    | _ => none

theorem nsDecls_node (v : Value) (ks : List Tree) : (Tree.node v ks).nsDecls = declsOfKids ks := rfl

theorem declsOfKids_insertNsKid (p ns : Nat) (ks : List Tree) :
    declsOfKids (insertNsKid p ns ks) = insertDecl p ns (declsOfKids ks) := by
  induction ks with
  | nil => simp [insertNsKid, declsOfKids, insertDecl, Tree.value, Value.category]
  | cons k ks ih =>
    cases k with
    | node kv kk =>
      cases kv with
      | «namespace» q m =>
        simp only [insertNsKid, Tree.value]
        by_cases hq : (q == p) = true
        · simp [hq, declsOfKids, insertDecl, Tree.value, Value.category]
        · simp only [hq, Bool.false_eq_true, if_false]
          have : declsOfKids (.node (.namespace q m) kk :: insertNsKid p ns ks) =
              (q, m) :: declsOfKids (insertNsKid p ns ks) := by
            simp [declsOfKids, Tree.value, Value.category]
          rw [this, ih]
          have : declsOfKids (.node (.namespace q m) kk :: ks) = (q, m) :: declsOfKids ks := by
            simp [declsOfKids, Tree.value, Value.category]
          rw [this]
          simp [insertDecl, hq]
      | _ => simp [insertNsKid, declsOfKids, insertDecl, Tree.value, Value.category]

theorem nsDecls_insertNamespace (p ns : Nat) (t : Tree) :
    (insertNamespace p ns t).nsDecls = insertDecl p ns t.nsDecls := by
  cases t with
  | node v ks => simp only [insertNamespace, nsDecls_node, declsOfKids_insertNsKid]

theorem mem_insertDecl (p ns : Nat) (D : List (Nat × Nat)) (hu : (keys D).Nodup) (q m : Nat) :
    (q, m) ∈ insertDecl p ns D ↔ (q ≠ p ∧ (q, m) ∈ D) ∨ (q = p ∧ m = ns) := by
  induction D with
  | nil => simp [insertDecl]
  | cons d D ih =>
    obtain ⟨r, k⟩ := d
    simp only [keys, List.map_cons, List.nodup_cons] at hu
    by_cases hr : (r == p) = true
    · have hrp : r = p := by simpa using hr
      subst hrp
      simp only [insertDecl, beq_self_eq_true, if_true, List.mem_cons, Prod.mk.injEq]
      constructor
      · rintro (⟨h1, h2⟩ | h)
        · exact Or.inr ⟨h1, h2⟩
        · have hne : q ≠ r := by
            rintro rfl
            exact hu.1 (List.mem_map_of_mem (f := Prod.fst) h)
          exact Or.inl ⟨hne, Or.inr h⟩
      · rintro (⟨hne, h | h⟩ | ⟨h1, h2⟩)
        · exact absurd h.1 hne
        · exact Or.inr h
        · exact Or.inl ⟨h1, h2⟩
    · have hrp : r ≠ p := by simpa using hr
      simp only [insertDecl, hr, Bool.false_eq_true, if_false, List.mem_cons, Prod.mk.injEq, ih hu.2]
      constructor
      · rintro (⟨h1, h2⟩ | ⟨hne, h⟩ | h)
        · exact Or.inl ⟨h1 ▸ hrp, Or.inl ⟨h1, h2⟩⟩
        · exact Or.inl ⟨hne, Or.inr h⟩
        · exact Or.inr h
      · rintro (⟨hne, h | h⟩ | h)
        · exact Or.inl h
        · exact Or.inr (Or.inl ⟨hne, h⟩)
        · exact Or.inr (Or.inr h)

theorem keys_insertDecl (p ns : Nat) (D : List (Nat × Nat)) :
    keys (insertDecl p ns D) = if p ∈ keys D then keys D else keys D ++ [p] := by
  induction D with
  | nil => simp [insertDecl, keys]
  | cons d D ih =>
    obtain ⟨r, k⟩ := d
    by_cases hr : (r == p) = true
    · have hrp : r = p := by simpa using hr
      subst hrp
      simp [insertDecl, keys]
    · have hrp : r ≠ p := by simpa using hr
      have hpr : p ≠ r := fun h => hrp h.symm
      simp only [insertDecl, hr, Bool.false_eq_true, if_false, keys, List.map_cons, List.mem_cons, hpr,
        false_or] at ih ⊢
      rw [ih]
      split <;> simp

theorem nodup_insertDecl (p ns : Nat) (D : List (Nat × Nat)) (hu : (keys D).Nodup) :
    (keys (insertDecl p ns D)).Nodup := by
  rw [keys_insertDecl]
  split
  · exact hu
  · rename_i h
    rw [List.nodup_append]
    exact ⟨hu, by simp, fun a ha b hb hab => by simp at hb; subst hb; subst hab; exact h ha⟩

/-- A list of inserts of fresh, pairwise different prefixes. -/
theorem mem_foldl_insertDecl (nd : List (Nat × Nat)) :
    ∀ (D : List (Nat × Nat)), (keys D).Nodup → (keys nd).Nodup → (∀ p ∈ keys nd, p ∉ keys D) →
      ((keys (nd.foldl (fun D d => insertDecl d.1 d.2 D) D)).Nodup ∧
        ∀ q m, (q, m) ∈ nd.foldl (fun D d => insertDecl d.1 d.2 D) D ↔ (q, m) ∈ D ∨ (q, m) ∈ nd) := by
  induction nd with
  | nil => intro D hu _ _; simp [hu]
  | cons d nd ih =>
    obtain ⟨p, ns⟩ := d
    intro D hu hn hd
    simp only [keys, List.map_cons, List.nodup_cons] at hn
    have hpD : p ∉ keys D := hd p (by simp [keys])
    have hu1 := nodup_insertDecl p ns D hu
    have hk1 : ∀ q ∈ keys nd, q ∉ keys (insertDecl p ns D) := by
      intro q hq
      rw [keys_insertDecl, if_neg hpD, List.mem_append]
      rintro (h | h)
      · exact hd q (by simp [keys] at hq ⊢; exact Or.inr hq) h
      · simp only [List.mem_singleton] at h
        subst h
        exact hn.1 hq
    obtain ⟨i1, i2⟩ := ih (insertDecl p ns D) hu1 hn.2 hk1
    refine ⟨i1, fun q m => ?_⟩
    simp only [List.foldl_cons]
    rw [i2, mem_insertDecl p ns D hu]
    simp only [List.mem_cons, Prod.mk.injEq]
    constructor
    · rintro ((⟨_, h⟩ | h) | h)
      · exact Or.inl h
      · exact Or.inr (Or.inl h)
      · exact Or.inr (Or.inr h)
    · rintro (h | h | h)
      · refine Or.inl (Or.inl ⟨?_, h⟩)
        rintro rfl
        exact hpD (mem_keys.mpr ⟨m, h⟩)
      · exact Or.inl (Or.inr h)
      · exact Or.inr h

/-! ### What `insert` leaves alone -/

theorem value_insertNamespace (p ns : Nat) (t : Tree) : (insertNamespace p ns t).value = t.value := by
  cases t; rfl

theorem value_insertNamespaces (nd : List (Nat × Nat)) (t : Tree) : (insertNamespaces nd t).value = t.value := by
  unfold insertNamespaces
  induction nd generalizing t with
  | nil => rfl
  | cons d nd ih => simp only [List.foldl_cons]; rw [ih, value_insertNamespace]

theorem nsDecls_insertNamespaces (nd : List (Nat × Nat)) (t : Tree) :
    (insertNamespaces nd t).nsDecls = nd.foldl (fun D d => insertDecl d.1 d.2 D) t.nsDecls := by
  unfold insertNamespaces
  induction nd generalizing t with
  | nil => rfl
  | cons d nd ih => simp only [List.foldl_cons]; rw [ih, nsDecls_insertNamespace]

/-- The attribute view starts after the run of namespace nodes, which `insert` extends or keeps. -/
theorem dropWhile_insertNsKid (p ns : Nat) (ks : List Tree) :
    (insertNsKid p ns ks).dropWhile (fun k => k.value.category == .namespace) =
      ks.dropWhile (fun k => k.value.category == .namespace) := by
  induction ks with
  | nil => simp [insertNsKid, Tree.value, Value.category]
  | cons k ks ih =>
    cases k with
    | node kv kk =>
      cases kv with
      | «namespace» q m =>
        simp only [insertNsKid, Tree.value]
        by_cases hq : (q == p) = true
        · simp [hq, Value.category]
        · simp only [hq, Bool.false_eq_true, if_false]
          simp only [List.dropWhile_cons, Value.category, beq_self_eq_true, if_true]
          exact ih
      | _ => simp [insertNsKid, Tree.value, Value.category]

theorem attrs_insertNamespace (p ns : Nat) (t : Tree) : (insertNamespace p ns t).attrs = t.attrs := by
  cases t with
  | node v ks =>
    simp only [insertNamespace, Tree.attrs, Tree.attributeNodes, Tree.kids, dropWhile_insertNsKid]

theorem attrs_insertNamespaces (nd : List (Nat × Nat)) (t : Tree) : (insertNamespaces nd t).attrs = t.attrs := by
  unfold insertNamespaces
  induction nd generalizing t with
  | nil => rfl
  | cons d nd ih => simp only [List.foldl_cons]; rw [ih, attrs_insertNamespace]

/-- Declarations and attributes are read off the values of the children. -/
theorem declsOfKids_congr {ks ks' : List Tree} (h : ks.map Tree.value = ks'.map Tree.value) :
    declsOfKids ks = declsOfKids ks' := by
  induction ks generalizing ks' with
  | nil => cases ks' with
    | nil => rfl
    | cons _ _ => simp at h
  | cons k ks ih =>
    cases ks' with
    | nil => simp at h
    | cons k' ks' =>
      simp only [List.map_cons, List.cons.injEq] at h
      have := ih h.2
      simp only [declsOfKids, List.takeWhile_cons, h.1] at this ⊢
      split
      · simp only [List.filterMap_cons, h.1]
        rw [this]
      · rfl

theorem attrs_congr {v : Value} {ks ks' : List Tree} (h : ks.map Tree.value = ks'.map Tree.value) :
    (Tree.node v ks).attrs = (Tree.node v ks').attrs := by
  simp only [Tree.attrs, Tree.attributeNodes, Tree.kids]
  induction ks generalizing ks' with
  | nil => cases ks' with
    | nil => rfl
    | cons _ _ => simp at h
  | cons k ks ih =>
    cases ks' with
    | nil => simp at h
    | cons k' ks' =>
      simp only [List.map_cons, List.cons.injEq] at h
      simp only [List.dropWhile_cons, h.1]
      split
      · exact ih h.2
      · -- the attribute run
        clear ih
        have hv := h.1
        have hrest := h.2
        have : ∀ (l l' : List Tree), l.map Tree.value = l'.map Tree.value →
            (l.takeWhile (fun k => k.value.category == .attribute)).filterMap
                (fun k => match k.value with | .attribute n v => some (n, v) | _ => none) =
              (l'.takeWhile (fun k => k.value.category == .attribute)).filterMap
                (fun k => match k.value with | .attribute n v => some (n, v) | _ => none) := by
          intro l
          induction l with
          | nil => intro l' hl; cases l' with
            | nil => rfl
            | cons _ _ => simp at hl
          | cons a l ihl =>
            intro l' hl
            cases l' with
            | nil => simp at hl
            | cons a' l' =>
              simp only [List.map_cons, List.cons.injEq] at hl
              simp only [List.takeWhile_cons, hl.1]
              split
              · simp only [List.filterMap_cons, hl.1]
                rw [ihl l' hl.2]
              · rfl
        exact this (k :: ks) (k' :: ks') (by simp [hv, hrest])

end XotModel.Repair
