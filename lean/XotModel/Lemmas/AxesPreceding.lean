/-
  `descendants`, `ancestors` and `preceding` of access.rs equal their document-order
  specifications.
-/
import XotModel.Lemmas.AxesFollowing

namespace XotModel.Axes

/-! ### descendants -/

theorem arenaDescendants_eq {t : Tree} {p : Path} (h : Valid t p) :
    arenaDescendants t p = (allPre t).filter (fun q => p.isPrefixOf q) := by
  rw [filter_prefix_allPre h]; rfl

/-- `descendants` = the normal nodes at or below `p`, in document order. -/
theorem descendants_eq {t : Tree} {p : Path} (h : Valid t p) :
    descendants t p = (pre t).filter (fun q => p.isPrefixOf q) := by
  unfold descendants pre
  rw [arenaDescendants_eq h, List.filter_filter, List.filter_filter]
  congr 1; funext q; exact Bool.and_comm _ _

/-- The first of the descendant-or-self list of a normal node is the node. -/
theorem descendants_normal {t : Tree} {p : Path} (hn : isNormalAt t p = true) :
    descendants t p = p :: ((arenaDescendants t p).drop 1).filter (isNormalAt t) := by
  unfold descendants arenaDescendants
  cases subAt t p with
  | node v ks => simp [allPre, hn]

theorem isNormalAt_append {t : Tree} {p : Path} (h : Valid t p) (q : Path) :
    isNormalAt t (p ++ q) = isNormalAt (subAt t p) q := by
  unfold isNormalAt valueAt subAt
  rw [at?_append, h.at?]
  simp [subAt]

/-! ### preceding -/

theorem internalPreviousSibling_snoc (π : Path) (i : Nat) :
    internalPreviousSibling (π ++ [i]) = if i = 0 then none else some (π ++ [i - 1]) := by
  simp [internalPreviousSibling]

theorem categoryAt_snoc {t : Tree} {π : Path} {v : Value} {ks : List Tree}
    (h : t.at? π = some (.node v ks)) {i : Nat} {k : Tree} (hk : ks[i]? = some k) :
    categoryAt t (π ++ [i]) = k.value.category := by
  simp [categoryAt, valueAt, subAt, at?_snoc h, hk]

theorem isNormalAt_snoc {t : Tree} {π : Path} {v : Value} {ks : List Tree}
    (h : t.at? π = some (.node v ks)) {i : Nat} {k : Tree} (hk : ks[i]? = some k) :
    isNormalAt t (π ++ [i]) = k.value.isNormal := by
  simp [isNormalAt, valueAt, subAt, at?_snoc h, hk]

theorem take_succ_allPreList (ks : List Tree) (i : Nat) (k : Tree) (hk : ks[i]? = some k) :
    allPreList 0 (ks.take (i + 1)) = allPreList 0 (ks.take i) ++ (allPre k).map (i :: ·) := by
  have hi : i < ks.length := by
    rcases Nat.lt_or_ge i ks.length with h | h
    · exact h
    · rw [List.getElem?_eq_none h] at hk; cases hk
  rw [List.take_add_one, hk, allPreList_append]
  have : (ks.take i).length = i := by simp; omega
  simp [this, allPreList]

/-- Below an ordered, well-formed node: if the child `i` is not normal, nothing at or below the
    children `0..i` is normal. -/
theorem abnormal_prefix_filter {t : Tree} {π : Path} {v : Value} {ks : List Tree}
    (h : t.at? π = some (.node v ks)) (hw : wf (.node v ks) = true) {i : Nat} {k : Tree}
    (hk : ks[i]? = some k) (hab : k.value.isNormal = false) :
    ((allPreList 0 (ks.take (i + 1))).map (π ++ ·)).filter (isNormalAt t) = [] := by
  apply List.filter_eq_nil_iff.mpr
  intro x hx
  obtain ⟨y, hy, rfl⟩ := List.mem_map.mp hx
  obtain ⟨j, q', rfl, _, hj, kj, hkj, hq'⟩ := mem_allPreList hy
  simp only [wf, Bool.and_eq_true] at hw
  have hjlen : j < i + 1 := by
    have : (ks.take (i + 1)).length ≤ i + 1 := by simp; omega
    omega
  have hkj' : ks[j]? = some kj := by
    rw [Nat.sub_zero, List.getElem?_take, if_pos hjlen] at hkj
    exact hkj
  -- child j is not normal (else child i would be)
  have hjab : kj.value.isNormal = false := by
    cases hn : kj.value.isNormal
    · rfl
    · have := kidsOrdered_mono ks hw.1.2 j i kj k (by omega) hkj' hk hn
      rw [hab] at this; cases this
  -- hence a leaf
  have hwj := wfList_getElem? ks j kj hw.2 hkj'
  cases kj with
  | node vj ksj =>
    simp only [wf, Bool.and_eq_true, Bool.or_eq_true] at hwj
    simp only [Tree.value] at hjab
    have hnil : ksj = [] := by
      rcases hwj.1.1 with h1 | h1
      · rw [hjab] at h1; cases h1
      · simpa using h1
    subst hnil
    simp only [allPre, allPreList, List.mem_singleton] at hq'
    subst hq'
    have := isNormalAt_snoc h hkj'
    simp [this, Tree.value, hjab]

/-- The inner loop of `preceding` at child `i` of `π`. -/
theorem precSiblingLoop_eq {t : Tree} {π : Path} {v : Value} {ks : List Tree}
    (h : t.at? π = some (.node v ks)) (hw : wf t = true) : ∀ (i fuel : Nat), i < ks.length → i ≤ fuel →
    precSiblingLoop t fuel (π ++ [i]) =
      (((allPreList 0 (ks.take i)).map (π ++ ·)).filter (isNormalAt t)).reverse
  | 0, fuel, _, _ => by
    cases fuel with
    | zero => simp [precSiblingLoop, allPreList]
    | succ fuel => simp [precSiblingLoop, previousSibling, internalPreviousSibling_snoc, allPreList]
  | i + 1, 0, _, hf => by omega
  | i + 1, fuel + 1, hi, hf => by
    have hi' : i < ks.length := by omega
    have hk1 : ks[i + 1]? = some ks[i + 1] := List.getElem?_eq_getElem hi
    have hk0 : ks[i]? = some ks[i] := List.getElem?_eq_getElem hi'
    have hvalid : Valid t (π ++ [i]) := by
      unfold Valid; rw [at?_snoc h, hk0]; rfl
    simp only [precSiblingLoop, previousSibling, internalPreviousSibling_snoc, Nat.add_one_ne_zero,
      if_false, Nat.add_sub_cancel, categoryAt_snoc h hk1, categoryAt_snoc h hk0]
    by_cases hc : ks[i + 1].value.category = ks[i].value.category
    · simp only [hc, bne_self_eq_false, Bool.false_eq_true, if_false]
      rw [precSiblingLoop_eq h hw i fuel hi' (by omega), take_succ_allPreList ks i _ hk0]
      simp only [List.map_append, List.filter_append, List.reverse_append, List.map_map]
      congr 1
      unfold descendants arenaDescendants
      have : subAt t (π ++ [i]) = ks[i] := by
        simp [subAt, at?_snoc h, hk0]
      rw [this]
      simp [Function.comp_def]
    · have hne : (ks[i + 1].value.category != ks[i].value.category) = true := by simpa using hc
      simp only [hne, if_true]
      -- child i is not normal, else both would be normal
      have hab : ks[i].value.isNormal = false := by
        cases hn : ks[i].value.isNormal
        · rfl
        · have hws := wf_at? t π _ hw h
          simp only [wf, Bool.and_eq_true] at hws
          have h1 := kidsOrdered_mono ks hws.1.2 i (i + 1) _ _ (by omega) hk0 hk1 hn
          simp only [Value.isNormal, beq_iff_eq] at hn h1
          rw [hn, h1] at hc; exact absurd rfl hc
      rw [abnormal_prefix_filter h (wf_at? t π _ hw h) hk0 hab]
      rfl

theorem precSiblingLoop_root (t : Tree) (fuel : Nat) : precSiblingLoop t fuel [] = [] := by
  cases fuel <;> simp [precSiblingLoop, previousSibling, internalPreviousSibling]

theorem precedingLoop_eq (t : Tree) (hw : wf t = true) : ∀ (r : List Nat), Valid t r.reverse →
    precedingLoop t r = ((precRel t r.reverse).filter (isNormalAt t)).reverse
  | [], _ => by simp [precedingLoop, precSiblingLoop_root, precRel]
  | i :: r, h => by
    simp only [List.reverse_cons] at h ⊢
    have hπ : Valid t r.reverse := valid_prefix h
    have hat := hπ.at?
    rw [tree_eta (subAt t r.reverse)] at hat
    have hi : i < (subAt t r.reverse).kids.length := (valid_snoc_iff hπ i).mp h
    have hfuel : i ≤ t.size := by
      have h1 := kids_length_lt_size (subAt t r.reverse)
      have h2 := size_at?_le t _ _ hπ.at?
      omega
    simp only [precedingLoop, List.reverse_cons]
    rw [precSiblingLoop_eq hat hw i t.size hi hfuel, precedingLoop_eq t hw r hπ,
      precRel_snoc t _ _ _ i hat hi]
    simp [List.filter_append, List.reverse_append]

/-- `preceding` = the normal nodes before `p` in document order that are not ancestors of `p`,
    nearest first. -/
theorem preceding_eq {t : Tree} {p : Path} (hw : wf t = true) (h : Valid t p) :
    preceding t p = ((pre t).filter (fun q => docLt q p && !q.isPrefixOf p)).reverse := by
  unfold preceding
  rw [precedingLoop_eq t hw p.reverse (by simpa using h), List.reverse_reverse]
  unfold pre
  rw [← filter_preceding_allPre h, List.filter_filter, List.filter_filter]
  congr 2; funext q; exact Bool.and_comm _ _

end XotModel.Axes
