/-
  `HtmlNames::matches` (C19): the shortcut through the registered ids agrees with the
  case-insensitive lookup, so `matches` = "HTML namespace and lower-cased local name in the table".
-/
import XotModel.Model.Html5

namespace XotModel
open Gen

/-- Table entries are their own lower-case form, also after upper-casing. -/
def lowerClosed (names : List Str) : Bool :=
  names.all (fun n => asciiLower n == n && asciiLower (asciiUpper n) == n)

theorem lowerClosed_tables :
    lowerClosed html5Names = true ∧ lowerClosed voidNames = true ∧ lowerClosed phrasingContentNames = true ∧
    lowerClosed formattedNames = true ∧ lowerClosed noEscapeNames = true := by decide

theorem HtmlNames.matches_eq (h : HtmlNames) (env : Env) (name : Nat) (hl : lowerClosed h.names = true) :
    h.matches env name =
      (h.isHtmlElement env name && h.names.contains (asciiLower (env.localName name))) := by
  have hmem : ∀ n ∈ h.names, asciiLower n = n ∧ asciiLower (asciiUpper n) = n := by
    intro n hn
    simp only [lowerClosed, List.all_eq_true, Bool.and_eq_true, beq_iff_eq] at hl
    exact hl n hn
  unfold HtmlNames.matches HtmlNames.idsContain HtmlNames.isHtmlElement
  by_cases hA : (env.nsOfName name == h.xhtml || env.nsOfName name == Env.noNamespace) = true
  · have hA' : (env.nsOfName name == Env.noNamespace || env.nsOfName name == h.xhtml) = true := by
      rw [Bool.or_comm]; exact hA
    rw [hA, hA']
    simp only [Bool.true_and, Bool.not_true, Bool.false_eq_true, if_false]
    split
    · rename_i hids
      symm
      simp only [Bool.or_eq_true, List.contains_eq_mem, decide_eq_true_eq, List.mem_map] at hids ⊢
      rcases hids with hin | ⟨n, hn, hup⟩
      · rw [(hmem _ hin).1]; exact hin
      · rw [← hup, (hmem n hn).2]; exact hn
    · rfl
  · have hA2 : (env.nsOfName name == h.xhtml || env.nsOfName name == Env.noNamespace) = false := by
      simpa using hA
    have hA' : (env.nsOfName name == Env.noNamespace || env.nsOfName name == h.xhtml) = false := by
      rw [Bool.or_comm]; exact hA2
    rw [hA2, hA']
    simp

/-- `void_names.matches`: HTML namespace and lower-cased local name in `voidNames`. -/
theorem void_matches_eq (h : Html5Elements) (env : Env) (name : Nat) :
    h.void.matches env name =
      (h.isHtmlElement env name && voidNames.contains (asciiLower (env.localName name))) :=
  HtmlNames.matches_eq h.void env name lowerClosed_tables.2.1

/-- `no_escape_names.matches`: HTML namespace and local name `script` / `style` in any letter case. -/
theorem noEscape_matches_eq (h : Html5Elements) (env : Env) (name : Nat) :
    h.noEscape.matches env name =
      (h.isHtmlElement env name && noEscapeNames.contains (asciiLower (env.localName name))) :=
  HtmlNames.matches_eq h.noEscape env name lowerClosed_tables.2.2.2.2

/-- `formatted_names.matches`: HTML namespace and `pre` / `script` / `style` / `title` / `textarea`. -/
theorem formatted_matches_eq (h : Html5Elements) (env : Env) (name : Nat) :
    h.formatted.matches env name =
      (h.isHtmlElement env name && formattedNames.contains (asciiLower (env.localName name))) :=
  HtmlNames.matches_eq h.formatted env name lowerClosed_tables.2.2.2.1

/-- `is_inline`: HTML namespace and (phrasing content or not an HTML element name at all). -/
theorem isInline_eq (h : Html5Elements) (env : Env) (name : Nat) :
    h.isInline env name =
      (h.isHtmlElement env name &&
        (phrasingContentNames.contains (asciiLower (env.localName name))
          || !html5Names.contains (asciiLower (env.localName name)))) := by
  unfold Html5Elements.isInline
  rw [HtmlNames.matches_eq h.phrasing env name lowerClosed_tables.2.2.1,
    HtmlNames.matches_eq h.html5 env name lowerClosed_tables.1]
  have e1 : h.phrasing.isHtmlElement env name = h.isHtmlElement env name := rfl
  have e2 : h.html5.isHtmlElement env name = h.isHtmlElement env name := rfl
  rw [e1, e2]
  show (_ && (_ && List.contains phrasingContentNames _ || !(_ && List.contains html5Names _))) = _
  cases h.isHtmlElement env name <;> simp

end XotModel
