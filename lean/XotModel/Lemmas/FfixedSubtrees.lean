/-
  The list of all subtrees of a tree; `find?` is a search in it, so with pairwise distinct
  handles every subtree is found under its own handle.
-/
import XotModel.Lemmas.FfixedBasic

namespace XotModel
open HTree

mutual
  /-- All subtrees, in document order (the tree itself first). -/
  def HTree.subtrees : HTree → List HTree
    | .node h v ks => .node h v ks :: subtreesList ks
  def HTree.subtreesList : List HTree → List HTree
    | [] => []
    | k :: ks => subtrees k ++ subtreesList ks
end

theorem subtreesList_append (a b : List HTree) :
    subtreesList (a ++ b) = subtreesList a ++ subtreesList b := by
  induction a with
  | nil => simp [subtreesList]
  | cons k ks ih => simp [subtreesList, ih]

theorem self_mem_subtrees (t : HTree) : t ∈ subtrees t := by
  cases t; simp [subtrees]

theorem subtrees_eq (t : HTree) : subtrees t = t :: subtreesList t.kids := by
  cases t; simp [subtrees, HTree.kids]

theorem mem_subtreesList_of_mem {k : HTree} {ks : List HTree} (h : k ∈ ks) : k ∈ subtreesList ks := by
  induction ks with
  | nil => cases h
  | cons a as ih =>
    simp only [subtreesList, List.mem_append]
    cases h with
    | head => exact Or.inl (self_mem_subtrees _)
    | tail _ h => exact Or.inr (ih h)

theorem kid_mem_subtrees {k t : HTree} (h : k ∈ t.kids) : k ∈ subtrees t := by
  rw [subtrees_eq]; exact List.mem_cons_of_mem _ (mem_subtreesList_of_mem h)

mutual
  theorem handles_eq_map : ∀ t : HTree, handles t = (subtrees t).map HTree.handle
    | .node h v ks => by
      simp only [handles, subtrees, List.map_cons, HTree.handle]
      rw [handlesList_eq_map ks]
  theorem handlesList_eq_map : ∀ ks : List HTree, handlesList ks = (subtreesList ks).map HTree.handle
    | [] => rfl
    | k :: ks => by
      simp only [handlesList, subtreesList, List.map_append]
      rw [handles_eq_map k, handlesList_eq_map ks]
end

mutual
  theorem find?_eq_find (h : Nat) : ∀ t : HTree,
      find? h t = (subtrees t).find? (fun s => s.handle == h)
    | .node h' v ks => by
      unfold find?
      rw [subtrees, List.find?_cons]
      by_cases e : h' = h
      · simp [e, HTree.handle]
      · have : ((HTree.node h' v ks).handle == h) = false := by simp [HTree.handle, e]
        rw [this, if_neg e]
        exact findList?_eq_find h ks
  theorem findList?_eq_find (h : Nat) : ∀ ks : List HTree,
      findList? h ks = (subtreesList ks).find? (fun s => s.handle == h)
    | [] => rfl
    | k :: ks => by
      unfold findList?
      simp only [subtreesList, List.find?_append]
      rw [find?_eq_find h k, findList?_eq_find h ks]
      cases (subtrees k).find? (fun s => s.handle == h) <;> rfl
end

theorem find?_of_nodup_map {α : Type} (f : α → Nat) : ∀ (l : List α) (s : α), (l.map f).Nodup → s ∈ l →
    l.find? (fun x => f x == f s) = some s
  | [], s, _, hs => by cases hs
  | a :: l, s, hn, hs => by
    simp only [List.map_cons, List.nodup_cons, List.mem_map, not_exists, not_and] at hn
    simp only [List.find?_cons]
    by_cases e : f a = f s
    · have : s = a := by
        cases hs with
        | head => rfl
        | tail _ hs' => exact absurd e.symm (hn.1 s hs')
      simp [this]
    · have hs' : s ∈ l := by
        cases hs with
        | head => exact absurd rfl e
        | tail _ hs' => exact hs'
      have : (f a == f s) = false := by simp [e]
      rw [this]
      exact find?_of_nodup_map f l s hn.2 hs'

/-- With distinct handles, every subtree is found under its handle. -/
theorem findList?_of_mem_subtrees (ts : List HTree) (s : HTree) (hn : (handlesList ts).Nodup)
    (hs : s ∈ subtreesList ts) : findList? s.handle ts = some s := by
  rw [findList?_eq_find]
  rw [handlesList_eq_map] at hn
  exact find?_of_nodup_map HTree.handle _ s hn hs

theorem mem_subtreesList_of_findList? {h : Nat} {ts : List HTree} {s : HTree}
    (hf : findList? h ts = some s) : s ∈ subtreesList ts ∧ s.handle = h := by
  rw [findList?_eq_find] at hf
  exact ⟨List.mem_of_find?_eq_some hf, by simpa using List.find?_some hf⟩

mutual
  theorem subtrees_trans : ∀ (t s : HTree), s ∈ subtrees t → ∀ x ∈ subtrees s, x ∈ subtrees t
    | .node h v ks, s => by
      intro hs x hx
      simp only [subtrees, List.mem_cons] at hs
      cases hs with
      | inl e => subst e; exact hx
      | inr hs =>
        simp only [subtrees, List.mem_cons]
        exact Or.inr (subtreesList_trans ks s hs x hx)
  theorem subtreesList_trans : ∀ (ks : List HTree) (s : HTree), s ∈ subtreesList ks →
      ∀ x ∈ subtrees s, x ∈ subtreesList ks
    | [], s => by intro hs; cases hs
    | k :: ks, s => by
      intro hs x hx
      simp only [subtreesList, List.mem_append] at hs ⊢
      cases hs with
      | inl hs => exact Or.inl (subtrees_trans k s hs x hx)
      | inr hs => exact Or.inr (subtreesList_trans ks s hs x hx)
end

/-- Handles of a subtree are handles of the whole. -/
theorem handles_subset_of_mem_subtreesList {ts : List HTree} {s : HTree} (hs : s ∈ subtreesList ts) :
    ∀ x ∈ handles s, x ∈ handlesList ts := by
  intro x hx
  rw [handles_eq_map] at hx
  rw [handlesList_eq_map]
  obtain ⟨y, hy, rfl⟩ := List.mem_map.1 hx
  exact List.mem_map.2 ⟨y, subtreesList_trans ts s hs y hy, rfl⟩

end XotModel
