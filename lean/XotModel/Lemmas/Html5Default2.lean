/-
  C19_embedded, start-tag step: what `StartTagOpen` does to the name stack, and why the default
  binding of the stack is the default namespace the written start tag has in force at its `>`.
-/
import XotModel.Lemmas.Html5Default

namespace XotModel
open Gen

theorem html_mem_fullnameInfoNew (decls cur : List (Nat × Nat)) (b : Nat × Nat) :
    b ∈ fullnameInfoNew decls cur ↔ (b ∈ cur ∧ ∀ x ∈ decls, x.1 ≠ b.1) ∨ b ∈ decls := by
  unfold fullnameInfoNew
  simp only [List.mem_append, List.mem_filter, Bool.not_eq_true', List.any_eq_false, beq_iff_eq]

theorem top_push (s : FStack) (decls : List (Nat × Nat)) :
    (s.push decls).top = if decls.isEmpty then s.top else fullnameInfoNew decls s.top := by
  unfold FStack.push
  split <;> simp [FStack.top]

/-- Under `NoSpaces`, a qualified name holds no space. -/
theorem elementFullname_noSpace {env : Env} (hsp : NoSpaces env) {s : FStack} {name : Nat} {full : Str}
    (h : s.elementFullname env name = .ok full) : ' ' ∉ full := by
  unfold FStack.elementFullname at h
  cases hp : s.elementPrefix env name with
  | error e => rw [hp] at h; cases h
  | ok p =>
    rw [hp] at h
    simp only [Except.ok.injEq] at h
    subst h
    cases p with
    | none => exact hsp.1 name
    | some q =>
      simp only [qname, List.mem_append, List.mem_singleton, not_or]
      exact ⟨⟨hsp.2 q, by decide⟩, hsp.1 name⟩

/-- The token with the injected declaration is not a plain `<name` token. -/
theorem injected_ne_plain {env : Env} (hsp : NoSpaces env) {s : FStack} {name : Nat} {full : Str}
    (h : s.elementFullname env name = .ok full) (a b : Str) :
    (fmt fmtHtmlStartTagOpen [full] == fmt fmtHtmlStartTagOpenNs [a, b]) = false := by
  have hno := elementFullname_noSpace hsp h
  have hl : ' ' ∉ fmt fmtHtmlStartTagOpen [full] := by
    simp only [fmt, fmtHtmlStartTagOpen, List.append_nil, List.mem_append, List.mem_singleton, not_or]
    exact ⟨by decide, hno⟩
  have hr : ' ' ∈ fmt fmtHtmlStartTagOpenNs [a, b] := by
    simp [fmt, fmtHtmlStartTagOpenNs]
  cases hb : (fmt fmtHtmlStartTagOpen [full] == fmt fmtHtmlStartTagOpenNs [a, b]) with
  | false => rfl
  | true =>
    have := eq_of_beq hb
    rw [this] at hl
    exact absurd hr hl

/-- What holds of the name stack before an element's start tag, relative to the default
    namespace `d` the output has in force: either the invariant (inner elements), or — for the
    top element, whose inherited declarations are written on it — every default binding is for
    the element's own namespace and has a declaration event. -/
def ElemPre (inScope : List (Nat × Nat)) (isTop : Bool) (path : Path) (n : Tree) (X : Nat)
    (s : FStack) (d : Nat) : Prop :=
  (isTop = false ∧ DefaultInv s d) ∨
  (∀ Y, Y ≠ Env.xmlNamespace → (Env.emptyPrefix, Y) ∈ s.top →
    Y = X ∧ (path, Output.pfx Env.emptyPrefix X) ∈ declEvents inScope isTop path n)

theorem mem_htmlDeclarations (n : Tree) (X : Nat) (b : Nat × Nat) :
    b ∈ htmlDeclarations n X ↔ b ∈ n.nsDecls ∧ (b.1 ≠ Env.emptyPrefix ∨ b.2 = X) := by
  simp [htmlDeclarations, List.mem_filter]

/-- The start-tag-open step. -/
theorem startTagOpen_default {c : HtmlCtx} (P : Prop) (hxml : P → c.h.mustBeUnprefixed Env.xmlNamespace = false)
    (hsp : P → NoSpaces c.env) (inScope : List (Nat × Nat)) (isTop : Bool) (path : Path) (name : Nat)
    (ks : List Tree) (parent : Option Tree) (S S2 : HState) (tok : OutputToken) (d : Nat)
    (hs : S.stack ≠ [])
    (hpre : P → ElemPre inScope isTop path (.node (.element name) ks) (c.env.nsOfName name) S.stack d)
    (hso : renderHtml c S (.node (.element name) ks) parent (.startTagOpen name) = .ok (S2, tok))
    (X d0 dmid : Nat) (hX : X = c.env.nsOfName name)
    (hd0 : d0 = if tok.text == fmt fmtHtmlStartTagOpenNs
        [c.env.localName name, serializeAttributeHtml (c.env.namespaceStr X)] then X else d)
    (hdm : dmid = midDefault X d0 (declEvents inScope isTop path (.node (.element name) ks))) :
    S2.stack ≠ [] ∧ S2.endElement = S ∧ (P → DefaultInv S2.stack dmid) ∧
      (P → c.h.mustBeUnprefixed X = true → dmid = X) ∧
      (Bare c name → X = Env.noNamespace ∨ S2.stack.hasEmptyPrefix X = true) := by
  subst hX
  simp only [renderHtml] at hso
  split at hso
  · -- the declaration is injected
    rename_i hcond
    simp only [Outcome.ok.injEq, Prod.mk.injEq] at hso
    obtain ⟨rfl, rfl⟩ := hso
    have hd0' : d0 = c.env.nsOfName name := by rw [hd0]; simp
    have hdmid : dmid = c.env.nsOfName name := by rw [hdm, hd0']; exact midDefault_self _ _
    have hmemTop : ∀ Y, (Env.emptyPrefix, Y) ∈
        ((S.stack.push (htmlDeclarations (.node (.element name) ks) (c.env.nsOfName name))).push [(Env.emptyPrefix, (c.env.nsOfName name))]).top → Y = (c.env.nsOfName name) := by
      intro Y hY
      rw [top_push] at hY
      simp only [List.isEmpty_cons, Bool.false_eq_true, if_false] at hY
      rcases (html_mem_fullnameInfoNew _ _ _).mp hY with ⟨_, h2⟩ | h2
      · exact absurd rfl (h2 (Env.emptyPrefix, (c.env.nsOfName name)) (by simp))
      · simpa using h2
    have hne : ((S.stack.push (htmlDeclarations (.node (.element name) ks) (c.env.nsOfName name))).push
        [(Env.emptyPrefix, c.env.nsOfName name)]) ≠ [] := push_ne_nil (push_ne_nil hs _) _
    refine ⟨hne, ?_, ?_, fun _ _ => hdmid, ?_⟩
    · simp only [HState.endElement, List.headD_cons, List.tail_cons]
      rw [popFrames_push_injected]
    · intro _ Y _ hY
      rw [hdmid]; exact (hmemTop Y hY).symm
    · intro _
      right
      rw [hasEmptyPrefix_iff, top_push]
      simp only [List.isEmpty_cons, Bool.false_eq_true, if_false]
      exact (html_mem_fullnameInfoNew _ _ _).mpr (Or.inr (by simp))
  · rename_i hcond
    cases hfull : (S.stack.push (htmlDeclarations (.node (.element name) ks) (c.env.nsOfName name))).elementFullname c.env name with
    | error e => rw [hfull] at hso; cases hso
    | ok full =>
      rw [hfull] at hso
      simp only [Outcome.ok.injEq, Prod.mk.injEq] at hso
      obtain ⟨rfl, rfl⟩ := hso
      -- the default-binding invariant after the push
      have hinv : P → DefaultInv (S.stack.push (htmlDeclarations (.node (.element name) ks) (c.env.nsOfName name))) dmid := by
        intro hP
        have hsp := hsp hP
        have hpre := hpre hP
        have hd0' : d0 = d := by
          rw [hd0, injected_ne_plain hsp hfull]; rfl
        intro Y hY hmem
        have hown : (Env.emptyPrefix, Y) ∈ htmlDeclarations (.node (.element name) ks) (c.env.nsOfName name) → dmid = Y := by
          intro hm
          obtain ⟨hm1, hm2⟩ := (mem_htmlDeclarations _ _ _).mp hm
          have hYX : Y = (c.env.nsOfName name) := by
            rcases hm2 with hm2 | hm2
            · exact absurd rfl hm2
            · exact hm2
          subst hYX
          rw [hdm]
          exact midDefault_of_mem _ _ path _ hY (declEvents_own inScope isTop path _ _ _ hm1)
        have hinh : (Env.emptyPrefix, Y) ∈ S.stack.top →
            (∀ x ∈ htmlDeclarations (.node (.element name) ks) (c.env.nsOfName name), x.1 ≠ Env.emptyPrefix) → dmid = Y := by
          intro hm hno
          rcases hpre with ⟨hnt, hdi⟩ | htop
          · have hdY : d = Y := hdi Y hY hm
            by_cases hW : (c.env.nsOfName name) ≠ Env.xmlNamespace ∧ (path, Output.pfx Env.emptyPrefix (c.env.nsOfName name)) ∈
                declEvents inScope isTop path (.node (.element name) ks)
            · exfalso
              subst hnt
              have hd := declEvents_pfx_own inScope path _ _ _ hW.2
              exact hno (Env.emptyPrefix, (c.env.nsOfName name)) ((mem_htmlDeclarations _ _ _).mpr ⟨hd, Or.inr rfl⟩) rfl
            · rw [hdm, midDefault_of_not_mem _ _ path _ (fun po hpo => (declEvents_isDecl _ _ _ _ po hpo).1) hW, hd0', hdY]
          · obtain ⟨hYX, hev⟩ := htop Y hY hm
            subst hYX
            rw [hdm]
            exact midDefault_of_mem _ _ path _ hY hev
        rw [top_push] at hmem
        split at hmem
        · rename_i hemp
          exact hinh hmem (by
            intro x hx
            have : htmlDeclarations (.node (.element name) ks) (c.env.nsOfName name) = [] := List.isEmpty_iff.mp hemp
            rw [this] at hx; simp at hx)
        · rcases (html_mem_fullnameInfoNew _ _ _).mp hmem with ⟨h1, h2⟩ | h2
          · exact hinh h1 h2
          · exact hown h2
      have hhas : c.h.mustBeUnprefixed (c.env.nsOfName name) = true →
          (S.stack.push (htmlDeclarations (.node (.element name) ks) (c.env.nsOfName name))).hasEmptyPrefix (c.env.nsOfName name) = true := by
        intro hm
        simpa [hm] using hcond
      have hne : (S.stack.push (htmlDeclarations (.node (.element name) ks) (c.env.nsOfName name))) ≠ [] :=
        push_ne_nil hs _
      refine ⟨hne, ?_, hinv, ?_, ?_⟩
      · simp only [HState.endElement, List.headD_cons, List.tail_cons]
        rw [popFrames_push]
      · intro hP hm
        have hX : (c.env.nsOfName name) ≠ Env.xmlNamespace := by
          intro e; rw [e, hxml hP] at hm; cases hm
        exact hinv hP (c.env.nsOfName name) hX ((hasEmptyPrefix_iff _ _).mp (hhas hm))
      · intro hb
        by_cases h0 : (c.env.nsOfName name) = Env.noNamespace
        · exact Or.inl h0
        · right
          apply hhas
          rcases hb.1 with hh | hm
          · simp only [Html5Elements.isHtmlNamespace, Bool.or_eq_true, beq_iff_eq] at hh
            rcases hh with hh | hh
            · simp only [Html5Elements.mustBeUnprefixed, Bool.or_eq_true, beq_iff_eq]
              exact Or.inl (Or.inl hh)
            · exact absurd hh h0
          · exact hm

end XotModel
