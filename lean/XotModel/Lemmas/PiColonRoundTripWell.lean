/-
  GENERATED COPY (wt-c17str) of the declarations of XotModel.Lemmas.RoundTripWell that depend on `valueOK`, restated in the
  namespace `XotModel.PiColon`, where `valueOK` asks of a PI target what the tokenizer's `consume_name` accepts
  (`nameOK`: colons allowed) instead of an NCName (Lemmas/PiColonDefs.lean).  Proof texts unchanged except where noted.
-/
import XotModel.Lemmas.RoundTripWell
import XotModel.Lemmas.PiColonRoundTripDenote

namespace XotModel.PiColon

variable {env : Env}

/-! ### The items of a start tag -/

/-- The attribute names of an element are pairwise different as expanded names. -/
theorem attrs_expanded_nodup (he : EnvFacts env) {name : Nat} {ks : List Tree}
    (hn : (Tree.node (.element name) ks).allNodes (nodeOK env) = true)
    (hns : ∀ a ∈ (Tree.node (.element name) ks).attrs, env.nsOfName a.1 < env.namespaces.length) :
    (((Tree.node (.element name) ks).attrs.map (attrStr env)).map Prod.fst).Nodup := by
  have hnode : nodeOK env (.element name) ks = true := by
    rw [allNodes_node, Bool.and_eq_true] at hn; exact hn.1
  obtain ⟨hord, _, huniq, _, _⟩ := (nodeOK_iff env _ ks).mp hnode
  have h1 : ((Tree.node (.element name) ks).attrs.map Prod.fst).Nodup := by
    rw [attrs_eq_kidAttrs _ ks hord, kidAttrs_fst]; exact huniq.1
  have := nodup_map_of_inj_on env.expanded (l := (Tree.node (.element name) ks).attrs.map Prod.fst)
    (fun a ha b hb hab => by
      obtain ⟨x, hx, rfl⟩ := List.mem_map.mp ha
      obtain ⟨y, hy, rfl⟩ := List.mem_map.mp hb
      have hvx := (valueOK_attribute_facts (attrs_valueOK env hn hx)).1
      have hvy := (valueOK_attribute_facts (attrs_valueOK env hn hy)).1
      exact he.expanded_inj (EnvFacts.name_lt_of_ne hvx) (EnvFacts.name_lt_of_ne hvy) (hns x hx) (hns y hy) hab) h1
  simpa [List.map_map, Function.comp_def, attrStr] using this

/-- The items of the spelled start tag are admitted by the builder (`scope` = the scope inside). -/
theorem spellItems_well (he : EnvFacts env) {s' : FStack} {fs : Frames} {sc : Scope}
    (hrel : ScopeRel env s' fs sc) (inScope : List (Nat × Nat)) {name : Nat} {ks : List Tree}
    (hn : (Tree.node (.element name) ks).allNodes (nodeOK env) = true) {ats : List Token}
    (ha : attrTokens env s' (Tree.node (.element name) ks).attrs = .ok ats) :
    attrsWellNs sc (spellItems env inScope false s' (Tree.node (.element name) ks)) := by
  have hdecls := declsOK_of_nodeOK hn
  have hv : ∀ a ∈ (Tree.node (.element name) ks).attrs, valueOK env (.attribute a.1 a.2) = true :=
    fun a ha' => attrs_valueOK env hn ha'
  have hp := attrTokens_prefixes _ ats ha
  obtain ⟨hdo, hao, hor⟩ := spellItems_facts he hrel inScope (Tree.node (.element name) ks) hdecls hv hp
  refine ⟨spellItems_pieces inScope false s' _, ?_, ?_, ?_, ?_, ?_⟩
  · rw [hdo]; exact hdecls.not_reserved he
  · rw [hdo]; exact hdecls.keys_nodup he
  · rw [hao]; exact attrs_expanded_nodup he hn (attrTokens_ns_lt he hrel ha)
  · intro a ha' hne
    rw [hor] at ha'
    obtain ⟨x, hx, rfl⟩ := List.mem_map.mp ha'
    obtain ⟨q, hq⟩ := hp x hx
    exact (spellAttr_facts he hrel (hv x hx) hq).2.2.2 hne
  · -- every position of the serialiser-side spelling is 0
    intro a ha'
    simp only [spellItems, List.mem_append, List.mem_flatMap, List.mem_map] at ha'
    rcases ha' with ⟨d, _, hd⟩ | ⟨x, _, rfl⟩
    · unfold spellDecl at hd
      split at hd
      · simp at hd
      · split at hd <;> simp only [List.mem_singleton] at hd <;> subst hd <;> exact StrSpan.bareColon_zero _
    · exact StrSpan.bareColon_zero _

/-! ### No two neighbouring character runs -/

/-- A normal node other than a document node spells exactly one node: a character run for a text node. -/
theorem spellNode_single {n : Tree} (hn : n.allNodes (nodeOK env) = true) (hnormal : n.value.isNormal = true)
    (hdoc : n.value.isDocument = false) (inScope : List (Nat × Nat)) (s : FStack) :
    ∃ x, spellNode env inScope false s n = [x] ∧ x.isChars = n.value.isText := by
  cases n with
  | node v ks =>
    cases v with
    | document => simp [Tree.value, Value.isDocument] at hdoc
    | «attribute» a b => simp [Tree.value, Value.isNormal, Value.category] at hnormal
    | «namespace» a b => simp [Tree.value, Value.isNormal, Value.category] at hnormal
    | text str =>
      have hl := allNodes_leaf env hn rfl
      subst hl
      exact ⟨_, rfl, rfl⟩
    | comment str =>
      have hl := allNodes_leaf env hn rfl
      subst hl
      exact ⟨_, rfl, rfl⟩
    | pi target data =>
      have hl := allNodes_leaf env hn rfl
      subst hl
      exact ⟨_, rfl, rfl⟩
    | element name =>
      by_cases hfc : (Tree.node (.element name) ks).firstChild?.isNone = true
      · simp only [spellNode, hfc, if_true, spellKids_empty hn hfc]
        exact ⟨_, rfl, rfl⟩
      · simp only [spellNode, hfc, Bool.false_eq_true, if_false]
        exact ⟨_, rfl, rfl⟩

/-- An abnormal leaf spells nothing. -/
theorem spellNode_abnormal {n : Tree} (hn : n.allNodes (nodeOK env) = true) (hab : n.value.isNormal = false)
    (inScope : List (Nat × Nat)) (s : FStack) : spellNode env inScope false s n = [] := by
  cases n with
  | node v ks =>
    have hl := allNodes_leaf env hn (abnormal_leafKind hab)
    subst hl
    cases v <;> simp [Tree.value, Value.isNormal, Value.category] at hab <;> rfl

theorem spellKids_noAdj (inScope : List (Nat × Nat)) (s : FStack) : ∀ (ks : List Tree),
    (∀ k ∈ ks, k.allNodes (nodeOK env) = true) → (∀ k ∈ ks, k.value.isDocument = false) →
    OrderedKids ks → noAdjText ks = true → noAdjCharsNs (spellNode.spellKids env inScope s ks) = true
  | [], _, _, _, _ => rfl
  | k :: ks, hn, hdoc, hord, hadj => by
    have ih := spellKids_noAdj inScope s ks (fun k' hk' => hn k' (by simp [hk']))
      (fun k' hk' => hdoc k' (by simp [hk'])) (List.pairwise_cons.mp hord).2 (rt_noAdjText_tail hadj)
    rw [spellNode.spellKids]
    by_cases hnorm : k.value.isNormal = true
    · obtain ⟨x, hx, hxc⟩ := spellNode_single (hn k (by simp)) hnorm (hdoc k (by simp)) inScope s
      rw [hx]
      cases ks with
      | nil => rfl
      | cons k2 ks2 =>
        have hph := (List.pairwise_cons.mp hord).1 k2 (by simp)
        have hnorm2 : k2.value.isNormal = true := by
          rw [phase_normal] at hnorm ⊢
          have : k2.value.phase ≤ 2 := by cases k2.value <;> simp [Value.phase]
          omega
        obtain ⟨x2, hx2, hxc2⟩ := spellNode_single (hn k2 (by simp)) hnorm2 (hdoc k2 (by simp)) inScope s
        rw [spellNode.spellKids, hx2] at ih ⊢
        simp only [noAdjText, Bool.and_eq_true] at hadj
        simp only [List.singleton_append, noAdjCharsNs, hxc, hxc2, Bool.and_eq_true]
        exact ⟨hadj.1, by simpa using ih⟩
    · rw [spellNode_abnormal (hn k (by simp)) (by simpa using hnorm)]
      exact ih

/-! ### The tree induction -/

mutual
/-- Lemma C, one node. -/
theorem spellNode_well (he : EnvFacts env) (inScope : List (Nat × Nat)) (n : Tree) (s : FStack)
    (fs : Frames) (sc : Scope) (hrel : ScopeRel env s fs sc) (hn : n.allNodes (nodeOK env) = true)
    (hdoc : n.value.isDocument = false) (ts : List Token)
    (h : serNode env false inScope false s n = .ok ts) :
    NSNode.Well.wellList sc (spellNode env inScope false s n) := by
  cases n with
  | node v ks =>
    have hval := allNodes_value env hn
    cases v with
    | document => simp [Tree.value, Value.isDocument] at hdoc
    | «attribute» a b =>
      have hl := allNodes_leaf env hn rfl
      subst hl
      trivial
    | «namespace» a b =>
      have hl := allNodes_leaf env hn rfl
      subst hl
      trivial
    | text str =>
      have hl := allNodes_leaf env hn rfl
      subst hl
      simp only [Tree.value, valueOK, Bool.and_eq_true, Bool.not_eq_true', List.isEmpty_eq_false_iff] at hval
      refine ⟨?_, trivial⟩
      intro p hp
      simp only [List.mem_singleton] at hp
      subst hp
      exact ⟨textPieces_ne_nil hval.1, wellSpelled_textPieces str⟩
    | comment str =>
      have hl := allNodes_leaf env hn rfl
      subst hl
      exact ⟨trivial, trivial⟩
    | pi target data =>
      have hl := allNodes_leaf env hn rfl
      subst hl
      refine ⟨?_, trivial⟩
      -- the target is not `xml` in any letter case (`valueOK`)
      simp only [Tree.value, valueOK, Bool.and_eq_true, bne_iff_ne, ne_eq] at hval
      simpa [NSNode.Well, isReservedPiTarget, sp0] using hval.1.2
    | element name =>
      obtain ⟨p, ats, content, hcheck, hp, ha, hk, _⟩ := serNode_element_ok env h
      have hnode : nodeOK env (.element name) ks = true := by
        rw [allNodes_node, Bool.and_eq_true] at hn; exact hn.1
      obtain ⟨hord, hkinds, _, hnoadj, _⟩ := (nodeOK_iff env _ ks).mp hnode
      have hdecls := declsOK_of_nodeOK hn
      have hrel' := hrel.push he hdecls
      have hkids := spellKids_well he inScope ks _ _ _ hrel' (fun k hk' => allNodes_kid hn hk') hkinds.2.2
        content hk
      obtain ⟨hdo, _, _⟩ := spellItems_facts he hrel' inScope (Tree.node (.element name) ks) hdecls
        (fun a ha' => attrs_valueOK env hn ha') (attrTokens_prefixes _ ats ha)
      have hitems := spellItems_well he hrel' inScope hn ha
      have hres := (hrel'.element he hp hcheck).1
      have hsome : ((sc.push ((Tree.node (.element name) ks).nsDecls.map (declStr env))).lookup
          (prefixText env p)).isSome = true := by rw [hres]; rfl
      simp only [spellNode, hp, okPrefix]
      by_cases hfc : (Tree.node (.element name) ks).firstChild?.isNone = true
      · simp only [hfc, if_true, spellKids_empty hn hfc, NSNode.Well.wellList, NSNode.Well, hdo, sp0, and_true]
        exact ⟨hitems, hsome, StrSpan.bareColon_zero _⟩
      · simp only [hfc, Bool.false_eq_true, if_false, NSNode.Well.wellList, NSNode.Well, hdo, sp0, and_true,
          true_and]
        exact ⟨hitems, hsome,
          spellKids_noAdj inScope _ ks (fun k hk' => allNodes_kid hn hk') hkinds.2.2 hord hnoadj, hkids,
          StrSpan.bareColon_zero _, StrSpan.bareColon_zero _⟩

/-- Lemma C, a child list. -/
theorem spellKids_well (he : EnvFacts env) (inScope : List (Nat × Nat)) (ks : List Tree) (s : FStack)
    (fs : Frames) (sc : Scope) (hrel : ScopeRel env s fs sc) (hn : ∀ k ∈ ks, k.allNodes (nodeOK env) = true)
    (hdoc : ∀ k ∈ ks, k.value.isDocument = false) (ts : List Token)
    (h : serNode.serKids env false inScope s ks = .ok ts) :
    NSNode.Well.wellList sc (spellNode.spellKids env inScope s ks) := by
  cases ks with
  | nil => trivial
  | cons k ks =>
    obtain ⟨x, y, hx, hy, _⟩ := serKids_cons_ok env h
    rw [spellNode.spellKids, wellList_append]
    exact ⟨spellNode_well he inScope k s fs sc hrel (hn k (by simp)) (hdoc k (by simp)) x hx,
      spellKids_well he inScope ks s fs sc hrel (fun k' hk' => hn k' (by simp [hk']))
        (fun k' hk' => hdoc k' (by simp [hk'])) y hy⟩
end

end XotModel.PiColon
