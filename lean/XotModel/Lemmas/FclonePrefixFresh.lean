/-
  Lemmas for C12, part 27 (clone_with_prefixes): the namespace nodes the insertion loop adds, as a
  property: `addSpec` on `A ++ B` (namespace children, then the rest) from handle `n` yields
  `A ++ nsLeavesFrom n New ++ B` — leaves with the consecutive handles `n, n+1, …`, for a list `New` of
  (prefix, namespace) pairs taken from `order` — and the counter ends at `n + New.length`.
-/
import XotModel.Lemmas.FclonePrefix8

namespace XotModel
open HTree

/-- Namespace leaves for the listed (prefix, namespace) pairs, handles `n, n+1, …`. -/
def nsLeavesFrom : Nat → List (Nat × Nat) → List HTree
  | _, [] => []
  | n, (p, ns) :: rest => .node n (.namespace p ns) [] :: nsLeavesFrom (n + 1) rest

theorem nsLeavesFrom_length : ∀ (n : Nat) (l : List (Nat × Nat)), (nsLeavesFrom n l).length = l.length
  | _, [] => rfl
  | n, (_, _) :: rest => by simp [nsLeavesFrom, nsLeavesFrom_length (n + 1) rest]

theorem nsLeavesFrom_handles : ∀ (n : Nat) (l : List (Nat × Nat)),
    handlesList (nsLeavesFrom n l) = List.range' n l.length
  | _, [] => rfl
  | n, (_, _) :: rest => by
    simp [nsLeavesFrom, handlesList, handles, nsLeavesFrom_handles (n + 1) rest, List.range'_succ]

theorem nsLeavesFrom_mem : ∀ (n : Nat) (l : List (Nat × Nat)) (x : HTree), x ∈ nsLeavesFrom n l →
    ∃ h p ns, x = .node h (.namespace p ns) [] ∧ n ≤ h ∧ h < n + l.length ∧ (p, ns) ∈ l
  | _, [], x, hx => by simp [nsLeavesFrom] at hx
  | n, (p, ns) :: rest, x, hx => by
    simp only [nsLeavesFrom, List.mem_cons] at hx
    rcases hx with rfl | hx
    · exact ⟨n, p, ns, rfl, Nat.le_refl _, by simp, List.mem_cons_self⟩
    · obtain ⟨h, q, m, rfl, h1, h2, h3⟩ := nsLeavesFrom_mem (n + 1) rest x hx
      exact ⟨h, q, m, rfl, by omega, by simp only [List.length_cons]; omega, List.mem_cons_of_mem _ h3⟩

/-- `addSpec` with the handles of the new leaves. -/
theorem addSpec_fresh : ∀ (order : List (Nat × Nat)) (A B : List HTree) (n : Nat),
    (∀ x ∈ A, (x.value.category == Category.namespace) = true) →
    (∀ y, B.head? = some y → (y.value.category == Category.namespace) = false) →
    ∃ New : List (Nat × Nat), (addSpec (A ++ B) n order).1 = A ++ nsLeavesFrom n New ++ B ∧
      (addSpec (A ++ B) n order).2 = n + New.length ∧ (∀ b ∈ New, b ∈ order)
  | [], A, B, n, _, _ => ⟨[], by simp [addSpec, nsLeavesFrom], by simp [addSpec], by simp⟩
  | (p, ns) :: rest, A, B, n, hA, hB => by
    obtain ⟨ht, hd⟩ := takeWhile_split (fun c : HTree => c.value.category == .namespace) A B hA hB
    simp only [addSpec]
    split
    · obtain ⟨New, h1, h2, h3⟩ := addSpec_fresh rest A B n hA hB
      exact ⟨New, h1, h2, fun b hb => List.mem_cons_of_mem _ (h3 b hb)⟩
    · rw [ht, hd]
      have hA' : ∀ x ∈ A ++ [HTree.node n (.namespace p ns) []],
          (x.value.category == Category.namespace) = true := by
        intro x hx
        rcases List.mem_append.mp hx with h | h
        · exact hA x h
        · simp at h; subst h; rfl
      obtain ⟨New, h1, h2, h3⟩ := addSpec_fresh rest (A ++ [.node n (.namespace p ns) []]) B (n + 1) hA' hB
      refine ⟨(p, ns) :: New, ?_, ?_, ?_⟩
      · rw [h1]; simp [nsLeavesFrom, List.append_assoc]
      · rw [h2]; simp only [List.length_cons]; omega
      · intro b hb
        rcases List.mem_cons.mp hb with rfl | hb
        · exact List.mem_cons_self
        · exact List.mem_cons_of_mem _ (h3 b hb)

/-- `clone_with_prefixes` on an element: `clone_node`, then the new declaration leaves between the
    namespace children of the clone's root and the rest, handles from the counter `clone_node` left. -/
theorem cloneWithPrefixes_fresh (f : Forest) (inv : f.Inv) (node hs name : Nat) (Ks : List HTree)
    (hget : f.get? node = some (.node hs (.element name) Ks)) (order : List (Nat × Nat)) :
    ∃ (c : Nat) (Kc : List HTree) (f1 : Forest) (New : List (Nat × Nat)),
      f.cloneNode node = (f1, some c) ∧ f1.roots = f.roots ++ [.node c (.element name) Kc] ∧
      f.next ≤ f1.next ∧ (∀ h ∈ handles (.node c (.element name) Kc), f.next ≤ h ∧ h < f1.next) ∧
      (f.cloneWithPrefixes node order).2 = some c ∧
      (f.cloneWithPrefixes node order).1.roots = f.roots ++ [.node c (.element name)
        (Kc.takeWhile (fun k => k.value.category == .namespace) ++ nsLeavesFrom f1.next New ++
          Kc.dropWhile (fun k => k.value.category == .namespace))] ∧
      (f.cloneWithPrefixes node order).1.next = f1.next + New.length ∧ (∀ b ∈ New, b ∈ order) := by
  obtain ⟨C, f1, h1, h2, h3, h4, h5, h6, h7, h8, h9, h10⟩ := cloneNode_full f inv node _ hget
  obtain ⟨c, vC, Kc⟩ := C
  have hvC : vC = .element name := by
    have e := congrArg Tree.value h6
    have e1 : (expectedClone f.consolidation (erase (.node hs (.element name) Ks))).value = .element name := by
      unfold expectedClone
      cases f.consolidation <;> simp [HTree.erase, mergeAdjacentText, Tree.value]
    rw [e1] at e
    simpa [erase, Tree.value] using e
  subst hvC
  have cl := cloning_after_clone f inv _ f1 h2 h4 h5 h10 c (.element name) Kc rfl
  obtain ⟨f2, ha, cl2, hn2, _⟩ := addPrefixes_spec order cl rfl
  have hiel : f1.isElement c = true := by
    simp [Forest.isElement, Forest.value?, cl.get?_c, HTree.value, Value.isElement]
  have hres : f.cloneWithPrefixes node order = (f2, some c) := by
    unfold Forest.cloneWithPrefixes
    rw [h1]
    simp only [HTree.handle, hiel, if_true, ha]
  have hA : ∀ x ∈ Kc.takeWhile (fun c => c.value.category == .namespace),
      (x.value.category == Category.namespace) = true := fun x hx => mem_takeWhile_imp _ Kc x hx
  have hB : ∀ y, (Kc.dropWhile (fun c => c.value.category == .namespace)).head? = some y →
      (y.value.category == Category.namespace) = false := fun y hy => head_dropWhile_not _ Kc y hy
  obtain ⟨New, e1, e2, e3⟩ := addSpec_fresh order _ _ f1.next hA hB
  rw [List.takeWhile_append_dropWhile] at e1 e2
  refine ⟨c, Kc, f1, New, h1, h2, h5, h4, by rw [hres], ?_, ?_, e3⟩
  · rw [hres]
    have := cl2.roots
    simp only [fcPlug] at this
    rw [this, e1]
  · rw [hres]; show f2.next = _; rw [hn2, e2]

end XotModel
