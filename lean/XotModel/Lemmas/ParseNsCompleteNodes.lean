/-
  Completeness of `WellNsDoc`, part 3: the pieces of the reconstruction that concern one node —
  the shape of a start tag's token run (`TagsOk`), runs of character data, the end tag — and the
  common tail of the induction (`complete_cons`): once the first node of a token list is known to
  be a well-formed spelling, soundness (`sim_node_ns`) gives the builder state after it.
-/
import XotModel.Lemmas.ParseNs
import XotModel.Lemmas.ParseNsCompleteStart
import XotModel.Model.TokenShape

namespace XotModel

/-- A text or CDATA token. -/
def Token.isCharsTok : Token → Bool
  | .text _ => true
  | .cdata _ _ => true
  | _ => false

/-- The guard of the completeness theorem on single tokens: no EMPTY text token (the tokenizer
    never emits one — `Token.Spelled` — but the builder would make an empty text node of it, which
    no spelling denotes) and no XML declaration (the builder skips a version-1.0 declaration
    wherever it stands; the theorem is stated on the list without them). -/
def Token.plain : Token → Bool
  | .text t => !t.text.isEmpty
  | .declaration _ _ _ _ => false
  | _ => true

theorem IdsFresh.join {a b seen : List Str} (ha : IdsFresh a seen) (hb : IdsFresh b (a.reverse ++ seen)) :
    IdsFresh (a ++ b) seen := by
  obtain ⟨han, had⟩ := ha
  obtain ⟨hbn, hbd⟩ := hb
  refine ⟨List.nodup_append.mpr ⟨han, hbn, ?_⟩, ?_⟩
  · intro x hx y hy hxy
    subst hxy
    exact hbd x hy (by simp [hx])
  · intro x hx
    simp only [List.mem_append] at hx
    rcases hx with hx | hx
    · exact had x hx
    · exact fun hm => hbd x hx (by simp [hm])

theorem idsFresh_nil (seen : List Str) : IdsFresh [] seen := ⟨List.nodup_nil, fun _ h => by cases h⟩

/-! ### The token run of a start tag -/

/-- After an element start: attribute tokens, then `>` or `/>` — or the list ends inside the tag. -/
theorem tagsOk_true_split : ∀ (ts : List Token), TagsOk true ts →
    (∃ toks e endSp rest, ts = toks ++ .elementEnd e endSp :: rest ∧ (∀ t ∈ toks, t.isAttrTok = true) ∧
      (e = .open ∨ e = .empty) ∧ TagsOk false rest) ∨ (∀ t ∈ ts, t.isAttrTok = true)
  | [], _ => Or.inr (fun _ h => by cases h)
  | t :: ts, h => by
    cases t with
    | «attribute» p l v sp =>
      simp only [TagsOk] at h
      rcases tagsOk_true_split ts h with ⟨toks, e, endSp, rest, h1, h2, h3, h4⟩ | h2
      · left
        refine ⟨.attribute p l v sp :: toks, e, endSp, rest, by rw [h1]; rfl, ?_, h3, h4⟩
        intro t ht
        simp only [List.mem_cons] at ht
        rcases ht with rfl | ht
        · rfl
        · exact h2 t ht
      · right
        intro t ht
        simp only [List.mem_cons] at ht
        rcases ht with rfl | ht
        · rfl
        · exact h2 t ht
    | elementEnd e sp =>
      cases e with
      | «open» =>
        simp only [TagsOk] at h
        exact Or.inl ⟨[], .open, sp, ts, rfl, fun _ h => (by cases h), Or.inl rfl, h⟩
      | empty =>
        simp only [TagsOk] at h
        exact Or.inl ⟨[], .empty, sp, ts, rfl, fun _ h => (by cases h), Or.inr rfl, h⟩
      | close p l => simp [TagsOk] at h
    | _ => simp [TagsOk] at h

/-- The start tag up to its `>` / `/>`: the items are a spelled start tag that passes the tests of
    the attribute arms, and the builder is in the state `run_start_ns` describes. -/
theorem start_tag_inv {b : Builder} {frames : List (List (Str × Str))} (hr : ReadyNs b frames)
    (pfx loc junk : StrSpan) (toks : List Token) (hall : ∀ t ∈ toks, t.isAttrTok = true) (tail : List Token)
    (bfin : Builder) (h : b.run (.elementStart pfx loc junk :: (toks ++ tail)) none = .ok bfin) :
    pfx.bareColon = false ∧ ∃ attrs : List NSAttr, attrs.map NSAttr.token = toks ∧
      (∀ a ∈ attrs, WellSpelled a.pieces) ∧ (∀ d ∈ declsOf attrs, reservedDecl d.1 d.2 = false) ∧
      ((declsOf attrs).map Prod.fst).Nodup ∧
      ((ordinary attrs).map (fun a => (a.pfx.text, a.loc.text))).Nodup ∧
      (∀ a ∈ attrs, a.pfx.bareColon = false) ∧
      Builder.run { b with
        env := (declIds b.env (declsOf attrs)).1,
        eb := some { (ElementBuilder.new pfx loc) with
          namespaces := (declIds b.env (declsOf attrs)).2,
          attributes := (ordinary attrs).map NSAttr.builder } } tail none = .ok bfin := by
  obtain ⟨b1, hstep, hrun1⟩ := run_cons_ok h
  have hq := Builder.step_ok_prefixOk hstep
  simp only [Token.prefixOk, Bool.not_eq_true'] at hq
  have hc := Builder.step_ok_core hstep
  simp only [Builder.stepCore, Step.ok.injEq] at hc
  subst hc
  refine ⟨hq, ?_⟩
  obtain ⟨attrs, h1, h2, h3, _, h5, _, h7, h8⟩ := run_attrs_inv tail none bfin toks hall (b.element pfx loc)
    (ElementBuilder.new pfx loc) [] rfl (by simp [ElementBuilder.new]) (fun _ hq => by cases hq) hrun1
  refine ⟨attrs, h1, h2, h3, h5, h7, h8, ?_⟩
  rw [← h1] at hrun1
  rw [run_attrs_ns tail none attrs (b.element pfx loc) (ElementBuilder.new pfx loc) rfl h2 h3
    (by intro d hd; simp [ElementBuilder.new] at hd) h5 (by simpa [ElementBuilder.new] using h7) h8] at hrun1
  simpa [Builder.element, ElementBuilder.new] using hrun1

/-! ### Runs of character data -/

/-- The longest run of character-data tokens at the front. -/
theorem chardata_split : ∀ (ts : List Token), ∃ cs ts', ts = cs ++ ts' ∧ (∀ t ∈ cs, t.isCharsTok = true) ∧
    (∀ t r, ts' = t :: r → t.isCharsTok = false)
  | [] => ⟨[], [], rfl, fun _ h => (by cases h), fun _ _ h => (by cases h)⟩
  | t :: ts => by
    cases hcd : t.isCharsTok with
    | false => exact ⟨[], t :: ts, rfl, fun _ h => (by cases h), fun t' r h => (by cases h; exact hcd)⟩
    | true =>
      obtain ⟨cs, ts', h1, h2, h3⟩ := chardata_split ts
      refine ⟨t :: cs, ts', by rw [h1]; rfl, ?_, h3⟩
      intro x hx
      simp only [List.mem_cons] at hx
      rcases hx with rfl | hx
      · exact hcd
      · exact h2 x hx

theorem tagsOk_chardata_append : ∀ (cs : List Token), (∀ t ∈ cs, t.isCharsTok = true) → ∀ (ts : List Token),
    TagsOk false (cs ++ ts) → TagsOk false ts
  | [], _, _, h => h
  | t :: cs, hcs, ts, h => by
    have ht := hcs t (by simp)
    have ih := tagsOk_chardata_append cs (fun x hx => hcs x (by simp [hx])) ts
    cases t with
    | text s => simp only [List.cons_append, TagsOk] at h; exact ih h
    | cdata s sp => simp only [List.cons_append, TagsOk] at h; exact ih h
    | _ => simp [Token.isCharsTok] at ht

/-- An accepted run of character-data tokens is the token list of well-formed parts. -/
theorem run_chardata_inv : ∀ (cs : List Token), (∀ t ∈ cs, t.isCharsTok = true) → (∀ t ∈ cs, t.plain = true) →
    ∀ (b : Builder) (rest : List Token) (bfin : Builder), b.run (cs ++ rest) none = .ok bfin →
    ∃ parts : List SPart, parts.map SPart.token = cs ∧ ∀ p ∈ parts, p.Well
  | [], _, _, _, _, _, _ => ⟨[], rfl, fun _ h => by cases h⟩
  | t :: cs, hcs, hpl, b, rest, bfin, h => by
    have ht := hcs t (by simp)
    have hp := hpl t (by simp)
    simp only [List.cons_append] at h
    obtain ⟨b1, hstep, hrun1⟩ := run_cons_ok h
    obtain ⟨parts, h1, h2⟩ := run_chardata_inv cs (fun x hx => hcs x (by simp [hx]))
      (fun x hx => hpl x (by simp [hx])) b1 rest bfin hrun1
    cases t with
    | text s =>
      simp only [Builder.step, Builder.text] at hstep
      split at hstep
      · cases hstep
      · rename_i c hc
        obtain ⟨ps, hw, hrp⟩ := parseContentGo_ok_pieces hc
        have hne : ps ≠ [] := by
          intro hps; subst hps
          simp only [renderPieces, List.flatMap_nil] at hrp
          simp [Token.plain, ← hrp] at hp
        refine ⟨.txt ps s.start :: parts, ?_, ?_⟩
        · simp only [List.map_cons, SPart.token, hrp, h1]
        · intro p hpm
          simp only [List.mem_cons] at hpm
          rcases hpm with rfl | hpm
          · exact ⟨hne, hw⟩
          · exact h2 p hpm
    | cdata s sp =>
      refine ⟨.cd s sp :: parts, by simp only [List.map_cons, SPart.token, h1], ?_⟩
      intro p hpm
      simp only [List.mem_cons] at hpm
      rcases hpm with rfl | hpm
      · trivial
      · exact h2 p hpm
    | _ => simp [Token.isCharsTok] at ht

/-! ### The end tag -/

/-- `close_element` succeeded on an open element: the name resolved to the element's name id and
    the written prefix is the one written in the start tag. -/
theorem closeElement_ok_inv {b b1 : Builder} {pfx loc sp : StrSpan} (h : b.closeElement pfx loc sp = .ok b1)
    {n : Nat} (hv : b.cur.value = .element n) :
    ∃ env1 nameId, elementNameId b.env b.nsStack pfx.text loc.text pfx.span = .ok (env1, nameId) ∧
      n = nameId ∧ samePrefix b.openPrefixes pfx.text = true := by
  unfold Builder.closeElement at h
  cases hn : elementNameId b.env b.nsStack pfx.text loc.text pfx.span with
  | panic => rw [hn] at h; cases h
  | err e env => rw [hn] at h; cases h
  | ok r =>
    obtain ⟨env1, nameId⟩ := r
    rw [hn] at h
    simp only [hv] at h
    split at h
    · cases h
    · split at h
      · cases h
      · rename_i hcond
        refine ⟨env1, nameId, rfl, ?_, ?_⟩
        · by_cases hne : n = nameId
          · exact hne
          · exfalso; apply hcond; simp [hne]
        · cases hs : samePrefix b.openPrefixes pfx.text with
          | true => rfl
          | false => exfalso; apply hcond; simp [hs]

/-- The end tag of an open element is accepted: it repeats the start tag's name as written. -/
theorem close_inv {b : Builder} {frames : List (List (Str × Str))} (hr : ReadyNs b frames) (wp ns loc : Str)
    (decls : List (Str × Str)) (nattrs : List ((Str × Str) × Str)) (idn0 : List (Str × Path)) (sp0 : SpanMap)
    (ek : Env) (tk : List Tree) (seenk : List Str) (idnk : List (Str × Path)) (spk : SpanMap)
    (hext : EnvApp (b.openedNs wp ns loc decls nattrs idn0 sp0).env ek)
    (cpfx cloc closeSp : StrSpan) (hl : ((flatScope frames).push decls).lookup wp = some ns) {b1 : Builder}
    (h : ((b.openedNs wp ns loc decls nattrs idn0 sp0).emitNs ek tk seenk idnk spk).step
      (.elementEnd (.close cpfx cloc) closeSp) = .ok b1) :
    cpfx.text = wp ∧ cloc.text = loc ∧ cpfx.bareColon = false := by
  have hq := Builder.step_ok_prefixOk h
  simp only [Token.prefixOk, Bool.not_eq_true'] at hq
  have hc := Builder.step_ok_core h
  simp only [Builder.stepCore] at hc
  have hx0 : EnvApp (declIds b.env decls).1 ek :=
    (((internNamespace_app _ ns).trans (internName_app _ loc _)).trans (encodeNsAttrs_app nattrs _)).trans hext
  obtain ⟨hF, hS⟩ := frames_push hr decls hx0
  obtain ⟨hF0, _⟩ := frames_push hr decls (EnvApp.refl _)
  obtain ⟨_, hu0, _⟩ := resolve_ok hF0 hl
  have hrn0 : (declIds b.env decls).1.internNamespace ns =
      ((declIds b.env decls).1, (declIds b.env decls).1.namespaces.idxOf ns) := internNamespace_of_mem hu0
  have huk : ns ∈ ek.namespaces := mem_ext hx0.2.1 hu0
  have hrnk : ek.internNamespace ns = (ek, ek.namespaces.idxOf ns) := internNamespace_of_mem huk
  -- the element's own name id, in the tables `ek`
  have hown : ek.internName loc (ek.namespaces.idxOf ns) =
      (ek, (((encodeDecls b.env decls).1.internNamespace ns).1.internName loc
        ((encodeDecls b.env decls).1.internNamespace ns).2).2) := by
    simp only [encodeDecls]
    rw [hrn0]
    simp only
    rw [← idxOf_app hx0.2.1 hu0]
    apply internName_again_app
    have := ((encodeNsAttrs_app nattrs _).trans hext)
    simp only [Builder.openedNs, encodeDecls, hrn0] at this
    rw [idxOf_app hx0.2.1 hu0]
    exact this
  have hmem : (loc, ek.namespaces.idxOf ns) ∈ ek.names := by
    have := internIn_mem ek.names (loc, ek.namespaces.idxOf ns)
    have he : (ek.internName loc (ek.namespaces.idxOf ns)).1 = ek := by rw [hown]
    have h2 : (ek.internName loc (ek.namespaces.idxOf ns)).1.names = (internIn ek.names (loc, ek.namespaces.idxOf ns)).1 := rfl
    rw [← h2, he] at this
    exact this
  obtain ⟨env1, nameId, hn, hid, hsame⟩ := closeElement_ok_inv hc (n := (((encodeDecls b.env decls).1.internNamespace ns).1.internName loc
    ((encodeDecls b.env decls).1.internNamespace ns).2).2) rfl
  simp only [Builder.emitNs, Builder.openedNs] at hn hsame
  have hcp : cpfx.text = wp := by
    simp only [samePrefix, List.head?_cons, beq_iff_eq, Option.some.injEq] at hsame
    exact hsame.symm
  refine ⟨hcp, ?_, hq⟩
  rw [hS, elementNameId_ns hF (by rw [hcp]; exact hl) cloc.text cpfx.span, hrnk] at hn
  simp only [Step.ok.injEq] at hn
  have hnid : nameId = ek.names.idxOf (cloc.text, ek.namespaces.idxOf ns) := by
    have := congrArg Prod.snd hn
    simp only at this
    rw [← this]; rfl
  have hown2 : (((encodeDecls b.env decls).1.internNamespace ns).1.internName loc
      ((encodeDecls b.env decls).1.internNamespace ns).2).2 = ek.names.idxOf (loc, ek.namespaces.idxOf ns) := by
    have := congrArg Prod.snd hown
    simp only at this
    rw [← this]; rfl
  rw [hown2, hnid] at hid
  have := idxOf_inj hmem hid
  simp only [Prod.mk.injEq] at this
  exact this.1.symm

/-! ### The common tail of the induction -/

/-- The statement of the reconstruction for token lists of length at most `n`: from a state
    between two nodes (`ReadyNs`), an accepted list whose final state is at document level begins
    with the tokens of a well-formed list of sibling spellings, followed by nothing or by an end
    tag. -/
def CompleteUpTo (n : Nat) : Prop :=
  ∀ (ts : List Token), ts.length ≤ n → TagsOk false ts → (∀ t ∈ ts, t.plain = true) →
  ∀ (b : Builder) (frames : List (List (Str × Str))) (bfin : Builder), ReadyNs b frames →
    (∀ t rest, ts = t :: rest → t.isCharsTok = true → HeadOk b) →
    bfin.cur.value.isDocument = true →
    b.run ts none = .ok bfin →
    ∃ sns rest, ts = NSNode.tokens.tokensList sns ++ rest ∧
      NSNode.Well.wellList (flatScope frames) sns ∧ noAdjCharsNs sns = true ∧
      IdsFresh (NPNode.ids.idsList (NSNode.denote.denoteList (flatScope frames) sns)) b.seenIds ∧
      (∀ sn more, sns = sn :: more → sn.isChars = true → ∃ t r, ts = t :: r ∧ t.isCharsTok = true) ∧
      (rest = [] ∨ ∃ p l sp r, rest = .elementEnd (.close p l) sp :: r) ∧ TagsOk false rest

/-- Once the first node `k` is known: soundness gives the state after it, the induction hypothesis
    the siblings. -/
theorem complete_cons {n : Nat} (ih : CompleteUpTo n) (k : NSNode) (ts' : List Token) (hlen : ts'.length ≤ n)
    (htags : TagsOk false ts') (hplain : ∀ t ∈ ts', t.plain = true)
    {b : Builder} {frames : List (List (Str × Str))} {bfin : Builder} (hr : ReadyNs b frames)
    (hwk : k.Well (flatScope frames)) (hhead : k.isChars = true → HeadOk b)
    (hidk : IdsFresh (NPNode.ids.idsList (k.denote (flatScope frames))) b.seenIds)
    (hk : k.isChars = true → ∃ t r, k.tokens = t :: r ∧ t.isCharsTok = true)
    (hnext : k.isChars = true → ∀ t r, ts' = t :: r → t.isCharsTok = false)
    (hdoc : bfin.cur.value.isDocument = true) (hrun : b.run (k.tokens ++ ts') none = .ok bfin) :
    ∃ sns rest, k.tokens ++ ts' = NSNode.tokens.tokensList sns ++ rest ∧
      NSNode.Well.wellList (flatScope frames) sns ∧ noAdjCharsNs sns = true ∧
      IdsFresh (NPNode.ids.idsList (NSNode.denote.denoteList (flatScope frames) sns)) b.seenIds ∧
      (∀ sn more, sns = sn :: more → sn.isChars = true → ∃ t r, k.tokens ++ ts' = t :: r ∧ t.isCharsTok = true) ∧
      (rest = [] ∨ ∃ p l sp r, rest = .elementEnd (.close p l) sp :: r) ∧ TagsOk false rest := by
  obtain ⟨hsimk, hheadk⟩ := sim_node_ns k frames hwk b hr hhead hidk
  obtain ⟨idn1, sp1, h1⟩ := hsimk ts' none
  rw [h1] at hrun
  have hext1 := encodeNsList_app (k.denote (flatScope frames)) b.env
  have hr1 := hr.emitNs hext1 (NPNode.encode.encodeList b.env (k.denote (flatScope frames))).2
    ((NPNode.ids.idsList (k.denote (flatScope frames))).reverse ++ b.seenIds) idn1 sp1
  obtain ⟨sns', rest, e1, e2, e3, e4, e5, e6, e7⟩ := ih ts' hlen htags hplain _ frames bfin hr1
    (by
      intro t r hts hcd
      cases hkc : k.isChars with
      | true => have := hnext hkc t r hts; rw [hcd] at this; cases this
      | false => exact hheadk hkc _ idn1 sp1)
    hdoc hrun
  refine ⟨k :: sns', rest, ?_, ⟨hwk, e2⟩, ?_, ?_, ?_, e6, e7⟩
  · simp only [NSNode.tokens.tokensList, List.append_assoc]; rw [← e1]
  · cases sns' with
    | nil => rfl
    | cons s2 more =>
      simp only [noAdjCharsNs, Bool.and_eq_true, Bool.not_eq_true', Bool.and_eq_false_iff]
      refine ⟨?_, e3⟩
      cases hkc : k.isChars with
      | false => exact Or.inl rfl
      | true =>
        right
        cases hs2 : s2.isChars with
        | false => rfl
        | true =>
          obtain ⟨t, r, hts, hcd⟩ := e5 s2 more rfl hs2
          have := hnext hkc t r hts
          rw [hcd] at this; cases this
  · simp only [NSNode.denote.denoteList, idsList_append]
    exact hidk.join e4
  · intro sn more hsn hc
    simp only [List.cons.injEq] at hsn
    obtain ⟨rfl, _⟩ := hsn
    obtain ⟨t, r, hkt, hcd⟩ := hk hc
    exact ⟨t, r ++ ts', by rw [hkt]; rfl, hcd⟩

end XotModel
