/-
  Lemmas for C12, part 24 (clone_with_prefixes serialises): small facts about `pathTo`,
  `unresolved_namespaces`, and the clone as a root of the result.
-/
import XotModel.Lemmas.FclonePrefix6

namespace XotModel
open HTree

mutual
  theorem pathTo_find (h : Nat) : ∀ (t : HTree),
      (∀ s rest, HTree.pathTo h t = some (s :: rest) → find? h t = some s) ∧
      (HTree.pathTo h t = none → find? h t = none) ∧ (find? h t = none → HTree.pathTo h t = none)
    | .node h' v ks => by
      obtain ⟨i1, i2, i3⟩ := pathToList_find h ks
      unfold HTree.pathTo find?
      by_cases e : h' = h
      · simp only [if_pos e]
        refine ⟨?_, ?_, ?_⟩
        · intro s rest hs
          simp only [Option.some.injEq, List.cons.injEq] at hs
          rw [hs.1]
        · intro hn; cases hn
        · intro hn; cases hn
      · simp only [if_neg e]
        refine ⟨?_, ?_, ?_⟩
        · intro s rest hs
          cases hp : HTree.pathToList h ks with
          | none => rw [hp] at hs; cases hs
          | some l =>
            rw [hp] at hs
            obtain ⟨s', rest', rfl, _⟩ := pathToList_head h ks l hp
            simp only [List.cons_append, Option.some.injEq, List.cons.injEq] at hs
            rw [← hs.1]
            exact i1 s' rest' hp
        · intro hn
          cases hp : HTree.pathToList h ks with
          | none => exact i2 hp
          | some l => rw [hp] at hn; cases hn
        · intro hn
          rw [i3 hn]
  theorem pathToList_find (h : Nat) : ∀ (ks : List HTree),
      (∀ s rest, HTree.pathToList h ks = some (s :: rest) → findList? h ks = some s) ∧
      (HTree.pathToList h ks = none → findList? h ks = none) ∧
      (findList? h ks = none → HTree.pathToList h ks = none)
    | [] => by simp [HTree.pathToList, findList?]
    | k :: ks => by
      obtain ⟨i1, i2, i3⟩ := pathTo_find h k
      obtain ⟨j1, j2, j3⟩ := pathToList_find h ks
      unfold HTree.pathToList findList?
      cases hp : HTree.pathTo h k with
      | some l =>
        obtain ⟨s', rest', rfl, _⟩ := pathTo_head h k l hp
        have := i1 s' rest' hp
        simp only [this]
        refine ⟨?_, ?_, ?_⟩
        · intro s rest hs
          simp only [Option.some.injEq, List.cons.injEq] at hs
          rw [hs.1]
        · intro hn; cases hn
        · intro hn; cases hn
      | none =>
        simp only [i2 hp]
        exact ⟨j1, j2, j3⟩
end

theorem findSome?_pathTo (h : Nat) (src : HTree) (rest : List HTree) : ∀ (L : List HTree),
    L.findSome? (HTree.pathTo h) = some (src :: rest) →
    findList? h L = some src ∧ ∃ r ∈ L, HTree.pathTo h r = some (src :: rest)
  | [], hs => by simp at hs
  | t :: L, hs => by
    rw [List.findSome?_cons] at hs
    simp only [findList?]
    cases hpt : HTree.pathTo h t with
    | some l =>
      rw [hpt] at hs
      cases hs
      rw [(pathTo_find h t).1 src rest hpt]
      exact ⟨rfl, t, by simp, hpt⟩
    | none =>
      rw [hpt] at hs
      rw [(pathTo_find h t).2.1 hpt]
      obtain ⟨h1, r, hr, h2⟩ := findSome?_pathTo h src rest L hs
      exact ⟨h1, r, by simp [hr], h2⟩

/-- The path of a live node and its lookup agree. -/
theorem Forest.get?_of_pathTo {f : Forest} {h : Nat} {src : HTree} {rest : List HTree}
    (hp : f.pathTo h = src :: rest) :
    f.get? h = some src ∧ ∃ r ∈ f.roots, HTree.pathTo h r = some (src :: rest) := by
  unfold Forest.pathTo at hp
  unfold Forest.get?
  have hs : f.roots.findSome? (HTree.pathTo h) = some (src :: rest) := by
    cases hfs : f.roots.findSome? (HTree.pathTo h) with
    | none => rw [hfs] at hp; simp at hp
    | some l => rw [hfs] at hp; simp at hp; rw [hp]
  exact findSome?_pathTo h src rest f.roots hs

/-- A root is its own path. -/
theorem pathTo_top (g : Forest) (R : List HTree) (c : Nat) (vc : Value) (K : List HTree)
    (hr : g.roots = R ++ [.node c vc K]) (hn : c ∉ handlesList R) : g.pathTo c = [.node c vc K] := by
  unfold Forest.pathTo
  rw [hr, List.findSome?_append]
  have : R.findSome? (HTree.pathTo c) = none := by
    clear hr
    induction R with
    | nil => rfl
    | cons a R ih =>
      simp only [handlesList, List.mem_append, not_or] at hn
      rw [List.findSome?_cons, (pathTo_find c a).2.2 (find?_none_of_not_mem c a hn.1)]
      exact ih hn.2
  rw [this]
  simp [HTree.pathTo]

theorem validList_mem (b : Bool) : ∀ (L : List HTree) (t : HTree), validList b L = true → t ∈ L →
    validTree b t = true
  | [], _, _, ht => by cases ht
  | k :: L, t, hv, ht => by
    obtain ⟨h1, h2⟩ := fc_validList_cons b k L hv
    rcases List.mem_cons.mp ht with rfl | ht'
    · exact h1
    · exact validList_mem b L t h2 ht'

/-! #### unresolved namespaces are never the empty or the XML namespace -/

theorem unresolvedHere_nontrivial (env : Env) (s : FStack) (name : Nat) (attrs : List Nat) :
    ∀ n ∈ unresolvedHere env s name attrs, n ≠ Env.noNamespace ∧ n ≠ Env.xmlNamespace := by
  intro n hn
  unfold unresolvedHere at hn
  rcases List.mem_append.mp hn with h | h
  · split at h
    · rename_i herr
      simp only [List.mem_singleton] at h
      subst h
      have : ¬ NameOK env s.top name false := by
        rw [← elementPrefix_ok]; simp [herr]
      exact ⟨fun e => this (Or.inl e), fun e => this (Or.inr (Or.inl e))⟩
    · cases h
  · obtain ⟨a, _, ha⟩ := List.mem_filterMap.mp h
    split at ha
    · rename_i herr
      cases ha
      have : ¬ NameOK env s.top a true := by
        rw [← attributePrefix_ok]; simp [herr]
      exact ⟨fun e => this (Or.inl e), fun e => this (Or.inr (Or.inl e))⟩
    · cases ha

mutual
  theorem unresolvedTree_nontrivial (env : Env) : ∀ (t : Tree) (s : FStack),
      ∀ n ∈ unresolvedTree env s t, n ≠ Env.noNamespace ∧ n ≠ Env.xmlNamespace
    | .node v ks, s => by
      intro n hn
      cases v with
      | element name =>
        simp only [unresolvedTree, List.mem_append] at hn
        rcases hn with h | h
        · exact unresolvedHere_nontrivial env _ _ _ n h
        · exact unresolvedList_nontrivial env ks _ n h
      | document => exact unresolvedList_nontrivial env ks s n (by simpa [unresolvedTree] using hn)
      | text x => exact unresolvedList_nontrivial env ks s n (by simpa [unresolvedTree] using hn)
      | pi t d => exact unresolvedList_nontrivial env ks s n (by simpa [unresolvedTree] using hn)
      | comment x => exact unresolvedList_nontrivial env ks s n (by simpa [unresolvedTree] using hn)
      | «attribute» a x => exact unresolvedList_nontrivial env ks s n (by simpa [unresolvedTree] using hn)
      | «namespace» a x => exact unresolvedList_nontrivial env ks s n (by simpa [unresolvedTree] using hn)
  theorem unresolvedList_nontrivial (env : Env) : ∀ (ks : List Tree) (s : FStack),
      ∀ n ∈ unresolvedList env s ks, n ≠ Env.noNamespace ∧ n ≠ Env.xmlNamespace
    | [], _ => by intro n hn; simp [unresolvedList] at hn
    | k :: ks, s => by
      intro n hn
      simp only [unresolvedList, List.mem_append] at hn
      rcases hn with h | h
      · exact unresolvedTree_nontrivial env k s n h
      · exact unresolvedList_nontrivial env ks s n h
end

/-- What `namespaces_in_scope` lists for a single tree comes from its declarations or is `xml`. -/
theorem inScope_single (t : Tree) (b : Nat × Nat) (hb : b ∈ namespacesInScopeChain [t]) :
    b ∈ t.nsDecls ∨ b.2 = Env.xmlNamespace := by
  unfold namespacesInScopeChain at hb
  simp only [traverseChain, List.append_nil, List.mem_append, List.mem_filter] at hb
  rcases hb with h | ⟨h, _⟩
  · exact Or.inl (traverseDecls_out_sub t.nsDecls [] b h)
  · simp only [basePrefixes, List.mem_singleton] at h
    right; rw [h]

/-- … more precisely. -/
theorem inScope_single' (t : Tree) (b : Nat × Nat) (hb : b ∈ namespacesInScopeChain [t]) :
    b ∈ t.nsDecls ∨ b = (Env.xmlPrefix, Env.xmlNamespace) := by
  unfold namespacesInScopeChain at hb
  simp only [traverseChain, List.append_nil, List.mem_append, List.mem_filter] at hb
  rcases hb with h | ⟨h, _⟩
  · exact Or.inl (traverseDecls_out_sub t.nsDecls [] b h)
  · simp only [basePrefixes, List.mem_singleton] at h
    exact Or.inr h

end XotModel
