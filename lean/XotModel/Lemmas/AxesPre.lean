/-
  The pre-order list of a tree, split around a node: what comes before it, its subtree, what
  comes after it; each part characterised by document order and the prefix relation.
-/
import XotModel.Lemmas.AxesSpec

namespace XotModel.Axes

/-- Normal nodes in document order. -/
def pre (t : Tree) : List Path := (allPre t).filter (isNormalAt t)

/-- Everything before `p` in the pre-order (ancestors included). -/
def beforeRel : Tree → Path → List Path
  | _, [] => []
  | .node _ ks, i :: p =>
    match ks[i]? with
    | none => []
    | some k => [] :: (allPreList 0 (ks.take i) ++ (beforeRel k p).map (i :: ·))

/-- Everything after the subtree of `p` in the pre-order. -/
def afterRel : Tree → Path → List Path
  | _, [] => []
  | .node _ ks, i :: p =>
    match ks[i]? with
    | none => []
    | some k => (afterRel k p).map (i :: ·) ++ allPreList (i + 1) (ks.drop (i + 1))

/-- Everything before `p` that is not an ancestor of `p`. -/
def precRel : Tree → Path → List Path
  | _, [] => []
  | .node _ ks, i :: p =>
    match ks[i]? with
    | none => []
    | some k => allPreList 0 (ks.take i) ++ (precRel k p).map (i :: ·)

/-- Proper prefixes of `p`, shortest first. -/
def ancRel : Path → List Path
  | [] => []
  | i :: p => [] :: (ancRel p).map (i :: ·)

theorem allPreList_append (j : Nat) (a b : List Tree) :
    allPreList j (a ++ b) = allPreList j a ++ allPreList (j + a.length) b := by
  induction a generalizing j with
  | nil => simp [allPreList]
  | cons k a ih =>
    simp only [List.cons_append, allPreList, ih, List.append_assoc, List.length_cons]
    congr 3; omega

theorem mem_allPreList {q : Path} {j : Nat} {ks : List Tree} (h : q ∈ allPreList j ks) :
    ∃ j' q', q = j' :: q' ∧ j ≤ j' ∧ j' < j + ks.length ∧ ∃ k, ks[j' - j]? = some k ∧ q' ∈ allPre k := by
  induction ks generalizing j with
  | nil => simp [allPreList] at h
  | cons k ks ih =>
    simp only [allPreList, List.mem_append, List.mem_map] at h
    rcases h with ⟨q', hq', rfl⟩ | h
    · exact ⟨j, q', rfl, Nat.le_refl _, by simp, k, by simp, hq'⟩
    · obtain ⟨j', q', rfl, h1, h2, k', hk', hq'⟩ := ih h
      refine ⟨j', q', rfl, by omega, by simp at h2 ⊢; omega, k', ?_, hq'⟩
      have : j' - j = (j' - (j + 1)) + 1 := by omega
      rw [this]; simpa using hk'

/-- The pre-order splits around a valid node. -/
theorem allPre_split : ∀ (t : Tree) (p : Path), Valid t p →
    allPre t = beforeRel t p ++ ((allPre (subAt t p)).map (p ++ ·) ++ afterRel t p)
  | t, [], _ => by simp [beforeRel, afterRel]
  | .node v ks, i :: p, h => by
    unfold Valid at h
    simp only [Tree.at?] at h
    cases hk : ks[i]? with
    | none => rw [hk] at h; cases h
    | some k =>
      rw [hk] at h
      have hi : i < ks.length := by
        rcases Nat.lt_or_ge i ks.length with h' | h'
        · exact h'
        · rw [List.getElem?_eq_none h'] at hk; cases hk
      have hsub : subAt (.node v ks) (i :: p) = subAt k p := by simp [subAt, Tree.at?, hk]
      have ih := allPre_split k p h
      have hks : ks = ks.take i ++ k :: ks.drop (i + 1) := by
        have := List.getElem?_eq_some_iff.mp hk
        obtain ⟨_, rfl⟩ := this
        rw [← List.drop_eq_getElem_cons hi, List.take_append_drop]
      have hlen : (ks.take i).length = i := by simp; omega
      simp only [beforeRel, afterRel, hk, hsub]
      conv => lhs; rw [allPre, hks, allPreList_append, hlen, allPreList, ih]
      simp [List.map_append, Function.comp_def]

theorem mem_afterRel : ∀ (t : Tree) (p q : Path), q ∈ afterRel t p →
    docLt p q = true ∧ p.isPrefixOf q = false
  | _, [], q, h => by simp [afterRel] at h
  | .node v ks, i :: p, q, h => by
    simp only [afterRel] at h
    cases hk : ks[i]? with
    | none => rw [hk] at h; simp at h
    | some k =>
      rw [hk] at h
      simp only [List.mem_append, List.mem_map] at h
      rcases h with ⟨q', hq', rfl⟩ | h
      · have := mem_afterRel k p q' hq'
        simp [this.1, this.2]
      · obtain ⟨j', q', rfl, h1, _, _⟩ := mem_allPreList h
        have hlt : i < j' := by omega
        have hne : ¬ (i = j') := by omega
        simp [hlt, List.isPrefixOf_cons_cons, hne]

theorem mem_beforeRel : ∀ (t : Tree) (p q : Path), q ∈ beforeRel t p → docLt q p = true
  | _, [], q, h => by simp [beforeRel] at h
  | .node v ks, i :: p, q, h => by
    simp only [beforeRel] at h
    cases hk : ks[i]? with
    | none => rw [hk] at h; simp at h
    | some k =>
      rw [hk] at h
      simp only [List.mem_cons, List.mem_append, List.mem_map] at h
      rcases h with rfl | h | ⟨q', hq', rfl⟩
      · rfl
      · obtain ⟨j', q', rfl, _, h2, _⟩ := mem_allPreList h
        have : j' < i := by
          have : (ks.take i).length ≤ i := by simp; omega
          omega
        simp [this]
      · simp [mem_beforeRel k p q' hq']

theorem mem_sub_prefix (p x : Path) : p.isPrefixOf (p ++ x) = true := by simp

/-! ### The parts as filters of the pre-order -/

theorem filter_split {α} (P : α → Bool) (a b c : List α)
    (ha : ∀ x ∈ a, P x = false) (hb : ∀ x ∈ b, P x = true) (hc : ∀ x ∈ c, P x = false) :
    (a ++ (b ++ c)).filter P = b := by
  have e1 : a.filter P = [] := List.filter_eq_nil_iff.mpr (by intro x hx; simp [ha x hx])
  have e3 : c.filter P = [] := List.filter_eq_nil_iff.mpr (by intro x hx; simp [hc x hx])
  have e2 : b.filter P = b := List.filter_eq_self.mpr hb
  rw [List.filter_append, List.filter_append, e1, e2, e3]
  simp

theorem docLt_prefix_false {p q : Path} (h : docLt q p = true) : p.isPrefixOf q = false := by
  cases h' : p.isPrefixOf q
  · rfl
  · by_cases e : p = q
    · subst e; rw [docLt_irrefl] at h; cases h
    · have := docLt_asymm (docLt_of_prefix h' e); rw [this] at h; cases h

/-- Descendant-or-self: the nodes `p` is a prefix of are the subtree of `p`, in pre-order. -/
theorem filter_prefix_allPre {t : Tree} {p : Path} (h : Valid t p) :
    (allPre t).filter (fun q => p.isPrefixOf q) = (allPre (subAt t p)).map (p ++ ·) := by
  rw [allPre_split t p h]
  apply filter_split
  · intro x hx; exact docLt_prefix_false (mem_beforeRel t p x hx)
  · intro x hx
    obtain ⟨y, _, rfl⟩ := List.mem_map.mp hx
    simp
  · intro x hx; exact (mem_afterRel t p x hx).2

/-- Following: after `p` in document order and not below `p`. -/
theorem filter_following_allPre {t : Tree} {p : Path} (h : Valid t p) :
    (allPre t).filter (fun q => docLt p q && !p.isPrefixOf q) = afterRel t p := by
  rw [allPre_split t p h, ← List.append_assoc]
  have : ∀ (a c : List Path) (P : Path → Bool), (∀ x ∈ a, P x = false) → (∀ x ∈ c, P x = true) →
      (a ++ c).filter P = c := by
    intro a c P ha hc
    have := filter_split P a c [] ha hc (by simp)
    simpa using this
  apply this
  · intro x hx
    rcases List.mem_append.mp hx with hx | hx
    · simp [docLt_asymm (mem_beforeRel t p x hx)]
    · obtain ⟨y, _, rfl⟩ := List.mem_map.mp hx
      simp
  · intro x hx
    have := mem_afterRel t p x hx
    simp [this.1, this.2]

/-- Everything before `p` in document order. -/
theorem filter_before_allPre {t : Tree} {p : Path} (h : Valid t p) :
    (allPre t).filter (fun q => docLt q p) = beforeRel t p := by
  rw [allPre_split t p h]
  have : ∀ (a c : List Path) (P : Path → Bool), (∀ x ∈ a, P x = true) → (∀ x ∈ c, P x = false) →
      (a ++ c).filter P = a := by
    intro a c P ha hc
    have := filter_split P [] a c (by simp) ha hc
    simpa using this
  apply this
  · intro x hx; exact mem_beforeRel t p x hx
  · intro x hx
    rcases List.mem_append.mp hx with hx | hx
    · obtain ⟨y, _, rfl⟩ := List.mem_map.mp hx
      by_cases e : p = p ++ y
      · rw [← e, docLt_irrefl]
      · exact docLt_asymm (docLt_of_prefix (by simp) e)
    · exact docLt_asymm (mem_afterRel t p x hx).1

theorem filter_beforeRel_prec : ∀ (t : Tree) (p : Path),
    (beforeRel t p).filter (fun q => !q.isPrefixOf p) = precRel t p
  | _, [] => by simp [beforeRel, precRel]
  | .node v ks, i :: p => by
    simp only [beforeRel, precRel]
    cases hk : ks[i]? with
    | none => simp
    | some k =>
      have ih := filter_beforeRel_prec k p
      have h1 : (allPreList 0 (ks.take i)).filter (fun q => !q.isPrefixOf (i :: p)) =
          allPreList 0 (ks.take i) := by
        apply List.filter_eq_self.mpr
        intro x hx
        obtain ⟨j', q', rfl, _, h2, _⟩ := mem_allPreList hx
        have : (ks.take i).length ≤ i := by simp; omega
        have : ¬ (j' = i) := by omega
        simp [List.isPrefixOf_cons_cons, this]
      simp only [List.filter_cons, List.isPrefixOf_nil_left, Bool.not_true, List.filter_append, h1]
      simp only [Bool.false_eq_true, if_false, List.filter_map, Function.comp_def,
        List.isPrefixOf_cons_cons, beq_self_eq_true, Bool.true_and, ih]

theorem filter_beforeRel_anc : ∀ (t : Tree) (p : Path), Valid t p →
    (beforeRel t p).filter (fun q => q.isPrefixOf p) = ancRel p
  | _, [], _ => by simp [beforeRel, ancRel]
  | .node v ks, i :: p, h => by
    unfold Valid at h
    simp only [Tree.at?] at h
    simp only [beforeRel, ancRel]
    cases hk : ks[i]? with
    | none => rw [hk] at h; cases h
    | some k =>
      rw [hk] at h
      have ih := filter_beforeRel_anc k p h
      have h1 : (allPreList 0 (ks.take i)).filter (fun q => q.isPrefixOf (i :: p)) = [] := by
        apply List.filter_eq_nil_iff.mpr
        intro x hx
        obtain ⟨j', q', rfl, _, h2, _⟩ := mem_allPreList hx
        have : (ks.take i).length ≤ i := by simp; omega
        have : ¬ (j' = i) := by omega
        simp [List.isPrefixOf_cons_cons, this]
      simp only [List.filter_cons, List.isPrefixOf_nil_left, if_true, List.filter_append, h1,
        List.nil_append]
      simp only [List.filter_map, Function.comp_def, List.isPrefixOf_cons_cons, beq_self_eq_true,
        Bool.true_and, ih]

/-- Preceding: before `p` in document order and not an ancestor of `p`. -/
theorem filter_preceding_allPre {t : Tree} {p : Path} (h : Valid t p) :
    (allPre t).filter (fun q => docLt q p && !q.isPrefixOf p) = precRel t p := by
  rw [← filter_beforeRel_prec, ← filter_before_allPre h, List.filter_filter]
  congr 1; funext q; exact Bool.and_comm _ _

/-- Proper ancestors: the proper prefixes of `p`, shortest first. -/
theorem filter_ancestor_allPre {t : Tree} {p : Path} (h : Valid t p) :
    (allPre t).filter (fun q => q.isPrefixOf p && q != p) = ancRel p := by
  rw [← filter_beforeRel_anc t p h, ← filter_before_allPre h, List.filter_filter]
  congr 1; funext q
  cases hp : q.isPrefixOf p
  · simp
  · by_cases e : q = p
    · subst e; simp [docLt_irrefl]
    · simp [e, docLt_of_prefix hp e]

end XotModel.Axes
