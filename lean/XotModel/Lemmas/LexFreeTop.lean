/-
  XotModel.Lemmas.LexFreeTop — the layout theorems of the reference tokenizer at string level:

      LexOKL m.isFragment lts  →  lexMode m (renderL lts) = the tokens of lts (up to positions), no error
      LDoc.ok d                →  lexDocument d.render    = the tokens of d   (up to positions), no error

  `LDoc` adds the byte-order mark, the XML declaration (with its own layout) and white space after
  the last top-level item.
-/
import XotModel.Lemmas.LexFree
import XotModel.Lemmas.LexFreeDecl
import XotModel.Model.ParseString

namespace XotModel.Lex.Free

open XotModel.Lex XotModel.Lex.Stream XotModel.Lex.Canon

/-- The text of a document after BOM and declaration begins with white space or `<`. -/
theorem prolog_head {lts : List LToken} {trail : Str} (hok : lts.all LToken.okL = true)
    (hn : lexNest false .prolog (lts.map LToken.token) = true) (ht : isWs trail = true) :
    ∀ c, (renderL lts ++ trail).head? = some c → c = '<' ∨ isXmlSpace c = true := by
  intro c hc
  cases lts with
  | nil =>
    simp only [renderL, List.flatMap_nil, List.nil_append] at hc
    cases trail with
    | nil => simp at hc
    | cons x xs =>
      simp only [List.head?_cons, Option.some.injEq] at hc
      subst hc; exact .inr (isWs_cons ht).1
  | cons lt rest =>
    rw [renderL_cons_app] at hc
    simp only [List.all_cons, Bool.and_eq_true] at hok
    obtain ⟨tok, w, e1, e2, b⟩ := lt
    have hw : isWs w = true := by
      have := hok.1; simp only [LToken.okL, Bool.and_eq_true] at this; exact this.1
    cases w with
    | cons x xs =>
      simp only [List.cons_append, List.head?_cons, Option.some.injEq] at hc
      subst hc; exact .inr (isWs_cons hw).1
    | nil =>
      simp only [List.map_cons] at hn
      simp only [List.nil_append] at hc
      cases tok with
      | comment a sp => simp [LToken.body, renderToken] at hc; exact .inl hc.symm
      | pi a c sp => cases c <;> (simp [LToken.body] at hc; exact .inl hc.symm)
      | elementStart p l sp => simp [LToken.body, renderToken] at hc; exact .inl hc.symm
      | _ => simp [lexNest] at hn

/-- The loop on a document after the BOM: declaration (if any), then the items. -/
theorem lexLoop_doc (d : LDoc) (h : d.ok = true) (p0 position : Nat) :
    ∃ ts', lexLoop ⟨⟨p0, d.declText ++
        (renderL d.items ++ d.trail)⟩, .declaration, 0, false⟩ position = (ts', none) ∧
      ReadAsList ts' d.tokens := by
  simp only [LDoc.ok, LexOKL, Bool.and_eq_true] at h
  obtain ⟨⟨hdecl, ⟨hok, hn⟩, hl⟩, ht⟩ := h
  cases hd : d.decl with
  | none =>
    simp only [LDoc.tokens, LDoc.declText, hd, List.nil_append]
    exact lexLoop_layout false d.items d.trail .prolog _ position ⟨rfl, rfl, .inl rfl⟩ hok hn hl ht rfl
  | some x =>
    simp only [hd] at hdecl
    simp only [LDoc.tokens, LDoc.declText, hd, List.cons_append, List.nil_append]
    obtain ⟨t', pos', hp, he⟩ := parseDeclaration_L p0 x (renderL d.items ++ d.trail) hdecl
    have hx : litXmlDecl.isPrefixOf (x.render ++ (renderL d.items ++ d.trail)) = true := by
      rw [List.isPrefixOf_iff_prefix, render_app]
      exact List.prefix_append _ _
    have hstep : parseNextImpl ⟨⟨p0, x.render ++ (renderL d.items ++ d.trail)⟩, .declaration, 0, false⟩ =
        .token t' ⟨⟨pos', renderL d.items ++ d.trail⟩, .afterDeclaration, 0, false⟩ := by
      have hend : (Stream.mk p0 (x.render ++ (renderL d.items ++ d.trail))).atEnd = false := by
        simp [LDecl.render, atEnd]
      unfold parseNextImpl
      simp only [hend, Bool.false_eq_true, if_false, startsWith, hx, if_true, hp, Step.ofParse]
    exact loop_reads rfl (by simp [LDecl.render, atEnd]) (by simp) hstep (Token.readAs_of_erase he rfl)
      (lexLoop_layout false d.items d.trail .prolog _ _ ⟨rfl, rfl, .inr (.inl rfl)⟩ hok hn hl ht rfl)

theorem bom_ne_lt : ('\uFEFF' : Char) ≠ '<' := by decide
theorem bom_not_space : isXmlSpace '\uFEFF' = false := by decide
theorem utf8Len_bom : utf8Len '\uFEFF' = 3 := by decide

end XotModel.Lex.Free

namespace XotModel

open XotModel.Lex XotModel.Lex.Canon XotModel.Lex.Free

/-- **Layout theorem, whole documents.**  BOM or not, XML declaration (any layout) or not, every
    layout of the tokens, white space between the top-level items and after the last one: the
    reference tokenizer returns the document's tokens (the `Declaration` token first when there is
    a declaration) up to byte positions, and no error. -/
theorem lexDocument_layout_doc (d : LDoc) (h : d.ok = true) :
    ∃ ts', lexDocument d.render = (ts', none) ∧ ReadAsList ts' d.tokens := by
  unfold lexDocument
  cases hb : d.bom with
  | true =>
    have e : Tokenizer.ofStr d.render = ⟨⟨3, d.declText ++
        (renderL d.items ++ d.trail)⟩, .declaration, 0, false⟩ := by
      simp [Tokenizer.ofStr, LDoc.render, hb, Stream.ofStr, Stream.curr?, Stream.adv, strLen, utf8Len_bom]
    rw [e]
    exact lexLoop_doc d h 3 _
  | false =>
    have hne : ((Stream.ofStr d.render).curr? == some '\uFEFF') = false := by
      simp only [LDoc.render, hb, Bool.false_eq_true, if_false, List.nil_append, Stream.ofStr, Stream.curr?]
      have hh := h
      simp only [LDoc.ok, LexOKL, Bool.and_eq_true] at hh
      obtain ⟨⟨_, ⟨hok, hn⟩, _⟩, ht⟩ := hh
      cases hd : d.decl with
      | some x => simp [LDoc.declText, hd, LDecl.render]
      | none =>
        simp only [LDoc.declText, hd, List.nil_append]
        cases hc : (renderL d.items ++ d.trail).head? with
        | none => rfl
        | some c =>
          have hw : isWs d.trail = true := by
            simp only [trailOK, Bool.and_eq_true] at ht; exact ht.1
          rcases prolog_head hok hn hw c hc with rfl | hs
          · decide
          · have : c ≠ '\uFEFF' := by intro e; rw [e, bom_not_space] at hs; cases hs
            simpa using this
    have e : Tokenizer.ofStr d.render = ⟨⟨0, d.declText ++
        (renderL d.items ++ d.trail)⟩, .declaration, 0, false⟩ := by
      simp only [Tokenizer.ofStr, hne, Bool.false_eq_true, if_false]
      simp [LDoc.render, hb, Stream.ofStr]
    rw [e]
    exact lexLoop_doc d h 0 _

/-- **Layout theorem, document mode** (no BOM, no declaration, nothing after the last token). -/
theorem lexDocument_layout (lts : List LToken) (h : LexOKL false lts = true) :
    ∃ ts', lexDocument (renderL lts) = (ts', none) ∧ ReadAsList ts' (lts.map LToken.token) := by
  have := lexDocument_layout_doc { items := lts } (by simp [LDoc.ok, h, trailOK, isWs])
  simpa [LDoc.render, LDoc.tokens, LDoc.declText] using this

/-- **Layout theorem, fragment mode.** -/
theorem lexFragment_layout (lts : List LToken) (h : LexOKL true lts = true) :
    ∃ ts', lexFragment (renderL lts) = (ts', none) ∧ ReadAsList ts' (lts.map LToken.token) := by
  simp only [LexOKL, Bool.and_eq_true] at h
  obtain ⟨⟨hok, hn⟩, hl⟩ := h
  exact lexLoop_layout true lts [] (.content 0) (Tokenizer.ofFragment (renderL lts)) _ ⟨rfl, rfl, rfl⟩
    hok hn hl (by simp [trailOK, isWs]) (by simp [Tokenizer.ofFragment, Stream.ofStr])

/-- **Layout theorem, either mode**: for every token list that meets `LexOKL` — of any length and
    nesting depth, with any quote per attribute and any white space wherever the grammar allows
    it — the reference tokenizer reads the text back as the same tokens up to byte positions (an
    absent prefix at offset 0: `ReadAsList`), without error. -/
theorem lexMode_layout (m : Mode) (lts : List LToken) (h : LexOKL m.isFragment lts = true) :
    ReadAsList (lexMode m (renderL lts)).1 (lts.map LToken.token) ∧
      (lexMode m (renderL lts)).2 = none := by
  cases m with
  | document =>
    obtain ⟨ts', e, he⟩ := lexDocument_layout lts h
    rw [show lexMode .document (renderL lts) = (ts', none) from e]; exact ⟨he, rfl⟩
  | fragment =>
    obtain ⟨ts', e, he⟩ := lexFragment_layout lts h
    rw [show lexMode .fragment (renderL lts) = (ts', none) from e]; exact ⟨he, rfl⟩

/-- The canonical spelling is one of the layouts. -/
def LToken.canonical (t : Token) : LToken :=
  match t with
  | .attribute _ _ _ _ => { token := t, lead := [' '] }
  | .pi _ (some _) _ => { token := t, ws1 := [' '] }
  | _ => { token := t }

theorem renderLT_canonical (t : Token) : renderLT (LToken.canonical t) = renderToken t := by
  cases t with
  | pi a c sp => cases c <;> simp [LToken.canonical, renderLT, LToken.body, renderToken]
  | elementEnd e sp => cases e <;> simp [LToken.canonical, renderLT, LToken.body, renderToken]
  | «attribute» p l v sp => simp [LToken.canonical, renderLT, LToken.body, renderToken, quoteChar]
  | _ => simp [LToken.canonical, renderLT, LToken.body]

theorem renderL_canonical (ts : List Token) : renderL (ts.map LToken.canonical) = renderTokens ts := by
  induction ts with
  | nil => rfl
  | cons t ts ih => simp [renderL, renderTokens, renderLT_canonical] at ih ⊢; rw [ih]

end XotModel
