/-
  FparseHist, part 4: what a parse step adds to the forest, and the UNEDITED parsed document.

    fph_parse_new_root      an accepted text adds exactly one parentless tree; it erases to the builder's tree,
                            its root is the document node the step answers; everything else is untouched
    fph_parse_init          from `Xot::new()`: the forest is that one tree
    fph_accepted_value_conditions   the value-level hypotheses of the C01 round trip (`envOK`, `valueOK` at every
                            node, distinct xml:id values, `singleRoot`, `namesWritable`) are CONSEQUENCES of
                            acceptance (`parse`, well-formed tables) outside the two recorded guards
                            (`NoReservedDecls`, `PlainPiTargets`, Model/AcceptedGuard.lean)
-/
import XotModel.Lemmas.FparseHistIds
import XotModel.Lemmas.ReachRepresentable

namespace XotModel
open HTree

namespace PStore

/-- An accepted text adds one parentless tree, numbered from the store's next handle; flags, the other
    trees and their handles are untouched; the tables are the builder's. -/
theorem fph_parse_new_root (s : PStore) {m : Mode} {text : Str} {p : Parsed}
    (h : parseString m s.env text = .ok p) :
    (s.step (.parse m text)).forest =
      { s.forest with roots := s.forest.roots ++ [ofTree s.forest.next p.tree], next := s.forest.next + p.tree.size } ∧
    (s.step (.parse m text)).env = p.env ∧
    (ofTree s.forest.next p.tree).erase = p.tree ∧ (ofTree s.forest.next p.tree).handle = s.forest.next ∧
    (ofTree s.forest.next p.tree).value.isDocument = true := by
  rw [fph_step_parse_ok s h]
  refine ⟨rfl, rfl, fph_erase_ofTree _ _, HTree.handle_ofTree _ _, ?_⟩
  rw [HTree.value_ofTree, fph_parsed_document h]; rfl

/-- From `Xot::new()`: after `parse(text)` of an accepted text the forest is the parsed document. -/
theorem fph_parse_init (env : Env) {m : Mode} {text : Str} {p : Parsed} (h : parseString m env text = .ok p) :
    ((init env).run [.parse m text]).forest.roots = [ofTree 0 p.tree] ∧
    ((init env).run [.parse m text]).forest.everOff = false ∧
    ((init env).run [.parse m text]).env = p.env := by
  have := fph_parse_new_root (init env) (m := m) (text := text) (p := p) h
  refine ⟨?_, ?_, this.2.1⟩
  · show ((init env).step (.parse m text)).forest.roots = _
    rw [this.1]; rfl
  · show ((init env).step (.parse m text)).forest.everOff = _
    rw [this.1]; rfl

end PStore

/-- **For the unedited tree the value-level conditions are consequences of acceptance** (document mode,
    well-formed tables, outside the two guards). -/
theorem fph_accepted_value_conditions {env : Env} {text : Str} {p : Parsed} (henv : envOK env = true)
    (h : parseString .document env text = .ok p) (hg : NoReservedDecls p.env p.tree = true)
    (hpi : PlainPiTargets p.env p.tree = true) :
    envOK p.env = true ∧ p.tree.allNodes (fun v _ => valueOK p.env v) = true ∧
    (xmlIdValues p.env p.tree).Nodup ∧ singleRoot p.tree = true ∧ namesWritable p.env p.tree [] = some true := by
  have hrep := Accepted.accepted_representable henv h hg hpi
  have hwr := Accepted.accepted_writable henv h hg hpi
  obtain ⟨hs, hd⟩ := build_sound (by unfold parseString at h; exact h)
  have hS : Reach.Structural p.tree :=
    ⟨Reach.forall_mono (fun _ _ h => h.1) _ hs, Reach.forall_mono (fun _ _ h => h.2.1) _ hs,
     Reach.forall_mono (fun _ _ h => h.2.2.2) _ hs⟩
  have hA : NoAdjacentText p.tree := Reach.forall_mono (fun _ _ h => h.2.2.1) _ hs
  have heq := (Reach.representable_eq p.env hS hA).2
  rw [heq] at hrep
  simp only [Bool.and_eq_true, decide_eq_true_eq] at hrep
  exact ⟨hrep.1.1.1.1, hrep.1.1.2, hrep.1.2, hrep.2, hwr⟩

end XotModel
