/-
  C10 and the round trip, part 3: `create_missing_prefixes` on the ROOT of a document or fragment (the
  loop over the element children) and on an element anywhere keeps the tree inside the C01 domain of
  the new tables; hypotheses of the writability theorems (`C10_repair_document_writable`) from
  `nodeOK`; `Repair.stripNs` is the neutral eraser `dropNs`.
-/
import XotModel.Lemmas.RepairRoundTrip

namespace XotModel.Repair
open XotModel

theorem kid_element_of_values {t1 t : Tree} (h : t1.kids.map Tree.value = t.kids.map Tree.value) {i : Nat}
    (hk : ∃ k, t.kids[i]? = some k ∧ k.value.isElement = true) :
    ∃ k1, t1.kids[i]? = some k1 ∧ k1.value.isElement = true := by
  obtain ⟨k, hk, hv⟩ := hk
  have := congrArg (fun l => l[i]?) h
  simp only [List.getElem?_map, hk, Option.map_some] at this
  cases h1 : t1.kids[i]? with
  | none => rw [h1] at this; cases this
  | some k1 =>
    rw [h1] at this
    simp only [Option.map_some, Option.some.injEq] at this
    exact ⟨k1, rfl, by rw [this]; exact hv⟩

/-- The loop over the element children of the root. -/
theorem repairElements_keeps : ∀ (idxs : List Nat) (env : Env) (t : Tree), envOK env = true →
    nameTableOK env = true → t.allNodes (nodeOK env) = true → t.value.isElement = false →
    (∀ i ∈ idxs, ∃ k, t.kids[i]? = some k ∧ k.value.isElement = true) →
    ∀ (env' : Env) (t' : Tree), repairElements idxs [] env t = .ok (env', t') →
      PrefixExt env env' ∧ Keeps env' t' t
  | [], env, t, _, _, hok, _, _, env', t', h => by
    simp only [repairElements, Outcome.ok.injEq, Prod.mk.injEq] at h
    obtain ⟨rfl, rfl⟩ := h
    exact ⟨PrefixExt.refl _, Keeps.refl hok⟩
  | i :: rest, env, t, he, htab, hok, hne, hidx, env', t', h => by
    simp only [repairElements, List.nil_append] at h
    cases hr : repairElement env t [i] with
    | err e => rw [hr] at h; cases h
    | panic => rw [hr] at h; cases h
    | ok r =>
      obtain ⟨env1, t1⟩ := r
      rw [hr] at h
      simp only at h
      obtain ⟨k, hk, hv⟩ := hidx i (by simp)
      obtain ⟨name, ks, rfl⟩ := isElement_node hv
      have hat : t.at? [i] = some (.node (.element name) ks) := by
        have := at?_child t [] i t rfl
        simpa [hk] using this
      obtain ⟨e1, k1⟩ := repairElement_keeps env he htab t hok [i] name ks hat env1 t1 hr
      have hne1 : t1.value.isElement = false := by rw [k1.value]; exact hne
      obtain ⟨e2, k2⟩ := repairElements_keeps rest env1 t1 (envOK_ext e1 he) (nameTableOK_ext e1 htab) k1.ok hne1
        (fun j hj => kid_element_of_values (k1.top hne) (hidx j (by simp [hj]))) env' t' h
      exact ⟨e1.trans e2, k2.trans (Keeps.ext e2 k1)⟩

/-- `create_missing_prefixes(root)` of a document or fragment. -/
theorem createMissingPrefixes_keeps (env : Env) (he : envOK env = true) (htab : nameTableOK env = true)
    (t : Tree) (hok : t.allNodes (nodeOK env) = true) (hdoc : t.value.isDocument = true)
    (env' : Env) (t' : Tree) (h : createMissingPrefixes env t [] = .ok (env', t')) :
    PrefixExt env env' ∧ Keeps env' t' t := by
  obtain ⟨_, hrun⟩ := createMissingPrefixes_document env t [] t rfl hdoc env' t' h
  have hne : t.value.isElement = false := by
    cases hv : t.value <;> simp [hv, Value.isDocument] at hdoc <;> rfl
  exact repairElements_keeps _ env t he htab hok hne (fun i hi => mem_elementKidIndices.mp hi) env' t' hrun

/-- `create_missing_prefixes(element)` for an element anywhere in the tree. -/
theorem createMissingPrefixes_element_keeps (env : Env) (he : envOK env = true) (htab : nameTableOK env = true)
    (t : Tree) (hok : t.allNodes (nodeOK env) = true) (path : Path) (name : Nat) (ks : List Tree)
    (hat : t.at? path = some (.node (.element name) ks))
    (env' : Env) (t' : Tree) (h : createMissingPrefixes env t path = .ok (env', t')) :
    PrefixExt env env' ∧ Keeps env' t' t := by
  have : createMissingPrefixes env t path = repairElement env t path := by
    simp [createMissingPrefixes, hat, Tree.value, Value.isDocument, Value.isElement]
  rw [this] at h
  exact repairElement_keeps env he htab t hok path name ks hat env' t' h

/-! ### Back to `Representable` -/

theorem representableFragment_ext {env env' : Env} (h : PrefixExt env env') {t : Tree}
    (hr : RepresentableFragment env t = true) : RepresentableFragment env' t = true := by
  obtain ⟨h1, h2, h3, h4⟩ := (representableFragment_iff env t).mp hr
  exact (representableFragment_iff env' t).mpr
    ⟨envOK_ext h h1, h2, allNodes_ext h t h3, by rw [xmlIdValues_ext h]; exact h4⟩

theorem representable_ext {env env' : Env} (h : PrefixExt env env') {t : Tree}
    (hr : Representable env t = true) : Representable env' t = true := by
  simp only [Representable, Bool.and_eq_true] at hr ⊢
  exact ⟨representableFragment_ext h hr.1, hr.2⟩

theorem allNodes_of_representableFragment {env : Env} {t : Tree} (hr : RepresentableFragment env t = true) :
    envOK env = true ∧ t.value.isDocument = true ∧ t.allNodes (nodeOK env) = true := by
  obtain ⟨h1, h2, h3, _⟩ := (representableFragment_iff env t).mp hr
  exact ⟨h1, h2, h3⟩

/-- **The call keeps a fragment in the C01 domain** (new tables). -/
theorem createMissingPrefixes_representableFragment (env : Env) (t : Tree)
    (hr : RepresentableFragment env t = true) (htab : nameTableOK env = true) (env' : Env) (t' : Tree)
    (h : createMissingPrefixes env t [] = .ok (env', t')) :
    PrefixExt env env' ∧ RepresentableFragment env' t' = true ∧ nameTableOK env' = true := by
  obtain ⟨h1, h2, h3⟩ := allNodes_of_representableFragment hr
  obtain ⟨e, k⟩ := createMissingPrefixes_keeps env h1 htab t h3 h2 env' t' h
  exact ⟨e, representableFragment_of_keeps (representableFragment_ext e hr) k, nameTableOK_ext e htab⟩

/-- … and a document. -/
theorem createMissingPrefixes_representable (env : Env) (t : Tree)
    (hr : Representable env t = true) (htab : nameTableOK env = true) (env' : Env) (t' : Tree)
    (h : createMissingPrefixes env t [] = .ok (env', t')) :
    PrefixExt env env' ∧ Representable env' t' = true ∧ nameTableOK env' = true := by
  have hr' := hr
  simp only [Representable, Bool.and_eq_true] at hr'
  obtain ⟨h1, h2, h3⟩ := allNodes_of_representableFragment hr'.1
  obtain ⟨e, k⟩ := createMissingPrefixes_keeps env h1 htab t h3 h2 env' t' h
  exact ⟨e, representable_of_keeps (representable_ext e hr) k, nameTableOK_ext e htab⟩

/-- … and a call on an element anywhere inside a document. -/
theorem createMissingPrefixes_element_representable (env : Env) (t : Tree)
    (hr : Representable env t = true) (htab : nameTableOK env = true) (path : Path) (name : Nat)
    (ks : List Tree) (hat : t.at? path = some (.node (.element name) ks)) (env' : Env) (t' : Tree)
    (h : createMissingPrefixes env t path = .ok (env', t')) :
    PrefixExt env env' ∧ Representable env' t' = true ∧ nameTableOK env' = true := by
  have hr' := hr
  simp only [Representable, Bool.and_eq_true] at hr'
  obtain ⟨h1, _, h3⟩ := allNodes_of_representableFragment hr'.1
  obtain ⟨e, k⟩ := createMissingPrefixes_element_keeps env h1 htab t h3 path name ks hat env' t' h
  exact ⟨e, representable_of_keeps (representable_ext e hr) k, nameTableOK_ext e htab⟩

/-! ### The hypotheses of the C10 writability theorems, from `nodeOK` -/

theorem envOk_of_envOK {env : Env} (he : envOK env = true) : EnvOk env := by
  have f := envFacts_of_envOK he
  have hp1 : env.prefixStr Env.xmlPrefix ≠ [] := by rw [f.p1]; simp
  have h0 := f.p0
  unfold EnvOk
  simp only [Env.prefixStr, Env.emptyPrefix, Env.xmlPrefix, List.getD_eq_getElem?_getD] at h0 hp1
  cases hp : env.prefixes with
  | nil => rw [hp] at hp1; simp at hp1
  | cons a rest => rw [hp] at h0; simp at h0; simp [h0]

theorem kids_unique_of_allNodes {env : Env} {t : Tree} (h : t.allNodes (nodeOK env) = true) :
    ∀ (i : Nat) (k : Tree), t.kids[i]? = some k → k.value.isElement = true → UniqueBelow k := by
  intro i k hk _
  cases t with
  | node v ks => exact uniqueBelow_of_allNodes k (allNodes_kid h (List.mem_of_getElem? hk))

theorem kids_leaves_of_allNodes {env : Env} {t : Tree} (h : t.allNodes (nodeOK env) = true)
    (hdoc : t.value.isDocument = true) :
    ∀ (i : Nat) (k : Tree), t.kids[i]? = some k → k.value.isElement = false → k.kids = [] := by
  intro i k hk hne
  cases t with
  | node v ks =>
    simp only [Tree.kids] at hk
    have hmem := List.mem_of_getElem? hk
    obtain ⟨_, hkind, _⟩ := (nodeOK_iff env v ks).mp (nodeOK_of_allNodes h)
    have hv : v.isElement = false := by
      cases v <;> simp [Tree.value, Value.isDocument] at hdoc <;> rfl
    have hnorm := hkind.2.1 hv k hmem
    have hnd := hkind.2.2 k hmem
    have hko := allNodes_kid h hmem
    cases k with
    | node kv kk =>
      simp only [Tree.kids]
      apply allNodes_leaf env hko
      cases kv <;> simp_all [Tree.value, Value.isLeafKind, Value.isElement, Value.isDocument]

mutual
theorem stripNs_eq_dropNs : ∀ t : Tree, stripNs t = dropNs t
  | .node v ks => by simp only [stripNs, dropNs, stripNsKids_eq_dropNsList ks]
theorem stripNsKids_eq_dropNsList : ∀ ks : List Tree, stripNsKids ks = dropNsList ks
  | [] => by simp [stripNsKids, dropNsList]
  | k :: ks => by
    simp only [stripNsKids, dropNsList, stripNs_eq_dropNs k, stripNsKids_eq_dropNsList ks]
end

/-- Two `nodeOK` trees with the same skeleton (namespace nodes erased) are `deep_equal`. -/
theorem deepEqual_of_stripNs {env : Env} {a b : Tree} (ha : a.allNodes (nodeOK env) = true)
    (hb : b.allNodes (nodeOK env) = true) (h : stripNs a = stripNs b) : deepEqual a b = true :=
  deepEqual_of_dropNs a b (valid_of_nodeOK a ha) (valid_of_nodeOK b hb)
    (by rw [← stripNs_eq_dropNs, ← stripNs_eq_dropNs, h])

end XotModel.Repair
