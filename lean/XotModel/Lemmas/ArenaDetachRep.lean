/-
  XotModel.Lemmas.ArenaDetachRep — `NodeId::detach` of a live node on a well-formed arena is the
  list operation: the node leaves its parent's child list and becomes parentless; nothing
  else changes; it cannot panic.
-/
import XotModel.Lemmas.ArenaDetach

namespace XotModel
namespace Arena

/-- List-level `detach`. -/
def Shape.detach (g : Shape) (i : Nat) : Shape :=
  match g.par i with
  | none => g
  | some p => { g with par := fun j => if j = i then none else g.par j,
                       kids := fun q => if q = p then (g.kids p).erase i else g.kids q }

theorem ext_of_slot {a a' : Arena} (h : ∀ j, a'.slot j = a.slot j) (hf : a'.firstFree = a.firstFree)
    (hl : a'.lastFree = a.lastFree) : a' = a := by
  obtain ⟨n, f, l⟩ := a
  obtain ⟨n', f', l'⟩ := a'
  simp only at hf hl
  subst hf hl
  have : n' = n := List.ext_getElem? h
  subst this
  rfl

theorem slot_modOpt_map (b a : Arena) (o : Option Nat) (f : Slot → Slot) (j : Nat) :
    (b.modOpt (o.map a.idAt) f).slot j = if o = some j then (b.slot j).map f else b.slot j := by
  cases o with
  | none => simp
  | some k => simp

theorem newFirst_erase (f : Nat → NodeId) (L R : List Nat) (i : Nat) :
    newFirst ((L ++ i :: R).head?.map f) (L.getLast?.map f) (R.head?.map f) = (L ++ R).head?.map f := by
  cases L with
  | nil => simp [newFirst]
  | cons y L' =>
    have : ((y :: L').getLast?).isSome := by simp [List.getLast?_cons]
    cases hl : (y :: L').getLast? with
    | none => rw [hl] at this; cases this
    | some l => simp [newFirst]

theorem newLast_erase (f : Nat → NodeId) (L R : List Nat) (i : Nat) :
    newLast ((L ++ i :: R).getLast?.map f) (L.getLast?.map f) (R.head?.map f) = (L ++ R).getLast?.map f := by
  cases R with
  | nil => simp [newLast]
  | cons y R' =>
    simp only [List.head?_cons, Option.map_some, newLast, List.getLast?_append, List.getLast?_cons_cons]
    cases hl : (y :: R').getLast? with
    | none => simp at hl
    | some l => simp

theorem Reach.mono {par par' : Nat → Option Nat} (h : ∀ i q, par' i = some q → par i = some q) {i j : Nat}
    (hr : Reach par' i j) : Reach par i j := by
  induction hr with
  | refl => exact .refl _
  | step hp _ ih => exact .step (h _ _ hp) ih

theorem getLast?_cons_ne_nil_mem {j : Nat} {A B : List Nat} (hB : B ≠ []) (h : (A ++ j :: B).getLast? = some j) :
    j ∈ B := by
  rw [List.getLast?_append] at h
  cases B with
  | nil => exact absurd rfl hB
  | cons b B' =>
    rw [List.getLast?_cons_cons] at h
    cases hb : (b :: B').getLast? with
    | none => simp at hb
    | some l =>
      rw [hb] at h
      simp at h
      subst h
      exact List.mem_of_getLast? hb

/-- Facts about a live node from `Rep`. -/
theorem Rep.liveId_slot {a : Arena} {x : NodeId} (hx : LiveId a x) :
    ∃ s, a.slot x.index0 = some s ∧ 0 ≤ s.stamp ∧ x = ⟨x.index0 + 1, s.stamp⟩ := by
  obtain ⟨_, ⟨s, hs, h0⟩, he⟩ := hx
  exact ⟨s, hs, h0, by rw [← idAt_of_slot hs]; exact he.symm⟩

/-- `detach` on a well-formed arena. -/
theorem Rep.detach {a : Arena} {g : Shape} (r : Rep a g) (x : NodeId) (hx : LiveId a x) :
    ∃ a', Arena.detach a x = .done a' () ∧ Rep a' (g.detach x.index0) ∧ MetaEq a a' := by
  obtain ⟨s, hs, h0, _⟩ := Rep.liveId_slot hx
  generalize hi : x.index0 = i at *
  have P := r.ptrs i s hs h0
  have live_kids : ∀ p c, c ∈ g.kids p → Live a c := fun p c hc => (r.kidsLive p c hc).2.1
  cases hpar : g.par i with
  | none =>
    -- a parentless node: nothing changes
    have hsp : s.parent = none := by rw [P.parent, hpar]; rfl
    obtain ⟨hsv, hsn⟩ := P.root hpar
    have hd := detach_eq a x s (by rw [hi]; exact hs) (by rw [hsp]; exact InRange.none a)
      (by rw [hsv]; exact InRange.none a) (by rw [hsn]; exact InRange.none a)
      (by rw [hsp]; intro id h; cases h) (by rw [hsv]; intro id h; cases h) (by rw [hsn]; intro id h; cases h)
    rw [hi, hsp, hsv, hsn] at hd
    have hsame : (unlink (a.mod i clearSib) none none none).mod i (fun s => { s with parent := none }) = a := by
      apply ext_of_slot
      · intro j
        simp only [unlink, modOpt_none, slot_mod]
        by_cases hij : i = j
        · subst hij
          simp only [if_true, hs, Option.map_some, clearSib]
          congr 1
          cases s; simp_all
        · simp [hij]
      · rfl
      · rfl
    rw [hsame] at hd
    refine ⟨a, hd, ?_, MetaEq.refl a⟩
    simp only [Shape.detach, hpar]
    exact r
  | some p =>
    obtain ⟨L, R, hk, hsv, hsn⟩ := P.sib p hpar
    have hsp : s.parent = (some p).map a.idAt := by rw [P.parent, hpar]
    have hnd : (L ++ i :: R).Nodup := by rw [← hk]; exact r.kidsNodup p
    have hpi : p ≠ i := r.par_ne hpar
    have hiL : i ∉ L := fun hm => (List.nodup_append.mp hnd).2.2 i hm i (by simp) rfl
    have hiR : i ∉ R := by
      have := (List.nodup_append.mp hnd).2.1
      exact (List.nodup_cons.mp this).1
    have hLR : ∀ y, y ∈ L → y ∈ R → False := fun y h1 h2 =>
      (List.nodup_append.mp hnd).2.2 y h1 y (List.mem_cons_of_mem _ h2) rfl
    have hLp : ∀ y, y ∈ L → y ∈ g.kids p := fun y h => by rw [hk]; exact List.mem_append_left _ h
    have hRp : ∀ y, y ∈ R → y ∈ g.kids p := fun y h => by rw [hk]; exact List.mem_append_right _ (List.mem_cons_of_mem _ h)
    have hkp : ∀ y, y ∈ g.kids p → y ≠ p := fun y h e => by
      subst e; exact r.par_ne (r.kidsLive _ _ h).2.2 rfl
    have hprevne : L.getLast? ≠ some i := fun h => hiL (List.mem_of_getLast? h)
    have hnextne : R.head? ≠ some i := fun h => hiR (List.mem_of_mem_head? h)
    have hprevp : L.getLast? ≠ some p := fun h => hkp p (hLp p (List.mem_of_getLast? h)) rfl
    have hnextp : R.head? ≠ some p := fun h => hkp p (hRp p (List.mem_of_mem_head? h)) rfl
    have hplive : Live a p := (r.live_of_par hpar).2
    obtain ⟨sp, hsp', hp0⟩ := hplive
    have Pp := r.ptrs p sp hsp' hp0
    have hd := detach_eq a x s (by rw [hi]; exact hs)
      (by rw [hsp]; exact Rep.inRange_map _ (fun j hj => by cases hj; exact ⟨sp, hsp', hp0⟩))
      (by rw [hsv]; exact Rep.inRange_map _ (fun j hj => live_kids p j (hLp j (List.mem_of_getLast? hj))))
      (by rw [hsn]; exact Rep.inRange_map _ (fun j hj => live_kids p j (hRp j (List.mem_of_mem_head? hj))))
      (by rw [hsp, hi]; intro id h; simp at h; subst h; simpa using hpi)
      (by rw [hsv, hi]; intro id h
          cases hl : L.getLast? with
          | none => rw [hl] at h; cases h
          | some l => rw [hl] at h; simp at h; subst h; simp; intro e; subst e; exact hprevne hl)
      (by rw [hsn, hi]; intro id h
          cases hl : R.head? with
          | none => rw [hl] at h; cases h
          | some l => rw [hl] at h; simp at h; subst h; simp; intro e; subst e; exact hnextne hl)
    rw [hi, hsp, hsv, hsn] at hd
    -- the arena reached, slot by slot
    generalize hD : ((unlink (a.mod i clearSib) (Option.map a.idAt (some p)) (Option.map a.idAt L.getLast?)
        (Option.map a.idAt R.head?)).mod i (fun s => { s with parent := none })) = D at hd
    have hends : (a.mod i clearSib).parentEnds (Option.map a.idAt (some p)) = (sp.first, sp.last) := by
      simp [parentEnds, hpi, hpi.symm, hsp']
    have hslot : ∀ j, D.slot j =
        if i = j then (a.slot j).map (fun s => { clearSib s with parent := none })
        else if p = j then (a.slot j).map (fun s => { s with
            first := newFirst sp.first (L.getLast?.map a.idAt) (R.head?.map a.idAt),
            last := newLast sp.last (L.getLast?.map a.idAt) (R.head?.map a.idAt) })
        else if L.getLast? = some j then (a.slot j).map (fun s => { s with next := R.head?.map a.idAt })
        else if R.head? = some j then (a.slot j).map (fun s => { s with prev := L.getLast?.map a.idAt })
        else a.slot j := by
      intro j
      rw [← hD]
      simp only [unlink, slot_mod, slot_modOpt_map, hends, Option.some.injEq]
      by_cases h1 : i = j
      · subst h1
        simp only [if_true, hprevne, hnextne, hpi, if_false]
        cases a.slot i <;> simp
      · by_cases h2 : p = j
        · subst h2
          simp only [h1, if_false, if_true, hprevp, hnextp]
        · by_cases h3 : L.getLast? = some j
          · have h4 : R.head? ≠ some j := fun h => hLR j (List.mem_of_getLast? h3) (List.mem_of_mem_head? h)
            simp only [h1, h2, h3, h4, if_false, if_true]
          · simp only [h1, h2, h3, if_false]
    have hM : MetaEq a D := by
      rw [← hD]
      exact (MetaEq.mod a i (f := clearSib) (fun s => ⟨rfl, rfl⟩)).trans
        ((MetaEq.unlink _ _ _ _).trans (MetaEq.mod _ i (fun s => ⟨rfl, rfl⟩)))
    have hidAt : D.idAt = a.idAt := funext hM.idAt
    refine ⟨D, hd, ?_, hM⟩
    have hg' : g.detach i = ⟨fun j => if j = i then none else g.par j,
        fun q => if q = p then L ++ R else g.kids q, g.free⟩ := by
      simp only [Shape.detach, hpar, hk, erase_split hnd]
    rw [hg']
    have hmemLR : ∀ y, y ∈ L ++ R → y ∈ g.kids p ∧ y ≠ i := by
      intro y hy
      rcases List.mem_append.mp hy with h | h
      · exact ⟨hLp y h, fun e => hiL (e ▸ h)⟩
      · exact ⟨hRp y h, fun e => hiR (e ▸ h)⟩
    refine ⟨hM.stampRange r.stampRange, hM.dataLive r.dataLive, hM.freeOk r.free, ?_, ?_, ?_, ?_, ?_⟩
    · -- kidsLive
      intro q c hc
      simp only at hc ⊢
      by_cases hq : q = p
      · subst hq
        rw [if_pos rfl] at hc
        obtain ⟨hc1, hc2⟩ := hmemLR c hc
        obtain ⟨l1, l2, l3⟩ := r.kidsLive q c hc1
        exact ⟨(hM.live _).mpr l1, (hM.live _).mpr l2, by rw [if_neg hc2]; exact l3⟩
      · rw [if_neg hq] at hc
        obtain ⟨l1, l2, l3⟩ := r.kidsLive q c hc
        have hci : c ≠ i := by
          intro e; subst e; rw [hpar] at l3; cases l3; exact hq rfl
        exact ⟨(hM.live _).mpr l1, (hM.live _).mpr l2, by rw [if_neg hci]; exact l3⟩
    · -- parKids
      intro c q hcq
      simp only at hcq ⊢
      by_cases hci : c = i
      · rw [if_pos hci] at hcq; cases hcq
      · rw [if_neg hci] at hcq
        obtain ⟨l1, l2⟩ := r.parKids c q hcq
        refine ⟨(hM.live _).mpr l1, ?_⟩
        by_cases hq : q = p
        · subst hq
          rw [if_pos rfl]
          rw [hk] at l2
          rcases List.mem_append.mp l2 with h | h
          · exact List.mem_append_left _ h
          · rcases List.mem_cons.mp h with h | h
            · exact absurd h hci
            · exact List.mem_append_right _ h
        · rw [if_neg hq]; exact l2
    · -- kidsNodup
      intro q
      simp only
      by_cases hq : q = p
      · rw [if_pos hq]
        have := List.nodup_append.mp hnd
        refine List.nodup_append.mpr ⟨this.1, (List.nodup_cons.mp this.2.1).2, ?_⟩
        intro y h1 z h2 e
        exact this.2.2 y h1 z (List.mem_cons_of_mem _ h2) e
      · rw [if_neg hq]; exact r.kidsNodup q
    · -- acyclic
      intro c q hcq hreach
      simp only at hcq hreach
      have hmono : ∀ c q, (if c = i then none else g.par c) = some q → g.par c = some q := by
        intro c q h
        by_cases hci : c = i
        · rw [if_pos hci] at h; cases h
        · rw [if_neg hci] at h; exact h
      exact r.acyclic c q (hmono c q hcq) (Reach.mono hmono hreach)
    · -- ptrs
      intro j s' hs' h0'
      rw [hslot] at hs'
      by_cases h1 : i = j
      · -- the detached node itself
        subst h1
        rw [if_pos rfl, hs] at hs'
        simp only [Option.map_some, Option.some.injEq] at hs'
        subst hs'
        refine ⟨?_, ?_, ?_, ?_, ?_⟩
        · simp
        · simp only [clearSib, hidAt, if_neg hpi.symm]; exact P.first
        · simp only [clearSib, hidAt, if_neg hpi.symm]; exact P.last
        · intro _; simp [clearSib]
        · intro q hq; simp at hq
      · rw [if_neg h1] at hs'
        by_cases h2 : p = j
        · -- the old parent
          subst h2
          rw [if_pos rfl, hsp'] at hs'
          simp only [Option.map_some, Option.some.injEq] at hs'
          subst hs'
          have hne : p ≠ i := hpi
          refine ⟨?_, ?_, ?_, ?_, ?_⟩
          · simp only [hidAt, if_neg hne]; exact Pp.parent
          · simp only [hidAt, if_pos rfl]
            rw [Pp.first, hk]; exact newFirst_erase _ L R i
          · simp only [hidAt, if_pos rfl]
            rw [Pp.last, hk]; exact newLast_erase _ L R i
          · intro hn; simp only [if_neg hne] at hn; exact Pp.root hn
          · intro q hq
            simp only [if_neg hne] at hq
            obtain ⟨L', R', e1, e2, e3⟩ := Pp.sib q hq
            have hqp : q ≠ p := r.par_ne hq
            exact ⟨L', R', by simp only [if_neg hqp]; exact e1, by rw [hidAt]; exact e2, by rw [hidAt]; exact e3⟩
        · rw [if_neg h2] at hs'
          have hji : j ≠ i := fun e => h1 e.symm
          have hjp : j ≠ p := fun e => h2 e.symm
          by_cases hjk : j ∈ g.kids p
          · -- a sibling of the detached node
            obtain ⟨sj, hsj, hsj0⟩ := live_kids p j hjk
            have Pj := r.ptrs j sj hsj hsj0
            have hparj : g.par j = some p := (r.kidsLive p j hjk).2.2
            obtain ⟨L1, R1, e1, e2, e3⟩ := Pj.sib p hparj
            have hjLR : j ∈ L ∨ j ∈ R := by
              rw [hk] at hjk
              rcases List.mem_append.mp hjk with h | h
              · exact Or.inl h
              · rcases List.mem_cons.mp h with h | h
                · exact absurd h hji
                · exact Or.inr h
            rcases hjLR with hjL | hjR
            · -- before the detached node
              obtain ⟨A, B, hAB⟩ := List.append_of_mem hjL
              have hdec : g.kids p = A ++ j :: (B ++ i :: R) := by rw [hk, hAB]; simp
              have hndj : (A ++ j :: (B ++ i :: R)).Nodup := by rw [← hdec]; exact r.kidsNodup p
              obtain ⟨hA, hB⟩ := split_unique (by rw [← e1]; exact r.kidsNodup p) (e1.symm.trans hdec)
              subst hA hB
              have hnotR : R.head? ≠ some j := fun h => hLR j hjL (List.mem_of_mem_head? h)
              by_cases hB : B = []
              · subst hB
                have hlast : L.getLast? = some j := by rw [hAB]; simp
                rw [if_pos hlast, hsj] at hs'
                simp only [Option.map_some, Option.some.injEq] at hs'
                subst hs'
                refine ⟨?_, ?_, ?_, ?_, ?_⟩
                · simp only [hidAt, if_neg hji]; exact Pj.parent
                · simp only [hidAt, if_neg hjp]; exact Pj.first
                · simp only [hidAt, if_neg hjp]; exact Pj.last
                · intro hn; simp only [if_neg hji] at hn; rw [hparj] at hn; cases hn
                · intro q hq
                  simp only [if_neg hji] at hq
                  rw [hparj] at hq; cases hq
                  refine ⟨L1, R, by simp only [if_pos rfl, hAB]; simp, by rw [hidAt]; exact e2, by rw [hidAt]⟩
              · have hlast : L.getLast? ≠ some j := by
                  intro h
                  rw [hAB] at h
                  have hjB := getLast?_cons_ne_nil_mem hB h
                  have := (List.nodup_append.mp hndj).2.1
                  exact (List.nodup_cons.mp this).1 (List.mem_append_left _ hjB)
                rw [if_neg hlast, if_neg hnotR] at hs'
                rw [hsj] at hs'; cases hs'
                refine ⟨?_, ?_, ?_, ?_, ?_⟩
                · simp only [hidAt, if_neg hji]; exact Pj.parent
                · simp only [hidAt, if_neg hjp]; exact Pj.first
                · simp only [hidAt, if_neg hjp]; exact Pj.last
                · intro hn; simp only [if_neg hji] at hn; rw [hparj] at hn; cases hn
                · intro q hq
                  simp only [if_neg hji] at hq
                  rw [hparj] at hq; cases hq
                  refine ⟨L1, B ++ R, by simp only [if_pos rfl, hAB]; simp, by rw [hidAt]; exact e2, ?_⟩
                  rw [hidAt, e3]
                  cases B with
                  | nil => exact absurd rfl hB
                  | cons b B' => simp
            · -- after the detached node
              obtain ⟨A, B, hAB⟩ := List.append_of_mem hjR
              have hdec : g.kids p = (L ++ i :: A) ++ j :: B := by rw [hk, hAB]; simp
              obtain ⟨hA, hB⟩ := split_unique (by rw [← e1]; exact r.kidsNodup p) (e1.symm.trans hdec)
              subst hA hB
              have hnotL : L.getLast? ≠ some j := fun h => hLR j (List.mem_of_getLast? h) hjR
              have hndR : R.Nodup := by
                have := (List.nodup_append.mp hnd).2.1
                exact (List.nodup_cons.mp this).2
              by_cases hA : A = []
              · subst hA
                have hhead : R.head? = some j := by rw [hAB]; simp
                rw [if_neg hnotL, if_pos hhead, hsj] at hs'
                simp only [Option.map_some, Option.some.injEq] at hs'
                subst hs'
                refine ⟨?_, ?_, ?_, ?_, ?_⟩
                · simp only [hidAt, if_neg hji]; exact Pj.parent
                · simp only [hidAt, if_neg hjp]; exact Pj.first
                · simp only [hidAt, if_neg hjp]; exact Pj.last
                · intro hn; simp only [if_neg hji] at hn; rw [hparj] at hn; cases hn
                · intro q hq
                  simp only [if_neg hji] at hq
                  rw [hparj] at hq; cases hq
                  refine ⟨L, R1, by simp only [if_pos rfl, hAB]; simp, by rw [hidAt], by rw [hidAt]; exact e3⟩
              · have hhead : R.head? ≠ some j := by
                  intro h
                  rw [hAB] at h hndR
                  cases A with
                  | nil => exact hA rfl
                  | cons c A' =>
                    simp at h
                    subst h
                    have := (List.nodup_cons.mp hndR).1
                    exact this (by simp)
                rw [if_neg hnotL, if_neg hhead] at hs'
                rw [hsj] at hs'; cases hs'
                refine ⟨?_, ?_, ?_, ?_, ?_⟩
                · simp only [hidAt, if_neg hji]; exact Pj.parent
                · simp only [hidAt, if_neg hjp]; exact Pj.first
                · simp only [hidAt, if_neg hjp]; exact Pj.last
                · intro hn; simp only [if_neg hji] at hn; rw [hparj] at hn; cases hn
                · intro q hq
                  simp only [if_neg hji] at hq
                  rw [hparj] at hq; cases hq
                  refine ⟨L ++ A, R1, by simp only [if_pos rfl, hAB]; simp, ?_, by rw [hidAt]; exact e3⟩
                  rw [hidAt, e2]
                  congr 1
                  simp only [List.getLast?_append]
                  cases hgl : A.getLast? with
                  | none => exact absurd (List.getLast?_eq_none_iff.mp hgl) hA
                  | some l =>
                    have : (i :: A).getLast? = some l := by
                      cases A with
                      | nil => exact absurd rfl hA
                      | cons c A' => rw [List.getLast?_cons_cons]; exact hgl
                    simp [this]
          · -- an unrelated slot
            have hl : L.getLast? ≠ some j := fun h => hjk (hLp j (List.mem_of_getLast? h))
            have hr : R.head? ≠ some j := fun h => hjk (hRp j (List.mem_of_mem_head? h))
            rw [if_neg hl, if_neg hr] at hs'
            have Pj := r.ptrs j s' hs' (by
              obtain ⟨s2, hs2, hst, _⟩ := hM.slot_some hs'
              exact h0')
            refine Pj.transfer r hM.idAgree (by simp [hji]) (by simp [hjp]) ?_
            intro q hq
            have : q ≠ p := by
              intro e; subst e; exact hjk (r.parKids j q hq).2
            simp [this]

end Arena
end XotModel
