/-
  FspecStrComposite — the composite calls keep all character data, for EVERY forest with the invariant (no
  `Forest.Normal`): after `element_unwrap` / `replace` every non-text node - in particular every ancestor of the
  touched places - has exactly the string value the UNMERGED edit gives it (`plainUnwrap`: the wrapper is
  replaced by its normal children, nothing merged; `plainReplace`: the replacing subtree is cut and put in the
  place of the replaced one, nothing merged), and the non-text nodes are the same, in the same order.
  From the pair readings `unwrap_pair` / `replace_pair` and the fact that the pair merges (`mergeAdj`,
  `mergeNew3`) change no string value (`TextKeeping`, Lemmas/FspecPairString.lean).
-/
import XotModel.Lemmas.FspecPairString
import XotModel.Lemmas.FspecAllUnwrap
import XotModel.Lemmas.FspecAllRepl6

namespace XotModel
open HTree Spec

/-- The unmerged unwrap. -/
def plainUnwrap (n : Nat) (f : Forest) : Forest :=
  specUnwrap Keep.earlier n { f with consolidation := false }

/-- The unmerged replace. -/
def plainReplace (a b : Nat) (f : Forest) : Forest :=
  specReplace Keep.earlier a b { f with consolidation := false }

/-! ### The list functions keep the leaf property and the site condition -/

theorem klList_replaceTop_normalKids (n : Nat) {L : List HTree} (h : klList L = true) :
    klList (replaceTop n (fun w => w.kids.filter (fun k => k.value.isNormal)) L) = true := by
  obtain ⟨h1, h2⟩ := klList_iff.1 h
  apply klList_iff.2
  have key : ∀ k ∈ replaceTop n (fun w => w.kids.filter (fun k => k.value.isNormal)) L,
      (k.value.isText = true → k.kids = []) ∧ kl k = true := by
    intro k hk
    rcases mem_replaceTop hk with e | ⟨w, hw, hkw⟩
    · exact ⟨h1 k e, h2 k e⟩
    · have hkw' : k ∈ w.kids := (List.mem_filter.1 hkw).1
      have hw2 := h2 w hw
      cases w with
      | node wh wv wks =>
        rw [kl_node] at hw2
        obtain ⟨g1, g2⟩ := klList_iff.1 hw2
        exact ⟨g1 k hkw', g2 k hkw'⟩
  exact ⟨fun k hk => (key k hk).1, fun k hk => (key k hk).2⟩

theorem siteOkList_replaceTop_normalKids (p n : Nat) {L : List HTree} (h : siteOkList p L = true) :
    siteOkList p (replaceTop n (fun w => w.kids.filter (fun k => k.value.isNormal)) L) = true := by
  rw [siteOkList_iff] at h ⊢
  intro k hk
  rcases mem_replaceTop hk with e | ⟨w, hw, hkw⟩
  · exact h k e
  · have hkw' : k ∈ w.kids := (List.mem_filter.1 hkw).1
    have hw2 := h w hw
    cases w with
    | node wh wv wks =>
      rw [siteOk_node, Bool.and_eq_true] at hw2
      exact siteOkList_iff.1 hw2.2 k hkw'

/-- Re-labelling a text node with other character data keeps the site condition. -/
theorem siteOk_setValue_text {p : Nat} {x : HTree} {s : Str} (hx : x.value.isText = true)
    (h : siteOk p x = true) : siteOk p (x.setValue (.text s)) = true := by
  cases x with
  | node xh xv xks =>
    simp only [HTree.value] at hx
    simp only [HTree.setValue]
    rw [siteOk_node] at h ⊢
    rw [hx] at h
    simpa [Value.isText] using h

theorem siteOkList_joinLeft {p : Nat} {x y : HTree} {rest : List HTree} (h : siteOkList p (x :: y :: rest) = true) :
    siteOkList p (((joinLeft x y).map (fun j => j :: rest)).getD (x :: y :: rest)) = true := by
  by_cases hb : x.value.isText = true ∧ y.value.isText = true
  · obtain ⟨s, hs⟩ := isText_iff_textData.1 hb.1
    obtain ⟨u, hu⟩ := isText_iff_textData.1 hb.2
    rw [joinLeft_text (textData_some hs) (textData_some hu)]
    simp only [Option.map_some, Option.getD_some]
    rw [siteOkList_cons, siteOkList_cons, Bool.and_eq_true, Bool.and_eq_true] at h
    rw [siteOkList_cons, siteOk_setValue_text hb.1 h.1, h.2.2]; rfl
  · rw [joinLeft_none hb]; exact h

theorem siteOkList_mergeAdj (p a b : Nat) : ∀ L : List HTree, siteOkList p L = true →
    siteOkList p (mergeAdj a b L) = true
  | [], h => by rw [mergeAdj_nil]; exact h
  | [x], h => by rw [mergeAdj_single]; exact h
  | x :: y :: rest, h => by
    rw [mergeAdj_cons_cons]
    split
    · exact siteOkList_joinLeft h
    · rw [siteOkList_cons, Bool.and_eq_true] at h
      rw [siteOkList_cons, h.1, siteOkList_mergeAdj p a b (y :: rest) h.2]; rfl

/-- The parent of a node is not a text node, so no text node carries its handle. -/
theorem siteOkList_parent {f : Forest} (inv : f.Inv) {n po : Nat} (hpar : f.parent? n = some po) :
    siteOkList po f.roots = true := by
  have nd := inv.nodup
  have hctx : ∃ cx, f.ctx? n = some cx := by
    cases h : f.ctx? n with
    | none => rw [Forest.parent?_of_no_ctx h] at hpar; cases hpar
    | some cx => exact ⟨cx, rfl⟩
  obtain ⟨cx, hctx⟩ := hctx
  obtain ⟨_, vo, so⟩ := SiteAt.of_ctx nd hctx
  have hpo : cx.parent = po := by
    rw [Forest.parent?_of_ctx hctx] at hpar
    exact Option.some.inj hpar
  rw [hpo] at so
  have hvo : vo.isText = false := site_not_text inv so (by simp)
  exact siteOkList_of_find (by simpa [HTree.value] using hvo) f.roots nd so.kids

/-! ### element_unwrap -/

/-- **String values, pair reading of unwrap**: for every forest with the invariant. -/
theorem specUnwrapP_strValues {f : Forest} (inv : f.Inv) (n : Nat) :
    (specUnwrapP n f).strValues = (plainUnwrap n f).strValues := by
  let F : HTree → List HTree := fun w => w.kids.filter (fun k => k.value.isNormal)
  have hklf : klList f.roots = true := klList_of_valid f.roots inv.valid
  -- the unmerged side
  have e0 : (plainUnwrap n f).strValues = (f.editAt (f.parent? n) (replaceTop n F)).strValues := by
    unfold plainUnwrap specUnwrap
    simp only
    have hpar0 : ({ f with consolidation := false } : Forest).parent? n = f.parent? n := rfl
    rw [hpar0, mergeAt_off (by rw [Forest.editAt_consolidation])]
    cases f.parent? n <;> rfl
  rw [e0]
  unfold specUnwrapP
  simp only
  -- after the edit
  have hklX : klList (f.editAt (f.parent? n) (replaceTop n F)).roots = true ∧
      (∀ po, f.parent? n = some po → siteOkList po (f.editAt (f.parent? n) (replaceTop n F)).roots = true) := by
    cases hpar : f.parent? n with
    | none => exact ⟨klList_replaceTop_normalKids n hklf, fun po h => by cases h⟩
    | some po =>
      have hspo := siteOkList_parent inv hpar
      refine ⟨klList_editAt (fun L h => klList_replaceTop_normalKids n h) f.roots hklf hspo, ?_⟩
      intro po' h
      have := Option.some.inj h
      subst this
      exact siteOkList_editAt (fun L h => siteOkList_replaceTop_normalKids _ n h) f.roots hspo
  obtain ⟨hklX, hsX⟩ := hklX
  have hs1 : ∀ po, f.parent? n = some po →
      siteOkList po ((f.editAt (f.parent? n) (replaceTop n F)).mergeLeftAt (f.parent? n)
        ((f.nbOf n).1, ((f.kidsOf n).filter (fun k => k.value.isNormal)).head?.map (·.handle))).roots = true := by
    intro po h
    have hb := hsX po h
    unfold Forest.mergeLeftAt
    split
    · split
      · exact siteOkList_editAt (fun L hL => siteOkList_mergeAdj _ _ _ L hL) _ hb
      · exact hb
    · exact hb
  have hkl1 := klList_mergeLeftAt (f.parent? n)
    ((f.nbOf n).1, ((f.kidsOf n).filter (fun k => k.value.isNormal)).head?.map (·.handle)) hklX hsX
  have hkl2 := klList_mergeLeftAt (f.parent? n)
    (((f.kidsOf n).filter (fun k => k.value.isNormal)).getLast?.map (·.handle), (f.nbOf n).2) hkl1 hs1
  rw [strValues_mergeLeftAt _ _ hkl2, strValues_mergeLeftAt _ _ hkl1, strValues_mergeLeftAt _ _ hklX]

/-! ### replace -/

theorem klList_replaceTop_const (a : Nat) {t : HTree} {L : List HTree} (h : klList L = true) (ht : kl t = true)
    (htl : t.value.isText = true → t.kids = []) : klList (replaceTop a (fun _ => [t]) L) = true := by
  obtain ⟨h1, h2⟩ := klList_iff.1 h
  apply klList_iff.2
  constructor
  · intro k hk hkt
    rcases mem_replaceTop hk with e | ⟨w, _, hkw⟩
    · exact h1 k e hkt
    · have : k = t := by simpa using hkw
      subst this; exact htl hkt
  · intro k hk
    rcases mem_replaceTop hk with e | ⟨w, _, hkw⟩
    · exact h2 k e
    · have : k = t := by simpa using hkw
      subst this; exact ht

theorem siteOkList_replaceTop_const (p a : Nat) {t : HTree} {L : List HTree} (h : siteOkList p L = true)
    (ht : siteOk p t = true) : siteOkList p (replaceTop a (fun _ => [t]) L) = true := by
  rw [siteOkList_iff] at h ⊢
  intro k hk
  rcases mem_replaceTop hk with e | ⟨w, _, hkw⟩
  · exact h k e
  · have : k = t := by simpa using hkw
    subst this; exact ht

theorem absorbNext_keeps {j : HTree} {rest : List HTree} (h : klList (j :: rest) = true) :
    textList (absorbNext j rest) = textList (j :: rest) ∧
    strValuesList (absorbNext j rest) = strValuesList (j :: rest) ∧ klList (absorbNext j rest) = true := by
  cases rest with
  | nil => exact ⟨rfl, rfl, h⟩
  | cons z rest => rw [PairAll.absorbNext_cons]; exact joinLeft_keeps h

theorem mergeNew3_keeps (n : Nat) : TextKeeping (mergeNew3 n)
  | [], h => ⟨rfl, rfl, h⟩
  | [x], h => ⟨rfl, rfl, h⟩
  | x :: y :: rest, h => by
    rw [PairAll.mergeNew3_cons_cons]
    split
    · by_cases hb : x.value.isText = true ∧ y.value.isText = true
      · obtain ⟨s, hs⟩ := isText_iff_textData.1 hb.1
        obtain ⟨u, hu⟩ := isText_iff_textData.1 hb.2
        have hx := textData_some hs
        have hy := textData_some hu
        rw [joinLeft_text hx hy]
        simp only [Option.map_some, Option.getD_some]
        have xk := (klList_iff.1 h).1 x (by simp) hb.1
        obtain ⟨p1, p2, p3⟩ := pair_keeps hx hy (setValue_value _ x) (by rw [setValue_kids]; exact xk) h
        obtain ⟨q1, q2, q3⟩ := absorbNext_keeps p3
        exact ⟨q1.trans p1, q2.trans p2, q3⟩
      · rw [joinLeft_none hb]
        simp only [Option.map_none, Option.getD_none]
        exact cons_keeps h (mergeNewHead_keeps (klList_tail h))
    · split
      · exact mergeNewHead_keeps h
      · exact cons_keeps h (mergeNew3_keeps n (y :: rest) (klList_tail h))

theorem strValues_mergeNew3At {X : Forest} (q n : Nat) (h : klList X.roots = true) :
    (X.mergeNew3At q n).strValues = X.strValues := by
  unfold Forest.mergeNew3At
  split
  · exact strValues_editAt_keep _ (mergeNew3_keeps _) h
  · rfl

/-- After cutting the subtree `c` (tree `t`): the leaf property, the site condition of any non-text node `q`,
    and the site condition of the parent `c` leaves - which is not inside `t`. -/
theorem cut_keeps_leaves {f : Forest} (inv : f.Inv) {c q : Nat} {t : HTree} (hgc : f.get? c = some t)
    (hsq : siteOkList q f.roots = true) :
    klList (f.editAt (f.parent? c) (dropTop c)).roots = true ∧
    siteOkList q (f.editAt (f.parent? c) (dropTop c)).roots = true ∧
    (∀ po, f.parent? c = some po → siteOkList po (f.editAt (f.parent? c) (dropTop c)).roots = true ∧
      siteOk po t = true) := by
  have nd := inv.nodup
  have hklf : klList f.roots = true := klList_of_valid f.roots inv.valid
  cases hpar : f.parent? c with
  | none =>
    exact ⟨klList_dropTop c hklf, siteOkList_dropTop q c hsq, fun po h => by cases h⟩
  | some po =>
    have hctx : ∃ cx, f.ctx? c = some cx := by
      cases h : f.ctx? c with
      | none => rw [Forest.parent?_of_no_ctx h] at hpar; cases hpar
      | some cx => exact ⟨cx, rfl⟩
    obtain ⟨cx, hctx⟩ := hctx
    obtain ⟨_, vo, so⟩ := SiteAt.of_ctx nd hctx
    have hpo : cx.parent = po := by
      rw [Forest.parent?_of_ctx hctx] at hpar
      exact Option.some.inj hpar
    rw [hpo] at so
    have hspo : siteOkList po f.roots = true := siteOkList_parent inv hpar
    have hpot : po ∉ handles t := by
      intro hin
      have hself : cx.self = t := by
        have := Forest.get?_of_ctx nd hctx
        rw [hgc] at this
        exact (Option.some.inj this).symm
      apply so.nodupKids.2
      rw [fs_handlesList_append, handlesList_cons, hself]
      exact List.mem_append_right _ (List.mem_append_left _ hin)
    refine ⟨klList_editAt (fun L h => klList_dropTop c h) f.roots hklf hspo,
      siteOkList_editAt (fun L h => siteOkList_dropTop q c h) f.roots hsq, ?_⟩
    intro po' h
    have := Option.some.inj h
    subst this
    exact ⟨siteOkList_editAt (fun L h => siteOkList_dropTop _ c h) f.roots hspo, siteOk_of_not_mem t hpot⟩

/-- The replacing node already next to the replaced one: cutting it and putting it in the other's place is
    dropping the other. -/
theorem replaceTop_dropTop_adjacent {a b : Nat} {l r : List HTree} {A t : HTree}
    (nd : (handlesList (l ++ A :: r)).Nodup) (ha : A.handle = a) (hb : t.handle = b)
    (hadj : l.getLast? = some t ∨ r.head? = some t) :
    replaceTop a (fun _ => [t]) (dropTop b (l ++ A :: r)) = dropTop a (l ++ A :: r) := by
  rcases hadj with h | h
  · obtain ⟨l', rfl⟩ := List.getLast?_eq_some_iff.1 h
    have nd1 : (handlesList (l' ++ t :: (A :: r))).Nodup := by simpa using nd
    obtain ⟨t1, t2⟩ := tops_ne_of_nodup nd1
    obtain ⟨a1, a2⟩ := tops_ne_of_nodup nd
    have e1 : dropTop b ((l' ++ [t]) ++ A :: r) = l' ++ A :: r := by
      have : (l' ++ [t]) ++ A :: r = l' ++ t :: (A :: r) := by simp
      rw [this]
      exact dropTop_mid hb (fun k hk => hb ▸ t1 k hk) (fun k hk => hb ▸ t2 k hk)
    rw [e1, replaceTop_mid ha (fun k hk => ha ▸ a1 k (List.mem_append_left _ hk)),
      dropTop_mid ha (fun k hk => ha ▸ a1 k hk) (fun k hk => ha ▸ a2 k hk)]
  · obtain ⟨r', rfl⟩ := List.head?_eq_some_iff.1 h
    have nd1 : (handlesList ((l ++ [A]) ++ t :: r')).Nodup := by simpa using nd
    obtain ⟨t1, t2⟩ := tops_ne_of_nodup nd1
    obtain ⟨a1, a2⟩ := tops_ne_of_nodup nd
    have e1 : dropTop b (l ++ A :: t :: r') = l ++ A :: r' := by
      have : l ++ A :: t :: r' = (l ++ [A]) ++ t :: r' := by simp
      rw [this, dropTop_mid hb (fun k hk => hb ▸ t1 k hk) (fun k hk => hb ▸ t2 k hk)]
      simp
    rw [e1, replaceTop_mid ha (fun k hk => ha ▸ a1 k hk),
      dropTop_mid ha (fun k hk => ha ▸ a1 k hk) (fun k hk => ha ▸ a2 k hk)]
    simp

/-- **String values of `replace`**: every forest with the invariant, every geometry. -/
theorem replace_keeps_strValues {f : Forest} {a b : Nat} (inv : f.Inv) (hok : (f.replace a b).2 = .ok) :
    (f.replace a b).1.strValues = (plainReplace a b f).strValues := by
  rw [replace_pair inv hok]
  obtain ⟨q, vq, l, A, r, t, ra, h⟩ := replace_unpack inv hok
  have nd := inv.nodup
  have hpa : f.parent? a = some q := Forest.parent?_of_ctx ra.ctx_a
  have hklf : klList f.roots = true := klList_of_valid f.roots inv.valid
  have hklt : kl t = true := klList_find f.roots t hklf ra.hgb
  have htl : t.value.isText = true → t.kids = [] := leaf_of_text inv.valid ra.hgb
  have hsq : siteOkList q f.roots = true := siteOkList_parent inv hpa
  -- the unmerged side
  have e0 : (plainReplace a b f).strValues =
      ((f.editAt (f.parent? b) (dropTop b)).editAt (some q) (replaceTop a (fun _ => [t]))).strValues := by
    unfold plainReplace specReplace
    have hg0 : ({ f with consolidation := false } : Forest).get? b = some t := ra.hgb
    have hp0 : ({ f with consolidation := false } : Forest).parent? a = some q := hpa
    have hpb0 : ({ f with consolidation := false } : Forest).parent? b = f.parent? b := rfl
    rw [hg0, hp0]
    simp only
    rw [hpb0]
    have hc0 : ∀ (Z : Forest), Z.consolidation = false → ∀ s, Z.mergeAt Keep.earlier s = Z :=
      fun Z h s => mergeAt_off h Keep.earlier s
    have hX0 : ((({ f with consolidation := false } : Forest).editAt (f.parent? b) (dropTop b)).editAt (some q)
        (replaceTop a (fun _ => [t]))).consolidation = false := by
      rw [Forest.editAt_consolidation, Forest.editAt_consolidation]
    rw [hc0 _ hX0, hc0 _ hX0]
    cases f.parent? b <;> rfl
  rw [e0]
  unfold specReplaceP
  rcases h with ⟨hadj, _⟩ | ⟨⟨h1, h2⟩, _⟩
  · rw [ra.adjacent_true hadj, if_pos rfl]
    unfold specRemoveP
    simp only
    rw [hpa]
    have hklD : klList (f.editAt (some q) (dropTop a)).roots = true :=
      klList_editAt (fun L h => klList_dropTop a h) f.roots hklf hsq
    rw [strValues_mergeLeftAt _ _ hklD]
    -- the replacing node is a child of `q`, next to `A`
    have hadj' : l.getLast? = some t ∨ r.head? = some t := by
      rcases hadj with e | e
      · left
        have e' := ra.prevOf_iff.1 e
        cases hl : l.getLast? with
        | none => rw [hl] at e'; cases e'
        | some x =>
          rw [hl] at e'
          have hxb : x.handle = b := by simpa using e'
          rw [ra.kid_eq (List.mem_append_left _ (List.mem_of_getLast? hl)) hxb]
      · right
        have e' := ra.nextOf_iff.1 e
        cases hr : r.head? with
        | none => rw [hr] at e'; cases e'
        | some x =>
          rw [hr] at e'
          have hxb : x.handle = b := by simpa using e'
          rw [ra.kid_eq (List.mem_append_right _ (List.mem_cons_of_mem _ (List.mem_of_mem_head? hr))) hxb]
    have htmem : t ∈ l ++ A :: r := by
      rcases hadj' with e | e
      · exact List.mem_append_left _ (List.mem_of_getLast? e)
      · exact List.mem_append_right _ (List.mem_cons_of_mem _ (List.mem_of_mem_head? e))
    have hpb : f.parent? b = some q := by
      obtain ⟨X, Y, hXY⟩ := List.append_of_mem htmem
      have s : SiteAt f q vq (X ++ t :: Y) := hXY ▸ ra.sq
      have := Forest.parent?_of_ctx s.ctx
      rw [ra.hb] at this
      exact this
    rw [hpb, Forest.editAt_editAt]
    rw [ra.sq.congr (g := (replaceTop a fun _ => [t]) ∘ dropTop b) (g' := dropTop a)
      (replaceTop_dropTop_adjacent ra.sq.nodupKids.1 ra.ha ra.hb hadj')]
  · rw [ra.adjacent_false h1 h2]
    simp only [Bool.false_eq_true, if_false]
    rw [ra.hgb, hpa]
    simp only
    obtain ⟨hklZ, hsqZ, hpoZ⟩ := cut_keeps_leaves inv ra.hgb hsq
    have hklX : klList ((f.editAt (f.parent? b) (dropTop b)).editAt (some q) (replaceTop a (fun _ => [t]))).roots
        = true :=
      klList_editAt (fun L h => klList_replaceTop_const a h hklt htl) _ hklZ hsqZ
    have hspoX : ∀ po, f.parent? b = some po →
        siteOkList po ((f.editAt (f.parent? b) (dropTop b)).editAt (some q)
          (replaceTop a (fun _ => [t]))).roots = true := by
      intro po h
      obtain ⟨g1, g2⟩ := hpoZ po h
      exact siteOkList_editAt (fun L hL => siteOkList_replaceTop_const po a hL g2) _ g1
    rw [strValues_mergeNew3At q b (klList_mergeLeftAt _ _ hklX hspoX), strValues_mergeLeftAt _ _ hklX]

/-- **String values of `element_unwrap`**: every forest with the invariant. -/
theorem unwrap_keeps_strValues {f : Forest} {n : Nat} (inv : f.Inv) (hok : (f.elementUnwrap n).2 = .ok) :
    (f.elementUnwrap n).1.strValues = (plainUnwrap n f).strValues := by
  rw [unwrap_pair inv hok]
  exact specUnwrapP_strValues inv n

end XotModel
