/-
  XotModel.Lemmas.ArenaRemoveRoot — `NodeId::remove` of a live PARENTLESS node with exactly one
  child on a well-formed arena: the child becomes a parentless node, the slot is freed; no panic,
  the arena stays well-formed.  (With two or more children the children become parentless but stay
  each other's siblings: the arena leaves the invariant, closed example in `Props/C04`.)

  The computation is `detach(i)` (nothing to do), then on the child `c`
  `detach_from_siblings` + `rewrite_parents(None)` — which is literally `detach(c)` — then the two
  `connect_neighbors(None, …)` of `transplant`, which rewrite `c.previous_sibling = None` and
  `c.next_sibling = None` (already so), then `free_node(i)`.
-/
import XotModel.Lemmas.ArenaRemoveLeaf
import XotModel.Lemmas.ArenaLink

namespace XotModel
namespace Arena

/-- List-level `remove` of the parentless node `i` whose only child is `c`. -/
def Shape.removeRootOne (g : Shape) (i c : Nat) : Shape :=
  { par := fun j => if j = c then none else g.par j,
    kids := fun q => if q = i then [] else g.kids q,
    free := g.free ++ [i] }

theorem Shape.removeRootOne_eq (g : Shape) (i c : Nat) (hpc : g.par c = some i) (hk : g.kids i = [c]) :
    g.removeRootOne i c = { g.detach c with free := g.free ++ [i] } := by
  unfold Shape.removeRootOne Shape.detach
  rw [hpc]
  simp only [Shape.mk.injEq, and_true, true_and]
  funext q
  by_cases hq : q = i
  · subst hq; simp [hk]
  · simp [hq]

/-- `detach` taken apart: the range detachment, then the parent rewrite. -/
theorem detach_done_inv {a b : Arena} {x : NodeId} (h : Arena.detach a x = .done b ()) :
    ∃ a1, detachFromSiblings a x x = .done a1 () ∧ rewriteParents a1.fuel a1 (some x) none = .done b (.ok ()) := by
  unfold Arena.detach at h
  cases h1 : detachFromSiblings a x x with
  | panic a1 => rw [h1] at h; cases h
  | diverge a1 => rw [h1] at h; cases h
  | done a1 u =>
    rw [h1] at h
    simp only [Step.bind_done] at h
    refine ⟨a1, rfl, ?_⟩
    unfold expectOk at h
    cases h2 : rewriteParents a1.fuel a1 (some x) none with
    | panic a2 => rw [h2] at h; cases h
    | diverge a2 => rw [h2] at h; cases h
    | done a2 res =>
      rw [h2] at h
      cases res with
      | error e => cases h
      | ok u' =>
        cases u'
        simp only [Step.bind_done] at h
        cases h
        rfl

theorem Rep.remove_root_one {a : Arena} {g : Shape} (r : Rep a g) (i c : Nat) (hi : Live a i)
    (hpar : g.par i = none) (hk : g.kids i = [c]) :
    ∃ a2 a', MetaEq a a2 ∧ Rep a2 (g.detach c) ∧ Arena.remove a (a.idAt i) = .done a' () ∧
      FreeNodeOk a2 (g.detach c) i a' ∧ Rep a' (g.removeRootOne i c) := by
  -- `detach(i)`: nothing at list level
  obtain ⟨a1, hd, r1, hM⟩ := r.detach (a.idAt i) (LiveId.idAt hi)
  rw [idAt_index0] at r1
  have hgi : g.detach i = g := by unfold Shape.detach; rw [hpar]
  rw [hgi] at r1
  have hid : a1.idAt = a.idAt := funext hM.idAt
  have hcK : c ∈ g.kids i := by rw [hk]; simp
  have hpc : g.par c = some i := (r.kidsLive i c hcK).2.2
  have hc1 : Live a1 c := (r1.kidsLive i c hcK).2.1
  -- `detach(c)` from there
  obtain ⟨a2, hdc, r2, hM2⟩ := r1.detach (a1.idAt c) (LiveId.idAt hc1)
  rw [idAt_index0] at r2
  rw [hid] at hdc
  obtain ⟨aS, hS, hR⟩ := detach_done_inv hdc
  have hMM : MetaEq a a2 := hM.trans hM2
  have hid2 : a2.idAt = a.idAt := funext hMM.idAt
  have hi2 : Live a2 i := (hMM.live i).mpr hi
  have hc2 : Live a2 c := (hM2.live c).mpr hc1
  have hpar2 : (g.detach c).par i = none := by
    unfold Shape.detach; rw [hpc]
    by_cases hic : i = c
    · simp [hic]
    · simp [hic, hpar]
  have hkids2 : (g.detach c).kids i = [] := by
    unfold Shape.detach; rw [hpc]; simp [hk]
  have hparc2 : (g.detach c).par c = none := Shape.detach_par_self g c
  obtain ⟨a', hf, hok⟩ := r2.freeNode i hi2 hpar2 hkids2
  have hfinal : Rep a' (g.removeRootOne i c) := by
    rw [Shape.removeRootOne_eq g i c hpc hk]
    have := hok.rep
    rw [Shape.detach_free] at this
    exact this
  refine ⟨a2, a', hMM, r2, ?_, hok, hfinal⟩
  -- the computation
  obtain ⟨s, hs, h0⟩ := hi
  have P := r.ptrs i s hs h0
  unfold Arena.remove
  rw [rd_some _ _ _ _ (show a.slot (a.idAt i).index0 = some s by rw [idAt_index0]; exact hs)]
  have hfirst : s.first = some (a.idAt c) := by rw [P.first, hk]; rfl
  have hlast : s.last = some (a.idAt c) := by rw [P.last, hk]; rfl
  have hsp : s.parent = none := by rw [P.parent, hpar]; rfl
  have hsv : s.prev = none := (P.root hpar).1
  have hsn : s.next = none := (P.root hpar).2
  simp only [hfirst, hlast, Option.isSome_some, bne_self_eq_false, Bool.false_eq_true, if_false]
  rw [hd]
  simp only [Step.bind_done]
  rw [hS]
  simp only [Step.bind_done]
  rw [hsp, hsv, hsn]
  -- `transplant(None, None, None)` of the one-node range
  obtain ⟨sc, hsc, hsc0⟩ := hc2
  have Pc := r2.ptrs c sc hsc hsc0
  have hscv : sc.prev = none := (Pc.root hparc2).1
  have hscn : sc.next = none := (Pc.root hparc2).2
  have hslot : a2.slot (a.idAt c).index0 = some sc := by rw [idAt_index0]; exact hsc
  have e1 : a2.mod c (fun s => { s with prev := none }) = a2 :=
    mod_id_of_fix hsc (by cases sc; simp_all)
  have e2 : a2.mod c (fun s => { s with next := none }) = a2 :=
    mod_id_of_fix hsc (by cases sc; simp_all)
  unfold transplant
  rw [hR]
  simp only [Step.bind_done]
  unfold connectNeighbors
  simp only []
  rw [wr_some _ _ _ _ _ hslot, idAt_index0, e1]
  simp only [Step.bind_done]
  rw [wr_some _ _ _ _ _ hslot, idAt_index0, e2]
  simp only [expectOk, Step.bind_done]
  rw [← hid2]
  exact hf

/-! ### Reading the hypotheses off the pointers -/

theorem singleton_of_head_last {l : List Nat} {c : Nat} (hn : l.Nodup) (hh : l.head? = some c)
    (hl : l.getLast? = some c) : l = [c] := by
  cases l with
  | nil => cases hh
  | cons y t =>
    simp only [List.head?_cons, Option.some.injEq] at hh
    subst hh
    cases t with
    | nil => rfl
    | cons z t' =>
      exfalso
      rw [List.getLast?_cons_cons] at hl
      exact (List.nodup_cons.mp hn).1 (List.mem_of_getLast? hl)

/-- A live slot without parent pointer whose `first_child` and `last_child` are the same id: a
    parentless node with exactly one child. -/
theorem Rep.root_one_of_ptrs {a : Arena} {g : Shape} (r : Rep a g) {i : Nat} {s : Slot} {x : NodeId}
    (hs : a.slot i = some s) (h0 : 0 ≤ s.stamp) (hp : s.parent = none) (hf : s.first = some x)
    (hl : s.last = some x) : g.par i = none ∧ g.kids i = [x.index0] := by
  have P := r.ptrs i s hs h0
  constructor
  · have := P.parent
    rw [hp] at this
    cases h : g.par i with
    | none => rfl
    | some p => rw [h] at this; cases this
  · have h1 := P.first
    have h2 := P.last
    rw [hf] at h1
    rw [hl] at h2
    cases hh : (g.kids i).head? with
    | none => rw [hh] at h1; cases h1
    | some c1 =>
      cases hg : (g.kids i).getLast? with
      | none => rw [hg] at h2; cases h2
      | some c2 =>
        rw [hh] at h1
        rw [hg] at h2
        simp only [Option.map_some, Option.some.injEq] at h1 h2
        have e1 : x.index0 = c1 := by rw [h1]; simp
        have e2 : x.index0 = c2 := by rw [h2]; simp
        subst e1
        exact singleton_of_head_last (r.kidsNodup i) hh (by rw [hg, e2])

end Arena
end XotModel
