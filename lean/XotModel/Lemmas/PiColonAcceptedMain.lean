/-
  GENERATED COPY (wt-c17str) of the declarations of XotModel.Lemmas.AcceptedMain that depend on `valueOK`, restated in the
  namespace `XotModel.PiColon`, where `valueOK` asks of a PI target what the tokenizer's `consume_name` accepts
  (`nameOK`: colons allowed) instead of an NCName (Lemmas/PiColonDefs.lean).  Proof texts unchanged except where noted.
-/
import XotModel.Lemmas.AcceptedMain
import XotModel.Lemmas.PiColonAcceptedTop

namespace XotModel.PiColon.Accepted
open XotModel.Accepted

open XotModel XotModel.Repair

theorem serRel_base (env : Env) : SerRel env basePrefixes base2 :=
  ⟨[], rfl, flat_single (by simp [UniquePrefixes, basePrefixes]), fun f hf => by cases hf⟩

theorem accepted_nodeOK {m : Mode} {env : Env} {s : Str} {p : Parsed} (henv : envOK env = true)
    (h : parseString m env s = .ok p) (hg : NoReservedDecls p.env p.tree = true) : p.tree.allNodes (nodeOK p.env) = true := by
  obtain ⟨h1, _, h3, _, h5, _⟩ := accepted_facts henv h
  exact nodeOK_of_acc h1 p.tree base2 (stackGuard_base _) h3 h5 hg

/-- `parse_fragment` (and `parse`): the accepted tree is in the C01 domain for fragments. -/
theorem accepted_representable_fragment {m : Mode} {env : Env} {s : Str} {p : Parsed} (henv : envOK env = true)
    (h : parseString m env s = .ok p) (hg : NoReservedDecls p.env p.tree = true) : RepresentableFragment p.env p.tree = true := by
  obtain ⟨h1, _, _, h4, _, h6⟩ := accepted_facts henv h
  rw [representableFragment_iff]
  exact ⟨envOK_of_facts h1, by rw [h6]; rfl, accepted_nodeOK henv h hg, h4⟩

/-- `parse`: the accepted tree is in the C01 domain for documents. -/
theorem accepted_representable {env : Env} {s : Str} {p : Parsed} (henv : envOK env = true)
    (h : parseString .document env s = .ok p) (hg : NoReservedDecls p.env p.tree = true) : Representable p.env p.tree = true := by
  have hfrag := accepted_representable_fragment henv h hg
  have hw : WellFormedTop p.tree := by unfold parseString at h; exact build_document_wellFormed h
  simp only [Representable, hfrag, Bool.true_and, singleRoot, Bool.and_eq_true, beq_iff_eq, List.all_eq_true,
    Bool.not_eq_true']
  exact ⟨hw.1, hw.2⟩

/-- Every name the parser resolved can be written by the serialiser. -/
theorem accepted_writable {m : Mode} {env : Env} {s : Str} {p : Parsed} (henv : envOK env = true)
    (h : parseString m env s = .ok p) (hg : NoReservedDecls p.env p.tree = true) : namesWritable p.env p.tree [] = some true := by
  obtain ⟨_, _, h3, _, _, h6⟩ := accepted_facts henv h
  have hn := accepted_nodeOK henv h hg
  cases ht : p.tree with
  | node v ks =>
    rw [ht] at h3 hn h6
    simp only [Tree.value] at h6
    subst h6
    have hnode : nodeOK p.env .document ks = true := by rw [allNodes_node, Bool.and_eq_true] at hn; exact hn.1
    obtain ⟨hord, hkinds, -, -, -⟩ := (nodeOK_iff p.env _ ks).mp hnode
    have hin := inScope_document ks hord (hkinds.2.1 rfl)
    have hok := okRec_of_acc _ basePrefixes base2 (serRel_base p.env) h3 hn
    simp only [namesWritable, Tree.ancestorsOrSelf, Tree.at?, namesWritableChain_eq, hin, hok]

end XotModel.PiColon.Accepted
