/-
  XotModel.Lemmas.ScopeIdem — when a second `deduplicate_namespaces` removes nothing.

  Hypotheses on the subtree the call is made on:
    * `noRebind []`  a prefix declared again on a path is bound to the SAME namespace, and no
                     element declares a prefix twice (the first known counterexample: removing
                     a declaration un-shadows a DIFFERENT binding of its prefix, which makes a
                     namespace known); weaker than `noShadow`: the typical redundant
                     `xmlns:p="A"` repeated below `xmlns:p="A"` is allowed;
    * `noFlag`       no attribute name is in a namespace declared as DEFAULT namespace on the
                     attribute's element or an ancestor of it, i.e. the DeduplicateTracker never
                     sets a flag (the second counterexample: the flagged `xmlns="N"` is itself
                     removed, and with it the protection of a prefixed declaration below).
  Then in the first call a declaration goes exactly when its namespace is known above; survivors
  are not known above in the original frames, and the frames of the second call are subsets.
-/
import XotModel.Lemmas.ScopeInner

namespace XotModel

/-! ### The tracker when no flag is ever set -/

/-- No attribute of the subtree is in a namespace of `D` or in one declared as default namespace
    on its element or between the subtree's root and it. -/
def noFlag (env : Env) (D : List Nat) : Tree → Prop
  | .node v ks =>
    match v with
    | .element _ =>
      (∀ a ∈ (Tree.node v ks).attrs.map (·.1),
        env.nsOfName a ∉ ((Tree.node v ks).getNamespace Env.emptyPrefix).toList ++ D) ∧
      noFlagList env (((Tree.node v ks).getNamespace Env.emptyPrefix).toList ++ D) ks
    | _ => noFlagList env D ks
where
  noFlagList (env : Env) (D : List Nat) : List Tree → Prop
    | [] => True
    | k :: ks => noFlag env D k ∧ noFlagList env D ks

/-- No flag is set, and every default namespace on the tracker is listed in `D`. -/
def TrOK (D : List Nat) (tr : Tracker) : Prop :=
  (∀ e ∈ tr, e.inUseByAttribute = false) ∧
  (∀ e ∈ tr, ∀ ns, e.defaultNamespace = some ns → ns ∈ D)

theorem safe_of_unflagged (ns : Nat) : ∀ (tr : Tracker), (∀ e ∈ tr, e.inUseByAttribute = false) →
    trackerIsSafeToRemove ns tr = true
  | [], _ => rfl
  | e :: tr, h => by
    unfold trackerIsSafeToRemove
    split
    · simp [h e (by simp)]
    · exact safe_of_unflagged ns tr (fun e' he' => h e' (by simp [he']))

theorem trackerAttributeName_of_absent (ns : Nat) : ∀ (tr : Tracker),
    (∀ e ∈ tr, e.defaultNamespace ≠ some ns) → trackerAttributeName ns tr = tr
  | [], _ => rfl
  | e :: tr, h => by
    have h1 : (e.defaultNamespace == some ns) = false := by simpa using h e (by simp)
    simp only [trackerAttributeName, h1, Bool.false_eq_true, ↓reduceIte]
    rw [trackerAttributeName_of_absent ns tr (fun e' he' => h e' (by simp [he']))]

theorem foldAttributes_of_absent (env : Env) (tr : Tracker) : ∀ (names : List Nat),
    (∀ n ∈ names, ∀ e ∈ tr, e.defaultNamespace ≠ some (env.nsOfName n)) →
    names.foldl (fun tr n => trackerAttributeName (env.nsOfName n) tr) tr = tr
  | [], _ => rfl
  | n :: names, h => by
    simp only [List.foldl_cons]
    rw [trackerAttributeName_of_absent _ tr (h n (by simp))]
    exact foldAttributes_of_absent env tr names (fun n' hn' => h n' (by simp [hn']))

/-- `push` of an element none of whose attributes meets a default namespace. -/
theorem trackerPush_of_noFlag (env : Env) (D : List Nat) (tr : Tracker) (t : Tree) (h : TrOK D tr)
    (ha : ∀ a ∈ t.attrs.map (·.1), env.nsOfName a ∉ (t.getNamespace Env.emptyPrefix).toList ++ D) :
    trackerPush env tr t = ⟨t.getNamespace Env.emptyPrefix, false⟩ :: tr ∧
      TrOK ((t.getNamespace Env.emptyPrefix).toList ++ D) (⟨t.getNamespace Env.emptyPrefix, false⟩ :: tr) := by
  refine ⟨?_, ?_, ?_⟩
  · unfold trackerPush
    apply foldAttributes_of_absent
    intro n hn e he heq
    apply ha n hn
    simp only [List.mem_cons] at he
    rcases he with rfl | he
    · simp only at heq; simp [heq]
    · exact List.mem_append.2 (.inr (h.2 e he _ heq))
  · intro e he
    simp only [List.mem_cons] at he
    rcases he with rfl | he
    · rfl
    · exact h.1 e he
  · intro e he ns heq
    simp only [List.mem_cons] at he
    rcases he with rfl | he
    · simp only at heq; simp [heq]
    · exact List.mem_append.2 (.inr (h.2 e he ns heq))

mutual
/-- Without flag events the walk gives the tracker back as it got it. -/
theorem rb_tracker (env : Env) : ∀ (x : Tree) (top : List (Nat × Nat)) (tr : Tracker) (D : List Nat),
    TrOK D tr → noFlag env D x → (rbWalk env top x tr).1 = tr
  | .node v ks, top, tr, D, hok, hf => by
    cases v with
    | element name =>
      simp only [noFlag] at hf
      obtain ⟨hp, hok'⟩ := trackerPush_of_noFlag env D tr (.node (.element name) ks) hok hf.1
      simp only [rbWalk, hp]
      rw [rb_tracker_list env ks _ _ _ hok' hf.2]
      rfl
    | document => simp only [noFlag] at hf; simpa [rbWalk] using rb_tracker_list env ks top tr D hok hf
    | text s => simp only [noFlag] at hf; simpa [rbWalk] using rb_tracker_list env ks top tr D hok hf
    | pi a b => simp only [noFlag] at hf; simpa [rbWalk] using rb_tracker_list env ks top tr D hok hf
    | comment s => simp only [noFlag] at hf; simpa [rbWalk] using rb_tracker_list env ks top tr D hok hf
    | «attribute» a b => simp only [noFlag] at hf; simpa [rbWalk] using rb_tracker_list env ks top tr D hok hf
    | «namespace» a b => simp only [noFlag] at hf; simpa [rbWalk] using rb_tracker_list env ks top tr D hok hf
theorem rb_tracker_list (env : Env) : ∀ (ks : List Tree) (top : List (Nat × Nat)) (tr : Tracker)
    (D : List Nat), TrOK D tr → noFlag.noFlagList env D ks → (rbWalk.rbList env top ks tr).1 = tr
  | [], _, _, _, _, _ => rfl
  | k :: ks, top, tr, D, hok, hf => by
    simp only [noFlag.noFlagList] at hf
    simp only [rbWalk.rbList, rb_tracker env k top tr D hok hf.1]
    exact rb_tracker_list env ks top tr D hok hf.2
end

/-! ### What the removal loop really removes -/

theorem eraseKids_flat (decls : List (Nat × Nat)) (toRemove : List Nat) (ks : List Tree) :
    eraseKids decls toRemove ks =
      (toRemove.flatMap fun ns => (decls.filter (fun kv => kv.2 == ns)).map (·.1)).foldl
        (fun ks p => removeNsKid p ks) ks := by
  unfold eraseKids
  induction toRemove generalizing ks with
  | nil => rfl
  | cons ns rest ih => simp only [List.map_cons, List.foldl_cons, List.flatMap_cons, List.foldl_append, ih]

theorem keys_removeNsKid (p : Nat) : ∀ (ks : List Tree), ((declsOfKids ks).map Prod.fst).Nodup →
    p ∉ (declsOfKids (removeNsKid p ks)).map Prod.fst
  | [], _ => by simp [removeNsKid, declsOfKids]
  | k :: rest, hnd => by
    by_cases hc : (k.value.category == Category.namespace) = true
    · obtain ⟨q, n, hv⟩ := (category_namespace_iff_ex _).1 hc
      simp only [declsOfKids, hv, List.map_cons, List.nodup_cons] at hnd
      simp only [removeNsKid, hv]
      by_cases hq : q = p
      · subst hq
        simpa using hnd.1
      · have : (q == p) = false := by simpa using hq
        simp only [this, Bool.false_eq_true, ↓reduceIte, declsOfKids, hv, List.map_cons, List.mem_cons,
          not_or]
        exact ⟨fun h => hq h.symm, keys_removeNsKid p rest hnd.2⟩
    · have : declsOfKids (removeNsKid p (k :: rest)) = [] := by
        unfold removeNsKid
        split
        · rename_i q n h; exact absurd ((category_namespace_iff_ex _).2 ⟨q, n, h⟩) hc
        · unfold declsOfKids
          split
          · rename_i q n h; exact absurd ((category_namespace_iff_ex _).2 ⟨q, n, h⟩) hc
          · rfl
      simp [this]

theorem foldl_removeNsKid_sublist : ∀ (ps : List Nat) (ks : List Tree),
    (declsOfKids (ps.foldl (fun ks p => removeNsKid p ks) ks)).Sublist (declsOfKids ks)
  | [], _ => List.Sublist.refl _
  | p :: ps, ks => by
    simp only [List.foldl_cons]
    exact (foldl_removeNsKid_sublist ps _).trans (declsOfKids_removeNsKid p ks)

theorem foldl_removeNsKid_removes (p : Nat) : ∀ (ps : List Nat) (ks : List Tree), p ∈ ps →
    ((declsOfKids ks).map Prod.fst).Nodup →
    p ∉ (declsOfKids (ps.foldl (fun ks p => removeNsKid p ks) ks)).map Prod.fst
  | [], _, h, _ => by simp at h
  | p0 :: ps, ks, h, hnd => by
    simp only [List.foldl_cons]
    by_cases hp : p = p0
    · subst hp
      intro hm
      exact keys_removeNsKid p ks hnd (((foldl_removeNsKid_sublist ps _).map Prod.fst).subset hm)
    · simp only [List.mem_cons, hp, false_or] at h
      exact foldl_removeNsKid_removes p ps _ h
        (((declsOfKids_removeNsKid p0 ks).map Prod.fst).nodup hnd)

/-- After the removal loop no declaration of a namespace in `to_remove` is left (unique prefixes
    on the element). -/
theorem eraseKids_removes (ks ks' : List Tree) (toRemove : List Nat)
    (hv : ks'.map Tree.value = ks.map Tree.value) (hnd : ((declsOfKids ks).map Prod.fst).Nodup) :
    ∀ kv ∈ declsOfKids (eraseKids (declsOfKids ks) toRemove ks'), kv.2 ∉ toRemove := by
  intro kv hkv hin
  have hd : declsOfKids ks' = declsOfKids ks := declsOfKids_congr _ _ hv
  rw [eraseKids_flat] at hkv
  have hsub := foldl_removeNsKid_sublist
    (toRemove.flatMap fun ns => ((declsOfKids ks).filter (fun kv => kv.2 == ns)).map (·.1)) ks'
  have hmem : kv ∈ declsOfKids ks := hd ▸ hsub.subset hkv
  refine foldl_removeNsKid_removes kv.1 _ ks' ?_ (hd ▸ hnd) (List.mem_map.2 ⟨kv, hkv, rfl⟩)
  simp only [List.mem_flatMap, List.mem_map, List.mem_filter, beq_iff_eq]
  exact ⟨kv.2, hin, kv, ⟨hmem, rfl⟩, rfl⟩

theorem mem_eraseKids (decls : List (Nat × Nat)) (toRemove : List Nat) (ks : List Tree) :
    ∀ k ∈ eraseKids decls toRemove ks, k ∈ ks := by
  apply eraseKids_induction (P := fun l => ∀ k ∈ l, k ∈ ks)
  · intro p ns _ _ l hl k hk
    apply hl
    clear hl
    induction l with
    | nil => exact hk
    | cons a rest ih =>
      unfold removeNsKid at hk
      split at hk
      · split at hk
        · exact List.mem_cons_of_mem _ hk
        · simp only [List.mem_cons] at hk ⊢
          rcases hk with h | h
          · exact .inl h
          · exact .inr (ih h)
      · exact hk
  · intro k hk; exact hk

/-! ### The second pass is the identity -/

theorem mem_pushTop {top decls : List (Nat × Nat)} {kv : Nat × Nat} (h : kv ∈ pushTop top decls) :
    kv ∈ top ∨ kv ∈ decls := by
  unfold pushTop at h
  split at h
  · exact .inl h
  · simp only [fullnameInfoNew, List.mem_append, List.mem_filter] at h
    rcases h with h | h
    · exact .inl h.1
    · exact .inr h

theorem mem_pushTop_iff (top decls : List (Nat × Nat)) (kv : Nat × Nat) :
    kv ∈ pushTop top decls ↔ (kv ∈ top ∧ kv.1 ∉ decls.map Prod.fst) ∨ kv ∈ decls := by
  unfold pushTop
  cases decls with
  | nil => simp
  | cons d rest =>
    have hf : ∀ x : Nat × Nat, (match x with | (p, _) => !(d :: rest).any fun (p2, _) => p2 == p) =
        !((d :: rest).lookup x.1).isSome := by
      intro ⟨a, b⟩; simp only [any_key_eq]
    simp only [List.isEmpty_cons, Bool.false_eq_true, ↓reduceIte, fullnameInfoNew, List.mem_append,
      List.mem_filter, hf]
    have : (!((d :: rest).lookup kv.1).isSome) = true ↔ kv.1 ∉ (d :: rest).map Prod.fst := by
      constructor
      · intro h hm
        obtain ⟨kv', hkv', he⟩ := List.mem_map.1 hm
        have := List.lookup_eq_none_iff.1 (by simpa using h : (d :: rest).lookup kv.1 = none) kv' hkv'
        simp [he] at this
      · intro h
        simp [lookup_none_of_not_mem_keys h]
    rw [this]

/-- A prefix that is declared again further down a path is bound to the same namespace there
    (nothing is ever re-bound), and no element declares a prefix twice.  `above`: the bindings
    declared above the subtree. -/
def noRebind (above : List (Nat × Nat)) : Tree → Prop
  | .node v ks =>
    match v with
    | .element _ =>
      ((Tree.node v ks).nsDecls.map Prod.fst).Nodup ∧
      (∀ kv ∈ (Tree.node v ks).nsDecls, ∀ kv2 ∈ above, kv2.1 = kv.1 → kv2.2 = kv.2) ∧
      noRebindList (above ++ (Tree.node v ks).nsDecls) ks
    | _ => noRebindList above ks
where
  noRebindList (above : List (Nat × Nat)) : List Tree → Prop
    | [] => True
    | k :: ks => noRebind above k ∧ noRebindList above ks

theorem rbList_fixed (env : Env) (top : List (Nat × Nat)) : ∀ (ys : List Tree),
    (∀ y ∈ ys, ∀ tr, (rbWalk env top y tr).2 = y) → ∀ tr, (rbWalk.rbList env top ys tr).2 = ys
  | [], _, _ => rfl
  | y :: ys, h, tr => by
    simp only [rbWalk.rbList, h y (by simp) tr]
    rw [rbList_fixed env top ys (fun y' hy' => h y' (by simp [hy']))]

theorem knownIn_sub {A A' : List (Nat × Nat)} (h : ∀ kv ∈ A', kv ∈ A) (ns : Nat)
    (hk : knownIn A' ns = true) : knownIn A ns = true := by
  obtain ⟨p, hp⟩ := (knownIn_iff _ _).1 hk
  exact (knownIn_iff _ _).2 ⟨p, h _ hp⟩

mutual
theorem rb_fixed (env : Env) : ∀ (x : Tree) (A : List (Nat × Nat)) (tr : Tracker) (D : List Nat)
    (above : List (Nat × Nat)), (∀ kv ∈ A, kv ∈ above) →
    noRebind above x → TrOK D tr → noFlag env D x →
    ∀ A', (∀ kv ∈ A', kv ∈ A) → ∀ tr',
      (rbWalk env A' (rbWalk env A x tr).2 tr').2 = (rbWalk env A x tr).2
  | .node v ks, A, tr, D, above, hab, hg, hok, hf, A', hsub, tr' => by
    cases v with
    | element name =>
      simp only [noRebind, nsDecls_node] at hg
      obtain ⟨hnd, hsame, hkids⟩ := hg
      simp only [noFlag] at hf
      obtain ⟨hp, hok'⟩ := trackerPush_of_noFlag env D tr (.node (.element name) ks) hok hf.1
      have htr : (rbWalk.rbList env (pushTop A (declsOfKids ks)) ks
          (trackerPush env tr (.node (.element name) ks))).1.tail = tr := by
        rw [hp, rb_tracker_list env ks _ _ _ hok' hf.2]; rfl
      have hIH := rb_fixed_list env ks (pushTop A (declsOfKids ks))
        (trackerPush env tr (.node (.element name) ks)) _ (above ++ declsOfKids ks)
        (fun kv hkv => by
          rcases mem_pushTop hkv with h | h
          · exact List.mem_append.2 (.inl (hab kv h))
          · exact List.mem_append.2 (.inr h))
        hkids (hp ▸ hok') hf.2
      simp only [rbWalk, nsDecls_node, eraseOwn_node, htr]
      generalize hr : (rbWalk.rbList env (pushTop A (declsOfKids ks)) ks
          (trackerPush env tr (.node (.element name) ks))).2 = r2 at hIH
      have hvals : r2.map Tree.value = ks.map Tree.value := by rw [← hr]; exact rb_values env ks _ _
      generalize htR : dedupToRemove A tr (declsOfKids ks) = toRemove
      obtain ⟨hsubl, _, _, _⟩ := eraseKids_facts env [] (.element name) ks r2 toRemove hvals hnd
      have hrem := eraseKids_removes ks r2 toRemove hvals hnd
      generalize hd1 : declsOfKids (eraseKids (declsOfKids ks) toRemove r2) = d1 at hsubl hrem
      -- the kids of the rebuilt element are fixed points in the second call's frame
      have hkidsFixed : ∀ tr2, (rbWalk.rbList env (pushTop A' d1)
          (eraseKids (declsOfKids ks) toRemove r2) tr2).2 = eraseKids (declsOfKids ks) toRemove r2 := by
        apply rbList_fixed
        intro y hy tr2
        refine hIH y (mem_eraseKids _ _ _ y hy) (pushTop A' d1) ?_ tr2
        intro kv hkv
        rw [mem_pushTop_iff]
        rcases mem_pushTop hkv with h | h
        · by_cases hk : kv.1 ∈ (declsOfKids ks).map Prod.fst
          · -- redeclared on this element: to the same namespace
            obtain ⟨kv', hkv', he⟩ := List.mem_map.1 hk
            have := hsame kv' hkv' kv (hab kv (hsub kv h)) he.symm
            have hkk : kv = kv' := Prod.ext he.symm this
            exact .inr (hkk ▸ hkv')
          · exact .inl ⟨hsub kv h, hk⟩
        · exact .inr (hsubl.subset h)
      rw [hkidsFixed]
      -- nothing is left to remove
      have hnil : ∀ trX, dedupToRemove A' trX d1 = [] := by
        intro trX
        rw [List.eq_nil_iff_forall_not_mem]
        intro ns hns
        obtain ⟨⟨p, hp1⟩, h0, hk, _⟩ := mem_dedupToRemove.1 hns
        apply hrem (p, ns) hp1
        rw [← htR]
        exact mem_dedupToRemove.2 ⟨⟨p, hsubl.subset hp1⟩, h0, knownIn_sub hsub ns hk,
          safe_of_unflagged ns tr hok.1⟩
      rw [hnil, eraseKids]
      rfl
    | document => simp only [noRebind] at hg; simp only [noFlag] at hf; simp only [rbWalk]; rw [rbList_fixed env A' _ (fun y hy tr2 => rb_fixed_list env ks A tr D above hab hg hok hf y hy A' hsub tr2)]
    | text s => simp only [noRebind] at hg; simp only [noFlag] at hf; simp only [rbWalk]; rw [rbList_fixed env A' _ (fun y hy tr2 => rb_fixed_list env ks A tr D above hab hg hok hf y hy A' hsub tr2)]
    | pi a b => simp only [noRebind] at hg; simp only [noFlag] at hf; simp only [rbWalk]; rw [rbList_fixed env A' _ (fun y hy tr2 => rb_fixed_list env ks A tr D above hab hg hok hf y hy A' hsub tr2)]
    | comment s => simp only [noRebind] at hg; simp only [noFlag] at hf; simp only [rbWalk]; rw [rbList_fixed env A' _ (fun y hy tr2 => rb_fixed_list env ks A tr D above hab hg hok hf y hy A' hsub tr2)]
    | «attribute» a b => simp only [noRebind] at hg; simp only [noFlag] at hf; simp only [rbWalk]; rw [rbList_fixed env A' _ (fun y hy tr2 => rb_fixed_list env ks A tr D above hab hg hok hf y hy A' hsub tr2)]
    | «namespace» a b => simp only [noRebind] at hg; simp only [noFlag] at hf; simp only [rbWalk]; rw [rbList_fixed env A' _ (fun y hy tr2 => rb_fixed_list env ks A tr D above hab hg hok hf y hy A' hsub tr2)]
theorem rb_fixed_list (env : Env) : ∀ (ks : List Tree) (A : List (Nat × Nat)) (tr : Tracker)
    (D : List Nat) (above : List (Nat × Nat)), (∀ kv ∈ A, kv ∈ above) →
    noRebind.noRebindList above ks → TrOK D tr →
    noFlag.noFlagList env D ks →
    ∀ y ∈ (rbWalk.rbList env A ks tr).2, ∀ A', (∀ kv ∈ A', kv ∈ A) → ∀ tr',
      (rbWalk env A' y tr').2 = y
  | [], _, _, _, _, _, _, _, _, y, hy, _, _, _ => by simp [rbWalk.rbList] at hy
  | k :: ks, A, tr, D, above, hab, hg, hok, hf, y, hy, A', hsub, tr' => by
    simp only [noRebind.noRebindList] at hg
    simp only [noFlag.noFlagList] at hf
    simp only [rbWalk.rbList, rb_tracker env k A tr D hok hf.1, List.mem_cons] at hy
    rcases hy with rfl | hy
    · exact rb_fixed env k A tr D above hab hg.1 hok hf.1 A' hsub tr'
    · exact rb_fixed_list env ks A tr D above hab hg.2 hok hf.2 y hy A' hsub tr'
end

/-! ### At a path -/

theorem at_scopeModifyAt (f : Tree → Tree) : ∀ (q : Path) (x sub : Tree), x.at? q = some sub →
    (scopeModifyAt f x q).at? q = some (f sub)
  | [], x, sub, h => by
    simp only [Tree.at?, Option.some.injEq] at h
    subst h
    rfl
  | i :: q, .node v l, sub, h => by
    simp only [Tree.at?] at h
    cases hk : l[i]? with
    | none => simp [hk] at h
    | some k =>
      simp only [hk] at h
      simp only [scopeModifyAt, Tree.at?, List.getElem?_modify_eq, hk]
      exact at_scopeModifyAt f q k sub h

theorem scopeModifyAt_comp (f g : Tree → Tree) : ∀ (q : Path) (x : Tree),
    scopeModifyAt g (scopeModifyAt f x q) q = scopeModifyAt (fun s => g (f s)) x q
  | [], _ => rfl
  | i :: q, .node v l => by
    simp only [scopeModifyAt, List.modify_modify_eq]
    congr 1
    have : ((fun k => scopeModifyAt g k q) ∘ fun k => scopeModifyAt f k q) =
        fun k => scopeModifyAt (fun s => g (f s)) k q := by
      funext k; exact scopeModifyAt_comp f g q k
    rw [this]

/-- A second `deduplicate_namespaces(node)` changes nothing, under the two guards. -/
theorem dedup_idem (env : Env) (t t1 : Tree) (path : Path) (sub : Tree)
    (hs : t.at? path = some sub) (hg : noRebind [] sub) (hf : noFlag env [] sub)
    (h1 : deduplicateNamespaces env t path = some t1) :
    deduplicateNamespaces env t1 path = some t1 := by
  rw [deduplicateNamespaces_inner env t path sub hs] at h1
  simp only [Option.some.injEq] at h1
  subst h1
  rw [deduplicateNamespaces_inner env _ path _ (at_scopeModifyAt _ path t sub hs),
    scopeModifyAt_comp]
  congr 1
  apply scopeModifyAt_congr _ _ path t sub hs
  exact rb_fixed env sub [] [] [] [] (fun _ h => h) hg ⟨by simp, by simp⟩ hf [] (fun _ h => h) []

end XotModel
