/-
  What "the same spelling up to the character data runs" (`NSNode.Resp`, Lemmas/SerOptDefs.lean) preserves:
  the denotation, well-formedness for the builder (`WellNsDoc`), and — on the token lists (`TokRel`) —
  the tokenizer's side conditions `LexOK`.
-/
import XotModel.Lemmas.SerOptDefs
import XotModel.Lemmas.SerTokensNest
import XotModel.Lemmas.RoundTripTokens

namespace XotModel

/-! ### Denotation -/

mutual
theorem resp_denote : ∀ (a b : NSNode) (sc : Scope), NSNode.Resp a b → NSNode.denote sc a = NSNode.denote sc b
  | .elem p l j as o ks cp cl c, b, sc, h => by
    obtain ⟨ks', rfl, hk⟩ := h
    simp only [NSNode.denote, respList_denote ks ks' _ hk]
  | .empty p l j as e, b, sc, h => by cases h; rfl
  | .chars ps, b, sc, h => by
    obtain ⟨ps', rfl, _, hv, _, _⟩ := h
    simp only [NSNode.denote, hv]
  | .comment a j, b, sc, h => by cases h; rfl
  | .pi a c j, b, sc, h => by cases h; rfl

theorem respList_denote : ∀ (as bs : List NSNode) (sc : Scope), NSNode.Resp.respList as bs →
    NSNode.denote.denoteList sc as = NSNode.denote.denoteList sc bs
  | [], bs, sc, h => by cases h; rfl
  | k :: ks, bs, sc, h => by
    obtain ⟨k', ks', rfl, hk, hks⟩ := h
    simp only [NSNode.denote.denoteList, resp_denote k k' sc hk, respList_denote ks ks' sc hks]
end

/-! ### Well-formedness -/

theorem resp_isChars : ∀ (a b : NSNode), NSNode.Resp a b → b.isChars = a.isChars
  | .elem p l j as o ks cp cl c, b, h => by obtain ⟨ks', rfl, _⟩ := h; rfl
  | .empty p l j as e, b, h => by cases h; rfl
  | .chars ps, b, h => by obtain ⟨ps', rfl, _⟩ := h; rfl
  | .comment a j, b, h => by cases h; rfl
  | .pi a c j, b, h => by cases h; rfl

theorem respList_noAdj : ∀ (as bs : List NSNode), NSNode.Resp.respList as bs →
    noAdjCharsNs bs = noAdjCharsNs as
  | [], bs, h => by cases h; rfl
  | [k], bs, h => by
    obtain ⟨k', ks', rfl, _, hks⟩ := h
    cases hks; rfl
  | k :: k2 :: r, bs, h => by
    obtain ⟨k', ks', rfl, hk, hks⟩ := h
    have ih := respList_noAdj (k2 :: r) ks' hks
    obtain ⟨k2', r', rfl, hk2, _⟩ := hks
    simp only [noAdjCharsNs, resp_isChars k k' hk, resp_isChars k2 k2' hk2, ih]

mutual
theorem resp_well : ∀ (a b : NSNode) (sc : Scope), NSNode.Resp a b → NSNode.Well sc a → NSNode.Well sc b
  | .elem p l j as o ks cp cl c, b, sc, h, hw => by
    obtain ⟨ks', rfl, hk⟩ := h
    obtain ⟨h1, h2, h3, h4, h5, h6, h7⟩ := hw
    exact ⟨h1, h2, h3, h4, by rw [respList_noAdj ks ks' hk]; exact h5, respList_well ks ks' _ hk h6, h7⟩
  | .empty p l j as e, b, sc, h, hw => by cases h; exact hw
  | .chars ps, b, sc, h, _ => by
    obtain ⟨ps', rfl, _, _, hw', _⟩ := h
    exact hw'
  | .comment a j, b, sc, h, hw => by cases h; exact hw
  | .pi a c j, b, sc, h, hw => by cases h; exact hw

theorem respList_well : ∀ (as bs : List NSNode) (sc : Scope), NSNode.Resp.respList as bs →
    NSNode.Well.wellList sc as → NSNode.Well.wellList sc bs
  | [], bs, sc, h, _ => by cases h; trivial
  | k :: ks, bs, sc, h, hw => by
    obtain ⟨k', ks', rfl, hk, hks⟩ := h
    exact ⟨resp_well k k' sc hk hw.1, respList_well ks ks' sc hks hw.2⟩
end

/-- The builder admits a respelling of what it admits. -/
theorem respList_wellNsDoc {as bs : List NSNode} (h : NSNode.Resp.respList as bs) (hw : WellNsDoc as) :
    WellNsDoc bs := by
  obtain ⟨h1, h2, h3⟩ := hw
  refine ⟨respList_well as bs _ h h1, by rw [respList_noAdj as bs h]; exact h2, ?_⟩
  rw [← respList_denote as bs _ h]
  exact h3

/-! ### Token lists -/

theorem TokRel.refl : ∀ (a : List Token), TokRel a a
  | [] => .nil
  | k :: a => .same k (TokRel.refl a)

theorem TokRel.append {a b c d : List Token} (h1 : TokRel a b) (h2 : TokRel c d) : TokRel (a ++ c) (b ++ d) := by
  induction h1 with
  | nil => exact h2
  | same k _ ih => exact .same k ih
  | run x hg _ ih => rw [List.append_assoc]; exact .run x hg ih

mutual
theorem resp_tokRel : ∀ (a b : NSNode), NSNode.Resp a b → TokRel a.tokens b.tokens
  | .elem p l j as o ks cp cl c, b, h => by
    obtain ⟨ks', rfl, hk⟩ := h
    simp only [NSNode.tokens]
    exact .same _ (TokRel.append (TokRel.refl _) (.same _ (TokRel.append (respList_tokRel ks ks' hk)
      (TokRel.refl _))))
  | .empty p l j as e, b, h => by cases h; exact TokRel.refl _
  | .chars ps, b, h => by
    obtain ⟨ps', rfl, ⟨q, st, rfl⟩, _, _, hg⟩ := h
    simp only [NSNode.tokens, List.map_cons, List.map_nil, SPart.token]
    simpa using TokRel.run ⟨renderPieces q, st⟩ hg TokRel.nil
  | .comment a j, b, h => by cases h; exact TokRel.refl _
  | .pi a c j, b, h => by cases h; exact TokRel.refl _

theorem respList_tokRel : ∀ (as bs : List NSNode), NSNode.Resp.respList as bs →
    TokRel (NSNode.tokens.tokensList as) (NSNode.tokens.tokensList bs)
  | [], bs, h => by cases h; exact .nil
  | k :: ks, bs, h => by
    obtain ⟨k', ks', rfl, hk, hks⟩ := h
    simp only [NSNode.tokens.tokensList]
    exact TokRel.append (resp_tokRel k k' hk) (respList_tokRel ks ks' hks)
end

/-! ### `LexOK` -/

theorem GoodRun.head_notText_or {r : List Token} (h : GoodRun r) :
    ∃ k rest, r = k :: rest := by
  cases r with
  | nil => exact absurd rfl h.ne
  | cons k rest => exact ⟨k, rest, rfl⟩

theorem tokRel_head {a b : List Token} (h : TokRel a b) (hb : headIsText b = true) : headIsText a = true := by
  cases h with
  | nil => exact hb
  | same k _ => cases k <;> simp_all [headIsText]
  | run x _ _ => rfl

/-- A run of text and CDATA tokens without two text tokens in a row, in element content, in front of
    something that does not begin with a text token. -/
theorem lexNest_run (frag : Bool) (d : Nat) (b : List Token) (hb : headIsText b = false)
    (hn : lexNest frag (.content d) b = true) :
    ∀ (r : List Token), (∀ k ∈ r, k.isCharData = true) → noAdjTextTok r = true →
      lexNest frag (.content d) (r ++ b) = true
  | [], _, _ => hn
  | k :: r, hk, hadj => by
    have ih := lexNest_run frag d b hb hn r (fun k' hk' => hk k' (by simp [hk']))
      (by cases r with
          | nil => rfl
          | cons k2 r2 => simp only [noAdjTextTok, Bool.and_eq_true] at hadj; exact hadj.2)
    have hkind := hk k (by simp)
    cases k with
    | text x =>
      simp only [List.cons_append, lexNest_text, ih, Bool.and_true, Bool.not_eq_true']
      cases r with
      | nil => exact hb
      | cons k2 r2 =>
        simp only [noAdjTextTok, Token.isText, Bool.true_and, Bool.and_eq_true, Bool.not_eq_true'] at hadj
        cases k2 <;> simp_all [headIsText, Token.isText]
    | cdata x y => simpa [lexNest] using ih
    | _ => simp [Token.isCharData] at hkind

theorem lexNest_cons_congr (frag : Bool) (k : Token) {a b : List Token}
    (hh : headIsText b = true → headIsText a = true)
    (hab : ∀ ctx, lexNest frag ctx a = true → lexNest frag ctx b = true) (ctx : LexCtx)
    (h : lexNest frag ctx (k :: a) = true) : lexNest frag ctx (k :: b) = true := by
  cases ctx with
  | prolog =>
    cases k <;> simp only [lexNest] at h ⊢ <;> first | exact hab _ h | cases h
  | inTag d =>
    cases k with
    | elementEnd e sp => cases e <;> simp only [lexNest] at h ⊢ <;> first | exact hab _ h | cases h
    | _ => simp only [lexNest] at h ⊢ <;> first | exact hab _ h | cases h
  | content d =>
    cases k with
    | text x =>
      rw [lexNest_text] at h ⊢
      simp only [Bool.and_eq_true, Bool.not_eq_true'] at h ⊢
      refine ⟨?_, hab _ h.2⟩
      cases hb : headIsText b with
      | false => rfl
      | true => rw [hh hb] at h; cases h.1
    | elementEnd e sp => cases e <;> simp only [lexNest] at h ⊢ <;> first | exact hab _ h | cases h
    | _ => simp only [lexNest] at h ⊢ <;> first | exact hab _ h | cases h
  | after =>
    cases k <;> simp only [lexNest] at h ⊢ <;> first | exact hab _ h | cases h

theorem tokRel_lexNest (frag : Bool) {a b : List Token} (h : TokRel a b) :
    ∀ ctx, lexNest frag ctx a = true → lexNest frag ctx b = true := by
  induction h with
  | nil => intro ctx h; exact h
  | same k hab ih => intro ctx h; exact lexNest_cons_congr frag k (tokRel_head hab) ih ctx h
  | @run x r a b hg hab ih =>
    intro ctx h
    cases ctx with
    | content d =>
      rw [lexNest_text] at h
      simp only [Bool.and_eq_true, Bool.not_eq_true'] at h
      have hb : headIsText b = false := by
        cases hb : headIsText b with
        | false => rfl
        | true => rw [tokRel_head hab hb] at h; cases h.1
      exact lexNest_run frag d b hb (ih _ h.2) r hg.kind hg.adj
    | prolog => simp [lexNest] at h
    | inTag d => simp [lexNest] at h
    | after => simp [lexNest] at h

theorem tokRel_all {a b : List Token} (h : TokRel a b) (ha : a.all Token.lexOK = true) :
    b.all Token.lexOK = true := by
  induction h with
  | nil => rfl
  | same k _ ih =>
    simp only [List.all_cons, Bool.and_eq_true] at ha ⊢
    exact ⟨ha.1, ih ha.2⟩
  | @run x r a b hg _ ih =>
    simp only [List.all_cons, Bool.and_eq_true] at ha
    simp only [List.all_append, Bool.and_eq_true, ih ha.2, and_true, List.all_eq_true]
    exact hg.ok

/-- **The tokenizer's side conditions survive respelling the character data runs.** -/
theorem tokRel_lexOK (frag : Bool) {a b : List Token} (h : TokRel a b) (ha : LexOK frag a = true) :
    LexOK frag b = true := by
  simp only [LexOK, Bool.and_eq_true] at ha ⊢
  exact ⟨tokRel_all h ha.1, tokRel_lexNest frag h _ ha.2⟩

end XotModel
