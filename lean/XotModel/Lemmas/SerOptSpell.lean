/-
  The spelling `spellNodeO` (any token parameters) of a tree:
    A'  its tokens are the tokens `serNodeO` yields, and the default serialisation succeeds as well
        (the parameters never decide about success);
    R   it is the default spelling `spellNode` up to how the character data runs are spelled (`NSNode.Resp`).
-/
import XotModel.Lemmas.SerOptRun
import XotModel.Lemmas.RoundTripTokens

namespace XotModel
open Gen

variable (env : Env) (pr : TokenParams)

/-! ### Inversion -/

theorem serKidsO_cons_ok {inScope : List (Nat × Nat)} {s : FStack} {cd : Bool} {k : Tree}
    {ks : List Tree} {ts : List Token}
    (h : serNodeO.serKidsO env pr inScope s cd (k :: ks) = .ok ts) :
    ∃ x y, serNodeO env pr inScope false s cd k = .ok x ∧
      serNodeO.serKidsO env pr inScope s cd ks = .ok y ∧ ts = x ++ y := by
  rw [serNodeO.serKidsO] at h
  exact appendOk_ok h

theorem serNodeO_element_ok {inScope : List (Nat × Nat)} {isTop : Bool} {s : FStack} {cd : Bool}
    {name : Nat} {ks : List Tree} {ts : List Token}
    (h : serNodeO env pr inScope isTop s cd (.node (.element name) ks) = .ok ts) :
    ∃ p ats content,
      (env.nsOfName name == Env.noNamespace &&
          (s.push (Tree.node (.element name) ks).nsDecls).hasDefaultNamespace) = false ∧
      (s.push (Tree.node (.element name) ks).nsDecls).elementPrefix env name = .ok p ∧
      attrTokens env (s.push (Tree.node (.element name) ks).nsDecls)
        (Tree.node (.element name) ks).attrs = .ok ats ∧
      serNodeO.serKidsO env pr inScope (s.push (Tree.node (.element name) ks).nsDecls)
        (kidsCd pr (.element name)) ks = .ok content ∧
      ts = elementTokens (prefixText env p) (env.localName name)
        (((if isTop then inScope.filter (fun d => !(Tree.node (.element name) ks).declaresPrefix d.1)
            else []) ++ (Tree.node (.element name) ks).nsDecls).flatMap (declTokens env))
        ats (Tree.node (.element name) ks).firstChild?.isNone content := by
  rw [serNodeO] at h
  by_cases hc : (env.nsOfName name == Env.noNamespace &&
      (s.push (Tree.node (.element name) ks).nsDecls).hasDefaultNamespace) = true
  · simp [hc] at h
  · simp only [hc, Bool.false_eq_true, if_false] at h
    cases hp : (s.push (Tree.node (.element name) ks).nsDecls).elementPrefix env name with
    | error e => simp [hp] at h
    | ok p =>
      simp only [hp] at h
      cases ha : attrTokens env (s.push (Tree.node (.element name) ks).nsDecls)
          (Tree.node (.element name) ks).attrs with
      | error e => simp [ha] at h
      | ok ats =>
        simp only [ha] at h
        cases hk : serNodeO.serKidsO env pr inScope (s.push (Tree.node (.element name) ks).nsDecls)
            (kidsCd pr (.element name)) ks with
        | error e => simp [hk] at h
        | ok content =>
          simp only [hk, Except.ok.injEq] at h
          exact ⟨p, ats, content, by simpa using hc, rfl, rfl, rfl, h.symm⟩

theorem appendOk_ok_ok (x y : List Token) : appendOk (.ok x) (.ok y) = .ok (x ++ y) := rfl

/-! ### A': tokens of the spelling; the default serialisation succeeds too -/

mutual
theorem spellNodeO_tokens (inScope : List (Nat × Nat)) (isTop : Bool) (s : FStack) (cd : Bool) (n : Tree)
    (ts : List Token) (h : serNodeO env pr inScope isTop s cd n = .ok ts) :
    NSNode.tokens.tokensList (spellNodeO env pr inScope isTop s cd n) = ts ∧
      ∃ ts0, serNode env false inScope isTop s n = .ok ts0 := by
  cases n with
  | node v ks =>
    cases v with
    | document =>
      simp only [serNodeO] at h
      simp only [spellNodeO, serNode]
      exact spellKidsO_tokens inScope s false ks ts h
    | «attribute» a b =>
      simp only [serNodeO] at h
      simp only [spellNodeO, serNode]
      exact spellKidsO_tokens inScope s false ks ts h
    | «namespace» a b =>
      simp only [serNodeO] at h
      simp only [spellNodeO, serNode]
      exact spellKidsO_tokens inScope s false ks ts h
    | text str =>
      simp only [serNodeO] at h
      obtain ⟨x, y, hx, hy, rfl⟩ := appendOk_ok h
      cases hx
      obtain ⟨h1, y0, h2⟩ := spellKidsO_tokens inScope s false ks y hy
      refine ⟨?_, _, by rw [serNode, h2, appendOk_ok_ok]⟩
      simp only [spellNodeO, tokensList_cons, h1]
      rfl
    | comment str =>
      simp only [serNodeO] at h
      obtain ⟨x, y, hx, hy, rfl⟩ := appendOk_ok h
      cases hx
      obtain ⟨h1, y0, h2⟩ := spellKidsO_tokens inScope s false ks y hy
      refine ⟨?_, _, by rw [serNode, h2, appendOk_ok_ok]⟩
      simp only [spellNodeO, tokensList_cons, h1]
      rfl
    | pi target data =>
      rw [serNodeO] at h
      split at h
      · cases h
      · rename_i hns
        obtain ⟨x, y, hx, hy, rfl⟩ := appendOk_ok h
        cases hx
        obtain ⟨h1, y0, h2⟩ := spellKidsO_tokens inScope s false ks y hy
        refine ⟨?_, _, by rw [serNode, if_neg hns, h2, appendOk_ok_ok]⟩
        simp only [spellNodeO, tokensList_cons, h1]
        rfl
    | element name =>
      obtain ⟨p, ats, content, hdef, hp, ha, hk, rfl⟩ := serNodeO_element_ok env pr h
      obtain ⟨hc, c0, hk0⟩ := spellKidsO_tokens inScope _ _ ks content hk
      have hi := spellItems_tokens env inScope isTop _ _ ats ha
      constructor
      · simp only [spellNodeO, hp, okPrefix]
        by_cases hfc : (Tree.node (.element name) ks).firstChild?.isNone = true
        · simp only [hfc, if_true, tokensList_cons, hc, NSNode.tokens, hi, elementTokens]
          simp
        · simp only [hfc, Bool.false_eq_true, if_false, tokensList_cons, hc, NSNode.tokens, hi, elementTokens,
            NSNode.tokens.tokensList]
          simp
      · have : serNode env false inScope isTop s (.node (.element name) ks) =
            .ok (elementTokens (prefixText env p) (env.localName name)
              (((if isTop then inScope.filter (fun d => !(Tree.node (.element name) ks).declaresPrefix d.1)
                  else []) ++ (Tree.node (.element name) ks).nsDecls).flatMap (declTokens env))
              ats (Tree.node (.element name) ks).firstChild?.isNone c0) := by
          rw [serNode]
          simp only [hdef, Bool.false_eq_true, if_false, hp, ha, hk0]
        exact ⟨_, this⟩

theorem spellKidsO_tokens (inScope : List (Nat × Nat)) (s : FStack) (cd : Bool) (ks : List Tree)
    (ts : List Token) (h : serNodeO.serKidsO env pr inScope s cd ks = .ok ts) :
    NSNode.tokens.tokensList (spellNodeO.spellKidsO env pr inScope s cd ks) = ts ∧
      ∃ ts0, serNode.serKids env false inScope s ks = .ok ts0 := by
  cases ks with
  | nil =>
    simp only [serNodeO.serKidsO, Except.ok.injEq] at h
    subst h
    exact ⟨rfl, _, rfl⟩
  | cons k ks =>
    obtain ⟨x, y, hx, hy, rfl⟩ := serKidsO_cons_ok env pr h
    obtain ⟨h1, x0, h2⟩ := spellNodeO_tokens inScope false s cd k x hx
    obtain ⟨h3, y0, h4⟩ := spellKidsO_tokens inScope s cd ks y hy
    refine ⟨?_, _, by rw [serNode.serKids, h2, h4, appendOk_ok_ok]⟩
    simp only [spellNodeO.spellKidsO, tokensList_append, h1, h3]
end

/-- A' for a start node. -/
theorem spellAtO_tokens (t : Tree) (start : Path) (ts : List Token) (h : serTokensAtO env pr t start = .ok ts) :
    NSNode.tokens.tokensList (spellAtO env pr t start) = ts ∧ ∃ ts0, serTokensAt env false t start = .ok ts0 := by
  unfold serTokensAtO at h
  unfold spellAtO serTokensAt
  split at h
  · rename_i n inScope h1 h2
    simp only [h1, h2]
    exact spellNodeO_tokens env pr inScope true _ _ n ts h
  · rename_i hno
    cases h
    split
    · rename_i n inScope h1 h2
      exact absurd h2 (hno n inScope h1)
    · exact ⟨rfl, _, rfl⟩

/-! ### Conversely: the parameters never make the serialisation fail -/

mutual
theorem serNodeO_of_default (inScope : List (Nat × Nat)) (isTop : Bool) (s : FStack) (cd : Bool) (n : Tree)
    (ts0 : List Token) (h : serNode env false inScope isTop s n = .ok ts0) :
    ∃ ts, serNodeO env pr inScope isTop s cd n = .ok ts := by
  cases n with
  | node v ks =>
    cases v with
    | document =>
      simp only [serNode] at h
      simp only [serNodeO]
      exact serKidsO_of_default inScope s _ ks ts0 h
    | «attribute» a b =>
      simp only [serNode] at h
      simp only [serNodeO]
      exact serKidsO_of_default inScope s _ ks ts0 h
    | «namespace» a b =>
      simp only [serNode] at h
      simp only [serNodeO]
      exact serKidsO_of_default inScope s _ ks ts0 h
    | text str =>
      simp only [serNode] at h
      obtain ⟨x, y, _, hy, _⟩ := appendOk_ok h
      obtain ⟨y', hy'⟩ := serKidsO_of_default inScope s false ks y hy
      exact ⟨_, by rw [serNodeO, hy', appendOk_ok_ok]⟩
    | comment str =>
      simp only [serNode] at h
      obtain ⟨x, y, _, hy, _⟩ := appendOk_ok h
      obtain ⟨y', hy'⟩ := serKidsO_of_default inScope s false ks y hy
      exact ⟨_, by rw [serNodeO, hy', appendOk_ok_ok]⟩
    | pi target data =>
      rw [serNode] at h
      split at h
      · cases h
      · rename_i hns
        obtain ⟨x, y, _, hy, _⟩ := appendOk_ok h
        obtain ⟨y', hy'⟩ := serKidsO_of_default inScope s false ks y hy
        exact ⟨_, by rw [serNodeO, if_neg hns, hy', appendOk_ok_ok]⟩
    | element name =>
      obtain ⟨p, ats, content, hdef, hp, ha, hk, _⟩ := serNode_element_ok env h
      obtain ⟨c', hk'⟩ := serKidsO_of_default inScope _ (kidsCd pr (.element name)) ks content hk
      have hdef' : (env.nsOfName name == Env.noNamespace &&
          (s.push (Tree.node (.element name) ks).nsDecls).hasDefaultNamespace) = false := by
        cases hc : (env.nsOfName name == Env.noNamespace &&
          (s.push (Tree.node (.element name) ks).nsDecls).hasDefaultNamespace) with
        | false => rfl
        | true =>
          simp only [Bool.and_eq_true, beq_iff_eq] at hc
          exact absurd hc hdef
      have : serNodeO env pr inScope isTop s cd (.node (.element name) ks) =
            .ok (elementTokens (prefixText env p) (env.localName name)
              (((if isTop then inScope.filter (fun d => !(Tree.node (.element name) ks).declaresPrefix d.1)
                  else []) ++ (Tree.node (.element name) ks).nsDecls).flatMap (declTokens env))
              ats (Tree.node (.element name) ks).firstChild?.isNone c') := by
        rw [serNodeO]
        simp only [hdef', Bool.false_eq_true, if_false, hp, ha, hk']
      exact ⟨_, this⟩

theorem serKidsO_of_default (inScope : List (Nat × Nat)) (s : FStack) (cd : Bool) (ks : List Tree)
    (ts0 : List Token) (h : serNode.serKids env false inScope s ks = .ok ts0) :
    ∃ ts, serNodeO.serKidsO env pr inScope s cd ks = .ok ts := by
  cases ks with
  | nil => exact ⟨_, rfl⟩
  | cons k ks =>
    obtain ⟨x, y, hx, hy, _⟩ := serKids_cons_ok env h
    obtain ⟨x', hx'⟩ := serNodeO_of_default inScope false s cd k x hx
    obtain ⟨y', hy'⟩ := serKidsO_of_default inScope s cd ks y hy
    exact ⟨_, by rw [serNodeO.serKidsO, hx', hy', appendOk_ok_ok]⟩
end

theorem serTokensAtO_of_default (t : Tree) (start : Path) (ts0 : List Token)
    (h : serTokensAt env false t start = .ok ts0) : ∃ ts, serTokensAtO env pr t start = .ok ts := by
  unfold serTokensAt at h
  unfold serTokensAtO
  cases h1 : t.at? start with
  | none => exact ⟨_, rfl⟩
  | some n =>
    cases h2 : namespacesInScope t start with
    | none => exact ⟨_, rfl⟩
    | some inScope =>
      simp only [h1, h2] at h
      exact serNodeO_of_default env pr inScope true _ _ n ts0 h

/-! ### R: the same spelling up to the character data runs -/

theorem respList_append {a a' b b' : List NSNode} (h1 : NSNode.Resp.respList a a')
    (h2 : NSNode.Resp.respList b b') : NSNode.Resp.respList (a ++ b) (a' ++ b') := by
  induction a generalizing a' with
  | nil =>
    simp only [NSNode.Resp.respList] at h1
    subst h1
    exact h2
  | cons k ks ih =>
    obtain ⟨k', ks', rfl, hk, hks⟩ := h1
    exact ⟨k', ks' ++ b', rfl, hk, ih hks⟩

theorem respList_cons {k k' : NSNode} {ks ks' : List NSNode} (h1 : NSNode.Resp k k')
    (h2 : NSNode.Resp.respList ks ks') : NSNode.Resp.respList (k :: ks) (k' :: ks') :=
  ⟨k', ks', rfl, h1, h2⟩

/-- A non-empty text of XML characters: its parts under any parameters respell the default text part. -/
theorem resp_text (cd : Bool) (str : Str) (hne : str ≠ []) (hs : str.all isXmlChar = true) :
    NSNode.Resp (.chars [.txt (textPieces str) 0]) (.chars (textParts pr cd str)) := by
  refine ⟨_, rfl, ⟨_, _, rfl⟩, ?_, ?_, ?_⟩
  · cases cd
    · simp [textParts, partsValue, SPart.value, valueOf_txtPieces, valueOf_textPieces]
    · simp only [textParts, if_true, partsValue_cdataPartsGo str [] (by simp)]
      simp [partsValue, SPart.value, valueOf_textPieces]
  · cases cd
    · intro p hp
      simp only [textParts, Bool.false_eq_true, if_false, List.mem_singleton] at hp
      subst hp
      exact ⟨txtPieces_ne_nil _ hne, wellSpelled_txtPieces _ _⟩
    · simp only [textParts, if_true]
      exact cdataPartsGo_well str []
  · cases cd
    · simp only [textParts, Bool.false_eq_true, if_false, List.map_cons, List.map_nil, SPart.token,
        renderPieces_txtPieces]
      refine ⟨by simp, ?_, ?_, rfl⟩
      · intro k hk
        simp only [List.mem_singleton] at hk
        subst hk
        exact serializeText_lexOK _ str hne hs
      · intro k hk
        simp only [List.mem_singleton] at hk
        subst hk
        rfl
    · simp only [textParts, if_true]
      exact cdataTokens_goodRun str hs

theorem text_valueOK {str : Str} (h : valueOK env (.text str) = true) : str ≠ [] ∧ str.all isXmlChar = true := by
  simpa [valueOK] using h

mutual
theorem spellNode_resp (inScope : List (Nat × Nat)) (isTop : Bool) (s : FStack) (cd : Bool) (n : Tree)
    (hn : n.allNodes (nodeOK env) = true) :
    NSNode.Resp.respList (spellNode env inScope isTop s n) (spellNodeO env pr inScope isTop s cd n) := by
  cases n with
  | node v ks =>
    have hkids : ∀ k ∈ ks, k.allNodes (nodeOK env) = true := fun k hk => allNodes_kid hn hk
    have hval := allNodes_value env hn
    cases v with
    | document => simp only [spellNode, spellNodeO]; exact spellKids_resp inScope s _ ks hkids
    | «attribute» a b => simp only [spellNode, spellNodeO]; exact spellKids_resp inScope s _ ks hkids
    | «namespace» a b => simp only [spellNode, spellNodeO]; exact spellKids_resp inScope s _ ks hkids
    | text str =>
      obtain ⟨h1, h2⟩ := text_valueOK env hval
      simp only [spellNode, spellNodeO]
      exact respList_cons (resp_text pr cd str h1 h2) (spellKids_resp inScope s _ ks hkids)
    | comment str =>
      simp only [spellNode, spellNodeO]
      exact respList_cons rfl (spellKids_resp inScope s _ ks hkids)
    | pi target data =>
      simp only [spellNode, spellNodeO]
      exact respList_cons rfl (spellKids_resp inScope s _ ks hkids)
    | element name =>
      have hk := spellKids_resp inScope (s.push (Tree.node (.element name) ks).nsDecls)
        (kidsCd pr (.element name)) ks hkids
      simp only [spellNode, spellNodeO]
      by_cases hfc : (Tree.node (.element name) ks).firstChild?.isNone = true
      · simp only [hfc, if_true]
        exact respList_cons rfl hk
      · simp only [hfc, Bool.false_eq_true, if_false]
        exact respList_cons ⟨_, rfl, hk⟩ rfl

theorem spellKids_resp (inScope : List (Nat × Nat)) (s : FStack) (cd : Bool) (ks : List Tree)
    (hn : ∀ k ∈ ks, k.allNodes (nodeOK env) = true) :
    NSNode.Resp.respList (spellNode.spellKids env inScope s ks) (spellNodeO.spellKidsO env pr inScope s cd ks) := by
  cases ks with
  | nil => rfl
  | cons k ks =>
    simp only [spellNode.spellKids, spellNodeO.spellKidsO]
    exact respList_append (spellNode_resp inScope false s cd k (hn k (by simp)))
      (spellKids_resp inScope s cd ks (fun k' hk' => hn k' (by simp [hk'])))
end

/-- R for a start node. -/
theorem spellAt_resp (t : Tree) (start : Path) (ht : t.allNodes (nodeOK env) = true) :
    NSNode.Resp.respList (spellAt env t start) (spellAtO env pr t start) := by
  unfold spellAt spellAtO
  cases h1 : t.at? start with
  | none => simp [NSNode.Resp.respList]
  | some n =>
    cases h2 : namespacesInScope t start with
    | none => simp [NSNode.Resp.respList]
    | some inScope =>
      exact spellNode_resp env pr inScope true _ _ n (subtree_allNodes _ t start n h1 ht)

end XotModel
