/-
  Lemma A of the round trip: the tokens of the spelling of a tree ARE the tokens the serialiser
  writes (`serNode`), literally, for every tree on which the serialiser succeeds.
-/
import XotModel.Lemmas.RoundTripDefs

namespace XotModel

variable (env : Env)

theorem tokensList_append (a b : List NSNode) :
    NSNode.tokens.tokensList (a ++ b) = NSNode.tokens.tokensList a ++ NSNode.tokens.tokensList b := by
  induction a with
  | nil => rfl
  | cons k ks ih => simp [NSNode.tokens.tokensList, ih]

theorem tokensList_cons (k : NSNode) (ks : List NSNode) :
    NSNode.tokens.tokensList (k :: ks) = k.tokens ++ NSNode.tokens.tokensList ks := rfl

theorem spellDecl_tokens (d : Nat × Nat) : (spellDecl env d).map NSAttr.token = declTokens env d := by
  unfold spellDecl declTokens
  split
  · rfl
  · split <;> simp [NSAttr.token, sp0, renderPieces_attrPieces]

theorem spellDecls_tokens (ds : List (Nat × Nat)) :
    (ds.flatMap (spellDecl env)).map NSAttr.token = ds.flatMap (declTokens env) := by
  induction ds with
  | nil => rfl
  | cons d ds ih => simp [List.flatMap_cons, spellDecl_tokens, ih]

theorem spellAttrs_tokens (s : FStack) : ∀ (as : List (Nat × Str)) (ats : List Token),
    attrTokens env s as = .ok ats → (as.map (spellAttr env s)).map NSAttr.token = ats
  | [], ats, h => by
    simp only [attrTokens, Except.ok.injEq] at h
    subst h; rfl
  | (name, v) :: rest, ats, h => by
    obtain ⟨p, ts', hp, hr, rfl⟩ := attrTokens_cons_ok env h
    simp only [List.map_cons, spellAttrs_tokens s rest ts' hr, List.cons.injEq, and_true]
    simp [spellAttr, NSAttr.token, hp, okPrefix, sp0, renderPieces_attrPieces]

theorem spellItems_tokens (inScope : List (Nat × Nat)) (isTop : Bool) (s' : FStack) (n : Tree)
    (ats : List Token) (h : attrTokens env s' n.attrs = .ok ats) :
    (spellItems env inScope isTop s' n).map NSAttr.token =
      ((if isTop then inScope.filter (fun d => !n.declaresPrefix d.1) else []) ++ n.nsDecls).flatMap
        (declTokens env) ++ ats := by
  unfold spellItems writtenDecls
  rw [List.map_append, spellDecls_tokens, spellAttrs_tokens env s' _ ats h]

mutual
/-- Lemma A, one node. -/
theorem spellNode_tokens (inScope : List (Nat × Nat)) (isTop : Bool) (s : FStack) (n : Tree)
    (ts : List Token) (h : serNode env false inScope isTop s n = .ok ts) :
    NSNode.tokens.tokensList (spellNode env inScope isTop s n) = ts := by
  cases n with
  | node v ks =>
    cases v with
    | document =>
      simp only [serNode] at h
      simp only [spellNode]
      exact spellKids_tokens inScope s ks ts h
    | «attribute» a b =>
      simp only [serNode] at h
      simp only [spellNode]
      exact spellKids_tokens inScope s ks ts h
    | «namespace» a b =>
      simp only [serNode] at h
      simp only [spellNode]
      exact spellKids_tokens inScope s ks ts h
    | text str =>
      simp only [serNode] at h
      obtain ⟨x, y, hx, hy, rfl⟩ := appendOk_ok h
      cases hx
      simp only [spellNode, tokensList_cons, spellKids_tokens inScope s ks y hy]
      simp [NSNode.tokens, SPart.token, sp0, renderPieces_textPieces]
    | comment str =>
      simp only [serNode] at h
      obtain ⟨x, y, hx, hy, rfl⟩ := appendOk_ok h
      cases hx
      simp only [spellNode, tokensList_cons, spellKids_tokens inScope s ks y hy]
      simp [NSNode.tokens]
    | pi target data =>
      rw [serNode] at h
      split at h
      · cases h
      · obtain ⟨x, y, hx, hy, rfl⟩ := appendOk_ok h
        cases hx
        simp only [spellNode, tokensList_cons, spellKids_tokens inScope s ks y hy]
        simp [NSNode.tokens]
    | element name =>
      obtain ⟨p, ats, content, _, hp, ha, hk, rfl⟩ := serNode_element_ok env h
      have hc := spellKids_tokens inScope _ ks content hk
      have hi := spellItems_tokens env inScope isTop _ _ ats ha
      simp only [spellNode, hp, okPrefix]
      by_cases hfc : (Tree.node (.element name) ks).firstChild?.isNone = true
      · simp only [hfc, if_true, tokensList_cons, hc, NSNode.tokens, hi, elementTokens]
        simp
      · simp only [hfc, Bool.false_eq_true, if_false, tokensList_cons, hc, NSNode.tokens, hi, elementTokens,
          NSNode.tokens.tokensList]
        simp

/-- Lemma A, a child list. -/
theorem spellKids_tokens (inScope : List (Nat × Nat)) (s : FStack) (ks : List Tree) (ts : List Token)
    (h : serNode.serKids env false inScope s ks = .ok ts) :
    NSNode.tokens.tokensList (spellNode.spellKids env inScope s ks) = ts := by
  cases ks with
  | nil =>
    simp only [serNode.serKids, Except.ok.injEq] at h
    subst h; rfl
  | cons k ks =>
    obtain ⟨x, y, hx, hy, rfl⟩ := serKids_cons_ok env h
    simp only [spellNode.spellKids, tokensList_append, spellNode_tokens inScope false s k x hx,
      spellKids_tokens inScope s ks y hy]
end

/-- Lemma A for a start node. -/
theorem spellAt_tokens (t : Tree) (start : Path) (ts : List Token) (h : serTokensAt env false t start = .ok ts) :
    NSNode.tokens.tokensList (spellAt env t start) = ts := by
  unfold serTokensAt at h
  unfold spellAt
  split at h
  · rename_i n inScope h1 h2
    simp only [h1, h2]
    exact spellNode_tokens env inScope true _ n ts h
  · rename_i hno
    cases h
    split
    · rename_i n inScope h1 h2
      exact absurd h2 (hno n inScope h1)
    · rfl

/-- **Lemma A**: the tokens of the spelling of a tree are the tokens the serialiser writes. -/
theorem spell_tokens (t : Tree) (ts : List Token) (h : serTokensTop env t = .ok ts) :
    NSNode.tokens.tokensList (spellTop env t) = ts :=
  spellAt_tokens env t [] ts h

end XotModel
