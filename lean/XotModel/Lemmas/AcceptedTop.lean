/-
  XotModel.Lemmas.AcceptedTop — from the builder invariant to the C01 domain:
    * `nodeOK_of_acc`: a tree every node of which is as the builder leaves it (`TreeAcc`), which is
      sound (`SoundAt`, C03_sound) and meets the guards `NoReservedDecls` / `PlainPiTargets`, satisfies
      `nodeOK` (Model/SerTokens.lean) everywhere;
    * `okRec_of_acc`: every name of such a tree can be written by the serialiser (`namesWritable`): the
      prefix the source used is bound, in the declarations of the ancestors, to the name's namespace;
    * `accepted_representable*`, `accepted_writable`: the statements on `parseString`.
-/
import XotModel.Lemmas.AcceptedIds
import XotModel.Lemmas.ParseSound
import XotModel.Lemmas.RoundTripTop
import XotModel.Lemmas.RoundTripSerialises
import XotModel.Lemmas.RepairBridge

namespace XotModel.Accepted

open XotModel XotModel.Repair

/-! ### Lookups in the builder's stack -/

theorem findInDecls_some {q ns : Nat} {f : List (Nat × Nat)} (h : findInDecls q f = some ns) : (q, ns) ∈ f := by
  simp only [findInDecls, Option.map_eq_some_iff] at h
  obtain ⟨d, hd, rfl⟩ := h
  have hm := List.mem_of_find?_eq_some hd
  have hq := List.find?_some hd
  have : d.1 = q := by simpa using hq
  rw [← this]
  exact List.mem_reverse.mp hm

theorem findInDecls_none {q : Nat} {f : List (Nat × Nat)} (h : findInDecls q f = none) : q ∉ f.map Prod.fst := by
  simp only [findInDecls, Option.map_eq_none_iff] at h
  intro hm
  obtain ⟨d, hd, rfl⟩ := List.mem_map.mp hm
  have := List.find?_eq_none.mp h d (List.mem_reverse.mpr hd)
  simp at this

theorem findInDecls_eq_lookup {q : Nat} {f : List (Nat × Nat)} (hu : UniquePrefixes f) :
    findInDecls q f = List.lookup q f := by
  cases h : findInDecls q f with
  | none => exact ((lookup_none_iff q f).mpr (findInDecls_none h)).symm
  | some ns => exact ((lookup_some_iff hu q ns).mpr (findInDecls_some h)).symm

theorem lookupPrefix_base2 {q ns : Nat} (h : lookupPrefix base2 q = some ns) :
    (q = Env.emptyPrefix ∧ ns = Env.noNamespace) ∨ (q = Env.xmlPrefix ∧ ns = Env.xmlNamespace) := by
  simp only [base2, lookupPrefix_cons] at h
  cases h1 : findInDecls q [(Env.emptyPrefix, Env.noNamespace)] with
  | some n =>
    rw [h1] at h
    have := findInDecls_some h1
    simp only [List.mem_singleton, Prod.mk.injEq] at this
    simp only [Option.some.injEq] at h
    exact .inl ⟨this.1, by rw [← h]; exact this.2⟩
  | none =>
    rw [h1] at h
    simp only at h
    cases h2 : findInDecls q [(Env.xmlPrefix, Env.xmlNamespace)] with
    | some n =>
      rw [h2] at h
      have := findInDecls_some h2
      simp only [List.mem_singleton, Prod.mk.injEq] at this
      simp only [Option.some.injEq] at h
      exact .inr ⟨this.1, by rw [← h]; exact this.2⟩
    | none => rw [h2] at h; simp [lookupPrefix] at h

/-- A lookup in the builder's stack is a lookup in the declarations of the open elements, or falls
    through to the two base bindings. -/
theorem lookupPrefix_frames {q ns : Nat} : ∀ (fs : Frames), (∀ f ∈ fs, UniquePrefixes f) →
    lookupPrefix (fs ++ base2) q = some ns →
      lookupFrames fs q = some ns ∨ (lookupFrames fs q = none ∧ lookupPrefix base2 q = some ns)
  | [], _, h => .inr ⟨rfl, h⟩
  | f :: fs, hu, h => by
    rw [List.cons_append, lookupPrefix_cons, findInDecls_eq_lookup (hu f (by simp))] at h
    simp only [lookupFrames]
    cases hl : List.lookup q f with
    | some n => rw [hl] at h; exact .inl h
    | none =>
      rw [hl] at h
      exact lookupPrefix_frames fs (fun f' hf' => hu f' (by simp [hf'])) h

theorem mem_of_lookup {q n : Nat} : ∀ {l : List (Nat × Nat)}, List.lookup q l = some n → (q, n) ∈ l
  | [], h => by simp at h
  | (p, m) :: l, h => by
    by_cases hp : q = p
    · subst hp
      simp only [List.lookup, beq_self_eq_true, Option.some.injEq] at h
      subst h; simp
    · have hb : (q == p) = false := by simpa using hp
      simp only [List.lookup, hb] at h
      exact List.mem_cons_of_mem _ (mem_of_lookup h)

theorem lookupFrames_mem {q ns : Nat} : ∀ {fs : Frames}, lookupFrames fs q = some ns → ∃ f ∈ fs, (q, ns) ∈ f
  | [], h => by simp [lookupFrames] at h
  | f :: fs, h => by
    simp only [lookupFrames] at h
    cases hl : List.lookup q f with
    | some n =>
      rw [hl] at h
      simp only [Option.some.injEq] at h
      subst h
      exact ⟨f, by simp, mem_of_lookup hl⟩
    | none =>
      rw [hl] at h
      obtain ⟨f', hf', hm⟩ := lookupFrames_mem h
      exact ⟨f', by simp [hf'], hm⟩

theorem lookupFrames_append_base (fs : Frames) (q : Nat) :
    lookupFrames (fs ++ [basePrefixes]) q =
      (match lookupFrames fs q with
       | some n => some n
       | none => List.lookup q basePrefixes) := by
  induction fs with
  | nil => simp only [List.nil_append, lookupFrames]; cases List.lookup q basePrefixes <;> rfl
  | cons f fs ih =>
    simp only [List.cons_append, lookupFrames]
    cases List.lookup q f with
    | some n => rfl
    | none => exact ih

/-! ### `nodeOK` everywhere -/

/-- What the parser's own tests (`reservedDecl`, recorded in `ValAcc`) and the guard (`declAllowed`:
    not the prefix `xml`) together give of a declaration: it is none of the reserved ones and no
    prefixed undeclaration. -/
def DeclFull (env : Env) (p ns : Nat) : Prop :=
  p ≠ Env.xmlPrefix ∧ env.prefixStr p ≠ xmlnsName ∧ ns ≠ Env.xmlNamespace ∧
    env.namespaceStr ns ≠ xmlnsNamespaceUri ∧ (p ≠ Env.emptyPrefix → ns ≠ Env.noNamespace)

/-- The frames above the two base frames are such declarations. -/
def StackGuard (env : Env) (st : NsStack) : Prop :=
  ∃ fs : Frames, st = fs ++ base2 ∧ ∀ f ∈ fs, ∀ d ∈ f, DeclFull env d.1 d.2

theorem reservedDecl_false {pfx uri : Str} (h : reservedDecl pfx uri = false) :
    pfx ≠ xmlnsName ∧ (pfx ≠ ['x', 'm', 'l'] → uri ≠ xmlNamespaceUri) ∧ uri ≠ xmlnsNamespaceUri ∧
      (pfx ≠ [] → pfx ≠ ['x', 'm', 'l'] → uri ≠ []) := by
  simp only [reservedDecl, Bool.or_eq_false_iff, Bool.and_eq_false_iff, beq_eq_false_iff_ne, ne_eq,
    bne_eq_false_iff_eq, Bool.not_eq_false', List.isEmpty_iff, List.isEmpty_eq_false_iff] at h
  obtain ⟨⟨⟨h1, h2⟩, h3⟩, h4⟩ := h
  refine ⟨h1, fun hp => ?_, h3, fun hp hx => ?_⟩
  · rcases h2 with h2 | h2
    · exact absurd h2 hp
    · exact h2
  · rcases h4 with (h4 | h4) | h4
    · exact absurd h4 hp
    · exact absurd h4 hx
    · exact h4

theorem declFull_of_acc {env : Env} (hf : EnvFacts env) {st : NsStack} {p ns : Nat}
    (ha : ValAcc env st (.namespace p ns)) (hg : declAllowed env p ns = true) : DeclFull env p ns := by
  obtain ⟨a1, a2, _, _, a5⟩ := ha
  obtain ⟨r1, r2, r3, r4⟩ := reservedDecl_false a5
  have g1 : p ≠ Env.xmlPrefix := by simpa [declAllowed] using hg
  have hpx : env.prefixStr p ≠ ['x', 'm', 'l'] := fun hh =>
    g1 (hf.prefixStr_inj a1 hf.xmlPrefix_lt (by rw [hh, hf.p1]))
  refine ⟨g1, r1, fun hn => ?_, r3, fun hp hn => ?_⟩
  · exact r2 hpx (by rw [hn, hf.ns1]; rfl)
  · have hpe : env.prefixStr p ≠ [] := fun hh =>
      hp (hf.prefixStr_inj a1 hf.emptyPrefix_lt (by rw [hh, hf.p0]))
    exact r4 hpe hpx (by rw [hn, hf.ns0])

/-- A non-empty prefix in scope is bound to a namespace other than "none". -/
theorem StackGuard.nonempty_bound {env : Env} {st : NsStack} (hg : StackGuard env st) {q ns : Nat}
    (hq : q ≠ Env.emptyPrefix) (h : lookupPrefix st q = some ns) : ns ≠ Env.noNamespace := by
  obtain ⟨fs, rfl, hfs⟩ := hg
  induction fs with
  | nil =>
    rcases lookupPrefix_base2 h with ⟨h1, _⟩ | ⟨_, h2⟩
    · exact absurd h1 hq
    · rw [h2]; decide
  | cons f fs ih =>
    rw [List.cons_append, lookupPrefix_cons] at h
    cases hl : findInDecls q f with
    | some n =>
      rw [hl] at h
      simp only [Option.some.injEq] at h
      subst h
      exact (hfs f (by simp) _ (findInDecls_some hl)).2.2.2.2 hq
    | none =>
      rw [hl] at h
      exact ih (fun f' hf' => hfs f' (by simp [hf'])) h

theorem valueOK_of_acc {env : Env} (hf : EnvFacts env) {st : NsStack} (hg : StackGuard env st) {v : Value}
    {ks : List Tree} (ha : ValAcc env st v) (h1 : noReservedDecl env v ks = true)
    (h2 : plainPiTarget env v ks = true) : valueOK env v = true := by
  cases v with
  | document => rfl
  | element name => exact ha.2.1
  | text s =>
    simp only [valueOK, Bool.and_eq_true, Bool.not_eq_true', List.isEmpty_eq_false_iff]
    exact ha
  | comment s => exact ha
  | pi target data =>
    obtain ⟨_, a2, _, a4, a5⟩ := ha
    simp only [plainPiTarget] at h2
    simp only [valueOK, Bool.and_eq_true, beq_iff_eq, bne_iff_ne, ne_eq]
    refine ⟨⟨⟨a2, h2⟩, by simpa [isReservedPiTarget] using a5⟩, ?_⟩
    cases data with
    | none => rfl
    | some d => simpa [dataAcc] using a4
  | «attribute» name val =>
    obtain ⟨_, a2, a3, a4, a5⟩ := ha
    simp only [valueOK, Bool.and_eq_true, Bool.not_eq_true', Bool.and_eq_false_iff, beq_eq_false_iff_ne,
      Bool.or_eq_true, beq_iff_eq]
    refine ⟨⟨⟨a2, a3⟩, ?_⟩, ?_⟩
    · rcases a5 with ⟨_, b2⟩ | ⟨q, hq, hl⟩
      · exact .inr b2
      · exact .inl (hg.nonempty_bound hq hl)
    · rw [isXmlIdName_eq hf]
      by_cases hid : name = Env.xmlIdName
      · exact .inr (a4 hid)
      · exact .inl (by simpa using hid)
  | «namespace» p ns =>
    obtain ⟨g1, g2, g3, g5, g4⟩ := declFull_of_acc hf ha (by simpa [noReservedDecl] using h1)
    obtain ⟨a1, a2, a3, a4, _⟩ := ha
    have hpne : p ≠ Env.emptyPrefix → env.prefixStr p ≠ [] := fun hp hh =>
      hp (hf.prefixStr_inj a1 hf.emptyPrefix_lt (by rw [hh, hf.p0]))
    have hnne : ns ≠ Env.noNamespace → env.namespaceStr ns ≠ [] := fun hn hh =>
      hn (hf.namespaceStr_inj a2 hf.noNamespace_lt (by rw [hh, hf.ns0]))
    simp only [valueOK, Bool.and_eq_true, bne_iff_ne, ne_eq, Bool.or_eq_true, beq_iff_eq, ncNameNE,
      Bool.not_eq_true', List.isEmpty_eq_false_iff]
    refine ⟨⟨⟨⟨⟨g1, g3⟩, g5⟩, ?_⟩, ?_⟩, a4⟩
    · by_cases hp : p = Env.emptyPrefix
      · exact .inl hp
      · exact .inr ⟨⟨⟨a3, hpne hp⟩, g2⟩, g4 hp⟩
    · by_cases hn : ns = Env.noNamespace
      · exact .inl hn
      · exact .inr (hnne hn)

theorem kidDecls_mem {ks : List Tree} {d : Nat × Nat} (h : d ∈ kidDecls ks) :
    ∃ k ∈ ks, k.value = .namespace d.1 d.2 := by
  simp only [kidDecls, List.mem_filterMap] at h
  obtain ⟨k, hk, hv⟩ := h
  refine ⟨k, hk, ?_⟩
  cases hkv : k.value <;> simp [hkv, nsPair] at hv
  rw [← hv]

theorem allNodes_root {p : Value → List Tree → Bool} {k : Tree} (h : k.allNodes p = true) :
    p k.value k.kids = true := by
  cases k with
  | node v ks => rw [allNodes_node, Bool.and_eq_true] at h; exact h.1

theorem treeAcc_root {env : Env} {st : NsStack} {k : Tree} (h : TreeAcc env st k) :
    ValAcc env (ctx k.value k.kids st) k.value := by
  cases k with
  | node v ks => rw [treeAcc_node] at h; exact h.1

theorem StackGuard.push {env : Env} (hfacts : EnvFacts env) {st : NsStack} (hg : StackGuard env st)
    {v : Value} {ks : List Tree} {st' : NsStack} (hacc : ∀ k ∈ ks, TreeAcc env st' k)
    (hk : ∀ k ∈ ks, k.allNodes (noReservedDecl env) = true) : StackGuard env (ctx v ks st) := by
  unfold ctx
  split
  · obtain ⟨fs, rfl, hfs⟩ := hg
    refine ⟨kidDecls ks :: fs, rfl, fun f hf d hd => ?_⟩
    rcases List.mem_cons.mp hf with rfl | hf
    · obtain ⟨k, hkm, hv⟩ := kidDecls_mem hd
      have h1 := allNodes_root (hk k hkm)
      have h2 := treeAcc_root (hacc k hkm)
      rw [hv] at h1 h2
      exact declFull_of_acc hfacts h2 h1
    · exact hfs f hf d hd
  · exact hg

theorem nodeOK_of_acc {env : Env} (hf : EnvFacts env) : ∀ (t : Tree) (st : NsStack), StackGuard env st →
    TreeAcc env st t → t.Forall SoundAt → t.allNodes (noReservedDecl env) = true →
    t.allNodes (plainPiTarget env) = true → t.allNodes (nodeOK env) = true
  | .node v ks, st, hg, ha, hs, h1, h2 => by
    rw [treeAcc_node] at ha
    rw [Tree.forall_node] at hs
    rw [allNodes_node, Bool.and_eq_true, List.all_eq_true] at h1 h2 ⊢
    have hg' := hg.push hf (v := v) ha.2 h1.2
    refine ⟨?_, fun k hk => ?_⟩
    · obtain ⟨s1, s2, s3, s4⟩ := hs.1
      exact (nodeOK_iff env v ks).mpr ⟨s1, s2, s4, s3, valueOK_of_acc hf hg' ha.1 h1.1 h2.1⟩
    · have : sizeOf k < sizeOf (Tree.node v ks) := by
        have := List.sizeOf_lt_of_mem hk
        simp only [Tree.node.sizeOf_spec]
        omega
      exact nodeOK_of_acc hf k _ hg' (ha.2 k hk) (hs.2 k hk) (h1.2 k hk) (h2.2 k hk)
termination_by t => sizeOf t

/-! ### Every name can be written -/

/-- The serialiser's flattened scope `top` against the builder's stack `st`. -/
def SerRel (env : Env) (top : List (Nat × Nat)) (st : NsStack) : Prop :=
  ∃ fs : Frames, st = fs ++ base2 ∧ Flat top (fs ++ [basePrefixes]) ∧ ∀ f ∈ fs, DeclsOK env f

theorem SerRel.push {env : Env} {top : List (Nat × Nat)} {st : NsStack} (h : SerRel env top st)
    {decls : List (Nat × Nat)} (hd : DeclsOK env decls) : SerRel env (pushTop top decls) (decls :: st) := by
  obtain ⟨fs, rfl, hflat, hfs⟩ := h
  refine ⟨decls :: fs, rfl, ?_, fun f hf => ?_⟩
  · unfold pushTop
    cases hdec : decls with
    | nil =>
      simp only [List.isEmpty_nil, if_true, List.cons_append]
      exact ⟨hflat.1, fun p n => by rw [lookupFrames_nil_cons]; exact hflat.2 p n⟩
    | cons d ds =>
      simp only [List.isEmpty_cons, Bool.false_eq_true, if_false, List.cons_append]
      rw [← hdec]
      exact flat_push hflat hd.1
  · rcases List.mem_cons.mp hf with rfl | hf
    · exact hd
    · exact hfs f hf

/-- A binding found by the builder in the scope is in the serialiser's top frame, unless it is one
    of the two base bindings. -/
theorem SerRel.found {env : Env} {top : List (Nat × Nat)} {st : NsStack} (h : SerRel env top st) {q ns : Nat}
    (hl : lookupPrefix st q = some ns) :
    (q, ns) ∈ top ∨ (q = Env.emptyPrefix ∧ ns = Env.noNamespace ∧ ∀ n, (Env.emptyPrefix, n) ∉ top) ∨
      (q = Env.xmlPrefix ∧ ns = Env.xmlNamespace) := by
  obtain ⟨fs, rfl, hflat, hfs⟩ := h
  rcases lookupPrefix_frames fs (fun f hf => (hfs f hf).1) hl with h1 | ⟨h1, h2⟩
  · refine .inl ((hflat.2 q ns).mpr ?_)
    rw [lookupFrames_append_base, h1]
  · rcases lookupPrefix_base2 h2 with ⟨rfl, rfl⟩ | ⟨rfl, rfl⟩
    · refine .inr (.inl ⟨rfl, rfl, fun n hm => ?_⟩)
      have := (hflat.2 _ _).mp hm
      rw [lookupFrames_append_base, h1] at this
      simp [basePrefixes, List.lookup, Env.emptyPrefix, Env.xmlPrefix] at this
    · exact .inr (.inr ⟨rfl, rfl⟩)

/-- In a guarded scope, the empty namespace is bound by the empty prefix only. -/
theorem SerRel.none_by_empty {env : Env} {top : List (Nat × Nat)} {st : NsStack} (h : SerRel env top st) {q : Nat}
    (hm : (q, Env.noNamespace) ∈ top) : q = Env.emptyPrefix := by
  obtain ⟨fs, rfl, hflat, hfs⟩ := h
  have hl := (hflat.2 _ _).mp hm
  rw [lookupFrames_append_base] at hl
  cases h1 : lookupFrames fs q with
  | some n =>
    rw [h1] at hl
    simp only [Option.some.injEq] at hl
    subst hl
    obtain ⟨f, hf, hmem⟩ := lookupFrames_mem h1
    by_cases hq : q = Env.emptyPrefix
    · exact hq
    · exact absurd rfl ((valueOK_namespace_facts ((hfs f hf).2 _ hmem)).2.2.1 hq).2.2
  | none =>
    rw [h1] at hl
    simp [basePrefixes, List.lookup, Env.noNamespace, Env.xmlNamespace] at hl

theorem elemOk_of {env : Env} {top : List (Nat × Nat)} {st : NsStack} (h : SerRel env top st) {ns : Nat}
    (hq : ∃ q, lookupPrefix st q = some ns) :
    (!(ns == Env.noNamespace && hasDefault top) && elemOk ns top) = true := by
  obtain ⟨q, hl⟩ := hq
  simp only [Bool.and_eq_true, Bool.not_eq_true', Bool.and_eq_false_iff, beq_eq_false_iff_ne]
  constructor
  · by_cases hns : ns = Env.noNamespace
    · subst hns
      refine .inr ?_
      cases hd : hasDefault top with
      | false => rfl
      | true =>
        exfalso
        simp only [hasDefault, List.any_eq_true, Bool.and_eq_true, beq_iff_eq, bne_iff_ne] at hd
        obtain ⟨⟨p, n⟩, hm, hp, hn⟩ := hd
        simp only at hp hn
        subst hp
        rcases h.found hl with h1 | ⟨_, _, h3⟩ | ⟨_, h2⟩
        · have hq0 := h.none_by_empty h1
          subst hq0
          obtain ⟨fs, _, hflat, _⟩ := h
          have e1 := (hflat.2 _ _).mp h1
          have e2 := (hflat.2 _ _).mp hm
          rw [e1] at e2
          exact hn (Option.some.inj e2).symm
        · exact h3 n hm
        · cases h2
    · exact .inl hns
  · simp only [elemOk, Bool.or_eq_true, beq_iff_eq]
    by_cases h0 : ns = Env.noNamespace
    · exact .inl (.inl h0)
    · by_cases h1 : ns = Env.xmlNamespace
      · exact .inl (.inr h1)
      · refine .inr ?_
        rcases h.found hl with hm | ⟨_, h2, _⟩ | ⟨_, h2⟩
        · cases he : elementPrefixByNamespace top ns with
          | some p => rfl
          | none => exact absurd hm (elementPrefixByNamespace_none he q)
        · exact absurd h2 h0
        · exact absurd h2 h1

theorem attrOk_of {env : Env} {top : List (Nat × Nat)} {st : NsStack} (h : SerRel env top st) {ns : Nat}
    (hq : ns = Env.noNamespace ∨ ∃ q, q ≠ Env.emptyPrefix ∧ lookupPrefix st q = some ns) : attrOk ns top = true := by
  simp only [attrOk, Bool.or_eq_true, beq_iff_eq]
  rcases hq with h0 | ⟨q, hq, hl⟩
  · exact .inl (.inl h0)
  · by_cases h1 : ns = Env.xmlNamespace
    · exact .inl (.inr h1)
    · refine .inr ?_
      rcases h.found hl with hm | ⟨h2, _, _⟩ | ⟨_, h2⟩
      · cases he : attributePrefixByNamespace top ns with
        | some p => rfl
        | none => exact absurd hm (attributePrefixByNamespace_none he q hq)
      · exact absurd h2 hq
      · exact absurd h2 h1

theorem okRec_of_acc {env : Env} : ∀ (t : Tree) (top : List (Nat × Nat)) (st : NsStack), SerRel env top st →
    TreeAcc env st t → t.allNodes (nodeOK env) = true → okRec env.nsOfName top t = true
  | .node v ks, top, st, hrel, ha, hn => by
    rw [treeAcc_node] at ha
    have hnode : nodeOK env v ks = true := by rw [allNodes_node, Bool.and_eq_true] at hn; exact hn.1
    obtain ⟨hord, -, -, -, -⟩ := (nodeOK_iff env v ks).mp hnode
    have hkids : ∀ (top' : List (Nat × Nat)) (st' : NsStack), SerRel env top' st' → (∀ k ∈ ks, TreeAcc env st' k) →
        okKids env.nsOfName top' ks = true := by
      intro top' st' hrel' hacc
      have : ∀ (l : List Tree), (∀ k ∈ l, k ∈ ks) → okKids env.nsOfName top' l = true := by
        intro l
        induction l with
        | nil => intro _; rfl
        | cons k l ih =>
          intro hl
          have hk : k ∈ ks := hl k (by simp)
          have : sizeOf k < sizeOf (Tree.node v ks) := by
            have := List.sizeOf_lt_of_mem hk
            simp only [Tree.node.sizeOf_spec]
            omega
          simp only [okKids, Bool.and_eq_true]
          exact ⟨okRec_of_acc k top' st' hrel' (hacc k hk) (allNodes_kid hn hk), ih (fun k' hk' => hl k' (by simp [hk']))⟩
      exact this ks (fun k hk => hk)
    by_cases he : v.isElement = true
    · cases v <;> simp [Value.isElement] at he
      rename_i name
      have hdecls := declsOK_of_nodeOK hn
      have hkd : (Tree.node (.element name) ks).nsDecls = kidDecls ks := nsDecls_eq_kidDecls _ ks hord
      simp only [ctx, Value.isElement, if_true] at ha
      have hrel' : SerRel env (pushTop top (Tree.node (.element name) ks).nsDecls) (kidDecls ks :: st) := by
        have := hrel.push hdecls
        rw [hkd] at this ⊢
        exact this
      simp only [okRec, elementOkAt, Bool.and_eq_true]
      refine ⟨⟨?_, ?_⟩, hkids _ _ hrel' ha.2⟩
      · have := elemOk_of hrel' ha.1.2.2
        simpa [Bool.and_eq_true] using this
      · rw [List.all_eq_true]
        intro a hmem
        obtain ⟨av, hav, rfl⟩ := List.mem_map.mp hmem
        obtain ⟨k, hk, hv⟩ := mem_attrs hav
        have hka := ha.2 k hk
        cases k with
        | node kv kks =>
          simp only [Tree.value] at hv
          subst hv
          rw [treeAcc_node] at hka
          simp only [ctx, Value.isElement, Bool.false_eq_true, if_false] at hka
          refine attrOk_of hrel' ?_
          rcases hka.1.2.2.2.2 with ⟨h0, _⟩ | hq
          · exact .inl h0
          · exact .inr hq
    · have he' : v.isElement = false := by simpa using he
      simp only [ctx, he', Bool.false_eq_true, if_false] at ha
      rw [okRec_other _ _ _ _ he']
      exact hkids top st hrel ha.2
termination_by t => sizeOf t

end XotModel.Accepted
