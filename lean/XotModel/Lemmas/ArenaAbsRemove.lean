/-
  XotModel.Lemmas.ArenaAbsRemove — refinement theorems for `remove` (the forest model's `spliceOut`)
  and `remove_subtree` (`dropSubtree`).
-/
import XotModel.Lemmas.ArenaAbsSibling

namespace XotModel
namespace Arena

/-- `spliceOut` on the trees: the node `i` (under `p`, between `L` and `R`) is replaced by its children. -/
theorem IsTrees.splice_replaceBelow {a : Arena} {g g' : Shape} {w : View} (x : TreeCtx a g w) {rs : List Nat}
    {roots : List HTree} (htrees : IsTrees g w rs roots) (hrs : ∀ k ∈ rs, Live a k ∧ g.par k = none)
    (i p : Nat) (L R : List Nat) (hi : Live a i) (hpar : g.par i = some p) (hk : g.kids p = L ++ i :: R)
    (hk' : g'.kids p = L ++ g.kids i ++ R) (hagree : ∀ q, q ≠ p → q ≠ i → g'.kids q = g.kids q) :
    IsTrees g' w rs (roots.map (HTree.replaceBelow (w.rho i) (fun n => n.kids))) := by
  have ra : ReplaceAt a g g' w i p L R (g.kids i) (fun n => n.kids) := by
    refine ⟨hi, hpar, hk, hk', fun ti hti => ?_, fun q _ hq hqi => hagree q hq (fun e => hqi (e ▸ .refl _))⟩
    refine IsTrees.congr (fun q => ∃ k, k ∈ g.kids i ∧ Reach g.par q k) ?_ hti.kids (fun k hk'' => ⟨k, hk'', .refl _⟩)
    intro q ⟨k, hk'', hqk⟩
    have hki := (x.rep.kidsLive i k hk'').2.2
    have hqi : q ≠ i := fun e => x.rep.acyclic k i hki (e ▸ hqk)
    have hqp : q ≠ p := fun e => x.rep.acyclic i p hpar (e ▸ (hqk.trans (.single hki)))
    exact ⟨hagree q hqp hqi, rfl, rfl, fun k' hk3 => ⟨k, hk'', .step (x.rep.kidsLive q k' hk3).2.2 hqk⟩⟩
  refine IsTrees.replaceBelowList x ra htrees (fun k hk'' => ⟨(hrs k hk'').1, fun hreach => ?_⟩)
  have hkn := (hrs k hk'').2
  cases hreach with
  | refl => rw [hpar] at hkn; cases hkn
  | step hp _ => rw [hkn] at hp; cases hp

/-- Refinement, `remove` of a node with a parent (with or without children): `spliceOut`. -/
theorem Abs.remove_inner {a : Arena} {g : Shape} {w : View} {rs : List Nat} {f : Forest} (h : Abs a g w rs f)
    (i p : Nat) (L R : List Nat) (hi : Live a i) (hpar : g.par i = some p) (hk : g.kids p = L ++ i :: R) :
    ∃ a' g', Arena.remove a (a.idAt i) = .done a' () ∧ g'.kids p = L ++ g.kids i ++ R ∧
      Abs a' g' w rs (f.spliceOut (w.rho i)) := by
  obtain ⟨ti, hti, hget⟩ := h.get?_live i hi
  have hnr : f.isRoot (w.rho i) = false := by
    cases hroot : f.isRoot (w.rho i) with
    | false => rfl
    | true =>
      have := ((h.rsMem i).mp ((h.isRoot_iff i hi).mp hroot)).2
      rw [hpar] at this; cases this
  have hfs : f.spliceOut (w.rho i) = { f with roots := f.roots.map (HTree.replaceBelow (w.rho i) (fun n => n.kids)) } := by
    unfold Forest.spliceOut; rw [hget]; simp only [hnr, Bool.false_eq_true, if_false]
  rw [hfs]
  have hpi : p ≠ i := h.ctx.rep.par_ne hpar
  have hrs : ∀ k ∈ rs, Live a k ∧ g.par k = none := fun k hk' => (h.rsMem k).mp hk'
  have hirs : i ∉ rs := fun hm => by
    have := ((h.rsMem i).mp hm).2; rw [hpar] at this; cases this
  by_cases hK : g.kids i = []
  · -- a childless node
    obtain ⟨a1, a', _, hM, r1, hcall, ok, r'⟩ := h.ctx.rep.remove_leaf i hi hK
    have hkp : (g.detach i).kids p = L ++ R := Shape.detach_kids_par g i p L R hpar hk (h.ctx.rep.kidsNodup p)
    have hlive' : ∀ j, Live a' j ↔ (Live a j ∧ j ≠ i) := fun j => by rw [ok.live j, hM.live j]
    refine ⟨a', g.removeLeaf i, hcall, by simp [Shape.removeLeaf, hkp, hK], ?_⟩
    refine ⟨⟨r', fun u v hu hv => h.ctx.inj u v ((hlive' u).mp hu).1 ((hlive' v).mp hv).1⟩, ?_, h.rsNodup, ?_, ?_, ?_, h.clean⟩
    · refine IsTrees.splice_replaceBelow h.ctx h.trees hrs i p L R hi hpar hk (by simp [Shape.removeLeaf, hkp, hK]) ?_
      intro q hq _
      simp only [Shape.removeLeaf]
      exact Shape.detach_kids_ne g i p q hpar hq
    · intro j
      rw [hlive' j, h.rsMem j]
      simp only [Shape.removeLeaf]
      by_cases hji : j = i
      · subst hji; simp [hpar]
      · rw [Shape.detach_par_ne g i j hji]; simp [hji]
    · intro u hu; exact h.below u ((hlive' u).mp hu).1
    · intro j s v hs hd
      have hji : j ≠ i := by
        intro e; subst e
        have : Live a' j := ⟨s, hs, (r'.dataLive j s hs).mpr ⟨v, hd⟩⟩
        exact ((hlive' j).mp this).2 rfl
      obtain ⟨s0, hs0, h00⟩ := ((hlive' j).mp ⟨s, hs, (r'.dataLive j s hs).mpr ⟨v, hd⟩⟩).1
      obtain ⟨v0, hv0⟩ := (h.ctx.rep.dataLive j s0 hs0).mp h00
      obtain ⟨s1, hs1, _, hd1⟩ := hM.slot_some hs0
      obtain ⟨s2, hs2, hd2⟩ := ok.payload j s1 v0 hji hs1 (by rw [hd1]; exact hv0)
      rw [hs] at hs2; cases hs2
      rw [hd] at hd2; cases hd2
      exact h.vals j s0 v hs0 hv0
  · -- children take the node's place
    cases hh : (g.kids i).head? with
    | none => exact absurd (List.head?_eq_none_iff.mp hh) hK
    | some c1 =>
      cases hl : (g.kids i).getLast? with
      | none => exact absurd (List.getLast?_eq_none_iff.mp hl) hK
      | some ck =>
        obtain ⟨a5, a', hM5, r5, hcall, ok, r'⟩ := h.ctx.rep.remove_inner i p L R c1 ck hi hpar hk hh hl
        have hkids1 : (g.detach i).kids i = g.kids i := Shape.detach_kids_self g (fun c p hcp => h.ctx.rep.par_ne hcp) i
        have hlive' : ∀ j, Live a' j ↔ (Live a j ∧ j ≠ i) := fun j => by rw [ok.live j, hM5.live j]
        have hkp' : (g.removeInner i p L R).kids p = L ++ g.kids i ++ R := by
          simp [Shape.removeInner, Shape.splice, hkids1]
        refine ⟨a', g.removeInner i p L R, hcall, hkp', ?_⟩
        refine ⟨⟨r', fun u v hu hv => h.ctx.inj u v ((hlive' u).mp hu).1 ((hlive' v).mp hv).1⟩, ?_, h.rsNodup, ?_, ?_, ?_, h.clean⟩
        · refine IsTrees.splice_replaceBelow h.ctx h.trees hrs i p L R hi hpar hk hkp' ?_
          intro q hq hqi
          simp only [Shape.removeInner, Shape.splice, if_neg hq, if_neg hqi]
          exact Shape.detach_kids_ne g i p q hpar hq
        · intro j
          rw [hlive' j, h.rsMem j]
          simp only [Shape.removeInner, Shape.splice, hkids1]
          by_cases hji : j = i
          · subst hji; simp [hpar]
          · by_cases hjK : j ∈ g.kids i
            · have := (h.ctx.rep.kidsLive i j hjK).2.2
              simp [hjK, this]
            · rw [if_neg hjK, Shape.detach_par_ne g i j hji]; simp [hji]
        · intro u hu; exact h.below u ((hlive' u).mp hu).1
        · intro j s v hs hd
          have hlj : Live a' j := ⟨s, hs, (r'.dataLive j s hs).mpr ⟨v, hd⟩⟩
          have hji : j ≠ i := ((hlive' j).mp hlj).2
          obtain ⟨s0, hs0, h00⟩ := ((hlive' j).mp hlj).1
          obtain ⟨v0, hv0⟩ := (h.ctx.rep.dataLive j s0 hs0).mp h00
          obtain ⟨s1, hs1, _, hd1⟩ := hM5.slot_some hs0
          obtain ⟨s2, hs2, hd2⟩ := ok.payload j s1 v0 hji hs1 (by rw [hd1]; exact hv0)
          rw [hs] at hs2; cases hs2
          rw [hd] at hd2; cases hd2
          exact h.vals j s0 v hs0 hv0

/-- Refinement, `remove_subtree`: `dropSubtree`. -/
theorem Abs.removeSubtree {a : Arena} {g : Shape} {w : View} {rs : List Nat} {f : Forest} (h : Abs a g w rs f)
    (i : Nat) (hi : Live a i) :
    ∃ a' l, Arena.removeSubtree a (a.idAt i) = .done a' () ∧ (∀ u, u ∈ l ↔ Reach g.par u i) ∧
      Abs a' ((g.detach i).prune l) w (rs.filter (· ≠ i)) (f.dropSubtree (w.rho i)) := by
  obtain ⟨a', l, hcall, ok⟩ := h.ctx.rep.removeSubtree i hi
  obtain ⟨ti, f1, hcut, _, _, htrees1, hnext, hcorrupt⟩ := h.cut i hi
  have hfd : f.dropSubtree (w.rho i) = f1 := by unfold Forest.dropSubtree; rw [hcut]
  rw [hfd]
  refine ⟨a', l, hcall, fun u => (ok.mem u).trans (h.ctx.rep.reach_detach_iff i u), ?_⟩
  obtain ⟨a1, _, r1, hM1⟩ := h.ctx.rep.detach (a.idAt i) (LiveId.idAt hi)
  rw [idAt_index0] at r1
  have hup : ∀ c q, (g.detach i).par c = some q → c ∈ l → q ∈ l := by
    intro c q hp hc
    have := (ok.mem c).mp hc
    cases this with
    | refl => rw [Shape.detach_par_self] at hp; cases hp
    | step hp' hr => rw [hp] at hp'; cases hp'; exact (ok.mem q).mpr hr
  refine ⟨⟨ok.rep, fun u v hu hv => h.ctx.inj u v ((ok.live u).mp hu).1 ((ok.live v).mp hv).1⟩, ?_, h.rsNodup.filter _, ?_, ?_, ?_, ?_⟩
  · -- the remaining trees are untouched
    refine IsTrees.congr (fun q => q ∉ l) ?_ htrees1 ?_
    · intro q hq
      refine ⟨by simp [Shape.prune, hq], rfl, rfl, fun k hk hkl => ?_⟩
      exact hq (hup k q (r1.kidsLive q k hk).2.2 hkl)
    · intro k hk hkl
      obtain ⟨hk1, hk2⟩ := List.mem_filter.mp hk
      have hki : k ≠ i := by simpa using hk2
      have hkn := ((h.rsMem k).mp hk1).2
      have := (ok.mem k).mp hkl
      cases this with
      | refl => exact hki rfl
      | step hp _ => rw [Shape.detach_par_ne g i k hki, hkn] at hp; cases hp
  · intro j
    simp only [List.mem_filter, ne_eq, decide_eq_true_eq]
    rw [ok.live j, h.rsMem j]
    simp only [Shape.prune]
    have hil : i ∈ l := (ok.mem i).mpr (.refl _)
    by_cases hji : j = i
    · subst hji; simp [hil]
    · by_cases hjl : j ∈ l
      · -- a proper descendant of `i` has a parent
        have := (ok.mem j).mp hjl
        cases this with
        | refl => exact absurd rfl hji
        | step hp _ =>
          rw [Shape.detach_par_ne g i j hji] at hp
          simp [hjl, hp]
      · rw [if_neg hjl, Shape.detach_par_ne g i j hji]; simp [hji, hjl]
  · intro u hu
    show w.rho u < f1.next
    rw [hnext]; exact h.below u ((ok.live u).mp hu).1
  · intro j s v hs hd
    have hlj : Live a' j := ⟨s, hs, (ok.rep.dataLive j s hs).mpr ⟨v, hd⟩⟩
    obtain ⟨⟨s0, hs0, h00⟩, hjl⟩ := (ok.live j).mp hlj
    obtain ⟨v0, hv0⟩ := (h.ctx.rep.dataLive j s0 hs0).mp h00
    obtain ⟨s2, hs2, hd2⟩ := ok.payload j s0 v0 hjl hs0 hv0
    rw [hs] at hs2; cases hs2
    rw [hd] at hd2; cases hd2
    exact h.vals j s0 v hs0 hv0
  · show f1.corrupt = false
    rw [hcorrupt]; exact h.clean

end Arena
end XotModel
