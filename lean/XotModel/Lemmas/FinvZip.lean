/-
  Finv (C04), part 1: one-hole contexts ("zippers") for forests.

  `plug path ks` is the root list obtained by putting the child list `ks` into the hole of the
  path `path` (outermost frame first).  Every live handle `h` gives a decomposition
  `roots = plug path (l ++ k :: r)` with `k.handle = h`; under distinct handles every primitive of
  `Model/Forest.lean` can be evaluated on such a form.
-/
import XotModel.Lemmas.ForestBasic

namespace XotModel
open HTree

/-- One level of a path: the node (`h`, `v`) whose child list contains the hole, with its own
    left and right siblings. -/
structure ZipFrame where
  l : List HTree
  h : Nat
  v : Value
  r : List HTree

/-- Fill the hole. -/
def plug : List ZipFrame → List HTree → List HTree
  | [], ks => ks
  | fr :: rest, ks => fr.l ++ HTree.node fr.h fr.v (plug rest ks) :: fr.r

/-- Handles of the context part of a path. -/
def pathHandles : List ZipFrame → List Nat
  | [] => []
  | fr :: rest => handlesList fr.l ++ fr.h :: (pathHandles rest ++ handlesList fr.r)

@[simp] theorem plug_nil (ks : List HTree) : plug [] ks = ks := rfl
@[simp] theorem plug_cons (fr : ZipFrame) (rest : List ZipFrame) (ks : List HTree) :
    plug (fr :: rest) ks = fr.l ++ HTree.node fr.h fr.v (plug rest ks) :: fr.r := rfl

theorem plug_append (p1 p2 : List ZipFrame) (ks : List HTree) :
    plug (p1 ++ p2) ks = plug p1 (plug p2 ks) := by
  induction p1 with
  | nil => rfl
  | cons fr rest ih => simp [ih]

/-! ### Elementary facts about `handles` -/

@[simp] theorem fi_handles_node (h : Nat) (v : Value) (ks : List HTree) :
    handles (.node h v ks) = h :: handlesList ks := by simp [handles]

@[simp] theorem fi_handlesList_nil : handlesList [] = [] := by simp [handlesList]

@[simp] theorem fi_handlesList_cons (k : HTree) (ks : List HTree) :
    handlesList (k :: ks) = handles k ++ handlesList ks := by simp [handlesList]

@[simp] theorem fi_handlesList_append (a b : List HTree) :
    handlesList (a ++ b) = handlesList a ++ handlesList b := by
  induction a with
  | nil => simp
  | cons k ks ih => simp [ih]

theorem fi_handles_eq (t : HTree) : handles t = t.handle :: handlesList t.kids := by
  cases t; simp [HTree.handle, HTree.kids]

theorem fi_handle_mem_handles (t : HTree) : t.handle ∈ handles t := by
  rw [fi_handles_eq]; simp

@[simp] theorem node_handle (h : Nat) (v : Value) (ks : List HTree) : (HTree.node h v ks).handle = h := rfl
@[simp] theorem node_value (h : Nat) (v : Value) (ks : List HTree) : (HTree.node h v ks).value = v := rfl
@[simp] theorem node_kids (h : Nat) (v : Value) (ks : List HTree) : (HTree.node h v ks).kids = ks := rfl

theorem node_eta (t : HTree) : HTree.node t.handle t.value t.kids = t := by cases t; rfl

theorem handlesList_plug_perm (path : List ZipFrame) (ks : List HTree) :
    (handlesList (plug path ks)).Perm (pathHandles path ++ handlesList ks) := by
  induction path with
  | nil => simp [pathHandles]
  | cons fr rest ih =>
    simp only [plug_cons, fi_handlesList_append, fi_handlesList_cons, fi_handles_node, pathHandles,
      List.append_assoc, List.cons_append]
    refine List.Perm.append_left _ (List.Perm.cons _ ?_)
    -- handlesList (plug rest ks) ++ fr.r  ~  pathHandles rest ++ fr.r ++ ks
    refine (List.Perm.append_right _ ih).trans ?_
    simp only [List.append_assoc]
    exact List.Perm.append_left _ List.perm_append_comm

theorem mem_handlesList_plug {path : List ZipFrame} {ks : List HTree} {x : Nat} :
    x ∈ handlesList (plug path ks) ↔ x ∈ pathHandles path ∨ x ∈ handlesList ks := by
  rw [(handlesList_plug_perm path ks).mem_iff]; simp

theorem nodup_plug {path : List ZipFrame} {ks : List HTree} :
    (handlesList (plug path ks)).Nodup ↔ (pathHandles path ++ handlesList ks).Nodup :=
  (handlesList_plug_perm path ks).nodup_iff

/-! ### Functions on a tree that does not contain the handle -/

mutual
  theorem find?_of_not_mem (h : Nat) : ∀ t : HTree, h ∉ handles t → find? h t = none
    | .node h' v ks => by
      intro hm
      simp only [fi_handles_node, List.mem_cons, not_or] at hm
      unfold find?
      rw [if_neg (fun e => hm.1 e.symm)]
      exact findList?_of_not_mem h ks hm.2
  theorem findList?_of_not_mem (h : Nat) : ∀ ks : List HTree, h ∉ handlesList ks → findList? h ks = none
    | [] => by intro _; simp [findList?]
    | k :: ks => by
      intro hm
      simp only [fi_handlesList_cons, List.mem_append, not_or] at hm
      unfold findList?
      rw [find?_of_not_mem h k hm.1]
      exact findList?_of_not_mem h ks hm.2
end

mutual
  theorem fi_replaceBelow_of_not_mem (h : Nat) (g : HTree → List HTree) : ∀ t : HTree,
      h ∉ handlesList t.kids → replaceBelow h g t = t
    | .node h' v ks => by
      intro hm
      unfold replaceBelow
      rw [replaceKids_of_not_mem h g ks hm]
  theorem replaceKids_of_not_mem (h : Nat) (g : HTree → List HTree) : ∀ ks : List HTree,
      h ∉ handlesList ks → replaceKids h g ks = ks
    | [] => by intro _; simp [replaceKids]
    | k :: ks => by
      intro hm
      simp only [fi_handlesList_cons, List.mem_append, not_or] at hm
      have hk : k.handle ≠ h := fun e => hm.1 (e ▸ fi_handle_mem_handles k)
      have hkids : h ∉ handlesList k.kids := by
        intro hc; apply hm.1; rw [fi_handles_eq]; exact List.mem_cons_of_mem _ hc
      unfold replaceKids
      rw [if_neg hk, fi_replaceBelow_of_not_mem h g k hkids, replaceKids_of_not_mem h g ks hm.2]
end

mutual
  theorem mapAt_of_not_mem (h : Nat) (g : HTree → HTree) : ∀ t : HTree,
      h ∉ handles t → mapAt h g t = t
    | .node h' v ks => by
      intro hm
      simp only [fi_handles_node, List.mem_cons, not_or] at hm
      unfold mapAt
      rw [if_neg (fun e => hm.1 e.symm), mapAtList_of_not_mem h g ks hm.2]
  theorem mapAtList_of_not_mem (h : Nat) (g : HTree → HTree) : ∀ ks : List HTree,
      h ∉ handlesList ks → mapAtList h g ks = ks
    | [] => by intro _; simp [mapAtList]
    | k :: ks => by
      intro hm
      simp only [fi_handlesList_cons, List.mem_append, not_or] at hm
      unfold mapAtList
      rw [mapAt_of_not_mem h g k hm.1, mapAtList_of_not_mem h g ks hm.2]
end

mutual
  theorem fi_ctxBelow_of_not_mem (h : Nat) : ∀ t : HTree,
      h ∉ handlesList t.kids → ctxBelow h t = none
    | .node h' v ks => by
      intro hm
      unfold ctxBelow
      exact fi_ctxKids_of_not_mem h h' ks [] hm
  theorem fi_ctxKids_of_not_mem (h p : Nat) : ∀ (ks acc : List HTree),
      h ∉ handlesList ks → ctxKids h p acc ks = none
    | [], acc => by intro _; simp [ctxKids]
    | k :: ks, acc => by
      intro hm
      simp only [fi_handlesList_cons, List.mem_append, not_or] at hm
      have hk : k.handle ≠ h := fun e => hm.1 (e ▸ fi_handle_mem_handles k)
      have hkids : h ∉ handlesList k.kids := by
        intro hc; apply hm.1; rw [fi_handles_eq]; exact List.mem_cons_of_mem _ hc
      unfold ctxKids
      rw [if_neg hk, fi_ctxBelow_of_not_mem h k hkids]
      exact fi_ctxKids_of_not_mem h p ks (acc ++ [k]) hm.2
end

mutual
  theorem fi_ancestorsOf_of_not_mem (h : Nat) : ∀ t : HTree, h ∉ handles t → ancestorsOf h t = none
    | .node h' v ks => by
      intro hm
      simp only [fi_handles_node, List.mem_cons, not_or] at hm
      unfold ancestorsOf
      rw [if_neg (fun e => hm.1 e.symm), fi_ancestorsOfList_of_not_mem h ks hm.2]
  theorem fi_ancestorsOfList_of_not_mem (h : Nat) : ∀ ks : List HTree,
      h ∉ handlesList ks → ancestorsOfList h ks = none
    | [] => by intro _; simp [ancestorsOfList]
    | k :: ks => by
      intro hm
      simp only [fi_handlesList_cons, List.mem_append, not_or] at hm
      unfold ancestorsOfList
      rw [fi_ancestorsOf_of_not_mem h k hm.1]
      exact fi_ancestorsOfList_of_not_mem h ks hm.2
end

/-! ### Equation lemmas (the `cons` cases, usable with `rw` on one side only) -/

theorem fi_findList?_cons (h : Nat) (k : HTree) (ks : List HTree) :
    findList? h (k :: ks) = (find? h k).or (findList? h ks) := by
  rw [findList?]; cases find? h k <;> rfl

theorem replaceKids_cons (h : Nat) (g : HTree → List HTree) (k : HTree) (ks : List HTree) :
    replaceKids h g (k :: ks) =
      if k.handle = h then g k ++ ks else replaceBelow h g k :: replaceKids h g ks := by
  rw [replaceKids]

theorem ctxKids_cons (h p : Nat) (acc : List HTree) (k : HTree) (ks : List HTree) :
    ctxKids h p acc (k :: ks) =
      if k.handle = h then some ⟨p, acc, k, ks⟩
      else (ctxBelow h k).or (ctxKids h p (acc ++ [k]) ks) := by
  rw [ctxKids]; cases ctxBelow h k <;> rfl

theorem ancestorsOfList_cons (h : Nat) (k : HTree) (ks : List HTree) :
    ancestorsOfList h (k :: ks) =
      (ancestorsOf h k).or (ancestorsOfList h ks) := by
  rw [ancestorsOfList]; cases ancestorsOf h k <;> rfl

/-! ### Skipping a prefix that does not contain the handle -/

theorem fi_findList?_append_of_not_mem (h : Nat) (l rest : List HTree) (hm : h ∉ handlesList l) :
    findList? h (l ++ rest) = findList? h rest := by
  induction l with
  | nil => rfl
  | cons k ks ih =>
    simp only [fi_handlesList_cons, List.mem_append, not_or] at hm
    simp only [List.cons_append]
    rw [fi_findList?_cons, find?_of_not_mem h k hm.1, Option.none_or]
    exact ih hm.2

theorem fi_replaceKids_append_of_not_mem (h : Nat) (g : HTree → List HTree) (l rest : List HTree)
    (hm : h ∉ handlesList l) : replaceKids h g (l ++ rest) = l ++ replaceKids h g rest := by
  induction l with
  | nil => rfl
  | cons k ks ih =>
    simp only [fi_handlesList_cons, List.mem_append, not_or] at hm
    have hk : k.handle ≠ h := fun e => hm.1 (e ▸ fi_handle_mem_handles k)
    have hkids : h ∉ handlesList k.kids := by
      intro hc; apply hm.1; rw [fi_handles_eq]; exact List.mem_cons_of_mem _ hc
    simp only [List.cons_append]
    rw [replaceKids_cons, if_neg hk, fi_replaceBelow_of_not_mem h g k hkids, ih hm.2]

theorem mapAtList_append (h : Nat) (g : HTree → HTree) (l rest : List HTree) :
    mapAtList h g (l ++ rest) = mapAtList h g l ++ mapAtList h g rest := by
  simp [mapAtList_eq_map]

theorem ctxKids_append_of_not_mem (h p : Nat) (l rest acc : List HTree) (hm : h ∉ handlesList l) :
    ctxKids h p acc (l ++ rest) = ctxKids h p (acc ++ l) rest := by
  induction l generalizing acc with
  | nil => simp
  | cons k ks ih =>
    simp only [fi_handlesList_cons, List.mem_append, not_or] at hm
    have hk : k.handle ≠ h := fun e => hm.1 (e ▸ fi_handle_mem_handles k)
    have hkids : h ∉ handlesList k.kids := by
      intro hc; apply hm.1; rw [fi_handles_eq]; exact List.mem_cons_of_mem _ hc
    simp only [List.cons_append]
    rw [ctxKids_cons, if_neg hk, fi_ctxBelow_of_not_mem h k hkids, Option.none_or]
    rw [ih (acc ++ [k]) hm.2]
    simp

theorem ancestorsOfList_append_of_not_mem (h : Nat) (l rest : List HTree) (hm : h ∉ handlesList l) :
    ancestorsOfList h (l ++ rest) = ancestorsOfList h rest := by
  induction l with
  | nil => rfl
  | cons k ks ih =>
    simp only [fi_handlesList_cons, List.mem_append, not_or] at hm
    simp only [List.cons_append]
    rw [ancestorsOfList_cons, fi_ancestorsOf_of_not_mem h k hm.1, Option.none_or]
    exact ih hm.2

end XotModel
