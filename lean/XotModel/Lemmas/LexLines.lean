/-
  The reference tokenizer (document mode) on a document whose top-level nodes — comments, PIs, the
  document element — are each followed by a line feed, as `serialize_pretty` writes them: white space
  outside the document element is skipped, so the tokens are those of the nodes.

      lexDocument (nodes.flatMap (render node ++ LF)) = (tokens of the nodes, re-positioned; no error)
-/
import XotModel.Lemmas.LexReadAs
import XotModel.Lemmas.LexRejectShapes
import XotModel.Lemmas.SerOptResp
import XotModel.Lemmas.LexDecl

namespace XotModel.Lex.Canon
open XotModel.Lex XotModel.Lex.Stream

/-! ### Prefixes of a well-nested token list -/

theorem lexNest_prefix (frag : Bool) (b : List Token) : ∀ (a : List Token) (ctx : LexCtx),
    lexNest frag ctx (a ++ b) = true → lexNest frag ctx a = true
  | [], ctx, _ => by cases ctx <;> rfl
  | k :: a, ctx, h => by
    refine lexNest_cons_congr frag k (a := a ++ b) (b := a) ?_ (fun c hc => lexNest_prefix frag b a c hc) ctx h
    intro hh
    cases a with
    | nil => simp [headIsText] at hh
    | cons x xs => cases x <;> simp_all [headIsText]

/-! ### The context after the tokens of a spelled node -/

theorem ctxAfter_append (frag : Bool) (ctx : LexCtx) (a b : List Token) :
    ctxAfter frag ctx (a ++ b) = ctxAfter frag (ctxAfter frag ctx a) b := by
  simp [ctxAfter, List.foldl_append]

theorem ctxAfter_cons (frag : Bool) (ctx : LexCtx) (k : Token) (a : List Token) :
    ctxAfter frag ctx (k :: a) = ctxAfter frag (ctxStep frag ctx k) a := rfl

theorem ctxAfter_after (frag : Bool) : ∀ (ts : List Token), ctxAfter frag .after ts = .after
  | [] => rfl
  | k :: ts => by rw [ctxAfter_cons]; cases k <;> exact ctxAfter_after frag ts

theorem ctxAfter_attrs (frag : Bool) (d : Nat) : ∀ (as : List NSAttr),
    ctxAfter frag (.inTag d) (as.map NSAttr.token) = .inTag d
  | [] => rfl
  | a :: as => by
    rw [List.map_cons, ctxAfter_cons]
    exact ctxAfter_attrs frag d as

theorem ctxAfter_parts (frag : Bool) (d : Nat) : ∀ (ps : List SPart),
    ctxAfter frag (.content d) (ps.map SPart.token) = .content d
  | [] => rfl
  | p :: ps => by
    rw [List.map_cons, ctxAfter_cons]
    cases p <;> exact ctxAfter_parts frag d ps

theorem closed_succ' (frag : Bool) (d : Nat) : LexCtx.closed frag (d + 1) = .content (d + 1) := by
  simp [LexCtx.closed]

mutual
/-- Inside an element the tokens of a node lead back to element content at the same depth. -/
theorem ctxAfter_content_node (frag : Bool) (d : Nat) : ∀ (k : NSNode),
    ctxAfter frag (.content (d + 1)) k.tokens = .content (d + 1)
  | .elem p l j as o ks cp cl c => by
    simp only [NSNode.tokens, ctxAfter_cons, ctxStep, ctxAfter_append, ctxAfter_attrs,
      ctxAfter_content_list frag (d + 1) ks, Nat.add_sub_cancel, closed_succ']
    rfl
  | .empty p l j as e => by
    simp only [NSNode.tokens, ctxAfter_cons, ctxStep, ctxAfter_append, ctxAfter_attrs, closed_succ']
    rfl
  | .chars ps => by simp only [NSNode.tokens, ctxAfter_parts]
  | .comment a j => rfl
  | .pi a c j => rfl

theorem ctxAfter_content_list (frag : Bool) (d : Nat) : ∀ (ks : List NSNode),
    ctxAfter frag (.content (d + 1)) (NSNode.tokens.tokensList ks) = .content (d + 1)
  | [] => rfl
  | k :: ks => by
    rw [NSNode.tokens.tokensList, ctxAfter_append, ctxAfter_content_node frag d k, ctxAfter_content_list frag d ks]
end

/-- At the top level of a document: a comment or PI stays in the prolog, the document element ends it. -/
theorem ctxAfter_prolog_node : ∀ (k : NSNode), k.isChars = false →
    ctxAfter false .prolog k.tokens = .prolog ∨ ctxAfter false .prolog k.tokens = .after
  | .elem p l j as o ks cp cl c, _ => by
    right
    simp only [NSNode.tokens, ctxAfter_cons, ctxStep, ctxAfter_append, ctxAfter_attrs,
      ctxAfter_content_list false 0 ks]
    rfl
  | .empty p l j as e, _ => by
    right
    simp only [NSNode.tokens, ctxAfter_cons, ctxStep, ctxAfter_append, ctxAfter_attrs]
    rfl
  | .chars ps, h => by simp [NSNode.isChars] at h
  | .comment a j, _ => .inl rfl
  | .pi a c j, _ => .inl rfl

theorem getLast?_snoc'' {α : Type} (l : List α) (x : α) : (l ++ [x]).getLast? = some x := by simp

/-- Nothing that follows the tokens of a markup node can extend its last token. -/
theorem joinOK_node : ∀ (k : NSNode), k.isChars = false → ∀ r, JoinOK k.tokens r
  | .elem p l j as o ks cp cl c, _, r => by
    have : (NSNode.tokens (.elem p l j as o ks cp cl c)).getLast? = some (.elementEnd (.close cp cl) c) := by
      simp only [NSNode.tokens]
      rw [show Token.elementStart p l j :: (as.map NSAttr.token ++
          (Token.elementEnd .open o :: (NSNode.tokens.tokensList ks ++ [Token.elementEnd (.close cp cl) c]))) =
        (Token.elementStart p l j :: (as.map NSAttr.token ++
          (Token.elementEnd .open o :: NSNode.tokens.tokensList ks))) ++ [Token.elementEnd (.close cp cl) c] by simp]
      exact getLast?_snoc'' _ _
    simp only [JoinOK, this]
  | .empty p l j as e, _, r => by
    have : (NSNode.tokens (.empty p l j as e)).getLast? = some (.elementEnd .empty e) := by
      simp only [NSNode.tokens]
      rw [show Token.elementStart p l j :: (as.map NSAttr.token ++ [Token.elementEnd .empty e]) =
        (Token.elementStart p l j :: as.map NSAttr.token) ++ [Token.elementEnd .empty e] by simp]
      exact getLast?_snoc'' _ _
    simp only [JoinOK, this]
  | .chars ps, h, _ => by simp [NSNode.isChars] at h
  | .comment a j, _, r => by simp [NSNode.tokens, JoinOK]
  | .pi a c j, _, r => by simp [NSNode.tokens, JoinOK]

/-- The rendering of a markup node's tokens begins with `<` (it is not empty). -/
theorem render_node_head : ∀ (k : NSNode), k.isChars = false → ∀ r,
    ∃ cs, renderTokens k.tokens ++ r = '<' :: cs
  | .elem p l j as o ks cp cl c, _, r => ⟨_, by simp [NSNode.tokens, renderTokens_cons, renderToken]; rfl⟩
  | .empty p l j as e, _, r => ⟨_, by simp [NSNode.tokens, renderTokens_cons, renderToken]; rfl⟩
  | .chars ps, h, _ => by simp [NSNode.isChars] at h
  | .comment a j, _, r => ⟨_, by simp [NSNode.tokens, renderTokens_cons, renderToken]; rfl⟩
  | .pi a c j, _, r => by cases c <;> exact ⟨_, by simp [NSNode.tokens, renderTokens_cons, renderToken]; rfl⟩

/-! ### White space at the top level -/

theorem skipSpaces_nl (q : Nat) (r : Str) (hr : Stops isXmlSpace r) :
    skipSpaces ⟨q, '\n' :: r⟩ = ⟨q + 1, r⟩ := by
  have := skipBytes_app (f := isXmlSpace) q (a := ['\n']) (by decide) hr
  simpa [skipSpaces, strLen, show utf8Len '\n' = 1 from by decide] using this

/-- One call of `parse_next_impl` on a line feed outside the document element: skipped. -/
theorem step_ws_nl (st : State) (d : Nat) (q : Nat) (r : Str) (hr : Stops isXmlSpace r)
    (hst : st = .afterDeclaration ∨ st = .afterDtd ∨ st = .afterElements) :
    parseNextImpl ⟨⟨q, '\n' :: r⟩, st, d, false⟩ = .skip ⟨⟨q + 1, r⟩, st, d, false⟩ := by
  rcases hst with rfl | rfl | rfl <;>
    simp only [parseNextImpl, atEnd, List.isEmpty_cons, Bool.false_eq_true, if_false, startsWith, litDoctype,
      List.isPrefixOf, show ('<' == '\n') = false from by decide, Bool.false_and, miscStep, litCommentOpen,
      litPiOpen, litBang, litLt, startsWithSpace, show isXmlSpace '\n' = true from by decide, if_true,
      skipSpaces_nl q r hr]

/-- A line feed between two top-level nodes is skipped, whatever prolog / epilog state the tokenizer is in. -/
theorem lexLoop_skip_nl (ctx : LexCtx) (hctx : ctx = .prolog ∨ ctx = .after) (tk : Tokenizer)
    (position q : Nat) (r : Str) (hm : Matches false ctx tk) (hs : tk.stream = ⟨q, '\n' :: r⟩)
    (hr : Stops isXmlSpace r) :
    ∃ tk', Matches false ctx tk' ∧ tk'.stream = ⟨q + 1, r⟩ ∧ lexLoop tk position = lexLoop tk' position := by
  obtain ⟨stream, st, d, frag⟩ := tk
  simp only at hs
  subst hs
  have hne : (Stream.mk q ('\n' :: r)).atEnd = false := rfl
  have hx : (Stream.mk q ('\n' :: r)).startsWith litXmlDecl = false := rfl
  rcases hctx with rfl | rfl
  · obtain ⟨hf, hd, h | h | h⟩ := hm
    all_goals simp only at hf hd h
    all_goals subst hf hd h
    · refine ⟨⟨⟨q + 1, r⟩, .afterDeclaration, 0, false⟩, ⟨rfl, rfl, .inr (.inl rfl)⟩, rfl, ?_⟩
      rw [loop_declaration _ position rfl hne hx]
      exact lexLoop_skip position hne (by simp) (step_ws_nl _ 0 q r hr (.inl rfl))
    · exact ⟨⟨⟨q + 1, r⟩, .afterDeclaration, 0, false⟩, ⟨rfl, rfl, .inr (.inl rfl)⟩, rfl,
        lexLoop_skip position hne (by simp) (step_ws_nl _ 0 q r hr (.inl rfl))⟩
    · exact ⟨⟨⟨q + 1, r⟩, .afterDtd, 0, false⟩, ⟨rfl, rfl, .inr (.inr rfl)⟩, rfl,
        lexLoop_skip position hne (by simp) (step_ws_nl _ 0 q r hr (.inr (.inl rfl)))⟩
  · obtain ⟨hf, h⟩ := hm
    simp only at hf h
    subst hf h
    exact ⟨⟨⟨q + 1, r⟩, .afterElements, d, false⟩, ⟨rfl, rfl⟩, rfl,
      lexLoop_skip position hne (by simp) (step_ws_nl _ d q r hr (.inr (.inr rfl)))⟩

/-! ### A document written one top-level node per line -/

/-- What `serialize_pretty` writes for a document: every top-level node followed by a line feed. -/
def renderLines (ks : List NSNode) : Str := ks.flatMap (fun k => renderTokens k.tokens ++ ['\n'])

theorem renderLines_stops : ∀ (ks : List NSNode), (∀ k ∈ ks, k.isChars = false) →
    Stops isXmlSpace (renderLines ks)
  | [], _ => Stops.nil _
  | k :: ks, h => by
    obtain ⟨cs, hcs⟩ := render_node_head k (h k (by simp)) (['\n'] ++ renderLines ks)
    have : renderLines (k :: ks) = '<' :: cs := by
      rw [← hcs]; simp [renderLines]
    rw [this]
    exact Stops.cons _ (by decide)

theorem lexLoop_lines : ∀ (ks : List NSNode) (ctx : LexCtx) (tk : Tokenizer) (position : Nat),
    (ctx = .prolog ∨ ctx = .after) → Matches false ctx tk → (∀ k ∈ ks, k.isChars = false) →
    (NSNode.tokens.tokensList ks).all Token.lexOK = true →
    lexNest false ctx (NSNode.tokens.tokensList ks) = true →
    tk.stream.rest = renderLines ks →
    ∃ ts', lexLoop tk position = (ts', none) ∧ ReadAsList ts' (NSNode.tokens.tokensList ks)
  | [], ctx, tk, position, _, _, _, _, _, hs => by
    refine ⟨[], ?_, ReadAsList.nil⟩
    exact lexLoop_end position (by simp [atEnd, hs, renderLines])
  | k :: ks, ctx, tk, position, hctx, hm, hk, hok, hn, hs => by
    simp only [NSNode.tokens.tokensList, List.all_append, Bool.and_eq_true] at hok hn
    have hk0 := hk k (by simp)
    have hs' : tk.stream.rest = renderTokens k.tokens ++ ('\n' :: renderLines ks) := by
      rw [hs]; simp [renderLines]
    obtain ⟨tk1, hm1, hst1, hl1⟩ := lexLoop_render_app false k.tokens ('\n' :: renderLines ks) ctx tk position hm
      hok.1 (lexNest_prefix false _ _ ctx hn) hs' (joinOK_node k hk0 _)
    have hctx1 : ctxAfter false ctx k.tokens = .prolog ∨ ctxAfter false ctx k.tokens = .after := by
      rcases hctx with rfl | rfl
      · exact ctxAfter_prolog_node k hk0
      · exact .inr (ctxAfter_after false _)
    obtain ⟨tk2, hm2, hst2, hl2⟩ := lexLoop_skip_nl _ hctx1 tk1 _ _ (renderLines ks) hm1 hst1
      (renderLines_stops ks (fun k' hk' => hk k' (by simp [hk'])))
    obtain ⟨ts2, hl3, he3⟩ := lexLoop_lines ks _ tk2
      (if k.tokens.isEmpty then position else tk1.stream.pos) hctx1 hm2
      (fun k' hk' => hk k' (by simp [hk'])) hok.2 (lexNest_append_right _ _ ctx hn) (by rw [hst2])
    refine ⟨placeTokens tk.stream.pos k.tokens ++ ts2, ?_, ?_⟩
    · rw [hl1, hl2, hl3]
    · exact ReadAsList.append (placeTokens_readAs _ _) he3

end XotModel.Lex.Canon

namespace XotModel
open XotModel.Lex XotModel.Lex.Canon

/-- **Document mode, one top-level node per line**: the tokens read back are the tokens of the nodes, up
    to byte positions; the line feeds are not tokens. -/
theorem lexDocument_lines (ks : List NSNode) (hk : ∀ k ∈ ks, k.isChars = false)
    (h : LexOK false (NSNode.tokens.tokensList ks) = true) :
    ∃ ts', lexDocument (renderLines ks) = (ts', none) ∧ ReadAsList ts' (NSNode.tokens.tokensList ks) := by
  simp only [LexOK, Bool.and_eq_true] at h
  have hb : ((Stream.ofStr (renderLines ks)).curr? == some '\uFEFF') = false := by
    cases ks with
    | nil => rfl
    | cons k ks =>
      obtain ⟨cs, hcs⟩ := render_node_head k (hk k (by simp)) (['\n'] ++ renderLines ks)
      have : renderLines (k :: ks) = '<' :: cs := by rw [← hcs]; simp [renderLines]
      rw [this]; rfl
  have e : Tokenizer.ofStr (renderLines ks) = ⟨Stream.ofStr (renderLines ks), .declaration, 0, false⟩ := by
    simp only [Tokenizer.ofStr, hb, Bool.false_eq_true, if_false]
  unfold lexDocument
  rw [e]
  exact lexLoop_lines ks .prolog _ _ (.inl rfl) ⟨rfl, rfl, .inl rfl⟩ hk h.1 h.2 rfl

/-- The same behind an XML declaration. -/
theorem lexDocument_declaration_lines (d : Declaration) (ks : List NSNode) (hk : ∀ k ∈ ks, k.isChars = false)
    (h : LexOK false (NSNode.tokens.tokensList ks) = true)
    (henc : ∀ e, d.encoding = some e → e.all encChar = true) :
    ∃ v e sa sp ts', lexDocument (d.bytes ++ renderLines ks) =
        (.declaration ⟨['1', '.', '0'], v⟩ e sa sp :: ts', none) ∧
      ReadAsList ts' (NSNode.tokens.tokensList ks) := by
  simp only [LexOK, Bool.and_eq_true] at h
  obtain ⟨v, e, sa, sp, q, hl⟩ := lexDocument_declaration_then d (renderLines ks) henc
  obtain ⟨tk', hm', hst', hl'⟩ := lexLoop_skip_nl .prolog (.inl rfl)
    ⟨⟨q, '\n' :: renderLines ks⟩, .afterDeclaration, 0, false⟩ q q (renderLines ks)
    ⟨rfl, rfl, .inr (.inl rfl)⟩ rfl (renderLines_stops ks hk)
  obtain ⟨ts', hl2, he2⟩ := lexLoop_lines ks .prolog tk' q (.inl rfl) hm' hk h.1 h.2 (by rw [hst'])
  refine ⟨v, e, sa, sp, ts', ?_, he2⟩
  rw [hl, hl', hl2]

end XotModel
