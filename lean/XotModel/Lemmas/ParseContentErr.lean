/-
  Error positions of `parse_content` (C17_errors, entity part): every position reported by
  `parseContentGo attr base pos s` lies in `[base + pos, base + pos + strLen s]`, i.e. inside
  the slice that was handed to it, including the `base_position` arithmetic.
-/
import XotModel.Lemmas.ParseContent

namespace XotModel

theorem utf8Len_pos (c : Char) : 1 ≤ utf8Len c := by
  unfold utf8Len; split <;> (try split) <;> (try split) <;> omega

theorem strLen_cons (c : Char) (s : Str) : strLen (c :: s) = utf8Len c + strLen s := rfl

theorem splitSemi_strLen {s e r : Str} (h : splitSemi s = some (e, r)) :
    strLen s = strLen e + 1 + strLen r := by
  induction s generalizing e with
  | nil => simp [splitSemi] at h
  | cons c cs ih =>
    unfold splitSemi at h
    split at h
    · rename_i hc
      simp at h; obtain ⟨rfl, rfl⟩ := h
      subst hc
      simp [strLen, utf8Len]
    · cases hs : splitSemi cs with
      | none => simp [hs] at h
      | some p =>
        obtain ⟨e', r'⟩ := p
        simp [hs] at h
        obtain ⟨rfl, rfl⟩ := h
        have := ih hs
        simp only [strLen]; omega

theorem skipLf_strLen (s : Str) : strLen s = (s.length - (skipLf s).length) + strLen (skipLf s) := by
  unfold skipLf
  split
  · rename_i r
    simp [strLen, utf8Len]
  · simp

/-- The positions carried by an error lie in `[lo, hi]`. -/
def ContentErr.within (lo hi : Nat) : ContentErr → Prop
  | .unclosed _ p => lo ≤ p ∧ p ≤ hi
  | .invalid _ a b => lo ≤ a ∧ a ≤ b ∧ b ≤ hi

theorem ContentErr.within_mono {lo hi lo' hi' : Nat} {e : ContentErr} (h : e.within lo' hi')
    (h1 : lo ≤ lo') (h2 : hi' ≤ hi) : e.within lo hi := by
  cases e with
  | unclosed t p => obtain ⟨a, b⟩ := h; exact ⟨by omega, by omega⟩
  | invalid t a b => obtain ⟨x, y, z⟩ := h; exact ⟨by omega, y, by omega⟩

theorem consOk_error {c : Char} {r : Except ContentErr Str} {e : ContentErr}
    (h : consOk c r = .error e) : r = .error e := by
  cases r with
  | ok v => simp [consOk] at h
  | error e' => simp [consOk] at h; rw [h]

/-- Error positions of `parse_content` lie inside the slice it was given. -/
theorem parseGo_error_within (attr : Bool) (base : Nat) :
    ∀ (n : Nat) (s : Str) (pos : Nat) (e : ContentErr), s.length = n →
      parseContentGo attr base pos s = .error e → e.within (base + pos) (base + pos + strLen s) := by
  intro n
  induction n using Nat.strongRecOn with
  | _ n ih =>
    intro s pos e hn h
    match s, hn with
    | [], _ => rw [parseGo_nil] at h; cases h
    | c :: rest, hn =>
      rw [parseContentGo.eq_def] at h
      simp only at h
      have hc := utf8Len_pos c
      split at h
      · -- carriage return
        rename_i hcr
        have h' := consOk_error h
        have hl := skipLf_length rest
        have hs := skipLf_strLen rest
        have := ih (skipLf rest).length (by simp at hn; omega) (skipLf rest) _ e rfl h'
        refine ContentErr.within_mono (e := e) this (by omega) ?_
        simp only [strLen_cons]
        omega
      · split at h
        · -- reference
          split at h
          · cases h
            simp only [ContentErr.within, strLen_cons]
            omega
          · rename_i ent rest' hsp
            have hlen := splitSemi_strLen hsp
            split at h
            · cases h
              simp only [ContentErr.within, strLen_cons]
              omega
            · have h' := consOk_error h
              have hl := splitSemi_length hsp
              have := ih rest'.length (by simp at hn; omega) rest' _ e rfl h'
              refine ContentErr.within_mono (e := e) this (by omega) ?_
              simp only [strLen_cons]
              omega
        · split at h
          · have h' := consOk_error h
            have := ih rest.length (by simp at hn; omega) rest _ e rfl h'
            refine ContentErr.within_mono (e := e) this (by omega) ?_
            simp only [strLen_cons]; omega
          · have h' := consOk_error h
            have := ih rest.length (by simp at hn; omega) rest _ e rfl h'
            refine ContentErr.within_mono (e := e) this (by omega) ?_
            simp only [strLen_cons]; omega

end XotModel
