/-
  Lemmas for C11 histories with returned values, part 2: one `MapCall` (`call_step`), histories
  of calls (`history_calls`), and the embedding of the `MapOp2` histories.
-/
import XotModel.Lemmas.FmapRetBase

namespace XotModel
namespace Fmap
open HTree
open Forest (MapKind entryKey mapChildren MapEntry)

/-! ### The remaining entry calls as the calls they reduce to -/

/-- `or_insert_with(call)` computes the forest and the outcome of `or_insert(call())`. -/
theorem entryOrInsertWith_eq (f : Forest) (k : MapKind) (e key : Nat) (call : Unit → Value)
    (hk : entryKey (call ()) = key) :
    (f.entryOrInsertWith k e key call).1 = (f.entryOrInsert k e (call ())).1 ∧
    (f.entryOrInsertWith k e key call).2.1 = (f.entryOrInsert k e (call ())).2 := by
  unfold Forest.entryOrInsertWith Forest.entryOrInsert
  rw [hk]
  cases he : f.isElement e
  · simp
  · simp only [Bool.not_true, Bool.false_eq_true, if_false]
    unfold Forest.mapEntry Forest.mapGet
    cases hn : f.mapGetNode k e key <;> simp

/-- `OccupiedEntry::into_mut` / `get_mut` behind a successful `get` is `get_mut`. -/
theorem occupiedIntoMutSet_eq (f : Forest) (k : MapKind) (e key : Nat) (new : Value) :
    f.occupiedIntoMutSet k e key new = f.mapGetMutSet k e key new := by
  unfold Forest.occupiedIntoMutSet Forest.mapGetMutSet Forest.mapEntry Forest.mapGet
  cases f.isElement e
  · simp
  · cases hn : f.mapGetNode k e key <;> simp [hn]

theorem mapGetMutSet_found (f : Forest) (k : MapKind) (e key : Nat) (new : Value)
    (he : f.isElement e = true) :
    (f.mapGetMutSet k e key new).2.2 = (f.mapGetNode k e key).isSome := by
  unfold Forest.mapGetMutSet
  rw [he]
  cases f.mapGetNode k e key <;> rfl

theorem getP_if_found (f : Forest) (k : MapKind) (e key : Nat) :
    (if (f.mapGetNode k e key).isSome then getP f k e key else none) = getP f k e key := by
  unfold getP
  cases f.mapGetNode k e key <;> rfl

/-! ### One call -/

/-- One step of a history of calls: it returns `ok`, it returns what the reference returns, and
    it is a `StepOK` towards the reference family after the call. -/
theorem call_step {f : Forest} {F : Fam} (hi : f.Inv) (hF : Agree f F) (c : MapCall)
    (hok : c.ok f = true) :
    (c.run f).2.1 = .ok ∧ (c.run f).2.2 = c.specRet F (nodeView f) ∧
    StepOK f (c.run f).1 (c.spec F) := by
  cases c with
  | base op =>
    obtain ⟨r, s⟩ := step_all hi hF op hok
    exact ⟨r, ret_all hi hF op hok, s⟩
  | entryOrInsertWith k e key call =>
    simp only [MapCall.ok, Bool.and_eq_true, beq_iff_eq] at hok
    obtain ⟨⟨he, hm⟩, hk⟩ := hok
    obtain ⟨e1, e2⟩ := entryOrInsertWith_eq f k e key call hk
    obtain ⟨r, t⟩ := touch_entryOrInsert hi k e (call ()) he hm
    show (f.entryOrInsertWith k e key call).2.1 = .ok ∧
      Ret.value (getP (f.entryOrInsertWith k e key call).1 k e key) =
        Ret.value (omGet (opOrInsert (call ()) (F e k)) key) ∧
      StepOK f (f.entryOrInsertWith k e key call).1 (F.upd e k (opOrInsert (call ())))
    rw [e1, e2]
    refine ⟨r, ?_, t.stepOK (g := opOrInsert (call ())) hF he⟩
    rw [getP_eq, t.same, hF]
  | occupiedIntoMutSet k e key new =>
    simp only [MapCall.ok, Bool.and_eq_true] at hok
    obtain ⟨r, t⟩ := touch_getMutSet hi k e key new hok.1 hok.2
    show (f.occupiedIntoMutSet k e key new).2.1 = .ok ∧
      Ret.value (if (f.occupiedIntoMutSet k e key new).2.2 then getP f k e key else none) =
        Ret.value (omGet (F e k) key) ∧
      StepOK f (f.occupiedIntoMutSet k e key new).1
        (F.upd e k (fun m => omModify m key (fun _ => payloadOf new)))
    rw [occupiedIntoMutSet_eq, mapGetMutSet_found f k e key new hok.1, getP_if_found,
      getP_agree hF]
    exact ⟨r, rfl, t.stepOK (g := fun m => omModify m key (fun _ => payloadOf new)) hF hok.1⟩
  | occupiedGetMutSet k e key new =>
    simp only [MapCall.ok, Bool.and_eq_true] at hok
    obtain ⟨r, t⟩ := touch_getMutSet hi k e key new hok.1 hok.2
    show (f.occupiedIntoMutSet k e key new).2.1 = .ok ∧
      Ret.value (if (f.occupiedIntoMutSet k e key new).2.2 then getP f k e key else none) =
        Ret.value (omGet (F e k) key) ∧
      StepOK f (f.occupiedIntoMutSet k e key new).1
        (F.upd e k (fun m => omModify m key (fun _ => payloadOf new)))
    rw [occupiedIntoMutSet_eq, mapGetMutSet_found f k e key new hok.1, getP_if_found,
      getP_agree hF]
    exact ⟨r, rfl, t.stepOK (g := fun m => omModify m key (fun _ => payloadOf new)) hF hok.1⟩
  | peekKey k e key =>
    simp only [MapCall.ok] at hok
    show (peekKeyRun f k e key).2.1 = .ok ∧ (peekKeyRun f k e key).2.2 = Ret.key key ∧
      StepOK f (peekKeyRun f k e key).1 F
    unfold peekKeyRun
    rw [hok, mapEntry_eq]
    cases omContainsKey (abs k f e) key <;> exact ⟨rfl, rfl, StepOK.refl hi hF⟩
  | occupiedGet k e key =>
    simp only [MapCall.ok] at hok
    show (occupiedGetRun f k e key).2.1 = .ok ∧
      (occupiedGetRun f k e key).2.2 = Ret.value (omGet (F e k) key) ∧
      StepOK f (occupiedGetRun f k e key).1 F
    unfold occupiedGetRun
    rw [hok, mapEntry_eq]
    cases hn : f.mapGetNode k e key with
    | some n =>
      rw [contains_of_getNode hn]
      simp only [Bool.not_true, Bool.false_eq_true, if_false, if_true, Forest.mapGet, hn,
        Option.map_some]
      refine ⟨trivial, ?_, StepOK.refl hi hF⟩
      rw [← hF, getNode_payload f k e key n hn]
    | none =>
      have hc := (getNode_none_iff f k e key).mp hn
      rw [hc]
      simp only [Bool.not_true, Bool.false_eq_true, if_false]
      refine ⟨trivial, ?_, StepOK.refl hi hF⟩
      rw [← hF, get_none_of_not_contains _ _ hc]
  | get k e key =>
    exact ⟨rfl, congrArg Ret.value (getP_agree hF k e key), StepOK.refl hi hF⟩
  | getNode k e key => exact ⟨rfl, rfl, StepOK.refl hi hF⟩
  | containsKey k e key =>
    refine ⟨rfl, ?_, StepOK.refl hi hF⟩
    show Ret.bool _ = Ret.bool _
    rw [containsKey_eq, hF]

/-! ### Histories of calls -/

theorem traceCalls_head (f : Forest) (cs : List MapCall) : ∃ rest, traceCalls f cs = f :: rest := by
  cases cs <;> exact ⟨_, rfl⟩

theorem history_calls : ∀ (cs : List MapCall) (f : Forest) (F : Fam), f.Inv → Agree f F →
    (runCalls f cs).2.2 = true →
    (∀ r ∈ (runCalls f cs).2.1, r.1 = .ok) ∧
    (runCalls f cs).2.1.map (·.2) = specRets f F cs ∧
    (runCalls f cs).1.Inv ∧ Agree (runCalls f cs).1 (specCalls F cs) ∧
    (∀ x, (runCalls f cs).1.isElement x = f.isElement x) ∧
    (∀ g ∈ traceCalls f cs, g.Inv) ∧ StableTrace (traceCalls f cs)
  | [], f, F => by
    intro hi hF _
    refine ⟨by simp [runCalls], rfl, hi, hF, fun _ => rfl, ?_, trivial⟩
    intro g hg
    simp only [traceCalls, List.mem_singleton] at hg
    rw [hg]; exact hi
  | c :: cs, f, F => by
    intro hi hF hok
    simp only [runCalls, Bool.and_eq_true] at hok
    obtain ⟨r, hret, s⟩ := call_step hi hF c hok.1
    obtain ⟨h1, hr, h2, h3, h4, h5, h6⟩ :=
      history_calls cs (c.run f).1 (c.spec F) s.inv s.agree hok.2
    refine ⟨?_, ?_, h2, h3, fun x => (h4 x).trans (s.elem x), ?_, ?_⟩
    · intro r' hr'
      simp only [runCalls, List.mem_cons] at hr'
      rcases hr' with hr' | hr'
      · rw [hr']; exact r
      · exact h1 r' hr'
    · simp only [runCalls, specRets, List.map_cons]
      rw [hret, hr]
    · intro g hg
      simp only [traceCalls, List.mem_cons] at hg
      rcases hg with hg | hg
      · rw [hg]; exact hi
      · exact h5 g hg
    · obtain ⟨rest, hrest⟩ := traceCalls_head (c.run f).1 cs
      simp only [traceCalls]
      rw [hrest] at h6 ⊢
      exact ⟨s.kn, h6⟩

theorem traceCalls_last (cs : List MapCall) : ∀ f : Forest, (runCalls f cs).1 ∈ traceCalls f cs := by
  induction cs with
  | nil => intro f; simp [runCalls, traceCalls]
  | cons c cs ih =>
    intro f
    simp only [runCalls, traceCalls, List.mem_cons]
    exact Or.inr (ih _)

/-! ### The `MapOp2` histories are the histories of `base` calls -/

theorem runCalls_base : ∀ (ops : List MapOp2) (f : Forest),
    (runCalls f (ops.map .base)).1 = (runOps2 f ops).1 ∧
    (runCalls f (ops.map .base)).2.1.map (·.1) = (runOps2 f ops).2.1 ∧
    (runCalls f (ops.map .base)).2.2 = (runOps2 f ops).2.2 ∧
    traceCalls f (ops.map .base) = trace2 f ops
  | [], f => ⟨rfl, rfl, rfl, rfl⟩
  | op :: ops, f => by
    obtain ⟨a, b, c, d⟩ := runCalls_base ops (op.run f).1
    simp only [List.map_cons, runCalls, runOps2, traceCalls, trace2, MapCall.run, MapCall.ok]
    exact ⟨a, by rw [b], by rw [c], by rw [d]⟩

theorem specCalls_base (F : Fam) (ops : List MapOp2) :
    specCalls F (ops.map .base) = specOps2 F ops := by
  unfold specCalls specOps2
  induction ops generalizing F with
  | nil => rfl
  | cons op ops ih => simp only [List.map_cons, List.foldl_cons]; exact ih _

end Fmap
end XotModel
