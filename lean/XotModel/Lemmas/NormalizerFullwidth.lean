/-
  Sufficient conditions for the hypotheses of the pre-map theorems (`NsWritten`, `SpaceKept`, `BoolKept`):
  for every normalizer that fixes the strings of the namespace table, and for the concrete `fullwidthNorm`
  (it fixes every string without fullwidth markup characters, and keeps `preserve` / `default` apart from
  everything else); decidability of the stream-level hypotheses for closed examples.
-/
import XotModel.Lemmas.NormalizerHtml

namespace XotModel
open Gen

/-! ### Namespace tables -/

/-- `N` fixes the URI of every namespace id as soon as it fixes the strings of the table and `""`
    (the URI the model gives an id outside the table). -/
theorem fixes_namespaceStr (N : Str → Str) (env : Env) (h0 : N [] = [])
    (h : ∀ u ∈ env.namespaces, N u = u) (ns : Nat) : N (env.namespaceStr ns) = env.namespaceStr ns := by
  unfold Env.namespaceStr
  by_cases hlt : ns < env.namespaces.length
  · simp only [List.getD_eq_getElem?_getD, List.getElem?_eq_getElem hlt, Option.getD_some]
    exact h _ (List.getElem_mem hlt)
  · simp only [List.getD_eq_getElem?_getD, List.getElem?_eq_none (Nat.le_of_not_lt hlt), Option.getD_none, h0]

theorem addNamespace_mem (nss : List Str) (uri u : Str) (h : u ∈ (addNamespace nss uri).1) :
    u ∈ nss ∨ u = uri := by
  unfold addNamespace at h
  split at h
  · exact Or.inl h
  · simpa using h

/-- The serialiser's table: the caller's plus the three URIs `xot.html5()` registers. -/
theorem htmlCtx_namespaces_mem (env : Env) (p : HtmlParams) (u : Str)
    (h : u ∈ (htmlCtx env p).env.namespaces) :
    u ∈ env.namespaces ∨ u = xhtmlNs ∨ u = mathmlNs ∨ u = svgNs := by
  simp only [htmlCtx, Html5Elements.new] at h
  rcases addNamespace_mem _ _ _ h with h | h
  · rcases addNamespace_mem _ _ _ h with h | h
    · rcases addNamespace_mem _ _ _ h with h | h
      · exact Or.inl h
      · exact Or.inr (Or.inl h)
    · exact Or.inr (Or.inr (Or.inl h))
  · exact Or.inr (Or.inr (Or.inr h))

theorem fixes_htmlCtx_namespaceStr (N : Str → Str) (env : Env) (p : HtmlParams) (h0 : N [] = [])
    (h : ∀ u ∈ env.namespaces, N u = u) (hx : N xhtmlNs = xhtmlNs) (hm : N mathmlNs = mathmlNs)
    (hs : N svgNs = svgNs) (ns : Nat) :
    N ((htmlCtx env p).env.namespaceStr ns) = (htmlCtx env p).env.namespaceStr ns := by
  apply fixes_namespaceStr N _ h0
  intro u hu
  rcases htmlCtx_namespaces_mem env p u hu with hu | rfl | rfl | rfl
  · exact h u hu
  · exact hx
  · exact hm
  · exact hs

/-! ### `fullwidthNorm` -/

/-- No fullwidth form of a markup character in the string. -/
def strClean (u : Str) : Bool := u.all (fun c => fullwidthMap c == c)

theorem fullwidthNorm_clean {u : Str} (h : strClean u = true) : fullwidthNorm u = u := by
  induction u with
  | nil => rfl
  | cons c u ih =>
    simp only [strClean, List.all_cons, Bool.and_eq_true, beq_iff_eq] at h
    simp only [fullwidthNorm, List.map_cons, h.1]
    congr 1
    exact ih (by simpa [strClean] using h.2)

/-- The namespace table holds no fullwidth form of a markup character. -/
def nsClean (env : Env) : Bool := env.namespaces.all strClean

theorem fullwidthNorm_fixes_ns (env : Env) (h : nsClean env = true) (ns : Nat) :
    fullwidthNorm (env.namespaceStr ns) = env.namespaceStr ns :=
  fixes_namespaceStr fullwidthNorm env rfl
    (fun u hu => fullwidthNorm_clean (by simpa [nsClean] using (List.all_eq_true.mp h) u hu)) ns

theorem fullwidthNorm_fixes_html_ns (env : Env) (p : HtmlParams) (h : nsClean env = true) (ns : Nat) :
    fullwidthNorm ((htmlCtx env p).env.namespaceStr ns) = (htmlCtx env p).env.namespaceStr ns :=
  fixes_htmlCtx_namespaceStr fullwidthNorm env p rfl
    (fun u hu => fullwidthNorm_clean (by simpa [nsClean] using (List.all_eq_true.mp h) u hu))
    (fullwidthNorm_clean (by decide)) (fullwidthNorm_clean (by decide)) (fullwidthNorm_clean (by decide)) ns

/-- A character that is neither a markup character nor a fullwidth form of one is the image of itself only. -/
theorem fullwidthMap_eq_iff {c : Char} (h1 : fullwidthMap c = c)
    (h2 : c ≠ '<' ∧ c ≠ '&' ∧ c ≠ '"' ∧ c ≠ '>' ∧ c ≠ '\'') (d : Char) : fullwidthMap d = c ↔ d = c := by
  constructor
  · intro h
    unfold fullwidthMap at h
    obtain ⟨a1, a2, a3, a4, a5⟩ := h2
    split at h
    · exact absurd h.symm a1
    · split at h
      · exact absurd h.symm a2
      · split at h
        · exact absurd h.symm a3
        · split at h
          · exact absurd h.symm a4
          · split at h
            · exact absurd h.symm a5
            · exact h
  · intro h; subst h; exact h1

theorem map_fullwidth_eq_iff (w : Str)
    (hw : ∀ c ∈ w, fullwidthMap c = c ∧ (c ≠ '<' ∧ c ≠ '&' ∧ c ≠ '"' ∧ c ≠ '>' ∧ c ≠ '\'')) (v : Str) :
    fullwidthNorm v = w ↔ v = w := by
  induction v generalizing w with
  | nil => simp [fullwidthNorm]
  | cons d v ih =>
    cases w with
    | nil => simp [fullwidthNorm]
    | cons c w =>
      have hc := hw c (by simp)
      have ih' := ih w (fun x hx => hw x (by simp [hx]))
      simp only [fullwidthNorm, List.map_cons, List.cons.injEq] at ih' ⊢
      rw [fullwidthMap_eq_iff hc.1 hc.2 d, ih']

/-- `fullwidthNorm` maps exactly `preserve` to `preserve` and exactly `default` to `default`. -/
theorem fullwidthNorm_spaceStable : SpaceStable fullwidthNorm := by
  intro v
  have h1 := map_fullwidth_eq_iff spacePreserve (by decide) v
  have h2 := map_fullwidth_eq_iff spaceDefault (by decide) v
  refine ⟨?_, ?_⟩
  · rw [Bool.eq_iff_iff]; simpa using h1
  · rw [Bool.eq_iff_iff]; simpa using h2

/-! ### Decidability of the stream-level hypotheses (closed examples) -/

instance (N : Str → Str) (env : Env) (o : Output) : Decidable (Output.nsFixed N env o) := by
  cases o <;> simp only [Output.nsFixed] <;> infer_instance

instance (N : Str → Str) (env : Env) (outs : List (Path × Output)) : Decidable (NsWritten N env outs) := by
  unfold NsWritten; infer_instance

instance (N : Str → Str) (c : HtmlCtx) (o : Output) : Decidable (Output.boolKept N c o) := by
  cases o <;> simp only [Output.boolKept] <;> infer_instance

instance (N : Str → Str) (c : HtmlCtx) (outs : List (Path × Output)) : Decidable (BoolKept N c outs) := by
  unfold BoolKept; infer_instance

end XotModel
