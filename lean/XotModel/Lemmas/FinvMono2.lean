/-
  Finv (C04), part 20: every operation of the model only moves on (`Forest.Le`): handles are
  never re-used and `next` never decreases — for all forests and all arguments.
-/
import XotModel.Lemmas.FinvMono

namespace XotModel
open HTree

namespace Forest

theorem le_merge (f : Forest) (p n : Nat) (v : Value) : Le f ((f.setValue p v).spliceOut n) :=
  (le_setValue f p v).trans (le_spliceOut _ n)

theorem le_removeConsolidate (f : Forest) (prev next : Option Nat) :
    Le f (f.removeConsolidate prev next).1 := by
  unfold removeConsolidate
  split
  · exact Le.refl f
  · split
    · rename_i p n
      cases f.textOf p with
      | none => exact Le.refl f
      | some ps =>
        cases f.textOf n with
        | none => exact Le.refl f
        | some ns => exact le_merge f _ _ _
    · exact Le.refl f

theorem le_addConsolidate (f : Forest) (node : Nat) (prev next : Option Nat) :
    Le f (f.addConsolidate node prev next).1 := by
  rw [addConsolidate_eq_old]
  generalize f.selfPrev node prev = prev
  generalize f.selfNext node next = next
  unfold addConsolidateOld
  split
  · exact Le.refl f
  · cases f.textOf node with
    | none => exact Le.refl f
    | some added =>
      have viaNext : Le f (match next with
          | some n => (match f.textOf n with
              | some ns => ((f.setValue n (.text (added ++ ns))).spliceOut node, true)
              | none => (f, false))
          | none => (f, false)).1 := by
        cases next with
        | none => exact Le.refl f
        | some n =>
          simp only
          cases f.textOf n with
          | none => exact Le.refl f
          | some ns => exact le_merge f _ _ _
      cases prev with
      | some p =>
        simp only
        cases f.textOf p with
        | some ps => exact le_merge f _ _ _
        | none => exact viaNext
      | none => exact viaNext

theorem le_res {f g : Forest} {b : Bool} {r1 r2 : Res} (h : Le f g) :
    Le f (if b = true then (g, r1) else (g, r2)).1 := by split <;> exact h

theorem le_append (f : Forest) (p c : Nat) : Le f (f.append p c).1 := by
  unfold append
  split
  · exact Le.refl f
  split
  · exact Le.refl f
  have h1 := le_removeConsolidate f (f.prevSibling c) (f.nextSibling c)
  cases hr : f.removeConsolidate (f.prevSibling c) (f.nextSibling c) with
  | mk f1 b1 =>
    rw [hr] at h1
    simp only
    have h2 := le_addConsolidate f1 c (f1.lastChild p) none
    cases ha : f1.addConsolidate c (f1.lastChild p) none with
    | mk f2 cc =>
      rw [ha] at h2
      simp only
      split
      · exact h1.trans h2
      · have h3 := (le_checked f2 p c).1
        cases hc : f2.checkedAppend p c with
        | mk f3 okb =>
          rw [hc] at h3
          exact le_res ((h1.trans h2).trans h3)

theorem le_mapPlace (f : Forest) (k : MapKind) (parent node : Nat) : Le f (f.mapPlace k parent node).1 := by
  unfold mapPlace
  cases f.mapInsertionPoint k parent with
  | some ip =>
    simp only
    have := (le_checked f ip node).2.2.1
    cases hc : f.checkedInsertAfter ip node with
    | mk f' okb => rw [hc] at this; exact le_res this
  | none =>
    simp only
    have := (le_checked f parent node).2.1
    cases hc : f.checkedPrepend parent node with
    | mk f' okb => rw [hc] at this; exact le_res this

theorem le_prepend (f : Forest) (p c : Nat) : Le f (f.prepend p c).1 := by
  unfold prepend
  split
  · exact Le.refl f
  split
  · exact Le.refl f
  have h1 := le_removeConsolidate f (f.prevSibling c) (f.nextSibling c)
  cases hr : f.removeConsolidate (f.prevSibling c) (f.nextSibling c) with
  | mk f1 b1 =>
    rw [hr] at h1
    simp only
    have h2 := le_addConsolidate f1 c none (f1.firstChild p)
    cases ha : f1.addConsolidate c none (f1.firstChild p) with
    | mk f2 cc =>
      rw [ha] at h2
      simp only
      split
      · exact h1.trans h2
      · cases f2.prependPoint p with
        | some ip =>
          simp only
          have h3 := (le_checked f2 ip c).2.2.1
          cases hc : f2.checkedInsertAfter ip c with
          | mk f3 okb => rw [hc] at h3; exact le_res ((h1.trans h2).trans h3)
        | none =>
          simp only
          have h3 := (le_checked f2 p c).2.1
          cases hc : f2.checkedPrepend p c with
          | mk f3 okb => rw [hc] at h3; exact le_res ((h1.trans h2).trans h3)

theorem le_insertAfter (f : Forest) (ref c : Nat) : Le f (f.insertAfter ref c).1 := by
  unfold insertAfter
  split
  · exact Le.refl f
  split
  · exact Le.refl f
  split
  · exact Le.refl f
  have h1 := le_removeConsolidate f (f.prevSibling c) (f.nextSibling c)
  cases hr : f.removeConsolidate (f.prevSibling c) (f.nextSibling c) with
  | mk f1 b1 =>
    rw [hr] at h1
    simp only [hr]
    generalize (if (b1 && f.nextSibling c == some ref) = true then (f.prevSibling c).getD ref else ref) = ref'
    have h2 := le_addConsolidate f1 c (some ref') (f1.nextSibling ref')
    cases ha : f1.addConsolidate c (some ref') (f1.nextSibling ref') with
    | mk f2 cc =>
      rw [ha] at h2
      try simp only
      split
      · exact h1.trans h2
      · have h3 := (le_checked f2 ref' c).2.2.1
        cases hc : f2.checkedInsertAfter ref' c with
        | mk f3 okb => rw [hc] at h3; exact le_res ((h1.trans h2).trans h3)

theorem le_insertBefore (f : Forest) (ref c : Nat) : Le f (f.insertBefore ref c).1 := by
  unfold insertBefore
  split
  · exact Le.refl f
  split
  · exact Le.refl f
  split
  · exact Le.refl f
  have h1 := le_removeConsolidate f (f.prevSibling c) (f.nextSibling c)
  cases hr : f.removeConsolidate (f.prevSibling c) (f.nextSibling c) with
  | mk f1 b1 =>
    rw [hr] at h1
    simp only
    have h2 := le_addConsolidate f1 c (f1.prevSibling ref) (some ref)
    cases ha : f1.addConsolidate c (f1.prevSibling ref) (some ref) with
    | mk f2 cc =>
      rw [ha] at h2
      simp only
      split
      · exact h1.trans h2
      · have h3 := (le_checked f2 ref c).2.2.2
        cases hc : f2.checkedInsertBefore ref c with
        | mk f3 okb => rw [hc] at h3; exact le_res ((h1.trans h2).trans h3)

theorem le_detach (f : Forest) (node : Nat) : Le f (f.detach node).1 :=
  (le_detachRaw f node).trans (le_removeConsolidate _ _ _)

theorem le_remove (f : Forest) (node : Nat) : Le f (f.remove node).1 :=
  (le_dropSubtree f node).trans (le_removeConsolidate _ _ _)

theorem le_foldl_remove {α : Type} (g : α → Nat) (xs : List α) (f : Forest) :
    Le f (xs.foldl (fun acc c => (acc.remove (g c)).1) f) := by
  induction xs generalizing f with
  | nil => exact Le.refl f
  | cons x xs ih => exact (le_remove f (g x)).trans (ih _)

theorem le_mapInsert (f : Forest) (k : MapKind) (parent : Nat) (entry : Value) :
    Le f (f.mapInsert k parent entry).1 := by
  unfold mapInsert
  split
  · exact Le.refl f
  · cases f.mapGetNode k parent (entryKey entry) with
    | some n => exact le_setValue f _ _
    | none => exact (le_newNode f entry).trans (le_mapPlace _ k parent _)

theorem le_mapInsertNode (f : Forest) (k : MapKind) (parent node : Nat) :
    Le f (f.mapInsertNode k parent node).1 := by
  unfold mapInsertNode
  cases f.value? node with
  | none => exact Le.refl f
  | some v =>
    simp only
    split
    · exact Le.refl f
    · cases f.mapGetNode k parent (entryKey v) with
      | some e => exact le_setValue f _ _
      | none => exact le_mapPlace f k parent node

theorem le_mapRemove (f : Forest) (k : MapKind) (parent key : Nat) : Le f (f.mapRemove k parent key).1 := by
  unfold mapRemove
  split
  · exact Le.refl f
  · cases f.mapGetNode k parent key with
    | some n => exact le_remove f _
    | none => exact Le.refl f

theorem le_mapClear (f : Forest) (k : MapKind) (parent : Nat) : Le f (f.mapClear k parent).1 := by
  unfold mapClear
  split
  · exact Le.refl f
  · cases f.get? parent with
    | none => exact Le.refl f
    | some t => exact le_foldl_remove (fun c : HTree => c.handle) _ f

theorem le_appendEntryNode (f : Forest) (k : MapKind) (parent child : Nat) :
    Le f (f.appendEntryNode k parent child).1 := by
  unfold appendEntryNode
  split
  · exact Le.refl f
  · cases f.value? child with
    | none => exact Le.refl f
    | some v =>
      simp only
      split
      · exact Le.refl f
      · exact le_mapInsertNode f k parent child

theorem le_anyAppend (f : Forest) (parent child : Nat) : Le f (f.anyAppend parent child).1 := by
  unfold anyAppend
  split
  · exact le_appendEntryNode f _ _ _
  · exact le_appendEntryNode f _ _ _
  · exact le_append f _ _

theorem le_setElementName (f : Forest) (node name : Nat) : Le f (f.setElementName node name).1 := by
  unfold setElementName; split
  · exact le_setValue f _ _
  · exact Le.refl f

theorem le_setText (f : Forest) (node : Nat) (s : Str) : Le f (f.setText node s).1 := by
  unfold setText; split
  · exact le_setValue f _ _
  · exact Le.refl f

theorem le_setComment (f : Forest) (node : Nat) (s : Str) : Le f (f.setComment node s).1 := by
  unfold setComment; split
  · split
    · exact Le.refl f
    · exact le_setValue f _ _
  · exact Le.refl f

theorem le_setPiData (f : Forest) (node : Nat) (d : Option Str) : Le f (f.setPiData node d).1 := by
  unfold setPiData; split
  · exact le_setValue f _ _
  · exact Le.refl f

theorem le_setConsolidation (f : Forest) (b : Bool) : Le f (f.setConsolidation b) :=
  ⟨Nat.le_refl _, fun _ h => Or.inl h⟩

theorem le_textContentSet (f : Forest) (node : Nat) (s : Str) : Le f (f.textContentSet node s).1 := by
  unfold textContentSet
  split
  · split
    · exact Le.refl f
    · split
      · exact le_setValue f _ _
      · exact Le.refl f
  · split
    · have h1 : Le f (f.newText []).1 := le_newNode f _
      cases hnt : f.newText [] with
      | mk f1 t =>
        rw [hnt] at h1
        simp only
        have h2 := le_append f1 node t
        cases h3 : f1.append node t with
        | mk f2 r =>
          rw [h3] at h2
          simp only
          have h12 := h1.trans h2
          cases r with
          | ok =>
            simp only
            split
            · split
              · exact h12.trans (le_setValue f2 _ _)
              · exact h12
            · exact h12
          | err e => exact h12
          | panic => exact h12
    · exact Le.refl f

theorem le_removeInsignificantWhitespace (f : Forest) (node : Nat) :
    Le f (f.removeInsignificantWhitespace node) := by
  unfold removeInsignificantWhitespace
  cases f.get? node with
  | none => exact Le.refl f
  | some t =>
    simp only
    have h0 : Le f ({ f with consolidation := false } : Forest) := ⟨Nat.le_refl _, fun _ h => Or.inl h⟩
    have h1 := le_foldl_remove (fun n : Nat => n)
      ((descendantsNormal t).filter f.isInsignificantWhitespace) ({ f with consolidation := false } : Forest)
    exact ⟨(h0.trans h1).next, (h0.trans h1).old⟩

theorem le_replace (f : Forest) (a b : Nat) : Le f (f.replace a b).1 := by
  unfold replace
  split
  · exact Le.refl f
  cases f.parent? a with
  | none => exact Le.refl f
  | some parent =>
    simp only
    split
    · exact Le.refl f
    split
    · exact Le.refl f
    split
    · exact Le.refl f
    split
    · exact le_remove f a
    · have h1 := le_dropSubtree f a
      cases f.prevSibling a with
      | none => exact h1.trans (le_prepend _ parent b)
      | some p =>
        simp only
        have h2 := le_insertAfter (f.dropSubtree a) p b
        cases hi : (f.dropSubtree a).insertAfter p b with
        | mk f2 r =>
          rw [hi] at h2
          simp only
          cases r with
          | ok =>
            cases f.nextSibling a with
            | none => exact h1.trans h2
            | some n => exact (h1.trans h2).trans (le_removeConsolidate _ _ _)
          | err e => exact h1.trans h2
          | panic => exact h1.trans h2

theorem le_elementWrap (f : Forest) (node name : Nat) : Le f (f.elementWrap node name).1 := by
  unfold elementWrap
  split
  · exact Le.refl f
  split
  · exact Le.refl f
  split
  · exact Le.refl f
  cases f.parent? node with
  | some parent =>
    simp only
    have h1 : Le f (f.newElement name).1 := le_newNode f _
    cases hn : f.newElement name with
    | mk f1 wrapper =>
      rw [hn] at h1
      simp only
      have h2 := le_detachRaw f1 node
      have h3 := le_append (f1.detachRaw node) wrapper node
      cases ha : (f1.detachRaw node).append wrapper node with
      | mk f3 r3 =>
        rw [ha] at h3
        simp only
        have h123 := (h1.trans h2).trans h3
        cases r3 with
        | ok =>
          simp only
          cases f.prevSibling node with
          | some p => exact h123.trans (le_insertAfter f3 p wrapper)
          | none => exact h123.trans (le_prepend f3 parent wrapper)
        | err e => exact h123
        | panic => exact h123
  | none =>
    simp only
    have h1 : Le f (f.newElement name).1 := le_newNode f _
    cases hn : f.newElement name with
    | mk f1 wrapper =>
      rw [hn] at h1
      simp only
      exact h1.trans (le_append f1 wrapper node)

theorem le_foldl_spliceOut (xs : List HTree) (f : Forest) :
    Le f (xs.foldl (fun acc k => acc.spliceOut k.handle) f) := by
  induction xs generalizing f with
  | nil => exact Le.refl f
  | cons x xs ih => exact (le_spliceOut f x.handle).trans (ih _)

theorem le_removeElement (f : Forest) (node : Nat) : Le f (f.removeElement node) := by
  unfold removeElement
  cases f.get? node with
  | none => exact Le.refl f
  | some t => exact (le_foldl_spliceOut _ f).trans (le_spliceOut _ node)

theorem le_elementUnwrap (f : Forest) (node : Nat) : Le f (f.elementUnwrap node).1 := by
  unfold elementUnwrap
  split
  · exact Le.refl f
  cases f.firstChild node with
  | none => exact le_remove f node
  | some first =>
    simp only
    split
    · exact Le.refl f
    cases f.lastChild node with
    | none => exact Le.refl f
    | some last =>
      simp only
      have h1 := le_removeElement f node
      have h2 := le_removeConsolidate (f.removeElement node) ((f.removeElement node).prevSibling first) (some first)
      cases hr : (f.removeElement node).removeConsolidate ((f.removeElement node).prevSibling first) (some first) with
      | mk f2 c =>
        rw [hr] at h2
        simp only
        have h12 := h1.trans h2
        split
        · split
          · exact h12.trans (le_removeConsolidate _ _ _)
          · exact h12.trans (le_removeConsolidate _ _ _)
        · exact h12.trans (le_removeConsolidate _ _ _)

theorem le_clone_step {f f2 : Forest} {v : Value} {current : Nat} {r : Res} {n : Nat}
    (heq : (f.newNode v).1.anyAppend current (f.newNode v).2 = (f2, r, n)) : Le f f2 := by
  have h2 := le_anyAppend (f.newNode v).1 current (f.newNode v).2
  rw [heq] at h2
  exact (le_newNode f v).trans h2

mutual
  theorem le_cloneInto (current : Nat) : ∀ (t : HTree) (f f' : Forest), cloneInto f current t = some f' → Le f f'
    | .node h v ks, f, f' => by
      intro hc
      unfold cloneInto at hc
      cases v with
      | document => exact le_cloneKids current ks f f' hc
      | _ =>
        simp only at hc
        split at hc
        · rename_i f2 _ heq
          exact (le_clone_step heq).trans (le_cloneKids _ ks f2 f' hc)
        · cases hc
  theorem le_cloneKids (current : Nat) : ∀ (ks : List HTree) (f f' : Forest), cloneKids f current ks = some f' → Le f f'
    | [], f, f' => by
      intro hc; rw [cloneKids] at hc; cases hc; exact Le.refl f
    | k :: ks, f, f' => by
      intro hc
      rw [cloneKids] at hc
      split at hc
      · rename_i f1 heq
        exact (le_cloneInto current k f f1 heq).trans (le_cloneKids current ks f1 f' hc)
      · cases hc
end

theorem le_cloneNode (f : Forest) (node : Nat) : Le f (f.cloneNode node).1 := by
  unfold cloneNode
  cases f.get? node with
  | none => exact Le.refl f
  | some src =>
    simp only
    split
    · have h1 : Le f f.newDocument.1 := le_newNode f _
      cases hn : f.newDocument with
      | mk f1 top =>
        rw [hn] at h1
        simp only
        cases hc : cloneKids f1 top src.kids with
        | some f2 => exact h1.trans (le_cloneKids top _ f1 f2 hc)
        | none => exact h1
    · rename_i name _
      have h1 : Le f (f.newElement name).1 := le_newNode f _
      cases hn : f.newElement name with
      | mk f1 top =>
        rw [hn] at h1
        simp only
        cases hc : cloneInto f1 top src with
        | some f2 =>
          simp only
          have h2 := h1.trans (le_cloneInto top src f1 f2 hc)
          cases f2.firstChild top with
          | some c => exact h2.trans (le_spliceOut f2 top)
          | none => exact h2
        | none => exact h1
    · exact le_newNode f _

end Forest
end XotModel
