/-
  XotModel.Lemmas.ScopeIdemGuards — the guards of `dedup_idem` / `namesWritable_dedup_inner`
  stated for a whole tree give the guards for the subtree at any path; `noShadow` implies
  `noRebind`.
-/
import XotModel.Lemmas.ScopeIdem

namespace XotModel

/-! ### The guards on the whole tree give the guards on every subtree -/

mutual
theorem noShadow_mono : ∀ (x : Tree) (above above2 : List Nat), (∀ p ∈ above2, p ∈ above) →
    noShadow above x → noShadow above2 x
  | .node v ks, above, above2, hsub, h => by
    cases v with
    | element name =>
      simp only [noShadow] at h ⊢
      refine ⟨h.1, fun p hp hm => h.2.1 p hp (hsub p hm), ?_⟩
      apply noShadowList_mono ks _ _ _ h.2.2
      intro p hp
      rcases List.mem_append.1 hp with hp | hp
      · exact List.mem_append.2 (.inl (hsub p hp))
      · exact List.mem_append.2 (.inr hp)
    | document => simp only [noShadow] at h ⊢; exact ⟨h.1, noShadowList_mono ks _ _ hsub h.2⟩
    | text s => simp only [noShadow] at h ⊢; exact ⟨h.1, noShadowList_mono ks _ _ hsub h.2⟩
    | pi a b => simp only [noShadow] at h ⊢; exact ⟨h.1, noShadowList_mono ks _ _ hsub h.2⟩
    | comment s => simp only [noShadow] at h ⊢; exact ⟨h.1, noShadowList_mono ks _ _ hsub h.2⟩
    | «attribute» a b => simp only [noShadow] at h ⊢; exact ⟨h.1, noShadowList_mono ks _ _ hsub h.2⟩
    | «namespace» a b => simp only [noShadow] at h ⊢; exact ⟨h.1, noShadowList_mono ks _ _ hsub h.2⟩
theorem noShadowList_mono : ∀ (ks : List Tree) (above above2 : List Nat), (∀ p ∈ above2, p ∈ above) →
    noShadow.noShadowList above ks → noShadow.noShadowList above2 ks
  | [], _, _, _, _ => trivial
  | k :: ks, above, above2, hsub, h =>
    ⟨noShadow_mono k above above2 hsub h.1, noShadowList_mono ks above above2 hsub h.2⟩
end

theorem noShadow_at : ∀ (q : Path) (x sub : Tree) (above : List Nat), x.at? q = some sub →
    noShadow above x → noShadow [] sub
  | [], x, sub, above, h, hg => by
    simp only [Tree.at?, Option.some.injEq] at h
    subst h
    exact noShadow_mono _ above [] (by simp) hg
  | i :: q, .node v l, sub, above, h, hg => by
    simp only [Tree.at?] at h
    cases hk : l[i]? with
    | none => simp [hk] at h
    | some k =>
      simp only [hk] at h
      cases v with
      | element name => simp only [noShadow] at hg; exact noShadow_at q k sub _ h (noShadowList_get l _ i k hg.2.2 hk)
      | document => simp only [noShadow] at hg; exact noShadow_at q k sub _ h (noShadowList_get l _ i k hg.2 hk)
      | text s => simp only [noShadow] at hg; exact noShadow_at q k sub _ h (noShadowList_get l _ i k hg.2 hk)
      | pi a b => simp only [noShadow] at hg; exact noShadow_at q k sub _ h (noShadowList_get l _ i k hg.2 hk)
      | comment s => simp only [noShadow] at hg; exact noShadow_at q k sub _ h (noShadowList_get l _ i k hg.2 hk)
      | «attribute» a b => simp only [noShadow] at hg; exact noShadow_at q k sub _ h (noShadowList_get l _ i k hg.2 hk)
      | «namespace» a b => simp only [noShadow] at hg; exact noShadow_at q k sub _ h (noShadowList_get l _ i k hg.2 hk)

mutual
theorem noFlag_mono (env : Env) : ∀ (x : Tree) (D D2 : List Nat), (∀ n ∈ D2, n ∈ D) →
    noFlag env D x → noFlag env D2 x
  | .node v ks, D, D2, hsub, h => by
    cases v with
    | element name =>
      simp only [noFlag] at h ⊢
      have hs : ∀ n ∈ ((Tree.node (.element name) ks).getNamespace Env.emptyPrefix).toList ++ D2,
          n ∈ ((Tree.node (.element name) ks).getNamespace Env.emptyPrefix).toList ++ D := by
        intro n hn
        rcases List.mem_append.1 hn with hn | hn
        · exact List.mem_append.2 (.inl hn)
        · exact List.mem_append.2 (.inr (hsub n hn))
      exact ⟨fun a ha hm => h.1 a ha (hs _ hm), noFlagList_mono env ks _ _ hs h.2⟩
    | document => simp only [noFlag] at h ⊢; exact noFlagList_mono env ks _ _ hsub h
    | text s => simp only [noFlag] at h ⊢; exact noFlagList_mono env ks _ _ hsub h
    | pi a b => simp only [noFlag] at h ⊢; exact noFlagList_mono env ks _ _ hsub h
    | comment s => simp only [noFlag] at h ⊢; exact noFlagList_mono env ks _ _ hsub h
    | «attribute» a b => simp only [noFlag] at h ⊢; exact noFlagList_mono env ks _ _ hsub h
    | «namespace» a b => simp only [noFlag] at h ⊢; exact noFlagList_mono env ks _ _ hsub h
theorem noFlagList_mono (env : Env) : ∀ (ks : List Tree) (D D2 : List Nat), (∀ n ∈ D2, n ∈ D) →
    noFlag.noFlagList env D ks → noFlag.noFlagList env D2 ks
  | [], _, _, _, _ => trivial
  | k :: ks, D, D2, hsub, h =>
    ⟨noFlag_mono env k D D2 hsub h.1, noFlagList_mono env ks D D2 hsub h.2⟩
end

theorem noFlagList_get (env : Env) : ∀ (l : List Tree) (D : List Nat) (i : Nat) (k : Tree),
    noFlag.noFlagList env D l → l[i]? = some k → noFlag env D k
  | [], _, _, _, _, h => by simp at h
  | a :: l, D, 0, k, hg, h => by
    simp only [List.getElem?_cons_zero, Option.some.injEq] at h
    subst h
    exact hg.1
  | a :: l, D, i + 1, k, hg, h => by
    simp only [List.getElem?_cons_succ] at h
    exact noFlagList_get env l D i k hg.2 h

theorem noFlag_at (env : Env) : ∀ (q : Path) (x sub : Tree) (D : List Nat), x.at? q = some sub →
    noFlag env D x → noFlag env [] sub
  | [], x, sub, D, h, hg => by
    simp only [Tree.at?, Option.some.injEq] at h
    subst h
    exact noFlag_mono env _ D [] (by simp) hg
  | i :: q, .node v l, sub, D, h, hg => by
    simp only [Tree.at?] at h
    cases hk : l[i]? with
    | none => simp [hk] at h
    | some k =>
      simp only [hk] at h
      cases v with
      | element name => simp only [noFlag] at hg; exact noFlag_at env q k sub _ h (noFlagList_get env l _ i k hg.2 hk)
      | document => simp only [noFlag] at hg; exact noFlag_at env q k sub _ h (noFlagList_get env l _ i k hg hk)
      | text s => simp only [noFlag] at hg; exact noFlag_at env q k sub _ h (noFlagList_get env l _ i k hg hk)
      | pi a b => simp only [noFlag] at hg; exact noFlag_at env q k sub _ h (noFlagList_get env l _ i k hg hk)
      | comment s => simp only [noFlag] at hg; exact noFlag_at env q k sub _ h (noFlagList_get env l _ i k hg hk)
      | «attribute» a b => simp only [noFlag] at hg; exact noFlag_at env q k sub _ h (noFlagList_get env l _ i k hg hk)
      | «namespace» a b => simp only [noFlag] at hg; exact noFlag_at env q k sub _ h (noFlagList_get env l _ i k hg hk)

/-! ### `noShadow` is the special case of `noRebind` where nothing is redeclared at all -/

mutual
theorem noRebind_of_noShadow : ∀ (x : Tree) (keys : List Nat) (above : List (Nat × Nat)),
    (∀ kv ∈ above, kv.1 ∈ keys) → noShadow keys x → noRebind above x
  | .node v ks, keys, above, hab, h => by
    cases v with
    | element name =>
      simp only [noShadow] at h
      simp only [noRebind]
      refine ⟨h.1, fun kv hkv kv2 hkv2 he => ?_, ?_⟩
      · exact absurd (he ▸ hab kv2 hkv2) (h.2.1 kv.1 (List.mem_map.2 ⟨kv, hkv, rfl⟩))
      · apply noRebindList_of_noShadow ks _ _ _ h.2.2
        intro kv hkv
        rcases List.mem_append.1 hkv with hkv | hkv
        · exact List.mem_append.2 (.inl (hab kv hkv))
        · exact List.mem_append.2 (.inr (List.mem_map.2 ⟨kv, hkv, rfl⟩))
    | document => simp only [noShadow] at h; simp only [noRebind]; exact noRebindList_of_noShadow ks _ _ hab h.2
    | text s => simp only [noShadow] at h; simp only [noRebind]; exact noRebindList_of_noShadow ks _ _ hab h.2
    | pi a b => simp only [noShadow] at h; simp only [noRebind]; exact noRebindList_of_noShadow ks _ _ hab h.2
    | comment s => simp only [noShadow] at h; simp only [noRebind]; exact noRebindList_of_noShadow ks _ _ hab h.2
    | «attribute» a b => simp only [noShadow] at h; simp only [noRebind]; exact noRebindList_of_noShadow ks _ _ hab h.2
    | «namespace» a b => simp only [noShadow] at h; simp only [noRebind]; exact noRebindList_of_noShadow ks _ _ hab h.2
theorem noRebindList_of_noShadow : ∀ (ks : List Tree) (keys : List Nat) (above : List (Nat × Nat)),
    (∀ kv ∈ above, kv.1 ∈ keys) → noShadow.noShadowList keys ks → noRebind.noRebindList above ks
  | [], _, _, _, _ => trivial
  | k :: ks, keys, above, hab, h =>
    ⟨noRebind_of_noShadow k keys above hab h.1, noRebindList_of_noShadow ks keys above hab h.2⟩
end

mutual
theorem noRebind_mono : ∀ (x : Tree) (above above2 : List (Nat × Nat)), (∀ kv ∈ above2, kv ∈ above) →
    noRebind above x → noRebind above2 x
  | .node v ks, above, above2, hsub, h => by
    cases v with
    | element name =>
      simp only [noRebind] at h ⊢
      refine ⟨h.1, fun kv hkv kv2 hkv2 he => h.2.1 kv hkv kv2 (hsub kv2 hkv2) he, ?_⟩
      apply noRebindList_mono ks _ _ _ h.2.2
      intro kv hkv
      rcases List.mem_append.1 hkv with hkv | hkv
      · exact List.mem_append.2 (.inl (hsub kv hkv))
      · exact List.mem_append.2 (.inr hkv)
    | document => simp only [noRebind] at h ⊢; exact noRebindList_mono ks _ _ hsub h
    | text s => simp only [noRebind] at h ⊢; exact noRebindList_mono ks _ _ hsub h
    | pi a b => simp only [noRebind] at h ⊢; exact noRebindList_mono ks _ _ hsub h
    | comment s => simp only [noRebind] at h ⊢; exact noRebindList_mono ks _ _ hsub h
    | «attribute» a b => simp only [noRebind] at h ⊢; exact noRebindList_mono ks _ _ hsub h
    | «namespace» a b => simp only [noRebind] at h ⊢; exact noRebindList_mono ks _ _ hsub h
theorem noRebindList_mono : ∀ (ks : List Tree) (above above2 : List (Nat × Nat)),
    (∀ kv ∈ above2, kv ∈ above) → noRebind.noRebindList above ks → noRebind.noRebindList above2 ks
  | [], _, _, _, _ => trivial
  | k :: ks, above, above2, hsub, h =>
    ⟨noRebind_mono k above above2 hsub h.1, noRebindList_mono ks above above2 hsub h.2⟩
end

theorem noRebindList_get : ∀ (l : List Tree) (above : List (Nat × Nat)) (i : Nat) (k : Tree),
    noRebind.noRebindList above l → l[i]? = some k → noRebind above k
  | [], _, _, _, _, h => by simp at h
  | a :: l, above, 0, k, hg, h => by
    simp only [List.getElem?_cons_zero, Option.some.injEq] at h
    subst h
    exact hg.1
  | a :: l, above, i + 1, k, hg, h => by
    simp only [List.getElem?_cons_succ] at h
    exact noRebindList_get l above i k hg.2 h

theorem noRebind_at : ∀ (q : Path) (x sub : Tree) (above : List (Nat × Nat)), x.at? q = some sub →
    noRebind above x → noRebind [] sub
  | [], x, sub, above, h, hg => by
    simp only [Tree.at?, Option.some.injEq] at h
    subst h
    exact noRebind_mono _ above [] (by simp) hg
  | i :: q, .node v l, sub, above, h, hg => by
    simp only [Tree.at?] at h
    cases hk : l[i]? with
    | none => simp [hk] at h
    | some k =>
      simp only [hk] at h
      cases v with
      | element name => simp only [noRebind] at hg; exact noRebind_at q k sub _ h (noRebindList_get l _ i k hg.2.2 hk)
      | document => simp only [noRebind] at hg; exact noRebind_at q k sub _ h (noRebindList_get l _ i k hg hk)
      | text s => simp only [noRebind] at hg; exact noRebind_at q k sub _ h (noRebindList_get l _ i k hg hk)
      | pi a b => simp only [noRebind] at hg; exact noRebind_at q k sub _ h (noRebindList_get l _ i k hg hk)
      | comment s => simp only [noRebind] at hg; exact noRebind_at q k sub _ h (noRebindList_get l _ i k hg hk)
      | «attribute» a b => simp only [noRebind] at hg; exact noRebind_at q k sub _ h (noRebindList_get l _ i k hg hk)
      | «namespace» a b => simp only [noRebind] at hg; exact noRebind_at q k sub _ h (noRebindList_get l _ i k hg hk)

end XotModel
