/-
  XotModel.Lemmas.ArenaRevTraverse — the `reverse_traverse` iterator (`NodeEdge::prev_traverse`
  driven by `ReverseTraverse::next`) on a well-formed arena: from `End(c)` it yields exactly the
  edges of the subtree of `c` in REVERSE document order — `End(c)`, the reversed edge lists of the
  children's subtrees from the last child to the first, `Start(c)` — i.e. the reverse of what
  `traverse` yields (`Lemmas/ArenaTraverse.lean`), the `Start` / `End` tags unchanged.
-/
import XotModel.Lemmas.ArenaTraverse

namespace XotModel
namespace Arena

/-- What precedes `Start(c)`: `End` of the previous sibling, else `Start` of the parent, else nothing. -/
inductive BeforeStart (g : Shape) : Nat → Option Ed → Prop where
  | sib {c q p : Nat} {L R : List Nat} : g.par c = some q → g.kids q = L ++ p :: c :: R → BeforeStart g c (some (false, p))
  | first {c q : Nat} {R : List Nat} : g.par c = some q → g.kids q = c :: R → BeforeStart g c (some (true, q))
  | root {c : Nat} : g.par c = none → BeforeStart g c none

theorem Rep.beforeStart_exists {a : Arena} {g : Shape} (r : Rep a g) (c : Nat) : ∃ o, BeforeStart g c o := by
  cases hp : g.par c with
  | none => exact ⟨none, .root hp⟩
  | some q =>
    obtain ⟨L, R, hk⟩ := List.append_of_mem (r.parKids c q hp).2
    rcases List.eq_nil_or_concat L with rfl | ⟨L', p, rfl⟩
    · exact ⟨_, .first hp hk⟩
    · exact ⟨_, .sib (L := L') (p := p) (R := R) hp (by rw [hk]; simp)⟩

/-- One step of `ReverseTraverse::next` with continuation. -/
theorem reverseTraverseGo_succ (a : Arena) (root : NodeId) (limit : Nat) (e : NodeEdge) :
    reverseTraverseGo a root (limit + 1) (some e) =
      if e = .start root then emit a [e] (reverseTraverseGo a root limit none)
      else prevTraverse a e fun nx => emit a [e] (reverseTraverseGo a root limit nx) := by
  rw [reverseTraverseGo]
  split <;> rfl

/-- The reverse walk continues after the reverse of a list of edges has been emitted. -/
def RevEmitsThen (a : Arena) (root : NodeId) (cur : NodeEdge) (l : List Ed) (o : Option Ed) : Prop :=
  ∀ limit, l.length ≤ limit →
    reverseTraverseGo a root limit (some cur) =
      emit a (l.reverse.map (toEdge a)) (reverseTraverseGo a root (limit - l.length) (o.map (toEdge a)))

mutual
/-- From `End(c)`: the edges of the subtree of `c` backwards, then what precedes `Start(c)`. -/
theorem EdgesOf.revTraverse {a : Arena} {g : Shape} (r : Rep a g) (root : NodeId) {c : Nat} {l : List Ed}
    (h : EdgesOf g c l) (hc : Live a c) (hroot : ∀ n, Reach g.par n c → a.idAt n ≠ root) (o : Option Ed)
    (ho : BeforeStart g c o) : RevEmitsThen a root (.end (a.idAt c)) l o := by
  match h with
  | @EdgesOf.mk _ _ L hL =>
    intro limit hlim
    obtain ⟨s, hs, h0⟩ := hc
    have P := r.ptrs c s hs h0
    have hsc : a.slot (a.idAt c).index0 = some s := by rw [idAt_index0]; exact hs
    simp only [List.length_cons, List.length_append, List.length_nil] at hlim
    obtain ⟨n, rfl⟩ : ∃ n, limit = n + 1 := ⟨limit - 1, by omega⟩
    rw [reverseTraverseGo_succ, if_neg (by simp)]
    unfold prevTraverse
    simp only []
    rw [rd_some _ _ _ _ hsc]
    -- the edge before the children: `Start(c)`, then what precedes it
    have hstart : ∀ m, reverseTraverseGo a root (m + 1) (some (.start (a.idAt c))) =
        emit a [.start (a.idAt c)] (reverseTraverseGo a root m (o.map (toEdge a))) := by
      intro m
      rw [reverseTraverseGo_succ]
      have hne : NodeEdge.start (a.idAt c) ≠ NodeEdge.start root := by
        intro e; cases e; exact hroot c (.refl _) rfl
      rw [if_neg hne]
      unfold prevTraverse
      simp only []
      rw [rd_some _ _ _ _ hsc]
      cases ho with
      | @sib q p' L' R' hp hk =>
        obtain ⟨L1, R1, e1, e2, _⟩ := P.sib q hp
        obtain ⟨hL, _⟩ := split_unique (L' := L' ++ [p']) (R' := R') (by rw [← e1]; exact r.kidsNodup q)
          (e1.symm.trans (by rw [hk]; simp))
        have : s.prev = some (a.idAt p') := by rw [e2, hL]; simp
        simp only [this, Option.map_some, toEdge, Bool.false_eq_true, if_false]
      | @first q R' hp hk =>
        obtain ⟨L1, R1, e1, e2, _⟩ := P.sib q hp
        obtain ⟨hL, _⟩ := split_unique (L' := []) (R' := R') (by rw [← e1]; exact r.kidsNodup q)
          (e1.symm.trans (by rw [hk]; rfl))
        have h1 : s.prev = none := by rw [e2, hL]; rfl
        have h2 : s.parent = some (a.idAt q) := by rw [P.parent, hp]; rfl
        simp only [h1, h2, Option.map_some, toEdge, if_true]
      | root hp =>
        have h1 : s.prev = none := (P.root hp).1
        have h2 : s.parent = none := by rw [P.parent, hp]; rfl
        simp only [h1, h2, Option.map_none]
    cases hk : g.kids c with
    | nil =>
      have hLnil : L = [] := hL.nil_inv hk
      subst hLnil
      have hf : s.last = none := by rw [P.last, hk]; rfl
      simp only [hf, List.length_nil] at hlim ⊢
      obtain ⟨m, rfl⟩ : ∃ m, n = m + 1 := ⟨n - 1, by omega⟩
      rw [hstart m, emit_emit]
      simp [toEdge]
    | cons k1 ks =>
      obtain ⟨lst, hlst⟩ : ∃ lst, (g.kids c).getLast? = some lst := by
        rw [hk]; exact ⟨_, List.getLast?_cons⟩
      have hf : s.last = some (a.idAt lst) := by rw [P.last, hlst]; rfl
      simp only [hf]
      have hkids := EdgesList.revTraverse r root hL c [] rfl
        (fun n k hk' hn => hroot n (r.reach_of_child hk' hn)) k1 ks hk lst hlst
        (some (true, c)) (.first (r.kidsLive c k1 (by rw [hk]; simp)).2.2 hk) n (by omega)
      obtain ⟨m, hm⟩ : ∃ m, n - L.length = m + 1 := ⟨n - L.length - 1, by omega⟩
      rw [hkids, hm]
      simp only [Option.map_some, toEdge, if_true]
      rw [hstart m, emit_emit, emit_emit]
      have e1 : n + 1 - ((true, c) :: L ++ [(false, c)]).length = m := by
        simp only [List.length_cons, List.length_append, List.length_nil]; omega
      rw [e1]
      simp [toEdge]
/-- From `End` of the last of a suffix `k1 :: rest` of the children of `c`: their edges backwards,
    then what precedes `Start(k1)`. -/
theorem EdgesList.revTraverse {a : Arena} {g : Shape} (r : Rep a g) (root : NodeId) {ks : List Nat} {L : List Ed}
    (h : EdgesList g ks L) (c : Nat) (pre : List Nat) (hk : g.kids c = pre ++ ks)
    (hroot : ∀ n k, k ∈ g.kids c → Reach g.par n k → a.idAt n ≠ root) (k1 : Nat) (rest : List Nat)
    (hks : ks = k1 :: rest) (lst : Nat) (hlst : ks.getLast? = some lst) (o : Option Ed)
    (ho : BeforeStart g k1 o) :
    RevEmitsThen a root (.end (a.idAt lst)) L o := by
  match h with
  | .nil => exact absurd hks (by simp)
  | @EdgesList.cons _ k ks' l1 l2 h1 h2 =>
    have hk1 : k = k1 := (List.cons.inj hks).1
    have hrest' : ks' = rest := (List.cons.inj hks).2
    subst hk1 hrest'
    intro limit hlim
    have hkmem : k ∈ g.kids c := by rw [hk]; simp
    have hpk := (r.kidsLive c k hkmem).2.2
    have hrootk : ∀ n, Reach g.par n k → a.idAt n ≠ root := fun n hn => hroot n k hkmem hn
    simp only [List.length_append] at hlim
    cases hrest : ks' with
    | nil =>
      have hl2 : l2 = [] := h2.nil_inv hrest
      subst hl2
      have hlk : k = lst := by
        rw [hrest] at hlst; simpa using hlst
      subst hlk
      have := EdgesOf.revTraverse r root h1 (r.kidsLive c k hkmem).2.1 hrootk o ho limit (by omega)
      simpa using this
    | cons k2 rest2 =>
      have hlst2 : ks'.getLast? = some lst := by
        rw [hrest] at hlst ⊢; rw [List.getLast?_cons_cons] at hlst; exact hlst
      have e2 := EdgesList.revTraverse r root h2 c (pre ++ [k]) (by rw [hk]; simp) hroot k2 rest2 hrest
        lst hlst2 (some (false, k)) (.sib (L := pre) (R := rest2) (r.kidsLive c k2 (by rw [hk, hrest]; simp)).2.2
          (by rw [hk, hrest])) limit (by omega)
      have e1 := EdgesOf.revTraverse r root h1 (r.kidsLive c k hkmem).2.1 hrootk o ho
        (limit - l2.length) (by omega)
      rw [e2]
      simp only [Option.map_some, toEdge, Bool.false_eq_true, if_false]
      rw [e1, emit_emit]
      simp only [List.length_append, List.map_append, List.reverse_append]
      have : limit - l2.length - l1.length = limit - (l1.length + l2.length) := by omega
      rw [this]
end

/-- `reverse_traverse` from a live node: exactly the edges of its subtree, backwards, within the
    limit. -/
theorem Rep.reverseTraverse_eq {a : Arena} {g : Shape} (r : Rep a g) {c : Nat} {l : List Ed} (h : EdgesOf g c l)
    (hc : Live a c) (limit : Nat) (hlim : l.length ≤ limit) :
    Arena.reverseTraverse a (a.idAt c) limit = .done a (l.reverse.map (toEdge a)) := by
  match h with
  | @EdgesOf.mk _ _ L hL =>
    have hcl := hc
    obtain ⟨s, hs, h0⟩ := hc
    have P := r.ptrs c s hs h0
    have hsc : a.slot (a.idAt c).index0 = some s := by rw [idAt_index0]; exact hs
    simp only [List.length_cons, List.length_append, List.length_nil] at hlim
    obtain ⟨n, rfl⟩ : ∃ n, limit = n + 1 := ⟨limit - 1, by omega⟩
    unfold Arena.reverseTraverse
    rw [reverseTraverseGo_succ, if_neg (by simp)]
    unfold prevTraverse
    simp only []
    rw [rd_some _ _ _ _ hsc]
    have hstart : ∀ m, reverseTraverseGo a (a.idAt c) (m + 1) (some (.start (a.idAt c))) =
        .done a [.start (a.idAt c)] := by
      intro m
      rw [reverseTraverseGo_succ, if_pos rfl]
      cases m <;> simp [reverseTraverseGo, emit]
    cases hk : g.kids c with
    | nil =>
      have hLnil : L = [] := hL.nil_inv hk
      subst hLnil
      have hf : s.last = none := by rw [P.last, hk]; rfl
      simp only [hf] at hlim ⊢
      obtain ⟨m, rfl⟩ : ∃ m, n = m + 1 := ⟨n - 1, by simp at hlim; omega⟩
      rw [hstart m]
      simp [emit, toEdge]
    | cons k1 ks =>
      obtain ⟨lst, hlst⟩ : ∃ lst, (g.kids c).getLast? = some lst := by
        rw [hk]; exact ⟨_, List.getLast?_cons⟩
      have hf : s.last = some (a.idAt lst) := by rw [P.last, hlst]; rfl
      simp only [hf]
      have hkids := EdgesList.revTraverse r (a.idAt c) hL c [] rfl (fun n k hk' hn e => by
        have := congrArg NodeId.index0 e
        simp at this; subst this
        exact r.acyclic k n (r.kidsLive n k hk').2.2 hn) k1 ks hk lst hlst
        (some (true, c)) (.first (r.kidsLive c k1 (by rw [hk]; simp)).2.2 hk) n (by omega)
      obtain ⟨m, hm⟩ : ∃ m, n - L.length = m + 1 := ⟨n - L.length - 1, by omega⟩
      rw [hkids, hm]
      simp only [Option.map_some, toEdge, if_true]
      rw [hstart m]
      simp [emit, toEdge]

/-- `reverse_traverse` yields the reverse of what `traverse` yields. -/
theorem Rep.reverseTraverse_eq_reverse {a : Arena} {g : Shape} (r : Rep a g) {c : Nat} {l : List Ed}
    (h : EdgesOf g c l) (hc : Live a c) (limit : Nat) (hlim : l.length ≤ limit) :
    ∃ es, Arena.traverse a (a.idAt c) limit = .done a es ∧
      Arena.reverseTraverse a (a.idAt c) limit = .done a es.reverse :=
  ⟨_, r.traverse_eq h hc limit hlim, by rw [r.reverseTraverse_eq h hc limit hlim, List.map_reverse]⟩

end Arena
end XotModel
