/-
  XotModel.Lemmas.ArenaSpliceRep — the arena after `remove` has moved the children of the
  (already detached) node `i` to `i`'s old place stores the list-level splice.
-/
import XotModel.Lemmas.ArenaSplice

namespace XotModel
namespace Arena

theorem Rep.splice {a : Arena} {g : Shape} (r : Rep a g) (i p : Nat) (L R : List Nat) (c1 ck : Nat)
    (hil : Live a i) (hroot : g.par i = none) (hpl : Live a p) (hpi : p ≠ i)
    (hk : g.kids p = L ++ R) (hanc : ¬ Reach g.par p i)
    (hhead : (g.kids i).head? = some c1) (hlast : (g.kids i).getLast? = some ck) :
    Rep (spliceArena a i p c1 ck (L.getLast?.map a.idAt) (R.head?.map a.idAt) (g.kids i)) (g.splice i p L R) := by
  obtain ⟨s, hs, h0⟩ := hil
  obtain ⟨sp, hsp', hp0⟩ := hpl
  have P := r.ptrs i s hs h0
  have Pp := r.ptrs p sp hsp' hp0
  generalize hK : g.kids i = K at *
  have live_kids : ∀ p c, c ∈ g.kids p → Live a c := fun p c hc => (r.kidsLive p c hc).2.1
  have hKpar : ∀ c ∈ K, g.par c = some i := fun c hc => (r.kidsLive i c (by rw [hK]; exact hc)).2.2
  have hKnd : K.Nodup := by rw [← hK]; exact r.kidsNodup i
  have hnd : (L ++ R).Nodup := by rw [← hk]; exact r.kidsNodup p
  have hikids : ∀ q, i ∉ g.kids q := fun q hm => by
    have := (r.kidsLive q i hm).2.2; rw [hroot] at this; cases this
  have hiK : i ∉ K := fun hm => hikids i (by rw [hK]; exact hm)
  have hpK : p ∉ K := fun hm => hanc (.single (hKpar p hm))
  have hLp : ∀ y, y ∈ L → y ∈ g.kids p := fun y h => by rw [hk]; exact List.mem_append_left _ h
  have hRp : ∀ y, y ∈ R → y ∈ g.kids p := fun y h => by rw [hk]; exact List.mem_append_right _ h
  have hKp : ∀ y, y ∈ K → y ∉ g.kids p := fun y h1 h2 => by
    have e1 := hKpar y h1
    have e2 := (r.kidsLive p y h2).2.2
    rw [e1] at e2; cases e2; exact hpi rfl
  have hiL : i ∉ L := fun hm => hikids p (hLp i hm)
  have hiR : i ∉ R := fun hm => hikids p (hRp i hm)
  have hLR : ∀ y, y ∈ L → y ∈ R → False := fun y h1 h2 => (List.nodup_append.mp hnd).2.2 y h1 y h2 rfl
  have hkp : ∀ y, y ∈ g.kids p → y ≠ p := fun y h e => by
    subst e; exact r.par_ne (r.kidsLive _ _ h).2.2 rfl
  have hc1K : c1 ∈ K := List.mem_of_mem_head? hhead
  have hckK : ck ∈ K := List.mem_of_getLast? hlast
  have hprevne : L.getLast? ≠ some i := fun h => hiL (List.mem_of_getLast? h)
  have hnextne : R.head? ≠ some i := fun h => hiR (List.mem_of_mem_head? h)
  have hprevp : L.getLast? ≠ some p := fun h => hkp p (hLp p (List.mem_of_getLast? h)) rfl
  have hnextp : R.head? ≠ some p := fun h => hkp p (hRp p (List.mem_of_mem_head? h)) rfl
  have hprevK : ∀ j, j ∈ K → L.getLast? ≠ some j := fun j hj h => hKp j hj (hLp j (List.mem_of_getLast? h))
  have hnextK : ∀ j, j ∈ K → R.head? ≠ some j := fun j hj h => hKp j hj (hRp j (List.mem_of_mem_head? h))
  have hc1i : c1 ≠ i := fun e => hiK (e ▸ hc1K)
  have hc1p : c1 ≠ p := fun e => hpK (e ▸ hc1K)
  have hcki : ck ≠ i := fun e => hiK (e ▸ hckK)
  have hckp : ck ≠ p := fun e => hpK (e ▸ hckK)
  generalize hD : spliceArena a i p c1 ck (L.getLast?.map a.idAt) (R.head?.map a.idAt) K = D
  have hM : MetaEq a D := by rw [← hD]; exact MetaEq.spliceArena _ _ _ _ _ _ _ _
  have hidAt : D.idAt = a.idAt := funext hM.idAt
  -- the arena after the first `connect_neighbors`
  generalize hA3 : setParents (a.mod i (fun s => { s with first := none, last := none })) K (some (a.idAt p)) = A3
  have hA3slot : ∀ j, A3.slot j =
      if j ∈ K then (a.slot j).map (fun s => { s with parent := some (a.idAt p) })
      else if i = j then (a.slot j).map (fun s => { s with first := none, last := none })
      else a.slot j := by
    intro j
    rw [← hA3, slot_setParents, slot_mod]
    by_cases h1 : j ∈ K
    · have : i ≠ j := fun e => hiK (e ▸ h1)
      simp [h1, this]
    · simp [h1]
  generalize hB : unlink A3 (Option.map a.idAt (some p)) (L.getLast?.map a.idAt) (Option.map a.idAt (some c1)) = B
  have hDeq : D = unlink B (Option.map a.idAt (some p)) (Option.map a.idAt (some ck)) (R.head?.map a.idAt) := by
    rw [← hD, ← hB, ← hA3]; rfl
  have he1 : A3.parentEnds (Option.map a.idAt (some p)) = (sp.first, sp.last) := by
    simp only [parentEnds, Option.map_some, idAt_index0, hA3slot, hpK, hpi.symm, if_false, hsp']
  have hBslot : ∀ j, B.slot j =
      if p = j then (a.slot j).map (fun s => { s with first := newFirst sp.first (L.getLast?.map a.idAt) (some (a.idAt c1)), last := newLast sp.last (L.getLast?.map a.idAt) (some (a.idAt c1)) })
      else if c1 = j then (a.slot j).map (fun s => { s with parent := some (a.idAt p), prev := L.getLast?.map a.idAt })
      else if j ∈ K then (a.slot j).map (fun s => { s with parent := some (a.idAt p) })
      else if i = j then (a.slot j).map (fun s => { s with first := none, last := none })
      else if L.getLast? = some j then (a.slot j).map (fun s => { s with next := some (a.idAt c1) })
      else a.slot j := by
    intro j
    rw [← hB]
    simp only [unlink, slot_modOpt_map, he1, hA3slot, Option.some.injEq]
    by_cases h1 : p = j
    · subst h1
      simp only [if_true, hc1p, hprevp, hpK, hpi.symm, if_false, Option.map_some]
    · by_cases h2 : c1 = j
      · subst h2
        simp only [h1, if_false, if_true, hc1K, hprevK c1 hc1K, Option.map_some]
        cases a.slot c1 <;> simp
      · by_cases h3 : j ∈ K
        · simp only [h1, h2, h3, if_false, if_true, hprevK j h3, Option.map_some]
        · by_cases h5 : i = j
          · subst h5
            simp only [h1, h2, h3, hprevne, if_false, if_true, Option.map_some]
          · simp only [h1, h2, h3, h5, if_false, Option.map_some]
  have he2 : B.parentEnds (Option.map a.idAt (some p))
      = (newFirst sp.first (L.getLast?.map a.idAt) (some (a.idAt c1)),
         newLast sp.last (L.getLast?.map a.idAt) (some (a.idAt c1))) := by
    simp only [parentEnds, Option.map_some, idAt_index0, hBslot, if_true, hsp']
  have hslot : ∀ j, D.slot j =
      if p = j then (a.slot j).map (fun s => { s with first := newFirst (newFirst sp.first (L.getLast?.map a.idAt) (some (a.idAt c1))) (some (a.idAt ck)) (R.head?.map a.idAt), last := newLast (newLast sp.last (L.getLast?.map a.idAt) (some (a.idAt c1))) (some (a.idAt ck)) (R.head?.map a.idAt) })
      else if j ∈ K then (a.slot j).map (fun s => { s with parent := some (a.idAt p), prev := if c1 = j then L.getLast?.map a.idAt else s.prev, next := if ck = j then R.head?.map a.idAt else s.next })
      else if i = j then (a.slot j).map (fun s => { s with first := none, last := none })
      else if L.getLast? = some j then (a.slot j).map (fun s => { s with next := some (a.idAt c1) })
      else if R.head? = some j then (a.slot j).map (fun s => { s with prev := some (a.idAt ck) })
      else a.slot j := by
    intro j
    rw [hDeq]
    simp only [unlink, slot_modOpt_map, he2, hBslot, Option.some.injEq]
    by_cases h1 : p = j
    · subst h1
      simp only [if_true, hckp, hnextp, if_false, Option.map_some]
      cases a.slot p <;> simp
    · by_cases h3 : j ∈ K
      · have hn := hnextK j h3
        by_cases h2 : c1 = j
        · by_cases h4 : ck = j
          · simp only [h1, h2, h3, h4, hn, if_false, if_true, Option.map_some]
            cases a.slot j <;> simp
          · simp only [h1, h2, h3, h4, hn, if_false, if_true, Option.map_some]
        · by_cases h4 : ck = j
          · simp only [h1, h2, h3, h4, hn, if_false, if_true, Option.map_some]
            cases a.slot j <;> simp
          · simp only [h1, h2, h3, h4, hn, if_false, if_true, Option.map_some]
      · have h2 : c1 ≠ j := fun e => h3 (e ▸ hc1K)
        have h4 : ck ≠ j := fun e => h3 (e ▸ hckK)
        by_cases h5 : i = j
        · subst h5
          simp only [h1, h2, h3, h4, hnextne, if_false, if_true, Option.map_some]
        · by_cases h6 : L.getLast? = some j
          · have h7 : R.head? ≠ some j := fun h => hLR j (List.mem_of_getLast? h6) (List.mem_of_mem_head? h)
            simp only [h1, h2, h3, h4, h5, h6, h7, if_false, if_true, Option.map_some]
          · simp only [h1, h2, h3, h4, h5, h6, if_false, Option.map_some]
  have hKlive : ∀ c ∈ K, Live a c := fun c hc => live_kids i c (by rw [hK]; exact hc)
  refine ⟨hM.stampRange r.stampRange, hM.dataLive r.dataLive, hM.freeOk r.free, ?_, ?_, ?_, ?_, ?_⟩
  · -- kidsLive
    intro q c hc
    simp only [Shape.splice, hK] at hc ⊢
    by_cases hq : q = p
    · subst hq
      rw [if_pos rfl] at hc
      refine ⟨(hM.live _).mpr ⟨sp, hsp', hp0⟩, ?_, ?_⟩
      · rcases List.mem_append.mp hc with h | h
        · rcases List.mem_append.mp h with h | h
          · exact (hM.live _).mpr (live_kids q c (hLp c h))
          · exact (hM.live _).mpr (hKlive c h)
        · exact (hM.live _).mpr (live_kids q c (hRp c h))
      · by_cases hcK : c ∈ K
        · rw [if_pos hcK]
        · rw [if_neg hcK]
          rcases List.mem_append.mp hc with h | h
          · rcases List.mem_append.mp h with h | h
            · exact (r.kidsLive q c (hLp c h)).2.2
            · exact absurd h hcK
          · exact (r.kidsLive q c (hRp c h)).2.2
    · rw [if_neg hq] at hc
      by_cases hqi : q = i
      · rw [if_pos hqi] at hc; cases hc
      · rw [if_neg hqi] at hc
        obtain ⟨l1, l2, l3⟩ := r.kidsLive q c hc
        have hcK : c ∉ K := fun hm => by
          rw [hKpar c hm] at l3; cases l3; exact hqi rfl
        exact ⟨(hM.live _).mpr l1, (hM.live _).mpr l2, by rw [if_neg hcK]; exact l3⟩
  · -- parKids
    intro c q hcq
    simp only [Shape.splice, hK] at hcq ⊢
    by_cases hcK : c ∈ K
    · rw [if_pos hcK] at hcq; cases hcq
      exact ⟨(hM.live _).mpr (hKlive c hcK), by simp [hcK]⟩
    · rw [if_neg hcK] at hcq
      obtain ⟨l1, l2⟩ := r.parKids c q hcq
      refine ⟨(hM.live _).mpr l1, ?_⟩
      by_cases hq : q = p
      · subst hq
        rw [if_pos rfl]
        rw [hk] at l2
        rcases List.mem_append.mp l2 with h | h
        · exact List.mem_append_left _ (List.mem_append_left _ h)
        · exact List.mem_append_right _ h
      · rw [if_neg hq]
        by_cases hqi : q = i
        · subst hqi; rw [hK] at l2; exact absurd l2 hcK
        · rw [if_neg hqi]; exact l2
  · -- kidsNodup
    intro q
    simp only [Shape.splice, hK]
    by_cases hq : q = p
    · rw [if_pos hq]
      have h1 := List.nodup_append.mp hnd
      refine List.nodup_append.mpr ⟨List.nodup_append.mpr ⟨h1.1, hKnd, ?_⟩, h1.2.1, ?_⟩
      · intro y hy z hz e; subst e; exact hKp y hz (hLp y hy)
      · intro y hy z hz e; subst e
        rcases List.mem_append.mp hy with h | h
        · exact hLR y h hz
        · exact hKp y h (hRp y hz)
    · rw [if_neg hq]
      by_cases hqi : q = i
      · rw [if_pos hqi]; exact List.nodup_nil
      · rw [if_neg hqi]; exact r.kidsNodup q
  · -- acyclic
    intro c q hcq hreach
    simp only [Shape.splice, hK] at hcq hreach
    by_cases hcK : c ∈ K
    · simp only [if_pos hcK, Option.some.injEq] at hcq
      subst hcq
      have := Reach.splice_up hKpar hanc hreach
      exact hanc (this.trans (.single (hKpar c hcK)))
    · simp only [if_neg hcK] at hcq
      rcases Reach.splice hKpar hanc hreach with h | ⟨c', hc', h1, h2⟩
      · exact r.acyclic c q hcq h
      · exact hanc (h2.trans ((Reach.step hcq h1).trans (.single (hKpar c' hc'))))
  · -- ptrs
    intro j s' hs' h0'
    rw [hslot] at hs'
    by_cases h1 : p = j
    · -- the new parent
      subst h1
      rw [if_pos rfl, hsp'] at hs'
      simp only [Option.map_some, Option.some.injEq] at hs'
      subst hs'
      have hpar' : (g.splice i p L R).par p = g.par p := by simp [Shape.splice, hK, hpK]
      refine ⟨?_, ?_, ?_, ?_, ?_⟩
      · rw [hpar', hidAt]; exact Pp.parent
      · simp only [Shape.splice, hidAt, if_pos, hK]
        rw [Pp.first, hk]; exact newFirst_splice _ L K R c1 ck hhead
      · simp only [Shape.splice, hidAt, if_pos, hK]
        rw [Pp.last, hk]; exact newLast_splice _ L K R c1 ck hlast
      · intro hn; rw [hpar'] at hn; exact Pp.root hn
      · intro q hq
        rw [hpar'] at hq
        obtain ⟨L', R', e1, e2, e3⟩ := Pp.sib q hq
        have hqp : q ≠ p := r.par_ne hq
        have hqi : q ≠ i := fun e => hanc (e ▸ .single hq)
        exact ⟨L', R', by simp only [Shape.splice, if_neg hqp, if_neg hqi]; exact e1, by rw [hidAt]; exact e2, by rw [hidAt]; exact e3⟩
    · rw [if_neg h1] at hs'
      have hjp : j ≠ p := fun e => h1 e.symm
      by_cases h3 : j ∈ K
      · -- a moved child
        rw [if_pos h3] at hs'
        obtain ⟨sj, hsj, hsj0⟩ := hKlive j h3
        rw [hsj] at hs'
        simp only [Option.map_some, Option.some.injEq] at hs'
        subst hs'
        have Pj := r.ptrs j sj hsj hsj0
        have hji : j ≠ i := fun e => hiK (e ▸ h3)
        obtain ⟨K1, K2, e1, e2, e3⟩ := Pj.sib i (hKpar j h3)
        rw [hK] at e1
        have hKnd' : (K1 ++ j :: K2).Nodup := by rw [← e1]; exact hKnd
        refine ⟨?_, ?_, ?_, ?_, ?_⟩
        · simp [Shape.splice, hK, h3, hidAt]
        · simp only [Shape.splice, hidAt, if_neg hjp, if_neg hji]; exact Pj.first
        · simp only [Shape.splice, hidAt, if_neg hjp, if_neg hji]; exact Pj.last
        · intro hn; simp [Shape.splice, hK, h3] at hn
        · intro q hq
          simp only [Shape.splice, hK, if_pos h3, Option.some.injEq] at hq
          subst hq
          refine ⟨L ++ K1, K2 ++ R, by simp [Shape.splice, hK, e1], ?_, ?_⟩
          · simp only [hidAt]
            by_cases hK1 : K1 = []
            · subst hK1
              have : c1 = j := by rw [e1] at hhead; simpa using hhead.symm
              simp [this]
            · have : c1 ≠ j := by
                intro e; subst e
                rw [e1] at hhead
                cases K1 with
                | nil => exact hK1 rfl
                | cons y K1' =>
                  simp at hhead; subst hhead
                  have := (List.nodup_cons.mp hKnd').1
                  exact this (by simp)
              rw [if_neg this, e2]
              congr 1
              simp only [List.getLast?_append]
              cases hgl : K1.getLast? with
              | none => exact absurd (List.getLast?_eq_none_iff.mp hgl) hK1
              | some l => simp
          · simp only [hidAt]
            by_cases hK2 : K2 = []
            · subst hK2
              have : ck = j := by rw [e1] at hlast; simpa using hlast.symm
              simp [this]
            · have : ck ≠ j := by
                intro e; subst e
                rw [e1] at hlast
                have hm := getLast?_cons_ne_nil_mem hK2 hlast
                have := (List.nodup_append.mp hKnd').2.1
                exact (List.nodup_cons.mp this).1 hm
              rw [if_neg this, e3]
              congr 1
              cases K2 with
              | nil => exact absurd rfl hK2
              | cons y K2' => simp
      · rw [if_neg h3] at hs'
        by_cases h5 : i = j
        · -- the emptied node
          subst h5
          rw [if_pos rfl, hs] at hs'
          simp only [Option.map_some, Option.some.injEq] at hs'
          subst hs'
          refine ⟨?_, ?_, ?_, ?_, ?_⟩
          · simp only [Shape.splice, hK, if_neg hiK, hroot, Option.map_none]; rw [P.parent, hroot]; rfl
          · simp [Shape.splice, hpi.symm]
          · simp [Shape.splice, hpi.symm]
          · intro _; exact P.root hroot
          · intro q hq; simp only [Shape.splice, hK, if_neg hiK, hroot] at hq; cases hq
        · rw [if_neg h5] at hs'
          have hji : j ≠ i := fun e => h5 e.symm
          by_cases hjk : j ∈ g.kids p
          · -- a new sibling of the moved children
            obtain ⟨sj, hsj, hsj0⟩ := live_kids p j hjk
            have Pj := r.ptrs j sj hsj hsj0
            have hparj : g.par j = some p := (r.kidsLive p j hjk).2.2
            have hparj' : (g.splice i p L R).par j = some p := by simp [Shape.splice, hK, h3, hparj]
            obtain ⟨L1, R1, e1, e2, e3⟩ := Pj.sib p hparj
            have hjLR : j ∈ L ∨ j ∈ R := by rw [hk] at hjk; exact List.mem_append.mp hjk
            have hK' : ∃ y K', K = y :: K' := by
              cases K with
              | nil => simp at hhead
              | cons y K' => exact ⟨y, K', rfl⟩
            rcases hjLR with hjL | hjR
            · obtain ⟨A, B, hAB⟩ := List.append_of_mem hjL
              have hdec : g.kids p = A ++ j :: (B ++ R) := by rw [hk, hAB]; simp
              have hndj : (A ++ j :: (B ++ R)).Nodup := by rw [← hdec]; exact r.kidsNodup p
              obtain ⟨hA, hB⟩ := split_unique (by rw [← e1]; exact r.kidsNodup p) (e1.symm.trans hdec)
              subst hA hB
              have hnotR : R.head? ≠ some j := fun h => hLR j hjL (List.mem_of_mem_head? h)
              by_cases hB : B = []
              · subst hB
                have hl : L.getLast? = some j := by rw [hAB]; simp
                rw [if_pos hl, hsj] at hs'
                simp only [Option.map_some, Option.some.injEq] at hs'
                subst hs'
                refine ⟨?_, ?_, ?_, ?_, ?_⟩
                · rw [hparj', hidAt]; simp only; rw [Pj.parent, hparj]
                · simp only [Shape.splice, hidAt, if_neg hjp, if_neg hji]; exact Pj.first
                · simp only [Shape.splice, hidAt, if_neg hjp, if_neg hji]; exact Pj.last
                · intro hn; rw [hparj'] at hn; cases hn
                · intro q hq
                  rw [hparj'] at hq; cases hq
                  obtain ⟨y, K', hyK⟩ := hK'
                  have hy : y = c1 := by rw [hyK] at hhead; simpa using hhead
                  refine ⟨L1, K ++ R, by simp [Shape.splice, hK, hAB], by rw [hidAt]; exact e2, ?_⟩
                  rw [hidAt, hyK, hy]; simp
              · have hl : L.getLast? ≠ some j := by
                  intro h
                  rw [hAB] at h
                  have hjB := getLast?_cons_ne_nil_mem hB h
                  have := (List.nodup_append.mp hndj).2.1
                  exact (List.nodup_cons.mp this).1 (List.mem_append_left _ hjB)
                rw [if_neg hl, if_neg hnotR] at hs'
                rw [hsj] at hs'; cases hs'
                refine ⟨?_, ?_, ?_, ?_, ?_⟩
                · rw [hparj', hidAt, Pj.parent, hparj]
                · simp only [Shape.splice, hidAt, if_neg hjp, if_neg hji]; exact Pj.first
                · simp only [Shape.splice, hidAt, if_neg hjp, if_neg hji]; exact Pj.last
                · intro hn; rw [hparj'] at hn; cases hn
                · intro q hq
                  rw [hparj'] at hq; cases hq
                  refine ⟨L1, B ++ K ++ R, by simp [Shape.splice, hK, hAB], by rw [hidAt]; exact e2, ?_⟩
                  rw [hidAt, e3]
                  cases B with
                  | nil => exact absurd rfl hB
                  | cons b B' => simp
            · obtain ⟨A, B, hAB⟩ := List.append_of_mem hjR
              have hdec : g.kids p = (L ++ A) ++ j :: B := by rw [hk, hAB]; simp
              obtain ⟨hA, hB⟩ := split_unique (by rw [← e1]; exact r.kidsNodup p) (e1.symm.trans hdec)
              subst hA hB
              have hnotL : L.getLast? ≠ some j := fun h => hLR j (List.mem_of_getLast? h) hjR
              have hndR : R.Nodup := (List.nodup_append.mp hnd).2.1
              by_cases hA : A = []
              · subst hA
                have hh : R.head? = some j := by rw [hAB]; simp
                rw [if_neg hnotL, if_pos hh, hsj] at hs'
                simp only [Option.map_some, Option.some.injEq] at hs'
                subst hs'
                refine ⟨?_, ?_, ?_, ?_, ?_⟩
                · rw [hparj', hidAt]; simp only; rw [Pj.parent, hparj]
                · simp only [Shape.splice, hidAt, if_neg hjp, if_neg hji]; exact Pj.first
                · simp only [Shape.splice, hidAt, if_neg hjp, if_neg hji]; exact Pj.last
                · intro hn; rw [hparj'] at hn; cases hn
                · intro q hq
                  rw [hparj'] at hq; cases hq
                  refine ⟨L ++ K, R1, by simp [Shape.splice, hK, hAB], ?_, by rw [hidAt]; exact e3⟩
                  rw [hidAt]; simp [List.getLast?_append, hlast]
              · have hh : R.head? ≠ some j := by
                  intro h
                  rw [hAB] at h hndR
                  cases A with
                  | nil => exact hA rfl
                  | cons c A' =>
                    simp at h
                    subst h
                    have := (List.nodup_cons.mp hndR).1
                    exact this (by simp)
                rw [if_neg hnotL, if_neg hh] at hs'
                rw [hsj] at hs'; cases hs'
                refine ⟨?_, ?_, ?_, ?_, ?_⟩
                · rw [hparj', hidAt, Pj.parent, hparj]
                · simp only [Shape.splice, hidAt, if_neg hjp, if_neg hji]; exact Pj.first
                · simp only [Shape.splice, hidAt, if_neg hjp, if_neg hji]; exact Pj.last
                · intro hn; rw [hparj'] at hn; cases hn
                · intro q hq
                  rw [hparj'] at hq; cases hq
                  refine ⟨L ++ K ++ A, R1, by simp [Shape.splice, hK, hAB], ?_, by rw [hidAt]; exact e3⟩
                  rw [hidAt, e2]
                  congr 1
                  simp only [List.getLast?_append]
                  cases hgl : A.getLast? with
                  | none => exact absurd (List.getLast?_eq_none_iff.mp hgl) hA
                  | some l => simp
          · -- an unrelated slot
            have hl : L.getLast? ≠ some j := fun h => hjk (hLp j (List.mem_of_getLast? h))
            have hr : R.head? ≠ some j := fun h => hjk (hRp j (List.mem_of_mem_head? h))
            rw [if_neg hl, if_neg hr] at hs'
            have Pj := r.ptrs j s' hs' h0'
            refine Pj.transfer r hM.idAgree (by simp [Shape.splice, hK, h3]) (by simp [Shape.splice, hjp, hji]) ?_
            intro q hq
            have h1 : q ≠ p := by
              intro e; subst e; exact hjk (r.parKids j q hq).2
            have h2 : q ≠ i := by
              intro e; subst e
              have := (r.parKids j q hq).2
              rw [hK] at this; exact h3 this
            simp [Shape.splice, h1, h2]

end Arena
end XotModel
