/-
  FspecReplGapT3 — C05 for `replace`, the gap case with a text replacing node, part 2: the
  forest `Z = f.editAt (some q) G` (an edit of the child list of `q` that keeps `b`) seen from
  `b`, in the three geometries of `b` (parentless tree, child of another node, child of `q`);
  the assembly of evaluation and core (`gapT_assemble`); the geometry "parentless tree".
-/
import XotModel.Lemmas.FspecReplGapT2

namespace XotModel
open HTree Spec

/-! ### Small facts -/

/-- In a child list with distinct handles a child is determined by its handle. -/
theorem gapT_top_unique {l : List HTree} {s : HTree} {r : List HTree} (nd : (handlesList (l ++ s :: r)).Nodup)
    {k : HTree} (hk : k ∈ l ++ s :: r) (e : k.handle = s.handle) : k = s := by
  obtain ⟨tl, tr⟩ := tops_ne_of_nodup nd
  cases List.mem_append.1 hk with
  | inl h => exact absurd e (tl k h)
  | inr h =>
    cases List.mem_cons.1 h with
    | inl h' => exact h'
    | inr h' => exact absurd e (tr k h')

theorem gapT_kid_of_mem {Z : Forest} {p : Nat} {v : Value} {L : List HTree} (s : SiteAt Z p v L) {k : HTree}
    (hk : k ∈ L) : Z.get? k.handle = some k ∧ Z.parent? k.handle = some p := by
  obtain ⟨X, Y, e⟩ := List.append_of_mem hk
  have s' : SiteAt Z p v (X ++ k :: Y) := e ▸ s
  exact ⟨s'.getKid, Forest.parent?_of_ctx s'.ctx⟩

/-- An edit of child lists that maps `[]` to `[]` does not change a leaf. -/
theorem gapT_editAt_leaf {s : Nat} {g : List HTree → List HTree} (hg : g [] = []) {k : HTree}
    (hk : k.kids = []) : HTree.editAt s g k = k := by
  cases k with
  | node h v ks =>
    simp only [HTree.kids] at hk
    subst hk
    rw [editAt_node]
    split
    · rw [hg]
    · rfl

theorem gapT_prev_not_text {l : List HTree} {t : HTree} {r : List HTree}
    (hn : noAdjacentText (l ++ t :: r) = true) (ht : t.value.isText = true) :
    ∀ a, l.getLast? = some a → a.value.isText = false := by
  intro a ha
  have := (noAdj_append.1 hn).2.2 a t ha rfl
  cases hx : a.value.isText with
  | false => rfl
  | true => exact absurd ⟨hx, ht⟩ this

theorem gapT_next_not_text {l : List HTree} {t : HTree} {r : List HTree}
    (hn : noAdjacentText (l ++ t :: r) = true) (ht : t.value.isText = true) :
    ∀ a, r.head? = some a → a.value.isText = false := by
  intro a ha
  obtain ⟨r', er⟩ := List.head?_eq_some_iff.1 ha
  subst er
  have h1 := (noAdj_append.1 hn).2.1
  rw [noAdj_cons_cons, ht] at h1
  cases hx : a.value.isText with
  | false => rfl
  | true => rw [hx] at h1; cases h1

/-- Lookups through the two edits of `q`'s child list the model performs before `b` leaves. -/
theorem gapT_look {x a p : Nat} (v : Value) (L : List HTree) (hA : ∀ k ∈ L, k.handle = a → x ∉ handles k)
    (hxp : x ≠ p) :
    findList? x (dropTop a L) = findList? x L ∧
    findList? x ((replaceTop p (fun k => [k.setValue v]) ∘ dropTop a) L) = findList? x L := by
  have h1 := findList?_dropTop (x := x) (n := a) L hA
  refine ⟨h1, ?_⟩
  simp only [Function.comp]
  rw [findList?_setValTop v hxp, h1]

theorem gapT_sub (a p : Nat) (v : Value) (L : List HTree) :
    (handlesList (dropTop a L)).Sublist (handlesList L) ∧
    (handlesList ((replaceTop p (fun k => [k.setValue v]) ∘ dropTop a) L)).Sublist (handlesList L) := by
  refine ⟨handlesList_dropTop_sublist a L, ?_⟩
  simp only [Function.comp]
  rw [handlesList_setValTop]
  exact handlesList_dropTop_sublist a L

/-! ### `b` is a parentless tree -/

theorem gapT_root_Z {f : Forest} {q b : Nat} {vq : Value} {L : List HTree} {t : HTree}
    (sq : SiteAt f q vq L) (hgb : f.get? b = some t) (hroot : f.ctx? b = none) (hqt : q ∉ handles t)
    (G : List HTree → List HTree) (hsub : (handlesList (G L)).Sublist (handlesList L))
    (hlook : findList? b (G L) = findList? b L) (tleaf : t.kids = []) :
    (f.editAt (some q) G).get? b = some t ∧ (f.editAt (some q) G).ctx? b = none ∧
    (f.editAt (some q) G).spliceOut b = (f.editAt none (dropTop b)).editAt (some q) G := by
  have nd := sq.nd
  have sZ := sq.edit G hsub
  have hb : t.handle = b := (findList?_some f.roots t hgb).1
  have hbq : b ≠ q := fun e => hqt (e ▸ hb ▸ fs_handle_mem_handles t)
  have hZget : (f.editAt (some q) G).get? b = some t := by
    rw [Forest.get?_editAt_other hbq nd (by
      intro v' L' e
      rw [sq.kids] at e
      have e' := Option.some.inj e
      injection e' with _ _ e3
      subst e3
      exact hlook), hgb]
    simp only [Option.map_some]
    rw [editAt_of_not_mem t hqt]
  have hZroot : (f.editAt (some q) G).ctx? b = none := by
    apply Forest.ctx_none_of_root sZ.nd
    have hr : f.isRoot b = true := by
      rcases Forest.root_or_ctx hgb with h | ⟨cx, h⟩
      · exact h
      · rw [hroot] at h; cases h
    unfold Forest.isRoot at hr ⊢
    rw [Forest.editAt_some_roots, List.any_map]
    simpa [Function.comp, editAt_handle] using hr
  refine ⟨hZget, hZroot, ?_⟩
  rw [Forest.spliceOut_leaf sZ.nd hZget tleaf, Forest.parent?_of_no_ctx hZroot, Forest.editAt_none_comm]

/-! ### `b` is a child of another node -/

theorem gapT_far_Z {f : Forest} {q po : Nat} {vq vo : Value} {L l r : List HTree} {t : HTree}
    (sq : SiteAt f q vq L) (so : SiteAt f po vo (l ++ t :: r)) (hne : po ≠ q) (hqt : q ∉ handles t)
    (G : List HTree → List HTree) (hsub : (handlesList (G L)).Sublist (handlesList L))
    (hlook : findList? po (G L) = findList? po L) (tleaf : t.kids = [])
    (hnat : NatFor (HTree.editAt po (dropTop t.handle)) G)
    (hno : noAdjacentText (l ++ t :: r) = true) (htx : t.value.isText = true) :
    (f.editAt (some q) G).get? t.handle = some t ∧
    (f.editAt (some q) G).removeConsolidate ((f.editAt (some q) G).prevSibling t.handle)
      ((f.editAt (some q) G).nextSibling t.handle) = (f.editAt (some q) G, false) ∧
    (f.editAt (some q) G).spliceOut t.handle = (f.editAt (some po) (dropTop t.handle)).editAt (some q) G := by
  have sZ : SiteAt (f.editAt (some q) G) po vo (l.map (HTree.editAt q G) ++ t :: r.map (HTree.editAt q G)) := by
    have := sq.other so.kids hne G hsub hlook
    rw [List.map_append, List.map_cons, editAt_of_not_mem t hqt] at this
    exact this
  refine ⟨sZ.getKid, ?_, ?_⟩
  · apply gapT_rc_noop_left sZ
    intro a' ha'
    rw [List.getLast?_map] at ha'
    cases hl : l.getLast? with
    | none => rw [hl] at ha'; cases ha'
    | some a0 =>
      rw [hl] at ha'
      simp only [Option.map_some, Option.some.injEq] at ha'
      subst ha'
      rw [editAt_value]
      exact gapT_prev_not_text hno htx a0 hl
  · rw [Forest.spliceOut_leaf sZ.nd sZ.getKid tleaf, Forest.parent?_of_ctx sZ.ctx]
    exact Forest.editAt_comm f hne (natFor_dropTop (kidMap_editAt _ _) _) hnat

/-! ### `b` is another child of `q` -/

theorem gapT_same_Z {f : Forest} {q : Nat} {vq : Value} {L : List HTree} {t : HTree}
    (sq : SiteAt f q vq L) (G : List HTree → List HTree) (hsub : (handlesList (G L)).Sublist (handlesList L))
    (hmem : t ∈ G L) (tleaf : t.kids = []) :
    (f.editAt (some q) G).get? t.handle = some t ∧
    (f.editAt (some q) G).spliceOut t.handle = f.editAt (some q) (dropTop t.handle ∘ G) := by
  have sZ := sq.edit G hsub
  obtain ⟨h1, h2⟩ := gapT_kid_of_mem sZ hmem
  refine ⟨h1, ?_⟩
  rw [Forest.spliceOut_leaf sZ.nd h1 tleaf, h2, Forest.editAt_editAt]

/-! ### Assembling the evaluation and the core -/

theorem gapT_assemble {f fc : Forest} {a b q : Nat} {vq : Value} {l0 r0 l0' r0' : List HTree}
    {P A N P' A' N' t : HTree} {ps bs ns : Str} (hc : f.consolidation = true)
    (sq : SiteAt f q vq (l0 ++ P :: A :: N :: r0)) (hA : A.handle = a)
    (hvq : vq.isElement = true ∨ vq.isDocument = true)
    (hP : P.value = .text ps) (hN : N.value = .text ns) (hbt : t.value = .text bs)
    (hbP : b ≠ P.handle) (hbN : b ≠ N.handle) (hqt : q ∉ handles t)
    (hg1 : (f.editAt (some q) (dropTop a)).get? b = some t)
    (hrc : (f.editAt (some q) (dropTop a)).removeConsolidate ((f.editAt (some q) (dropTop a)).prevSibling b)
      ((f.editAt (some q) (dropTop a)).nextSibling b) = (f.editAt (some q) (dropTop a), false))
    (hcut : (f.editAt (some q)
        (replaceTop P.handle (fun k => [k.setValue (.text (ps ++ bs))]) ∘ dropTop a)).spliceOut b =
      fc.editAt (some q) (replaceTop P.handle (fun k => [k.setValue (.text (ps ++ bs))]) ∘ dropTop a))
    (hcc : fc.consolidation = true)
    (sc : SiteAt fc q vq (l0' ++ P' :: A' :: N' :: r0')) (hP'h : P'.handle = P.handle) (hA' : A'.handle = a)
    (hP' : P'.value = .text ps) (hN' : N'.value = .text ns) (hN'leaf : N'.kids = [])
    (hl : noAdjacentText (l0' ++ [P']) = true) (hr : noAdjacentText (N' :: r0') = true)
    (hspec : specReplace (Keep.resident b) a b f =
      (fc.editAt (some q) (replaceTop a (fun _ => [t]))).editAt (some q) (mergeRuns (Keep.resident b))) :
    ∃ f2, (f.editAt (some q) (dropTop a)).insertAfter P.handle b = (f2, .ok) ∧
      (f2.removeConsolidate (some P.handle) (f2.nextSibling P.handle)).1
        = specReplace (Keep.resident b) a b f := by
  obtain ⟨ndL, _⟩ := sq.nodupKids
  obtain ⟨e1, _⟩ := gapT_list_model (.text (ps ++ bs)) ndL hA
  have s1 : SiteAt (f.editAt (some q) (dropTop a)) q vq (l0 ++ P :: N :: r0) := by
    have := sq.edit (dropTop a) (handlesList_dropTop_sublist _ _)
    rw [e1] at this
    exact this
  have hc1 : (f.editAt (some q) (dropTop a)).consolidation = true := by
    rw [Forest.editAt_consolidation]; exact hc
  have heval := gapT_insertAfter_eval hc1 s1 hvq hP hN hg1 hqt hbt hbP hbN hrc
  have hset : (f.editAt (some q) (dropTop a)).setValue P.handle (.text (ps ++ bs)) =
      (f.editAt (some q) (dropTop a)).editAt (some q)
        (replaceTop P.handle (fun k => [k.setValue (.text (ps ++ bs))])) :=
    Forest.setValue_of_ctx _ s1.nd s1.ctx
  refine ⟨_, heval, ?_⟩
  rw [hset, Forest.editAt_editAt, hcut]
  have := gapT_core (f := f) (t := t)
    (f2 := fc.editAt (some q) (replaceTop P'.handle (fun k => [k.setValue (.text (ps ++ bs))]) ∘ dropTop a))
    hcc sc hA' hP' hN' hbt (by rw [hP'h]; exact Ne.symm hbP) hN'leaf hl hr rfl hspec
  rw [hP'h] at this
  exact this

/-- What the hypotheses of the gap case give at the child list of `q`. -/
theorem gapT_prep {f : Forest} {a b q : Nat} {vq : Value} {l0 : List HTree} {P A N : HTree}
    {r0 : List HTree} {t : HTree} {ps ns bs : Str}
    (inv : f.Inv) (norm : f.Normal) (hc : f.consolidation = true)
    (ra : ReplArgs f a b q vq (l0 ++ [P]) A (N :: r0) t)
    (hP : P.value = .text ps) (hN : N.value = .text ns) (hbt : t.value = .text bs) :
    SiteAt f q vq (l0 ++ P :: A :: N :: r0) ∧ noAdjacentText (l0 ++ P :: A :: N :: r0) = true ∧
    noAdjacentText (l0 ++ [P]) = true ∧ noAdjacentText (N :: r0) = true ∧
    P.kids = [] ∧ N.kids = [] ∧ t.kids = [] := by
  have eL : (l0 ++ [P]) ++ A :: (N :: r0) = l0 ++ P :: A :: N :: r0 := by simp
  have sq : SiteAt f q vq (l0 ++ P :: A :: N :: r0) := eL ▸ ra.sq
  have hLn : noAdjacentText ((l0 ++ [P]) ++ A :: (N :: r0)) = true :=
    (validTree_node (ra.sq.valid (norm hc))).2.2.1 rfl
  obtain ⟨hl, hr, _⟩ := noAdj_append.1 hLn
  refine ⟨sq, eL ▸ hLn, hl, noAdj_tail hr, ?_, ?_, ?_⟩
  · exact sq.leaf inv.valid P (by simp) (by rw [hP]; rfl)
  · exact sq.leaf inv.valid N (by simp) (by rw [hN]; rfl)
  · exact leaf_of_text inv.valid ra.hgb (by rw [hbt]; rfl)

/-- The children of `q` with handle `a`. -/
theorem gapT_only_A {l0 r0 : List HTree} {P A N : HTree} {a : Nat}
    (nd : (handlesList (l0 ++ P :: A :: N :: r0)).Nodup) (hA : A.handle = a) :
    ∀ k ∈ l0 ++ P :: A :: N :: r0, k.handle = a → k = A := by
  intro k hk e
  have e' : (l0 ++ [P]) ++ A :: (N :: r0) = l0 ++ P :: A :: N :: r0 := by simp
  exact gapT_top_unique (l := l0 ++ [P]) (r := N :: r0) (e' ▸ nd) (e' ▸ hk) (e.trans hA.symm)

/-! ### Geometry 1: `b` is a parentless tree -/

theorem replace_gap_text_root {f : Forest} {a b q : Nat} {vq : Value} {l0 : List HTree} {P A N : HTree}
    {r0 : List HTree} {t : HTree} {ps ns bs : Str}
    (inv : f.Inv) (norm : f.Normal) (hc : f.consolidation = true)
    (ra : ReplArgs f a b q vq (l0 ++ [P]) A (N :: r0) t)
    (hP : P.value = .text ps) (hN : N.value = .text ns)
    (hbP : b ≠ P.handle) (hbN : b ≠ N.handle) (hbt : t.value = .text bs)
    (hroot : f.ctx? b = none) :
    ∃ f2, (f.editAt (some q) (dropTop a)).insertAfter P.handle b = (f2, .ok) ∧
      (f2.removeConsolidate (some P.handle) (f2.nextSibling P.handle)).1
        = specReplace (Keep.resident b) a b f := by
  obtain ⟨sq, _, hl, hr, _, hNl, tl⟩ := gapT_prep inv norm hc ra hP hN hbt
  obtain ⟨ndL, _⟩ := sq.nodupKids
  have hAk : ∀ k ∈ l0 ++ P :: A :: N :: r0, k.handle = a → b ∉ handles k := by
    intro k hk e
    rw [gapT_only_A ndL ra.ha k hk e]
    exact ra.hbA
  obtain ⟨lk1, lk2⟩ := gapT_look (.text (ps ++ bs)) _ hAk hbP
  obtain ⟨sb1, sb2⟩ := gapT_sub a P.handle (.text (ps ++ bs)) (l0 ++ P :: A :: N :: r0)
  obtain ⟨g1, c1, _⟩ := gapT_root_Z sq ra.hgb hroot ra.hqt (dropTop a) sb1 lk1 tl
  obtain ⟨_, _, cut2⟩ := gapT_root_Z sq ra.hgb hroot ra.hqt _ sb2 lk2 tl
  have hrc : (f.editAt (some q) (dropTop a)).removeConsolidate ((f.editAt (some q) (dropTop a)).prevSibling b)
      ((f.editAt (some q) (dropTop a)).nextSibling b) = (f.editAt (some q) (dropTop a), false) := by
    rw [Forest.prevSibling_of_no_ctx c1]
    exact Forest.removeConsolidate_none_left _ _
  have hcc : (f.editAt none (dropTop b)).consolidation = true := by
    rw [Forest.editAt_consolidation]; exact hc
  have hspec : specReplace (Keep.resident b) a b f =
      ((f.editAt none (dropTop b)).editAt (some q) (replaceTop a (fun _ => [t]))).editAt (some q)
        (mergeRuns (Keep.resident b)) := by
    unfold specReplace
    rw [ra.hgb, Forest.parent?_of_ctx ra.ctx_a, Forest.parent?_of_no_ctx hroot]
    simp only [mergeAt_none]
    rw [mergeAt_on (by rw [Forest.editAt_consolidation]; exact hcc)]
  exact gapT_assemble hc sq ra.ha ra.hvq hP hN hbt hbP hbN ra.hqt g1 hrc cut2 hcc
    (sq.dropRoot ra.hgb ra.hqt) rfl ra.ha hP hN hNl hl hr hspec

end XotModel
