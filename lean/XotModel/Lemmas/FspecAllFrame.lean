/-
  FspecAllFrame — the frame of the PAIR reading (`specRemoveP`, `specMoveP`), for EVERY forest with
  `Forest.Inv` (no `Forest.Normal`): a node whose parent is neither the parent the moved subtree
  leaves nor the one it arrives at, and that does not lie in the moved subtree, keeps its parent,
  its value and the handles of its left and right siblings.  With the pair theorems this gives the
  frame theorems of `remove`, `append`, `prepend`, `insert_after`, `insert_before` without
  `Forest.Normal`.
-/
import XotModel.Lemmas.FspecAllRepl2
import XotModel.Lemmas.FspecAllRepl5
import XotModel.Lemmas.FspecPairAppend4
import XotModel.Lemmas.FspecPairBefore4

namespace XotModel
open HTree Spec

namespace PairAll

/-! ### The optional merges (consolidation on / off) as list functions -/

/-- The pair merge at the place a node has left, or nothing. -/
def pairOpt (c : Bool) (nb : Option Nat × Option Nat) : List HTree → List HTree :=
  if c then adjOpt nb else id

/-- The merge of the node `n` at its new place, or nothing. -/
def newOpt (c : Bool) (n : Nat) : List HTree → List HTree :=
  if c then mergeNew n else id

theorem mergeLeftAt_eq_pairOpt (g : Forest) (p : Nat) (nb : Option Nat × Option Nat) :
    g.mergeLeftAt (some p) nb = g.editAt (some p) (pairOpt g.consolidation nb) := by
  unfold pairOpt
  cases hc : g.consolidation with
  | false => rw [Forest.mergeLeftAt_off hc]; exact (Forest.editAt_id g (some p)).symm
  | true => exact mergeLeftAt_eq_adjOpt hc p nb

theorem mergeNewAt_eq_newOpt (g : Forest) (q n : Nat) :
    g.mergeNewAt q n = g.editAt (some q) (newOpt g.consolidation n) := by
  unfold newOpt
  cases hc : g.consolidation with
  | false => rw [Forest.mergeNewAt_off hc]; exact (Forest.editAt_id g (some q)).symm
  | true => exact Forest.mergeNewAt_on hc q n

theorem pairOpt_sublist (c : Bool) (nb : Option Nat × Option Nat) (L : List HTree) :
    (handlesList (pairOpt c nb L)).Sublist (handlesList L) := by
  unfold pairOpt
  split
  · exact handlesList_adjOpt_sublist nb L
  · exact List.Sublist.refl _

theorem newOpt_sublist (c : Bool) (n : Nat) (L : List HTree) :
    (handlesList (newOpt c n L)).Sublist (handlesList L) := by
  unfold newOpt
  split
  · exact handlesList_mergeNew_sublist n L
  · exact List.Sublist.refl _

/-- Text children are leaves other than `z`. -/
def LeafZ (z : Nat) (L : List HTree) : Prop := ∀ k ∈ L, k.value.isText = true → k.kids = [] ∧ k.handle ≠ z

theorem leafZ_mergeAdj {z a b : Nat} : ∀ (M : List HTree), LeafZ z M → LeafZ z (mergeAdj a b M)
  | [], _ => by rw [mergeAdj_nil]; intro k hk; cases hk
  | [x], h => by rw [mergeAdj_single]; exact h
  | x :: y :: rest, h => by
    rw [mergeAdj_cons_cons]
    split
    · by_cases hb : x.value.isText = true ∧ y.value.isText = true
      · obtain ⟨s, hs⟩ := text_of_isText hb.1
        obtain ⟨u, hu⟩ := text_of_isText hb.2
        rw [joinLeft_text hs hu]
        simp only [Option.map_some, Option.getD_some]
        intro k hk hkt
        cases List.mem_cons.1 hk with
        | inl e => rw [e, setValue_kids, setValue_handle]; exact h x (by simp) hb.1
        | inr e => exact h k (by simp [e]) hkt
      · rw [joinLeft_none hb]; exact h
    · intro k hk hkt
      cases List.mem_cons.1 hk with
      | inl e => exact h k (by simp [e]) hkt
      | inr e => exact leafZ_mergeAdj (y :: rest) (fun k' hk' => h k' (List.mem_cons_of_mem _ hk')) k e hkt

theorem leafZ_pairOpt {z : Nat} (c : Bool) (nb : Option Nat × Option Nat) {M : List HTree} (h : LeafZ z M) :
    LeafZ z (pairOpt c nb M) := by
  unfold pairOpt
  split
  · obtain ⟨oa, ob⟩ := nb
    cases oa with
    | none => exact h
    | some a =>
      cases ob with
      | none => exact h
      | some b => exact leafZ_mergeAdj M h
  · exact h

theorem findList?_pairOpt {z : Nat} (c : Bool) (nb : Option Nat × Option Nat) {L : List HTree} (h : LeafZ z L) :
    findList? z (pairOpt c nb L) = findList? z L := by
  unfold pairOpt
  split
  · exact findList?_adjOpt nb h
  · rfl

theorem findList?_mergeNewHead {z : Nat} {t : HTree} {B : List HTree} (h : LeafZ z (t :: B)) :
    findList? z (mergeNewHead t B) = findList? z (t :: B) := by
  cases B with
  | nil => rfl
  | cons y rest =>
    by_cases hb : t.value.isText = true ∧ y.value.isText = true
    · obtain ⟨u, hu⟩ := text_of_isText hb.1
      obtain ⟨w, hw⟩ := text_of_isText hb.2
      obtain ⟨ht1, ht2⟩ := h t (by simp) hb.1
      obtain ⟨hy1, hy2⟩ := h y (by simp) hb.2
      rw [mergeNewHead_text hu hw, findList?_cons, findList?_cons, findList?_cons, find?_setValue _ hy2,
        find?_leaf ht1 ht2]
      rfl
    · rw [mergeNewHead_other hb]

theorem findList?_mergeNew {z n : Nat} : ∀ (L : List HTree), LeafZ z L → findList? z (mergeNew n L) = findList? z L
  | [], _ => by rw [mergeNew_nil]
  | [x], _ => by rw [mergeNew_single]
  | x :: y :: rest, h => by
    rw [mergeNew_cons_cons]
    split
    · by_cases hb : x.value.isText = true ∧ y.value.isText = true
      · obtain ⟨s, hs⟩ := text_of_isText hb.1
        obtain ⟨u, hu⟩ := text_of_isText hb.2
        obtain ⟨hx1, hx2⟩ := h x (by simp) hb.1
        obtain ⟨hy1, hy2⟩ := h y (by simp) hb.2
        rw [joinLeft_text hs hu]
        simp only [Option.map_some, Option.getD_some]
        rw [findList?_cons, findList?_cons, findList?_cons, find?_setValue _ hx2, find?_leaf hx1 hx2,
          find?_leaf hy1 hy2]
        rfl
      · rw [joinLeft_none hb]
        simp only [Option.map_none, Option.getD_none]
        rw [findList?_cons, findList?_cons (k := x),
          findList?_mergeNewHead (fun k hk => h k (List.mem_cons_of_mem _ hk))]
    · split
      · exact findList?_mergeNewHead h
      · rw [findList?_cons, findList?_cons (k := x),
          findList?_mergeNew (y :: rest) (fun k hk => h k (List.mem_cons_of_mem _ hk))]

theorem findList?_newOpt {z : Nat} (c : Bool) (n : Nat) {L : List HTree} (h : LeafZ z L) :
    findList? z (newOpt c n L) = findList? z L := by
  unfold newOpt
  split
  · exact findList?_mergeNew L h
  · rfl

theorem leafZ_insert {z : Nat} {dest : Dest} {t : HTree} {L : List HTree} (h : LeafZ z L)
    (ht : t.value.isText = true → t.kids = [] ∧ t.handle ≠ z) : LeafZ z (dest.insert t L) := by
  intro k hk hkt
  cases mem_insert hk with
  | inl e => rw [e] at hkt ⊢; exact ht hkt
  | inr e => exact h k e hkt

/-- The text children of a site of a valid forest, seen from a node `x` with parent `z`. -/
theorem leafZ_of_site {f : Forest} {p : Nat} {v : Value} {L : List HTree} (s : SiteAt f p v L) {b : Bool}
    (hv : validList b f.roots = true) {x : Nat} {cx : Ctx} (hx : f.ctx? x = some cx) : LeafZ cx.parent L := by
  intro k hk hkt
  have hkl := s.leaf hv k hk hkt
  obtain ⟨A, B, hAB⟩ := List.append_of_mem hk
  have s' : SiteAt f p v (A ++ k :: B) := hAB ▸ s
  exact ⟨hkl, not_text_leaf_of_parent s.nd hx s'.getKid hkl⟩

end PairAll

open PairAll

/-! ### remove -/

theorem specRemoveP_root {f : Forest} {n : Nat} (h : f.parent? n = none) :
    specRemoveP n f = f.editAt none (dropTop n) := by
  unfold specRemoveP; rw [h]; rfl

theorem specRemoveP_kid {f : Forest} {n p : Nat} (h : f.parent? n = some p) :
    specRemoveP n f = f.editAt (some p) (pairOpt f.consolidation (f.nbOf n) ∘ dropTop n) := by
  unfold specRemoveP
  rw [h]
  simp only
  rw [mergeLeftAt_eq_pairOpt, Forest.editAt_consolidation, Forest.editAt_editAt]

theorem count_specRemoveP {f : Forest} {n : Nat} {t : HTree} (nd : f.allHandles.Nodup)
    (hg : f.get? n = some t) (z : Nat) :
    (specRemoveP n f).allHandles.count z + (handles t).count z ≤ f.allHandles.count z := by
  rcases Forest.root_or_ctx hg with hroot | ⟨c, hctx⟩
  · rw [specRemoveP_root (Forest.parent?_of_no_ctx (Forest.ctx_none_of_root nd hroot))]
    exact Nat.le_of_eq (count_dropTop_root nd hg hroot z)
  · obtain ⟨e0, v, so⟩ := SiteAt.of_ctx nd hctx
    have hself : c.self = t := by
      have := Forest.get?_of_ctx nd hctx
      rw [hg] at this
      exact (Option.some.inj this).symm
    obtain ⟨p, l, k, r⟩ := c
    simp only at e0 so hself
    subst hself
    subst e0
    have hpar : f.parent? k.handle = some p := Forest.parent?_of_ctx hctx
    rw [specRemoveP_kid hpar]
    obtain ⟨ndL, _⟩ := so.nodupKids
    obtain ⟨tl, tr⟩ := tops_ne_of_nodup ndL
    have h1 := so.count (pairOpt f.consolidation (f.nbOf k.handle) ∘ dropTop k.handle) z
    simp only [Function.comp] at h1
    rw [dropTop_mid rfl tl tr] at h1
    have h2 := (pairOpt_sublist f.consolidation (f.nbOf k.handle) (l ++ r)).count_le z
    have h3 := count_handles_mid z l k r
    omega

/-- Frame of `specRemoveP` (and of the first half of a move). -/
theorem frame_specRemoveP {f : Forest} {n : Nat} {t : HTree} (inv : f.Inv)
    (hg : f.get? n = some t) {x : Nat} {cx : Ctx} (hx : f.ctx? x = some cx)
    (h1 : some cx.parent ≠ f.parent? n) (h3 : cx.parent ∉ handles t) (h4 : x ∉ handles t) :
    ∃ cx', (specRemoveP n f).ctx? x = some cx' ∧ cx'.shape = cx.shape := by
  have nd := inv.nodup
  rcases Forest.root_or_ctx hg with hroot | ⟨c, hctx⟩
  · rw [specRemoveP_root (Forest.parent?_of_no_ctx (Forest.ctx_none_of_root nd hroot))]
    refine ⟨cx, ?_, rfl⟩
    show (dropTop n f.roots).findSome? (ctxBelow x) = some cx
    rw [ctx_dropRoot f.roots (by
      intro k hk hkn
      rw [root_is nd hg k hk hkn]; exact h4)]
    exact hx
  · obtain ⟨e0, v, so⟩ := SiteAt.of_ctx nd hctx
    have hself : c.self = t := by
      have := Forest.get?_of_ctx nd hctx
      rw [hg] at this
      exact (Option.some.inj this).symm
    obtain ⟨p, l, k, r⟩ := c
    simp only at e0 so hself
    subst hself
    subst e0
    have hpar : f.parent? k.handle = some p := Forest.parent?_of_ctx hctx
    rw [hpar] at h1
    have hne : cx.parent ≠ p := fun e => h1 (by rw [e])
    rw [specRemoveP_kid hpar]
    obtain ⟨ndL, _⟩ := so.nodupKids
    obtain ⟨tl, tr⟩ := tops_ne_of_nodup ndL
    have hLZ := leafZ_of_site so inv.valid hx
    apply so.frame _ _ hx hne
    · simp only [Function.comp]
      rw [findList?_pairOpt, findList?_dropTop]
      · intro k' hk' hkc
        have : k' = k := PairAfter.eq_of_handle ndL hk' (by simp) hkc
        rw [this]; exact h3
      · intro k' hk' hkt
        exact hLZ k' (mem_of_mem_dropTop hk') hkt
    · apply Forest.nodup_editAt nd
      intro L
      exact (pairOpt_sublist _ _ _).trans (handlesList_dropTop_sublist _ _)

/-! ### moves -/

/-- The second half of a move's frame: `t` is put into the child list of `q` in `Y` and merged
    with a neighbour. -/
theorem frame_insert_stepP {Y : Forest} {dest : Dest} {t : HTree} {q : Nat} {vq : Value} (c : Nat)
    {LY : List HTree} (sY : SiteAt Y q vq LY)
    (hcount : ∀ z, Y.allHandles.count z + (handles t).count z ≤ 1)
    {x : Nat} {cx : Ctx} (hx : Y.ctx? x = some cx) (hne : cx.parent ≠ q)
    (hleaf : LeafZ cx.parent LY)
    (hleaft : t.value.isText = true → t.kids = [] ∧ t.handle ≠ cx.parent)
    (hpt : cx.parent ∉ handles t) :
    ∃ cx', ((Y.editAt (some q) (dest.insert t)).mergeNewAt q c).ctx? x = some cx' ∧ cx'.shape = cx.shape := by
  rw [mergeNewAt_eq_newOpt, Forest.editAt_consolidation, Forest.editAt_editAt]
  apply sY.frame _ _ hx hne
  · simp only [Function.comp]
    rw [findList?_newOpt _ _ (leafZ_insert hleaf hleaft), findList?_insert hpt]
  · apply sY.nodup_of_count
    intro z
    simp only [Function.comp]
    have h1 := (newOpt_sublist Y.consolidation c (dest.insert t LY)).count_le z
    have h2 := count_insert_le z dest t LY
    have h3 := hcount z
    omega

/-- **Frame of a move, pair reading**: for every forest with the invariant. -/
theorem frame_specMoveP {f : Forest} {dest : Dest} {c : Nat} {t : HTree} {q : Nat} {vq : Value}
    {Lq : List HTree} (inv : f.Inv) (hgc : f.get? c = some t) (sq : SiteAt f q vq Lq) (hqt : q ∉ handles t)
    (hvq : vq.isText = false) (hsite : dest.site f = some q)
    {x : Nat} {cx : Ctx} (hx : f.ctx? x = some cx)
    (h1 : cx.parent ≠ q) (h2 : some cx.parent ≠ f.parent? c) (h3 : cx.parent ∉ handles t) (h4 : x ∉ handles t) :
    ∃ cx', (specMoveP dest c f).ctx? x = some cx' ∧ cx'.shape = cx.shape := by
  have nd := inv.nodup
  cases hocc : dest.occupiedBy f c with
  | true =>
    refine ⟨cx, ?_, rfl⟩
    unfold specMoveP; rw [hocc]; exact hx
  | false =>
  rw [specMoveP_unfold hocc hgc hsite]
  have htc : t.handle = c := (findList?_some f.roots t hgc).1
  have hleaft : t.value.isText = true → t.kids = [] ∧ t.handle ≠ cx.parent := by
    intro ht
    exact ⟨leaf_of_text inv.valid hgc ht, fun e => h3 (e ▸ fs_handle_mem_handles t)⟩
  have hleafq : LeafZ cx.parent Lq := leafZ_of_site sq inv.valid hx
  cases hpar : f.parent? c with
  | none =>
    -- the moved node is a parentless tree
    have hno : f.ctx? c = none := by
      cases h : f.ctx? c with
      | none => rfl
      | some cc => rw [Forest.parent?_of_ctx h] at hpar; cases hpar
    obtain ⟨cx1, hx1, hs1⟩ := frame_specRemoveP inv hgc hx (by rw [hpar]; simp) h3 h4
    rw [Forest.nbOf_root hpar, Forest.mergeLeftAt_none, ← specRemoveP_root hpar]
    have sY : SiteAt (specRemoveP c f) q vq Lq := by
      rw [specRemoveP_root hpar]; exact sq.dropRoot hgc hqt
    have hp1 : cx1.parent = cx.parent := congrArg Prod.fst hs1
    obtain ⟨cx', h', hs'⟩ := frame_insert_stepP (dest := dest) (t := t) c sY
      (fun z => by
        have := count_specRemoveP nd hgc z
        have := (List.nodup_iff_count.1 nd) z
        omega) hx1 (by rw [hp1]; exact h1) (by rw [hp1]; exact hleafq) (by rw [hp1]; exact hleaft)
      (by rw [hp1]; exact h3)
    exact ⟨cx', h', hs'.trans hs1⟩
  | some po =>
    rw [hpar] at h2
    have hne_po : cx.parent ≠ po := fun e => h2 (by rw [e])
    cases hctx : f.ctx? c with
    | none => rw [Forest.parent?_of_no_ctx hctx] at hpar; cases hpar
    | some cc =>
      obtain ⟨e0, vo, so⟩ := SiteAt.of_ctx nd hctx
      have hself : cc.self = t := by
        have := Forest.get?_of_ctx nd hctx
        rw [hgc] at this
        exact (Option.some.inj this).symm
      obtain ⟨po', l, k, r⟩ := cc
      simp only at e0 so hself
      subst hself
      subst e0
      have hpo' : po' = po := by
        rw [Forest.parent?_of_ctx hctx] at hpar
        exact Option.some.inj hpar
      subst hpo'
      obtain ⟨ndL, hpoL⟩ := so.nodupKids
      obtain ⟨tl, tr⟩ := tops_ne_of_nodup ndL
      have hdrop : dropTop k.handle (l ++ k :: r) = l ++ r := dropTop_mid rfl tl tr
      have hLZo := leafZ_of_site so inv.valid hx
      rw [mergeLeftAt_eq_pairOpt]
      simp only [Forest.editAt_consolidation]
      by_cases hpq : po' = q
      · -- same child list: one edit
        subst hpq
        rw [mergeNewAt_eq_newOpt]
        simp only [Forest.editAt_consolidation]
        rw [Forest.editAt_editAt, Forest.editAt_editAt, Forest.editAt_editAt]
        apply so.frame _ _ hx h1
        · simp only [Function.comp]
          rw [hdrop]
          have hLZ1 : LeafZ cx.parent (dest.insert k (l ++ r)) := by
            apply leafZ_insert _ hleaft
            intro k' hk'
            apply hLZo k'
            cases List.mem_append.1 hk' with
            | inl h => exact List.mem_append_left _ h
            | inr h => exact List.mem_append_right _ (List.mem_cons_of_mem _ h)
          rw [findList?_newOpt _ _ (leafZ_pairOpt _ _ hLZ1), findList?_pairOpt _ _ hLZ1, findList?_insert h3,
            ← hdrop, findList?_dropTop]
          intro k' hk' hkc
          have : k' = k := PairAfter.eq_of_handle ndL hk' (by simp) hkc
          rw [this]; exact h3
        · apply so.nodup_of_count
          intro z
          simp only [Function.comp]
          rw [hdrop]
          have c1 := (newOpt_sublist f.consolidation k.handle
            (pairOpt f.consolidation (f.nbOf k.handle) (dest.insert k (l ++ r)))).count_le z
          have c2 := (pairOpt_sublist f.consolidation (f.nbOf k.handle) (dest.insert k (l ++ r))).count_le z
          have c3 := count_insert_le z dest k (l ++ r)
          have c4 := count_handles_mid z l k r
          have c5 := (List.nodup_iff_count.1 nd) z
          omega
      · -- another child list: the old-place merge moved in front of the graft
        have hpot : po' ∉ handles k := by
          intro hin
          apply hpoL
          rw [fs_handlesList_append, handlesList_cons]
          exact List.mem_append_right _ (List.mem_append_left _ hin)
        have hnatI : ∀ g, NatFor (HTree.editAt po' g) (dest.insert k) :=
          fun g => natFor_insert (kidMap_editAt _ _) (editAt_of_not_mem k hpot) dest
        have hnatP : NatFor (HTree.editAt q (dest.insert k)) (pairOpt f.consolidation (f.nbOf k.handle)) := by
          unfold pairOpt
          split
          · exact natFor_adjOpt (kidMap_editAt _ _) _
          · exact natFor_id _
        rw [Forest.editAt_comm _ hpq hnatP (hnatI _), Forest.editAt_editAt, ← specRemoveP_kid hpar]
        obtain ⟨cx1, hx1, hs1⟩ := frame_specRemoveP inv hgc hx (by rw [hpar]; exact h2) h3 h4
        have hp1 : cx1.parent = cx.parent := congrArg Prod.fst hs1
        -- the destination child list after the edit at the old place
        have hsub : (handlesList ((pairOpt f.consolidation (f.nbOf k.handle) ∘ dropTop k.handle) (l ++ k :: r))).Sublist
            (handlesList (l ++ k :: r)) := by
          simp only [Function.comp]
          exact (pairOpt_sublist _ _ _).trans (handlesList_dropTop_sublist _ _)
        have hLZq : LeafZ q (l ++ k :: r) := by
          intro k' hk' hkt
          exact ⟨so.leaf inv.valid k' hk' hkt, PairAfter.text_ne_site sq hvq (PairAfter.site_getKid so hk') hkt⟩
        have hlook : findList? q ((pairOpt f.consolidation (f.nbOf k.handle) ∘ dropTop k.handle) (l ++ k :: r)) =
            findList? q (l ++ k :: r) := by
          simp only [Function.comp]
          rw [findList?_pairOpt, findList?_dropTop]
          · intro k' hk' hkc
            have : k' = k := PairAfter.eq_of_handle ndL hk' (by simp) hkc
            rw [this]; exact hqt
          · intro k' hk' hkt
            exact hLZq k' (mem_of_mem_dropTop hk') hkt
        have sY := so.other sq.kids (fun e => hpq e.symm) _ hsub hlook
        rw [← specRemoveP_kid hpar] at sY
        have hkm := kidMap_editAt po' (pairOpt f.consolidation (f.nbOf k.handle) ∘ dropTop k.handle)
        obtain ⟨cx', h', hs'⟩ := frame_insert_stepP (dest := dest) (t := k) k.handle sY
          (fun z => by
            have := count_specRemoveP nd hgc z
            have := (List.nodup_iff_count.1 nd) z
            omega) hx1 (by rw [hp1]; exact h1)
          (by
            rw [hp1]
            intro k' hk' hkt
            obtain ⟨k0, hk0, e⟩ := List.mem_map.1 hk'
            subst e
            rw [hkm.value] at hkt
            obtain ⟨hl0, hz0⟩ := hleafq k0 hk0 hkt
            refine ⟨?_, by rw [hkm.handle]; exact hz0⟩
            exact ReplGapNF.editAt_kids_leaf hl0 (PairAfter.leaf_ne_site so (PairAfter.site_getKid sq hk0) hl0))
          (by rw [hp1]; exact hleaft) (by rw [hp1]; exact h3)
        exact ⟨cx', h', hs'.trans hs1⟩

end XotModel
