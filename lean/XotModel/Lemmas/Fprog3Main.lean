/-
  Lemmas for C20 (construction programs with navigation and inputs, `Model/FanyorderSpec3.lean`):
  per call "specification ⇒ implementation" and "the specification preserves `Forest.Inv`", then the
  whole run.

  * `Step.old`: `Prog2.call_spec_impl` / `Prog2.spec_inv` (C05 per call, by name).
  * navigation: the same read of the same store on both sides — nothing to prove once the two
    states are equal, which is what the induction maintains;
  * `remove_attribute` / `remove_namespace`: `MutableNodeMap::remove` finds the entry node with
    `get_node` and calls `remove` on it; the entry node is live (`mapGetNode_live`), so the call IS the
    `remove` call of `Prog2` (`C05_pair_remove`);
  * `clear()`: the same, once per entry node (`clear_run`);
  * `namespace_node_mut().set_namespace`, `processing_instruction_mut().set_target`:
    `Forest.setValue` = `specSetValue` and the value keeps its kind (`Prog2.specSetValue_inv`).
-/
import XotModel.Model.FanyorderSpec3
import XotModel.Lemmas.Fprog2Main

namespace XotModel
namespace Prog3
open HTree Spec Prog XotModel.Props
open Forest (MapKind)

/-! ### The entry node found by `get_node` is a live node -/

theorem mem_of_takeWhile {α : Type} {p : α → Bool} {x : α} : ∀ {l : List α}, x ∈ l.takeWhile p → x ∈ l
  | [], h => by simp at h
  | a :: l, h => by
    rw [List.takeWhile_cons] at h
    split at h
    · rcases List.mem_cons.1 h with e | e
      · exact e ▸ List.mem_cons_self
      · exact List.mem_cons_of_mem _ (mem_of_takeWhile e)
    · simp at h

theorem mem_of_dropWhile {α : Type} {p : α → Bool} {x : α} : ∀ {l : List α}, x ∈ l.dropWhile p → x ∈ l
  | [], h => by simp at h
  | a :: l, h => by
    rw [List.dropWhile_cons] at h
    split at h
    · exact List.mem_cons_of_mem _ (mem_of_dropWhile h)
    · exact h

theorem mapChildren_sub (k : MapKind) (t : HTree) {c : HTree} (h : c ∈ Forest.mapChildren k t) : c ∈ t.kids := by
  unfold Forest.mapChildren at h
  cases k with
  | namespaces => exact mem_of_takeWhile h
  | attributes => exact mem_of_dropWhile (mem_of_takeWhile h)

/-- The children of a live node are live, each under its own name. -/
theorem kid_live {f : Forest} (inv : f.Inv) {e : Nat} {t c : HTree} (hg : f.get? e = some t)
    (hc : c ∈ t.kids) : f.get? c.handle = some c := by
  have he : t.handle = e := (findList?_some f.roots t hg).1
  cases t with
  | node h v ks =>
    simp only [HTree.handle] at he
    subst he
    exact PairAfter.site_getKid (f := f) (p := h) (v := v) (L := ks) ⟨inv.nodup, hg⟩ hc

theorem mapGetNode_live {f : Forest} (inv : f.Inv) {k : MapKind} {e key : Nat} {n : HTree}
    (h : f.mapGetNode k e key = some n) : f.get? n.handle = some n := by
  unfold Forest.mapGetNode at h
  cases hg : f.get? e with
  | none => rw [hg] at h; cases h
  | some t =>
    rw [hg] at h
    simp only at h
    exact kid_live inv hg (mapChildren_sub k t (List.mem_of_find?_eq_some h))

theorem isLive_of_get {f : Forest} {n : Nat} {t : HTree} (h : f.get? n = some t) : f.isLive n = true := by
  simp [Forest.isLive, h]

/-! ### `remove` of a live node, both sides at once -/

theorem remove_call {f : Forest} (inv : f.Inv) (hfl : FlagsOk f) {n : Nat} (hl : f.isLive n = true) :
    f.remove n = (specRemoveP n f, .ok) ∧ (specRemoveP n f).Inv ∧
      (specRemoveP n f).consolidation = f.consolidation ∧ (specRemoveP n f).everOff = f.everOff := by
  have hs : (Prog2.Call.remove n).spec f = some (specRemoveP n f, none) := by
    simp only [Prog2.Call.spec, hl, if_true]
  have h1 := Prog2.call_spec_impl inv hfl (.remove n) hs
  have h2 := Prog2.spec_inv inv hfl hs
  refine ⟨?_, h2⟩
  simp only [Prog2.Call.impl] at h1
  have ea : (f.remove n).1 = specRemoveP n f := congrArg (·.1) h1
  have eb : (f.remove n).2 = .ok := congrArg (·.2.1) h1
  exact Prod.ext ea eb

/-- `clear()`: the entry nodes are removed one after the other. -/
theorem clear_run : ∀ (L : List HTree) (f f' : Forest), f.Inv → FlagsOk f →
    specRemoveAll (L.map (·.handle)) f = some f' →
    L.foldl (fun acc c => (acc.remove c.handle).1) f = f' ∧ f'.Inv ∧
      f'.consolidation = f.consolidation ∧ f'.everOff = f.everOff
  | [], f, f', inv, _, h => by
    simp only [List.map_nil, specRemoveAll, Option.some.injEq] at h
    subst h
    exact ⟨rfl, inv, rfl, rfl⟩
  | c :: L, f, f', inv, hfl, h => by
    simp only [List.map_cons, specRemoveAll] at h
    split at h
    · rename_i hl
      obtain ⟨e, i1, a1, b1⟩ := remove_call inv hfl hl
      obtain ⟨r, i2, a2, b2⟩ := clear_run L _ f' i1 (hfl.of_eq a1 b1) h
      refine ⟨?_, i2, a2.trans a1, b2.trans b1⟩
      simp only [List.foldl_cons, e]
      exact r
    · cases h

/-! ### One call -/

/-- A call the specification accepts is answered `ok` by the implementation, with the
    specification's store and result; the store satisfies the invariant again, flags unchanged. -/
theorem call_spec_impl {f f' : Forest} {c : Call} {o : Option Nat} (inv : f.Inv) (hfl : FlagsOk f)
    (h : c.spec f = some (f', o)) :
    c.impl f = (f', .ok, o) ∧ f'.Inv ∧ f'.consolidation = f.consolidation ∧ f'.everOff = f.everOff := by
  cases c with
  | old c => exact ⟨Prog2.call_spec_impl inv hfl c h, Prog2.spec_inv inv hfl h⟩
  | found x =>
    simp only [Call.spec, Option.some.injEq, Prod.mk.injEq] at h
    obtain ⟨h1, h2⟩ := h
    subst h1 h2
    exact ⟨rfl, inv, rfl, rfl⟩
  | mapRemove k e key =>
    simp only [Call.spec] at h
    split at h
    · rename_i he
      rw [isElementAt_eq] at he
      simp only [Call.impl]
      unfold Forest.mapRemove
      rw [he]
      simp only [Bool.not_true, Bool.false_eq_true, if_false]
      cases hn : f.mapGetNode k e key with
      | none =>
        rw [hn] at h
        simp only [Option.some.injEq, Prod.mk.injEq] at h
        obtain ⟨h1, h2⟩ := h
        subst h1 h2
        exact ⟨rfl, inv, rfl, rfl⟩
      | some n =>
        rw [hn] at h
        simp only [Option.some.injEq, Prod.mk.injEq] at h
        obtain ⟨h1, h2⟩ := h
        subst h1 h2
        obtain ⟨e1, i1, a1, b1⟩ := remove_call inv hfl (isLive_of_get (mapGetNode_live inv hn))
        simp only [e1]
        exact ⟨trivial, i1, a1, b1⟩
    · cases h
  | mapClear k e =>
    simp only [Call.spec] at h
    split at h
    · rename_i he
      rw [isElementAt_eq] at he
      cases hr : specRemoveAll (entryHandles f k e) f with
      | none => rw [hr] at h; cases h
      | some g =>
        rw [hr] at h
        simp only [Option.map_some, Option.some.injEq, Prod.mk.injEq] at h
        obtain ⟨h1, h2⟩ := h
        subst h1 h2
        simp only [Call.impl]
        unfold Forest.mapClear
        rw [he]
        simp only [Bool.not_true, Bool.false_eq_true, if_false]
        unfold entryHandles at hr
        cases hg : f.get? e with
        | none =>
          rw [hg] at hr
          simp only [specRemoveAll, Option.some.injEq] at hr
          subst hr
          exact ⟨rfl, inv, rfl, rfl⟩
        | some t =>
          rw [hg] at hr
          simp only at hr
          obtain ⟨r, i1, a1, b1⟩ := clear_run _ f g inv hfl hr
          simp only [r]
          exact ⟨trivial, i1, a1, b1⟩
    · cases h
  | nsSetNamespace n ns =>
    simp only [Call.spec] at h
    split at h
    · rename_i p x hv
      simp only [Option.some.injEq, Prod.mk.injEq] at h
      obtain ⟨h1, h2⟩ := h
      subst h1 h2
      simp only [Call.impl]
      unfold Forest.namespaceSetNamespace
      rw [hv]
      simp only [setValue_eq_spec]
      exact ⟨trivial, Prog2.specSetValue_inv inv hv (by simp [Prog2.sameKind]), rfl, rfl⟩
    · cases h
  | piSetTarget n t =>
    simp only [Call.spec] at h
    split at h
    · rename_i x d hv
      simp only [Option.some.injEq, Prod.mk.injEq] at h
      obtain ⟨h1, h2⟩ := h
      subst h1 h2
      simp only [Call.impl]
      unfold Forest.piSetTarget
      rw [hv]
      simp only [setValue_eq_spec]
      exact ⟨trivial, Prog2.specSetValue_inv inv hv rfl, rfl, rfl⟩
    · cases h

/-! ### One step, whole runs -/

theorem step_spec_impl {s s' : State} {st : Step} (inv : s.forest.Inv) (hfl : FlagsOk s.forest)
    (h : stepSpec s st = some s') : stepImpl s st = (s', .ok) ∧ s'.forest.Inv ∧ FlagsOk s'.forest := by
  unfold stepSpec at h
  unfold stepImpl
  cases hr : st.resolve s.forest s.env with
  | none => rw [hr] at h; cases h
  | some c =>
    rw [hr] at h
    simp only at h ⊢
    cases hc : c.spec s.forest with
    | none => rw [hc] at h; cases h
    | some fo =>
      obtain ⟨f', o⟩ := fo
      rw [hc] at h
      simp only [Option.some.injEq] at h
      obtain ⟨e, i, a, b⟩ := call_spec_impl inv hfl hc
      rw [e, ← h]
      exact ⟨rfl, i, hfl.of_eq a b⟩

/-- **Refinement, specification ⇒ implementation**, for programs with navigation and inputs: a
    program the specification accepts is carried out by the implementation without a refusal and
    ends in the specification's state — same trees, same node names, same results (so every later
    navigation finds the same node on both sides); the invariant holds at the end. -/
theorem run_spec_impl : ∀ (P : Program) (s s' : State), s.forest.Inv → FlagsOk s.forest →
    runSpec s P = some s' → runImpl s P = (s', .ok) ∧ s'.forest.Inv ∧ FlagsOk s'.forest
  | [], s, s', inv, hfl, h => by
    simp only [runSpec, Option.some.injEq] at h
    subst h
    exact ⟨rfl, inv, hfl⟩
  | st :: rest, s, s', inv, hfl, h => by
    simp only [runSpec] at h
    cases hs : stepSpec s st with
    | none => rw [hs] at h; cases h
    | some s1 =>
      rw [hs] at h
      obtain ⟨e1, i1, f1⟩ := step_spec_impl inv hfl hs
      simp only [runImpl, e1]
      exact run_spec_impl rest s1 s' i1 f1 h

/-- The first refused step is not before the first ill-formed step … and a well-formed program has
    no refused step. -/
theorem firstRefused_none : ∀ (P : Program) (s s' : State), s.forest.Inv → FlagsOk s.forest →
    runSpec s P = some s' → firstRefused s P = none ∧ firstIllFormed s P = none
  | [], _, _, _, _, _ => ⟨rfl, rfl⟩
  | st :: rest, s, s', inv, hfl, h => by
    simp only [runSpec] at h
    cases hs : stepSpec s st with
    | none => rw [hs] at h; cases h
    | some s1 =>
      rw [hs] at h
      obtain ⟨e1, i1, f1⟩ := step_spec_impl inv hfl hs
      obtain ⟨a, b⟩ := firstRefused_none rest s1 s' i1 f1 h
      simp only [firstRefused, firstIllFormed, e1, hs, a, b, Option.map_none]
      first | exact ⟨rfl, rfl⟩ | trivial

/-! ### The embedding of `Prog2` is conservative -/

theorem old_steps (s : State) (st : Prog2.Step) :
    stepSpec s (.old st) = Prog2.stepSpec s st ∧ stepImpl s (.old st) = Prog2.stepImpl s st := by
  constructor
  · unfold stepSpec Prog2.stepSpec
    simp only [Step.resolve]
    cases st.resolve s.env <;> rfl
  · unfold stepImpl Prog2.stepImpl
    simp only [Step.resolve]
    cases st.resolve s.env <;> rfl

theorem run_old (s : State) (P : Prog2.Program) :
    runSpec s (ofOld P) = Prog2.runSpec s P ∧ runImpl s (ofOld P) = Prog2.runImpl s P := by
  induction P generalizing s with
  | nil => exact ⟨rfl, rfl⟩
  | cons st rest ih =>
    obtain ⟨e1, e2⟩ := old_steps s st
    constructor
    · simp only [ofOld, List.map_cons, runSpec, Prog2.runSpec, e1]
      cases Prog2.stepSpec s st with
      | none => rfl
      | some s1 => exact (ih s1).1
    · simp only [ofOld, List.map_cons, runImpl, Prog2.runImpl, e2]
      cases h : Prog2.stepImpl s st with
      | mk s1 r =>
        cases r with
        | ok => exact (ih s1).2
        | err e => rfl
        | panic => rfl

end Prog3
end XotModel
