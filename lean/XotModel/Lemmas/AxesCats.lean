/-
  Categories: the attribute axis, the raw order of the `all_*` variants, and the fact that the
  plain variants never yield a namespace or attribute node.
-/
import XotModel.Lemmas.AxesLevel

namespace XotModel.Axes

def catRank : Category → Nat
  | .namespace => 0
  | .attribute => 1
  | .normal => 2

/-- Namespace nodes, then attribute nodes, then normal nodes (`StructValid` ordering). -/
def kidsSorted (ks : List Tree) : Prop :=
  (ks.map (fun k => catRank k.value.category)).Pairwise (· ≤ ·)

instance (ks : List Tree) : Decidable (kidsSorted ks) := by unfold kidsSorted; infer_instance

/-! ### Generic facts about a list sorted by a rank in {0, 1, 2} -/

section Sorted
variable {α : Type} (r : α → Nat)

theorem takeWhile_one_eq_filter : ∀ (l : List α), (l.map r).Pairwise (· ≤ ·) → (∀ y ∈ l, 1 ≤ r y) →
    l.takeWhile (fun x => r x == 1) = l.filter (fun x => r x == 1)
  | [], _, _ => rfl
  | x :: l, hs, h1 => by
    simp only [List.map_cons, List.pairwise_cons] at hs
    by_cases hx : r x = 1
    · simp [hx,
        takeWhile_one_eq_filter l hs.2 (fun y hy => h1 y (by simp [hy]))]
    · have hx2 : 2 ≤ r x := by have := h1 x (by simp); omega
      have : l.filter (fun x => r x == 1) = [] := by
        apply List.filter_eq_nil_iff.mpr
        intro y hy
        have := hs.1 (r y) (List.mem_map.mpr ⟨y, hy, rfl⟩)
        simp; omega
      simp [hx, this]

theorem dropWhile_zero_takeWhile_one : ∀ (l : List α), (l.map r).Pairwise (· ≤ ·) →
    (l.dropWhile (fun x => r x == 0)).takeWhile (fun x => r x == 1) = l.filter (fun x => r x == 1)
  | [], _ => rfl
  | x :: l, hs => by
    have hs' := hs
    simp only [List.map_cons, List.pairwise_cons] at hs
    by_cases hx : r x = 0
    · simp [hx, dropWhile_zero_takeWhile_one l hs.2]
    · have : (x :: l).dropWhile (fun x => r x == 0) = x :: l := by simp [hx]
      rw [this]
      apply takeWhile_one_eq_filter r (x :: l) hs'
      intro y hy
      rcases List.mem_cons.mp hy with rfl | hy
      · omega
      · have := hs.1 (r y) (List.mem_map.mpr ⟨y, hy, rfl⟩); omega

theorem dropWhile_one_eq : ∀ (l : List α), (l.map r).Pairwise (· ≤ ·) → (∀ y ∈ l, 1 ≤ r y) →
    (∀ y ∈ l, r y ≤ 2) →
    l.dropWhile (fun x => r x == 1) = l.dropWhile (fun x => !(r x == 2))
  | [], _, _, _ => rfl
  | x :: l, hs, h1, h2 => by
    simp only [List.map_cons, List.pairwise_cons] at hs
    by_cases hx : r x = 1
    · simp [hx,
        dropWhile_one_eq l hs.2 (fun y hy => h1 y (by simp [hy])) (fun y hy => h2 y (by simp [hy]))]
    · have hx2 : r x = 2 := by have := h1 x (by simp); have := h2 x (by simp); omega
      simp [hx2]

theorem dropWhile_zero_one_eq : ∀ (l : List α), (l.map r).Pairwise (· ≤ ·) → (∀ y ∈ l, r y ≤ 2) →
    (l.dropWhile (fun x => r x == 0)).dropWhile (fun x => r x == 1) = l.dropWhile (fun x => !(r x == 2))
  | [], _, _ => rfl
  | x :: l, hs, h2 => by
    have hs' := hs
    simp only [List.map_cons, List.pairwise_cons] at hs
    by_cases hx : r x = 0
    · simp [hx,
        dropWhile_zero_one_eq l hs.2 (fun y hy => h2 y (by simp [hy]))]
    · have : (x :: l).dropWhile (fun x => r x == 0) = x :: l := by simp [hx]
      rw [this]
      apply dropWhile_one_eq r (x :: l) hs' _ h2
      intro y hy
      rcases List.mem_cons.mp hy with rfl | hy
      · omega
      · have := hs.1 (r y) (List.mem_map.mpr ⟨y, hy, rfl⟩); omega

end Sorted

theorem catRank_le_two (c : Category) : catRank c ≤ 2 := by cases c <;> simp [catRank]
theorem catRank_eq_zero (c : Category) : (catRank c == 0) = (c == .namespace) := by cases c <;> rfl
theorem catRank_eq_one (c : Category) : (catRank c == 1) = (c == .attribute) := by cases c <;> rfl
theorem catRank_eq_two (v : Value) : (catRank v.category == 2) = v.isNormal := by
  unfold Value.isNormal; cases v.category <;> rfl

/-! ### The raw child order: namespaces, attributes, children -/

/-- Under the `StructValid` ordering the raw child list is the namespace nodes, then the
    attribute nodes, then the normal children (the three views of `Model/Tree.lean`). -/
theorem kids_eq_ns_attr_normal (s : Tree) (hs : kidsSorted s.kids) :
    s.kids = s.namespaceNodes ++ s.attributeNodes ++ s.normalKids := by
  unfold Tree.namespaceNodes Tree.attributeNodes Tree.normalKids
  have h2 : ∀ y ∈ s.kids, catRank y.value.category ≤ 2 := fun y _ => catRank_le_two _
  have e := dropWhile_zero_one_eq (fun k : Tree => catRank k.value.category) s.kids hs h2
  simp only [catRank_eq_zero, catRank_eq_one, catRank_eq_two] at e
  rw [← e, List.append_assoc, List.takeWhile_append_dropWhile, List.takeWhile_append_dropWhile]

/-- `all_descendants`: the node, then (the subtrees of) its namespace nodes, its attribute nodes,
    its children, in this order. -/
theorem allDescendants_order {t : Tree} {p : Path} (hs : kidsSorted (subAt t p).kids) :
    allDescendants t p = p :: (allPreList 0
      ((subAt t p).namespaceNodes ++ (subAt t p).attributeNodes ++ (subAt t p).normalKids)).map (p ++ ·) := by
  rw [← kids_eq_ns_attr_normal _ hs]
  unfold allDescendants arenaDescendants
  cases subAt t p with
  | node v ks => simp [allPre, Tree.kids]

/-- `all_traverse`: `Start(node)`, the edges of its namespace nodes, attribute nodes, children,
    `End(node)`. -/
theorem allTraverse_order {t : Tree} {p : Path} (hs : kidsSorted (subAt t p).kids) :
    allTraverse t p = .start p :: ((rawEdgesList 0
      ((subAt t p).namespaceNodes ++ (subAt t p).attributeNodes ++ (subAt t p).normalKids)).map
        (Edge.mapPath (p ++ ·)) ++ [.stop p]) := by
  rw [← kids_eq_ns_attr_normal _ hs]
  unfold allTraverse arenaTraverse
  cases subAt t p with
  | node v ks => simp [rawEdges, Tree.kids, Edge.mapPath]

/-! ### The attribute axis -/

theorem kidPaths_map_snd (p : Path) : ∀ (i : Nat) (ks : List Tree), (kidPaths p i ks).map (·.2) = ks
  | _, [] => rfl
  | i, k :: ks => by simp [kidPaths, kidPaths_map_snd p (i + 1) ks]

/-- `attribute_nodes` (= `axis(Attribute)`) under the `StructValid` ordering: the raw children of
    category attribute, in order. -/
theorem attributeNodes_eq {t : Tree} {p : Path} (h : Valid t p) (hs : kidsSorted (subAt t p).kids) :
    attributeNodes t p = (rawChildPaths t p).filter (fun q => categoryAt t q == .attribute) := by
  unfold attributeNodes
  have hsorted : ((allChildren t p).map (fun x => catRank (itemCategory x))).Pairwise (· ≤ ·) := by
    have : (allChildren t p).map (fun x => catRank (itemCategory x)) =
        ((allChildren t p).map (·.2)).map (fun k => catRank k.value.category) := by
      simp [List.map_map, Function.comp_def, itemCategory]
    rw [this]; unfold allChildren; rw [kidPaths_map_snd]; exact hs
  have e := dropWhile_zero_takeWhile_one (fun x : Path × Tree => catRank (itemCategory x)) _ hsorted
  simp only [catRank_eq_zero, catRank_eq_one] at e
  rw [e]
  exact filter_items h (fun k => k.value.category == .attribute)

theorem mem_takeWhile_pred {α} (f : α → Bool) : ∀ (l : List α) (x : α), x ∈ l.takeWhile f → f x = true
  | [], _, h => by simp at h
  | y :: l, x, h => by
    by_cases hy : f y = true
    · simp only [List.takeWhile_cons, hy, if_true, List.mem_cons] at h
      rcases h with rfl | h
      · exact hy
      · exact mem_takeWhile_pred f l x h
    · simp [hy] at h

/-- Without any ordering assumption: everything `attribute_nodes` yields is an attribute child. -/
theorem attributeNodes_sound {t : Tree} {p : Path} (h : Valid t p) {q : Path}
    (hq : q ∈ attributeNodes t p) : categoryAt t q = .attribute ∧ parent q = some p ∧ Valid t q := by
  unfold attributeNodes at hq
  obtain ⟨x, hx, rfl⟩ := List.mem_map.mp hq
  have hcat : itemCategory x = .attribute := by simpa using mem_takeWhile_pred _ _ _ hx
  have hx' : x ∈ allChildren t p :=
    (List.dropWhile_sublist _).subset ((List.takeWhile_sublist _).subset hx)
  have := allChildren_item h hx'
  exact ⟨by simpa [categoryAt, valueAt, this.1, itemCategory] using hcat, this.2.2, this.2.1⟩

end XotModel.Axes
