/-
  XotModel.Lemmas.LexSliceParse — one lemma per token parser: started on a stream that lies in
  `src` (`SWf src s`), the token it returns carries only slices of `src`, its prefix and local
  name abut, and it is of the kind the parser is named after.
-/
import XotModel.Lemmas.LexSliceStream

namespace XotModel.Lex.Slice

open XotModel.Lex.Stream

/-- The token kinds the tag bookkeeping (`TagsOk`, `NoStrayClose`) distinguishes. -/
inductive TKind where
  | start | attr | endOpen | endEmpty | endClose | other
  deriving DecidableEq, Repr

def kind : Token → TKind
  | .elementStart _ _ _ => .start
  | .attribute _ _ _ _ => .attr
  | .elementEnd .open _ => .endOpen
  | .elementEnd .empty _ => .endEmpty
  | .elementEnd (.close _ _) _ => .endClose
  | _ => .other

/-- What a parser lemma delivers. -/
structure Good (src : Str) (t : Token) (k : TKind) : Prop where
  all : t.All (StrSpan.SliceOf src)
  abuts : t.Abuts
  kind : kind t = k

/-! ### XML declaration -/

theorem parseVersionInfo_slice {src : Str} {s s' : Lex.Stream} {v : StrSpan} (hw : SWf src s)
    (h : parseVersionInfo s = some (v, s')) : v.SliceOf src := by
  simp only [parseVersionInfo, Option.bind_eq_bind, Option.bind_eq_some_iff, Option.some.injEq,
    Prod.mk.injEq] at h
  obtain ⟨s1, h1, s2, h2, ⟨q, s3⟩, h3, s4, h4, s6, h6, rfl, rfl⟩ := h
  exact (hw.reach ((((skipSpaces_reach s).trans (skipString_reach h1)).trans
    (consumeEq_reach h2)).trans (consumeQuote_reach h3))).sliceBack _

theorem parseEncodingDecl_slice {src : Str} {s s' : Lex.Stream} {e : Option StrSpan}
    (hw : SWf src s) (h : parseEncodingDecl s = some (e, s')) :
    ∀ x, e = some x → x.SliceOf src := by
  unfold parseEncodingDecl at h
  split at h
  · simp at h; obtain ⟨rfl, _⟩ := h
    intro x hx; cases hx
  · simp only [Option.bind_eq_bind, Option.bind_eq_some_iff, Option.some.injEq,
      Prod.mk.injEq] at h
    obtain ⟨s2, h2, ⟨q, s3⟩, h3, s5, h5, rfl, rfl⟩ := h
    intro x hx
    simp only [Option.some.injEq] at hx
    subst hx
    exact (hw.reach (((Reach.adv s 8).trans (consumeEq_reach h2)).trans
      (consumeQuote_reach h3))).sliceBack _

theorem parseDeclaration_good {src : Str} {s s' : Lex.Stream} {t : Token} (hw : SWf src s)
    (h : parseDeclaration s = some (t, s')) : Good src t .other := by
  simp only [parseDeclaration, Option.bind_eq_bind, Option.bind_eq_some_iff, Option.some.injEq,
    Prod.mk.injEq] at h
  obtain ⟨⟨v, s2⟩, h2, s3, h3, ⟨e, s4⟩, h4, s5, h5, ⟨sa, s6⟩, h6, s7, h7, rfl, rfl⟩ := h
  have hw3 : SWf src s3 :=
    (hw.adv 6).reach ((parseVersionInfo_reach h2).trans (declSpaces_reach h3))
  exact ⟨⟨parseVersionInfo_slice (hw.adv 6) h2, parseEncodingDecl_slice hw3 h4, hw.sliceBack _⟩,
    trivial, rfl⟩

/-! ### Comments, PIs, CDATA, text -/

theorem parseComment_good {src : Str} {s s' : Lex.Stream} {t : Token} (hw : SWf src s)
    (h : parseComment s = some (t, s')) : Good src t .other := by
  simp only [parseComment, Option.bind_eq_bind, Option.bind_eq_some_iff] at h
  obtain ⟨s2, h2, s3, h3, h⟩ := h
  split at h
  · simp at h
  · split at h
    · simp at h
    · simp only [Option.some.injEq, Prod.mk.injEq] at h
      obtain ⟨rfl, rfl⟩ := h
      exact ⟨⟨(hw.adv 4).sliceBack _, hw.sliceBack _⟩, trivial, rfl⟩

theorem parsePI_good {src : Str} {s s' : Lex.Stream} {t : Token} (hw : SWf src s)
    (h : parsePI s = some (t, s')) : Good src t .other := by
  simp only [parsePI, Option.bind_eq_bind, Option.bind_eq_some_iff, Option.some.injEq,
    Prod.mk.injEq] at h
  obtain ⟨⟨tg, s2⟩, h2, s4, h4, s5, h5, rfl, rfl⟩ := h
  have hw3 : SWf src s2.skipSpaces :=
    (hw.adv 2).reach ((consumeName_reach h2).trans (skipSpaces_reach _))
  refine ⟨⟨consumeName_slice (hw.adv 2) h2, ?_, hw.sliceBack _⟩, trivial, rfl⟩
  intro x hx
  split at hx
  · cases hx
  · simp only [Option.some.injEq] at hx
    subst hx
    exact hw3.sliceBack _

theorem parseCdata_good {src : Str} {s s' : Lex.Stream} {t : Token} (hw : SWf src s)
    (h : parseCdata s = some (t, s')) : Good src t .other := by
  simp only [parseCdata, Option.bind_eq_bind, Option.bind_eq_some_iff, Option.some.injEq,
    Prod.mk.injEq] at h
  obtain ⟨s2, h2, s3, h3, rfl, rfl⟩ := h
  exact ⟨⟨(hw.adv 9).sliceBack _, hw.sliceBack _⟩, trivial, rfl⟩

theorem parseText_good {src : Str} {s s' : Lex.Stream} {t : Token} (hw : SWf src s)
    (h : parseText s = some (t, s')) : Good src t .other := by
  simp only [parseText, Option.bind_eq_bind, Option.bind_eq_some_iff] at h
  obtain ⟨s1, h1, h⟩ := h
  split at h
  · simp at h
  · simp only [Option.some.injEq, Prod.mk.injEq] at h
    obtain ⟨rfl, rfl⟩ := h
    exact ⟨hw.sliceBack _, trivial, rfl⟩

/-! ### DTD -/

theorem parseDoctype_good {src : Str} {s s' : Lex.Stream} {t : Token} (hw : SWf src s)
    (h : parseDoctype s = some (t, s')) :
    Good src t .other ∧ ((∃ sp, t = .dtdStart sp) ∨ (∃ sp, t = .emptyDtd sp)) := by
  simp only [parseDoctype, Option.bind_eq_bind, Option.bind_eq_some_iff] at h
  obtain ⟨s2, h2, ⟨n, s3⟩, h3, ⟨b, s4⟩, h4, c, -, h⟩ := h
  split at h
  · simp at h
  · split at h
    · simp only [Option.some.injEq, Prod.mk.injEq] at h
      obtain ⟨rfl, rfl⟩ := h
      exact ⟨⟨hw.sliceBack _, trivial, rfl⟩, .inl ⟨_, rfl⟩⟩
    · simp only [Option.some.injEq, Prod.mk.injEq] at h
      obtain ⟨rfl, rfl⟩ := h
      exact ⟨⟨hw.sliceBack _, trivial, rfl⟩, .inr ⟨_, rfl⟩⟩

theorem parseEntityDecl_good {src : Str} {s s' : Lex.Stream} {t : Token} (hw : SWf src s)
    (h : parseEntityDecl s = some (t, s')) : Good src t .other := by
  simp only [parseEntityDecl, Option.bind_eq_bind, Option.bind_eq_some_iff, Option.some.injEq,
    Prod.mk.injEq] at h
  obtain ⟨s2, h2, s4, h4, ⟨n, s5⟩, h5, s6, h6, s7, h7, s8, h8, rfl, rfl⟩ := h
  exact ⟨hw.sliceBack _, trivial, rfl⟩

/-! ### Elements -/

theorem parseElementStart_good {src : Str} {s s' : Lex.Stream} {t : Token} (hw : SWf src s)
    (h : parseElementStart s = some (t, s')) : Good src t .start := by
  simp only [parseElementStart, Option.bind_eq_bind, Option.bind_eq_some_iff, Option.some.injEq,
    Prod.mk.injEq] at h
  obtain ⟨⟨p, l, s1⟩, h1, rfl, rfl⟩ := h
  obtain ⟨a, b, c⟩ := consumeQName_slice (hw.adv 1) h1
  exact ⟨⟨a, b, hw.sliceBack _⟩, c, rfl⟩

theorem parseCloseElement_good {src : Str} {s s' : Lex.Stream} {t : Token} (hw : SWf src s)
    (h : parseCloseElement s = some (t, s')) : Good src t .endClose := by
  simp only [parseCloseElement, Option.bind_eq_bind, Option.bind_eq_some_iff, Option.some.injEq,
    Prod.mk.injEq] at h
  obtain ⟨⟨p, l, s1⟩, h1, s2, h2, rfl, rfl⟩ := h
  obtain ⟨a, b, c⟩ := consumeQName_slice (hw.adv 2) h1
  exact ⟨⟨a, b, hw.sliceBack _⟩, c, rfl⟩

/-- `parse_attribute`: an attribute, or the `>` / `/>` that ends the start tag. -/
theorem parseAttribute_good {src : Str} {s s' : Lex.Stream} {t : Token} (hw : SWf src s)
    (h : parseAttribute s = some (t, s')) :
    Good src t .attr ∨ (∃ sp, t = .elementEnd .open sp ∧ Good src t .endOpen) ∨
      (∃ sp, t = .elementEnd .empty sp ∧ Good src t .endEmpty) := by
  have hw1 : SWf src s.skipSpaces := hw.reach (skipSpaces_reach s)
  unfold parseAttribute at h
  dsimp only at h
  split at h
  · simp only [Option.bind_eq_bind, Option.bind_eq_some_iff, Option.some.injEq,
      Prod.mk.injEq] at h
    obtain ⟨s2, h2, rfl, rfl⟩ := h
    exact .inr (.inr ⟨_, rfl, hw1.sliceBack _, trivial, rfl⟩)
  · split at h
    · simp only [Option.some.injEq, Prod.mk.injEq] at h
      obtain ⟨rfl, rfl⟩ := h
      exact .inr (.inl ⟨_, rfl, hw1.sliceBack _, trivial, rfl⟩)
    · split at h
      · simp at h
      · simp only [Option.bind_eq_bind, Option.bind_eq_some_iff, Option.some.injEq,
          Prod.mk.injEq] at h
        obtain ⟨⟨p, l, s2⟩, h2, s3, h3, ⟨q, s4⟩, h4, s5, h5, s6, h6, rfl, rfl⟩ := h
        obtain ⟨a, b, c⟩ := consumeQName_slice hw1 h2
        have hw4 : SWf src s4 := hw1.reach (((consumeQName_reach h2).trans
          (consumeEq_reach h3)).trans (consumeQuote_reach h4))
        exact .inl ⟨⟨a, b, hw4.sliceBack _, hw1.sliceBack _⟩, c, rfl⟩

end XotModel.Lex.Slice
