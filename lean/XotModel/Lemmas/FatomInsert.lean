/-
  C06 lemmas, tree level: inserting a subtree `t` next to a node (`replaceBelow ref (fun r => [r, t])`,
  `[t, r]`) or as first / last child (`mapAt p (setKids …)`): every node outside `t` keeps its
  parent and value, the handles grow by exactly those of `t`.
-/
import XotModel.Lemmas.FatomReplace

namespace XotModel
open HTree

theorem parentBelow_eq (x : Nat) (n : HTree) : parentBelow x n = parentKids x n.handle n.kids := by
  cases n with | node h v ks => rfl

theorem find?_eq (x : Nat) (n : HTree) :
    find? x n = if n.handle = x then some n else findList? x n.kids := by
  cases n with | node h v ks => rfl

/-! ### Insertion next to a node -/

/-- What the inserting `F` must satisfy with respect to the inserted tree `t`. -/
structure InsertsBeside (F : HTree → List HTree) (t : HTree) : Prop where
  parent : ∀ (r : HTree) (rest : List HTree) (x q : Nat), x ∉ handles t →
    parentKids x q (F r ++ rest) = parentKids x q (r :: rest)
  value : ∀ (r : HTree) (rest : List HTree) (x : Nat), x ∉ handles t →
    (findList? x (F r ++ rest)).map HTree.value = (findList? x (r :: rest)).map HTree.value
  handles : ∀ (r : HTree) (a : Nat),
    (handlesList (F r)).count a = (handles r).count a + (handles t).count a
  leaf : leafOk t = true → ∀ r, leafOk r = true → leafOkList (F r) = true

theorem insertsAfter (t : HTree) : InsertsBeside (fun r => [r, t]) t where
  parent r rest x q hx := by
    simp only [List.cons_append, List.nil_append, parentKids]
    have hne : ¬ t.handle = x := fun e => hx (e ▸ handle_mem_handles t)
    simp only [hne, if_false, parentBelow_none_of_not_mem hx]
  value r rest x hx := by
    simp only [List.cons_append, List.nil_append, findList?, (find?_none_iff _ _).2 hx]
  handles r a := by simp [handlesList]
  leaf ht r hr := by simp [leafOkList, ht, hr]

theorem insertsBefore (t : HTree) : InsertsBeside (fun r => [t, r]) t where
  parent r rest x q hx := by
    simp only [List.cons_append, List.nil_append, parentKids]
    have hne : ¬ t.handle = x := fun e => hx (e ▸ handle_mem_handles t)
    simp only [hne, if_false, parentBelow_none_of_not_mem hx]
  value r rest x hx := by
    simp only [List.cons_append, List.nil_append, findList?, (find?_none_iff _ _).2 hx]
  handles r a := by simp [handlesList]; omega
  leaf ht r hr := by simp [leafOkList, ht, hr]

mutual
  theorem replaceBelow_parent_ins (h x : Nat) (F : HTree → List HTree) (t : HTree)
      (hF : InsertsBeside F t) (hx : x ∉ handles t) : ∀ T : HTree,
      parentBelow x (replaceBelow h F T) = parentBelow x T
    | .node q v ks => by
      simp only [replaceBelow, parentBelow]
      exact replaceKids_parent_ins h x q F t hF hx ks
  theorem replaceKids_parent_ins (h x p : Nat) (F : HTree → List HTree) (t : HTree)
      (hF : InsertsBeside F t) (hx : x ∉ handles t) : ∀ ks : List HTree,
      parentKids x p (replaceKids h F ks) = parentKids x p ks
    | [] => by simp [replaceKids]
    | k :: ks => by
      unfold replaceKids
      by_cases hk : k.handle = h
      · simp only [hk, if_true]
        exact hF.parent k ks x p hx
      · simp only [hk, if_false, parentKids, handle_replaceBelow]
        rw [replaceBelow_parent_ins h x F t hF hx k, replaceKids_parent_ins h x p F t hF hx ks]
end

mutual
  theorem replaceBelow_value_ins (h x : Nat) (F : HTree → List HTree) (t : HTree)
      (hF : InsertsBeside F t) (hx : x ∉ handles t) : ∀ T : HTree,
      (find? x (replaceBelow h F T)).map HTree.value = (find? x T).map HTree.value
    | .node q v ks => by
      simp only [replaceBelow, find?]
      by_cases hq : q = x
      · simp [hq, HTree.value]
      · simp only [hq, if_false]
        exact replaceKids_value_ins h x F t hF hx ks
  theorem replaceKids_value_ins (h x : Nat) (F : HTree → List HTree) (t : HTree)
      (hF : InsertsBeside F t) (hx : x ∉ handles t) : ∀ ks : List HTree,
      (findList? x (replaceKids h F ks)).map HTree.value = (findList? x ks).map HTree.value
    | [] => by simp [replaceKids]
    | k :: ks => by
      unfold replaceKids
      by_cases hk : k.handle = h
      · simp only [hk, if_true]
        exact hF.value k ks x hx
      · simp only [hk, if_false, findList?]
        have h1 := replaceBelow_value_ins h x F t hF hx k
        have h2 := replaceKids_value_ins h x F t hF hx ks
        cases ha : find? x (replaceBelow h F k) with
        | some a =>
          rw [ha] at h1
          cases hb : find? x k with
          | some b => rw [hb] at h1; simpa using h1
          | none => rw [hb] at h1; simp at h1
        | none =>
          rw [ha] at h1
          cases hb : find? x k with
          | some b => rw [hb] at h1; simp at h1
          | none => simpa using h2
end

/-! ### Insertion as first / last child -/

/-- What the child-list edit `g` must satisfy with respect to the inserted tree `t`. -/
structure InsertsUnder (g : HTree → HTree) (t : HTree) : Prop where
  handle : ∀ n, (g n).handle = n.handle
  val : ∀ n, (g n).value = n.value
  parent : ∀ (n : HTree) (x q : Nat), x ∉ handles t →
    parentKids x q (g n).kids = parentKids x q n.kids
  value : ∀ (n : HTree) (x : Nat), x ∉ handles t →
    (findList? x (g n).kids).map HTree.value = (findList? x n.kids).map HTree.value
  handles : ∀ (n : HTree) (a : Nat),
    (handlesList (g n).kids).count a = (handlesList n.kids).count a + (handles t).count a

theorem insertsLast (t : HTree) : InsertsUnder (fun n => n.setKids (n.kids ++ [t])) t where
  handle n := by cases n; rfl
  val n := by cases n; rfl
  parent n x q hx := by
    cases n with
    | node h v ks =>
      simp only [HTree.setKids, HTree.kids]
      rw [parentKids_append]
      have hne : ¬ t.handle = x := fun e => hx (e ▸ handle_mem_handles t)
      simp only [parentKids, hne, if_false, parentBelow_none_of_not_mem hx]
      cases parentKids x q ks <;> rfl
  value n x hx := by
    cases n with
    | node h v ks =>
      simp only [HTree.setKids, HTree.kids]
      rw [fa_findList?_append]
      simp only [findList?, (find?_none_iff _ _).2 hx]
      cases findList? x ks <;> rfl
  handles n a := by
    cases n with
    | node h v ks => simp [HTree.setKids, HTree.kids, fa_handlesList_append, handlesList]

theorem insertsFirst (t : HTree) : InsertsUnder (fun n => n.setKids (t :: n.kids)) t where
  handle n := by cases n; rfl
  val n := by cases n; rfl
  parent n x q hx := by
    cases n with
    | node h v ks =>
      simp only [HTree.setKids, HTree.kids]
      have hne : ¬ t.handle = x := fun e => hx (e ▸ handle_mem_handles t)
      simp only [parentKids, hne, if_false, parentBelow_none_of_not_mem hx]
  value n x hx := by
    cases n with
    | node h v ks =>
      simp only [HTree.setKids, HTree.kids, findList?, (find?_none_iff _ _).2 hx]
  handles n a := by
    cases n with
    | node h v ks => simp [HTree.setKids, HTree.kids, handlesList]; omega

theorem handle_mapAt (p : Nat) (g : HTree → HTree) (hg : ∀ n, (g n).handle = n.handle) (T : HTree) :
    (mapAt p g T).handle = T.handle := by
  cases T with
  | node h v ks =>
    unfold mapAt
    by_cases hh : h = p
    · simp only [hh, if_true]; rw [hg]
    · simp only [hh, if_false]; rfl

mutual
  theorem mapAt_parent_ins (p x : Nat) (g : HTree → HTree) (t : HTree) (hg : InsertsUnder g t)
      (hx : x ∉ handles t) : ∀ T : HTree, parentBelow x (mapAt p g T) = parentBelow x T
    | .node h v ks => by
      unfold mapAt
      by_cases hh : h = p
      · simp only [hh, if_true]
        rw [parentBelow_eq, hg.handle, hg.parent _ x _ hx]
        rfl
      · simp only [hh, if_false, parentBelow]
        exact mapAtList_parent_ins p x h g t hg hx ks
  theorem mapAtList_parent_ins (p x q : Nat) (g : HTree → HTree) (t : HTree) (hg : InsertsUnder g t)
      (hx : x ∉ handles t) : ∀ ks : List HTree,
      parentKids x q (mapAtList p g ks) = parentKids x q ks
    | [] => by simp [mapAtList]
    | k :: ks => by
      simp only [mapAtList, parentKids, handle_mapAt p g hg.handle]
      rw [mapAt_parent_ins p x g t hg hx k, mapAtList_parent_ins p x q g t hg hx ks]
end

mutual
  theorem mapAt_value_ins (p x : Nat) (g : HTree → HTree) (t : HTree) (hg : InsertsUnder g t)
      (hx : x ∉ handles t) : ∀ T : HTree,
      (find? x (mapAt p g T)).map HTree.value = (find? x T).map HTree.value
    | .node h v ks => by
      unfold mapAt
      by_cases hh : h = p
      · simp only [hh, if_true]
        rw [find?_eq, find?_eq, hg.handle]
        by_cases hpx : (HTree.node p v ks).handle = x
        · simp only [hpx, if_true, Option.map_some, hg.val]
        · simp only [hpx, if_false]
          exact hg.value _ x hx
      · simp only [hh, if_false, find?]
        by_cases hq : h = x
        · simp [hq, HTree.value]
        · simp only [hq, if_false]
          exact mapAtList_value_ins p x g t hg hx ks
  theorem mapAtList_value_ins (p x : Nat) (g : HTree → HTree) (t : HTree) (hg : InsertsUnder g t)
      (hx : x ∉ handles t) : ∀ ks : List HTree,
      (findList? x (mapAtList p g ks)).map HTree.value = (findList? x ks).map HTree.value
    | [] => by simp [mapAtList]
    | k :: ks => by
      simp only [mapAtList, findList?]
      have h1 := mapAt_value_ins p x g t hg hx k
      have h2 := mapAtList_value_ins p x g t hg hx ks
      cases ha : find? x (mapAt p g k) with
      | some a =>
        rw [ha] at h1
        cases hb : find? x k with
        | some b => rw [hb] at h1; simpa using h1
        | none => rw [hb] at h1; simp at h1
      | none =>
        rw [ha] at h1
        cases hb : find? x k with
        | some b => rw [hb] at h1; simp at h1
        | none => simpa using h2
end

mutual
  theorem mapAt_id (p : Nat) (g : HTree → HTree) : ∀ T : HTree, p ∉ handles T → mapAt p g T = T
    | .node h v ks => by
      intro hm
      unfold handles at hm
      unfold mapAt
      have hh : ¬ h = p := fun e => hm (by simp [e])
      simp only [hh, if_false]
      rw [mapAtList_id p g ks (fun h' => hm (List.mem_cons_of_mem _ h'))]
  theorem mapAtList_id (p : Nat) (g : HTree → HTree) : ∀ ks : List HTree, p ∉ handlesList ks →
      mapAtList p g ks = ks
    | [] => by simp [mapAtList]
    | k :: ks => by
      intro hm
      unfold handlesList at hm
      simp only [mapAtList]
      rw [mapAt_id p g k (fun h' => hm (List.mem_append_left _ h')),
        mapAtList_id p g ks (fun h' => hm (List.mem_append_right _ h'))]
end

mutual
  theorem mapAt_count_ins (p : Nat) (g : HTree → HTree) (t : HTree) (hg : InsertsUnder g t) :
      ∀ T : HTree, (handles T).Nodup → p ∈ handles T → ∀ a,
      (handles (mapAt p g T)).count a = (handles T).count a + (handles t).count a
    | .node h v ks => by
      intro hn hm a
      unfold mapAt
      by_cases hh : h = p
      · simp only [hh, if_true]
        rw [handles_eq, handles_eq, hg.handle, List.count_cons, List.count_cons, hg.handles]
        omega
      · simp only [hh, if_false]
        unfold handles at hn hm
        have hm' : p ∈ handlesList ks := by
          rcases List.mem_cons.1 hm with e | e
          · exact absurd e.symm hh
          · exact e
        have := mapAtList_count_ins p g t hg ks (List.nodup_cons.1 hn).2 hm' a
        simp only [handles, List.count_cons]
        omega
  theorem mapAtList_count_ins (p : Nat) (g : HTree → HTree) (t : HTree) (hg : InsertsUnder g t) :
      ∀ ks : List HTree, (handlesList ks).Nodup → p ∈ handlesList ks → ∀ a,
      (handlesList (mapAtList p g ks)).count a = (handlesList ks).count a + (handles t).count a
    | [] => by simp [handlesList]
    | k :: ks => by
      intro hn hm a
      unfold handlesList at hn hm
      have hna := List.nodup_append.1 hn
      simp only [mapAtList, handlesList, List.count_append]
      by_cases hk : p ∈ handles k
      · have hks : p ∉ handlesList ks := fun h' => hna.2.2 _ hk _ h' rfl
        rw [mapAtList_id p g ks hks, mapAt_count_ins p g t hg k hna.1 hk a]
        omega
      · have hks : p ∈ handlesList ks := by
          rcases List.mem_append.1 hm with h' | h'
          · exact absurd h' hk
          · exact h'
        rw [mapAt_id p g k hk, mapAtList_count_ins p g t hg ks hna.2.1 hks a]
        omega
end

end XotModel
