/-
  Finv (C04), part 10: `replaceKids` pushed through a decomposition at *another* handle (so that
  the context of `p` is known after `c` has been cut), and the relation between `ancestors` and
  subtrees.
-/
import XotModel.Lemmas.FinvMerge

namespace XotModel
open HTree

theorem replaceKids_append_of_nodup (c : Nat) (g : HTree → List HTree) (a b : List HTree)
    (nd : (handlesList (a ++ b)).Nodup) :
    replaceKids c g (a ++ b) = replaceKids c g a ++ replaceKids c g b := by
  induction a with
  | nil => simp [replaceKids]
  | cons k a' ih =>
    have nd' : (handlesList (a' ++ b)).Nodup := by
      simp only [List.cons_append, fi_handlesList_cons] at nd
      exact (List.nodup_append.mp nd).2.1
    rw [List.cons_append, replaceKids_cons, replaceKids_cons]
    by_cases hk : k.handle = c
    · rw [if_pos hk, if_pos hk]
      have hb : c ∉ handlesList b := by
        intro hc
        simp only [List.cons_append, fi_handlesList_cons, fi_handlesList_append] at nd
        have := (List.nodup_append.mp nd).2.2 c (hk ▸ fi_handle_mem_handles k) c (by simp [hc])
        exact this rfl
      rw [replaceKids_of_not_mem c g b hb]
      simp
    · rw [if_neg hk, if_neg hk, ih nd']
      simp

/-- Apply `F` to the sibling lists of a frame. -/
def ZipFrame.mapKids (F : List HTree → List HTree) (fr : ZipFrame) : ZipFrame := ⟨F fr.l, fr.h, fr.v, F fr.r⟩

@[simp] theorem ZipFrame.mapKids_h (F : List HTree → List HTree) (fr : ZipFrame) : (fr.mapKids F).h = fr.h := rfl
@[simp] theorem ZipFrame.mapKids_v (F : List HTree → List HTree) (fr : ZipFrame) : (fr.mapKids F).v = fr.v := rfl

theorem innerValue_map_mapKids (F : List HTree → List HTree) (path : List ZipFrame) :
    innerValue (path.map (ZipFrame.mapKids F)) = innerValue path := by
  unfold innerValue
  rw [List.getLast?_map]
  cases path.getLast? <;> rfl

/-- `replaceKids c g` on a plugged forest when `c` is none of the path's nodes. -/
theorem replaceKids_plug_off (c : Nat) (g : HTree → List HTree) (path : List ZipFrame) (ks : List HTree)
    (nd : (handlesList (plug path ks)).Nodup) (hoff : ∀ fr ∈ path, fr.h ≠ c) :
    replaceKids c g (plug path ks) =
      plug (path.map (ZipFrame.mapKids (replaceKids c g))) (replaceKids c g ks) := by
  induction path with
  | nil => rfl
  | cons fr rest ih =>
    rw [plug_cons] at nd ⊢
    have nd1 := nd
    rw [fi_handlesList_append] at nd1
    have nd2 : (handlesList (HTree.node fr.h fr.v (plug rest ks) :: fr.r)).Nodup :=
      (List.nodup_append.mp nd1).2.1
    have nd3 : (handlesList (plug rest ks)).Nodup := by
      simp only [fi_handlesList_cons, fi_handles_node, List.cons_append] at nd2
      have := (List.nodup_cons.mp nd2).2
      exact (List.nodup_append.mp this).1
    rw [replaceKids_append_of_nodup c g _ _ nd, replaceKids_cons,
      if_neg (by simpa using hoff fr (by simp)), replaceBelow,
      ih nd3 (fun fr' h' => hoff fr' (by simp [h']))]
    rfl

/-- Remove the node `c` from a child list / from below a tree (what `cut` does). -/
abbrev rk (c : Nat) : List HTree → List HTree := replaceKids c (fun _ => [])
abbrev rb (c : Nat) : HTree → HTree := replaceBelow c (fun _ => [])
abbrev cutPath (c : Nat) (path : List ZipFrame) : List ZipFrame := path.map (ZipFrame.mapKids (rk c))

namespace Forest

/-- Under distinct handles `cut c` is `replaceKids c (fun _ => [])` on the roots, root or not. -/
theorem cut_eq_replaceKids {f : Forest} {c : Nat} {path l k r} (lc : Loc f.roots c path l k r)
    (nd : f.allHandles.Nodup) :
    f.cut c = ({ f with roots := replaceKids c (fun _ => []) f.roots }, some k) := by
  have hf := lc.fresh nd
  rw [cut_of_loc lc nd]
  congr 2
  rw [lc.eq, replaceKids_plug c _ path l k r lc.hk hf.path hf.left]
  simp

/-- The context of `p` after `c` (not `p`, not above `p`) has been cut. -/
theorem cut_of_loc_other {f : Forest} {p c : Nat} {path lp K rp} (lp' : Loc f.roots p path lp K rp)
    (nd : f.allHandles.Nodup) (hc : c ∈ f.allHandles) (hanc : (f.ancestors p).contains c = false) :
    ∃ t, f.get? c = some t ∧
      f.cut c = ({ f with roots := plug (cutPath c path) (rk c lp ++ rb c K :: rk c rp) }, some t) := by
  obtain ⟨pathc, lc, C, rc, locc⟩ := exists_loc hc
  refine ⟨C, get?_of_loc locc nd, ?_⟩
  rw [cut_eq_replaceKids locc nd]
  rw [ancestors_of_loc lp' nd] at hanc
  have hne : p ≠ c ∧ ∀ fr ∈ path, fr.h ≠ c := by
    simp only [List.contains_eq_mem, List.mem_cons, List.mem_reverse, List.mem_map,
      decide_eq_false_iff_not, not_or, not_exists, not_and] at hanc
    exact ⟨fun e => hanc.1 e.symm, fun fr hfr e => hanc.2 fr hfr e⟩
  have nd' : (handlesList (plug path (lp ++ K :: rp))).Nodup := by
    have := nd; unfold allHandles at this; rwa [lp'.eq] at this
  have nd2 : (handlesList (lp ++ K :: rp)).Nodup := by
    have := nodup_plug.mp nd'
    exact (List.nodup_append.mp this).2.1
  congr 2
  rw [lp'.eq, replaceKids_plug_off c _ path _ nd' hne.2, replaceKids_append_of_nodup c _ _ _ nd2,
    replaceKids_cons, if_neg (by rw [lp'.hk]; exact hne.1)]

/-- A handle inside the subtree of `c` has `c` among its ancestors. -/
theorem anc_of_mem_subtree {f : Forest} {c x : Nat} {path l C r} (lc : Loc f.roots c path l C r)
    (nd : f.allHandles.Nodup) (hx : x ∈ handles C) : (f.ancestors x).contains c = true := by
  rw [fi_handles_eq, lc.hk, List.mem_cons] at hx
  rcases hx with hx | hx
  · subst hx
    rw [ancestors_of_loc lc nd]; simp
  · obtain ⟨path2, l2, k2, r2, he, hk⟩ := exists_plug_of_mem x C.kids hx
    have lx : Loc f.roots x (path ++ [⟨l, c, C.value, r⟩] ++ path2) l2 k2 r2 := by
      refine ⟨?_, hk⟩
      rw [List.append_assoc, plug_append, lc.eq]
      congr 1
      simp only [List.cons_append, List.nil_append, plug_cons, ← he, ← lc.hk, node_eta]
    rw [ancestors_of_loc lx nd]
    simp

/-- Conversely. -/
theorem mem_subtree_of_anc {f : Forest} {c x : Nat} {path l C r} (lc : Loc f.roots c path l C r)
    (nd : f.allHandles.Nodup) (hx : x ∈ f.allHandles) (ha : (f.ancestors x).contains c = true) :
    x ∈ handles C := by
  obtain ⟨pathx, lx, X, rx, locx⟩ := exists_loc hx
  rw [ancestors_of_loc locx nd] at ha
  simp only [List.contains_eq_mem, List.mem_cons, List.mem_reverse, List.mem_map,
    decide_eq_true_eq] at ha
  rcases ha with ha | ⟨fr, hfr, ha⟩
  · subst ha
    have e1 := get?_of_loc lc nd
    have e2 := get?_of_loc locx nd
    rw [e1] at e2; cases e2
    rw [fi_handles_eq, lc.hk]; simp
  · obtain ⟨p1, p2, hp⟩ := List.append_of_mem hfr
    have lc2 : Loc f.roots c p1 fr.l (.node fr.h fr.v (plug p2 (lx ++ X :: rx))) fr.r := by
      refine ⟨?_, ha⟩
      rw [locx.eq, hp, plug_append]; rfl
    have e1 := get?_of_loc lc nd
    have e2 := get?_of_loc lc2 nd
    rw [e1] at e2; cases e2
    rw [fi_handles_node]
    refine List.mem_cons_of_mem _ (mem_handlesList_plug.mpr (Or.inr ?_))
    simp only [fi_handlesList_append, fi_handlesList_cons, List.mem_append]
    exact Or.inr (Or.inl (locx.hk ▸ fi_handle_mem_handles X))

end Forest
end XotModel
