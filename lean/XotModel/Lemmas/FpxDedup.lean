/-
  Fpx, part 4: `deduplicate_namespaces` in the forest model on a forest satisfying the invariant:
  every node recorded in `to_remove` by the traversal of a pass is an ELEMENT of the tree (`dpRem`,
  the structural form of the traversal: Lemmas/DedupWalk.lean), so the call list of EVERY pass
  consists of `namespaces_mut(h).remove` calls on elements and runs to the end; by induction on the
  fuel the loop never fails and never panics.
-/
import XotModel.Lemmas.FpxRepair
import XotModel.Lemmas.DedupWalk

namespace XotModel
open Repair

mutual
theorem fpx_dpRem_elem (env : Env) : ∀ (t : Tree) (K : List (List (Nat × Nat))) (rm : Path × Nat),
    rm ∈ dpRem env K t → ElemAt t rm.1
  | .node v ks, K, rm, h => by
    by_cases he : v.isElement = true
    · simp only [dpRem, he, ↓reduceIte, List.mem_append, List.mem_map] at h
      rcases h with ⟨kv, _, rfl⟩ | h
      · cases v with
        | element name => exact ⟨name, ks, rfl⟩
        | document | text _ | pi _ _ | comment _ | «attribute» _ _ | «namespace» _ _ =>
          simp [Value.isElement] at he
      · obtain ⟨j, k, q', hk, hq, n, kk, hn⟩ := fpx_dpRemList_elem env ks _ 0 rm h
        refine ⟨n, kk, ?_⟩
        rw [hq]; simp only [Tree.at?, Nat.zero_add, hk]; exact hn
    · have he' : v.isElement = false := by simpa using he
      simp only [dpRem, he', Bool.false_eq_true, ↓reduceIte] at h
      obtain ⟨j, k, q', hk, hq, n, kk, hn⟩ := fpx_dpRemList_elem env ks _ 0 rm h
      refine ⟨n, kk, ?_⟩
      rw [hq]; simp only [Tree.at?, Nat.zero_add, hk]; exact hn
theorem fpx_dpRemList_elem (env : Env) : ∀ (ks : List Tree) (K : List (List (Nat × Nat))) (i : Nat)
    (rm : Path × Nat), rm ∈ dpRem.dpRemList env K i ks →
      ∃ j k q', ks[j]? = some k ∧ rm.1 = (i + j) :: q' ∧ ElemAt k q'
  | [], _, _, _, h => by simp [dpRem.dpRemList] at h
  | k :: ks, K, i, rm, h => by
    simp only [dpRem.dpRemList, List.mem_append, List.mem_map] at h
    rcases h with ⟨rm', h', rfl⟩ | h
    · exact ⟨0, k, rm'.1, rfl, by simp [prefixRem], fpx_dpRem_elem env k K rm' h'⟩
    · obtain ⟨j, k', q', hk, hq, he⟩ := fpx_dpRemList_elem env ks K (i + 1) rm h
      exact ⟨j + 1, k', q', by simpa using hk, by rw [hq]; congr 1; omega, he⟩
end

/-- Every node in `to_remove` of a pass is an element below the start node. -/
theorem fpx_dedupToRemove_elem (env : Env) (path : Path) (sub : Tree) :
    ∀ rm ∈ dedupToRemove env path sub, ∃ q', rm.1 = path ++ q' ∧ ElemAt sub q' := by
  intro rm h
  rw [dedupToRemove_eq] at h
  obtain ⟨rm', h', rfl⟩ := List.mem_map.mp h
  exact ⟨rm'.1, rfl, fpx_dpRem_elem env sub [] rm' h'⟩

open HTree

namespace Forest

/-- The call list of ONE PASS of `deduplicate_namespaces(node)`, on any forest with the invariant:
    removals from the namespace maps of elements. -/
theorem fpx_dedupCalls {f : Forest} (hi : f.Inv) (env : Env) (node : Nat) :
    ∀ c ∈ f.dedupCalls env node, c.isNsEdit f ∧ ∃ h pfx, c = .mapRemove .namespaces h pfx := by
  intro c hc
  unfold dedupCalls at hc
  cases hr : f.rootOf? node with
  | none => rw [hr] at hc; cases hc
  | some r =>
    rw [hr] at hc
    simp only at hc
    cases hp : r.pathOf node with
    | none => rw [hp] at hc; cases hc
    | some path =>
      rw [hp] at hc
      simp only at hc
      cases hs : r.erase.at? path with
      | none => rw [hs] at hc; cases hc
      | some sub =>
        rw [hs] at hc
        simp only at hc
        obtain ⟨rm, hrm', h2⟩ := List.mem_flatMap.mp hc
        cases hh : r.handleAt rm.1 with
        | none => rw [hh] at h2; cases h2
        | some h =>
          rw [hh] at h2
          simp only [List.mem_singleton] at h2
          subst h2
          refine ⟨?_, h, rm.2, rfl⟩
          obtain ⟨q', hq, name, ks, hel⟩ := fpx_dedupToRemove_elem env path sub rm hrm'
          have hrm : r ∈ f.roots := by
            unfold rootOf? at hr; exact List.mem_of_find?_eq_some hr
          have hat : r.erase.at? rm.1 = some (.node (.element name) ks) := by
            rw [hq, fpx_at?_append, hs]; exact hel
          show f.isElement h = true
          rw [fpx_isElement_of_at? hi.nodup hrm hh hat]; rfl

/-- Every pass runs to its end; so the loop, whatever the fuel: never an error, never a panic, the
    invariant is kept and no node changes between element and non-element. -/
theorem fpx_dedupLoop (env : Env) (node : Nat) : ∀ (fuel : Nat) {f : Forest}, f.Inv →
    (dedupLoop env node fuel f).2 = .ok ∧ (dedupLoop env node fuel f).1.Inv ∧
      ∀ x, (dedupLoop env node fuel f).1.isElement x = f.isElement x
  | 0, _, hi => ⟨rfl, hi, fun _ => rfl⟩
  | fuel + 1, f, hi => by
    unfold dedupLoop
    dsimp only
    split
    · exact ⟨rfl, hi, fun _ => rfl⟩
    · obtain ⟨h1, h2, h3⟩ := fpx_runCalls_ok (f.dedupCalls env node) hi
        (fun c hc => (fpx_dedupCalls hi env node c hc).1)
      rcases hr : f.runCalls (f.dedupCalls env node) with ⟨f', r⟩
      rw [hr] at h1 h2 h3
      simp only at h1
      subst h1
      obtain ⟨h4, h5, h6⟩ := fpx_dedupLoop env node fuel h2
      exact ⟨h4, h5, fun x => by rw [h6 x, h3 x]⟩

/-- **`deduplicate_namespaces` at forest level never fails and never panics**; the invariant is kept and
    no node changes between element and non-element. -/
theorem fpx_deduplicateNamespaces {f : Forest} (hi : f.Inv) (env : Env) (node : Nat) :
    (f.deduplicateNamespaces env node).2 = .ok ∧ (f.deduplicateNamespaces env node).1.Inv ∧
      ∀ x, (f.deduplicateNamespaces env node).1.isElement x = f.isElement x :=
  fpx_dedupLoop env node _ hi

end Forest
end XotModel
