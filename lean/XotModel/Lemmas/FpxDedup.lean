/-
  Fpx, part 4: `deduplicate_namespaces` in the forest model on a forest satisfying the invariant:
  every fix-up node recorded by the first loop is an ELEMENT of the tree (`ddWalk`, the structural
  form of the loop: Lemmas/ScopeRebuild.lean), so the call list consists of `namespaces_mut(h).remove`
  calls on elements and runs to the end — the call never fails and never panics.
-/
import XotModel.Lemmas.FpxRepair
import XotModel.Lemmas.ScopeRebuild

namespace XotModel
open Repair

mutual
theorem fpx_ddWalk_elem (env : Env) : ∀ (t : Tree) (top : List (Nat × Nat)) (tr : Tracker) (fp : Path × List Nat),
    fp ∈ (ddWalk env top t tr).2 → ElemAt t fp.1
  | .node v ks, top, tr, fp, h => by
    cases v with
    | element name =>
      simp only [ddWalk, List.mem_append] at h
      rcases h with h | h
      · obtain ⟨j, k, q', hk, hq, n, kk, hn⟩ := fpx_ddWalkList_elem env ks _ 0 _ fp h
        refine ⟨n, kk, ?_⟩
        rw [hq]; simp only [Tree.at?, Nat.zero_add, hk]; exact hn
      · split at h
        · simp only [List.mem_singleton] at h; subst h; exact ⟨name, ks, rfl⟩
        · cases h
    | document | text _ | pi _ _ | comment _ | «attribute» _ _ | «namespace» _ _ =>
      simp only [ddWalk] at h
      obtain ⟨j, k, q', hk, hq, n, kk, hn⟩ := fpx_ddWalkList_elem env ks _ 0 _ fp h
      refine ⟨n, kk, ?_⟩
      rw [hq]; simp only [Tree.at?, Nat.zero_add, hk]; exact hn
theorem fpx_ddWalkList_elem (env : Env) : ∀ (ks : List Tree) (top : List (Nat × Nat)) (i : Nat) (tr : Tracker)
    (fp : Path × List Nat), fp ∈ (ddWalk.ddWalkList env top i ks tr).2 →
      ∃ j k q', ks[j]? = some k ∧ fp.1 = (i + j) :: q' ∧ ElemAt k q'
  | [], _, _, _, _, h => by simp [ddWalk.ddWalkList] at h
  | k :: ks, top, i, tr, fp, h => by
    simp only [ddWalk.ddWalkList, List.mem_append, List.mem_map] at h
    rcases h with ⟨fp', h', rfl⟩ | h
    · exact ⟨0, k, fp'.1, rfl, by simp [prefixPath], fpx_ddWalk_elem env k top tr fp' h'⟩
    · obtain ⟨j, k', q', hk, hq, he⟩ := fpx_ddWalkList_elem env ks top (i + 1) _ fp h
      exact ⟨j + 1, k', q', by simpa using hk, by rw [hq]; congr 1; omega, he⟩
end

/-- Every fix-up node of the first loop is an element below the start node. -/
theorem fpx_dedupFixups_elem (env : Env) (path : Path) (sub : Tree) :
    ∀ fp ∈ dedupFixups env path sub, ∃ q', fp.1 = path ++ q' ∧ ElemAt sub q' := by
  intro fp h
  rw [dedupFixups_eq] at h
  obtain ⟨fp', h', rfl⟩ := List.mem_map.mp h
  exact ⟨fp'.1, rfl, fpx_ddWalk_elem env sub [] [] fp' h'⟩

theorem fpx_dedupFixupPrefixes_fst (t : Tree) (fixups : List (Path × List Nat)) :
    ∀ fp ∈ dedupFixupPrefixes t fixups, ∃ fx ∈ fixups, fp.1 = fx.1 := by
  intro fp h
  unfold dedupFixupPrefixes at h
  obtain ⟨fx, hfx, h2⟩ := List.mem_flatMap.mp h
  obtain ⟨ns, _, rfl⟩ := List.mem_map.mp h2
  exact ⟨fx, hfx, rfl⟩

open HTree

namespace Forest

/-- The call list of `deduplicate_namespaces(node)`: removals from the namespace maps of elements. -/
theorem fpx_dedupCalls {f : Forest} (hi : f.Inv) (env : Env) (node : Nat) :
    ∀ c ∈ f.dedupCalls env node, c.isNsEdit f ∧ ∃ h pfx, c = .mapRemove .namespaces h pfx := by
  intro c hc
  unfold dedupCalls at hc
  cases hr : f.rootOf? node with
  | none => rw [hr] at hc; cases hc
  | some r =>
    rw [hr] at hc
    simp only at hc
    cases hp : r.pathOf node with
    | none => rw [hp] at hc; cases hc
    | some path =>
      rw [hp] at hc
      simp only at hc
      cases hs : r.erase.at? path with
      | none => rw [hs] at hc; cases hc
      | some sub =>
        rw [hs] at hc
        simp only at hc
        obtain ⟨fp, hfp, h2⟩ := List.mem_flatMap.mp hc
        cases hh : r.handleAt fp.1 with
        | none => rw [hh] at h2; cases h2
        | some h =>
          rw [hh] at h2
          obtain ⟨pfx, _, rfl⟩ := List.mem_map.mp h2
          refine ⟨?_, h, pfx, rfl⟩
          obtain ⟨fx, hfx, he⟩ := fpx_dedupFixupPrefixes_fst _ _ fp hfp
          obtain ⟨q', hq, name, ks, hel⟩ := fpx_dedupFixups_elem env path sub fx hfx
          have hrm : r ∈ f.roots := by
            unfold rootOf? at hr; exact List.mem_of_find?_eq_some hr
          have hat : r.erase.at? fp.1 = some (.node (.element name) ks) := by
            rw [he, hq, fpx_at?_append, hs]; exact hel
          show f.isElement h = true
          rw [fpx_isElement_of_at? hi.nodup hrm hh hat]; rfl

/-- **`deduplicate_namespaces` at forest level never fails and never panics**; the invariant is kept and
    no node changes between element and non-element. -/
theorem fpx_deduplicateNamespaces {f : Forest} (hi : f.Inv) (env : Env) (node : Nat) :
    (f.deduplicateNamespaces env node).2 = .ok ∧ (f.deduplicateNamespaces env node).1.Inv ∧
      ∀ x, (f.deduplicateNamespaces env node).1.isElement x = f.isElement x :=
  fpx_runCalls_ok _ hi (fun c hc => (fpx_dedupCalls hi env node c hc).1)

end Forest
end XotModel
