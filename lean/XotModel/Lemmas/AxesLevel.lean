/-
  `level_order` (levelorder.rs): the queue machine yields the levels below the start node, one
  after the other, with `End` wherever the parent changes and at the very end.
-/
import XotModel.Lemmas.AxesEdges2

namespace XotModel.Axes

/-- Level `k` below `p`: `[p]`, its children, their children, … -/
def levelAt (t : Tree) (p : Path) : Nat → List Path
  | 0 => [p]
  | k + 1 => (levelAt t p k).flatMap (children t)

/-- Breadth-first order below `p`: the levels one after the other (levels from the node count of
    the tree on are empty: `levelAt_size`). -/
def bfsOrder (t : Tree) (p : Path) : List Path := (List.range t.size).flatMap (levelAt t p)

/-- `End` before every node whose parent differs from its predecessor's, and at the end. -/
def withEnds : Path → List Path → List LevelOrder
  | _, [] => [.stop]
  | last, n :: ns => (if parent last != parent n then [LevelOrder.stop] else []) ++ .node n :: withEnds n ns

/-- The order in which the queue is consumed. -/
def queueOrder (t : Tree) : Nat → List Path → List Path
  | 0, _ => []
  | _ + 1, [] => []
  | fuel + 1, n :: q => n :: queueOrder t fuel (q ++ children t n)

@[simp] theorem queueOrder_nil (t : Tree) (f : Nat) : queueOrder t f [] = [] := by cases f <;> rfl

theorem queueOrder_append (t : Tree) : ∀ (a b : List Path) (f : Nat),
    queueOrder t (a.length + f) (a ++ b) = a ++ queueOrder t f (b ++ a.flatMap (children t))
  | [], b, f => by simp
  | x :: a, b, f => by
    rw [show (x :: a).length + f = (a.length + f) + 1 by simp; omega]
    simp only [List.cons_append, queueOrder, List.flatMap_cons]
    rw [List.append_assoc, queueOrder_append t a (b ++ children t x) f]
    simp [List.append_assoc]

/-- The queue runs through the levels. -/
theorem queueOrder_levels (t : Tree) (p : Path) : ∀ (d f : Nat),
    queueOrder t (((List.range d).flatMap (levelAt t p)).length + f) [p] =
      (List.range d).flatMap (levelAt t p) ++ queueOrder t f (levelAt t p d)
  | 0, f => by simp [levelAt]
  | d + 1, f => by
    rw [List.range_succ, List.flatMap_append, List.length_append]
    simp only [List.flatMap_cons, List.flatMap_nil, List.append_nil]
    rw [Nat.add_assoc, queueOrder_levels t p d, List.append_assoc]
    congr 1
    have := queueOrder_append t (levelAt t p d) [] f
    simpa [levelAt] using this

/-- The machine is the queue order with the `End` markers, provided the fuel did not run out. -/
theorem levelOrderLoop_eq (t : Tree) : ∀ (F : Nat) (q : List Path) (last : Path),
    (queueOrder t F q).length < F → levelOrderLoop t F q last = withEnds last (queueOrder t F q)
  | 0, _, _, h => by simp at h
  | F + 1, [], last, _ => by simp [levelOrderLoop, withEnds]
  | F + 1, n :: q, last, h => by
    simp only [queueOrder, List.length_cons] at h
    simp only [levelOrderLoop, queueOrder, withEnds]
    rw [levelOrderLoop_eq t F _ n (by omega)]

/-! ### The fuel is adequate -/

theorem valid_length_lt_size : ∀ (t : Tree) (p : Path), Valid t p → p.length < t.size
  | t, [], _ => by cases t; simp [Tree.size]; omega
  | .node v ks, i :: p, h => by
    unfold Valid at h
    simp only [Tree.at?] at h
    cases hk : ks[i]? with
    | none => rw [hk] at h; cases h
    | some k =>
      rw [hk] at h
      have h1 := valid_length_lt_size k p h
      have h2 := size_getElem?_le ks i k hk
      simp [Tree.size]; omega

theorem children_valid {t : Tree} {n : Path} (h : Valid t n) {c : Path} (hc : c ∈ children t n) :
    Valid t c ∧ c.length = n.length + 1 := by
  unfold children normalChildren at hc
  obtain ⟨x, hx, rfl⟩ := List.mem_map.mp hc
  have hx' : x ∈ allChildren t n := (List.dropWhile_sublist _).subset hx
  have := allChildren_item h hx'
  refine ⟨this.2.1, ?_⟩
  obtain ⟨j, hj⟩ := (parent_eq_some_iff _ _).mp this.2.2
  rw [hj]; simp

theorem levelAt_valid {t : Tree} {p : Path} (h : Valid t p) : ∀ (k : Nat) (n : Path), n ∈ levelAt t p k →
    Valid t n ∧ n.length = p.length + k
  | 0, n, hn => by simp [levelAt] at hn; subst hn; exact ⟨h, rfl⟩
  | k + 1, n, hn => by
    simp only [levelAt, List.mem_flatMap] at hn
    obtain ⟨m, hm, hn⟩ := hn
    have h1 := levelAt_valid h k m hm
    have h2 := children_valid h1.1 hn
    exact ⟨h2.1, by omega⟩

/-- Levels from the node count on are empty. -/
theorem levelAt_size {t : Tree} {p : Path} (h : Valid t p) (k : Nat) (hk : t.size ≤ k) :
    levelAt t p k = [] := by
  cases hl : levelAt t p k with
  | nil => rfl
  | cons n l =>
    have := levelAt_valid h k n (by rw [hl]; simp)
    have := valid_length_lt_size t n this.1
    omega

/-- Sum of the subtree sizes of a list of nodes. -/
def weight (t : Tree) (l : List Path) : Nat := (l.map (fun n => (subAt t n).size)).sum

theorem weight_append (t : Tree) (a b : List Path) : weight t (a ++ b) = weight t a + weight t b := by
  simp [weight]

theorem length_le_weight (t : Tree) : ∀ l : List Path, l.length ≤ weight t l
  | [] => by simp [weight]
  | n :: l => by
    have := length_le_weight t l
    have h1 : 1 ≤ (subAt t n).size := by cases subAt t n; simp [Tree.size]
    simp [weight] at this ⊢; omega

theorem sizeList_eq_sum : ∀ ks : List Tree, Tree.size.sizeList ks = (ks.map Tree.size).sum
  | [] => rfl
  | k :: ks => by simp [Tree.size.sizeList, sizeList_eq_sum ks]

theorem kidPaths_weight {t : Tree} {n : Path} (h : Valid t n) : ∀ (l : List (Path × Tree)),
    (∀ x ∈ l, x ∈ allChildren t n) → weight t (l.map (·.1)) = (l.map (fun x => x.2.size)).sum
  | [], _ => by simp [weight]
  | x :: l, hl => by
    have hx := (allChildren_item h (hl x (by simp))).1
    have := kidPaths_weight h l (fun y hy => hl y (by simp [hy]))
    simp [weight] at this ⊢
    rw [hx, this]

theorem sum_sublist_le {l₁ l₂ : List Nat} (h : l₁.Sublist l₂) : l₁.sum ≤ l₂.sum := by
  induction h with
  | slnil => simp
  | cons a _ ih => simp; omega
  | cons_cons a _ ih => simp; omega

/-- A node weighs more than its children together. -/
theorem weight_children (t : Tree) (n : Path) : weight t (children t n) + 1 ≤ (subAt t n).size := by
  by_cases h : Valid t n
  · unfold children normalChildren
    have hsub : ((allChildren t n).dropWhile (fun x => !itemNormal x)).Sublist (allChildren t n) :=
      List.dropWhile_sublist _
    rw [kidPaths_weight h _ (fun x hx => hsub.subset hx)]
    have h1 := sum_sublist_le (hsub.map (fun x => x.2.size))
    have hsnd : ∀ (i : Nat) (ks : List Tree), (kidPaths n i ks).map (fun x => x.2.size) = ks.map Tree.size := by
      intro i ks; induction ks generalizing i with
      | nil => rfl
      | cons a ks ih => simp [kidPaths, ih]
    have h2 : ((allChildren t n).map (fun x => x.2.size)).sum = Tree.size.sizeList (subAt t n).kids := by
      unfold allChildren; rw [hsnd, ← sizeList_eq_sum]
    rw [h2] at h1
    cases hs : subAt t n with
    | node v ks => rw [hs] at h1; simp only [Tree.size, Tree.kids] at h1 ⊢; omega
  · have : subAt t n = .node .document [] := by
      unfold Valid at h
      unfold subAt
      cases h' : t.at? n with
      | none => rfl
      | some s => rw [h'] at h; simp at h
    simp [children, normalChildren, allChildren, this, Tree.kids, kidPaths, weight, Tree.size,
      Tree.size.sizeList]

theorem weight_flatMap_children (t : Tree) : ∀ l : List Path,
    l.length + weight t (l.flatMap (children t)) ≤ weight t l
  | [] => by simp [weight]
  | n :: l => by
    have h1 := weight_flatMap_children t l
    have h2 := weight_children t n
    simp only [List.flatMap_cons, weight_append, List.length_cons]
    have : weight t (n :: l) = (subAt t n).size + weight t l := by simp [weight]
    omega

theorem levels_weight (t : Tree) (p : Path) : ∀ d : Nat,
    ((List.range d).flatMap (levelAt t p)).length + weight t (levelAt t p d) ≤ (subAt t p).size
  | 0 => by simp [levelAt, weight]
  | d + 1 => by
    have ih := levels_weight t p d
    have := weight_flatMap_children t (levelAt t p d)
    rw [List.range_succ, List.flatMap_append, List.length_append]
    simp only [List.flatMap_cons, List.flatMap_nil, List.append_nil, levelAt]
    omega

theorem bfsOrder_length_le {t : Tree} {p : Path} (h : Valid t p) : (bfsOrder t p).length ≤ t.size := by
  have h1 := levels_weight t p t.size
  have h2 := size_at?_le t p _ h.at?
  unfold bfsOrder; omega

/-- `level_order` = the levels below `p` in order, `End` wherever the parent changes and at the
    end. -/
theorem levelOrder_eq {t : Tree} {p : Path} (h : Valid t p) :
    levelOrder t p = withEnds p (bfsOrder t p) := by
  have hlen := bfsOrder_length_le h
  obtain ⟨f, hf⟩ : ∃ f, t.size + 1 = (bfsOrder t p).length + f := ⟨t.size + 1 - (bfsOrder t p).length, by omega⟩
  have hq : queueOrder t (t.size + 1) [p] = bfsOrder t p := by
    rw [hf]
    unfold bfsOrder
    rw [queueOrder_levels t p t.size f, levelAt_size h t.size (Nat.le_refl _)]
    simp
  unfold levelOrder
  rw [levelOrderLoop_eq t (t.size + 1) [p] p (by rw [hq]; omega), hq]

end XotModel.Axes
