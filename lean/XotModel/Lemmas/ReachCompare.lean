/-
  Reach, part 3: the structural hypotheses of the C13 theorems — `Tree.valid` (children ordered,
  attribute names unique, attribute / namespace nodes are leaves), `Tree.contentLeaves` (text, comment
  and PI nodes are leaves), `Tree.noInnerDocument` (no document node below the root),
  `Tree.validRootFor xpathKeep` — follow from `Reach.Structural`, hence hold of the erasure of every
  root of a forest with the invariant and of every subtree of it.
-/
import XotModel.Lemmas.ReachNode
import XotModel.Lemmas.CompareStrip

namespace XotModel.Reach
open XotModel

theorem cat_namespace_iff (v : Value) : (v.category == .namespace) = true ↔ v.phase = 0 := by
  cases v <;> simp [Value.category, Value.phase]

theorem cat_attribute_iff (v : Value) : (v.category == .attribute) = true ↔ v.phase = 1 := by
  cases v <;> simp [Value.category, Value.phase]

theorem isNormal_iff_phase' (v : Value) : v.isNormal = true ↔ 2 ≤ v.phase := by
  cases v <;> simp [Value.isNormal, Value.category, Value.phase]

/-- All children at phase ≥ 1, sorted: after the attributes only normal nodes remain. -/
theorem dropAttrs_normal : ∀ ks : List Tree, OrderedKids ks → (∀ k ∈ ks, 1 ≤ k.value.phase) →
    ((ks.dropWhile (fun k => k.value.category == .attribute)).all (fun k => k.value.isNormal)) = true
  | [], _, _ => rfl
  | a :: ks, h, h1 => by
    unfold OrderedKids at h
    rw [List.pairwise_cons] at h
    by_cases ha : (a.value.category == .attribute) = true
    · simp only [List.dropWhile_cons, ha, if_true]
      exact dropAttrs_normal ks h.2 (fun k hk => h1 k (List.mem_cons_of_mem _ hk))
    · have ha1 : ¬ a.value.phase = 1 := fun h' => ha ((cat_attribute_iff _).mpr h')
      have ha2 : 2 ≤ a.value.phase := by have := h1 a (List.mem_cons_self ..); omega
      simp only [List.dropWhile_cons, ha, if_false, List.all_cons, Bool.and_eq_true, List.all_eq_true,
        Bool.false_eq_true]
      refine ⟨(isNormal_iff_phase' _).mpr ha2, fun k hk => (isNormal_iff_phase' _).mpr ?_⟩
      exact Nat.le_trans ha2 (h.1 k hk)

/-- `OrderedKids` gives the comparison functions' `orderedKids`. -/
theorem compare_orderedKids : ∀ ks : List Tree, OrderedKids ks → orderedKids ks = true
  | [], _ => rfl
  | a :: ks, h => by
    unfold orderedKids
    by_cases ha : (a.value.category == .namespace) = true
    · simp only [List.dropWhile_cons, ha, if_true]
      have h' : OrderedKids ks := by
        unfold OrderedKids at h ⊢; exact (List.pairwise_cons.mp h).2
      exact compare_orderedKids ks h'
    · have ha0 : ¬ a.value.phase = 0 := fun h' => ha ((cat_namespace_iff _).mpr h')
      rw [List.dropWhile_cons_of_neg (p := fun k : Tree => k.value.category == .namespace) ha]
      refine dropAttrs_normal (a :: ks) h (fun k hk => ?_)
      rcases List.mem_cons.mp hk with rfl | hk
      · omega
      · have := (List.pairwise_cons.mp h).1 k hk
        omega

theorem attrPairs_fst : ∀ ks : List Tree, (attrPairs ks).map (·.1) = attrNames ks
  | [] => rfl
  | k :: ks => by
    have ih := attrPairs_fst ks
    simp only [attrNames, List.filterMap_cons] at ih ⊢
    simp only [attrPairs]
    cases hv : k.value <;> simp [ih]

theorem attrNamesNodup_of_uniqueKids {ks : List Tree} (h : UniqueKids ks) : attrNamesNodup ks = true := by
  simp only [attrNamesNodup, decide_eq_true_eq, attrPairs_fst]
  exact h.1

mutual
  /-- The hypothesis `valid` of the C13 theorems. -/
  theorem valid_of_structural : ∀ t : Tree, Structural t → t.valid = true
    | .node v ks, h => by
      obtain ⟨ho, hk, hu, hkids⟩ := h.node
      simp only [Tree.valid, Bool.and_eq_true, Bool.or_eq_true]
      refine ⟨⟨⟨compare_orderedKids ks ho, attrNamesNodup_of_uniqueKids hu⟩, ?_⟩,
        validList_of_structural ks hkids⟩
      by_cases hn : v.isNormal = true
      · exact Or.inl hn
      · right
        have : v.isLeafKind = true := by
          cases v <;> simp_all [Value.isNormal, Value.category, Value.isLeafKind]
        rw [hk.1 this]; rfl
  theorem validList_of_structural : ∀ ks : List Tree, (∀ k ∈ ks, Structural k) →
      Tree.valid.validList ks = true
    | [], _ => rfl
    | k :: ks, h => by
      simp only [Tree.valid.validList, Bool.and_eq_true]
      exact ⟨valid_of_structural k (h k (List.mem_cons_self ..)),
        validList_of_structural ks (fun k' hk' => h k' (List.mem_cons_of_mem _ hk'))⟩
end

mutual
  /-- Text, comment and PI nodes are leaves. -/
  theorem contentLeaves_of_structural : ∀ t : Tree, Structural t → t.contentLeaves = true
    | .node v ks, h => by
      obtain ⟨_, hk, _, hkids⟩ := h.node
      simp only [Tree.contentLeaves, Bool.and_eq_true]
      refine ⟨?_, leavesList_of_structural ks hkids⟩
      cases v <;> first | rfl | (rw [hk.1 rfl]; rfl)
  theorem leavesList_of_structural : ∀ ks : List Tree, (∀ k ∈ ks, Structural k) →
      Tree.contentLeaves.leavesList ks = true
    | [], _ => rfl
    | k :: ks, h => by
      simp only [Tree.contentLeaves.leavesList, Bool.and_eq_true]
      exact ⟨contentLeaves_of_structural k (h k (List.mem_cons_self ..)),
        leavesList_of_structural ks (fun k' hk' => h k' (List.mem_cons_of_mem _ hk'))⟩
end

mutual
  /-- No document node below the root. -/
  theorem noInnerDocument_of_structural : ∀ t : Tree, Structural t → t.noInnerDocument = true
    | .node v ks, h => by
      obtain ⟨_, hk, _, hkids⟩ := h.node
      simp only [Tree.noInnerDocument]
      exact noDocList_of_structural ks hkids hk.2.2
  theorem noDocList_of_structural : ∀ ks : List Tree, (∀ k ∈ ks, Structural k) →
      (∀ k ∈ ks, k.value.isDocument = false) → Tree.noInnerDocument.noDocList ks = true
    | [], _, _ => rfl
    | k :: ks, h, hd => by
      simp only [Tree.noInnerDocument.noDocList, Bool.and_eq_true, Bool.not_eq_true']
      exact ⟨⟨hd k (List.mem_cons_self ..), noInnerDocument_of_structural k (h k (List.mem_cons_self ..))⟩,
        noDocList_of_structural ks (fun k' hk' => h k' (List.mem_cons_of_mem _ hk'))
          (fun k' hk' => hd k' (List.mem_cons_of_mem _ hk'))⟩
end

/-- The hypothesis of the `deep_equal_xpath` theorems. -/
theorem validRootFor_xpathKeep_of_structural {t : Tree} (h : Structural t) :
    t.validRootFor xpathKeep = true :=
  validRootFor_xpathKeep_of_valid t (valid_of_structural t h) (contentLeaves_of_structural t h)
    (noInnerDocument_of_structural t h)

/-- All C13 hypotheses at once, for a node anywhere in a structurally valid tree. -/
theorem compare_hyps_at {t : Tree} (h : Structural t) {p : Path} {s : Tree} (hs : t.at? p = some s) :
    s.valid = true ∧ s.contentLeaves = true ∧ s.noInnerDocument = true ∧
      s.validRootFor xpathKeep = true ∧ orderedKids s.kids = true ∧ attrNamesNodup s.kids = true := by
  have hsub := h.sub hs
  refine ⟨valid_of_structural s hsub, contentLeaves_of_structural s hsub,
    noInnerDocument_of_structural s hsub, validRootFor_xpathKeep_of_structural hsub, ?_, ?_⟩
  · cases s with
    | node v ks => exact compare_orderedKids ks hsub.node.1
  · cases s with
    | node v ks => exact attrNamesNodup_of_uniqueKids hsub.node.2.2.1

/-! ### From the forest invariant -/

/-- **Every node of every root of a forest with the invariant satisfies the hypotheses of the C13
    theorems.** -/
theorem compare_hyps_root {f : Forest} (hi : f.Inv) {r : HTree} (hr : r ∈ f.roots) {p : Path} {s : Tree}
    (hs : r.erase.at? p = some s) :
    s.valid = true ∧ s.contentLeaves = true ∧ s.noInnerDocument = true ∧
      s.validRootFor xpathKeep = true ∧ orderedKids s.kids = true ∧ attrNamesNodup s.kids = true :=
  compare_hyps_at (structural_root hi hr) hs

end XotModel.Reach
