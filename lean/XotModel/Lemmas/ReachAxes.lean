/-
  Reach, part 2: the structural hypotheses of the C07 theorems (`Axes.wf`: non-normal nodes are
  leaves, no normal child before a non-normal one; `Axes.kidsSorted`: namespaces, attributes, normal
  nodes) follow from `Reach.Structural` (the structural clauses of `StructValid`), hence hold of the
  erasure of every root of a forest with the invariant, at every node.
-/
import XotModel.Lemmas.ReachNode
import XotModel.Lemmas.AxesCats

namespace XotModel.Reach
open XotModel XotModel.Axes

theorem isNormal_iff_phase (v : Value) : v.isNormal = true ↔ v.phase = 2 := by
  cases v <;> simp [Value.isNormal, Value.category, Value.phase]

theorem phase_le_two (v : Value) : v.phase ≤ 2 := by
  cases v <;> simp [Value.phase]

theorem phase_eq_catRank (v : Value) : v.phase = catRank v.category := by
  cases v <;> rfl

/-- `OrderedKids` (pairwise by phase) gives C07's `kidsSorted` (pairwise by category rank). -/
theorem kidsSorted_of_orderedKids {ks : List Tree} (h : OrderedKids ks) : kidsSorted ks := by
  unfold kidsSorted
  rw [List.pairwise_map]
  exact h.imp (fun {a b} hab => by rw [← phase_eq_catRank, ← phase_eq_catRank]; exact hab)

/-- … and C07's `kidsOrdered`: after the leading non-normal children only normal ones remain. -/
theorem kidsOrdered_of_orderedKids : ∀ {ks : List Tree}, OrderedKids ks → Axes.kidsOrdered ks = true
  | [], _ => by simp [Axes.kidsOrdered]
  | a :: ks, h => by
    unfold OrderedKids at h
    rw [List.pairwise_cons] at h
    unfold Axes.kidsOrdered
    by_cases ha : a.value.isNormal = true
    · simp only [List.dropWhile_cons, ha, Bool.not_true, Bool.false_eq_true, if_false, List.all_cons,
        Bool.true_and, List.all_eq_true]
      intro k hk
      have h2 := h.1 k hk
      rw [(isNormal_iff_phase _).mp ha] at h2
      exact (isNormal_iff_phase _).mpr (Nat.le_antisymm (phase_le_two _) h2)
    · have ha' : a.value.isNormal = false := by simpa using ha
      simp only [List.dropWhile_cons, ha', Bool.not_false, if_true]
      exact kidsOrdered_of_orderedKids (ks := ks) h.2

mutual
  /-- The hypothesis `wf` of the C07 theorems. -/
  theorem wf_of_structural : ∀ t : Tree, Structural t → wf t = true
    | .node v ks, h => by
      obtain ⟨ho, hk, _, hkids⟩ := h.node
      simp only [wf, Bool.and_eq_true, Bool.or_eq_true]
      refine ⟨⟨?_, kidsOrdered_of_orderedKids ho⟩, wfList_of_structural ks hkids⟩
      by_cases hn : v.isNormal = true
      · exact Or.inl hn
      · right
        have : v.isLeafKind = true := by
          cases v <;> simp_all [Value.isNormal, Value.category, Value.isLeafKind]
        rw [hk.1 this]; rfl
  theorem wfList_of_structural : ∀ ks : List Tree, (∀ k ∈ ks, Structural k) → wfList ks = true
    | [], _ => by simp [wfList]
    | k :: ks, h => by
      simp only [wfList, Bool.and_eq_true]
      exact ⟨wf_of_structural k (h k (List.mem_cons_self ..)),
        wfList_of_structural ks (fun k' hk' => h k' (List.mem_cons_of_mem _ hk'))⟩
end

/-- `kidsSorted` at EVERY path (at a path that names no node `subAt` is a leaf). -/
theorem kidsSorted_subAt {t : Tree} (h : Structural t) (p : Path) : kidsSorted (subAt t p).kids := by
  unfold subAt
  cases hs : t.at? p with
  | none => simp [Tree.kids, kidsSorted]
  | some s =>
    cases s with
    | node v ks =>
      simp only [Option.getD_some, Tree.kids]
      exact kidsSorted_of_orderedKids (forall_at _ p t h.ordered v ks hs)

/-- A `StructValid` tree satisfies both hypotheses of the C07 theorems. -/
theorem wf_of_structValid {t : Tree} (h : StructValid t) : wf t = true :=
  wf_of_structural t (Structural.of_structValid h)

/-! ### From the forest invariant -/

/-- **C07's `wf` holds of every root of a forest with the invariant.** -/
theorem wf_root {f : Forest} (hi : f.Inv) {r : HTree} (hr : r ∈ f.roots) : wf r.erase = true :=
  wf_of_structural _ (structural_root hi hr)

/-- **C07's `kidsSorted` holds at every node of every root of a forest with the invariant.** -/
theorem kidsSorted_root {f : Forest} (hi : f.Inv) {r : HTree} (hr : r ∈ f.roots) (p : Path) :
    kidsSorted (subAt r.erase p).kids :=
  kidsSorted_subAt (structural_root hi hr) p

/-- Paths: a path names a node of the erased tree iff it names one of the handle tree. -/
theorem valid_erase_iff (r : HTree) (p : Path) : Valid r.erase p ↔ (r.at? p).isSome = true := by
  unfold Valid
  rw [at?_erase]
  cases r.at? p <;> simp

end XotModel.Reach
