/-
  `Document::xotify` builds `treeOf d` as one new root; the other trees of the store are untouched.
-/
import XotModel.Lemmas.FfixedDocument

namespace XotModel
open HTree

theorem treeOfList_append (a b : List FContent) : treeOfList (a ++ b) = treeOfList a ++ treeOfList b := by
  induction a with
  | nil => rfl
  | cons c cs ih => simp [treeOfList, ih]

theorem treeOfList_docContent (bs : List FDocContent) :
    treeOfList (bs.map FDocContent.toContent) = (bs.map docVal).map (fun v => Tree.node v []) := by
  induction bs with
  | nil => rfl
  | cons b bs ih =>
    cases b <;> simp [treeOfList, FDocContent.toContent, treeOfContent, docVal, ih]

theorem sizeList_append (a b : List FContent) :
    FContent.sizeList (a ++ b) = FContent.sizeList a + FContent.sizeList b := by
  induction a with
  | nil => simp [FContent.sizeList]
  | cons c cs ih => simp [FContent.sizeList, ih, Nat.add_assoc]

theorem sizeList_docContent (bs : List FDocContent) :
    FContent.sizeList (bs.map FDocContent.toContent) = bs.length := by
  induction bs with
  | nil => rfl
  | cons b bs ih =>
    cases b <;> simp [FContent.sizeList, FDocContent.toContent, FContent.size, ih] <;> omega

/-- Number of nodes of the document tree. -/
def FDocument.size (d : FDocument) : Nat := 1 + FContent.sizeList d.items

theorem FDocument.size_eq (d : FDocument) :
    d.size = 1 + d.before.length + d.documentElement.toContent.size + d.after.length := by
  simp only [FDocument.size, FDocument.items, sizeList_append, FContent.sizeList, sizeList_docContent]
  omega

/-- The document tree `Document::xotify` produces. -/
def docTree (dn : Nat) (vb va : List Value) (tel : HTree) : HTree :=
  .node dn .document (leavesFrom (dn + 1) vb ++ tel :: leavesFrom (dn + 1 + vb.length) va)

theorem docTree_handles {n : Nat} {c : FContent} {tel : HTree} (hb : BuiltC n c tel)
    (vb va : List Value) :
    (handles (docTree (n + c.size) vb va tel)).Nodup ∧
    ∀ h ∈ handles (docTree (n + c.size) vb va tel), n ≤ h ∧ h < n + c.size + 1 + vb.length + va.length := by
  unfold docTree
  simp only [handles, handlesList_append_ff, handlesList]
  refine ⟨?_, ?_⟩
  · rw [List.nodup_cons]
    refine ⟨?_, ?_⟩
    · simp only [List.mem_append, mem_handlesList_leavesFrom, not_or]
      refine ⟨by omega, ?_, by omega⟩
      intro hh; have := hb.bounds _ hh; omega
    · refine List.nodup_append.2 ⟨nodup_handlesList_leavesFrom _ _, ?_, ?_⟩
      · refine List.nodup_append.2 ⟨hb.nodup, nodup_handlesList_leavesFrom _ _, ?_⟩
        intro a ha b hb' e
        have := hb.bounds a ha
        rw [mem_handlesList_leavesFrom] at hb'
        omega
      · intro a ha b hb' e
        rw [mem_handlesList_leavesFrom] at ha
        rw [List.mem_append, mem_handlesList_leavesFrom] at hb'
        rcases hb' with hb' | hb'
        · have := hb.bounds b hb'; omega
        · omega
  · intro h hh
    simp only [List.mem_cons, List.mem_append, mem_handlesList_leavesFrom] at hh
    rcases hh with rfl | hh | hh | hh
    · omega
    · omega
    · have := hb.bounds h hh; omega
    · omega

theorem docTree_erase {n : Nat} {tel : HTree} (d : FDocument) (dn : Nat)
    (hb : tel.erase = treeOfContent d.documentElement.toContent) :
    (docTree dn (d.before.map docVal) (d.after.map docVal) tel).erase = treeOf d := by
  unfold docTree treeOf FDocument.items
  simp only [erase, ffx_eraseList_append, eraseList, eraseList_leavesFrom, treeOfList_append, treeOfList,
    treeOfList_docContent, hb]

namespace Forest

/-- `Document::xotify` from any forest with distinct handles below `next`. -/
theorem xotifyDocument_spec (f : Forest) (d : FDocument) (hg : Good f)
    (hwf : d.wf f.consolidation = true) :
    ∃ t, f.xotifyDocument d =
          some ({ f with roots := f.roots ++ [t], next := f.next + d.size }, t.handle) ∧
        t.erase = treeOf d ∧
        Good { f with roots := f.roots ++ [t], next := f.next + d.size } := by
  obtain ⟨tel, hb, hx⟩ := xotifyContent_spec d.documentElement.toContent f hg hwf
  let c := d.documentElement.toContent
  let n := f.next
  let dn := n + c.size
  let f1 : Forest := { f with roots := f.roots ++ [tel], next := dn }
  have hg1 : Good f1 := good_add_root hg hb
  -- new_document_with_element
  have htelv : tel.value = .element d.documentElement.name := by
    rw [← ffx_erase_value, hb.erase]; rfl
  have hnA : n ∉ handlesList f.roots := fun hm => Nat.lt_irrefl _ (hg.below n hm)
  have hget1 : f1.get? n = some tel := by
    show findList? n (f.roots ++ [tel]) = some tel
    rw [ffx_findList?_append_of_not_mem _ _ _ hnA]
    have := ffx_findList?_cons_self tel []
    rw [hb.handle] at this
    exact this
  have hisel : f1.isElement n = true := by
    simp [isElement, value?_of_get? hget1, htelv, Value.isElement]
  let docleaf : HTree := .node dn .document []
  let f1' : Forest := { f1 with roots := f1.roots ++ [docleaf], next := dn + 1 }
  have hg1' : Good f1' := hg1.newNode .document
  have hR : RootAt f1' f.roots tel [docleaf] := ⟨by simp [f1', f1], hg1'.nodup⟩
  have hXY : f.roots ++ [docleaf] = f.roots ++ HTree.node dn .document [] :: [] := rfl
  have happ := hR.append_root hXY (Or.inr rfl) (by simp [htelv, Value.isNormal, Value.category])
    (by simp [htelv, Value.isDocument]) (by intro _ ht; simp [htelv, Value.isText] at ht)
  let f2 : Forest := { f1' with roots := f.roots ++ [HTree.node dn .document ([] ++ tel :: [])] }
  have hg2 : Good f2 := by
    refine Good.of_count_eq (f' := f2) hg1' (Nat.le_refl _) ?_
    intro a
    show (handlesList (f.roots ++ HTree.node dn .document ([] ++ [tel]) :: [])).count a = _
    rw [count_move_last hXY a, hR.roots]
  have hndwe : f1.newDocumentWithElement n = (f2, .ok, dn) := by
    unfold newDocumentWithElement
    simp only [hisel, Bool.not_true, Bool.false_eq_true, if_false, newDocument, newNode]
    show (match f1'.append dn n with | (f2, r) => (f2, r, dn)) = _
    rw [show n = tel.handle from hb.handle.symm, happ]
  -- before
  have hbefore := insertAllBefore_spec (A := f.roots) (k2 := []) (d := dn) (r := tel)
    (by simp [htelv, Value.isNormal, Value.category]) d.before f2 [] rfl hg2
  let vb := d.before.map docVal
  let va := d.after.map docVal
  let f3 : Forest := { f2 with roots := f.roots ++ [docTree dn vb [] tel], next := dn + 1 + vb.length }
  have hf3 : f2.insertAllBefore n d.before = some f3 := by
    rw [show n = tel.handle from hb.handle.symm, hbefore]
    simp [f3, f2, f1', docTree, leavesFrom, vb]
  obtain ⟨hnd3, hb3⟩ := docTree_handles hb vb []
  have hg3 : Good f3 := by
    have := hg.add_roots [docTree dn vb [] tel] (dn + 1 + vb.length)
      (by simpa [handlesList] using hnd3)
      (by intro h hh; simp only [handlesList, List.append_nil] at hh; have := hb3 h hh
          simp only [List.length_nil] at this; omega)
      (by omega)
    exact this
  -- after
  have hafter := appendAllAfter_spec (A := f.roots) (d := dn) d.after f3
    (leavesFrom (dn + 1) vb ++ tel :: leavesFrom (dn + 1 + vb.length) []) rfl hg3
  let t := docTree dn vb va tel
  obtain ⟨hnd4, hb4⟩ := docTree_handles hb vb va
  have hsize : n + d.size = dn + 1 + vb.length + va.length := by
    rw [FDocument.size_eq]; simp only [dn, vb, va, c, List.length_map]; omega
  refine ⟨t, ?_, docTree_erase (n := n) d dn hb.erase, ?_⟩
  · unfold xotifyDocument xotifyElement
    rw [hx]
    simp only
    rw [hndwe]
    simp only
    rw [hf3]
    simp only
    rw [hafter]
    have hsize' : f.next + d.size = dn + 1 + d.before.length + d.after.length := by
      simpa [vb, va, n] using hsize
    simp only [f3, f2, f1', f1, t, docTree, leavesFrom, HTree.handle, hsize', List.nil_append,
      List.append_assoc, List.cons_append, List.length_map, va, vb]
  · rw [hsize]
    exact hg.add_roots [t] _ (by simpa [handlesList] using hnd4)
      (by intro h hh; simp only [handlesList, List.append_nil] at hh; have := hb4 h hh; omega)
      (by omega)

end Forest
end XotModel

namespace XotModel
open HTree

/-- The last root of a store with distinct handles is found under its own handle. -/
theorem Forest.treeAt_new_root (f : Forest) (t : HTree) (n' : Nat)
    (hg : Good ({ f with roots := f.roots ++ [t], next := n' } : Forest)) :
    ({ f with roots := f.roots ++ [t], next := n' } : Forest).treeAt t.handle = some t.erase := by
  have hR : RootAt ({ f with roots := f.roots ++ [t], next := n' } : Forest) f.roots t [] :=
    ⟨rfl, hg.nodup⟩
  unfold Forest.treeAt
  rw [hR.get?_self]
  rfl

end XotModel
