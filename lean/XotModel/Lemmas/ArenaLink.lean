/-
  XotModel.Lemmas.ArenaLink — closed form of `insert_with_neighbors(new, Some(parent), prev, next)`
  for a node `new` without parent and siblings: three slots besides `new` are written.
-/
import XotModel.Lemmas.ArenaDetachRep

namespace XotModel
namespace Arena

theorem mod_id_of_fix {a : Arena} {i : Nat} {s : Slot} {f : Slot → Slot} (hs : a.slot i = some s) (hf : f s = s) :
    a.mod i f = a := by
  apply ext_of_slot
  · intro j
    rw [slot_mod]
    by_cases h : i = j
    · subst h; simp [hs, hf]
    · simp [h]
  · rfl
  · rfl

/-- The writes of `transplant` of the single node `x` under `pid` between `prev` and `next`. -/
def linkArena (a : Arena) (x pid : NodeId) (prev next : Option NodeId) : Arena :=
  unlink (unlink (a.mod x.index0 (fun s => { s with parent := some pid })) (some pid) prev (some x))
    (some pid) (some x) next

theorem transplant_single_eq (a : Arena) (x pid : NodeId) (prev next : Option NodeId) (s : Slot)
    (hs : a.slot x.index0 = some s) (hsn : s.next = none) (hxp : x ≠ pid)
    (hp : InRange a (some pid)) (hv : InRange a prev) (hn : InRange a next) :
    transplant a x x (some pid) prev next = .done (linkArena a x pid prev next) (.ok ()) := by
  unfold transplant
  obtain ⟨n, hn2⟩ : ∃ n, a.fuel = n + 2 := ⟨a.fuel - 2, by have := two_le_fuel hs; omega⟩
  rw [hn2]
  unfold rewriteParents
  have hne : (some x = some pid) = False := by simp [hxp]
  simp only [hne, if_false]
  rw [wr_some _ _ _ _ _ hs]
  have hs1 : (a.mod x.index0 (fun s => { s with parent := some pid })).slot x.index0 = some { s with parent := some pid } := by
    simp [hs]
  rw [rd_some _ _ _ _ hs1]
  simp only [hsn]
  unfold rewriteParents
  simp only [Step.bind_done]
  have hx1 : InRange (a.mod x.index0 (fun s => { s with parent := some pid })) (some x) := by
    intro id h; cases h; exact ⟨_, hs1⟩
  rw [connectNeighbors_eq _ _ _ _ (hp.mod _ _) (hv.mod _ _) hx1]
  simp only [Step.bind_done]
  have hM := MetaEq.unlink (a.mod x.index0 (fun s => { s with parent := some pid })) (some pid) prev (some x)
  have hr : ∀ o, InRange (a.mod x.index0 (fun s => { s with parent := some pid })) o →
      InRange (unlink (a.mod x.index0 (fun s => { s with parent := some pid })) (some pid) prev (some x)) o := by
    intro o ho
    unfold unlink
    exact ((ho.modOpt _ _).modOpt _ _).modOpt _ _
  have e1 : ((((a.mod x.index0 (fun s => { s with parent := some pid })).modOpt prev (fun s => { s with next := some x })).modOpt (some x)
      (fun s => { s with prev := prev })).modOpt (some pid) (fun s => { s with
        first := newFirst ((a.mod x.index0 (fun s => { s with parent := some pid })).parentEnds (some pid)).1 prev (some x),
        last := newLast ((a.mod x.index0 (fun s => { s with parent := some pid })).parentEnds (some pid)).2 prev (some x) }))
      = unlink (a.mod x.index0 (fun s => { s with parent := some pid })) (some pid) prev (some x) := rfl
  rw [e1, connectNeighbors_eq _ _ _ _ (hr _ (hp.mod _ _)) (hr _ hx1) (hr _ (hn.mod _ _))]
  rfl

theorem insertWithNeighbors_eq (a : Arena) (x pid : NodeId) (prev next : Option NodeId) (s : Slot)
    (hs : a.slot x.index0 = some s) (hsp : s.parent = none) (hsv : s.prev = none) (hsn : s.next = none)
    (hxp : x ≠ pid) (hxv : prev ≠ some x) (hxn : next ≠ some x)
    (hp : InRange a (some pid)) (hv : InRange a prev) (hn : InRange a next) :
    insertWithNeighbors a x (some pid) prev next = .done (linkArena a x pid prev next) (.ok ()) := by
  unfold insertWithNeighbors
  have h1 : (prev = some x || next = some x) = false := by simp [hxv, hxn]
  have h2 : (some pid = some x) = False := by simp [Ne.symm hxp]
  simp only [h1, Bool.false_eq_true, if_false, h2]
  rw [detachFromSiblings_self_eq a x s hs (by rw [hsp]; exact InRange.none a) (by rw [hsv]; exact InRange.none a)
    (by rw [hsn]; exact InRange.none a)]
  have hsame : unlink (a.mod x.index0 clearSib) s.parent s.prev s.next = a := by
    rw [hsp, hsv, hsn]
    simp only [unlink, modOpt_none]
    exact mod_id_of_fix hs (by cases s; simp_all [clearSib])
  rw [hsame]
  simp only [Step.bind_done]
  rw [transplant_single_eq a x pid prev next s hs hsn hxp hp hv hn]
  rfl

end Arena
end XotModel
