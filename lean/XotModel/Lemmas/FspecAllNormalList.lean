/-
  FspecAllNormalList — on ONE child list without adjacent text nodes, the pair merges of
  `Model/FspecSpec3.lean` (`mergeAdj`, `mergeNew`) are the whole-run merge `mergeRuns` of
  `Model/FspecSpec.lean` with xot's survivor rule (`Keep.resident`).  List facts only.
-/
import XotModel.Lemmas.FspecAllList
import XotModel.Lemmas.FspecSame
import XotModel.Lemmas.FspecPairAfter2

namespace XotModel
open HTree Spec

namespace PairAll

/-- The pair merge of the specification for an optional pair of neighbours. -/
def adjOpt : Option Nat × Option Nat → List HTree → List HTree
  | (some a, some b) => mergeAdj a b
  | _ => id

theorem join_resident_left {n : Nat} {a b : HTree} {x y : Str} (h : a.handle ≠ n) :
    join (Keep.resident n) a b x y = a.setValue (.text (x ++ y)) :=
  join_keep (Keep.resident_spec n _ _ h)

theorem join_resident_moved {t b : HTree} {x y : Str} :
    join (Keep.resident t.handle) t b x y = b.setValue (.text (x ++ y)) := by
  simp [join, Keep.resident]

theorem text_of_isText {k : HTree} (h : k.value.isText = true) : ∃ s, k.value = .text s := by
  obtain ⟨s, hs⟩ := isText_iff_textData.1 h
  exact ⟨s, textData_some hs⟩

theorem noAdj_pair {a b : HTree} {rest : List HTree} (h1 : ¬ (a.value.isText = true ∧ b.value.isText = true))
    (h2 : noAdjacentText (b :: rest) = true) : noAdjacentText (a :: b :: rest) = true := by
  rw [noAdj_cons_cons, Bool.and_eq_true]
  refine ⟨?_, h2⟩
  cases ha : a.value.isText <;> cases hb : b.value.isText <;> simp_all

theorem not_both_of_noAdj {a b : HTree} {rest : List HTree} (h : noAdjacentText (a :: b :: rest) = true) :
    ¬ (a.value.isText = true ∧ b.value.isText = true) := by
  rw [noAdj_cons_cons, Bool.and_eq_true] at h
  intro ⟨x, y⟩
  simp [x, y] at h

/-- Inserting a node that is not text keeps a list free of adjacent text. -/
theorem noAdj_insert_nontext {t : HTree} (ht : t.value.isText = false) {X Y : List HTree}
    (h : noAdjacentText (X ++ Y) = true) : noAdjacentText (X ++ t :: Y) = true := by
  obtain ⟨hX, hY, _⟩ := noAdj_append.1 h
  refine noAdj_append.2 ⟨hX, ?_, ?_⟩
  · cases Y with
    | nil => rfl
    | cons y Y' => exact noAdj_pair (fun h' => by rw [ht] at h'; cases h'.1) hY
  · intro a b _ hb
    simp only [List.head?_cons, Option.some.injEq] at hb
    subst hb
    intro h'
    rw [ht] at h'; cases h'.2

/-- **The moved node at its new place**: in a child list that was free of adjacent text before
    the node `t` was put in, merging the maximal runs (the moved node never survives) is merging
    `t` with its left neighbour, else with its right one. -/
theorem mergeRuns_eq_mergeNew {t : HTree} (A B : List HTree) (hAB : noAdjacentText (A ++ B) = true)
    (hA : ∀ x ∈ A, x.handle ≠ t.handle) (hB : ∀ x ∈ B, x.handle ≠ t.handle) :
    mergeRuns (Keep.resident t.handle) (A ++ t :: B) = mergeNew t.handle (A ++ t :: B) := by
  obtain ⟨hnA, hnB, hseam⟩ := noAdj_append.1 hAB
  -- what stands behind `t`
  have right : ∀ (P : List HTree), noAdjacentText (P ++ [t]) = true →
      mergeRuns (Keep.resident t.handle) (P ++ t :: B) = P ++ mergeNewHead t B := by
    intro P hP
    cases B with
    | nil => rw [mergeNewHead_nil]; exact mergeRuns_id _ hP
    | cons z B' =>
      by_cases hb : t.value.isText = true ∧ z.value.isText = true
      · obtain ⟨u, hu⟩ := text_of_isText hb.1
        obtain ⟨w, hw⟩ := text_of_isText hb.2
        rw [mergeRuns_seam _ hu hw hP hnB, join_resident_moved, mergeNewHead_text hu hw]
      · rw [mergeNewHead_other hb]
        apply mergeRuns_id
        have e : P ++ t :: z :: B' = (P ++ [t]) ++ z :: B' := by simp
        rw [e]
        refine noAdj_append.2 ⟨hP, hnB, ?_⟩
        intro a b ha hb'
        simp only [List.getLast?_concat, Option.some.injEq] at ha
        simp only [List.head?_cons, Option.some.injEq] at hb'
        subst ha hb'
        exact hb
  rcases List.eq_nil_or_concat A with e | ⟨A', x, e⟩
  · subst e
    simp only [List.nil_append]
    rw [mergeNew_head B hB]
    exact right [] rfl
  · rw [List.concat_eq_append] at e
    subst e
    have hxt : x.handle ≠ t.handle := hA x (by simp)
    have hA' : ∀ y ∈ A', y.handle ≠ t.handle := fun y hy => hA y (by simp [hy])
    have e1 : (A' ++ [x]) ++ t :: B = A' ++ x :: t :: B := by simp
    by_cases hb : x.value.isText = true ∧ t.value.isText = true
    · obtain ⟨s, hs⟩ := text_of_isText hb.1
      obtain ⟨u, hu⟩ := text_of_isText hb.2
      have hr : noAdjacentText (t :: B) = true := by
        cases B with
        | nil => rfl
        | cons z B' =>
          apply noAdj_pair _ hnB
          intro h'
          exact hseam x z (by simp) rfl ⟨hb.1, h'.2⟩
      rw [e1, mergeRuns_seam _ hs hu hnA hr, join_resident_left hxt, mergeNew_mid_left hs hu A' B hA' hxt]
    · rw [e1, mergeNew_mid_right hb A' B hA' hxt]
      have hP : noAdjacentText ((A' ++ [x]) ++ [t]) = true := by
        refine noAdj_append.2 ⟨hnA, rfl, ?_⟩
        intro a b ha hb'
        simp only [List.getLast?_concat, Option.some.injEq] at ha
        simp only [List.head?_cons, Option.some.injEq] at hb'
        subst ha hb'
        exact hb
      have := right (A' ++ [x]) hP
      rw [e1] at this
      rw [this]
      simp

/-- A node that is not text is merged with nothing. -/
theorem mergeNew_nontext' {n : Nat} : ∀ (L : List HTree), (∀ x ∈ L, x.handle = n → x.value.isText = false) →
    mergeNew n L = L
  | [], _ => mergeNew_nil n
  | [x], _ => mergeNew_single n x
  | x :: y :: rest, h => by
    rw [mergeNew_cons_cons]
    by_cases hy : y.handle = n
    · have hyt := h y (by simp) hy
      rw [if_pos hy, joinLeft_none (fun h' => by rw [hyt] at h'; cases h'.2), mergeNewHead_nontext hyt]
      rfl
    · rw [if_neg hy]
      by_cases hx : x.handle = n
      · rw [if_pos hx, mergeNewHead_nontext (h x (by simp) hx)]
      · rw [if_neg hx, mergeNew_nontext' (y :: rest) (fun z hz => h z (List.mem_cons_of_mem _ hz))]

/-- **The place the node has left**: in a child list `l ++ r` whose two parts are free of adjacent
    text, merging the maximal runs is merging the two nodes at the seam. -/
theorem mergeRuns_eq_mergeAdj {keep : Keep} {l r : List HTree} (hl : noAdjacentText l = true)
    (hr : noAdjacentText r = true) (nd : (handlesList (l ++ r)).Nodup)
    (hkeep : ∀ a ∈ l, ∀ b, keep a.handle b = true) :
    mergeRuns keep (l ++ r) = adjOpt (l.getLast?.map (·.handle), r.head?.map (·.handle)) (l ++ r) := by
  cases hla : l.getLast? with
  | none =>
    have : l = [] := List.getLast?_eq_none_iff.1 hla
    subst this
    exact mergeRuns_id keep hr
  | some a =>
    cases hrb : r.head? with
    | none =>
      have : r = [] := List.head?_eq_none_iff.1 hrb
      subst this
      rw [List.append_nil]
      exact mergeRuns_id keep hl
    | some b =>
      obtain ⟨l', el⟩ := List.getLast?_eq_some_iff.1 hla
      obtain ⟨r', er⟩ := List.head?_eq_some_iff.1 hrb
      subst el er
      simp only [Option.map_some, adjOpt]
      have e : (l' ++ [a]) ++ b :: r' = l' ++ a :: b :: r' := by simp
      rw [e] at nd ⊢
      have tl := (tops_ne_of_nodup nd).1
      by_cases hb : a.value.isText = true ∧ b.value.isText = true
      · obtain ⟨x, hx⟩ := text_of_isText hb.1
        obtain ⟨y, hy⟩ := text_of_isText hb.2
        rw [mergeRuns_seam keep hx hy hl hr, join_keep (hkeep a (by simp) _), mergeAdj_mid_text hx hy r' tl]
      · rw [mergeAdj_mid_other hb r' tl]
        apply mergeRuns_id
        rw [← e]
        refine noAdj_append.2 ⟨hl, hr, ?_⟩
        intro a' b' ha' hb'
        simp only [List.getLast?_concat, Option.some.injEq] at ha'
        simp only [List.head?_cons, Option.some.injEq] at hb'
        subst ha' hb'
        exact hb

/-- Where a list with the pair `a b` in it is split, if not between the two. -/
theorem split_not_at_seam {A B l' r' : List HTree} {a b : HTree} (h : A ++ B = l' ++ a :: b :: r')
    (hne : ¬ (A = l' ++ [a] ∧ B = b :: r')) :
    (∃ M, l' = A ++ M ∧ B = M ++ a :: b :: r') ∨ (∃ M, A = l' ++ a :: b :: M ∧ r' = M ++ B) := by
  have h' : A ++ B = (l' ++ [a]) ++ b :: r' := by rw [h]; simp
  rcases List.append_eq_append_iff.1 h' with ⟨M, e1, e2⟩ | ⟨M, e1, e2⟩
  · -- `l' ++ [a] = A ++ M`
    rcases List.eq_nil_or_concat M with hM | ⟨M', z, hM⟩
    · subst hM
      exact absurd ⟨by simpa using e1.symm, by simpa using e2⟩ hne
    · rw [List.concat_eq_append] at hM
      subst hM
      have e1' : l' ++ [a] = (A ++ M') ++ [z] := by rw [e1]; simp
      obtain ⟨e3, e4⟩ := List.append_inj' e1' rfl
      cases e4
      left
      exact ⟨M', e3, by rw [e2]; simp⟩
  · -- `A = (l' ++ [a]) ++ M`
    cases M with
    | nil =>
      exact absurd ⟨by simpa using e1, by simpa using e2.symm⟩ hne
    | cons z M' =>
      simp only [List.cons_append] at e2
      injection e2 with e3 e4
      subst e3
      right
      exact ⟨M', by rw [e1]; simp, e4⟩

/-- **One child list, both places**: the node `t` leaves `l ++ t :: r` (free of adjacent text) and
    is put back between `A` and `B` (`A ++ B = l ++ r`), not into the seam between two text nodes:
    the whole-run merge is the pair merge at the seam followed by the merge of `t` with a neighbour. -/
theorem same_list {l r A B : List HTree} {t : HTree} (nd : (handlesList (l ++ t :: r)).Nodup)
    (hna : noAdjacentText (l ++ t :: r) = true) (hAB : A ++ B = l ++ r)
    (hnotseam : ∀ a b, l.getLast? = some a → r.head? = some b → a.value.isText = true → b.value.isText = true →
      ¬ (A = l ∧ B = r)) :
    mergeNew t.handle (adjOpt (l.getLast?.map (·.handle), r.head?.map (·.handle)) (A ++ t :: B)) =
      mergeRuns (Keep.resident t.handle) (mergeRuns (Keep.resident t.handle) (A ++ t :: B)) := by
  rw [mergeRuns_idem]
  obtain ⟨hnl, hntr, hseam1⟩ := noAdj_append.1 hna
  have hnr : noAdjacentText r = true := noAdj_tail hntr
  obtain ⟨tl, tr⟩ := tops_ne_of_nodup nd
  have hmemAB : ∀ x, x ∈ A ++ B ↔ x ∈ l ++ r := fun x => by rw [hAB]
  have hA : ∀ x ∈ A, x.handle ≠ t.handle := by
    intro x hx
    have : x ∈ l ++ r := (hmemAB x).1 (List.mem_append_left _ hx)
    cases List.mem_append.1 this with
    | inl h => exact tl x h
    | inr h => exact tr x h
  have hB : ∀ x ∈ B, x.handle ≠ t.handle := by
    intro x hx
    have : x ∈ l ++ r := (hmemAB x).1 (List.mem_append_right _ hx)
    cases List.mem_append.1 this with
    | inl h => exact tl x h
    | inr h => exact tr x h
  -- the seam is not a pair of text nodes: nothing is merged there
  have plain : (∀ a b, l.getLast? = some a → r.head? = some b → ¬ (a.value.isText = true ∧ b.value.isText = true)) →
      mergeNew t.handle (adjOpt (l.getLast?.map (·.handle), r.head?.map (·.handle)) (A ++ t :: B)) =
        mergeRuns (Keep.resident t.handle) (A ++ t :: B) := by
    intro hs
    have hnoAB : noAdjacentText (A ++ B) = true := by
      rw [hAB]; exact noAdj_append.2 ⟨hnl, hnr, hs⟩
    rw [mergeRuns_eq_mergeNew A B hnoAB hA hB]
    congr 1
    cases hla : l.getLast? with
    | none => rfl
    | some a =>
      cases hrb : r.head? with
      | none => rfl
      | some b =>
        simp only [Option.map_some, adjOpt]
        have hal : a ∈ l ++ t :: r := List.mem_append_left _ (List.mem_of_getLast? hla)
        have hbr : b ∈ l ++ t :: r := List.mem_append_right _ (List.mem_cons_of_mem _ (List.mem_of_head? hrb))
        apply PairAfter.mergeAdj_noop
        intro x hx y hy ex ey
        have hxL : x ∈ l ++ t :: r := by
          cases List.mem_append.1 hx with
          | inl h =>
            cases List.mem_append.1 ((hmemAB x).1 (List.mem_append_left _ h)) with
            | inl h' => exact List.mem_append_left _ h'
            | inr h' => exact List.mem_append_right _ (List.mem_cons_of_mem _ h')
          | inr h =>
            cases List.mem_cons.1 h with
            | inl h' => rw [h']; simp
            | inr h' =>
              cases List.mem_append.1 ((hmemAB x).1 (List.mem_append_right _ h')) with
              | inl h'' => exact List.mem_append_left _ h''
              | inr h'' => exact List.mem_append_right _ (List.mem_cons_of_mem _ h'')
        have hyL : y ∈ l ++ t :: r := by
          cases List.mem_append.1 hy with
          | inl h =>
            cases List.mem_append.1 ((hmemAB y).1 (List.mem_append_left _ h)) with
            | inl h' => exact List.mem_append_left _ h'
            | inr h' => exact List.mem_append_right _ (List.mem_cons_of_mem _ h')
          | inr h =>
            cases List.mem_cons.1 h with
            | inl h' => rw [h']; simp
            | inr h' =>
              cases List.mem_append.1 ((hmemAB y).1 (List.mem_append_right _ h')) with
              | inl h'' => exact List.mem_append_left _ h''
              | inr h'' => exact List.mem_append_right _ (List.mem_cons_of_mem _ h'')
        rw [PairAfter.eq_of_handle nd hxL hal ex, PairAfter.eq_of_handle nd hyL hbr ey]
        exact hs a b hla hrb
  by_cases hs : ∀ a b, l.getLast? = some a → r.head? = some b → ¬ (a.value.isText = true ∧ b.value.isText = true)
  · exact plain hs
  · -- the node stood between two text nodes: it is not a text node
    have ⟨a, b, hla, hrb, hab⟩ : ∃ a b, l.getLast? = some a ∧ r.head? = some b ∧
        (a.value.isText = true ∧ b.value.isText = true) := by
      apply Classical.byContradiction
      intro hne
      apply hs
      intro a b ha hb hab
      exact hne ⟨a, b, ha, hb, hab⟩
    obtain ⟨l', el⟩ := List.getLast?_eq_some_iff.1 hla
    obtain ⟨r', er⟩ := List.head?_eq_some_iff.1 hrb
    subst el er
    have htn : t.value.isText = false := by
      cases h : t.value.isText with
      | false => rfl
      | true => exact absurd ⟨hab.1, h⟩ (hseam1 a t (by simp) rfl)
    obtain ⟨x, hx⟩ := text_of_isText hab.1
    obtain ⟨y, hy⟩ := text_of_isText hab.2
    have hat : a.handle ≠ t.handle := tl a (by simp)
    simp only [List.getLast?_concat, List.head?_cons, Option.map_some, adjOpt]
    have hAB' : A ++ B = l' ++ a :: b :: r' := by rw [hAB]; simp
    have hne : ¬ (A = l' ++ [a] ∧ B = b :: r') := hnotseam a b (by simp) rfl hab.1 hab.2
    have hnoLR : noAdjacentText (l' ++ [a]) = true := hnl
    -- both sides are the list with `a b` merged into `a`
    have both : ∀ (X Y : List HTree), A ++ t :: B = X ++ a :: b :: Y → noAdjacentText (X ++ [a]) = true →
        noAdjacentText (b :: Y) = true → (∀ k ∈ X, k.handle ≠ a.handle) →
        (∀ k ∈ X ++ a.setValue (.text (x ++ y)) :: Y, k.handle = t.handle → k.value.isText = false) →
        mergeNew t.handle (mergeAdj a.handle b.handle (A ++ t :: B)) =
          mergeRuns (Keep.resident t.handle) (A ++ t :: B) := by
      intro X Y e h1 h2 hX hT
      rw [e, mergeAdj_mid_text hx hy Y hX, mergeRuns_seam _ hx hy h1 h2, join_resident_left hat]
      exact mergeNew_nontext' _ hT
    have ndLR : (handlesList (l' ++ a :: b :: r')).Nodup := by
      have : (handlesList ((l' ++ [a]) ++ (b :: r'))).Nodup := by
        have e : (l' ++ [a]) ++ t :: b :: r' = (l' ++ [a]) ++ [t] ++ (b :: r') := by simp
        rw [e] at nd
        rw [fs_handlesList_append] at nd ⊢
        rw [fs_handlesList_append] at nd
        obtain ⟨n1, n2, n3⟩ := List.nodup_append.1 nd
        obtain ⟨n4, _, _⟩ := List.nodup_append.1 n1
        exact List.nodup_append.2 ⟨n4, n2, fun u hu w hw => n3 u (List.mem_append_left _ hu) w hw⟩
      simpa using this
    have hT : ∀ k, k.handle = t.handle → (k = t ∨ k ∈ l' ++ r' ∨ k = a.setValue (.text (x ++ y))) →
        k.value.isText = false := by
      intro k hk hwhere
      rcases hwhere with h | h | h
      · rw [h]; exact htn
      · exfalso
        cases List.mem_append.1 h with
        | inl h' => exact tl k (by simp [h']) hk
        | inr h' => exact tr k (by simp [h']) hk
      · exfalso
        rw [h, setValue_handle] at hk
        exact hat hk
    rcases split_not_at_seam hAB' hne with ⟨M, e1, e2⟩ | ⟨M, e1, e2⟩
    · -- `t` stands before the pair
      subst e1 e2
      refine both (A ++ t :: M) r' (by simp) ?_ (noAdj_tail hntr) ?_ ?_
      · have : (A ++ t :: M) ++ [a] = A ++ t :: (M ++ [a]) := by simp
        rw [this]
        apply noAdj_insert_nontext htn
        have : A ++ (M ++ [a]) = (A ++ M) ++ [a] := by simp
        rw [this]; exact hnoLR
      · intro k hk
        have := (tops_ne_of_nodup (show (handlesList ((A ++ M) ++ a :: b :: r')).Nodup from ndLR)).1
        cases List.mem_append.1 hk with
        | inl h => exact this k (List.mem_append_left _ h)
        | inr h =>
          cases List.mem_cons.1 h with
          | inl h' => rw [h']; exact fun e => hat e.symm
          | inr h' => exact this k (List.mem_append_right _ h')
      · intro k hk hkt
        apply hT k hkt
        simp only [List.mem_append, List.mem_cons] at hk ⊢
        rcases hk with (h | h | h) | h | h
        · exact Or.inr (Or.inl (Or.inl (Or.inl h)))
        · exact Or.inl h
        · exact Or.inr (Or.inl (Or.inl (Or.inr h)))
        · exact Or.inr (Or.inr h)
        · exact Or.inr (Or.inl (Or.inr h))
    · -- `t` stands behind the pair
      subst e1 e2
      refine both l' (M ++ t :: B) (by simp) hnoLR ?_ (tops_ne_of_nodup ndLR).1 ?_
      · have : b :: (M ++ t :: B) = (b :: M) ++ t :: B := by simp
        rw [this]
        apply noAdj_insert_nontext htn
        have : (b :: M) ++ B = b :: (M ++ B) := by simp
        rw [this]; exact noAdj_tail hntr
      · intro k hk hkt
        apply hT k hkt
        simp only [List.mem_append, List.mem_cons] at hk ⊢
        rcases hk with h | h | h | h | h
        · exact Or.inr (Or.inl (Or.inl h))
        · exact Or.inr (Or.inr h)
        · exact Or.inr (Or.inl (Or.inr (Or.inl h)))
        · exact Or.inl h
        · exact Or.inr (Or.inl (Or.inr (Or.inr h)))

end PairAll
end XotModel
