/-
  FspecReplGapT2 — C05 for `replace`, the gap case with a TEXT replacing node: `a` stands between
  two text nodes `P` and `N`, the replacing node `b` is a text node that is not adjacent to `a`.
  After `remove_subtree(a)` the forest holds the adjacent text nodes `P N` (it is not
  `Forest.Normal`); `insert_after(P, b)` merges `b` into `P`, and the final
  `remove_consolidate_text_nodes(P, next(P))` merges `N` into `P`: the three-way merge
  `P ++ b ++ N` of the specification.

  This file (first of three; the theorem `replace_gap_text` is in `FspecReplGapT`): list algebra,
  the evaluation of `insert_after(P, b)` in the forest after `remove_subtree(a)`, and the core
  comparison with the specification, given the forest `fc` in which `b` has been cut
  (`f.editAt (f.parent? b) (dropTop b)`).
  `FspecReplGapT3`: the forest seen from `b` in its three geometries, the parentless geometry.
  `FspecReplGapT`: the other two geometries and the theorem.
-/
import XotModel.Lemmas.FspecRepl1
import XotModel.Lemmas.FspecRepl2
import XotModel.Lemmas.FspecUnwrap

namespace XotModel
open HTree Spec

/-! ### Lists -/

/-- A value update of one child commutes with dropping another child. -/
theorem gapT_dropTop_setValTop {b p : Nat} (v : Value) (hne : p ≠ b) : ∀ L : List HTree,
    dropTop b (replaceTop p (fun k => [k.setValue v]) L) = replaceTop p (fun k => [k.setValue v]) (dropTop b L)
  | [] => rfl
  | k :: ks => by
    by_cases hp : k.handle = p
    · have hb : ¬ k.handle = b := fun e => hne (hp.symm.trans e)
      rw [replaceTop_cons, if_pos hp, dropTop_cons, if_neg hb, replaceTop_cons, if_pos hp]
      simp only [List.singleton_append]
      rw [dropTop_cons, setValue_handle, if_neg hb]
    · by_cases hb : k.handle = b
      · rw [replaceTop_cons, if_neg hp, dropTop_cons, if_pos hb, dropTop_cons, if_pos hb,
          gapT_dropTop_setValTop v hne ks]
      · rw [replaceTop_cons, if_neg hp, dropTop_cons, if_neg hb, dropTop_cons, if_neg hb,
          replaceTop_cons, if_neg hp, gapT_dropTop_setValTop v hne ks]

theorem gapT_dropTop_comm (a b : Nat) (L : List HTree) : dropTop a (dropTop b L) = dropTop b (dropTop a L) := by
  rw [dropTop_eq_filter, dropTop_eq_filter, dropTop_eq_filter, dropTop_eq_filter, List.filter_filter,
    List.filter_filter]
  congr 1
  funext k
  exact Bool.and_comm _ _

/-- Dropping text nodes from a list without adjacent text nodes leaves such a list (and a text
    node at its head was at the head before). -/
theorem gapT_noAdj_dropTop_aux {b : Nat} : ∀ L : List HTree, noAdjacentText L = true →
    (∀ k ∈ L, k.handle = b → k.value.isText = true) →
    noAdjacentText (dropTop b L) = true ∧
    ∀ h, (dropTop b L).head? = some h → h.value.isText = true →
      ∃ h0, L.head? = some h0 ∧ h0.value.isText = true
  | [] => fun _ _ => ⟨rfl, fun h e => by cases e⟩
  | k :: ks => by
    intro hn ht
    obtain ⟨ih1, ih2⟩ := gapT_noAdj_dropTop_aux ks (noAdj_tail hn)
      (fun k' hk' => ht k' (List.mem_cons_of_mem _ hk'))
    rw [dropTop_cons]
    by_cases hk : k.handle = b
    · rw [if_pos hk]
      exact ⟨ih1, fun h _ _ => ⟨k, rfl, ht k List.mem_cons_self hk⟩⟩
    · rw [if_neg hk]
      refine ⟨?_, fun h e hx => ⟨k, rfl, by cases e; exact hx⟩⟩
      cases hd : dropTop b ks with
      | nil => rfl
      | cons h rest =>
        rw [noAdj_cons_cons, Bool.and_eq_true]
        refine ⟨?_, hd ▸ ih1⟩
        cases hkt : k.value.isText with
        | false => rfl
        | true =>
          cases hht : h.value.isText with
          | false => rfl
          | true =>
            obtain ⟨h0, e0, hx0⟩ := ih2 h (by rw [hd]; rfl) hht
            obtain ⟨ks', eks⟩ := List.head?_eq_some_iff.1 e0
            rw [eks, noAdj_cons_cons, hkt, hx0] at hn
            cases hn

theorem gapT_noAdj_dropTop {b : Nat} {L : List HTree} (hn : noAdjacentText L = true)
    (ht : ∀ k ∈ L, k.handle = b → k.value.isText = true) : noAdjacentText (dropTop b L) = true :=
  (gapT_noAdj_dropTop_aux L hn ht).1

/-- What the model does to the child list of `q` once `b` has been cut: drop `a`, give `P` the
    data `ps ++ bs`, drop `N`, give `P` the data `(ps ++ bs) ++ ns`. -/
theorem gapT_list_model {a : Nat} {l0 r0 : List HTree} {P A N : HTree} (v1 : Value)
    (nd : (handlesList (l0 ++ P :: A :: N :: r0)).Nodup) (hA : A.handle = a) :
    dropTop a (l0 ++ P :: A :: N :: r0) = l0 ++ P :: N :: r0 ∧
    replaceTop P.handle (fun k => [k.setValue v1]) (l0 ++ P :: N :: r0) = l0 ++ P.setValue v1 :: N :: r0 := by
  have nd' : (handlesList ((l0 ++ [P]) ++ A :: (N :: r0))).Nodup := by
    have : (l0 ++ [P]) ++ A :: (N :: r0) = l0 ++ P :: A :: N :: r0 := by simp
    rw [this]; exact nd
  obtain ⟨tl, tr⟩ := tops_ne_of_nodup nd'
  obtain ⟨tlP, _⟩ := tops_ne_of_nodup nd
  constructor
  · have : l0 ++ P :: A :: N :: r0 = (l0 ++ [P]) ++ A :: (N :: r0) := by simp
    rw [this, dropTop_mid hA (fun k hk => hA ▸ tl k hk) (fun k hk => hA ▸ tr k hk)]
    simp
  · rw [replaceTop_mid rfl tlP]
    simp

/-- What the specification does to that list: `t` in the place of `a`, then the run `P t N`
    becomes `P` with the data `(ps ++ bs) ++ ns`. -/
theorem gapT_list_spec {a b : Nat} {l0 r0 : List HTree} {P A N t : HTree} {ps bs ns : Str}
    (nd : (handlesList (l0 ++ P :: A :: N :: r0)).Nodup) (hA : A.handle = a)
    (hP : P.value = .text ps) (hN : N.value = .text ns) (ht : t.value = .text bs)
    (hPb : P.handle ≠ b)
    (hl : noAdjacentText (l0 ++ [P]) = true) (hr : noAdjacentText (N :: r0) = true) :
    mergeRuns (Keep.resident b) (replaceTop a (fun _ => [t]) (l0 ++ P :: A :: N :: r0)) =
      l0 ++ P.setValue (.text ((ps ++ bs) ++ ns)) :: r0 := by
  have nd' : (handlesList ((l0 ++ [P]) ++ A :: (N :: r0))).Nodup := by
    have : (l0 ++ [P]) ++ A :: (N :: r0) = l0 ++ P :: A :: N :: r0 := by simp
    rw [this]; exact nd
  obtain ⟨tl, _⟩ := tops_ne_of_nodup nd'
  have e1 : l0 ++ P :: A :: N :: r0 = (l0 ++ [P]) ++ A :: (N :: r0) := by simp
  have hk : ∀ y, Keep.resident b P.handle y = true := by
    intro y; simp [Keep.resident, hPb]
  rw [e1, replaceTop_mid hA (fun k hk => hA ▸ tl k hk)]
  have e2 : (l0 ++ [P]) ++ [t] ++ (N :: r0) = l0 ++ P :: t :: N :: r0 := by simp
  rw [e2, mergeRuns_seam' _ hP ht hl, join_keep (hk _),
    mergeInto_cons_text (setValue_value _ _) hN, join_keep (by rw [setValue_handle]; exact hk _),
    setValue_setValue, mergeInto_id]
  exact noAdj_head hr (by rw [setValue_value, hN]; rfl)

/-! ### The evaluation of `insert_after(P, b)` where `P N` are adjacent text nodes -/

theorem gapT_structureCheck {Z : Forest} {q b : Nat} {vq : Value} {Lq : List HTree} {t : HTree}
    (sq : SiteAt Z q vq Lq) (hvq : vq.isElement = true ∨ vq.isDocument = true)
    (hgb : Z.get? b = some t) (hqt : q ∉ handles t) (htn : t.value.isNormal = true)
    (htd : t.value.isDocument = false) : Z.structureCheck (some q) b = true := by
  unfold Forest.structureCheck
  simp only [Bool.and_eq_true, Bool.or_eq_true, Bool.not_eq_true']
  refine ⟨⟨?_, ?_⟩, ?_⟩
  · unfold Forest.isElement Forest.isDocument Forest.value?
    rw [sq.kids]
    simpa [HTree.value] using hvq
  · cases h : (Z.ancestors q).contains b with
    | false => rfl
    | true =>
      obtain ⟨u, hu, hin⟩ := (Forest.ancestors_contains_iff sq.nd).1 h
      rw [hgb] at hu
      cases hu
      exact absurd hin hqt
  · unfold Forest.value?
    rw [hgb]
    simp only [Option.map_some]
    cases hv : t.value <;> rw [hv] at htn htd <;> simp_all [Value.isNormal, Value.category, Value.isDocument]

/-- `insert_after(P, b)` with `b` a text node elsewhere whose old place needs no merge: `b` is
    merged into the text node `P` (the node after `P` is not looked at). -/
theorem gapT_insertAfter_eval {Z : Forest} {q b : Nat} {vq : Value} {l0 r0 : List HTree} {P N t : HTree}
    {ps ns bs : Str} (hc : Z.consolidation = true) (sq : SiteAt Z q vq (l0 ++ P :: N :: r0))
    (hvq : vq.isElement = true ∨ vq.isDocument = true)
    (hP : P.value = .text ps) (hN : N.value = .text ns)
    (hgb : Z.get? b = some t) (hqt : q ∉ handles t) (hbt : t.value = .text bs)
    (hbP : b ≠ P.handle) (hbN : b ≠ N.handle)
    (hrc : Z.removeConsolidate (Z.prevSibling b) (Z.nextSibling b) = (Z, false)) :
    Z.insertAfter P.handle b = ((Z.setValue P.handle (.text (ps ++ bs))).spliceOut b, .ok) := by
  have hpar : Z.parent? P.handle = some q := Forest.parent?_of_ctx sq.ctx
  have hsc : Z.structureCheck (some q) b = true :=
    gapT_structureCheck sq hvq hgb hqt (by rw [hbt]; rfl) (by rw [hbt]; rfl)
  have hsr : Z.siblingReferenceCheck P.handle b = true := by
    unfold Forest.siblingReferenceCheck Forest.isNormalNode Forest.value?
    rw [sq.getKid]
    simp [hP, Value.isNormal, Value.category, Ne.symm hbP]
  have hnext : Z.nextSibling P.handle = some N.handle := by
    rw [Forest.nextSibling_of_ctx sq.ctx]
    simp [nextOf, hP, hN, Value.category]
  have hnb : (some N.handle == some b) = false := by
    simp [Ne.symm hbN]
  have htb : Z.textOf b = some bs := by
    rw [Forest.textOf_of_get hgb]; exact textData_of_value hbt
  have htP : Z.textOf P.handle = some ps := by
    rw [Forest.textOf_of_get sq.getKid]; exact textData_of_value hP
  rw [insertAfter_unfold, hpar, hsc, hsr, hnext, hnb, hrc]
  simp only [Bool.not_true, Bool.false_eq_true, if_false, Bool.false_and]
  unfold insertAfterTail
  rw [Forest.addConsolidate_prev hc htb htP _ (Ne.symm hbP)]
  simp

/-- No merge at the old place of a node whose previous sibling is not text. -/
theorem gapT_rc_noop_left {Z : Forest} {p : Nat} {v : Value} {l r : List HTree} {k : HTree}
    (s : SiteAt Z p v (l ++ k :: r)) (hl : ∀ a, l.getLast? = some a → a.value.isText = false) :
    Z.removeConsolidate (Z.prevSibling k.handle) (Z.nextSibling k.handle) = (Z, false) := by
  rw [Forest.prevSibling_of_ctx s.ctx]
  simp only [prevOf]
  cases hla : l.getLast? with
  | none => exact Forest.removeConsolidate_none_left _ _
  | some a =>
    simp only
    split
    · obtain ⟨l', el⟩ := List.getLast?_eq_some_iff.1 hla
      subst el
      have s' : SiteAt Z p v (l' ++ a :: k :: r) := by
        have : l' ++ a :: k :: r = (l' ++ [a]) ++ k :: r := by simp
        rw [this]; exact s
      have hta : Z.textOf a.handle = none := by
        rw [Forest.textOf_of_get s'.getKid]
        cases hx : textData a with
        | none => rfl
        | some x =>
          have := isText_iff_textData.2 ⟨x, hx⟩
          rw [hl a hla] at this; cases this
      cases hn : Z.nextSibling k.handle with
      | none => exact Forest.removeConsolidate_none_right _ _
      | some n => exact Forest.removeConsolidate_not_text_left hta
    · exact Forest.removeConsolidate_none_left _ _

/-- No merge at the old place of a node whose next sibling is not text. -/
theorem gapT_rc_noop_right {Z : Forest} {p : Nat} {v : Value} {l r : List HTree} {k : HTree}
    (s : SiteAt Z p v (l ++ k :: r)) (hr : ∀ a, r.head? = some a → a.value.isText = false) :
    Z.removeConsolidate (Z.prevSibling k.handle) (Z.nextSibling k.handle) = (Z, false) := by
  rw [Forest.nextSibling_of_ctx s.ctx]
  simp only [nextOf]
  cases hra : r.head? with
  | none => exact Forest.removeConsolidate_none_right _ _
  | some a =>
    simp only
    split
    · obtain ⟨r', er⟩ := List.head?_eq_some_iff.1 hra
      subst er
      have s' : SiteAt Z p v ((l ++ [k]) ++ a :: r') := by
        have : (l ++ [k]) ++ a :: r' = l ++ k :: a :: r' := by simp
        rw [this]; exact s
      have hta : Z.textOf a.handle = none := by
        rw [Forest.textOf_of_get s'.getKid]
        cases hx : textData a with
        | none => rfl
        | some x =>
          have := isText_iff_textData.2 ⟨x, hx⟩
          rw [hr a hra] at this; cases this
      cases hn : Z.prevSibling k.handle with
      | none => exact Forest.removeConsolidate_none_left _ _
      | some n => exact Forest.removeConsolidate_not_text_right hta
    · exact Forest.removeConsolidate_none_right _ _

/-! ### The core: the final consolidation against the specification -/

/-- Given the forest `fc` in which `b` has been cut, the forest `f2` reached by
    `insert_after(P, b)` as an edit of `fc`, and the specification as two edits of `fc`. -/
theorem gapT_core {f fc f2 : Forest} {a b q : Nat} {vq : Value} {l0 r0 : List HTree} {P A N t : HTree}
    {ps bs ns : Str} (hcc : fc.consolidation = true)
    (sc : SiteAt fc q vq (l0 ++ P :: A :: N :: r0)) (hA : A.handle = a)
    (hP : P.value = .text ps) (hN : N.value = .text ns) (ht : t.value = .text bs) (hPb : P.handle ≠ b)
    (hNleaf : N.kids = [])
    (hl : noAdjacentText (l0 ++ [P]) = true) (hr : noAdjacentText (N :: r0) = true)
    (h2 : f2 = fc.editAt (some q)
      (replaceTop P.handle (fun k => [k.setValue (.text (ps ++ bs))]) ∘ dropTop a))
    (hspec : specReplace (Keep.resident b) a b f =
      (fc.editAt (some q) (replaceTop a (fun _ => [t]))).editAt (some q) (mergeRuns (Keep.resident b))) :
    (f2.removeConsolidate (some P.handle) (f2.nextSibling P.handle)).1 =
      specReplace (Keep.resident b) a b f := by
  obtain ⟨ndL, _⟩ := sc.nodupKids
  obtain ⟨e1, e2⟩ := gapT_list_model (.text (ps ++ bs)) ndL hA
  have hG : (replaceTop P.handle (fun k => [k.setValue (.text (ps ++ bs))]) ∘ dropTop a)
      (l0 ++ P :: A :: N :: r0) = l0 ++ P.setValue (.text (ps ++ bs)) :: N :: r0 := by
    simp only [Function.comp]; rw [e1, e2]
  have s2 : SiteAt f2 q vq (l0 ++ P.setValue (.text (ps ++ bs)) :: ([] ++ N :: r0)) := by
    subst h2
    have := sc.edit (replaceTop P.handle (fun k => [k.setValue (.text (ps ++ bs))]) ∘ dropTop a) (by
      rw [hG]
      simp only [fs_handlesList_append, handlesList_cons, setValue_handles]
      exact (List.Sublist.refl _).append ((List.Sublist.refl _).append (List.sublist_append_right _ _)))
    rw [hG] at this
    exact this
  have hc2 : f2.consolidation = true := by
    subst h2; rw [Forest.editAt_consolidation]; exact hcc
  have hctx := s2.ctx
  rw [setValue_handle] at hctx
  have hnext : f2.nextSibling P.handle = some N.handle := by
    rw [Forest.nextSibling_of_ctx hctx]
    simp [nextOf, setValue_value, hN, Value.category]
  have hm := merge_at_site s2 hc2 (setValue_value _ _) hN hNleaf
  rw [setValue_handle] at hm
  rw [hnext, hm, hspec]
  subst h2
  simp only
  rw [Forest.editAt_editAt, Forest.editAt_editAt]
  apply sc.congr
  simp only [Function.comp]
  rw [gapT_list_spec ndL hA hP hN ht hPb hl hr, setValue_setValue]
  simp

end XotModel
