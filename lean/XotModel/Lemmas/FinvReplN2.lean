/-
  Finv (C04), part 35: putting a (non-text) node `b` into the hole left by `a`.  `g1` satisfies the
  invariant; in `g1.dropSubtree a` (which may have two adjacent text nodes where `a` was) the call
  `checked_insert_after(ref', b)`, with `ref'` the left neighbour of the hole, yields the forest
  `g1` with `b` cut out and then put in the place of `a` — which satisfies the invariant again.
-/
import XotModel.Lemmas.FinvReplN1

namespace XotModel
open HTree

namespace Forest

theorem loc_of_isRoot {f : Forest} {x : Nat} (h : f.isRoot x = true) :
    ∃ L T R, Loc f.roots x [] L T R := by
  unfold isRoot at h
  rw [List.any_eq_true] at h
  obtain ⟨T, hT, hx⟩ := h
  obtain ⟨L, R, hLR⟩ := List.append_of_mem hT
  exact ⟨L, T, R, ⟨hLR, by simpa using hx⟩⟩

theorem isRoot_drop_of_isRoot {f : Forest} (nd : f.allHandles.Nodup) {x c : Nat} (hr : f.isRoot x = true)
    (hc : c ∈ f.allHandles) (hne : x ≠ c) : (f.dropSubtree c).isRoot x = true := by
  obtain ⟨L, T, R, lc⟩ := loc_of_isRoot hr
  have hanc : (f.ancestors x).contains c = false := by
    rw [ancestors_of_loc lc nd]; simp [Ne.symm hne]
  rw [(dropView lc nd hc hanc).isRoot lc nd]; exact hr

theorem place_over_hole {g1 : Forest} (hi1 : g1.Inv) {a b ref' : Nat} {bv av : Value}
    (hb : g1.value? b = some bv) (hbn : bv.category = .normal) (hbd : bv.isDocument = false)
    (hbt : bv.isText = false)
    (ha : g1.value? a = some av) (han : av.category = .normal) (had : av.isDocument = false)
    (hat : av.isText = false)
    (hcut : g1.CutOK b)
    (h1 : (g1.ancestors b).contains a = false) (h2 : (g1.ancestors a).contains b = false)
    (hLN : (g1.dropSubtree b).leftOf a = some ref') :
    ∃ F0, (g1.dropSubtree a).checkedInsertAfter ref' b = (F0, true) ∧ F0.Inv := by
  have nd1 := hi1.nodup
  have ha' : a ∈ g1.allHandles := mem_allHandles_of_isLive (isLive_of_value? ha)
  have hb' : b ∈ g1.allHandles := mem_allHandles_of_isLive (isLive_of_value? hb)
  obtain ⟨pathb, lb, Bn, rb, locb⟩ := exists_loc hb'
  obtain ⟨patha, la, An, ra, loca⟩ := exists_loc ha'
  have hBv : Bn.value = bv := by
    have := value?_of_loc locb nd1; rw [hb] at this; exact (Option.some.inj this).symm
  -- the valid forest without `b`
  have hCf : (g1.dropSubtree b).Inv := dropSubtree_inv hi1 hcut
  have hcutb := cut_of_loc locb nd1
  have hpermb := cut_perm nd1 hcutb
  have eCf : g1.dropSubtree b = { g1 with roots := plug pathb (lb ++ rb) } := by
    unfold dropSubtree; rw [hcutb]
  -- `a` in it
  have va := dropView loca nd1 hb' h2
  have haCf : a ∈ (g1.dropSubtree b).allHandles := by
    have := va.loc
    exact mem_allHandles_of_isLive (isLive_of_loc this va.nodup)
  have hvaCf : (g1.dropSubtree b).value? a = some av := by rw [va.value? loca nd1]; exact ha
  obtain ⟨pathC, lC, A', rC, locC⟩ := exists_loc haCf
  have hA'v : A'.value = av := by
    have := value?_of_loc locC hCf.nodup; rw [hvaCf] at this; exact (Option.some.inj this).symm
  have hneC : pathC ≠ [] := by
    intro e; subst e
    rw [leftOf_of_loc_nil locC hCf.nodup] at hLN; cases hLN
  rw [leftOf_of_loc locC hCf.nodup hneC] at hLN
  obtain ⟨lC0, R, rfl, hRh⟩ : ∃ lC0 R, lC = lC0 ++ [R] ∧ R.handle = ref' := by
    cases hl : lC.getLast? with
    | none => rw [hl] at hLN; cases hLN
    | some R =>
      rw [hl] at hLN
      rcases List.eq_nil_or_concat lC with h0 | ⟨lC0, y, h0⟩
      · subst h0; simp at hl
      · rw [List.concat_eq_append] at h0; subst h0
        simp at hl; subst hl
        exact ⟨lC0, y, rfl, by simpa using hLN⟩
  -- the state the call runs on, and the state after its `cut`
  have vb := dropView locb nd1 ha' h1
  have haB : a ∉ handlesList Bn.kids := by
    intro hm
    have := anc_of_mem_subtree locb nd1 (x := a) (by rw [fi_handles_eq]; exact List.mem_cons_of_mem _ hm)
    rw [this] at h2; cases h2
  have hcomm : (g1.dropSubtree a).dropSubtree b = (g1.dropSubtree b).dropSubtree a :=
    dropSubtree_comm nd1 hb' ha' h2 h1
  have eC' : (g1.dropSubtree b).dropSubtree a =
      { g1.dropSubtree b with roots := plug pathC (lC0 ++ R :: rC) } := by
    show ((g1.dropSubtree b).cut a).1 = _
    rw [cut_of_loc locC hCf.nodup]; simp
  have hcutX : (g1.dropSubtree a).cut b = ((g1.dropSubtree b).dropSubtree a, some Bn) := by
    have h := cut_of_loc vb.loc vb.nodup
    rw [rb_of_not_mem haB] at h
    have e : ((g1.dropSubtree a).cut b).1 = (g1.dropSubtree b).dropSubtree a := hcomm
    rw [h] at e ⊢
    simp only at e
    rw [e]
  have hpermX := cut_perm vb.nodup hcutX
  have ndX := vb.nodup
  have ndC' : ((g1.dropSubtree b).dropSubtree a).allHandles.Nodup :=
    List.Nodup.sublist (List.sublist_append_left _ _) (hpermX.symm.nodup ndX)
  have locR : Loc ((g1.dropSubtree b).dropSubtree a).roots ref' pathC lC0 R rC := by
    rw [eC']; exact ⟨rfl, hRh⟩
  have hRC' : ref' ∈ ((g1.dropSubtree b).dropSubtree a).allHandles :=
    mem_allHandles_of_isLive (isLive_of_loc locR ndC')
  have hdisj : ∀ x, x ∈ ((g1.dropSubtree b).dropSubtree a).allHandles → x ∉ handles Bn := by
    intro x hx hx'
    exact (List.nodup_append.mp (hpermX.symm.nodup ndX)).2.2 x hx x hx' rfl
  have hRX : ref' ∈ (g1.dropSubtree a).allHandles := hpermX.subset (List.mem_append_left _ hRC')
  have hbX : b ∈ (g1.dropSubtree a).allHandles :=
    hpermX.subset (List.mem_append_right _ (locb.hk ▸ fi_handle_mem_handles Bn))
  have hne : ref' ≠ b := by
    intro e
    exact hdisj ref' hRC' (by rw [e, ← locb.hk]; exact fi_handle_mem_handles Bn)
  have hancR : ((g1.dropSubtree a).ancestors ref').contains b = false := by
    cases hc : ((g1.dropSubtree a).ancestors ref').contains b with
    | false => rfl
    | true =>
      exfalso
      have hloc := vb.loc
      rw [rb_of_not_mem haB] at hloc
      exact hdisj ref' hRC' (mem_subtree_of_anc hloc ndX hRX hc)
  have hrootR : (g1.dropSubtree a).isRoot ref' = false := by
    cases hc : (g1.dropSubtree a).isRoot ref' with
    | false => rfl
    | true =>
      exfalso
      have := isRoot_drop_of_isRoot ndX hc hbX hne
      rw [hcomm, isRoot_of_loc_ne locR hneC ndC'] at this
      cases this
  refine ⟨{ (g1.dropSubtree b).dropSubtree a with roots := plug pathC (lC0 ++ R :: Bn :: rC) }, ?_, ?_⟩
  · unfold checkedInsertAfter
    rw [if_neg hne, hancR, hrootR, hcutX]
    simp only [Bool.or_self, Bool.false_eq_true, if_false]
    rw [placeAfter_of_loc_ne Bn locR hneC ndC']
  · -- the invariant, from `g1`
    have hv := hCf.valid
    rw [locC.eq] at hv
    obtain ⟨k1, k2⟩ := hCf.kids_at locC.eq
    have e0 : ({ (g1.dropSubtree b).dropSubtree a with roots := plug pathC (lC0 ++ R :: Bn :: rC) } : Forest) =
        { g1 with roots := plug pathC (lC0 ++ R :: Bn :: rC) } := by
      rw [eC', eCf]
    rw [e0]
    apply hi1.with_roots _ (handles A')
    · -- handles
      refine List.Perm.trans ?_ hpermb
      have hC : ({ g1 with roots := plug pathb (lb ++ rb) } : Forest).allHandles =
          handlesList (plug pathC ((lC0 ++ [R]) ++ A' :: rC)) := by
        rw [← eCf]; unfold allHandles; rw [locC.eq]
      rw [hC]
      refine ((handlesList_plug_perm _ _).append_right _).trans
        (List.Perm.trans ?_ ((handlesList_plug_perm _ _).symm.append_right _))
      simp only [fi_handlesList_append, fi_handlesList_cons, fi_handlesList_nil, List.append_nil, List.append_assoc]
      refine List.Perm.append_left _ (List.Perm.append_left _ (List.Perm.append_left _ ?_))
      -- Bn ++ (rC ++ A')  ~  A' ++ (rC ++ Bn)
      have : ∀ (x y z : List Nat), (x ++ (y ++ z)).Perm (z ++ (y ++ x)) := by
        intro x y z
        refine (List.perm_append_comm (l₁ := x) (l₂ := y ++ z)).trans ?_
        rw [List.append_assoc]
        refine List.perm_append_comm.trans ?_
        rw [List.append_assoc]
        exact List.Perm.append_left _ List.perm_append_comm
      exact this _ _ _
    · have he : (g1.dropSubtree b).everOff = g1.everOff := by rw [eCf]
      rw [he] at hv k1 k2
      apply valid_plug_replace _ _ _ _ hv
      · cases hiv : innerValue pathC with
        | none => rfl
        | some pv =>
          rw [hiv] at k1
          refine (kidsOK_iff _ _ _).mpr ?_
          have K := (kidsOK_iff _ _ _).mp k1
          have := K.sameKind (k' := Bn) ⟨by rw [hA'v, hBv, han, hbn], by rw [hA'v, hBv, hat, hbt],
            by rw [hA'v, hBv]; cases av <;> cases bv <;> simp_all [entryKey, Value.category],
            by rw [hA'v, hBv, had, hbd]⟩
          simpa using this
      · simp only [validList_append, validList_cons, validList_nil, Bool.and_true, Bool.and_eq_true] at k2 ⊢
        exact ⟨k2.1.1, k2.1.2, hi1.validTree_of_loc locb, k2.2.2⟩

end Forest
end XotModel
