/-
  FspecForest — the lemmas of FspecBase/Edit/Prim lifted to the forest (the list of parentless
  trees): `ctx?` versus `get?` of the parent, the primitives `cut`, `setValue`, `spliceOut`,
  `placeAfter/Before/Last` as `Forest.editAt`, lookups and distinctness of handles after an edit.
-/
import XotModel.Lemmas.FspecPrim

namespace XotModel
open HTree Spec

mutual
  theorem find?_sublist {h : Nat} : ∀ (t u : HTree), find? h t = some u → (handles u).Sublist (handles t)
    | .node h' v ks, u => by
      intro e
      rw [find?_node] at e
      by_cases hh : h' = h
      · rw [if_pos hh] at e
        have e' := Option.some.inj e
        subst e'
        exact List.Sublist.refl _
      · rw [if_neg hh] at e
        rw [handles_node]
        exact (fs_findList?_sublist ks u e).cons h'
  theorem fs_findList?_sublist {h : Nat} : ∀ (ks : List HTree) (u : HTree), findList? h ks = some u →
      (handles u).Sublist (handlesList ks)
    | [], u => by intro e; rw [findList?_nil] at e; cases e
    | k :: ks, u => by
      intro e
      rw [handlesList_cons]
      cases hk : find? h k with
      | some t =>
        rw [findList?_cons_some hk] at e
        have e' := Option.some.inj e
        subst e'
        exact (find?_sublist k t hk).trans (List.sublist_append_left _ _)
      | none =>
        rw [findList?_cons_none hk] at e
        exact (fs_findList?_sublist ks u e).trans (List.sublist_append_right _ _)
end

/-- A child of `p` is not the root of the tree in which `p` was found. -/
theorem top_ne_root {p h : Nat} {v : Value} {L : List HTree} {k : HTree} (nd : (handles k).Nodup)
    (hk : find? p k = some (.node p v L)) (ht : IsTop h L) : k.handle ≠ h := by
  intro heq
  cases k with
  | node kh kv kks =>
    obtain ⟨k1, k2⟩ := nodup_handles_node nd
    simp only [HTree.handle] at heq
    rw [find?_node] at hk
    by_cases hkp : kh = p
    · rw [if_pos hkp] at hk
      have hk' := Option.some.inj hk
      injection hk' with _ _ e3
      subst e3
      exact k1 (heq ▸ ht.mem_handlesList)
    · rw [if_neg hkp] at hk
      exact k1 (heq ▸ top_mem_of_findList hk ht)

/-! ### Lists of parentless trees -/

theorem findSome_ctx_find {h : Nat} : ∀ (rs : List HTree) (c : Ctx), (handlesList rs).Nodup →
    rs.findSome? (ctxBelow h) = some c →
    c.self.handle = h ∧ ∃ v, findList? c.parent rs = some (.node c.parent v (c.left ++ c.self :: c.right))
  | [], c => by intro _ e; simp at e
  | k :: rs, c => by
    intro nd e
    obtain ⟨n1, n2, n3⟩ := nodup_handlesList_cons nd
    cases hb : ctxBelow h k with
    | some c' =>
      simp only [List.findSome?_cons, hb] at e
      have e' := Option.some.inj e
      subst e'
      obtain ⟨e0, v, e2⟩ := ctxBelow_find k c' n1 hb
      exact ⟨e0, v, findList?_cons_some e2⟩
    | none =>
      simp only [List.findSome?_cons, hb] at e
      obtain ⟨e0, v, e2⟩ := findSome_ctx_find rs c n2 e
      refine ⟨e0, v, ?_⟩
      have hm : c.parent ∈ handlesList rs := mem_of_findList?_some e2
      have : c.parent ∉ handles k := fun hx => n3 _ hx hm
      rw [findList?_cons_none (find?_eq_none k this)]
      exact e2

theorem find_findSome_ctx {p : Nat} {v : Value} {l : List HTree} {s : HTree} {r : List HTree} :
    ∀ (rs : List HTree), (handlesList rs).Nodup → findList? p rs = some (.node p v (l ++ s :: r)) →
    rs.findSome? (ctxBelow s.handle) = some ⟨p, l, s, r⟩
  | [] => by intro _ e; rw [findList?_nil] at e; cases e
  | k :: rs => by
    intro nd e
    obtain ⟨n1, n2, n3⟩ := nodup_handlesList_cons nd
    cases hk : find? p k with
    | some t =>
      rw [findList?_cons_some hk] at e
      have e' := Option.some.inj e
      subst e'
      simp only [List.findSome?_cons, find_ctxBelow k n1 hk]
    | none =>
      rw [findList?_cons_none hk] at e
      have hm : s.handle ∈ handlesList rs :=
        top_mem_of_findList e ⟨s, List.mem_append_right _ List.mem_cons_self, rfl⟩
      have hnk : s.handle ∉ handles k := fun hx => n3 _ hx hm
      simp only [List.findSome?_cons, ctxBelow_of_not_mem k hnk]
      exact find_findSome_ctx rs n2 e

/-- Two functions on trees that agree on the tree holding the site `p` and are the identity
    elsewhere agree on the whole list. -/
theorem map_congr_at_site {p : Nat} {u : HTree} {A B : HTree → HTree} : ∀ rs : List HTree,
    (handlesList rs).Nodup → findList? p rs = some u →
    (∀ k, (handles k).Nodup → find? p k = some u → A k = B k) →
    (∀ k, (∀ x ∈ handles u, x ∉ handles k) → A k = B k) →
    rs.map A = rs.map B
  | [] => by intro _ _ _ _; rfl
  | k :: rs => by
    intro nd e h1 h2
    obtain ⟨n1, n2, n3⟩ := nodup_handlesList_cons nd
    rw [List.map_cons, List.map_cons]
    cases hk : find? p k with
    | some t =>
      rw [findList?_cons_some hk] at e
      have e' := Option.some.inj e
      subst e'
      rw [h1 k n1 hk]
      congr 1
      apply List.map_congr_left
      intro k' hk'
      apply h2
      intro x hx hx'
      exact n3 x ((find?_some k t hk).2 x hx) (mem_handlesList.2 ⟨k', hk', hx'⟩)
    | none =>
      rw [findList?_cons_none hk] at e
      have hsub := (findList?_some rs u e).2
      rw [h2 k (fun x hx hx' => n3 x hx' (hsub x hx)), map_congr_at_site rs n2 e h1 h2]

/-- A child of `p` is not a parentless tree. -/
theorem not_root_of_top {p h : Nat} {v : Value} {L : List HTree} : ∀ rs : List HTree,
    (handlesList rs).Nodup → findList? p rs = some (.node p v L) → IsTop h L →
    rs.any (fun r => r.handle = h) = false
  | [] => by intro _ _ _; rfl
  | k :: rs => by
    intro nd e ht
    obtain ⟨n1, n2, n3⟩ := nodup_handlesList_cons nd
    rw [List.any_cons]
    cases hk : find? p k with
    | some t =>
      rw [findList?_cons_some hk] at e
      have e' := Option.some.inj e
      subst e'
      have hne := top_ne_root n1 hk ht
      have hin : h ∈ handles k := top_mem_of_find hk ht
      have : rs.any (fun r => decide (r.handle = h)) = false := by
        rw [List.any_eq_false]
        intro k' hk' heq
        simp only [decide_eq_true_eq] at heq
        exact n3 h hin (heq ▸ handle_mem_handlesList hk')
      simp [hne, this]
    | none =>
      rw [findList?_cons_none hk] at e
      have hin : h ∈ handlesList rs := top_mem_of_findList e ht
      have hnk : h ∉ handles k := fun hm => n3 h hm hin
      simp [handle_ne_of_not_mem hnk, not_root_of_top rs n2 e ht]

/-- A child of `p` is found by its handle. -/
theorem findList?_kid {p : Nat} {v : Value} {l : List HTree} {s : HTree} {r : List HTree} (rs : List HTree)
    (nd : (handlesList rs).Nodup) (e : findList? p rs = some (.node p v (l ++ s :: r))) :
    findList? s.handle rs = some s := by
  have hsub := fs_findList?_sublist rs _ e
  have ndu : (handles (HTree.node p v (l ++ s :: r))).Nodup := hsub.nodup nd
  obtain ⟨u1, u2⟩ := nodup_handles_node ndu
  have hin : s.handle ∈ handlesList (l ++ s :: r) := handle_mem_handlesList (List.mem_append_right _ List.mem_cons_self)
  rw [findList?_inside rs _ nd e (by rw [handles_node]; exact List.mem_cons_of_mem _ hin), find?_node,
    if_neg (fun (e' : p = s.handle) => u1 (e' ▸ hin))]
  obtain ⟨m1, _⟩ := nodup_mid u2
  exact findList?_mid (m1 _ (fs_handle_mem_handles s))

namespace Forest

theorem get?_eq (f : Forest) (h : Nat) : f.get? h = findList? h f.roots := rfl
theorem ctx?_eq (f : Forest) (h : Nat) : f.ctx? h = f.roots.findSome? (ctxBelow h) := rfl

/-- `ctx?` gives the child list of the parent. -/
theorem kids_of_ctx {f : Forest} {h : Nat} {c : Ctx} (nd : f.allHandles.Nodup) (e : f.ctx? h = some c) :
    c.self.handle = h ∧ ∃ v, f.get? c.parent = some (.node c.parent v (c.left ++ c.self :: c.right)) :=
  findSome_ctx_find f.roots c nd e

/-- The child list of `p` gives the `ctx?` of each child. -/
theorem ctx_of_kids {f : Forest} {p : Nat} {v : Value} {l : List HTree} {s : HTree} {r : List HTree}
    (nd : f.allHandles.Nodup) (e : f.get? p = some (.node p v (l ++ s :: r))) :
    f.ctx? s.handle = some ⟨p, l, s, r⟩ :=
  find_findSome_ctx f.roots nd e

theorem get?_of_ctx {f : Forest} {h : Nat} {c : Ctx} (nd : f.allHandles.Nodup) (e : f.ctx? h = some c) :
    f.get? h = some c.self := by
  obtain ⟨e0, v, e1⟩ := kids_of_ctx nd e
  exact e0 ▸ findList?_kid f.roots nd e1

theorem isRoot_of_ctx {f : Forest} {h : Nat} {c : Ctx} (nd : f.allHandles.Nodup) (e : f.ctx? h = some c) :
    f.isRoot h = false := by
  obtain ⟨e0, v, e1⟩ := kids_of_ctx nd e
  exact not_root_of_top f.roots nd e1 ⟨c.self, List.mem_append_right _ List.mem_cons_self, e0⟩

theorem editAt_some_roots (f : Forest) (p : Nat) (g : List HTree → List HTree) :
    (f.editAt (some p) g).roots = f.roots.map (HTree.editAt p g) := rfl

/-- `replaceBelow` on a child of `p`, over the whole forest, is an edit of `p`'s child list. -/
theorem map_replaceBelow {f : Forest} {h : Nat} {c : Ctx} (F : HTree → List HTree)
    (nd : f.allHandles.Nodup) (e : f.ctx? h = some c) :
    f.roots.map (replaceBelow h F) = f.roots.map (HTree.editAt c.parent (replaceTop h F)) := by
  obtain ⟨e0, v, e1⟩ := kids_of_ctx nd e
  have ht : IsTop h (c.left ++ c.self :: c.right) := ⟨c.self, List.mem_append_right _ List.mem_cons_self, e0⟩
  apply map_congr_at_site f.roots nd e1
  · intro k ndk hk
    exact replaceBelow_eq_editAt k ndk hk ht
  · intro k hdis
    have hp : c.parent ∉ handles k := hdis _ (by rw [handles_node]; exact List.mem_cons_self)
    have hh : h ∉ handles k := hdis _ (by rw [handles_node]; exact List.mem_cons_of_mem _ ht.mem_handlesList)
    rw [fs_replaceBelow_of_not_mem k hh, editAt_of_not_mem k hp]

theorem map_mapAt {f : Forest} {h : Nat} {c : Ctx} (G : HTree → HTree)
    (nd : f.allHandles.Nodup) (e : f.ctx? h = some c) :
    f.roots.map (mapAt h G) = f.roots.map (HTree.editAt c.parent (replaceTop h (fun k => [G k]))) := by
  obtain ⟨e0, v, e1⟩ := kids_of_ctx nd e
  have ht : IsTop h (c.left ++ c.self :: c.right) := ⟨c.self, List.mem_append_right _ List.mem_cons_self, e0⟩
  apply map_congr_at_site f.roots nd e1
  · intro k ndk hk
    exact mapAt_eq_editAt k ndk hk ht
  · intro k hdis
    have hp : c.parent ∉ handles k := hdis _ (by rw [handles_node]; exact List.mem_cons_self)
    have hh : h ∉ handles k := hdis _ (by rw [handles_node]; exact List.mem_cons_of_mem _ ht.mem_handlesList)
    rw [fs_mapAt_of_not_mem k hh, editAt_of_not_mem k hp]

/-- `cut` of a node that has a parent. -/
theorem cut_of_ctx {f : Forest} {n : Nat} {c : Ctx} (nd : f.allHandles.Nodup) (e : f.ctx? n = some c) :
    f.cut n = (f.editAt (some c.parent) (replaceTop n (fun _ => [])), some c.self) := by
  unfold Forest.cut
  rw [get?_of_ctx nd e]
  simp only [isRoot_of_ctx nd e, Bool.false_eq_true, if_false]
  rw [map_replaceBelow _ nd e]
  rfl

theorem setValue_of_ctx {f : Forest} {a : Nat} {c : Ctx} (v : Value) (nd : f.allHandles.Nodup)
    (e : f.ctx? a = some c) :
    f.setValue a v = f.editAt (some c.parent) (replaceTop a (fun k => [k.setValue v])) := by
  unfold Forest.setValue
  rw [map_mapAt _ nd e]
  rfl

theorem spliceOut_of_ctx {f : Forest} {b : Nat} {c : Ctx} (nd : f.allHandles.Nodup)
    (e : f.ctx? b = some c) :
    f.spliceOut b = f.editAt (some c.parent) (replaceTop b (fun k => k.kids)) := by
  unfold Forest.spliceOut
  rw [get?_of_ctx nd e]
  simp only [isRoot_of_ctx nd e, Bool.false_eq_true, if_false]
  rw [map_replaceBelow _ nd e]
  rfl

theorem placeAfter_of_ctx {f : Forest} {r : Nat} {c : Ctx} (t : HTree) (nd : f.allHandles.Nodup)
    (e : f.ctx? r = some c) : f.placeAfter r t = f.editAt (some c.parent) (insertAfterTop r t) := by
  unfold Forest.placeAfter
  rw [map_replaceBelow _ nd e]
  rfl

theorem placeBefore_of_ctx {f : Forest} {r : Nat} {c : Ctx} (t : HTree) (nd : f.allHandles.Nodup)
    (e : f.ctx? r = some c) : f.placeBefore r t = f.editAt (some c.parent) (insertBeforeTop r t) := by
  unfold Forest.placeBefore
  rw [map_replaceBelow _ nd e]
  rfl

theorem placeLast_eq (f : Forest) (p : Nat) (t : HTree) : f.placeLast p t = f.editAt (some p) (insertLast t) := rfl

theorem placeFirst_eq (f : Forest) (p : Nat) (t : HTree) : f.placeFirst p t = f.editAt (some p) (fun ks => t :: ks) := rfl

/-! ### Edits of the forest -/

theorem editAt_editAt (f : Forest) (s : Option Nat) (g1 g2 : List HTree → List HTree) :
    (f.editAt s g1).editAt s g2 = f.editAt s (g2 ∘ g1) := by
  cases s with
  | none => rfl
  | some p =>
    simp only [Forest.editAt]
    rw [editAt_editAt_list]

theorem editAt_comm (f : Forest) {p q : Nat} {g g' : List HTree → List HTree} (hne : p ≠ q)
    (n1 : NatFor (HTree.editAt q g') g) (n2 : NatFor (HTree.editAt p g) g') :
    (f.editAt (some q) g').editAt (some p) g = (f.editAt (some p) g).editAt (some q) g' := by
  simp only [Forest.editAt]
  rw [editAt_comm_list hne n1 n2]

/-- The edited node afterwards. -/
theorem get?_editAt_self {f : Forest} {p : Nat} {v : Value} {L : List HTree} (g : List HTree → List HTree)
    (e : f.get? p = some (.node p v L)) : (f.editAt (some p) g).get? p = some (.node p v (g L)) :=
  findList?_editAt_self f.roots e

/-- Another node afterwards. -/
theorem get?_editAt_other {f : Forest} {p x : Nat} {g : List HTree → List HTree} (hx : x ≠ p)
    (nd : f.allHandles.Nodup)
    (hg : ∀ v L, f.get? p = some (.node p v L) → findList? x (g L) = findList? x L) :
    (f.editAt (some p) g).get? x = (f.get? x).map (HTree.editAt p g) :=
  findList?_editAt_other hx f.roots nd hg

theorem nodup_editAt {f : Forest} {p : Nat} {g : List HTree → List HTree} (nd : f.allHandles.Nodup)
    (hg : ∀ L, (handlesList (g L)).Sublist (handlesList L)) : (f.editAt (some p) g).allHandles.Nodup :=
  (handlesList_editAt_sublist hg f.roots).nodup nd

end Forest
end XotModel
