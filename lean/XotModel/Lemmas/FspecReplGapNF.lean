/-
  FspecReplGapNF — C05 for `replace`, the gap case: the replaced node `a` sits between two TEXT
  nodes `P` and `N`, so after `remove_subtree(a)` the forest `f1` holds two adjacent text nodes
  and is not `Forest.Normal`; `insert_after(P, b)` is evaluated by hand on `f1`.  Here the
  replacing node `b` is NOT text and does NOT have the parent of `a` as its parent (it is a
  parentless tree, or a child of another node).

  Part 1 (this file): the evaluation of `insert_after` from LOCAL facts (no validity of the
  forest needed), the final consolidation as a no-op, and the commutation of edits at two sites.
-/
import XotModel.Lemmas.FspecRepl1
import XotModel.Lemmas.FspecRepl2
import XotModel.Lemmas.FspecFrame

namespace XotModel
open HTree Spec

namespace ReplGapNF

/-! ### The two argument checks of `insert_after`, from what is known -/

theorem structureCheck_pack {f : Forest} {p c : Nat} {vp : Value} {Lp : List HTree} {t : HTree}
    (nd : f.allHandles.Nodup) (hgp : f.get? p = some (.node p vp Lp))
    (hvp : vp.isElement = true ∨ vp.isDocument = true) (hgc : f.get? c = some t)
    (hpt : p ∉ handles t) (htn : t.value.isNormal = true) (htd : t.value.isDocument = false) :
    f.structureCheck (some p) c = true := by
  have hanc : (f.ancestors p).contains c = false := by
    cases h : (f.ancestors p).contains c with
    | false => rfl
    | true =>
      obtain ⟨u, hu, hin⟩ := (Forest.ancestors_contains_iff nd).1 h
      rw [hgc] at hu
      cases hu
      exact absurd hin hpt
  have h1 : (f.isElement p || f.isDocument p) = true := by
    unfold Forest.isElement Forest.isDocument Forest.value?
    rw [hgp]
    simp only [Option.map_some, HTree.value]
    cases hvp with
    | inl h => simp [h]
    | inr h => simp [h]
  unfold Forest.structureCheck
  simp only [h1, hanc, Bool.not_false, Bool.true_and]
  unfold Forest.value?
  rw [hgc]
  simp only [Option.map_some]
  cases hv : t.value <;> rw [hv] at htn htd <;> simp_all [Value.isNormal, Value.category, Value.isDocument]

theorem siblingReferenceCheck_pack {f : Forest} {ref c : Nat} {w : HTree} (hne : ref ≠ c)
    (hg : f.get? ref = some w) (hwn : w.value.isNormal = true) : f.siblingReferenceCheck ref c = true := by
  unfold Forest.siblingReferenceCheck Forest.isNormalNode Forest.value?
  rw [hg]
  simp [hne, hwn]

theorem normal_category {v : Value} (h : v.isNormal = true) : v.category = .normal := by
  simpa [Value.isNormal] using h

/-- The next sibling of a normal node followed by a normal node. -/
theorem nextOf_cons_normal {w k : HTree} {B : List HTree} (hw : w.value.isNormal = true)
    (hk : k.value.isNormal = true) : nextOf (k :: B) w = some k.handle := by
  simp [nextOf, normal_category hw, normal_category hk]

theorem textData_none_of_not_text {t : HTree} (h : t.value.isText = false) : textData t = none := by
  cases hd : textData t with
  | none => rfl
  | some z =>
    have := isText_iff_textData.2 ⟨z, hd⟩
    rw [h] at this; cases this

/-! ### The last step of `replace`: nothing to consolidate after a node that is not text -/

/-- After `t` (normal, not text) was inserted directly after the child `w`, the consolidation
    of `w` with its next sibling changes nothing. -/
theorem final_noop {Y : Forest} {q : Nat} {vq : Value} {A : List HTree} {w : HTree} {B : List HTree} {t : HTree}
    (sY : SiteAt Y q vq (A ++ w :: B))
    (hcount : ∀ z, Y.allHandles.count z + (handles t).count z ≤ 1)
    (hwn : w.value.isNormal = true) (htn : t.value.isNormal = true) (hbt : t.value.isText = false) :
    ((Y.editAt (some q) (insertAfterTop w.handle t)).removeConsolidate (some w.handle)
      ((Y.editAt (some q) (insertAfterTop w.handle t)).nextSibling w.handle)).1
      = Y.editAt (some q) (insertAfterTop w.handle t) := by
  obtain ⟨ndL, _⟩ := sY.nodupKids
  obtain ⟨tA, _⟩ := tops_ne_of_nodup ndL
  have hI : insertAfterTop w.handle t (A ++ w :: B) = A ++ w :: t :: B := insertAfterTop_mid t tA
  have nd2 : (Y.editAt (some q) (insertAfterTop w.handle t)).allHandles.Nodup := by
    apply sY.nodup_of_count
    intro z
    have h2 := count_insert_le z (.after w.handle) t (A ++ w :: B)
    simp only [Dest.insert] at h2
    have h3 := hcount z
    omega
  have s2 : SiteAt (Y.editAt (some q) (insertAfterTop w.handle t)) q vq (A ++ w :: t :: B) := by
    refine ⟨nd2, ?_⟩
    rw [← hI]
    exact Forest.get?_editAt_self _ sY.kids
  have s2' : SiteAt (Y.editAt (some q) (insertAfterTop w.handle t)) q vq ((A ++ [w]) ++ t :: B) := by
    have : (A ++ [w]) ++ t :: B = A ++ w :: t :: B := by simp
    rw [this]; exact s2
  rw [Forest.nextSibling_of_ctx s2.ctx]
  simp only
  rw [nextOf_cons_normal hwn htn, Forest.removeConsolidate_not_text_right]
  rw [Forest.textOf_of_get s2'.getKid]
  exact textData_none_of_not_text hbt

/-! ### `insert_after(w, b)` when `b` is a parentless tree -/

theorem insertAfter_eval_root {Z : Forest} {b q : Nat} {vq : Value} {A : List HTree} {w : HTree} {B : List HTree}
    {t : HTree} (sq : SiteAt Z q vq (A ++ w :: B)) (hvq : vq.isElement = true ∨ vq.isDocument = true)
    (hgb : Z.get? b = some t) (hroot : Z.ctx? b = none) (hqt : q ∉ handles t)
    (htn : t.value.isNormal = true) (htd : t.value.isDocument = false) (hbt : t.value.isText = false)
    (hwn : w.value.isNormal = true) (hwb : w.handle ≠ b) (hnext : nextOf B w ≠ some b) :
    Z.insertAfter w.handle b =
      ((Z.editAt none (dropTop b)).editAt (some q) (insertAfterTop w.handle t), .ok) := by
  have nd := sq.nd
  have hsc : Z.structureCheck (some q) b = true := structureCheck_pack nd sq.kids hvq hgb hqt htn htd
  have hsr : Z.siblingReferenceCheck w.handle b = true := siblingReferenceCheck_pack hwb sq.getKid hwn
  have hnx : (Z.nextSibling w.handle == some b) = false := by
    rw [Forest.nextSibling_of_ctx sq.ctx]
    simpa using hnext
  rw [insertAfter_unfold, Forest.parent?_of_ctx sq.ctx]
  simp only [hsc, hsr, hnx, Bool.not_true, Bool.false_eq_true, if_false]
  rw [Forest.prevSibling_of_no_ctx hroot, Forest.nextSibling_of_no_ctx hroot,
    Forest.removeConsolidate_none_left]
  simp only [Bool.false_and, Bool.false_eq_true, if_false]
  unfold insertAfterTail
  have htext : Z.textOf b = none := by
    rw [Forest.textOf_of_get hgb]; exact textData_none_of_not_text hbt
  rw [Forest.addConsolidate_not_text htext]
  simp only [Bool.false_eq_true, if_false]
  rw [Forest.checkedInsertAfter_ok hgb sq hqt hwb, Forest.parent?_of_no_ctx hroot]
  simp only [if_true]
  have sY := sq.dropRoot hgb hqt
  rw [Forest.placeAfter_of_ctx t sY.nd sY.ctx]

end ReplGapNF
end XotModel
