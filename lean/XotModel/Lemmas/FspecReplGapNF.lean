/-
  FspecReplGapNF — C05 for `replace`, the gap case: the replaced node `a` sits between two TEXT
  nodes `P` and `N`, so after `remove_subtree(a)` the forest `f1` holds two adjacent text nodes
  and is not `Forest.Normal`; `insert_after(P, b)` is evaluated by hand on `f1`.  Here the
  replacing node `b` is NOT text and does NOT have the parent of `a` as its parent (it is a
  parentless tree, or a child of another node).

  Part 1 (this file): the evaluation of `insert_after` from LOCAL facts (no validity of the
  forest needed), the final consolidation as a no-op, and the commutation of edits at two sites.
-/
import XotModel.Lemmas.FspecRepl1
import XotModel.Lemmas.FspecRepl2
import XotModel.Lemmas.FspecFrame

namespace XotModel
open HTree Spec

namespace ReplGapNF

/-! ### The two argument checks of `insert_after`, from what is known -/

theorem structureCheck_pack {f : Forest} {p c : Nat} {vp : Value} {Lp : List HTree} {t : HTree}
    (nd : f.allHandles.Nodup) (hgp : f.get? p = some (.node p vp Lp))
    (hvp : vp.isElement = true ∨ vp.isDocument = true) (hgc : f.get? c = some t)
    (hpt : p ∉ handles t) (htn : t.value.isNormal = true) (htd : t.value.isDocument = false) :
    f.structureCheck (some p) c = true := by
  have hanc : (f.ancestors p).contains c = false := by
    cases h : (f.ancestors p).contains c with
    | false => rfl
    | true =>
      obtain ⟨u, hu, hin⟩ := (Forest.ancestors_contains_iff nd).1 h
      rw [hgc] at hu
      cases hu
      exact absurd hin hpt
  have h1 : (f.isElement p || f.isDocument p) = true := by
    unfold Forest.isElement Forest.isDocument Forest.value?
    rw [hgp]
    simp only [Option.map_some, HTree.value]
    cases hvp with
    | inl h => simp [h]
    | inr h => simp [h]
  unfold Forest.structureCheck
  simp only [h1, hanc, Bool.not_false, Bool.true_and]
  unfold Forest.value?
  rw [hgc]
  simp only [Option.map_some]
  cases hv : t.value <;> rw [hv] at htn htd <;> simp_all [Value.isNormal, Value.category, Value.isDocument]

theorem siblingReferenceCheck_pack {f : Forest} {ref c : Nat} {w : HTree} (hne : ref ≠ c)
    (hg : f.get? ref = some w) (hwn : w.value.isNormal = true) : f.siblingReferenceCheck ref c = true := by
  unfold Forest.siblingReferenceCheck Forest.isNormalNode Forest.value?
  rw [hg]
  simp [hne, hwn]

theorem normal_category {v : Value} (h : v.isNormal = true) : v.category = .normal := by
  simpa [Value.isNormal] using h

/-- The next sibling of a normal node followed by a normal node. -/
theorem nextOf_cons_normal {w k : HTree} {B : List HTree} (hw : w.value.isNormal = true)
    (hk : k.value.isNormal = true) : nextOf (k :: B) w = some k.handle := by
  simp [nextOf, normal_category hw, normal_category hk]

theorem textData_none_of_not_text {t : HTree} (h : t.value.isText = false) : textData t = none := by
  cases hd : textData t with
  | none => rfl
  | some z =>
    have := isText_iff_textData.2 ⟨z, hd⟩
    rw [h] at this; cases this

/-! ### The last step of `replace`: nothing to consolidate after a node that is not text -/

/-- After `t` (normal, not text) was inserted directly after the child `w`, the consolidation
    of `w` with its next sibling changes nothing. -/
theorem final_noop {Y : Forest} {q : Nat} {vq : Value} {A : List HTree} {w : HTree} {B : List HTree} {t : HTree}
    (sY : SiteAt Y q vq (A ++ w :: B))
    (hcount : ∀ z, Y.allHandles.count z + (handles t).count z ≤ 1)
    (hwn : w.value.isNormal = true) (htn : t.value.isNormal = true) (hbt : t.value.isText = false) :
    ((Y.editAt (some q) (insertAfterTop w.handle t)).removeConsolidate (some w.handle)
      ((Y.editAt (some q) (insertAfterTop w.handle t)).nextSibling w.handle)).1
      = Y.editAt (some q) (insertAfterTop w.handle t) := by
  obtain ⟨ndL, _⟩ := sY.nodupKids
  obtain ⟨tA, _⟩ := tops_ne_of_nodup ndL
  have hI : insertAfterTop w.handle t (A ++ w :: B) = A ++ w :: t :: B := insertAfterTop_mid t tA
  have nd2 : (Y.editAt (some q) (insertAfterTop w.handle t)).allHandles.Nodup := by
    apply sY.nodup_of_count
    intro z
    have h2 := count_insert_le z (.after w.handle) t (A ++ w :: B)
    simp only [Dest.insert] at h2
    have h3 := hcount z
    omega
  have s2 : SiteAt (Y.editAt (some q) (insertAfterTop w.handle t)) q vq (A ++ w :: t :: B) := by
    refine ⟨nd2, ?_⟩
    rw [← hI]
    exact Forest.get?_editAt_self _ sY.kids
  have s2' : SiteAt (Y.editAt (some q) (insertAfterTop w.handle t)) q vq ((A ++ [w]) ++ t :: B) := by
    have : (A ++ [w]) ++ t :: B = A ++ w :: t :: B := by simp
    rw [this]; exact s2
  rw [Forest.nextSibling_of_ctx s2.ctx]
  simp only
  rw [nextOf_cons_normal hwn htn, Forest.removeConsolidate_not_text_right]
  rw [Forest.textOf_of_get s2'.getKid]
  exact textData_none_of_not_text hbt

/-! ### `insert_after(w, b)` when `b` is a parentless tree -/

theorem insertAfter_eval_root {Z : Forest} {b q : Nat} {vq : Value} {A : List HTree} {w : HTree} {B : List HTree}
    {t : HTree} (sq : SiteAt Z q vq (A ++ w :: B)) (hvq : vq.isElement = true ∨ vq.isDocument = true)
    (hgb : Z.get? b = some t) (hroot : Z.ctx? b = none) (hqt : q ∉ handles t)
    (htn : t.value.isNormal = true) (htd : t.value.isDocument = false) (hbt : t.value.isText = false)
    (hwn : w.value.isNormal = true) (hwb : w.handle ≠ b) (hnext : nextOf B w ≠ some b) :
    Z.insertAfter w.handle b =
      ((Z.editAt none (dropTop b)).editAt (some q) (insertAfterTop w.handle t), .ok) := by
  have nd := sq.nd
  have hsc : Z.structureCheck (some q) b = true := structureCheck_pack nd sq.kids hvq hgb hqt htn htd
  have hsr : Z.siblingReferenceCheck w.handle b = true := siblingReferenceCheck_pack hwb sq.getKid hwn
  have hnx : (Z.nextSibling w.handle == some b) = false := by
    rw [Forest.nextSibling_of_ctx sq.ctx]
    simpa using hnext
  rw [insertAfter_unfold, Forest.parent?_of_ctx sq.ctx]
  simp only [hsc, hsr, hnx, Bool.not_true, Bool.false_eq_true, if_false]
  rw [Forest.prevSibling_of_no_ctx hroot, Forest.nextSibling_of_no_ctx hroot,
    Forest.removeConsolidate_none_left]
  simp only [Bool.false_and, Bool.false_eq_true, if_false]
  unfold insertAfterTail
  have htext : Z.textOf b = none := by
    rw [Forest.textOf_of_get hgb]; exact textData_none_of_not_text hbt
  rw [Forest.addConsolidate_not_text htext]
  simp only [Bool.false_eq_true, if_false]
  rw [Forest.checkedInsertAfter_ok hgb sq hqt hwb, Forest.parent?_of_no_ctx hroot]
  simp only [if_true]
  have sY := sq.dropRoot hgb hqt
  rw [Forest.placeAfter_of_ctx t sY.nd sY.ctx]

/-! ### `insert_after(w, b)` when `b` is a child of another node `po` -/

/-- `G` is what the old-site consolidation did to the child list of `po` (as a function on
    lists); the node is then cut and placed after `w`. -/
theorem insertAfter_eval_kid {Z : Forest} {po q : Nat} {vo vq : Value} {l r l1 r1 : List HTree} {t : HTree}
    {A : List HTree} {w : HTree} {B : List HTree} {G : List HTree → List HTree} {c1 : Bool}
    (so : SiteAt Z po vo (l ++ t :: r)) (sq : SiteAt Z q vq (A ++ w :: B)) (hne : po ≠ q)
    (hvq : vq.isElement = true ∨ vq.isDocument = true) (hqt : q ∉ handles t)
    (htn : t.value.isNormal = true) (htd : t.value.isDocument = false) (hbt : t.value.isText = false)
    (hwn : w.value.isNormal = true) (hnext : nextOf B w ≠ some t.handle)
    (hrc : Z.removeConsolidate (prevOf l t) (nextOf r t) = (Z.editAt (some po) G, c1))
    (hGL : G (l ++ t :: r) = l1 ++ t :: r1)
    (hsub : (handlesList (l1 ++ t :: r1)).Sublist (handlesList (l ++ t :: r)))
    (hlook : findList? q (l1 ++ t :: r1) = findList? q (l ++ t :: r)) :
    Z.insertAfter w.handle t.handle =
        ((Z.editAt (some po) (dropTop t.handle ∘ G)).editAt (some q) (insertAfterTop w.handle t), .ok)
      ∧ SiteAt (Z.editAt (some po) (dropTop t.handle ∘ G)) q vq
          ((A ++ w :: B).map (HTree.editAt po (dropTop t.handle ∘ G)))
      ∧ ∀ z, (Z.editAt (some po) (dropTop t.handle ∘ G)).allHandles.count z + (handles t).count z ≤ 1 := by
  have nd := sq.nd
  have hwb : w.handle ≠ t.handle := by
    intro e
    have h1 := sq.ctx
    have h2 := so.ctx
    rw [e, h2] at h1
    injection (Option.some.inj h1) with ep _ _ _
    exact hne ep
  -- the forest after the old-site consolidation
  have sX : SiteAt (Z.editAt (some po) G) po vo (l1 ++ t :: r1) := by
    have := so.edit G (by rw [hGL]; exact hsub)
    rwa [hGL] at this
  have sXq : SiteAt (Z.editAt (some po) G) q vq
      (A.map (HTree.editAt po G) ++ HTree.editAt po G w :: B.map (HTree.editAt po G)) := by
    have := so.other sq.kids hne.symm G (by rw [hGL]; exact hsub) (by rw [hGL]; exact hlook)
    simpa using this
  obtain ⟨ndL1, _⟩ := sX.nodupKids
  obtain ⟨tl1, tr1⟩ := tops_ne_of_nodup ndL1
  have hdrop : (dropTop t.handle ∘ G) (l ++ t :: r) = l1 ++ r1 := by
    simp only [Function.comp]
    rw [hGL, dropTop_mid rfl tl1 tr1]
  have hsubY : (handlesList (l1 ++ r1)).Sublist (handlesList (l ++ t :: r)) := by
    refine List.Sublist.trans ?_ hsub
    simp only [fs_handlesList_append, handlesList_cons]
    exact (List.Sublist.refl _).append (List.sublist_append_right _ _)
  have hlookY : findList? q (l1 ++ r1) = findList? q (l ++ t :: r) := by
    rw [← hlook, findList?_append, findList?_append, findList?_cons, find?_eq_none t hqt]
    rfl
  have sY : SiteAt (Z.editAt (some po) (dropTop t.handle ∘ G)) q vq
      ((A ++ w :: B).map (HTree.editAt po (dropTop t.handle ∘ G))) :=
    so.other sq.kids hne.symm _ (by rw [hdrop]; exact hsubY) (by rw [hdrop]; exact hlookY)
  have hcount : ∀ z, (Z.editAt (some po) (dropTop t.handle ∘ G)).allHandles.count z + (handles t).count z ≤ 1 := by
    intro z
    have h1 := sX.count (dropTop t.handle) z
    rw [Forest.editAt_editAt, dropTop_mid rfl tl1 tr1, count_handles_mid] at h1
    have h2 := List.nodup_iff_count.1 sX.nd z
    omega
  refine ⟨?_, sY, hcount⟩
  have hsc : Z.structureCheck (some q) t.handle = true :=
    structureCheck_pack nd sq.kids hvq so.getKid hqt htn htd
  have hsr : Z.siblingReferenceCheck w.handle t.handle = true := siblingReferenceCheck_pack hwb sq.getKid hwn
  have hnx : (Z.nextSibling w.handle == some t.handle) = false := by
    rw [Forest.nextSibling_of_ctx sq.ctx]
    simpa using hnext
  -- the reference is not a sibling of the moved node: it is not rewritten
  have hnr : (nextOf r t == some w.handle) = false := by
    cases h : nextOf r t == some w.handle with
    | false => rfl
    | true =>
      exfalso
      obtain ⟨kb, r2, er, ekb, _⟩ := nextOf_eq_some (by simpa using h)
      subst er
      have skb : SiteAt Z po vo ((l ++ [t]) ++ kb :: r2) := by
        have : (l ++ [t]) ++ kb :: r2 = l ++ t :: kb :: r2 := by simp
        rw [this]; exact so
      have h1 := skb.ctx
      rw [ekb, sq.ctx] at h1
      injection (Option.some.inj h1) with ep _ _ _
      exact hne ep.symm
  rw [insertAfter_unfold, Forest.parent?_of_ctx sq.ctx]
  simp only [hsc, hsr, hnx, Bool.not_true, Bool.false_eq_true, if_false]
  rw [Forest.prevSibling_of_ctx so.ctx, Forest.nextSibling_of_ctx so.ctx]
  simp only
  rw [hrc]
  simp only [hnr, Bool.and_false, Bool.false_eq_true, if_false]
  unfold insertAfterTail
  have htext : (Z.editAt (some po) G).textOf t.handle = none := by
    rw [Forest.textOf_of_get sX.getKid]; exact textData_none_of_not_text hbt
  rw [Forest.addConsolidate_not_text htext]
  simp only [Bool.false_eq_true, if_false]
  have hchk := Forest.checkedInsertAfter_ok sX.getKid sXq hqt (by rw [editAt_handle]; exact hwb)
  rw [editAt_handle] at hchk
  rw [hchk, Forest.parent?_of_ctx sX.ctx, Forest.editAt_editAt]
  simp only [if_true]
  have sY' : SiteAt (Z.editAt (some po) (dropTop t.handle ∘ G)) q vq
      (A.map (HTree.editAt po (dropTop t.handle ∘ G)) ++ HTree.editAt po (dropTop t.handle ∘ G) w ::
        B.map (HTree.editAt po (dropTop t.handle ∘ G))) := by
    simpa using sY
  have hctx := sY'.ctx
  rw [editAt_handle] at hctx
  rw [Forest.placeAfter_of_ctx t sY.nd hctx]

/-! ### Edits at two different sites -/

/-- Two edits at different sites only depend on what they do to the two actual child lists
    (for functions that commute with maps over the children). -/
theorem two_site_congr {f : Forest} {po q : Nat} {vo vq : Value} {L Lq : List HTree} (hne : po ≠ q)
    (so : SiteAt f po vo L) (sq : SiteAt f q vq Lq) {g1 g2 h1 h2 : List HTree → List HTree}
    (hg : g1 L = g2 L) (hh : h1 Lq = h2 Lq)
    (n1 : NatFor (HTree.editAt q h1) g2) (n2 : NatFor (HTree.editAt po g2) h1)
    (n3 : NatFor (HTree.editAt q h2) g2) (n4 : NatFor (HTree.editAt po g2) h2) :
    (f.editAt (some po) g1).editAt (some q) h1 = (f.editAt (some po) g2).editAt (some q) h2 := by
  rw [so.congr hg, ← Forest.editAt_comm f hne n1 n2, sq.congr hh, Forest.editAt_comm f hne n3 n4]

theorem specReplace_unfold {keep : Keep} {a b : Nat} {f : Forest} {t : HTree} {q : Nat}
    (hgb : f.get? b = some t) (hpa : f.parent? a = some q) :
    specReplace keep a b f =
      (((f.editAt (f.parent? b) (dropTop b)).editAt (some q) (replaceTop a (fun _ => [t]))).mergeAt keep
        (f.parent? b)).mergeAt keep (some q) := by
  unfold specReplace
  rw [hgb, hpa]

/-! ### The gap: what the hypotheses give -/

/-- The facts about the child list of `q` shared by the two geometries. -/
structure Gap (f : Forest) (a b q : Nat) (vq : Value) (l0 : List HTree) (P A N : HTree) (r0 : List HTree)
    (t : HTree) : Prop where
  dropA : dropTop a ((l0 ++ [P]) ++ A :: N :: r0) = l0 ++ P :: N :: r0
  replA : replaceTop a (fun _ => [t]) ((l0 ++ [P]) ++ A :: N :: r0) = l0 ++ P :: t :: N :: r0
  tl0 : ∀ k ∈ l0, k.handle ≠ P.handle
  onlyA : ∀ k ∈ (l0 ++ [P]) ++ A :: N :: r0, k.handle = a → k = A
  s1 : SiteAt (f.editAt (some q) (dropTop a)) q vq (l0 ++ P :: N :: r0)
  get1 : (f.editAt (some q) (dropTop a)).get? b = some t
  hPn : P.value.isNormal = true
  hnext : nextOf (N :: r0) P ≠ some b
  noadj : noAdjacentText (l0 ++ P :: t :: N :: r0) = true

theorem gap_of_args {f : Forest} {a b q : Nat} {vq : Value} {l0 : List HTree} {P A N : HTree}
    {r0 : List HTree} {t : HTree} {ps ns : Str}
    (norm : f.Normal) (hc : f.consolidation = true)
    (ra : ReplArgs f a b q vq (l0 ++ [P]) A (N :: r0) t)
    (hP : P.value = .text ps) (hN : N.value = .text ns) (hbt : t.value.isText = false) :
    Gap f a b q vq l0 P A N r0 t := by
  have sq := ra.sq
  have nd := sq.nd
  obtain ⟨ndL, hqL⟩ := sq.nodupKids
  obtain ⟨tl, tr⟩ := tops_ne_of_nodup ndL
  have tl' : ∀ k ∈ l0 ++ [P], k.handle ≠ a := fun k hk => ra.ha ▸ tl k hk
  have tr' : ∀ k ∈ N :: r0, k.handle ≠ a := fun k hk => ra.ha ▸ tr k hk
  have dropA : dropTop a ((l0 ++ [P]) ++ A :: N :: r0) = l0 ++ P :: N :: r0 := by
    rw [dropTop_mid ra.ha tl' tr']; simp
  have replA : replaceTop a (fun _ => [t]) ((l0 ++ [P]) ++ A :: N :: r0) = l0 ++ P :: t :: N :: r0 := by
    rw [replaceTop_mid ra.ha tl']; simp
  have sP : SiteAt f q vq (l0 ++ P :: (A :: N :: r0)) := by
    have : l0 ++ P :: (A :: N :: r0) = (l0 ++ [P]) ++ A :: N :: r0 := by simp
    rw [this]; exact sq
  have tl0 : ∀ k ∈ l0, k.handle ≠ P.handle := (tops_ne_of_nodup sP.nodupKids.1).1
  have s1 : SiteAt (f.editAt (some q) (dropTop a)) q vq (l0 ++ P :: N :: r0) := by
    have := sq.edit (dropTop a) (handlesList_dropTop_sublist a _)
    rwa [dropA] at this
  have onlyA : ∀ k ∈ (l0 ++ [P]) ++ A :: N :: r0, k.handle = a → k = A := by
    intro k hk hka
    cases List.mem_append.1 hk with
    | inl h => exact absurd hka (tl' k h)
    | inr h =>
      cases List.mem_cons.1 h with
      | inl h' => exact h'
      | inr h' => exact absurd hka (tr' k h')
  have hbq : b ≠ q := by
    intro e
    apply ra.hqt
    rw [← e, ← ra.hb]
    exact fs_handle_mem_handles t
  have get1 : (f.editAt (some q) (dropTop a)).get? b = some t := by
    rw [Forest.get?_editAt_other hbq nd (by
      intro v' L' e
      rw [sq.kids] at e
      injection (Option.some.inj e) with _ _ e3
      subst e3
      apply findList?_dropTop
      intro k hk hka
      rw [onlyA k hk hka]; exact ra.hbA), ra.hgb]
    simp only [Option.map_some]
    rw [editAt_of_not_mem t ra.hqt]
  have hPt : P.value.isText = true := by rw [hP]; rfl
  have hNt : N.value.isText = true := by rw [hN]; rfl
  have hPn : P.value.isNormal = true := by rw [hP]; rfl
  have hNn : N.value.isNormal = true := by rw [hN]; rfl
  have sN : SiteAt f q vq ((l0 ++ [P] ++ [A]) ++ N :: r0) := by
    have : (l0 ++ [P] ++ [A]) ++ N :: r0 = (l0 ++ [P]) ++ A :: N :: r0 := by simp
    rw [this]; exact sq
  have hNb : N.handle ≠ b := by
    intro e
    have := sN.getKid
    rw [e, ra.hgb] at this
    have := Option.some.inj this
    rw [this, hNt] at hbt
    cases hbt
  have hnext : nextOf (N :: r0) P ≠ some b := by
    rw [nextOf_cons_normal hPn hNn]
    intro e
    exact hNb (Option.some.inj e)
  have hstrict := (validTree_node (sq.valid (norm hc))).2.2.1 rfl
  obtain ⟨hl, hr, _⟩ := noAdj_append.1 hstrict
  have noadj : noAdjacentText (l0 ++ P :: t :: N :: r0) = true := by
    have e1 : l0 ++ P :: t :: N :: r0 = (l0 ++ [P]) ++ t :: N :: r0 := by simp
    rw [e1]
    apply noAdj_append.2
    refine ⟨hl, ?_, ?_⟩
    · rw [noAdj_cons_cons, Bool.and_eq_true]
      refine ⟨by simp [hbt], noAdj_tail hr⟩
    · intro x y _ hy ⟨_, h2⟩
      simp only [List.head?_cons, Option.some.injEq] at hy
      subst hy
      rw [hbt] at h2; cases h2
  exact ⟨dropA, replA, tl0, onlyA, s1, get1, hPn, hnext, noadj⟩

end ReplGapNF

open ReplGapNF

/-- **replace**, gap case, the replacing node is a parentless tree (not text). -/
theorem replace_gap_nontext_root {f : Forest} {a b q : Nat} {vq : Value} {l0 : List HTree} {P A N : HTree}
    {r0 : List HTree} {t : HTree} {ps ns : Str}
    (norm : f.Normal) (hc : f.consolidation = true)
    (ra : ReplArgs f a b q vq (l0 ++ [P]) A (N :: r0) t)
    (hP : P.value = .text ps) (hN : N.value = .text ns)
    (hbt : t.value.isText = false) (hroot : f.ctx? b = none) :
    ∃ f2, (f.editAt (some q) (dropTop a)).insertAfter P.handle b = (f2, .ok) ∧
      (f2.removeConsolidate (some P.handle) (f2.nextSibling P.handle)).1
        = specReplace (Keep.resident b) a b f := by
  have gp := gap_of_args norm hc ra hP hN hbt
  have sq := ra.sq
  have nd := sq.nd
  have hisroot : f.isRoot b = true := by
    rcases Forest.root_or_ctx ra.hgb with h | ⟨cx, h⟩
    · exact h
    · rw [hroot] at h; cases h
  have hroot1 : (f.editAt (some q) (dropTop a)).ctx? b = none := frame_root _ gp.s1.nd hisroot
  have hisroot1 : (f.editAt (some q) (dropTop a)).isRoot b = true := by
    rcases Forest.root_or_ctx gp.get1 with h | ⟨cx, h⟩
    · exact h
    · rw [hroot1] at h; cases h
  have hPb : P.handle ≠ b := by
    intro e
    have := gp.s1.ctx
    rw [e, hroot1] at this
    cases this
  have heval := insertAfter_eval_root gp.s1 ra.hvq gp.get1 hroot1 ra.hqt ra.htn ra.htd hbt gp.hPn hPb gp.hnext
  refine ⟨_, heval, ?_⟩
  have sY := gp.s1.dropRoot gp.get1 ra.hqt
  have hcount : ∀ z, ((f.editAt (some q) (dropTop a)).editAt none (dropTop b)).allHandles.count z
      + (handles t).count z ≤ 1 := by
    intro z
    have h1 := count_dropTop_root gp.s1.nd gp.get1 hisroot1 z
    have h2 := List.nodup_iff_count.1 gp.s1.nd z
    show (handlesList (dropTop b (f.editAt (some q) (dropTop a)).roots)).count z + _ ≤ 1
    omega
  rw [final_noop sY hcount gp.hPn ra.htn hbt]
  -- against the specification
  rw [specReplace_unfold ra.hgb (Forest.parent?_of_ctx ra.ctx_a), Forest.parent?_of_no_ctx hroot, mergeAt_none,
    mergeAt_on (by rw [Forest.editAt_consolidation, Forest.editAt_consolidation]; exact hc),
    Forest.editAt_editAt, Forest.editAt_none_comm, Forest.editAt_editAt]
  apply (sq.dropRoot ra.hgb ra.hqt).congr
  simp only [Function.comp]
  rw [gp.dropA, gp.replA, insertAfterTop_mid t gp.tl0, mergeRuns_id _ gp.noadj]

end XotModel
