/-
  The indented serialisation IS the rendering of `spellNodeP` (Lemmas/SerIndentDefs.lean): the tree
  induction over `runPEvents`, for subtrees whose nodes satisfy `nodeOK`.
-/
import XotModel.Lemmas.SerIndentMain
import XotModel.Lemmas.PrettyBetween

namespace XotModel
open Gen

variable (env : Env) (pr : TokenParams) (sup : List Nat) (t : Tree)

/-! ### Children of an element of a `nodeOK` tree -/

/-- Element, comment or PI: what `serialize_pretty` may indent. -/
def Value.isMarkup : Value → Bool
  | .element _ => true
  | .comment _ => true
  | .pi _ _ => true
  | _ => false

theorem wrapP_markup (ps : PStack) {v : Value} (h : v.isMarkup = true) (x : Str) :
    wrapP ps v x = indOf ps ++ (x ++ nlOf ps) := by
  cases v <;> simp [Value.isMarkup] at h <;> simp [wrapP]

theorem wrapP_notMarkup (ps : PStack) {v : Value} (h : v.isMarkup = false) (x : Str) : wrapP ps v x = x := by
  cases v <;> simp [Value.isMarkup] at h <;> rfl

theorem notGranting_nil {pc : PStack} (h : pc.getNewline = false) : nlOf pc = [] ∧ indOf pc = [] := by
  constructor
  · simp [nlOf, h]
  · have : (pc.inMixed || pc.inSpacePreserve) = true := by
      simp only [PStack.getNewline, Bool.and_eq_false_iff, Bool.not_eq_false'] at h
      simpa using h
    simp [indOf, PStack.getIndentation, this]

theorem wrapP_notGranting {pc : PStack} (h : pc.getNewline = false) (v : Value) (x : Str) : wrapP pc v x = x := by
  obtain ⟨h1, h2⟩ := notGranting_nil h
  cases v <;> simp [wrapP, h1, h2]

/-- What `nodeOK` gives for the children of a node, as far as the indenting writer cares. -/
structure KidsFacts (pc : PStack) (ks : List Tree) : Prop where
  /-- attribute and namespace nodes are leaves -/
  leaf : ∀ k ∈ ks, k.value.isNormal = false → k.kids = []
  /-- where white space is granted every normal child is an element, a comment or a PI -/
  markup : pc.getNewline = true → ∀ k ∈ ks, k.value.isNormal = true → k.value.isMarkup = true

theorem spellNodeP_abnormal (inScope : List (Nat × Nat)) (isTop : Bool) (s : FStack) (cd : Bool) (ps : PStack)
    {k : Tree} (hk : k.value.isNormal = false) (hl : k.kids = []) :
    spellNodeP env pr sup inScope isTop s cd ps k = [] := by
  cases k with
  | node v kk =>
    simp only [Tree.kids] at hl
    subst hl
    cases v <;> simp [Tree.value, Value.isNormal, Value.category] at hk <;>
      simp [spellNodeP, spellNodeP.spellKidsP]

theorem flatMap_congr' {α β : Type} {f g : α → List β} : ∀ {l : List α}, (∀ x ∈ l, f x = g x) →
    l.flatMap f = l.flatMap g
  | [], _ => rfl
  | a :: l, h => by
    have ih : l.flatMap f = l.flatMap g := flatMap_congr' (fun x hx => h x (List.mem_cons_of_mem _ hx))
    simp only [List.flatMap_cons, h a (by simp), ih]

/-- The bytes of the content of an element, regrouped as the rendering of its spelled children. -/
theorem kids_regroup (inScope : List (Nat × Nat)) (s : FStack) (cd : Bool) (pc : PStack) (e : Str)
    (ks : List Tree) (hf : KidsFacts pc ks) :
    nlOf pc ++ (kidsBytes env pr sup inScope s cd pc ks ++ e) =
      renderTokens (NSNode.tokens.tokensList (spellNodeP.spellKidsP env pr sup inScope s cd pc (gapOf pc) ks))
        ++ (nlOf pc ++ e) := by
  rw [tokensList_spellKidsP env pr sup inScope s cd pc (gapOf pc) (gapOf_ws pc)]
  cases hg : pc.getNewline with
  | false =>
    obtain ⟨h1, h2⟩ := notGranting_nil hg
    simp only [kidsBytes, wrapP_notGranting hg, gapOf, h1, h2, List.nil_append, ite_self]
  | true =>
    have := regroup (nlOf pc) (indOf pc) e
      (ks.map (fun k => (k.value.isNormal,
        renderTokens (NSNode.tokens.tokensList (spellNodeP env pr sup inScope false s cd pc k)))))
      (by
        intro x hx hx1
        obtain ⟨k, hk, rfl⟩ := List.mem_map.mp hx
        simp only at hx1 ⊢
        rw [spellNodeP_abnormal env pr sup inScope false s cd pc hx1 (hf.leaf k hk hx1)]
        rfl)
    simp only [List.flatMap_map] at this
    simp only [gapOf]
    rw [← this]
    congr 2
    unfold kidsBytes
    apply flatMap_congr'
    intro k hk
    cases hn : k.value.isNormal with
    | true =>
      simp only [if_true]
      exact wrapP_markup pc (hf.markup hg k hk hn) _
    | false =>
      have : k.value.isMarkup = false := by
        cases hv : k.value <;> simp [hv, Value.isNormal, Value.category, Value.isMarkup] at hn ⊢
      simp only [Bool.false_eq_true, if_false]
      exact wrapP_notMarkup pc this _

theorem normal_notText_markup {v : Value} (h1 : v.isNormal = true) (h2 : v.isText = false)
    (h3 : v.isDocument = false) : v.isMarkup = true := by
  cases v <;> simp [Value.isNormal, Value.category, Value.isText, Value.isDocument, Value.isMarkup] at *

/-- The children of an element of a `nodeOK` tree, in content with the element's own entry on top. -/
theorem kidsFacts_element {name : Nat} {ks : List Tree}
    (hn : (Tree.node (.element name) ks).allNodes (nodeOK env) = true) (ps : PStack) :
    KidsFacts (entryFor sup (.node (.element name) ks) :: ps) ks := by
  have hnode : nodeOK env (.element name) ks = true := by
    rw [allNodes_node, Bool.and_eq_true] at hn; exact hn.1
  obtain ⟨_, hkinds, _, _, _⟩ := (nodeOK_iff env _ ks).mp hnode
  constructor
  · intro k hk hab
    cases k with
    | node v kk => exact allNodes_leaf env (allNodes_kid hn hk) (abnormal_leafKind hab)
  · intro hg k hk hnorm
    have hmix := getNewline_true hg
    have hent : entryFor sup (.node (.element name) ks) ≠ .mixed := by
      intro he
      rw [he] at hmix
      simp [PStack.inMixed] at hmix
    have hinl : hasInlineChild (.node (.element name) ks) = false := by
      cases h : hasInlineChild (.node (.element name) ks) with
      | false => rfl
      | true => exact absurd (by simp [entryFor, h]) hent
    have hmem := mem_normalKids (.node (.element name) ks) k hk hnorm
    have htext : k.value.isText = false := by
      simp only [hasInlineChild, List.any_eq_false] at hinl
      simpa using hinl k hmem
    exact normal_notText_markup hnorm htext (hkinds.2.2 k hk)

/-- Content in which no white space matters (leaf kinds have no children at all). -/
theorem kidsFacts_nil (pc : PStack) : KidsFacts pc [] :=
  ⟨fun k hk _ => (by cases hk), fun _ k hk _ => (by cases hk)⟩

/-! ### Rendering of an element's tokens -/

theorem render_elem (pfx loc : Str) (items : List NSAttr) (kids : List NSNode) :
    renderTokens (NSNode.tokens (.elem (sp0 pfx) (sp0 loc) noSpan items noSpan kids (sp0 pfx) (sp0 loc) noSpan)) =
      '<' :: tokQName pfx loc ++ (renderTokens (items.map NSAttr.token) ++
        ('>' :: (renderTokens (NSNode.tokens.tokensList kids) ++ ('<' :: '/' :: (tokQName pfx loc ++ ['>']))))) := by
  simp [NSNode.tokens, renderTokens_cons, renderTokens_append, renderToken, sp0, renderTokens_nil]

theorem render_empty (pfx loc : Str) (items : List NSAttr) :
    renderTokens (NSNode.tokens (.empty (sp0 pfx) (sp0 loc) noSpan items noSpan)) =
      '<' :: tokQName pfx loc ++ (renderTokens (items.map NSAttr.token) ++ ['/', '>']) := by
  simp [NSNode.tokens, renderTokens_cons, renderTokens_append, renderToken, sp0, renderTokens_nil]

end XotModel
