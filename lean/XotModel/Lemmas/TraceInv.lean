/-
  The traversal invariant: before every event the `FullnameSerializer` stack satisfies `StackInv`
  for the frames of the open nodes between the start node and the event's node (Lemmas/Trace).
-/
import XotModel.Lemmas.Trace

namespace XotModel

variable (esc : Escapers) (env : Env) (pr : TokenParams) (t : Tree)

/-- An `EndTag` event is only reached after the `StartTagOpen` of the same element was rendered with
    the same stack, so the check of that arm (/repo a32c6f4) holds for it too: the element is not a
    no-namespace element in the scope of a default namespace. -/
def EndTagOk (x : FStack × Path × Output) : Prop :=
  ∀ name, x.2.2 = .endTag name →
    ¬ (env.nsOfName name = Env.noNamespace ∧ x.1.hasDefaultNamespace = true)

theorem endTagOk_of_not_end {x : FStack × Path × Output} (h : ∀ name, x.2.2 ≠ .endTag name) :
    EndTagOk env x := fun name hn => absurd hn (h name)

/-- The claim about one trace entry, relative to the node `n` at `path` and the frames `fs` the
    stack stood for when `n` was entered. -/
def EntryOk (path : Path) (n : Tree) (fs : Frames) (x : FStack × Path × Output) : Prop :=
  (∃ rel, x.2.1 = path ++ rel ∧ StackInv x.1 (framesFor x.2.2 (framesAlong n rel) ++ fs)) ∧
    EndTagOk env x

theorem entry_lift {path : Path} {v : Value} {ks : List Tree} {fs : Frames} {x : FStack × Path × Output}
    {j : Nat} {k : Tree} {rel : Path} (hk : ks[j]? = some k) (hp : x.2.1 = path ++ j :: rel)
    (hs : StackInv x.1 (framesFor x.2.2 (framesAlong k rel) ++ (frameOf (.node v ks) :: fs)))
    (he : EndTagOk env x) :
    EntryOk env path (.node v ks) fs x := by
  refine ⟨⟨j :: rel, hp, ?_⟩, he⟩
  have : framesAlong (.node v ks) (j :: rel) = framesAlong k rel ++ [frameOf (.node v ks)] := by
    simp [framesAlong, Tree.kids, hk]
  rw [this, framesFor_append]
  simpa [List.append_assoc] using hs

theorem entry_self {path : Path} {n : Tree} {fs : Frames} {s : FStack} {o : Output}
    (ho : o.isNeutral = true ∨ ∃ name, o = .endTag name) (hs : StackInv s (frameOf n :: fs))
    (he : EndTagOk env (s, path, o)) :
    EntryOk env path n fs (s, path, o) := by
  refine ⟨⟨[], by simp, ?_⟩, he⟩
  have : framesFor o (framesAlong n []) = [frameOf n] := by
    rcases ho with ho | ⟨name, rfl⟩
    · cases o <;> simp [framesFor, framesAlong, Output.isNeutral] at ho ⊢
    · simp [framesFor, framesAlong]
  rw [this]
  simpa using hs

/-- The events of an element between its `StartTagOpen` and its children. -/
def headEvents (inScope : List (Nat × Nat)) (isTop : Bool) (path : Path) (n : Tree) : List (Path × Output) :=
  (if isTop then extraPrefixes inScope n else []).map (fun o => (path, o))
    ++ n.nsDecls.map (fun d => (path, Output.pfx d.1 d.2))
    ++ n.attrs.map (fun a => (path, Output.attribute a.1 a.2))
    ++ [(path, Output.startTagClose)]

theorem headEvents_neutral (inScope : List (Nat × Nat)) (isTop : Bool) (path : Path) (n : Tree) :
    ∀ po ∈ headEvents inScope isTop path n, po.2.isNeutral = true ∧ po.1 = path := by
  intro po hpo
  unfold headEvents at hpo
  simp only [List.mem_append, List.mem_map, List.mem_singleton] at hpo
  rcases hpo with ((⟨o, ho, rfl⟩ | ⟨d, _, rfl⟩) | ⟨a, _, rfl⟩) | rfl
  · refine ⟨?_, rfl⟩
    split at ho
    · unfold extraPrefixes at ho
      obtain ⟨d, _, rfl⟩ := List.mem_map.mp ho
      rfl
    · cases ho
  · exact ⟨rfl, rfl⟩
  · exact ⟨rfl, rfl⟩
  · exact ⟨rfl, rfl⟩

theorem genNode_element_split (inScope : List (Nat × Nat)) (isTop : Bool) (path : Path) (name : Nat)
    (ks : List Tree) :
    genNode inScope isTop path (.node (.element name) ks) =
      (path, Output.startTagOpen name) ::
        (headEvents inScope isTop path (.node (.element name) ks)
          ++ (genNode.genKids inScope path 0 ks ++ [(path, Output.endTag name)])) := by
  rw [genNode_element]
  simp [headEvents, List.append_assoc]

/-- A node with one neutral event of its own (text, comment, PI) followed by its children's events. -/
theorem leaf_trace (path : Path) (n : Tree) (o : Output) (ho : o.isNeutral = true)
    (hf : frameOf n = []) (s : FStack) (fs : Frames) (hinv : StackInv s fs) {evs : List (Path × Output)}
    (hk : (∀ x ∈ stackTrace esc env pr t s evs, EntryOk env path n fs x) ∧
      (∀ s', runStack esc env pr t s evs = some s' → s' = s)) :
    (∀ x ∈ stackTrace esc env pr t s ((path, o) :: evs), EntryOk env path n fs x) ∧
    (∀ s', runStack esc env pr t s ((path, o) :: evs) = some s' → s' = s) := by
  obtain ⟨k1, k2⟩ := hk
  constructor
  · intro x hx
    simp only [stackTrace, List.mem_cons] at hx
    rcases hx with rfl | hx
    · exact entry_self env (Or.inl ho) (by rw [hf]; exact StackInv.skip s fs hinv)
        (endTagOk_of_not_end env (by intro name hn; simp only at hn; subst hn; simp [Output.isNeutral] at ho))
    · cases hstep : stepStack esc env pr t s (path, o) with
      | none => simp [hstep] at hx
      | some s1 =>
        have := stepStack_neutral esc env pr t s s1 path o ho hstep
        subst this
        simp only [hstep] at hx
        exact k1 x hx
  · intro s' hrun
    simp only [runStack] at hrun
    cases hstep : stepStack esc env pr t s (path, o) with
    | none => simp [hstep] at hrun
    | some s1 =>
      have := stepStack_neutral esc env pr t s s1 path o ho hstep
      subst this
      simp only [hstep] at hrun
      exact k2 s' hrun

mutual
theorem genNode_trace (inScope : List (Nat × Nat)) (isTop : Bool) (path : Path) (n : Tree)
    (hat : t.at? path = some n) (hu : UniqueBelow n) (s : FStack) (fs : Frames) (hinv : StackInv s fs) :
    (∀ x ∈ stackTrace esc env pr t s (genNode inScope isTop path n), EntryOk env path n fs x) ∧
    (∀ s', runStack esc env pr t s (genNode inScope isTop path n) = some s' → s' = s) := by
  cases n with
  | node v ks =>
    have hkat : ∀ (j : Nat) (k : Tree), ks[j]? = some k → t.at? (path ++ [0 + j]) = some k := by
      intro j k hk
      rw [at?_append, hat]
      simp only [Nat.zero_add]
      rw [at?_cons, hk]
      rfl
    have hku : ∀ (j : Nat) (k : Tree), ks[j]? = some k → UniqueBelow k := fun j k hk => hu.kid hk
    -- the part shared by every node kind: the children, entered with the node's own frame
    have kidsPart : ∀ s1, StackInv s1 (frameOf (.node v ks) :: fs) →
        (∀ x ∈ stackTrace esc env pr t s1 (genNode.genKids inScope path 0 ks),
            EntryOk env path (.node v ks) fs x) ∧
        (∀ s', runStack esc env pr t s1 (genNode.genKids inScope path 0 ks) = some s' → s' = s1) := by
      intro s1 h1
      obtain ⟨k1, k2⟩ := genKids_trace inScope path 0 ks hkat hku s1 _ h1
      refine ⟨fun x hx => ?_, k2⟩
      obtain ⟨⟨j, k, rel, hk, hp, hs⟩, he⟩ := k1 x hx
      exact entry_lift env hk (by simpa using hp) hs he
    cases v with
    | element name =>
      rw [genNode_element_split]
      have hframe : frameOf (.node (.element name) ks) = (Tree.node (.element name) ks).nsDecls := rfl
      have hun : UniquePrefixes (Tree.node (.element name) ks).nsDecls := by
        have := hu [] _ rfl
        rwa [hframe] at this
      have hneut := headEvents_neutral inScope isTop path (.node (.element name) ks)
      constructor
      · intro x hx
        simp only [stackTrace, List.mem_cons] at hx
        rcases hx with rfl | hx
        · exact ⟨⟨[], by simp, by simpa [framesFor, framesAlong] using hinv⟩,
            endTagOk_of_not_end env (by intro nm hn; cases hn)⟩
        · cases hstep : stepStack esc env pr t s (path, Output.startTagOpen name) with
          | none => simp [hstep] at hx
          | some s1 =>
            simp only [hstep] at hx
            have hs1 := stepStack_open esc env pr t s s1 path name _ hat hstep
            have hnd := stepStack_open_noDefault esc env pr t s s1 path name _ hat hstep
            rw [← hs1] at hnd
            have hinv1 : StackInv s1 (frameOf (.node (.element name) ks) :: fs) := by
              rw [hs1, hframe]; exact hinv.push' hun
            obtain ⟨n1, n2⟩ := neutral_run esc env pr t s1 _ (fun po hpo => (hneut po hpo).1)
            rcases (mem_stackTrace_append esc env pr t s1
              (headEvents inScope isTop path (.node (.element name) ks))
              (genNode.genKids inScope path 0 ks ++ [(path, Output.endTag name)]) x).mp hx with hx | ⟨s2, hr2, hx2⟩
            · obtain ⟨e1, e2⟩ := n1 x hx
              obtain ⟨e3, e4⟩ := hneut _ e2
              obtain ⟨xs, xp, xo⟩ := x
              simp only at e1 e3 e4
              subst e1; subst e4
              exact entry_self env (Or.inl e3) hinv1
                (endTagOk_of_not_end env (by intro nm hn; simp only at hn; subst hn; simp [Output.isNeutral] at e3))
            · have := n2 s2 hr2
              subst this
              obtain ⟨k1, k2⟩ := kidsPart s2 hinv1
              rcases (mem_stackTrace_append esc env pr t s2 (genNode.genKids inScope path 0 ks)
                [(path, Output.endTag name)] x).mp hx2 with hx3 | ⟨s3, hr3, hx3⟩
              · exact k1 x hx3
              · have := k2 s3 hr3
                subst this
                simp only [stackTrace, List.mem_cons] at hx3
                rcases hx3 with rfl | hx3
                · refine entry_self env (Or.inr ⟨name, rfl⟩) hinv1 ?_
                  intro nm hn
                  simp only [Output.endTag.injEq] at hn
                  subst hn
                  exact hnd
                · split at hx3 <;> cases hx3
      · intro s' hrun
        simp only [runStack] at hrun
        cases hstep : stepStack esc env pr t s (path, Output.startTagOpen name) with
        | none => simp [hstep] at hrun
        | some s1 =>
          simp only [hstep] at hrun
          have hs1 := stepStack_open esc env pr t s s1 path name _ hat hstep
          have hinv1 : StackInv s1 (frameOf (.node (.element name) ks) :: fs) := by
            rw [hs1, hframe]; exact hinv.push' hun
          obtain ⟨_, n2⟩ := neutral_run esc env pr t s1 _ (fun po hpo => (hneut po hpo).1)
          obtain ⟨_, k2⟩ := kidsPart s1 hinv1
          rw [runStack_append] at hrun
          cases hr2 : runStack esc env pr t s1 (headEvents inScope isTop path (.node (.element name) ks)) with
          | none => simp [hr2] at hrun
          | some s2 =>
            have := n2 s2 hr2
            subst this
            simp only [hr2, Option.bind_some] at hrun
            rw [runStack_append] at hrun
            cases hr3 : runStack esc env pr t s2 (genNode.genKids inScope path 0 ks) with
            | none => simp [hr3] at hrun
            | some s3 =>
              have := k2 s3 hr3
              subst this
              simp only [hr3, Option.bind_some, runStack] at hrun
              cases hend : stepStack esc env pr t s3 (path, Output.endTag name) with
              | none => simp [hend] at hrun
              | some s4 =>
                simp only [hend, Option.some.injEq] at hrun
                subst hrun
                rw [stepStack_end esc env pr t s3 s4 path name _ hat hend, hs1]
                exact FStack.pop_push s _
    | document =>
      rw [genNode_document]
      exact kidsPart s (StackInv.skip s fs hinv)
    | «attribute» a val =>
      rw [genNode_attribute]
      exact kidsPart s (StackInv.skip s fs hinv)
    | «namespace» p ns =>
      rw [genNode_namespace]
      exact kidsPart s (StackInv.skip s fs hinv)
    | text x =>
      rw [genNode_text]
      exact leaf_trace esc env pr t path (.node (.text x) ks) (Output.text x) rfl rfl s fs hinv
        (kidsPart s (StackInv.skip s fs hinv))
    | comment x =>
      rw [genNode_comment]
      exact leaf_trace esc env pr t path (.node (.comment x) ks) (Output.comment x) rfl rfl s fs hinv
        (kidsPart s (StackInv.skip s fs hinv))
    | pi tg d =>
      rw [genNode_pi]
      exact leaf_trace esc env pr t path (.node (.pi tg d) ks) (Output.pi tg d) rfl rfl s fs hinv
        (kidsPart s (StackInv.skip s fs hinv))

theorem genKids_trace (inScope : List (Nat × Nat)) (path : Path) (i : Nat) (ks : List Tree)
    (hat : ∀ (j : Nat) (k : Tree), ks[j]? = some k → t.at? (path ++ [i + j]) = some k)
    (hu : ∀ (j : Nat) (k : Tree), ks[j]? = some k → UniqueBelow k) (s : FStack) (fs : Frames)
    (hinv : StackInv s fs) :
    (∀ x ∈ stackTrace esc env pr t s (genNode.genKids inScope path i ks),
        (∃ (j : Nat) (k : Tree) (rel : Path), ks[j]? = some k ∧ x.2.1 = path ++ (i + j) :: rel ∧
          StackInv x.1 (framesFor x.2.2 (framesAlong k rel) ++ fs)) ∧ EndTagOk env x) ∧
    (∀ s', runStack esc env pr t s (genNode.genKids inScope path i ks) = some s' → s' = s) := by
  cases ks with
  | nil => simp [genNode.genKids, stackTrace, runStack]
  | cons k ks' =>
    simp only [genNode.genKids]
    obtain ⟨a1, a2⟩ := genNode_trace inScope false (path ++ [i]) k (by simpa using hat 0 k rfl)
      (hu 0 k rfl) s fs hinv
    obtain ⟨b1, b2⟩ := genKids_trace inScope path (i + 1) ks'
      (fun j k' hk => by have := hat (j + 1) k' (by simpa using hk); rwa [show i + (j + 1) = i + 1 + j by omega] at this)
      (fun j k' hk => hu (j + 1) k' (by simpa using hk)) s fs hinv
    constructor
    · intro x hx
      rcases (mem_stackTrace_append esc env pr t s (genNode inScope false (path ++ [i]) k)
        (genNode.genKids inScope path (i + 1) ks') x).mp hx with hx1 | ⟨s1, hr1, hx1⟩
      · obtain ⟨⟨rel, hp, hs⟩, he⟩ := a1 x hx1
        exact ⟨⟨0, k, rel, rfl, by simp [hp], hs⟩, he⟩
      · have := a2 s1 hr1
        subst this
        obtain ⟨⟨j, k', rel, hk, hp, hs⟩, he⟩ := b1 x hx1
        exact ⟨⟨j + 1, k', rel, by simpa using hk, by rw [hp]; simp; omega, hs⟩, he⟩
    · intro s' hrun
      rw [runStack_append] at hrun
      cases hr1 : runStack esc env pr t s (genNode inScope false (path ++ [i]) k) with
      | none => simp [hr1] at hrun
      | some s1 =>
        have := a2 s1 hr1
        subst this
        simp only [hr1, Option.bind_some] at hrun
        exact b2 s' hrun
end

/-! ### From the start node -/

theorem ownEvent_startTagOpen {inScope : List (Nat × Nat)} {b : Bool} {n : Tree} {name : Nat}
    (h : OwnEvent inScope b n (.startTagOpen name)) : n.value = .element name := by
  unfold OwnEvent edgeStart edgeEnd at h
  cases hv : n.value <;> simp [hv] at h
  rcases h with h1 | h1
  · rw [h1]
  · have h2 := h1.2
    unfold extraPrefixes at h2
    simp at h2


theorem stackTrace_mem_events (s : FStack) (evs : List (Path × Output)) (x : FStack × Path × Output)
    (h : x ∈ stackTrace esc env pr t s evs) : (x.2.1, x.2.2) ∈ evs := by
  induction evs generalizing s with
  | nil => simp [stackTrace] at h
  | cons po evs ih =>
    simp only [stackTrace, List.mem_cons] at h
    rcases h with rfl | h
    · simp
    · cases hs : stepStack esc env pr t s po with
      | none => simp [hs] at h
      | some s1 =>
        simp only [hs] at h
        exact List.mem_cons_of_mem _ (ih s1 h)

/-- The innermost frame along a path is the frame of the node the path leads to. -/
theorem framesAlong_head (n : Tree) (rel : Path) (node : Tree) (h : n.at? rel = some node) :
    ∃ rest, framesAlong n rel = frameOf node :: rest := by
  induction rel generalizing n with
  | nil =>
    simp only [Tree.at?, Option.some.injEq] at h
    subst h
    exact ⟨[], rfl⟩
  | cons i rel ih =>
    cases n with
    | node v ks =>
      rw [at?_cons] at h
      cases hk : ks[i]? with
      | none => simp [hk] at h
      | some k =>
        simp only [hk, Option.bind_some] at h
        obtain ⟨rest, hr⟩ := ih k h
        exact ⟨rest ++ [frameOf (.node v ks)], by simp [framesAlong, Tree.kids, hk, hr]⟩

/-- The traversal invariant from the start node: the serialiser starts with
    `namespaces_in_scope(start)` as its only frame. -/
theorem genOutputs_trace (start : Path) (n : Tree) (inScope : List (Nat × Nat))
    (hat : t.at? start = some n) (hs : namespacesInScope t start = some inScope) (hu : UniqueBelow n)
    (x : FStack × Path × Output)
    (hx : x ∈ stackTrace esc env pr t (initStack t start) (genOutputs t start)) :
    (∃ rel, x.2.1 = start ++ rel ∧
      StackInv x.1 (framesFor x.2.2 (framesAlong n rel) ++ [inScope])) ∧ EndTagOk env x := by
  have h0 : initStack t start = [inScope] := by simp [initStack, hs, FStack.new]
  have hg : genOutputs t start = genNode inScope true start n := by simp [genOutputs, hat, hs]
  rw [h0, hg] at hx
  exact (genNode_trace esc env pr t inScope true start n hat hu [inScope] [inScope]
    (StackInv.base inScope (namespacesInScope_unique t start inScope hs))).1 x hx

end XotModel
