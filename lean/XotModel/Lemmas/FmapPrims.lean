/-
  Lemmas for C11, part 5: the forest primitives used by the map operations, each in normal form:
  "the forest afterwards is the forest before with the child list of `e` replaced by …"
  (`withKids`), under distinct handles.
-/
import XotModel.Lemmas.FmapKids

namespace XotModel
namespace Fmap
open HTree
open Forest (MapKind entryKey mapChildren)

mutual
  theorem mapAt_congr (e : Nat) (g1 g2 : HTree → HTree) : ∀ (k t : HTree), (handles k).Nodup →
      find? e k = some t → g1 t = g2 t → mapAt e g1 k = mapAt e g2 k
    | .node h' v ks, t => by
      intro hnd hf hg
      simp only [handles, List.nodup_cons] at hnd
      simp only [find?] at hf
      simp only [mapAt]
      split at hf
      · rename_i hh
        cases hf
        rw [if_pos hh, if_pos hh, hg]
      · rename_i hh
        rw [if_neg hh, if_neg hh, mapAtList_congr e g1 g2 ks t hnd.2 hf hg]
  theorem mapAtList_congr (e : Nat) (g1 g2 : HTree → HTree) : ∀ (ks : List HTree) (t : HTree),
      (handlesList ks).Nodup → findList? e ks = some t → g1 t = g2 t →
      mapAtList e g1 ks = mapAtList e g2 ks
    | [], t => by simp [findList?]
    | k :: ks, t => by
      intro hnd hf hg
      simp only [handlesList] at hnd
      have hnd' := List.nodup_append.mp hnd
      simp only [findList?] at hf
      simp only [mapAtList]
      cases hk : find? e k with
      | some t' =>
        rw [hk] at hf; cases hf
        have hek : e ∈ handles k := find?_mem e k _ hk
        have h2 : e ∉ handlesList ks := fun hx => hnd'.2.2 _ hek _ hx rfl
        rw [mapAt_congr e g1 g2 k _ hnd'.1 hk hg, mapAtList_not_mem e g1 ks h2,
          mapAtList_not_mem e g2 ks h2]
      | none =>
        rw [hk] at hf
        have h2 : e ∉ handles k := not_mem_of_find?_none e k hk
        rw [mapAt_not_mem e g1 k h2, mapAt_not_mem e g2 k h2,
          mapAtList_congr e g1 g2 ks t hnd'.2.1 hf hg]
end

theorem mapAt_hit (e : Nat) (g : HTree → HTree) (x : HTree) (h : x.handle = e) :
    mapAt e g x = g x := by
  cases x with
  | node h' v ks =>
    simp only [HTree.handle] at h
    simp [mapAt, h]

mutual
  theorem mapAt_mapAt (e : Nat) (g1 g2 : HTree → HTree) (hg : ∀ x, (g1 x).handle = x.handle) :
      ∀ k : HTree, mapAt e g2 (mapAt e g1 k) = mapAt e (fun x => g2 (g1 x)) k
    | .node h' v ks => by
      by_cases hh : h' = e
      · have h1 : mapAt e g1 (.node h' v ks) = g1 (.node h' v ks) := mapAt_hit e g1 _ hh
        have h2 : mapAt e (fun x => g2 (g1 x)) (.node h' v ks) = g2 (g1 (.node h' v ks)) :=
          mapAt_hit e _ _ hh
        rw [h1, h2, mapAt_hit e g2 _ (by rw [hg]; exact hh)]
      · simp only [mapAt, if_neg hh]
        rw [mapAtList_mapAtList e g1 g2 hg ks]
  theorem mapAtList_mapAtList (e : Nat) (g1 g2 : HTree → HTree)
      (hg : ∀ x, (g1 x).handle = x.handle) :
      ∀ ks : List HTree, mapAtList e g2 (mapAtList e g1 ks) = mapAtList e (fun x => g2 (g1 x)) ks
    | [] => by simp [mapAtList]
    | k :: ks => by
      simp only [mapAtList]
      rw [mapAt_mapAt e g1 g2 hg k, mapAtList_mapAtList e g1 g2 hg ks]
end

/-- The forest with the child list of `e` replaced by `ks'` (everything else as it was). -/
def withKids (roots : List HTree) (e : Nat) (ks' : List HTree) : List HTree :=
  mapAtList e (atKids (fun _ => ks')) roots

theorem withKids_withKids (roots : List HTree) (e : Nat) (k1 k2 : List HTree) :
    withKids (withKids roots e k1) e k2 = withKids roots e k2 := by
  unfold withKids
  rw [mapAtList_mapAtList e _ _ (fun x => atKids_handle _ x)]
  congr 1
  funext x
  cases x; rfl

theorem withKids_of (roots : List HTree) (e : Nat) (F : List HTree → List HTree) (t : HTree)
    (hnd : (handlesList roots).Nodup) (hf : findList? e roots = some t) :
    mapAtList e (atKids F) roots = withKids roots e (F t.kids) := by
  unfold withKids
  apply mapAtList_congr e _ _ roots t hnd hf
  cases t; rfl

theorem get_withKids (roots : List HTree) (e : Nat) (ks' : List HTree) (h : Nat) (v : Value)
    (ks : List HTree) (hf : findList? e roots = some (.node h v ks)) :
    findList? e (withKids roots e ks') = some (.node e v ks') := by
  have he : h = e := findList?_handle e roots _ hf
  subst he
  unfold withKids
  rw [findList?_mapAtList_self h _ roots _ hf rfl]
  rfl

theorem nodup_withKids (roots : List HTree) (e : Nat) (ks' : List HTree) (v : Value)
    (ks : List HTree) (hnd : (handlesList roots).Nodup)
    (hf : findList? e roots = some (.node e v ks))
    (hk : (handlesList ks').Nodup)
    (hnew : ∀ x ∈ handlesList ks', x ∈ handlesList ks ∨ x ∉ handlesList roots) :
    (handlesList (withKids roots e ks')).Nodup := by
  unfold withKids
  have hem : e ∈ handlesList roots := findList?_mem e roots _ hf
  apply nodup_mapAtList e _ roots _ hnd hf
  · show (handles (.node e v ks')).Nodup
    simp only [handles, List.nodup_cons]
    refine ⟨?_, hk⟩
    intro hx
    rcases hnew e hx with h1 | h1
    · have := findList?_nodup e roots _ hnd hf
      simp only [handles, List.nodup_cons] at this
      exact this.1 h1
    · exact h1 hem
  · intro x hx
    change x ∈ handles (.node e v ks') at hx
    simp only [handles, List.mem_cons] at hx ⊢
    rcases hx with hx | hx
    · exact Or.inl (Or.inl hx)
    · rcases hnew x hx with h1 | h1
      · exact Or.inl (Or.inr h1)
      · exact Or.inr h1

theorem mem_withKids (roots : List HTree) (e : Nat) (ks' : List HTree) (t : HTree)
    (hnd : (handlesList roots).Nodup) (hf : findList? e roots = some t) (x : Nat)
    (hx : x ∈ handlesList (withKids roots e ks')) : x ∈ handlesList roots ∨ x ∈ handlesList ks' := by
  unfold withKids at hx
  rcases mem_handlesList_mapAtList e _ roots t hnd hf x hx with h | h
  · exact Or.inl h
  · cases t with
    | node h' v ks =>
      change x ∈ handles (.node h' v ks') at h
      simp only [handles, List.mem_cons] at h
      rcases h with h | h
      · left
        rw [h]
        have := findList?_mem e roots _ hf
        rwa [← findList?_handle e roots _ hf] at this
      · exact Or.inr h

/-! ### What the theorems need from the invariant at the element -/

/-- Handles are distinct and `e` is a node with value `ev` and children `ks`. -/
structure Located (f : Forest) (e : Nat) (ev : Value) (ks : List HTree) : Prop where
  nodup : f.allHandles.Nodup
  get : f.get? e = some (.node e ev ks)

theorem Located.kidsNodup {f : Forest} {e : Nat} {ev : Value} {ks : List HTree}
    (h : Located f e ev ks) : (handlesList ks).Nodup ∧ e ∉ handlesList ks := by
  have := findList?_nodup e f.roots _ h.nodup h.get
  simp only [handles, List.nodup_cons] at this
  exact ⟨this.2, this.1⟩

theorem Located.childFound {f : Forest} {e : Nat} {ev : Value} {ks : List HTree}
    (h : Located f e ev ks) (x : HTree) (hx : x ∈ ks) : f.get? x.handle = some x := by
  apply findList?_trans e x.handle f.roots _ x h.nodup h.get
  simp only [find?]
  have : e ≠ x.handle := fun hh =>
    h.kidsNodup.2 (hh ▸ mem_handlesList_of_mem ks x hx _ (handle_mem_handles x))
  rw [if_neg this]
  exact findList?_direct ks h.kidsNodup.1 x hx

theorem Located.child_mem {f : Forest} {e : Nat} {ev : Value} {l r : List HTree} {n : HTree}
    (_h : Located f e ev (l ++ n :: r)) : n.handle ∈ handlesList (HTree.node e ev (l ++ n :: r)).kids := by
  simp only [HTree.kids, handlesList_append, handlesList, List.mem_append]
  exact Or.inr (Or.inl (handle_mem_handles n))

theorem Located.isRoot_child {f : Forest} {e : Nat} {ev : Value} {l r : List HTree} {n : HTree}
    (h : Located f e ev (l ++ n :: r)) : f.isRoot n.handle = false := by
  unfold Forest.isRoot
  rw [List.any_eq_false]
  intro x hx
  have := not_root_of_child f.roots h.nodup e n.handle _ h.get h.child_mem x hx
  simpa using this

/-! ### `setValue` at a direct child -/

theorem setValue_child {f : Forest} {e : Nat} {ev : Value} {l r : List HTree} {n : HTree}
    (h : Located f e ev (l ++ n :: r)) (v' : Value) :
    f.setValue n.handle v' = { f with roots := withKids f.roots e (l ++ n.setValue v' :: r) } := by
  unfold Forest.setValue
  congr 1
  rw [map_mapAt_inside e n.handle _ f.roots _ h.nodup h.get h.child_mem,
    withKids_of f.roots e _ _ h.nodup h.get]
  congr 1
  have hs := nodup_split l r n h.kidsNodup.1
  exact mapAtList_direct n.handle _ l r n rfl hs.1 hs.2.1

/-! ### `remove` of a direct child that is an entry node -/

theorem cut_child {f : Forest} {e : Nat} {ev : Value} {l r : List HTree} {n : HTree}
    (h : Located f e ev (l ++ n :: r)) :
    f.cut n.handle = ({ f with roots := withKids f.roots e (l ++ r) }, some n) := by
  unfold Forest.cut
  rw [h.childFound n (by simp), h.isRoot_child]
  simp only [Bool.false_eq_true, if_false]
  congr 2
  rw [map_replaceBelow_inside e n.handle _ f.roots _ h.nodup h.get h.child_mem,
    withKids_of f.roots e _ _ h.nodup h.get]
  congr 1
  have hs := nodup_split l r n h.kidsNodup.1
  simp only [HTree.kids]
  rw [replaceKids_direct n.handle _ l r n rfl hs.1]
  simp

theorem located_after_cut {f : Forest} {e : Nat} {ev : Value} {l r : List HTree} {n : HTree}
    (h : Located f e ev (l ++ n :: r)) :
    Located { f with roots := withKids f.roots e (l ++ r) } e ev (l ++ r) := by
  have hs := nodup_split l r n h.kidsNodup.1
  have hk := h.kidsNodup.1
  rw [handlesList_append] at hk
  simp only [handlesList] at hk
  constructor
  · show (handlesList (withKids f.roots e (l ++ r))).Nodup
    apply nodup_withKids f.roots e _ ev _ h.nodup h.get
    · rw [handlesList_append]
      exact List.Nodup.sublist
        (List.Sublist.append (List.Sublist.refl _) (List.sublist_append_right _ _)) hk
    · intro x hx
      left
      rw [handlesList_append] at hx ⊢
      simp only [handlesList, List.mem_append] at hx ⊢
      rcases hx with hx | hx
      · exact Or.inl hx
      · exact Or.inr (Or.inr hx)
  · exact get_withKids f.roots e _ e ev _ h.get

theorem textOf_none_of_entry (f : Forest) (x : HTree) (hx : f.get? x.handle = some x)
    (hc : x.value.category ≠ .normal) : f.textOf x.handle = none := by
  unfold Forest.textOf Forest.value?
  rw [hx]
  cases x with
  | node h v ks =>
    cases v <;> simp [HTree.value, Value.category] at hc ⊢

theorem remove_child {f : Forest} {e : Nat} {ev : Value} {l r : List HTree} {n : HTree}
    (h : Located f e ev (l ++ n :: r)) (hc : n.value.category ≠ .normal) :
    f.remove n.handle = ({ f with roots := withKids f.roots e (l ++ r) }, .ok) := by
  unfold Forest.remove
  simp only
  congr 1
  unfold Forest.dropSubtree
  rw [cut_child h]
  simp only
  have hloc := located_after_cut h
  generalize hf1 : ({ f with roots := withKids f.roots e (l ++ r) } : Forest) = f1 at hloc ⊢
  -- the previous sibling, if reported, is an entry node of the same category: no text
  have hctx := ctx?_child f h.nodup e _ l r n h.get rfl
  unfold Forest.removeConsolidate
  split
  · rfl
  · cases hp : f.prevSibling n.handle with
    | none => rfl
    | some p =>
      cases hnx : f.nextSibling n.handle with
      | none => rfl
      | some nx =>
        simp only
        have : f1.textOf p = none := by
          unfold Forest.prevSibling at hp
          rw [hctx] at hp
          simp only at hp
          cases hl : l.getLast? with
          | none => rw [hl] at hp; cases hp
          | some pt =>
            rw [hl] at hp
            simp only at hp
            split at hp
            · rename_i hcat
              cases hp
              have hpm : pt ∈ l := List.mem_of_getLast? hl
              have hpc : pt.value.category ≠ .normal := by
                have : pt.value.category = n.value.category := by simpa using hcat
                rw [this]; exact hc
              exact textOf_none_of_entry f1 pt (hloc.childFound pt (List.mem_append_left _ hpm)) hpc
            · cases hp
        rw [this]

end Fmap
end XotModel
