/-
  XotModel.Lemmas.BytesDecl — xot's own reader of the XML declaration (`encoding::xml_declaration`,
  model `xmlDeclaration`) on every declaration the grammar allows.

  Part 1 (strings): a list of pseudo-attributes `lead name before = after q value q` (any names, any
  number, any order, either quote, XML white space anywhere it may stand) followed by white space is
  read by the `while` loop as: the value of the first pseudo-attribute called `encoding`
  (`pseudoAttrs_render`); `LDecl.render` is such a list (`declFromAscii_render`).
  Part 2 (bytes): `Spells bs s` — the bytes `bs` carry the ASCII string `s`, one byte per character
  in order, with any number of bytes the reader skips (NUL, ≥ 0x80) in between and anything after
  the end.  ASCII / UTF-8, UTF-16 in either byte order, with or without byte order mark, all spell
  the declaration (`spells_ascii`, `spells_utf16`, `Spells.silent_append`).
-/
import XotModel.Lemmas.BytesCodec
import XotModel.Lemmas.LexFreeDefs

namespace XotModel.Bytes

/-! ### Part 1: the loop over the pseudo-attributes -/

theorem isWhite_of_xmlSpace {c : Char} (h : isXmlSpace c = true) : isWhite c = true := by
  simp only [isXmlSpace, Bool.or_eq_true, beq_iff_eq] at h
  rcases h with ((rfl | rfl) | rfl) | rfl <;> decide

theorem white_of_isWs {w : Str} (h : isWs w = true) : ∀ c ∈ w, isWhite c = true := by
  intro c hc
  exact isWhite_of_xmlSpace (List.all_eq_true.mp h c hc)

theorem splitOnce_append (c : Char) (a b : Str) (h : c ∉ a) : splitOnce c (a ++ c :: b) = some (a, b) := by
  induction a with
  | nil => simp [splitOnce]
  | cons x xs ih =>
    have hx : (x == c) = false := by
      simp only [beq_eq_false_iff_ne, ne_eq]; intro e; exact h (e ▸ List.mem_cons_self)
    simp only [List.cons_append, splitOnce, hx, Bool.false_eq_true, if_false,
      ih (fun hm => h (List.mem_cons_of_mem _ hm))]

theorem dropWhile_all {p : Char → Bool} (w x : Str) (hw : ∀ c ∈ w, p c = true) :
    (w ++ x).dropWhile p = x.dropWhile p := by
  induction w with
  | nil => rfl
  | cons c cs ih =>
    simp only [List.cons_append, List.dropWhile_cons, hw c List.mem_cons_self, if_true]
    exact ih (fun y hy => hw y (List.mem_cons_of_mem _ hy))

theorem trimStart_white (w x : Str) (hw : ∀ c ∈ w, isWhite c = true) : trimStart (w ++ x) = trimStart x :=
  dropWhile_all w x hw

theorem trimStart_all_white (w : Str) (hw : ∀ c ∈ w, isWhite c = true) : trimStart w = [] := by
  have := trimStart_white w [] hw
  simpa [trimStart] using this

theorem trimStart_cons (c : Char) (x : Str) (hc : isWhite c = false) : trimStart (c :: x) = c :: x := by
  simp [trimStart, List.dropWhile_cons, hc]

theorem trimEnd_white (n w : Str) (hw : ∀ c ∈ w, isWhite c = true) : trimEnd (n ++ w) = trimEnd n := by
  unfold trimEnd
  rw [List.reverse_append, dropWhile_all _ _ (fun c hc => hw c (List.mem_reverse.mp hc))]

theorem trimEnd_noWhite (n : Str) (hn : ∀ c ∈ n, isWhite c = false) : trimEnd n = n := by
  unfold trimEnd
  cases h : n.reverse with
  | nil => rw [List.reverse_eq_nil_iff.mp h]; rfl
  | cons c cs =>
    have hc : isWhite c = false := hn c (List.mem_reverse.mp (h ▸ List.mem_cons_self))
    rw [List.dropWhile_cons, hc]
    simp only [Bool.false_eq_true, if_false]
    rw [← h, List.reverse_reverse]

/-- `name.trim_end()` of what `split_once('=')` leaves of `lead name before`. -/
theorem trim_name (lead name before : Str) (hl : ∀ c ∈ lead, isWhite c = true)
    (hb : ∀ c ∈ before, isWhite c = true) (hn : ∀ c ∈ name, isWhite c = false) :
    trimEnd (trimStart (lead ++ (name ++ before))) = name := by
  rw [trimStart_white _ _ hl]
  cases name with
  | nil => rw [List.nil_append, trimStart_all_white _ hb]; rfl
  | cons c cs =>
    rw [List.cons_append, trimStart_cons _ _ (hn c List.mem_cons_self), ← List.cons_append,
      trimEnd_white _ _ hb, trimEnd_noWhite _ hn]

/-- One pseudo-attribute as written. -/
structure PAttr where
  lead : Str
  name : Str
  eq : EqLayout
  val : Str
  deriving Repr, DecidableEq

def PAttr.render (a : PAttr) : Str := a.lead ++ (a.name ++ a.eq.render a.val)

def renderAttrs : List PAttr → Str
  | [] => []
  | a :: as => a.render ++ renderAttrs as

/-- What the reader needs of a pseudo-attribute: white space where white space stands, a name without
    `=` and white space, a value without its own quote. -/
def PAttr.ok (a : PAttr) : Prop :=
  isWs a.lead = true ∧ isWs a.eq.before = true ∧ isWs a.eq.after = true ∧
    (∀ c ∈ a.name, c ≠ '=' ∧ isWhite c = false) ∧ quoteChar a.eq.single ∉ a.val

/-- The value the loop answers: that of the first pseudo-attribute called `encoding`. -/
def firstEncoding : List PAttr → Option Str
  | [] => none
  | a :: as => if a.name == encodingWord then some a.val else firstEncoding as

theorem quoteChar_notWhite (s : Bool) : isWhite (quoteChar s) = false := by cases s <;> decide
theorem quoteChar_isQuote (s : Bool) : (quoteChar s == '"' || quoteChar s == '\'') = true := by
  cases s <;> decide

theorem renderAttrs_cons_eq (a : PAttr) (as : List PAttr) (wEnd : Str) :
    renderAttrs (a :: as) ++ wEnd =
      (a.lead ++ (a.name ++ a.eq.before)) ++ '=' ::
        (a.eq.after ++ quoteChar a.eq.single :: (a.val ++ quoteChar a.eq.single :: (renderAttrs as ++ wEnd))) := by
  simp only [renderAttrs, PAttr.render, EqLayout.render, List.append_assoc, List.cons_append, List.nil_append]

theorem pseudoAttrs_render (as : List PAttr) (wEnd : Str) (hok : ∀ a ∈ as, a.ok) (hw : isWs wEnd = true) :
    ∀ f, (renderAttrs as ++ wEnd).length < f →
      pseudoAttrs f (trimStart (renderAttrs as ++ wEnd)) = firstEncoding as := by
  induction as with
  | nil =>
    intro f hf
    rw [renderAttrs, List.nil_append, trimStart_all_white _ (white_of_isWs hw)]
    cases f with
    | zero => rfl
    | succ f => simp [pseudoAttrs, firstEncoding]
  | cons a as ih =>
    intro f hf
    obtain ⟨hl, hb, ha, hn, hv⟩ := hok a List.mem_cons_self
    have hf' : (renderAttrs as ++ wEnd).length < f - 1 := by
      rw [renderAttrs_cons_eq] at hf
      simp only [List.length_append, List.length_cons] at hf ⊢
      omega
    cases f with
    | zero => exact absurd hf (Nat.not_lt_zero _)
    | succ f =>
      rw [renderAttrs_cons_eq]
      have hne : ∀ c ∈ a.lead ++ (a.name ++ a.eq.before), c ≠ '=' := by
        intro c hc
        simp only [List.mem_append] at hc
        rcases hc with hc | hc | hc
        · intro e; subst e; exact absurd (white_of_isWs hl _ hc) (by decide)
        · exact (hn c hc).1
        · intro e; subst e; exact absurd (white_of_isWs hb _ hc) (by decide)
      -- trim_start of the whole keeps the `=` and what follows
      have hts : trimStart ((a.lead ++ (a.name ++ a.eq.before)) ++ '=' ::
            (a.eq.after ++ quoteChar a.eq.single :: (a.val ++ quoteChar a.eq.single :: (renderAttrs as ++ wEnd)))) =
          trimStart (a.lead ++ (a.name ++ a.eq.before)) ++ '=' ::
            (a.eq.after ++ quoteChar a.eq.single :: (a.val ++ quoteChar a.eq.single :: (renderAttrs as ++ wEnd))) := by
        unfold trimStart
        rw [List.dropWhile_append]
        split
        · rename_i h
          rw [List.isEmpty_iff.mp h, List.nil_append, List.dropWhile_cons]
          simp [show isWhite '=' = false by decide]
        · rfl
      rw [hts]
      have hnotin : '=' ∉ trimStart (a.lead ++ (a.name ++ a.eq.before)) := by
        intro hm
        exact hne _ (List.dropWhile_sublist _ |>.subset hm) rfl
      have hnonempty : (trimStart (a.lead ++ (a.name ++ a.eq.before)) ++ '=' ::
            (a.eq.after ++ quoteChar a.eq.single :: (a.val ++ quoteChar a.eq.single :: (renderAttrs as ++ wEnd)))).isEmpty = false := by
        simp
      rw [pseudoAttrs, hnonempty]
      simp only [Bool.false_eq_true, if_false]
      rw [splitOnce_append _ _ _ hnotin]
      simp only []
      rw [trimStart_white _ _ (white_of_isWs ha), trimStart_cons _ _ (quoteChar_notWhite _)]
      simp only [quoteChar_isQuote, if_true]
      rw [splitOnce_append _ _ _ hv]
      simp only []
      rw [trim_name _ _ _ (white_of_isWs hl) (white_of_isWs hb) (fun c hc => (hn c hc).2)]
      rw [firstEncoding]
      split
      · rfl
      · exact ih (fun x hx => hok x (List.mem_cons_of_mem _ hx)) f (by simpa using hf')

/-! ### `LDecl.render` is such a list -/

def versionWord : Str := ['v', 'e', 'r', 's', 'i', 'o', 'n']
def standaloneWord : Str := ['s', 't', 'a', 'n', 'd', 'a', 'l', 'o', 'n', 'e']

def attrsOf (d : LDecl) : List PAttr :=
  ⟨d.w0, versionWord, d.vEq, '1' :: '.' :: d.minor⟩ ::
    ((match d.encoding with | some e => [⟨d.wEnc, encodingWord, d.eEq, e⟩] | none => []) ++
     (match d.standalone with | some b => [⟨d.wSa, standaloneWord, d.sEq, yesNo b⟩] | none => []))

theorem render_eq_attrs (d : LDecl) :
    d.render = ['<', '?', 'x', 'm', 'l'] ++ (' ' :: (renderAttrs (attrsOf d) ++ d.wEnd) ++ ['?', '>']) := by
  cases he : d.encoding <;> cases hs : d.standalone <;>
    simp [LDecl.render, LDecl.encPart, LDecl.saPart, EqLayout.render, renderAttrs, PAttr.render, attrsOf, he, hs,
      versionWord, encodingWord, standaloneWord, List.append_assoc]

theorem firstEncoding_attrsOf (d : LDecl) : firstEncoding (attrsOf d) = d.encoding := by
  cases he : d.encoding <;> cases hs : d.standalone <;>
    simp [attrsOf, firstEncoding, he, hs, versionWord, encodingWord, standaloneWord]

theorem digit_notQuote {c : Char} (h : Lex.isXmlDigit c = true) (s : Bool) : c ≠ quoteChar s := by
  intro e; subst e; cases s <;> simp [Lex.isXmlDigit, quoteChar] at h

theorem encChar_notQuote {c : Char} (h : isEncChar c = true) (s : Bool) : c ≠ quoteChar s := by
  intro e; subst e; cases s <;> simp [isEncChar, Lex.isXmlLetter, Lex.isXmlDigit, quoteChar] at h

theorem word_ok (w : Str) (h : w = versionWord ∨ w = encodingWord ∨ w = standaloneWord) :
    ∀ c ∈ w, c ≠ '=' ∧ isWhite c = false := by
  rcases h with rfl | rfl | rfl <;> decide

theorem attrsOf_ok (d : LDecl) (hok : d.ok = true) : ∀ a ∈ attrsOf d, a.ok := by
  simp only [LDecl.ok, Bool.and_eq_true, EqLayout.ok] at hok
  obtain ⟨⟨⟨⟨⟨hmin, hw0⟩, hv1, hv2⟩, henc⟩, hsa⟩, _⟩ := hok
  intro a ha
  simp only [attrsOf, List.mem_cons, List.mem_append] at ha
  rcases ha with rfl | ha | ha
  · refine ⟨hw0, hv1, hv2, word_ok _ (Or.inl rfl), ?_⟩
    intro hm
    simp only [List.mem_cons] at hm
    rcases hm with h | h | h
    · cases hq : d.vEq.single <;> rw [hq] at h <;> simp [quoteChar] at h
    · cases hq : d.vEq.single <;> rw [hq] at h <;> simp [quoteChar] at h
    · exact digit_notQuote (List.all_eq_true.mp hmin _ h) _ rfl
  · cases he : d.encoding with
    | none => rw [he] at ha; cases ha
    | some e =>
      rw [he] at ha henc
      simp only [List.mem_singleton] at ha
      subst ha
      simp only [Bool.and_eq_true, EqLayout.ok, Bool.not_eq_true'] at henc
      obtain ⟨⟨⟨he1, he2⟩, _⟩, he3, he4⟩ := henc
      exact ⟨he2, he3, he4, word_ok _ (Or.inr (Or.inl rfl)),
        fun hm => encChar_notQuote (List.all_eq_true.mp he1 _ hm) _ rfl⟩
  · cases hs : d.standalone with
    | none => rw [hs] at ha; cases ha
    | some b =>
      rw [hs] at ha hsa
      simp only [List.mem_singleton] at ha
      subst ha
      simp only [Bool.and_eq_true, EqLayout.ok] at hsa
      obtain ⟨⟨hs1, _⟩, hs3, hs4⟩ := hsa
      refine ⟨hs1, hs3, hs4, word_ok _ (Or.inr (Or.inr rfl)), ?_⟩
      cases b <;> cases hq : d.sEq.single <;> simp [yesNo, quoteChar]

theorem stripSuffix_append (p y : Str) : stripSuffix p (y ++ p) = some y := by
  unfold stripSuffix
  have : p.isSuffixOf (y ++ p) = true := List.isSuffixOf_iff_suffix.mpr (List.suffix_append y p)
  rw [this]
  simp

/-- The string part of `xml_declaration` on a rendered declaration: the label, or `none` when the
    declaration has no `encoding`. -/
theorem declFromAscii_render (d : LDecl) (hok : d.ok = true) : declFromAscii d.render = d.encoding := by
  rw [render_eq_attrs]
  unfold declFromAscii
  have h1 : stripPrefix ['<', '?', 'x', 'm', 'l']
      (['<', '?', 'x', 'm', 'l'] ++ (' ' :: (renderAttrs (attrsOf d) ++ d.wEnd) ++ ['?', '>'])) =
      some (' ' :: (renderAttrs (attrsOf d) ++ d.wEnd) ++ ['?', '>']) := by
    simp [stripPrefix, List.isPrefixOf]
  rw [h1]
  simp only []
  rw [stripSuffix_append]
  simp only [List.head?_cons, Option.any_some, show isAsciiWs ' ' = true by decide, Bool.not_true,
    Bool.false_eq_true, if_false]
  have hwEnd : isWs d.wEnd = true := by
    simp only [LDecl.ok, Bool.and_eq_true] at hok
    exact hok.2
  rw [show (' ' :: (renderAttrs (attrsOf d) ++ d.wEnd)) = [' '] ++ (renderAttrs (attrsOf d) ++ d.wEnd) from rfl,
    trimStart_white [' '] _ (by decide)]
  rw [pseudoAttrs_render _ _ (attrsOf_ok d hok) hwEnd _
    (by simp only [List.length_cons, List.length_append]; omega), firstEncoding_attrsOf]

/-! ### The fuel of the loop is only a device -/

theorem splitOnce_length (c : Char) : ∀ (s a b : Str), splitOnce c s = some (a, b) → a.length + b.length + 1 = s.length := by
  intro s
  induction s with
  | nil => intro a b h; cases h
  | cons x xs ih =>
    intro a b h
    rw [splitOnce] at h
    split at h
    · cases h; simp
    · cases h2 : splitOnce c xs with
      | none => rw [h2] at h; cases h
      | some p =>
        obtain ⟨a', b'⟩ := p
        rw [h2] at h
        cases h
        have := ih a' b h2
        simp only [List.length_cons]; omega

theorem trimStart_length_le (s : Str) : (trimStart s).length ≤ s.length :=
  (List.dropWhile_sublist _).length_le

/-- The fuel of `pseudoAttrs` is irrelevant once it exceeds the length of the string. -/
theorem pseudoAttrs_fuel : ∀ (f g : Nat) (s : Str), s.length < f → s.length < g → pseudoAttrs f s = pseudoAttrs g s := by
  intro f
  induction f with
  | zero => intro g s h; exact absurd h (Nat.not_lt_zero _)
  | succ f ih =>
    intro g s hf hg
    cases g with
    | zero => exact absurd hg (Nat.not_lt_zero _)
    | succ g =>
      rw [pseudoAttrs, pseudoAttrs]
      split
      · rfl
      · cases h1 : splitOnce '=' s with
        | none => rfl
        | some p =>
          obtain ⟨name, after⟩ := p
          have l1 := splitOnce_length _ _ _ _ h1
          simp only []
          cases h2 : trimStart after with
          | nil => rfl
          | cons q after1 =>
            simp only []
            have l2 : after1.length + 1 ≤ after.length := by
              have := trimStart_length_le after
              rw [h2] at this
              simpa using this
            split
            · cases h3 : splitOnce q after1 with
              | none => rfl
              | some p2 =>
                obtain ⟨value, after2⟩ := p2
                have l3 := splitOnce_length _ _ _ _ h3
                simp only []
                split
                · rfl
                · have l4 := trimStart_length_le after2
                  exact ih g _ (by omega) (by omega)
            · rfl

end XotModel.Bytes
