/-
  Lemmas for C11, serialisation order: in the output-event stream of `gen_outputs` the events of
  one element's start tag form one contiguous block (`genNode_block`), and the token stream
  carries exactly the events of `gen_outputs`, in order (`renderAll_events`).
-/
import XotModel.Lemmas.Events
import XotModel.Lemmas.Output
import XotModel.Lemmas.FmapReads

namespace XotModel
namespace Fmap
open XotModel.Gen

/-- The tokens are the events, in order, each with its rendering. -/
theorem renderAll_events (esc : Escapers) (env : Env) (pr : TokenParams) (t : Tree) :
    ∀ (outs : List (Path × Output)) (s : FStack) (l : List (Path × Output × OutputToken)),
      renderAllWith esc env pr t s outs = .ok l → l.map (fun k => (k.1, k.2.1)) = outs
  | [], s, l => by
    intro h
    simp only [renderAllWith] at h
    cases h
    rfl
  | (p, o) :: rest, s, l => by
    intro h
    simp only [renderAllWith] at h
    cases h1 : renderAtWith esc env pr t s p o with
    | ok st =>
      obtain ⟨s', tok⟩ := st
      rw [h1] at h
      simp only at h
      cases h2 : renderAllWith esc env pr t s' rest with
      | ok l' =>
        rw [h2] at h
        simp only [Outcome.ok.injEq] at h
        subst h
        simp only [List.map_cons]
        rw [renderAll_events esc env pr t rest s' l' h2]
      | err e => rw [h2] at h; cases h
      | panic => rw [h2] at h; cases h
    | err e => rw [h1] at h; cases h
    | panic => rw [h1] at h; cases h

theorem tokens_events (esc : Escapers) (env : Env) (pr : TokenParams) (t : Tree) (start : Path)
    (ks : List (Path × Output × OutputToken)) (h : tokensWith esc env pr t start = .ok ks) :
    ks.map (fun k => (k.1, k.2.1)) = genOutputs t start := by
  unfold tokensWith at h
  cases hr : renderAllWith esc env pr t (initStack t start) (genOutputs t start) with
  | ok l =>
    rw [hr] at h
    simp only [Outcome.ok.injEq] at h
    subst h
    exact renderAll_events esc env pr t _ _ _ hr
  | err e => rw [hr] at h; cases h
  | panic => rw [hr] at h; cases h

/-- The events of the `i`-th child are a contiguous part of the events of the children. -/
theorem genKids_split (inScope : List (Nat × Nat)) (path : Path) :
    ∀ (ks : List Tree) (j i : Nat) (k : Tree), ks[i]? = some k →
      ∃ pre post, genNode.genKids inScope path j ks =
        pre ++ genNode inScope false (path ++ [j + i]) k ++ post
  | [], j, i, k => by simp
  | k0 :: ks, j, 0, k => by
    intro h
    simp only [List.getElem?_cons_zero, Option.some.injEq] at h
    subst h
    refine ⟨[], genNode.genKids inScope path (j + 1) ks, ?_⟩
    simp [genNode.genKids]
  | k0 :: ks, j, i + 1, k => by
    intro h
    simp only [List.getElem?_cons_succ] at h
    obtain ⟨pre, post, hp⟩ := genKids_split inScope path ks (j + 1) i k h
    refine ⟨genNode inScope false (path ++ [j]) k0 ++ pre, post, ?_⟩
    have : j + 1 + i = j + (i + 1) := by omega
    rw [this] at hp
    simp only [genNode.genKids, hp, List.append_assoc]

/-- The events a normal node emits when it is entered are one contiguous block of the stream of
    any subtree that contains it. -/
theorem genNode_block (inScope : List (Nat × Nat)) :
    ∀ (rel : Path) (isTop : Bool) (path : Path) (n n' : Tree), n.at? rel = some n' →
      n'.value.isNormal = true →
      ∃ pre post, genNode inScope isTop path n =
        pre ++ (edgeStart inScope (isTop && rel.isEmpty) n').map (fun o => (path ++ rel, o)) ++ post
  | [], isTop, path, n, n' => by
    intro h hn
    simp only [Tree.at?, Option.some.injEq] at h
    subst h
    cases n with
    | node v ks =>
      simp only [Tree.value] at hn
      refine ⟨[], genNode.genKids inScope path 0 ks ++
        (edgeEnd (.node v ks)).map (fun o => (path, o)), ?_⟩
      unfold genNode
      simp [hn]
  | i :: rel, isTop, path, n, n' => by
    intro h hn
    cases n with
    | node v ks =>
      rw [at?_cons] at h
      cases hk : ks[i]? with
      | none => rw [hk] at h; simp at h
      | some k =>
        rw [hk] at h
        simp only [Option.bind_some] at h
        obtain ⟨pre1, post1, h1⟩ := genNode_block inScope rel false (path ++ [i]) k n' h hn
        obtain ⟨pre2, post2, h2⟩ := genKids_split inScope path ks 0 i k hk
        simp only [Nat.zero_add] at h2
        have hpath : path ++ [i] ++ rel = path ++ i :: rel := by simp
        have hb : (isTop && (i :: rel).isEmpty) = false := by simp
        rw [hb]
        simp only [Bool.false_and] at h1
        rw [hpath] at h1
        unfold genNode
        rw [h2, h1]
        by_cases hv : v.isNormal = true
        · simp only [hv, if_true]
          exact ⟨(edgeStart inScope isTop (.node v ks)).map (fun o => (path, o)) ++ pre2 ++ pre1,
            post1 ++ post2 ++ (edgeEnd (.node v ks)).map (fun o => (path, o)), by simp⟩
        · simp only [hv]
          exact ⟨pre2 ++ pre1, post1 ++ post2, by simp⟩

/-- The start tag of the element at `start ++ rel` in the event stream of `gen_outputs(start)`:
    start-tag-open, (on the top node) the inherited declarations, the element's declarations,
    its attributes, start-tag-close, contiguous and in that order. -/
theorem genOutputs_startTag (t : Tree) (start rel : Path) (n n' : Tree) (inScope : List (Nat × Nat))
    (name : Nat) (hn : t.at? start = some n) (hs : namespacesInScope t start = some inScope)
    (hrel : n.at? rel = some n') (hv : n'.value = .element name) :
    ∃ pre post, genOutputs t start =
      pre ++ [(start ++ rel, Output.startTagOpen name)]
        ++ (if rel.isEmpty then extraPrefixes inScope n' else []).map (fun o => (start ++ rel, o))
        ++ n'.nsDecls.map (fun d => (start ++ rel, Output.pfx d.1 d.2))
        ++ n'.attrs.map (fun a => (start ++ rel, Output.attribute a.1 a.2))
        ++ [(start ++ rel, Output.startTagClose)] ++ post := by
  have hnorm : n'.value.isNormal = true := by rw [hv]; rfl
  obtain ⟨pre, post, h⟩ := genNode_block inScope rel true start n n' hrel hnorm
  refine ⟨pre, post, ?_⟩
  simp only [genOutputs, hn, hs, h, edgeStart, hv, Bool.true_and, List.map_append, List.map_cons,
    List.map_nil, List.map_map, List.append_assoc]
  rfl


/-- A list whose image is `a ++ b` splits accordingly. -/
theorem map_split {α β : Type} (g : α → β) (l : List α) (a b : List β) (h : l.map g = a ++ b) :
    ∃ la lb, l = la ++ lb ∧ la.map g = a ∧ lb.map g = b := by
  obtain ⟨la, lb, h1, h2, h3⟩ := List.map_eq_append_iff.mp h
  exact ⟨la, lb, h1, h2, h3⟩

open HTree in
mutual
  /-- Every node of a handle tree is at some path of the erased tree. -/
  theorem erase_at_of_find (e : Nat) : ∀ (r t : HTree), find? e r = some t →
      ∃ p, (erase r).at? p = some (erase t)
    | .node h v ks, t => by
      intro hf
      simp only [find?] at hf
      split at hf
      · cases hf; exact ⟨[], rfl⟩
      · obtain ⟨i, p, hi⟩ := erase_at_of_findList e ks t hf
        refine ⟨i :: p, ?_⟩
        simp only [erase]
        rw [at?_cons]
        exact hi
  theorem erase_at_of_findList (e : Nat) : ∀ (ks : List HTree) (t : HTree),
      findList? e ks = some t →
      ∃ (i : Nat) (p : Path), (eraseList ks)[i]?.bind (fun (k : Tree) => k.at? p) = some (erase t)
    | [], t => by simp [findList?]
    | k :: ks, t => by
      intro hf
      simp only [findList?] at hf
      cases hk : find? e k with
      | some t' =>
        rw [hk] at hf
        cases hf
        obtain ⟨p, hp⟩ := erase_at_of_find e k _ hk
        exact ⟨0, p, by simp [eraseList, hp]⟩
      | none =>
        rw [hk] at hf
        obtain ⟨i, p, h⟩ := erase_at_of_findList e ks t hf
        exact ⟨i + 1, p, by simpa [eraseList] using h⟩
end


/-- The string serialisation is the concatenation of the token texts, each preceded by one
    space when so flagged (this is `C16_tokens`). -/
theorem tokens_string (esc : Escapers) (env : Env) (pr : TokenParams) (t : Tree) (start : Path)
    (ks : List (Path × Output × OutputToken)) (h : tokensWith esc env pr t start = .ok ks) :
    serializeStringWith esc env pr t start =
      .ok (ks.flatMap (fun k => (if k.2.2.space then [' '] else []) ++ k.2.2.text)) := by
  have hsp : tokenSpace = [' '] := by decide
  unfold tokensWith at h
  unfold serializeStringWith serializeWriteWith bufferToString
  cases hr : renderAllWith esc env pr t (initStack t start) (genOutputs t start) with
  | ok l =>
    simp only [hr] at h
    cases h
    rw [writeGo_of_renderAll_ok esc env pr t _ _ _ hr]
    simp [streamBytes, tokenBytes, hsp]
  | err e => simp [hr] at h
  | panic => simp [hr] at h

open Forest (MapKind) in
/-- The start tag of a forest element in the event stream, the token stream and the string. -/
theorem serialisation_order (f : Forest) (e name : Nat) (t : HTree) (hg : f.get? e = some t)
    (hv : t.value = .element name) (T : Tree) (start rel : Path) (n : Tree)
    (inScope : List (Nat × Nat)) (hn : T.at? start = some n)
    (hs : namespacesInScope T start = some inScope) (hrel : n.at? rel = some (HTree.erase t)) :
    (∃ pre post, genOutputs T start =
      pre ++ [(start ++ rel, Output.startTagOpen name)]
        ++ (if rel.isEmpty then extraPrefixes inScope (HTree.erase t) else []).map
            (fun o => (start ++ rel, o))
        ++ (absNs f e).map (fun d => (start ++ rel, Output.pfx d.1 d.2))
        ++ (absAttrs f e).map (fun a => (start ++ rel, Output.attribute a.1 a.2))
        ++ [(start ++ rel, Output.startTagClose)] ++ post) ∧
    ∀ (esc : Escapers) (env : Env) (pr : TokenParams) (ks : List (Path × Output × OutputToken)),
      tokensWith esc env pr T start = .ok ks →
      (∃ k1 kd ka k2, ks = k1 ++ kd ++ ka ++ k2 ∧
        kd.map (fun k => (k.1, k.2.1)) = (absNs f e).map (fun d => (start ++ rel, Output.pfx d.1 d.2)) ∧
        ka.map (fun k => (k.1, k.2.1)) =
          (absAttrs f e).map (fun a => (start ++ rel, Output.attribute a.1 a.2))) ∧
      serializeStringWith esc env pr T start =
        .ok (ks.flatMap (fun k => (if k.2.2.space then [' '] else []) ++ k.2.2.text)) := by
  have hve : (HTree.erase t).value = .element name := by rw [erase_value, hv]
  obtain ⟨pre, post, hev⟩ := genOutputs_startTag T start rel n _ inScope name hn hs hrel hve
  have hns : (HTree.erase t).nsDecls = absNs f e := by
    unfold absNs Fmap.abs; rw [hg]; exact nsDecls_erase t
  have hat : (HTree.erase t).attrs = absAttrs f e := by
    unfold absAttrs Fmap.abs; rw [hg]; exact attrs_erase t
  rw [hns, hat] at hev
  refine ⟨⟨pre, post, hev⟩, ?_⟩
  intro esc env pr ks hk
  refine ⟨?_, tokens_string esc env pr T start ks hk⟩
  have hm := tokens_events esc env pr T start ks hk
  rw [hev] at hm
  obtain ⟨l1, k2a, h1, _, h2⟩ := map_split _ ks _ _ (by
    simpa only [List.append_assoc] using hm : ks.map (fun k => (k.1, k.2.1)) =
      (pre ++ ([(start ++ rel, Output.startTagOpen name)] ++
        (if rel.isEmpty then extraPrefixes inScope (HTree.erase t) else []).map
          (fun o => (start ++ rel, o)))) ++ _)
  obtain ⟨kd, k2b, h3, h4, h5⟩ := map_split _ k2a _ _ h2
  obtain ⟨ka, k2, h6, h7, _⟩ := map_split _ k2b _ _ h5
  exact ⟨l1, kd, ka, k2, by rw [h1, h3, h6]; simp, h4, h7⟩

end Fmap
end XotModel
