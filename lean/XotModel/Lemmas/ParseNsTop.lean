/-
  C02_spelled_ns, part 5: the parse entry points on the tokens of a spelled document / fragment with
  namespaces, and reading the id tree back as an abstract document.
-/
import XotModel.Lemmas.ParseNs

namespace XotModel

/-- The two base frames of `DocumentBuilder::new`. -/
def baseFrames : List (List (Str × Str)) := [[([], [])], [(['x', 'm', 'l'], xmlNsUri)]]

theorem flatScope_base : flatScope baseFrames = baseScope := rfl

theorem readyNs_new {env : Env} (h : EnvBaseNs env) : ReadyNs (Builder.new env) baseFrames := by
  refine ⟨rfl, h, ?_, ?_⟩
  · simp only [Builder.new, baseFrames, List.map_cons, List.map_nil, idFrame, h.pfx_empty.2, h.ns_empty.2,
      h.pfx_xml.2, h.ns_xml.2]
    rfl
  · intro f hf pu hpu
    simp only [baseFrames, List.mem_cons, List.not_mem_nil, or_false] at hf
    rcases hf with rfl | rfl
    · simp only [List.mem_singleton] at hpu; subst hpu; exact ⟨h.pfx_empty.1, h.ns_empty.1⟩
    · simp only [List.mem_singleton] at hpu; subst hpu; exact ⟨h.pfx_xml.1, h.ns_xml.1⟩

/-- The token loop on a spelled node list, from the initial builder. -/
theorem run_spelled_ns {env : Env} (h : EnvBaseNs env) (sns : List NSNode) (hw : WellNsDoc sns) :
    ∃ seen idn sp, (Builder.new env).run (NSNode.tokens.tokensList sns) none =
      .ok ((Builder.new env).emitNs (NPNode.encode.encodeList env (NSNode.denote.denoteList baseScope sns)).1
        (NPNode.encode.encodeList env (NSNode.denote.denoteList baseScope sns)).2 seen idn sp) := by
  obtain ⟨hwell, hadj, hids⟩ := hw
  obtain ⟨hsim, _⟩ := sim_list_ns sns baseFrames hwell hadj (Builder.new env) (readyNs_new h)
    (fun _ _ _ _ => by intro s ks more heq; simp [Builder.new] at heq)
    ⟨hids, fun x _ hm => by simp [Builder.new] at hm⟩
  obtain ⟨idn, sp, hrun⟩ := hsim [] none
  refine ⟨(NPNode.ids.idsList (NSNode.denote.denoteList baseScope sns)).reverse ++ (Builder.new env).seenIds,
    idn, sp, ?_⟩
  rw [List.append_nil] at hrun
  rw [hrun]
  simp only [Builder.run, flatScope_base]
  rfl

theorem emitNs_new_root (env env' : Env) (trees : List Tree) (seen : List Str) (idn : List (Str × Path)) (sp : SpanMap) :
    ((Builder.new env).emitNs env' trees seen idn sp).root = .node .document trees := by
  simp [Builder.root, Builder.emitNs, Builder.new, zipInto, Frame.close]

/-- `parse_fragment` on a spelled fragment with namespaces. -/
theorem build_fragment_spelled_ns {env : Env} (h : EnvBaseNs env) (len : Nat) (sns : List NSNode) (hw : WellNsDoc sns) :
    ∃ p, build .fragment len env (NSNode.tokens.tokensList sns) none = .ok p ∧
      p.tree = .node .document (NPNode.encode.encodeList env (NSNode.denote.denoteList baseScope sns)).2 ∧
      p.env = (NPNode.encode.encodeList env (NSNode.denote.denoteList baseScope sns)).1 := by
  obtain ⟨seen, idn, sp, hrun⟩ := run_spelled_ns h sns hw
  refine ⟨((Builder.new env).emitNs (NPNode.encode.encodeList env (NSNode.denote.denoteList baseScope sns)).1
    (NPNode.encode.encodeList env (NSNode.denote.denoteList baseScope sns)).2 seen idn sp).parsed, ?_, ?_, ?_⟩
  · unfold build
    rw [hrun]
    simp only [Builder.finishFragment, Builder.isCurrentDocument, Builder.emitNs, Builder.new, Value.isDocument, if_true]
  · simp only [Builder.parsed]; exact emitNs_new_root env _ _ _ _ sp
  · rfl

/-- `parse` on a spelled document whose top level has exactly one element and no text. -/
theorem build_document_spelled_ns {env : Env} (h : EnvBaseNs env) (len : Nat) (sns : List NSNode) (hw : WellNsDoc sns)
    (htop : WellFormedTop (.node .document (NPNode.encode.encodeList env (NSNode.denote.denoteList baseScope sns)).2)) :
    ∃ p, build .document len env (NSNode.tokens.tokensList sns) none = .ok p ∧
      p.tree = .node .document (NPNode.encode.encodeList env (NSNode.denote.denoteList baseScope sns)).2 ∧
      p.env = (NPNode.encode.encodeList env (NSNode.denote.denoteList baseScope sns)).1 := by
  obtain ⟨seen, idn, sp, hrun⟩ := run_spelled_ns h sns hw
  obtain ⟨hcount, hnotext⟩ := htop
  simp only [Tree.kids] at hcount hnotext
  refine ⟨((Builder.new env).emitNs (NPNode.encode.encodeList env (NSNode.denote.denoteList baseScope sns)).1
    (NPNode.encode.encodeList env (NSNode.denote.denoteList baseScope sns)).2 seen idn sp).parsed, ?_, ?_, ?_⟩
  · unfold build
    rw [hrun]
    simp only [Builder.finishDocument]
    have hdoc : ((Builder.new env).emitNs (NPNode.encode.encodeList env (NSNode.denote.denoteList baseScope sns)).1
        (NPNode.encode.encodeList env (NSNode.denote.denoteList baseScope sns)).2 seen idn sp).isCurrentDocument = true := by
      simp [Builder.isCurrentDocument, Builder.emitNs, Builder.new, Value.isDocument]
    simp only [hdoc, if_true, emitNs_new_root, Tree.kids]
    obtain ⟨es, hs, hl⟩ := topLevelScan_notext
      ((Builder.new env).emitNs (NPNode.encode.encodeList env (NSNode.denote.denoteList baseScope sns)).1
        (NPNode.encode.encodeList env (NSNode.denote.denoteList baseScope sns)).2 seen idn sp).spans _ 0 [] hnotext
    rw [hs]
    simp only [List.length_nil, Nat.zero_add, hcount] at hl
    match es, hl with
    | [x], _ => rfl
  · simp only [Builder.parsed]; exact emitNs_new_root env _ _ _ _ sp
  · rfl

/-! ### Reading the id tree back -/

theorem prefixStr_of_get {env : Env} {i : Nat} {p : Str} (h : env.prefixes[i]? = some p) : env.prefixStr i = p := by
  simp [Env.prefixStr, List.getD, h]

theorem namespaceStr_of_get {env : Env} {i : Nat} {u : Str} (h : env.namespaces[i]? = some u) :
    env.namespaceStr i = u := by
  simp [Env.namespaceStr, List.getD, h]

theorem expanded_of_get {env : Env} {n nsid : Nat} {a u : Str} (h : env.names[n]? = some (a, nsid))
    (hu : env.namespaces[nsid]? = some u) : env.expanded n = (u, a) := by
  simp [Env.expanded, Env.nsOfName, Env.localName, List.getD, h, namespaceStr_of_get hu]

theorem decodeItems_append (env : Env) : ∀ (l1 l2 : List Tree) (r1 r2 : List NItem),
    decodeNsTree.decodeItems env l1 = some r1 → decodeNsTree.decodeItems env l2 = some r2 →
    decodeNsTree.decodeItems env (l1 ++ l2) = some (r1 ++ r2) := by
  intro l1
  induction l1 with
  | nil =>
    intro l2 r1 r2 h1 h2
    simp only [decodeNsTree.decodeItems, Option.some.injEq] at h1; subst h1; simpa using h2
  | cons k ks ih =>
    intro l2 r1 r2 h1 h2
    simp only [decodeNsTree.decodeItems] at h1
    cases hk : decodeNsTree env k with
    | none => simp [hk] at h1
    | some a =>
      cases hks : decodeNsTree.decodeItems env ks with
      | none => simp [hk, hks] at h1
      | some as =>
        simp only [hk, hks, Option.some.injEq] at h1
        subst h1
        simp only [List.cons_append, decodeNsTree.decodeItems, hk, ih l2 as r2 hks h2]

/-- Namespace leaves read back as the declarations they were made from. -/
theorem decode_declIds : ∀ (ds : List (Str × Str)) (env envF : Env), EnvApp (declIds env ds).1 envF →
    decodeNsTree.decodeItems envF ((declIds env ds).2.map fun d => Tree.node (.namespace d.1 d.2) []) =
      some (ds.map NItem.decl)
  | [], _, _, _ => rfl
  | (p, u) :: rest, env, envF, h => by
    simp only [declIds] at h ⊢
    have hrest := declIds_app rest ((env.internPrefix p).1.internNamespace u).1
    have hp := ((internNamespace_app _ u).trans (hrest.trans h)).prefixes_get (internPrefix_get env p)
    have hu := (hrest.trans h).namespaces_get (internNamespace_get (env.internPrefix p).1 u)
    simp only [List.map_cons, decodeNsTree.decodeItems, decodeNsTree, prefixStr_of_get hp, namespaceStr_of_get hu,
      decode_declIds rest _ envF h]

/-- Attribute leaves read back as the attributes they were made from. -/
theorem decode_encodeNsAttrs : ∀ (attrs : List ((Str × Str) × Str)) (env envF : Env),
    EnvApp (encodeNsAttrs env attrs).1 envF →
    decodeNsTree.decodeItems envF (encodeNsAttrs env attrs).2 = some (attrs.map NItem.attr)
  | [], _, _, _ => rfl
  | ((ns, a), v) :: rest, env, envF, h => by
    simp only [encodeNsAttrs] at h ⊢
    have hrest := encodeNsAttrs_app rest ((env.internNamespace ns).1.internName a (env.internNamespace ns).2).1
    have hn := (hrest.trans h).names_get (internName_get (env.internNamespace ns).1 a (env.internNamespace ns).2)
    have hu := ((internName_app _ a _).trans (hrest.trans h)).namespaces_get (internNamespace_get env ns)
    simp only [decodeNsTree.decodeItems, decodeNsTree, expanded_of_get hn hu, decode_encodeNsAttrs rest _ envF h,
      List.map_cons]

theorem filterMap_const_none {α β : Type} (l : List α) : l.filterMap (fun _ => (none : Option β)) = [] := by
  induction l with
  | nil => rfl
  | cons x xs ih => simp [ih]

theorem filterMap_decl (ds : List (Str × Str)) (as : List ((Str × Str) × Str)) (ks : List NPNode) :
    ((ds.map NItem.decl ++ (as.map NItem.attr ++ ks.map NItem.node)).filterMap NItem.decl?) = ds := by
  simp [List.filterMap_append, List.filterMap_map, Function.comp_def, NItem.decl?, filterMap_const_none]

theorem filterMap_attr (ds : List (Str × Str)) (as : List ((Str × Str) × Str)) (ks : List NPNode) :
    ((ds.map NItem.decl ++ (as.map NItem.attr ++ ks.map NItem.node)).filterMap NItem.attr?) = as := by
  simp [List.filterMap_append, List.filterMap_map, Function.comp_def, NItem.attr?, filterMap_const_none]

theorem filterMap_node (ds : List (Str × Str)) (as : List ((Str × Str) × Str)) (ks : List NPNode) :
    ((ds.map NItem.decl ++ (as.map NItem.attr ++ ks.map NItem.node)).filterMap NItem.node?) = ks := by
  simp [List.filterMap_append, List.filterMap_map, Function.comp_def, NItem.node?, filterMap_const_none]

mutual
/-- Reading back what `encode` produced gives the abstract node, in every later state of the tables. -/
theorem decodeNs_encode : ∀ (n : NPNode) (env envF : Env), EnvApp (n.encode env).1 envF →
    decodeNsTree envF (n.encode env).2 = some (.node n)
  | .elem ns loc decls attrs kids, env, envF, h => by
    simp only [NPNode.encode] at h ⊢
    have hk := decodeNsItems_encodeList kids _ envF h
    have hak := (encodeNsList_app kids _).trans h
    have ha := decode_encodeNsAttrs attrs _ envF hak
    have hnk := (encodeNsAttrs_app attrs _).trans hak
    have hn := hnk.names_get (internName_get ((encodeDecls env decls).1.internNamespace ns).1 loc
      ((encodeDecls env decls).1.internNamespace ns).2)
    have hu := ((internName_app _ loc _).trans hnk).namespaces_get (internNamespace_get (encodeDecls env decls).1 ns)
    have hd := decode_declIds decls env envF (((internNamespace_app _ ns).trans (internName_app _ loc _)).trans hnk)
    have hall := decodeItems_append envF _ _ _ _ hd (decodeItems_append envF _ _ _ _ ha hk)
    simp only [encodeDecls] at hall hn hu ⊢
    simp only [decodeNsTree, hall, expanded_of_get hn hu, filterMap_decl, filterMap_attr, filterMap_node]
  | .text s, _, _, _ => rfl
  | .comment s, _, _, _ => rfl
  | .pi t d, env, envF, h => by
    simp only [NPNode.encode] at h ⊢
    simp only [decodeNsTree, localName_of_get (h.names_get (internName_get env t Env.noNamespace))]
theorem decodeNsItems_encodeList : ∀ (ns : List NPNode) (env envF : Env),
    EnvApp (NPNode.encode.encodeList env ns).1 envF →
    decodeNsTree.decodeItems envF (NPNode.encode.encodeList env ns).2 = some (ns.map NItem.node)
  | [], _, _, _ => rfl
  | k :: ks, env, envF, h => by
    simp only [NPNode.encode.encodeList] at h ⊢
    have hk := decodeNs_encode k env envF ((encodeNsList_app ks _).trans h)
    have hks := decodeNsItems_encodeList ks _ envF h
    simp only [decodeNsTree.decodeItems, hk, hks, List.map_cons]
end

theorem mapM_node (ns : List NPNode) : (ns.map NItem.node).mapM NItem.node? = some ns := by
  induction ns with
  | nil => rfl
  | cons k ks ih => simp [List.mapM_cons, ih, NItem.node?]

/-- The content of a document read back. -/
theorem decodeNs_encodeList (ns : List NPNode) (env : Env) :
    decodeNs (NPNode.encode.encodeList env ns).1 (NPNode.encode.encodeList env ns).2 = some ns := by
  unfold decodeNs
  rw [decodeNsItems_encodeList ns env _ (EnvApp.refl _)]
  exact mapM_node ns

/-! ### Top-level shape in abstract terms -/

def NPNode.isElem : NPNode → Bool
  | .elem _ _ _ _ _ => true
  | _ => false

def NPNode.isText : NPNode → Bool
  | .text _ => true
  | _ => false

/-- Exactly one element and no text among the top-level nodes. -/
def AbstractTopNs (ds : List NPNode) : Prop :=
  (ds.filter NPNode.isElem).length = 1 ∧ ∀ d ∈ ds, d.isText = false

theorem encodeNs_kind (n : NPNode) (env : Env) :
    (n.encode env).2.value.isElement = n.isElem ∧ (n.encode env).2.value.isText = n.isText := by
  cases n <;> simp [NPNode.encode, Tree.value, Value.isElement, Value.isText, NPNode.isElem, NPNode.isText]

theorem encodeNsList_top : ∀ (ds : List NPNode) (env : Env),
    countElements (NPNode.encode.encodeList env ds).2 = (ds.filter NPNode.isElem).length ∧
    ((∀ d ∈ ds, d.isText = false) → ∀ k ∈ (NPNode.encode.encodeList env ds).2, k.value.isText = false)
  | [], _ => ⟨rfl, fun _ k hk => by simp [NPNode.encode.encodeList] at hk⟩
  | d :: ds, env => by
    obtain ⟨h1, h2⟩ := encodeNsList_top ds (d.encode env).1
    obtain ⟨k1, k2⟩ := encodeNs_kind d env
    simp only [NPNode.encode.encodeList]
    constructor
    · simp only [countElements, List.filter_cons, k1] at h1 ⊢
      cases d.isElem <;> simp [h1]
    · intro hd k hk
      simp only [List.mem_cons] at hk
      rcases hk with rfl | hk
      · rw [k2]; exact hd d (by simp)
      · exact h2 (fun x hx => hd x (by simp [hx])) k hk

theorem wellFormedTop_of_abstractNs {env : Env} {ds : List NPNode} (h : AbstractTopNs ds) :
    WellFormedTop (.node .document (NPNode.encode.encodeList env ds).2) := by
  obtain ⟨h1, h2⟩ := encodeNsList_top ds env
  exact ⟨by simp only [Tree.kids]; rw [h1]; exact h.1, by simp only [Tree.kids]; exact h2 h.2⟩

end XotModel
