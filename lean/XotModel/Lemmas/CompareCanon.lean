/-
  Lemmas for C13, part 3: on structurally valid trees, structural equality of the (unfiltered)
  forests is equality of canonical forms.
-/
import XotModel.Lemmas.Compare
import XotModel.Lemmas.CompareAttrs

namespace XotModel

/-! ### Induction over trees with the hypothesis for every child -/

mutual
theorem Tree.induct_aux {P : Tree → Prop} (h : ∀ v ks, (∀ k ∈ ks, P k) → P (.node v ks)) : ∀ t, P t
  | .node v ks => h v ks (Tree.induct_auxList h ks)
theorem Tree.induct_auxList {P : Tree → Prop} (h : ∀ v ks, (∀ k ∈ ks, P k) → P (.node v ks)) :
    ∀ ks : List Tree, ∀ k ∈ ks, P k
  | [] => fun _ hk => nomatch hk
  | k :: ks => fun x hx =>
    (List.mem_cons.mp hx).elim (fun e => e ▸ Tree.induct_aux h k) (Tree.induct_auxList h ks x)
end

theorem Tree.induct_mem {P : Tree → Prop} (h : ∀ v ks, (∀ k ∈ ks, P k) → P (.node v ks)) (t : Tree) : P t :=
  Tree.induct_aux h t

/-! ### Attribute views on well-ordered children -/

theorem of_mem_takeWhile {α} {p : α → Bool} {l : List α} {x : α} (h : x ∈ l.takeWhile p) : p x = true :=
  List.all_eq_true.mp (List.all_takeWhile (l := l) (p := p)) x h

theorem attrPairs_append (a b : List Tree) : attrPairs (a ++ b) = attrPairs a ++ attrPairs b := by
  induction a with
  | nil => rfl
  | cons k ks ih =>
    simp only [List.cons_append, attrPairs]
    split <;> simp [ih]

theorem attrPairs_eq_nil {l : List Tree} (h : ∀ k ∈ l, k.value.category ≠ .attribute) : attrPairs l = [] := by
  induction l with
  | nil => rfl
  | cons k ks ih =>
    have hk := h k List.mem_cons_self
    have ih' := ih (fun x hx => h x (List.mem_cons_of_mem _ hx))
    simp only [attrPairs]
    split
    · rename_i n v hv; simp [hv, Value.category] at hk
    · exact ih'

theorem attrPairs_length_of_all {l : List Tree} (h : ∀ k ∈ l, k.value.category = .attribute) :
    (attrPairs l).length = l.length := by
  induction l with
  | nil => rfl
  | cons k ks ih =>
    have hk := h k List.mem_cons_self
    have ih' := ih (fun x hx => h x (List.mem_cons_of_mem _ hx))
    simp only [attrPairs]
    split
    · simp [ih']
    · rename_i hne
      cases hv : k.value <;> simp [hv, Value.category] at hk
      exact absurd hv (hne _ _)

theorem attrs_eq_attrPairs (t : Tree) : t.attrs = attrPairs t.attributeNodes := by
  unfold Tree.attrs
  generalize t.attributeNodes = l
  induction l with
  | nil => rfl
  | cons k ks ih =>
    simp only [List.filterMap_cons, attrPairs]
    cases hv : k.value <;> simp [ih]

theorem mem_attributeNodes_category (t : Tree) : ∀ k ∈ t.attributeNodes, k.value.category = .attribute := by
  intro k hk
  unfold Tree.attributeNodes at hk
  have := of_mem_takeWhile hk
  simpa using this

/-- On well-ordered children the `skip_while`/`take_while` view sees every attribute child. -/
theorem attrPairs_attributeNodes {v : Value} {ks : List Tree} (h : orderedKids ks = true) :
    attrPairs (Tree.node v ks).attributeNodes = attrPairs ks := by
  unfold orderedKids at h
  simp only [Tree.attributeNodes, Tree.kids]
  have e1 : ks = ks.takeWhile (fun k => k.value.category == .namespace) ++
      ks.dropWhile (fun k => k.value.category == .namespace) := (List.takeWhile_append_dropWhile).symm
  generalize hD : ks.dropWhile (fun k => k.value.category == .namespace) = D at h e1
  have e2 : D = D.takeWhile (fun k => k.value.category == .attribute) ++
      D.dropWhile (fun k => k.value.category == .attribute) := (List.takeWhile_append_dropWhile).symm
  have hN : attrPairs (ks.takeWhile (fun k => k.value.category == .namespace)) = [] := by
    apply attrPairs_eq_nil
    intro k hk
    have := of_mem_takeWhile hk
    simp only [beq_iff_eq] at this
    simp [this]
  have hR : attrPairs (D.dropWhile (fun k => k.value.category == .attribute)) = [] := by
    apply attrPairs_eq_nil
    intro k hk
    have := List.all_eq_true.mp h k hk
    simp only [Value.isNormal, beq_iff_eq] at this
    simp [this]
  conv => rhs; rw [e1, attrPairs_append, hN, e2, attrPairs_append, hR]
  simp

theorem attrs_of_ordered {v : Value} {ks : List Tree} (h : orderedKids ks = true) :
    (Tree.node v ks).attrs = attrPairs ks := by
  rw [attrs_eq_attrPairs, attrPairs_attributeNodes h]

theorem attrLen_of_ordered {v : Value} {ks : List Tree} (h : orderedKids ks = true) :
    (Tree.node v ks).attrLen = (attrPairs ks).length := by
  unfold Tree.attrLen
  rw [← attrPairs_attributeNodes (v := v) h, attrPairs_length_of_all (mem_attributeNodes_category _)]

/-! ### `compareValue` with `==` is equality of canonical values -/

theorem compareAttributes_strEq_iff {va vb : Value} {ka kb : List Tree}
    (oa : orderedKids ka = true) (ob : orderedKids kb = true)
    (na : attrNamesNodup ka = true) (nb : attrNamesNodup kb = true) :
    compareAttributes strEq (.node va ka) (.node vb kb) = true ↔
      sortAttrs (attrPairs ka) = sortAttrs (attrPairs kb) := by
  have na' : keysNodup (attrPairs ka) := by simpa [attrNamesNodup, keysNodup] using na
  have nb' : keysNodup (attrPairs kb) := by simpa [attrNamesNodup, keysNodup] using nb
  rw [← attrs_lookup_iff_sort na' nb']
  unfold compareAttributes
  rw [attrLen_of_ordered oa, attrLen_of_ordered ob, attrs_of_ordered oa]
  unfold Tree.getAttribute
  rw [attrs_of_ordered ob]
  by_cases hlen : (attrPairs ka).length = (attrPairs kb).length
  · simp only [hlen, bne_self_eq_false, Bool.false_eq_true, ↓reduceIte, List.all_eq_true, true_and]
    constructor
    · intro h kv hkv
      have := h kv hkv
      cases hl : List.lookup kv.1 (attrPairs kb) with
      | none => rw [hl] at this; simp [cmpFound] at this
      | some v => rw [hl] at this; simp [cmpFound, strEq] at this; rw [this]
    · intro h kv hkv
      rw [h kv hkv]; simp [cmpFound, strEq]
  · have : ((attrPairs ka).length != (attrPairs kb).length) = true := by simpa using hlen
    simp [this, hlen]

theorem compareValue_strEq_iff {a b : Tree}
    (oa : orderedKids a.kids = true) (ob : orderedKids b.kids = true)
    (na : attrNamesNodup a.kids = true) (nb : attrNamesNodup b.kids = true) :
    compareValue strEq a b = true ↔ cvalue a.value a.kids = cvalue b.value b.kids := by
  obtain ⟨va, ka⟩ := a
  obtain ⟨vb, kb⟩ := b
  simp only [Tree.value, Tree.kids] at *
  cases va <;> cases vb <;>
    simp [compareValue, cvalue, Tree.value, strEq]
  case element.element n m =>
    rw [compareAttributes_strEq_iff oa ob na nb]
    exact fun _ => Iff.rfl
  case pi.pi t d t' d' =>
    by_cases ht : t = t'
    · subst ht; cases d <;> cases d' <;> simp
    · simp [ht]

/-! ### Validity, unfolded -/

theorem validList_iff (ks : List Tree) : Tree.valid.validList ks = true ↔ ∀ k ∈ ks, k.valid = true := by
  induction ks with
  | nil => simp [Tree.valid.validList]
  | cons k ks ih => simp [Tree.valid.validList, ih]

theorem valid_node {v : Value} {ks : List Tree} (h : (Tree.node v ks).valid = true) :
    orderedKids ks = true ∧ attrNamesNodup ks = true ∧ (v.isNormal = true ∨ ks = []) ∧
      ∀ k ∈ ks, k.valid = true := by
  simp only [Tree.valid, Bool.and_eq_true, Bool.or_eq_true, List.isEmpty_iff, validList_iff] at h
  exact ⟨h.1.1.1, h.1.1.2, h.1.2, h.2⟩

/-- The trivial filter of `deep_equal`. -/
def allF : NodeFilter := fun _ => true

theorem proj_allF_normal {t : Tree} (h : t.value.isNormal = true) :
    proj allF t = [.mk t (projList allF t.kids)] := by
  obtain ⟨v, ks⟩ := t
  simp only [Tree.value] at h
  simp [proj, keepNode, allF, Tree.value, Tree.kids, h]

theorem proj_allF_abnormal {t : Tree} (hv : t.valid = true) (h : ¬ t.value.isNormal = true) :
    proj allF t = [] := by
  obtain ⟨v, ks⟩ := t
  simp only [Tree.value] at h
  obtain ⟨_, _, hl, _⟩ := valid_node hv
  rcases hl with hl | hl
  · exact absurd hl h
  · subst hl; simp [proj, keepNode, Tree.value, h, projList]

theorem canonList_cons_normal {k : Tree} {ks : List Tree} (h : k.value.isNormal = true) :
    canon.canonList (k :: ks) = canon k :: canon.canonList ks := by
  simp [canon.canonList, h]

theorem canonList_cons_abnormal {k : Tree} {ks : List Tree} (h : ¬ k.value.isNormal = true) :
    canon.canonList (k :: ks) = canon.canonList ks := by
  simp [canon.canonList, h]

/-- What the main theorem says about one node (against every other node). -/
def DeepIffCanon (k : Tree) : Prop :=
  ∀ j : Tree, k.valid = true → j.valid = true → k.value.isNormal = true → j.value.isNormal = true →
    (forestEqv strEq (proj allF k) (proj allF j) = true ↔ canon k = canon j)

theorem forestEqv_projList_iff (as : List Tree) :
    ∀ (bs : List Tree), (∀ k ∈ as, DeepIffCanon k) → (∀ k ∈ as, k.valid = true) → (∀ j ∈ bs, j.valid = true) →
    (forestEqv strEq (projList allF as) (projList allF bs) = true ↔ canon.canonList as = canon.canonList bs) := by
  induction as with
  | nil =>
    intro bs _ _ vb
    induction bs with
    | nil => simp [projList, forestEqv, canon.canonList]
    | cons j bs ihb =>
      have vj := vb j List.mem_cons_self
      have vb' : ∀ x ∈ bs, x.valid = true := fun x hx => vb x (List.mem_cons_of_mem _ hx)
      by_cases hj : j.value.isNormal = true
      · rw [canonList_cons_normal hj]
        simp [projList, proj_allF_normal hj, forestEqv, canon.canonList]
      · rw [canonList_cons_abnormal hj, ← ihb vb']
        simp [projList, proj_allF_abnormal vj hj]
  | cons k as iha =>
    intro bs ih va vb
    have vk := va k List.mem_cons_self
    have va' : ∀ x ∈ as, x.valid = true := fun x hx => va x (List.mem_cons_of_mem _ hx)
    have ih' : ∀ x ∈ as, DeepIffCanon x := fun x hx => ih x (List.mem_cons_of_mem _ hx)
    by_cases hk : k.value.isNormal = true
    · induction bs with
      | nil =>
        rw [canonList_cons_normal hk]
        simp [projList, proj_allF_normal hk, forestEqv, canon.canonList]
      | cons j bs ihb =>
        have vj := vb j List.mem_cons_self
        have vb' : ∀ x ∈ bs, x.valid = true := fun x hx => vb x (List.mem_cons_of_mem _ hx)
        by_cases hj : j.value.isNormal = true
        · have hkj := ih k List.mem_cons_self j vk vj hk hj
          have hrest := iha bs ih' va' vb'
          rw [canonList_cons_normal hk, canonList_cons_normal hj]
          rw [proj_allF_normal hk, proj_allF_normal hj] at hkj
          simp only [projList, proj_allF_normal hk, proj_allF_normal hj, List.cons_append, List.nil_append,
            forestEqv, Bool.and_eq_true, List.cons.injEq]
          simp only [forestEqv, Bool.and_true] at hkj
          rw [hkj, hrest]
        · have hb := ihb vb'
          rw [canonList_cons_abnormal hj]
          refine Iff.trans ?_ hb
          simp [projList, proj_allF_abnormal vj hj]
    · rw [canonList_cons_abnormal hk, ← iha bs ih' va' vb]
      simp [projList, proj_allF_abnormal vk hk]

/-- On valid trees with normal roots: structural equality of the unfiltered forests is equality
    of canonical forms. -/
theorem deepIffCanon (t : Tree) : DeepIffCanon t := by
  induction t using Tree.induct_mem with
  | h v ks ih =>
    intro j vk vj nk nj
    obtain ⟨w, js⟩ := j
    obtain ⟨oa, na, _, va⟩ := valid_node vk
    obtain ⟨ob, nb, _, vb⟩ := valid_node vj
    have hv := compareValue_strEq_iff (a := .node v ks) (b := .node w js) oa ob na nb
    have hl := forestEqv_projList_iff ks js ih va vb
    rw [proj_allF_normal nk, proj_allF_normal nj]
    simp only [forestEqv, nodeEqv, Bool.and_true, Bool.and_eq_true, Tree.kids, canon, Canon.node.injEq]
    simp only [Tree.value, Tree.kids] at hv
    rw [hv, hl]

/-! ### Every node kind -/

theorem cvalue_isNormal_eq {v w : Value} {ks js : List Tree} (h : cvalue v ks = cvalue w js) :
    v.isNormal = w.isNormal := by
  cases v <;> cases w <;> simp [cvalue, Value.isNormal, Value.category] at h ⊢

theorem kids_nil_of_abnormal {t : Tree} (hv : t.valid = true) (h : ¬ t.value.isNormal = true) : t.kids = [] := by
  obtain ⟨v, ks⟩ := t
  obtain ⟨_, _, hl, _⟩ := valid_node hv
  rcases hl with hl | hl
  · exact absurd hl h
  · exact hl

/-- On valid trees, when one of the nodes is an attribute / namespace node, equality of the
    canonical forms is equality of the canonical values (such nodes are leaves). -/
theorem canon_eq_iff_cvalue_of_abnormal {a b : Tree} (va : a.valid = true) (vb : b.valid = true)
    (h : ¬ a.value.isNormal = true ∨ ¬ b.value.isNormal = true) :
    canon a = canon b ↔ cvalue a.value a.kids = cvalue b.value b.kids := by
  obtain ⟨v, ks⟩ := a
  obtain ⟨w, js⟩ := b
  simp only [canon, Canon.node.injEq, Tree.value, Tree.kids]
  constructor
  · exact fun h => h.1
  · intro hc
    refine ⟨hc, ?_⟩
    have hn := cvalue_isNormal_eq hc
    simp only [Tree.value] at h
    have ha : ¬ v.isNormal = true := by rcases h with h | h; exact h; rw [hn]; exact h
    have hb : ¬ w.isNormal = true := by rw [← hn]; exact ha
    have e1 := kids_nil_of_abnormal va (by simpa [Tree.value] using ha)
    have e2 := kids_nil_of_abnormal vb (by simpa [Tree.value] using hb)
    simp only [Tree.kids] at e1 e2
    subst e1 e2; rfl

/-- `deep_equal` on any two nodes of valid trees holds exactly when the canonical forms agree. -/
theorem deepEqual_iff_canon (a b : Tree) (va : a.valid = true) (vb : b.valid = true) :
    deepEqual a b = true ↔ canon a = canon b := by
  unfold deepEqual
  by_cases h : a.value.isNormal = true ∧ b.value.isNormal = true
  · rw [advancedDeepEqual_eq _ _ _ _ h.1 h.2]
    exact deepIffCanon a b va vb h.1 h.2
  · have h' : ¬ a.value.isNormal = true ∨ ¬ b.value.isNormal = true := by
      by_cases ha : a.value.isNormal = true
      · exact Or.inr (fun hb => h ⟨ha, hb⟩)
      · exact Or.inl ha
    rw [advancedDeepEqual_abnormal _ _ _ _ h', canon_eq_iff_cvalue_of_abnormal va vb h']
    obtain ⟨oa, na, _, _⟩ := valid_node (v := a.value) (ks := a.kids) (by cases a; exact va)
    obtain ⟨ob, nb, _, _⟩ := valid_node (v := b.value) (ks := b.kids) (by cases b; exact vb)
    exact compareValue_strEq_iff oa ob na nb

end XotModel
