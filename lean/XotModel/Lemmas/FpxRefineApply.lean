/-
  FpxRefine, part 4: the calls of `create_missing_prefixes_for_element` (`planCalls`: the new prefix
  declarations on the element itself, then `xmlns=""` on every recorded `undeclare` node, paths turned
  into handles), given to `eraseWith`, are the tree-level `applyRepair` (Model/Repair.lean) of the
  erased subtree.  Needs: distinct handles (a path is determined by the handle found there), every
  recorded path names an element of the tree, no path recorded twice (`undOf_nodup`).
-/
import XotModel.Lemmas.FpxRefineRun

namespace XotModel
open HTree

namespace Repair

mutual
/-- No node is recorded twice in `undeclare_nodes`. -/
theorem undOf_nodup (nsOf : Nat → Nat) : ∀ (t : Tree) (top : List (Nat × Nat)) (pre : Path),
    (undOf nsOf top pre t).Nodup
  | .node v ks, top, pre => by
    by_cases hv : v.isElement = true
    · cases v <;> simp [Value.isElement] at hv
      rename_i name
      rw [undOf_element]
      refine List.nodup_append.mpr ⟨by split <;> simp, undOfKids_nodup nsOf ks _ pre 0, ?_⟩
      intro a ha b hb hab
      split at ha
      · simp only [List.mem_singleton] at ha
        subst ha; subst hab
        obtain ⟨j, _, hj⟩ := undOfKids_prefix nsOf ks _ a 0 a hb
        exact snoc_not_prefix_self _ _ hj
      · cases ha
    · rw [undOf_other nsOf top pre v ks (by simpa using hv)]
      exact undOfKids_nodup nsOf ks top pre 0
theorem undOfKids_nodup (nsOf : Nat → Nat) : ∀ (ks : List Tree) (top : List (Nat × Nat)) (pre : Path) (i : Nat),
    (undOfKids nsOf top pre i ks).Nodup
  | [], top, pre, i => by simp [undOfKids, collectKids]
  | k :: ks, top, pre, i => by
    rw [undOfKids_cons]
    refine List.nodup_append.mpr ⟨undOf_nodup nsOf k top _, undOfKids_nodup nsOf ks top pre (i + 1), ?_⟩
    intro a ha b hb hab
    subst hab
    have h1 := undOf_prefix nsOf k top _ a ha
    obtain ⟨j, hj, h2⟩ := undOfKids_prefix nsOf ks top pre (i + 1) a hb
    have := prefix_snoc_inj h1 h2
    omega
end

end Repair

namespace HTree

theorem at?_snoc' : ∀ (q : Path) (r x : HTree) (i : Nat), r.at? q = some x → r.at? (q ++ [i]) = x.kids[i]?.bind some
  | [], r, x, i, h => by
    simp only [HTree.at?, Option.some.injEq] at h
    subst h
    cases r with
    | node a b c =>
      simp only [List.nil_append, HTree.at?, HTree.kids]
      cases c[i]? <;> rfl
  | j :: q, .node a b c, x, i, h => by
    simp only [List.cons_append, HTree.at?] at h ⊢
    cases hc : c[j]? with
    | none => rw [hc] at h; cases h
    | some cj => rw [hc] at h; exact at?_snoc' q cj x i h

theorem at?_child {r x k : HTree} {q : Path} {i : Nat} (h : r.at? q = some x) (hk : x.kids[i]? = some k) :
    r.at? (q ++ [i]) = some k := by
  rw [at?_snoc' q r x i h, hk]; rfl

/-- With distinct handles, the path of a node is determined by its handle. -/
theorem at?_handle_inj {r : HTree} (hnd : (handles r).Nodup) {p q : Path} {s s' : HTree}
    (hp : r.at? p = some s) (hq : r.at? q = some s') (h : s.handle = s'.handle) : p = q := by
  have h1 := ftrav_pathOf_of_at? p r s hnd hp
  have h2 := ftrav_pathOf_of_at? q r s' hnd hq
  rw [h] at h1; rw [h1] at h2; exact Option.some.inj h2

/-- The insertions of `create_missing_prefixes_for_element`, addressed by handle: the new declarations
    on `nd`, then `xmlns=""` on the node at every recorded path. -/
def planCalls (r : HTree) (top : Nat) (newDecls : List (Nat × Nat)) (U : List Path) : List (Nat × Nat × Nat) :=
  newDecls.map (fun d => (top, d)) ++
    U.filterMap (fun up => (r.handleAt up).map (fun h => (h, (Env.emptyPrefix, Env.noNamespace))))

/-- What the correspondence needs of the plan. -/
structure PlanOK (r : HTree) (nd : Nat) (top : Path) (U : List Path) : Prop where
  nodup : (handles r).Nodup
  topAt : ∃ T, r.at? top = some T ∧ T.handle = nd ∧ T.value.isElement = true
  uElem : ∀ up ∈ U, ∃ s, r.at? up = some s ∧ s.value.isElement = true
  uNodup : U.Nodup

theorem filterMap_plan {r : HTree} (hnd : (handles r).Nodup) {cur : Path} {x : HTree} (hx : r.at? cur = some x)
    (d : Nat × Nat) : ∀ U : List Path, (∀ up ∈ U, ∃ s, r.at? up = some s) → U.Nodup →
      (((U.filterMap (fun up => (r.handleAt up).map (fun h => (h, d)))).filter
        (fun c => c.1 == x.handle)).map (·.2)) = if U.contains cur then [d] else []
  | [], _, _ => rfl
  | up :: U, hU, hn => by
    obtain ⟨s, hs⟩ := hU up (by simp)
    have hh : r.handleAt up = some s.handle := by rw [ftrav_handleAt_eq, hs]; rfl
    have ih := filterMap_plan hnd hx d U (fun u hu => hU u (by simp [hu])) (List.nodup_cons.mp hn).2
    by_cases hc : up = cur
    · subst hc
      have : s = x := by rw [hs] at hx; exact Option.some.inj hx
      subst this
      have hnot : U.contains up = false := by
        simpa using (List.nodup_cons.mp hn).1
      rw [hnot] at ih
      simp only [List.filterMap_cons, hh, Option.map_some, List.filter_cons, beq_self_eq_true, if_true,
        List.map_cons, ih, List.contains_cons, Bool.true_or]
      rfl
    · have hne : (s.handle == x.handle) = false := by
        have : s.handle ≠ x.handle := fun e => hc (at?_handle_inj hnd hs hx e)
        simpa using this
      have hcu : (cur == up) = false := by simpa using fun e : cur = up => hc e.symm
      simp only [List.filterMap_cons, hh, Option.map_some, List.filter_cons, hne, Bool.false_eq_true,
        if_false, ih, List.contains_cons, hcu, Bool.false_or]

/-- The insertions a node at `cur` takes from the plan. -/
theorem declsFor_plan {r : HTree} {nd : Nat} {top : Path} {U : List Path} (ok : PlanOK r nd top U)
    (newDecls : List (Nat × Nat)) {cur : Path} {x : HTree} (hx : r.at? cur = some x) :
    declsFor (planCalls r nd newDecls U) x.handle x.value =
      (if cur == top then newDecls else []) ++
        (if U.contains cur then [(Env.emptyPrefix, Env.noNamespace)] else []) := by
  obtain ⟨T, hT, hTh, hTe⟩ := ok.topAt
  have hA : (((newDecls.map (fun d => (nd, d))).filter (fun c => c.1 == x.handle)).map (·.2)) =
      if cur == top then newDecls else [] := by
    by_cases hc : cur = top
    · subst hc
      have : x = T := by rw [hx] at hT; exact Option.some.inj hT
      subst this
      have : List.filter (fun c => c.1 == x.handle) (newDecls.map (fun d => (nd, d))) =
          newDecls.map (fun d => (nd, d)) :=
        List.filter_eq_self.mpr (fun c hc => by
          obtain ⟨d, _, rfl⟩ := List.mem_map.mp hc
          simp [hTh])
      rw [this, List.map_map]
      have : ((fun c : Nat × Nat × Nat => c.2) ∘ fun d : Nat × Nat => (nd, d)) = id := rfl
      simp [this]
    · have hne : nd ≠ x.handle := fun e => hc (at?_handle_inj ok.nodup hx hT (by rw [hTh]; exact e.symm))
      have : List.filter (fun c => c.1 == x.handle) (newDecls.map (fun d => (nd, d))) = [] :=
        List.filter_eq_nil_iff.mpr (fun c hc => by
          obtain ⟨d, _, rfl⟩ := List.mem_map.mp hc
          simpa using hne)
      rw [this]
      have : (cur == top) = false := by simpa using hc
      simp [this]
  have hB := filterMap_plan ok.nodup hx (Env.emptyPrefix, Env.noNamespace) U
    (fun up hu => (ok.uElem up hu).imp (fun _ h => h.1)) ok.uNodup
  unfold declsFor planCalls
  rw [List.filter_append, List.map_append, hA, hB]
  by_cases hv : x.value.isElement = true
  · rw [if_pos hv]
  · rw [if_neg hv]
    have h1 : (cur == top) = false := by
      cases hc : cur == top with
      | false => rfl
      | true =>
        have : cur = top := by simpa using hc
        subst this
        have : x = T := by rw [hx] at hT; exact Option.some.inj hT
        subst this
        exact absurd hTe hv
    have h2 : U.contains cur = false := by
      cases hc : U.contains cur with
      | false => rfl
      | true =>
        obtain ⟨s, hs, hse⟩ := ok.uElem cur (by simpa using hc)
        have : s = x := by rw [hs] at hx; exact Option.some.inj hx
        subst this
        exact absurd hse hv
    rw [h1, h2]
    rfl

mutual
  /-- **The plan, erased, is `applyRepair`.** -/
  theorem eraseWith_plan {r : HTree} {nd : Nat} {top : Path} {U : List Path} (ok : PlanOK r nd top U)
      (newDecls : List (Nat × Nat)) : ∀ (x : HTree) (cur : Path), r.at? cur = some x →
      eraseWith (planCalls r nd newDecls U) x = applyRepair newDecls U top cur x.erase
    | .node h v ks, cur, hx => by
      have hd := declsFor_plan ok newDecls hx
      simp only [HTree.handle, HTree.value] at hd
      have hk := eraseWithList_plan ok newDecls ks cur 0 (fun j k hjk => at?_child hx (by simpa using hjk))
      simp only [eraseWith, erase, applyRepair, hd, insertNamespaces_append, hk]
      cases cur == top <;> cases U.contains cur <;>
        simp [insertNamespaces_nil, insertNamespaces_cons]
  theorem eraseWithList_plan {r : HTree} {nd : Nat} {top : Path} {U : List Path} (ok : PlanOK r nd top U)
      (newDecls : List (Nat × Nat)) : ∀ (ks : List HTree) (cur : Path) (i : Nat),
      (∀ j k, ks[j]? = some k → r.at? (cur ++ [i + j]) = some k) →
      eraseWithList (planCalls r nd newDecls U) ks = applyRepair.applyKids newDecls U top cur i (eraseList ks)
    | [], _, _, _ => rfl
    | k :: ks, cur, i, h => by
      simp only [eraseWithList, eraseList, applyRepair.applyKids]
      rw [eraseWith_plan ok newDecls k (cur ++ [i]) (h 0 k rfl),
        eraseWithList_plan ok newDecls ks cur (i + 1) (fun j k' hj => by
          have := h (j + 1) k' (by simpa using hj)
          rwa [show i + (j + 1) = i + 1 + j by omega] at this)]
end

end HTree
end XotModel
