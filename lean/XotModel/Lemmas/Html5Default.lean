/-
  C19_embedded, element step: the default binding of the name stack agrees with the default
  namespace the written start tags declare (`DefaultInv`), through one element's start tag,
  declarations, children and end tag.
-/
import XotModel.Lemmas.Html5Stack
import XotModel.Lemmas.Html5Embedded

namespace XotModel
open Gen

/-- Every (non-XML) default binding of the top frame is the default namespace in force in the
    output. -/
def DefaultInv (s : FStack) (d : Nat) : Prop :=
  ∀ Y, Y ≠ Env.xmlNamespace → (Env.emptyPrefix, Y) ∈ s.top → d = Y

/-- Local names and prefixes hold no space (they are NCNames in any sound vocabulary). -/
def NoSpaces (env : Env) : Prop := (∀ n, ' ' ∉ env.localName n) ∧ (∀ p, ' ' ∉ env.prefixStr p)

/-- The declaration and attribute events between `<name` and `>`. -/
def declEvents (inScope : List (Nat × Nat)) (isTop : Bool) (path : Path) (n : Tree) : List (Path × Output) :=
  (if isTop then extraPrefixes inScope n else []).map (fun o => (path, o))
    ++ n.nsDecls.map (fun d => (path, Output.pfx d.1 d.2))
    ++ n.attrs.map (fun a => (path, Output.attribute a.1 a.2))

theorem genNode_element_shape (inScope : List (Nat × Nat)) (isTop : Bool) (path : Path) (name : Nat)
    (ks : List Tree) :
    genNode inScope isTop path (.node (.element name) ks) =
      (path, Output.startTagOpen name) ::
        (declEvents inScope isTop path (.node (.element name) ks)
          ++ ((path, Output.startTagClose) :: (genNode.genKids inScope path 0 ks ++ [(path, Output.endTag name)]))) := by
  rw [genNode_element]
  simp [declEvents, List.append_assoc]

/-- `pfx` or `attribute`. -/
def Output.isDecl : Output → Bool
  | .pfx _ _ => true
  | .attribute _ _ => true
  | _ => false

theorem declEvents_isDecl (inScope : List (Nat × Nat)) (isTop : Bool) (path : Path) (n : Tree) :
    ∀ po ∈ declEvents inScope isTop path n, po.1 = path ∧ po.2.isDecl = true := by
  intro po hpo
  simp only [declEvents, List.mem_append, List.mem_map] at hpo
  rcases hpo with (⟨o, ho, rfl⟩ | ⟨d, _, rfl⟩) | ⟨a, _, rfl⟩
  · split at ho
    · simp only [extraPrefixes, List.mem_map] at ho
      obtain ⟨d, _, rfl⟩ := ho; exact ⟨rfl, rfl⟩
    · simp at ho
  · exact ⟨rfl, rfl⟩
  · exact ⟨rfl, rfl⟩

/-- A `pfx` event among the declaration events of a non-top element is one of its own
    declarations. -/
theorem declEvents_pfx_own (inScope : List (Nat × Nat)) (path : Path) (n : Tree) (p ns : Nat)
    (h : (path, Output.pfx p ns) ∈ declEvents inScope false path n) : (p, ns) ∈ n.nsDecls := by
  simp only [declEvents, Bool.false_eq_true, if_false, List.map_nil, List.nil_append, List.mem_append,
    List.mem_map, Prod.mk.injEq, Output.pfx.injEq] at h
  rcases h with ⟨d, hd, _, rfl, rfl⟩ | ⟨a, _, _, ha⟩
  · exact hd
  · cases ha

theorem declEvents_own (inScope : List (Nat × Nat)) (isTop : Bool) (path : Path) (n : Tree) (p ns : Nat)
    (h : (p, ns) ∈ n.nsDecls) : (path, Output.pfx p ns) ∈ declEvents inScope isTop path n := by
  simp only [declEvents, List.mem_append, List.mem_map]
  exact Or.inl (Or.inr ⟨(p, ns), h, rfl⟩)

/-- The default namespace in force after the declaration events of an element in namespace `X`
    whose start tag began with default `d`: a written `xmlns="…"` is one for `X`. -/
def midDefault (X : Nat) : Nat → List (Path × Output) → Nat
  | d, [] => d
  | d, (_, o) :: rest =>
    match o with
    | .pfx p ns =>
      midDefault X (if p == Env.emptyPrefix && ns == X && X != Env.xmlNamespace then X else d) rest
    | _ => midDefault X d rest

theorem midDefault_self (X : Nat) (evs : List (Path × Output)) : midDefault X X evs = X := by
  induction evs with
  | nil => rfl
  | cons e evs ih =>
    obtain ⟨q, o⟩ := e
    cases o <;> simp only [midDefault, ih]
    split <;> exact ih

theorem midDefault_of_mem (X d : Nat) (path : Path) (evs : List (Path × Output)) (hx : X ≠ Env.xmlNamespace)
    (h : (path, Output.pfx Env.emptyPrefix X) ∈ evs) : midDefault X d evs = X := by
  induction evs generalizing d with
  | nil => simp at h
  | cons e evs ih =>
    obtain ⟨q, o⟩ := e
    rcases List.mem_cons.mp h with he | ht
    · simp only [Prod.mk.injEq] at he
      obtain ⟨rfl, rfl⟩ := he
      have : (X != Env.xmlNamespace) = true := by simpa using hx
      simp only [midDefault, beq_self_eq_true, this, Bool.and_self, if_true]
      exact midDefault_self X evs
    · clear h
      cases o <;> simp only [midDefault] <;> exact ih _ ht

theorem midDefault_of_not_mem (X d : Nat) (path : Path) (evs : List (Path × Output))
    (hp : ∀ po ∈ evs, po.1 = path)
    (h : ¬ (X ≠ Env.xmlNamespace ∧ (path, Output.pfx Env.emptyPrefix X) ∈ evs)) : midDefault X d evs = d := by
  induction evs generalizing d with
  | nil => rfl
  | cons e evs ih =>
    obtain ⟨q, o⟩ := e
    have hq : q = path := hp (q, o) (by simp)
    subst hq
    have hrest : ¬ (X ≠ Env.xmlNamespace ∧ (q, Output.pfx Env.emptyPrefix X) ∈ evs) :=
      fun hh => h ⟨hh.1, List.mem_cons_of_mem _ hh.2⟩
    have hp' : ∀ po ∈ evs, po.1 = q := fun po hpo => hp po (List.mem_cons_of_mem _ hpo)
    cases o with
    | pfx p ns =>
      simp only [midDefault]
      split
      · rename_i hc
        simp only [Bool.and_eq_true, beq_iff_eq, bne_iff_ne] at hc
        obtain ⟨⟨rfl, rfl⟩, hx⟩ := hc
        exact absurd ⟨hx, by simp⟩ h
      · exact ih _ hp' hrest
    | _ => simp only [midDefault]; exact ih _ hp' hrest

/-- One `Prefix` token on an element node: it is non-empty for the empty prefix exactly when the
    declared namespace is the element's own (and not the XML namespace). -/
theorem pfx_token {c : HtmlCtx} {S S' : HState} {node : Tree} {parent : Option Tree} {p ns name : Nat}
    {tok : OutputToken} (hv : node.value = .element name)
    (h : renderHtml c S node parent (.pfx p ns) = .ok (S', tok)) :
    (p == Env.emptyPrefix && !tok.text.isEmpty) =
      (p == Env.emptyPrefix && ns == c.env.nsOfName name && c.env.nsOfName name != Env.xmlNamespace) := by
  simp only [renderHtml, hv] at h
  by_cases hp : p = Env.emptyPrefix
  · subst hp
    simp only [beq_self_eq_true, Bool.true_and]
    split at h
    · rename_i hh
      simp only [Outcome.ok.injEq, Prod.mk.injEq] at h
      obtain ⟨_, rfl⟩ := h
      simp only [htmlPrefixHidden, beq_self_eq_true, Bool.true_and, bne_self_eq_false, Bool.false_and,
        Bool.or_false, Bool.or_eq_true, beq_iff_eq, bne_iff_ne] at hh
      simp only [litHtmlNoPrefix, List.isEmpty_nil, Bool.not_true]
      symm
      rw [Bool.and_eq_false_iff]
      rcases hh with hh | hh
      · by_cases he : ns = c.env.nsOfName name
        · right; subst he; simp [hh]
        · left; simpa using he
      · left; simpa using fun e => hh e.symm
    · rename_i hh
      simp only [htmlPrefixHidden, beq_self_eq_true, Bool.true_and, bne_self_eq_false, Bool.false_and,
        Bool.or_false, Bool.or_eq_true, beq_iff_eq, bne_iff_ne, not_or, Decidable.not_not] at hh
      obtain ⟨h1, h2⟩ := hh
      simp only [beq_self_eq_true, if_true, Outcome.ok.injEq, Prod.mk.injEq] at h
      obtain ⟨_, rfl⟩ := h
      have h3 : (ns == c.env.nsOfName name) = true := by simpa using h2.symm
      have h4 : (c.env.nsOfName name != Env.xmlNamespace) = true := by
        rw [h2]; simpa using h1
      simp [h3, h4, fmt, fmtHtmlXmlnsDefault]
  · have : (p == Env.emptyPrefix) = false := by simpa using hp
    simp [this]

/-- Running the declaration events of an element in namespace `X`: the state does not change and
    the replay ends with `midDefault` as the default in force. -/
theorem run_declEvents {c : HtmlCtx} {t : Tree} {path : Path} {node : Tree} {name : Nat}
    (hat : t.at? path = some node) (hv : node.value = .element name) (evs : List (Path × Output)) :
    ∀ {S S' : HState} {l : List (Path × Output × OutputToken)} (d : Nat) (st : List (Nat × Nat)),
      (∀ po ∈ evs, po.1 = path ∧ po.2.isDecl = true) → runHtml c t S evs = some (S', l) →
      S' = S ∧ embeddedReplay c ((c.env.nsOfName name, d) :: st) l =
          some ((c.env.nsOfName name, midDefault (c.env.nsOfName name) d evs) :: st) ∧ EndTagsBare c l := by
  induction evs with
  | nil =>
    intro S S' l d st _ h
    simp only [runHtml, Option.some.injEq, Prod.mk.injEq] at h
    obtain ⟨rfl, rfl⟩ := h
    exact ⟨rfl, rfl, EndTagsBare.nil c⟩
  | cons e evs ih =>
    intro S S' l d st hall h
    obtain ⟨q, o⟩ := e
    obtain ⟨hq, ho⟩ := hall (q, o) (by simp)
    simp only at hq ho
    subst hq
    obtain ⟨S1, tok, l', hr, hrest, rfl⟩ := runHtml_cons_some h
    simp only [renderHtmlAt, hat] at hr
    have hall' : ∀ po ∈ evs, po.1 = q ∧ po.2.isDecl = true := fun po hpo => hall po (List.mem_cons_of_mem _ hpo)
    cases o with
    | pfx p ns =>
      have hS : S1 = S := renderHtml_static rfl hr
      subst hS
      have htok := pfx_token hv hr
      obtain ⟨rfl, hrep, hb⟩ := ih (if p == Env.emptyPrefix && ns == c.env.nsOfName name
        && c.env.nsOfName name != Env.xmlNamespace then c.env.nsOfName name else d) st hall' hrest
      refine ⟨rfl, ?_, ?_⟩
      · by_cases hc : (p == Env.emptyPrefix && ns == c.env.nsOfName name
            && c.env.nsOfName name != Env.xmlNamespace) = true
        · rw [if_pos hc] at hrep
          have hns : ns = c.env.nsOfName name := by
            simp only [Bool.and_eq_true, beq_iff_eq] at hc
            exact hc.1.2
          simp only [embeddedReplay, midDefault, htok, hc, if_true]
          rw [hns]; exact hrep
        · rw [if_neg hc] at hrep
          simp only [embeddedReplay, midDefault, htok, hc, if_false]
          exact hrep
      · intro k hk nm hnm
        rcases List.mem_cons.mp hk with rfl | hk
        · cases hnm
        · exact hb k hk nm hnm
    | «attribute» an av =>
      have hS : S1 = S := renderHtml_static rfl hr
      subst hS
      obtain ⟨rfl, hrep, hb⟩ := ih d st hall' hrest
      refine ⟨rfl, by simpa only [embeddedReplay, midDefault] using hrep, ?_⟩
      intro k hk nm hnm
      rcases List.mem_cons.mp hk with rfl | hk
      · cases hnm
      · exact hb k hk nm hnm
    | _ => cases ho

end XotModel
