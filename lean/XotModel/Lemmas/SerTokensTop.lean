/-
  `serialize_xml_string` / `to_string` as the rendering of `serTokensAt` / `serTokensTop`:
  the entry points, and where the initial stack's bindings come from.
-/
import XotModel.Lemmas.SerTokensMain

namespace XotModel
open Gen

variable (env : Env) (pr : TokenParams) (t : Tree)

/-! ### Origin of the in-scope bindings -/

theorem traverseDecls_subset (seen : List Nat) (ds : List (Nat × Nat)) :
    ∀ d ∈ (traverseDecls seen ds).2, d ∈ ds := by
  induction ds generalizing seen with
  | nil => simp [traverseDecls]
  | cons d ds ih =>
    obtain ⟨p, n⟩ := d
    by_cases hs : seen.contains p = true
    · rw [traverseDecls_cons_seen seen p n ds hs]
      intro d hd
      exact List.mem_cons_of_mem _ (ih seen d hd)
    · rw [traverseDecls_cons_new seen p n ds hs]
      intro d hd
      simp only [] at hd
      split at hd
      · exact List.mem_cons_of_mem _ (ih _ d hd)
      · rcases List.mem_cons.mp hd with rfl | hd
        · simp
        · exact List.mem_cons_of_mem _ (ih _ d hd)

theorem traverseChain_subset (seen : List Nat) (chain : List Tree) :
    ∀ d ∈ (traverseChain seen chain).2, ∃ a ∈ chain, d ∈ a.nsDecls := by
  induction chain generalizing seen with
  | nil => simp [traverseChain]
  | cons a rest ih =>
    unfold traverseChain
    simp only []
    intro d hd
    rcases List.mem_append.mp hd with hd | hd
    · exact ⟨a, by simp, traverseDecls_subset _ _ d hd⟩
    · obtain ⟨b, hb, hdb⟩ := ih _ d hd
      exact ⟨b, by simp [hb], hdb⟩

/-- A binding in scope at a node is the `xml` binding or declared by an ancestor-or-self. -/
theorem namespacesInScopeChain_origin (chain : List Tree) :
    ∀ d ∈ namespacesInScopeChain chain, d ∈ basePrefixes ∨ ∃ a ∈ chain, d ∈ a.nsDecls := by
  unfold namespacesInScopeChain
  simp only []
  intro d hd
  rcases List.mem_append.mp hd with hd | hd
  · exact Or.inr (traverseChain_subset [] chain d hd)
  · exact Or.inl (List.mem_filter.mp hd).1

/-- Every tree of the ancestor-or-self chain is a subtree: a per-node condition carries over. -/
theorem ancestorsOrSelf_allNodes (p : Value → List Tree → Bool) :
    ∀ (t : Tree) (path : Path) (chain : List Tree), t.ancestorsOrSelf path = some chain →
      t.allNodes p = true → ∀ a ∈ chain, a.allNodes p = true
  | t, [], chain, h, ht, a, ha => by
    simp only [Tree.ancestorsOrSelf, Option.some.injEq] at h
    subst h
    simp only [List.mem_singleton] at ha
    subst ha
    exact ht
  | .node v ks, i :: path, chain, h, ht, a, ha => by
    simp only [Tree.ancestorsOrSelf, Tree.kids] at h
    cases hk : ks[i]? with
    | none => simp [hk] at h
    | some k =>
      simp only [hk] at h
      cases hc : Tree.ancestorsOrSelf k path with
      | none => simp [hc] at h
      | some chain' =>
        simp only [hc, Option.map_some, Option.some.injEq] at h
        subst h
        rcases List.mem_append.mp ha with ha | ha
        · have hkt : k.allNodes p = true := by
            rw [allNodes_node, Bool.and_eq_true, List.all_eq_true] at ht
            exact ht.2 k (List.mem_of_getElem? hk)
          exact ancestorsOrSelf_allNodes p k path chain' hc hkt a ha
        · simp only [List.mem_singleton] at ha
          subst ha
          exact ht

theorem subtree_allNodes (p : Value → List Tree → Bool) :
    ∀ (t : Tree) (path : Path) (n : Tree), t.at? path = some n → t.allNodes p = true →
      n.allNodes p = true
  | t, [], n, h, ht => by
    simp only [Tree.at?, Option.some.injEq] at h
    subst h
    exact ht
  | .node v ks, i :: path, n, h, ht => by
    rw [at?_cons] at h
    cases hk : ks[i]? with
    | none => simp [hk] at h
    | some k =>
      simp only [hk, Option.bind_some] at h
      have hkt : k.allNodes p = true := by
        rw [allNodes_node, Bool.and_eq_true, List.all_eq_true] at ht
        exact ht.2 k (List.mem_of_getElem? hk)
      exact subtree_allNodes p k path n h hkt

/-- The stack `XmlSerializer::new` builds binds only prefixes with a spelling when `xml` has one
    and every declaration of the tree does. -/
theorem named_initStack (start : Path) (hx : env.prefixStr Env.xmlPrefix ≠ [])
    (ht : t.allNodes (declsNamed env) = true) : Named env (initStack t start) := by
  refine ⟨hx, ?_⟩
  unfold initStack namespacesInScope
  cases hc : t.ancestorsOrSelf start with
  | none => simp [FStack.new, FStack.top]
  | some chain =>
    simp only [Option.map_some, Option.getD_some, FStack.new, FStack.top, List.headD_cons]
    intro d hd hne
    rcases namespacesInScopeChain_origin chain d hd with h | ⟨a, ha, hda⟩
    · simp only [basePrefixes, List.mem_singleton] at h
      subst h
      exact hx
    · have h1 := ancestorsOrSelf_allNodes (declsNamed env) t start chain hc ht a ha
      cases a with
      | node v ks =>
        rw [allNodes_node, Bool.and_eq_true] at h1
        have h2 := h1.1
        simp only [declsNamed, List.all_eq_true] at h2
        have := h2 d hda
        simp only [Bool.or_eq_true, beq_iff_eq, Bool.not_eq_true', List.isEmpty_eq_false_iff] at this
        rcases this with h3 | h3
        · exact absurd h3 hne
        · exact h3

/-! ### The entry points -/

/-- `serialize_xml_string` with token parameters without CDATA-section elements: the string is the
    canonical rendering of `serTokensAt`, and the two fail together with the same error. -/
theorem serializeString_serTokensAt (hcd : pr.cdataSectionElements = []) (start : Path)
    (hx : env.prefixStr Env.xmlPrefix ≠ []) (ht : t.allNodes (declsNamed env) = true) :
    serializeStringWith xmlEscapers env pr t start =
      (match serTokensAt env pr.unescapedGt t start with
       | .ok ts => .ok (renderTokens ts)
       | .error e => .err e) := by
  rw [serializeString_runEvents]
  have hs := named_initStack env t start hx ht
  unfold genOutputs serTokensAt
  cases hn : t.at? start with
  | none => simp [runEvents, renderTokens]
  | some n =>
    cases hsc : namespacesInScope t start with
    | none => simp [runEvents, renderTokens]
    | some inScope =>
      simp only []
      have hinit : initStack t start = FStack.new inScope := by simp [initStack, hsc]
      rw [hinit] at hs ⊢
      rw [runEvents_node env pr t hcd inScope true start n _ hn hs
        (subtree_allNodes _ t start n hn ht)]
      cases serNode env pr.unescapedGt inScope true (FStack.new inScope) n <;> rfl

/-- `Xot::to_string(root)`. -/
theorem toXmlString_serTokensTop (hx : env.prefixStr Env.xmlPrefix ≠ [])
    (ht : t.allNodes (declsNamed env) = true) :
    toXmlString env t [] =
      (match serTokensTop env t with
       | .ok ts => .ok (renderTokens ts)
       | .error e => .err e) :=
  serializeString_serTokensAt env {} t rfl [] hx ht

end XotModel
