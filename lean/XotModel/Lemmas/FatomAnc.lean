/-
  C06 lemmas: the ancestor chain and subtrees.  A node of the subtree at `a` has `a` among its
  ancestors; chains are suffix-closed, hence transitive and acyclic.
-/
import XotModel.Lemmas.FatomCut

namespace XotModel
open HTree

theorem ancestorsOf_last (x : Nat) : ∀ (T : HTree) (l : List Nat), ancestorsOf x T = some l →
    T.handle ∈ l
  | .node h v ks, l => by
    unfold ancestorsOf
    by_cases hh : h = x
    · simp only [hh, if_true, Option.some.injEq]; intro e; subst e; simp [HTree.handle]
    · simp only [hh, if_false]
      cases ancestorsOfList x ks with
      | none => simp
      | some l' => simp only [Option.some.injEq]; intro e; subst e; simp [HTree.handle]

mutual
  theorem ancestorsOf_mem_of_find (a x : Nat) : ∀ (T t : HTree) (l : List Nat), (handles T).Nodup →
      find? a T = some t → x ∈ handles t → ancestorsOf x T = some l → a ∈ l
    | .node h v ks, t, l => by
      intro hn hf hx hl
      unfold handles at hn
      have hn' := List.nodup_cons.1 hn
      unfold find? at hf
      by_cases hh : h = a
      · subst hh
        exact ancestorsOf_last x _ l hl
      · simp only [hh, if_false] at hf
        have hxk : x ∈ handlesList ks := findList?_handles_sub a ks t hf x hx
        have hne : ¬ h = x := fun e => hn'.1 (e ▸ hxk)
        unfold ancestorsOf at hl
        simp only [hne, if_false] at hl
        cases hal : ancestorsOfList x ks with
        | none => rw [hal] at hl; cases hl
        | some l' =>
          rw [hal] at hl
          simp only [Option.some.injEq] at hl
          subst hl
          exact List.mem_append_left _ (ancestorsOfList_mem_of_find a x ks t l' hn'.2 hf hx hal)
  theorem ancestorsOfList_mem_of_find (a x : Nat) : ∀ (ks : List HTree) (t : HTree) (l : List Nat),
      (handlesList ks).Nodup → findList? a ks = some t → x ∈ handles t →
      ancestorsOfList x ks = some l → a ∈ l
    | [], t, l => by simp [findList?]
    | k :: ks, t, l => by
      intro hn hf hx hl
      unfold handlesList at hn
      have hna := List.nodup_append.1 hn
      unfold findList? at hf
      unfold ancestorsOfList at hl
      cases hfk : find? a k with
      | some t' =>
        rw [hfk] at hf
        simp only [Option.some.injEq] at hf
        subst hf
        have hxk : x ∈ handles k := find?_handles_sub a k t' hfk x hx
        cases hak : ancestorsOf x k with
        | none => exact absurd hxk ((ancestorsOf_none_iff _ _).1 hak)
        | some l' =>
          rw [hak] at hl
          simp only [Option.some.injEq] at hl
          subst hl
          exact ancestorsOf_mem_of_find a x k t' l' hna.1 hfk hx hak
      | none =>
        rw [hfk] at hf
        simp only at hf
        have hxk : x ∈ handlesList ks := findList?_handles_sub a ks t hf x hx
        have hnk : x ∉ handles k := fun h' => hna.2.2 _ h' _ hxk rfl
        rw [(ancestorsOf_none_iff _ _).2 hnk] at hl
        exact ancestorsOfList_mem_of_find a x ks t l hna.2.1 hf hx hl
end

theorem rootsAnc_mem_of_find (a x : Nat) : ∀ (rs : List HTree) (t : HTree) (l : List Nat),
    (handlesList rs).Nodup → findList? a rs = some t → x ∈ handles t →
    rs.findSome? (ancestorsOf x) = some l → a ∈ l
  | [], t, l => by simp [findList?]
  | k :: ks, t, l => by
    intro hn hf hx hl
    unfold handlesList at hn
    have hna := List.nodup_append.1 hn
    unfold findList? at hf
    rw [List.findSome?_cons] at hl
    cases hfk : find? a k with
    | some t' =>
      rw [hfk] at hf
      simp only [Option.some.injEq] at hf
      subst hf
      have hxk : x ∈ handles k := find?_handles_sub a k t' hfk x hx
      cases hak : ancestorsOf x k with
      | none => exact absurd hxk ((ancestorsOf_none_iff _ _).1 hak)
      | some l' =>
        rw [hak] at hl
        simp only [Option.some.injEq] at hl
        subst hl
        exact ancestorsOf_mem_of_find a x k t' l' hna.1 hfk hx hak
    | none =>
      rw [hfk] at hf
      simp only at hf
      have hxk : x ∈ handlesList ks := findList?_handles_sub a ks t hf x hx
      have hnk : x ∉ handles k := fun h' => hna.2.2 _ h' _ hxk rfl
      rw [(ancestorsOf_none_iff _ _).2 hnk] at hl
      exact rootsAnc_mem_of_find a x ks t l hna.2.1 hf hx hl

namespace Forest

/-- Every node of the subtree at `a` has `a` in its ancestor chain. -/
theorem mem_ancestors_of_subtree {f : Forest} (w : f.W) {a x : Nat} {t : HTree}
    (hg : f.get? a = some t) (hx : x ∈ handles t) : a ∈ f.ancestors x := by
  have hxl : x ∈ f.allHandles := findList?_handles_sub a f.roots t hg x hx
  unfold ancestors
  cases hl : f.roots.findSome? (ancestorsOf x) with
  | none =>
    exfalso
    have : x ∉ handlesList f.roots := by
      intro h'
      cases hp : f.parent? x with
      | none =>
        have := (rootsAnc_root x f.roots h' (by rw [← parent?_eq]; exact hp)).1
        rw [hl] at this; cases this
      | some q =>
        rw [parent?_eq] at hp
        obtain ⟨l, _, h2⟩ := rootsAnc_step x f.roots q w.nodup hp
        rw [hl] at h2; cases h2
    exact this hxl
  | some l =>
    exact rootsAnc_mem_of_find a x f.roots t l w.nodup hg hx hl

/-- Contrapositive: a node that does not have `a` among its ancestors is not in the subtree at `a`. -/
theorem not_mem_subtree {f : Forest} (w : f.W) {a x : Nat} {t : HTree}
    (hg : f.get? a = some t) (hx : a ∉ f.ancestors x) : x ∉ handles t :=
  fun h' => hx (mem_ancestors_of_subtree w hg h')

/-- Chains are suffix-closed. -/
theorem ancestors_suffix {f : Forest} (w : f.W) : ∀ (l : List Nat) (x y : Nat),
    f.ancestors x = l → y ∈ l → ∃ pre, l = pre ++ f.ancestors y
  | [], x, y, _, hy => by cases hy
  | z :: l, x, y, e, hy => by
    cases hl : f.isLive x with
    | false => rw [ancestors_dead hl] at e; cases e
    | true =>
      cases hp : f.parent? x with
      | none =>
        rw [(ancestors_root hl hp).1] at e
        injection e with e1 e2
        subst e1 e2
        simp only [List.mem_singleton] at hy
        subst hy
        exact ⟨[], by rw [(ancestors_root hl hp).1]; rfl⟩
      | some q =>
        have hs := ancestors_step w hp
        rw [hs] at e
        injection e with e1 e2
        subst e1
        rcases List.mem_cons.1 hy with h' | h'
        · subst h'; exact ⟨[], by rw [hs, e2]; rfl⟩
        · obtain ⟨pre, hpre⟩ := ancestors_suffix w l q y e2 h'
          exact ⟨x :: pre, by rw [hpre]; rfl⟩

theorem ancestors_trans {f : Forest} (w : f.W) {a y x : Nat} (h1 : a ∈ f.ancestors y)
    (h2 : y ∈ f.ancestors x) : a ∈ f.ancestors x := by
  obtain ⟨pre, hpre⟩ := ancestors_suffix w _ x y rfl h2
  rw [hpre]; exact List.mem_append_right _ h1

/-- No node is an ancestor of its own parent. -/
theorem not_mem_ancestors_parent {f : Forest} (w : f.W) {x q : Nat} (hp : f.parent? x = some q) :
    x ∉ f.ancestors q := by
  intro h'
  obtain ⟨pre, hpre⟩ := ancestors_suffix w _ q x rfl h'
  have := congrArg List.length hpre
  rw [ancestors_step w hp] at this
  simp only [List.length_append, List.length_cons] at this
  omega

/-- Cutting the subtree at `h` keeps everything about a node that does not have `h` among its
    ancestors. -/
theorem Frame.keepOutside {f f1 : Forest} {h : Nat} {t : HTree} (fr : Frame f f1 (handles t))
    (w : f.W) (w1 : f1.W) (hg : f.get? h = some t) {x : Nat} (hl : f.isLive x = true)
    (hx : h ∉ f.ancestors x) :
    x ∉ handles t ∧ f1.ancestors x = f.ancestors x ∧ f1.parent? x = f.parent? x ∧
      f1.isLive x = true := by
  have hxt := not_mem_subtree w hg hx
  refine ⟨hxt, fr.ancestors' w w1 hl ?_, fr.parent x hxt, by rw [fr.live x hxt]; exact hl⟩
  intro y hy hyt
  exact hx (ancestors_trans w (mem_ancestors_of_subtree w hg hyt) hy)

end Forest
end XotModel
