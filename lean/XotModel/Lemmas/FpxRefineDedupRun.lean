/-
  FpxRefineDedup, part 3: a list of handle-addressed namespace removals on ELEMENTS inside the subtree
  `S` of one node `nd`, run on a forest with the invariant (`Forest.runCalls`): it runs to the end, the
  forest afterwards is the forest with that subtree replaced (`mapAtList nd (fun _ => S')`, nothing else
  changes, `next` included), `S'` erases to `eraseWithout` of `S`, its handles are a sublist of those of
  `S` and the `(handle, value)` pairs of the nodes that are not namespace nodes are those of `S`.
-/
import XotModel.Lemmas.FpxRefineDedupErase

namespace XotModel
open HTree
open Forest (MapKind entryKey entryUpdate)

namespace HTree

/-- A handle of the replaced subtree that is still in the forest is in the replacement. -/
theorem mem_graft_inside {ks : List HTree} {nd : Nat} {S S1 : HTree} (hnd : (handlesList ks).Nodup)
    (hf : findList? nd ks = some S) {x : Nat} (hxS : x ∈ handles S)
    (hx : x ∈ handlesList (mapAtList nd (fun _ => S1) ks)) : x ∈ handles S1 := by
  obtain ⟨pre, post, h1, h2⟩ := Fmap.handlesList_mapAtList_split nd (fun _ => S1) ks S hnd hf
  rw [h2] at hx
  rw [h1] at hnd
  have hnd' := List.nodup_append.mp hnd
  have hnd'' := List.nodup_append.mp hnd'.1
  simp only [List.mem_append] at hx
  rcases hx with (hx | hx) | hx
  · exact absurd rfl (hnd''.2.2 x hx x hxS)
  · exact hx
  · exact absurd rfl (hnd'.2.2 x (List.mem_append_right _ hxS) x hx)

end HTree

namespace Forest

/-- A handle-addressed removal as a `Call`. -/
def rmCallOf (c : Nat × Nat) : Call := .mapRemove .namespaces c.1 c.2

/-- One call: the forest afterwards. -/
theorem fpxd_call {f : Forest} (hi : f.Inv) (c : Nat × Nat) (he : f.isElement c.1 = true) :
    (rmCallOf c).run f = ({ f with roots := mapAtList c.1 (rmEdit c.2) f.roots }, .ok) := by
  obtain ⟨e, p⟩ := c
  obtain ⟨t, hg, hv⟩ := fpxr_get_of_isElement he
  show f.mapRemove .namespaces e p = _
  rw [fpxd_mapRemove hi he p]
  congr 2
  exact Fmap.mapAtList_congr e _ _ f.roots t hi.nodup hg (by simp [rmEdit, hv])

theorem fpxd_call_ok {f : Forest} (hi : f.Inv) (c : Nat × Nat) (he : f.isElement c.1 = true) :
    ((rmCallOf c).run f).2 = .ok ∧ ((rmCallOf c).run f).1.Inv ∧
      ∀ x, ((rmCallOf c).run f).1.isElement x = f.isElement x :=
  fpx_call_ok hi (c := rmCallOf c) he

theorem fpxd_mem_of_isElement {f : Forest} {x : Nat} (he : f.isElement x = true) : x ∈ f.allHandles := by
  obtain ⟨t, hg, _⟩ := fpxr_get_of_isElement he
  exact (findList?_isSome_iff x f.roots).mp (by rw [show findList? x f.roots = some t from hg]; rfl)

/-- **The run as a replacement of one subtree**: all targets are elements inside the subtree `S` of
    `nd`. -/
theorem fpxd_runCalls_graft : ∀ (cs : List (Nat × Nat)) {f : Forest}, f.Inv → ∀ {nd : Nat} {S : HTree},
    f.get? nd = some S → (∀ c ∈ cs, f.isElement c.1 = true ∧ c.1 ∈ handles S) →
    ∃ S', S'.handle = nd ∧
      f.runCalls (cs.map rmCallOf) = ({ f with roots := mapAtList nd (fun _ => S') f.roots }, .ok) ∧
      findList? nd (mapAtList nd (fun _ => S') f.roots) = some S' ∧
      (handles S').Sublist (handles S) ∧
      (hv S').filter notNsPair = (hv S).filter notNsPair ∧
      ∀ cs' : List (Nat × Nat), eraseWithout cs' S' = eraseWithout (cs ++ cs') S
  | [], f, hi, nd, S, hg, _ => by
    refine ⟨S, Fmap.findList?_handle nd _ _ hg, ?_, ?_, List.Sublist.refl _, rfl, fun _ => rfl⟩
    · rw [graftList_self nd S f.roots hi.nodup hg]; rfl
    · rw [graftList_self nd S f.roots hi.nodup hg]; exact hg
  | c :: cs, f, hi, nd, S, hg, hc => by
    obtain ⟨he, hin⟩ := hc c (by simp)
    obtain ⟨_, hi1, hel⟩ := fpxd_call_ok hi c he
    have hrun := fpxd_call hi c he
    have hSh : S.handle = nd := Fmap.findList?_handle nd _ _ hg
    have hSnd : (handles S).Nodup := Fmap.findList?_nodup nd f.roots S hi.nodup hg
    let S1 := mapAt c.1 (rmEdit c.2) S
    have hS1h : S1.handle = nd := by
      rw [mapAt_handle _ _ (rmEdit_handle _), hSh]
    have hroots1 : mapAtList c.1 (rmEdit c.2) f.roots = mapAtList nd (fun _ => S1) f.roots :=
      mapAtList_as_graft c.1 nd _ S hin f.roots hi.nodup hg
    rw [hroots1] at hrun
    rw [hrun] at hi1 hel
    simp only at hi1 hel
    have hg1 : ({ f with roots := mapAtList nd (fun _ => S1) f.roots } : Forest).get? nd = some S1 :=
      Fmap.findList?_mapAtList_self nd _ f.roots S hg hS1h
    have hmem : ∀ c' ∈ cs, ({ f with roots := mapAtList nd (fun _ => S1) f.roots } : Forest).isElement c'.1 = true ∧
        c'.1 ∈ handles S1 := by
      intro c' h'
      obtain ⟨h1, h2⟩ := hc c' (by simp [h'])
      have h3 : ({ f with roots := mapAtList nd (fun _ => S1) f.roots } : Forest).isElement c'.1 = true := by
        rw [hel]; exact h1
      exact ⟨h3, mem_graft_inside hi.nodup hg h2 (fpxd_mem_of_isElement h3)⟩
    obtain ⟨S', k1, k2, k3, k4, k5, k6⟩ := fpxd_runCalls_graft cs hi1 hg1 hmem
    have hgg : mapAtList nd (fun _ => S') (mapAtList nd (fun _ => S1) f.roots) =
        mapAtList nd (fun _ => S') f.roots := graftList_graftList nd S1 S' hS1h f.roots
    have hvalid : validTree (!f.everOff) S = true := Fmap.validList_findList? _ nd f.roots S hi.valid hg
    refine ⟨S', k1, ?_, ?_, ?_, ?_, ?_⟩
    · rw [List.map_cons]
      conv => lhs; unfold runCalls
      rw [hrun]
      simp only
      rw [k2]
      simp only [hgg]
    · rw [← hgg]; exact k3
    · exact k4.trans (handles_rmEdit_sublist c.1 c.2 S)
    · rw [k5]; exact hv_rmEdit _ c.1 c.2 S hvalid
    · intro cs'
      rw [k6 cs']
      exact eraseWithout_rmEdit (cs ++ cs') c.1 c.2 S hSnd

end Forest
end XotModel
