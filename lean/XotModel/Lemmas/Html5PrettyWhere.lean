/-
  Where HTML pretty printing grants whitespace, read off the tree: `htmlPrettyTrace` (the
  decoration `serialize_pretty` computes) against the explicit stack `hpentriesFor` of
  Lemmas/Html5PrettyTrace, and the consequences for mixed content and `xml:space="preserve"`.
-/
import XotModel.Lemmas.Html5Pretty
import XotModel.Lemmas.Html5PrettyTrace
import XotModel.Lemmas.PrettyWhere

namespace XotModel

variable (c : HtmlCtx) (sup : List Nat) (t : Tree)

/-- The decoration list, paired with its events, is `prettify` on the traced stacks. -/
theorem htmlPrettyTrace_zip (ps : PStack) (evs : List (Path × Output)) :
    List.zip (htmlPrettyTrace c sup t ps evs) evs =
      (htrace c sup t ps evs).map (fun x => ((prettifyHtmlAt c sup t x.1 x.2.1 x.2.2).2, (x.2.1, x.2.2))) := by
  induction evs generalizing ps with
  | nil => rfl
  | cons po evs ih =>
    obtain ⟨p, o⟩ := po
    simp only [htmlPrettyTrace, htrace, List.zip_cons_cons, List.map_cons, hstep, ih]

theorem htmlPrettyTrace_length (ps : PStack) (evs : List (Path × Output)) :
    (htmlPrettyTrace c sup t ps evs).length = evs.length := by
  induction evs generalizing ps with
  | nil => rfl
  | cons po evs ih => obtain ⟨p, o⟩ := po; simp [htmlPrettyTrace, ih]

theorem htrace_mem_events (ps : PStack) (evs : List (Path × Output)) (x : PStack × Path × Output)
    (h : x ∈ htrace c sup t ps evs) : (x.2.1, x.2.2) ∈ evs := by
  induction evs generalizing ps with
  | nil => simp [htrace] at h
  | cons po evs ih =>
    simp only [htrace, List.mem_cons] at h
    rcases h with rfl | h
    · simp
    · exact List.mem_cons_of_mem _ (ih _ h)

/-- A granted newline is decided on the stack the event leaves behind. -/
theorem prettifyHtml_newline_after (s : PStack) (node : Tree) (o : Output)
    (h : (prettifyHtml c sup s node o).2.2 = true) :
    (prettifyHtml c sup s node o).1.getNewline = true := by
  cases o with
  | startTagOpen name => simp [prettifyHtml] at h
  | comment x => simpa [prettifyHtml] using h
  | pi tg d => simpa [prettifyHtml] using h
  | text x => simp [prettifyHtml] at h
  | pfx a b => simp [prettifyHtml] at h
  | «attribute» a v => simp [prettifyHtml] at h
  | startTagClose =>
    simp only [prettifyHtml] at h ⊢
    split
    · rename_i hc
      simp only [hc, if_true] at h
      split
      · rename_i hi
        simp only [hi, if_true] at h
        exact h
      · rename_i hi
        simp [hi] at h
    · rename_i hc
      simp [hc] at h
  | endTag name =>
    simp only [prettifyHtml] at h ⊢
    split
    · rename_i hc
      simp only [hc, if_true] at h
      exact h
    · rename_i hc
      simp only [hc] at h
      exact h

/-- Indentation is granted on the stack the event finds. -/
theorem prettifyHtml_indent_before (s : PStack) (node : Tree) (o : Output)
    (h : (prettifyHtml c sup s node o).2.1 > 0) : s.inMixed = false ∧ s.inSpacePreserve = false := by
  cases o with
  | startTagOpen name =>
    exact ⟨getIndentation_pos (by simpa [prettifyHtml] using h),
      getIndentation_pos_preserve (by simpa [prettifyHtml] using h)⟩
  | comment x =>
    exact ⟨getIndentation_pos (by simpa [prettifyHtml] using h),
      getIndentation_pos_preserve (by simpa [prettifyHtml] using h)⟩
  | pi tg d =>
    exact ⟨getIndentation_pos (by simpa [prettifyHtml] using h),
      getIndentation_pos_preserve (by simpa [prettifyHtml] using h)⟩
  | text x => simp [prettifyHtml] at h
  | pfx a b => simp [prettifyHtml] at h
  | «attribute» a v => simp [prettifyHtml] at h
  | startTagClose =>
    simp only [prettifyHtml] at h
    split at h
    · split at h <;> simp at h
    · simp at h
  | endTag name =>
    simp only [prettifyHtml] at h
    split at h
    · cases hm : s.inMixed <;> cases hp : s.inSpacePreserve <;> simp [hm, hp] at h ⊢
    · simp at h

/-- The stack the newline decision of an event looks at (= the stack after the event): `>` decides
    after pushing the element's own entry, every other event on the entries above its node. -/
def hpentriesAfter (o : Output) (n : Tree) (rel : Path) : PStack :=
  match o with
  | .startTagClose => hpentriesIncl c sup n rel
  | _ => hpentriesAbove c sup n rel

/-- Every decoration of the HTML run, against the tree: the pair is `prettify` on the entries of
    the open elements between the start node and the event's node; indentation requires those
    entries to be neither mixed nor in `preserve` scope, a newline the entries it lands in. -/
theorem html_pretty_where_tree (start : Path) (n : Tree) (inScope : List (Nat × Nat))
    (hat : t.at? start = some n) (hs : namespacesInScope t start = some inScope)
    (x : (Nat × Bool) × Path × Output)
    (hx : x ∈ List.zip (htmlPrettyTrace c sup t [] (genOutputs t start)) (genOutputs t start)) :
    ∃ rel node, x.2.1 = start ++ rel ∧ n.at? rel = some node ∧
      x.1 = (prettifyHtml c sup (hpentriesFor c sup x.2.2 n rel) node x.2.2).2 ∧
      (x.1.1 > 0 → PStack.inMixed (hpentriesFor c sup x.2.2 n rel) = false ∧
        PStack.inSpacePreserve (hpentriesFor c sup x.2.2 n rel) = false) ∧
      (x.1.2 = true → PStack.inMixed (hpentriesAfter c sup x.2.2 n rel) = false ∧
        PStack.inSpacePreserve (hpentriesAfter c sup x.2.2 n rel) = false) := by
  rw [htmlPrettyTrace_zip] at hx
  obtain ⟨y, hy, rfl⟩ := List.mem_map.mp hx
  obtain ⟨ps, p, o⟩ := y
  obtain ⟨rel, h1, h2⟩ := genOutputs_htrace c sup t start n inScope hat hs _ hy
  simp only at h1 h2 ⊢
  subst h1 h2
  have hev := htrace_mem_events c sup t _ _ _ hy
  simp only at hev
  have hg : genOutputs t start = genNode inScope true start n := by simp [genOutputs, hat, hs]
  rw [hg] at hev
  obtain ⟨rel', n', hp', hat', _, hown⟩ := genNode_tagged inScope true start n _ _ hev
  have hrr : rel' = rel := (List.append_cancel_left hp').symm
  subst hrr
  have hnode : t.at? (start ++ rel') = some n' := by rw [at?_append, hat]; exact hat'
  have hpa : prettifyHtmlAt c sup t (hpentriesFor c sup o n rel') (start ++ rel') o =
      prettifyHtml c sup (hpentriesFor c sup o n rel') n' o := by simp [prettifyHtmlAt, hnode]
  refine ⟨rel', n', rfl, hat', by rw [hpa], ?_, ?_⟩
  · intro hw
    rw [hpa] at hw
    exact prettifyHtml_indent_before c sup _ n' o hw
  · intro hw
    rw [hpa] at hw
    have hnl := prettifyHtml_newline_after c sup _ n' o hw
    -- the stack after the event
    have hafter : (prettifyHtml c sup (hpentriesFor c sup o n rel') n' o).1 = hpentriesAfter c sup o n rel' := by
      rw [← hpa]
      change hstep c sup t (hpentriesFor c sup o n rel') (start ++ rel', o) = _
      cases o with
      | startTagClose =>
        obtain ⟨name, hval⟩ := ownEvent_startTagClose hown
        cases n' with
        | node v ks =>
          simp only [Tree.value] at hval
          subst hval
          rw [hstep_close c sup t _ _ name ks hnode]
          simp only [hpentriesAfter, hpentriesFor]
          rw [hpentriesIncl_eq c sup n rel' _ hat']
      | endTag name =>
        have hval := ownEvent_endTag hown
        cases n' with
        | node v ks =>
          simp only [Tree.value] at hval
          subst hval
          simp only [hpentriesAfter, hpentriesFor]
          rw [hpentriesIncl_eq c sup n rel' _ hat']
          exact hstep_end c sup t _ _ name ks hnode
      | startTagOpen name => exact hstep_neutral c sup t _ _ _ rfl
      | comment s => exact hstep_neutral c sup t _ _ _ rfl
      | pi tg d => exact hstep_neutral c sup t _ _ _ rfl
      | text s => exact hstep_neutral c sup t _ _ _ rfl
      | pfx a b => exact hstep_neutral c sup t _ _ _ rfl
      | «attribute» a v => exact hstep_neutral c sup t _ _ _ rfl
    rw [hafter] at hnl
    exact ⟨getNewline_true hnl, getNewline_true_preserve hnl⟩

/-- The entries above the node are a suffix of both stacks. -/
theorem inMixed_above_of_for (o : Output) (n : Tree) (rel : Path) (node : Tree) (hat : n.at? rel = some node)
    (h : PStack.inMixed (hpentriesFor c sup o n rel) = false) :
    PStack.inMixed (hpentriesAbove c sup n rel) = false := by
  cases o <;> simp only [hpentriesFor] at h <;> try exact h
  rw [hpentriesIncl_eq c sup n rel node hat, PStack.inMixed_append] at h
  simp only [Bool.or_eq_false_iff] at h
  exact h.2

theorem inMixed_above_of_after (o : Output) (n : Tree) (rel : Path) (node : Tree) (hat : n.at? rel = some node)
    (h : PStack.inMixed (hpentriesAfter c sup o n rel) = false) :
    PStack.inMixed (hpentriesAbove c sup n rel) = false := by
  cases o <;> simp only [hpentriesAfter] at h <;> try exact h
  rw [hpentriesIncl_eq c sup n rel node hat, PStack.inMixed_append] at h
  simp only [Bool.or_eq_false_iff] at h
  exact h.2

/-- Mixed content in HTML's sense, on trees: an event is decorated with indentation or a newline
    only if no open element strictly above its node has a text or inline-element child, is a
    formatted element or matches the suppress list. -/
theorem html_pretty_where_tree_mixed (start : Path) (n : Tree) (inScope : List (Nat × Nat))
    (hat : t.at? start = some n) (hs : namespacesInScope t start = some inScope)
    (x : (Nat × Bool) × Path × Output)
    (hx : x ∈ List.zip (htmlPrettyTrace c sup t [] (genOutputs t start)) (genOutputs t start))
    (hw : x.1.1 > 0 ∨ x.1.2 = true) :
    ∃ rel, x.2.1 = start ++ rel ∧
      ∀ a name, OpenAbove n rel a → a.value = .element name → a.firstChild?.isSome = true →
        htmlHasInlineChild c a = false ∧ htmlIsSuppressed c sup name = false := by
  obtain ⟨rel, node, hp, hnode, _, hi, hn⟩ := html_pretty_where_tree c sup t start n inScope hat hs x hx
  have hm : PStack.inMixed (hpentriesAbove c sup n rel) = false := by
    rcases hw with hw | hw
    · exact inMixed_above_of_for c sup _ n rel node hnode (hi hw).1
    · exact inMixed_above_of_after c sup _ n rel node hnode (hn hw).1
  refine ⟨rel, hp, fun a name ha hv hc => ?_⟩
  have hopen : hentryFor c sup a ∈ hopenEntryOf c sup a := by simp [hopenEntryOf, hv, hc]
  have hin := openAbove_hentry c sup n rel a ha _ hopen
  have hne : hentryFor c sup a ≠ StackEntry.mixed := by
    intro he
    have : PStack.inMixed (hpentriesAbove c sup n rel) = true := by
      simp only [PStack.inMixed, List.any_eq_true]
      exact ⟨_, hin, by simp [he]⟩
    rw [hm] at this
    cases this
  have h3 : ¬ (htmlHasInlineChild c a = true ∨ htmlIsSuppressed c sup name = true) :=
    fun hor => hne ((hentryFor_mixed_iff c sup a name hv).mpr hor)
  simp only [not_or, Bool.not_eq_true] at h3
  exact h3

end XotModel
