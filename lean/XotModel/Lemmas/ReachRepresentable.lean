/-
  Reach, part 6: the structural part of the C01 domain `Representable` / `RepresentableFragment`
  (Model/SerTokens.lean: `nodeOK` = `OrderedKids`, `KindsOk`, `UniqueKids`, `noAdjText` and `valueOK` at every
  node) is free for structurally valid trees without adjacent text: there `Representable` is a condition
  on the VALUES only (`valueOK` at every node, the interning tables, distinct `xml:id` values, one
  top-level element and no top-level text).  Hence for every root of a forest with the invariant whose
  consolidation was never switched off.
-/
import XotModel.Lemmas.ReachNode
import XotModel.Model.SerTokens

namespace XotModel.Reach
open XotModel

mutual
  /-- Two node predicates that agree wherever `P` holds agree on every tree satisfying `P` everywhere. -/
  theorem allNodes_congr {p q : Value → List Tree → Bool} {P : Value → List Tree → Prop}
      (h : ∀ v ks, P v ks → p v ks = q v ks) : ∀ t : Tree, t.Forall P → t.allNodes p = t.allNodes q
    | .node v ks, ht => by
      rw [Tree.Forall] at ht
      simp only [Tree.allNodes]
      rw [h v ks ht.1, allList_congr h ks ht.2]
  theorem allList_congr {p q : Value → List Tree → Bool} {P : Value → List Tree → Prop}
      (h : ∀ v ks, P v ks → p v ks = q v ks) : ∀ ks : List Tree, Tree.Forall.forallList P ks →
        Tree.allNodes.allList p ks = Tree.allNodes.allList q ks
    | [], _ => rfl
    | k :: ks, hk => by
      simp only [Tree.allNodes.allList]
      rw [allNodes_congr h k hk.1, allList_congr h ks hk.2]
end

/-- On a structurally valid tree without adjacent text `nodeOK` is `valueOK`. -/
theorem allNodes_nodeOK_eq (env : Env) {t : Tree} (hs : Structural t) (ha : NoAdjacentText t) :
    t.allNodes (nodeOK env) = t.allNodes (fun v _ => valueOK env v) := by
  have hP := forall_and t (forall_and t (forall_and t hs.ordered hs.kinds) hs.unique) ha
  refine allNodes_congr (fun v ks h => ?_) t hP
  obtain ⟨⟨⟨h1, h2⟩, h3⟩, h4⟩ := h
  simp only [nodeOK, h1, h2, h3, h4, decide_true, Bool.true_and]

/-- The C01 domains of a structurally valid tree without adjacent text: conditions on the values. -/
theorem representable_eq (env : Env) {t : Tree} (hs : Structural t) (ha : NoAdjacentText t) :
    RepresentableFragment env t =
      (envOK env && t.value.isDocument && t.allNodes (fun v _ => valueOK env v) &&
        decide (xmlIdValues env t).Nodup) ∧
    Representable env t =
      (envOK env && t.value.isDocument && t.allNodes (fun v _ => valueOK env v) &&
        decide (xmlIdValues env t).Nodup && singleRoot t) := by
  unfold Representable RepresentableFragment
  rw [allNodes_nodeOK_eq env hs ha]
  exact ⟨rfl, rfl⟩

mutual
  theorem forall_of_allNodes_nodeOK (env : Env) : ∀ t : Tree, t.allNodes (nodeOK env) = true →
      t.Forall (fun v ks => (OrderedKids ks ∧ KindsOk v ks ∧ UniqueKids ks) ∧ noAdjText ks = true)
    | .node v ks, h => by
      simp only [Tree.allNodes, Bool.and_eq_true] at h
      rw [Tree.Forall]
      refine ⟨?_, forallList_of_allList_nodeOK env ks h.2⟩
      have := h.1
      simp only [nodeOK, Bool.and_eq_true, decide_eq_true_eq] at this
      exact ⟨⟨this.1.1.1.1, this.1.1.1.2, this.1.1.2⟩, this.1.2⟩
  theorem forallList_of_allList_nodeOK (env : Env) : ∀ ks : List Tree,
      Tree.allNodes.allList (nodeOK env) ks = true →
      Tree.Forall.forallList (fun v ks => (OrderedKids ks ∧ KindsOk v ks ∧ UniqueKids ks) ∧ noAdjText ks = true) ks
    | [], _ => trivial
    | k :: ks, h => by
      simp only [Tree.allNodes.allList, Bool.and_eq_true] at h
      exact ⟨forall_of_allNodes_nodeOK env k h.1, forallList_of_allList_nodeOK env ks h.2⟩
end

/-- Conversely a `RepresentableFragment` tree is structurally valid, without adjacent text (so the
    trees the C01 round trip speaks about are among those `Structural` describes). -/
theorem structural_of_allNodes_nodeOK (env : Env) (t : Tree) (h : t.allNodes (nodeOK env) = true) :
    Structural t ∧ NoAdjacentText t := by
  have hk := forall_of_allNodes_nodeOK env t h
  exact ⟨⟨forall_mono (fun _ _ h => h.1.1) t hk, forall_mono (fun _ _ h => h.1.2.1) t hk,
    forall_mono (fun _ _ h => h.1.2.2) t hk⟩, forall_mono (fun _ _ h => h.2) t hk⟩

/-! ### From the forest invariant -/

/-- **For every root of a forest with the invariant whose consolidation was never switched off,
    the C01 domain is a condition on the values only.** -/
theorem representable_root {f : Forest} (hi : f.Inv) (hoff : f.everOff = false) {r : HTree} (hr : r ∈ f.roots)
    (env : Env) :
    RepresentableFragment env r.erase =
      (envOK env && r.value.isDocument && r.erase.allNodes (fun v _ => valueOK env v) &&
        decide (xmlIdValues env r.erase).Nodup) ∧
    Representable env r.erase =
      (envOK env && r.value.isDocument && r.erase.allNodes (fun v _ => valueOK env v) &&
        decide (xmlIdValues env r.erase).Nodup && singleRoot r.erase) := by
  have := representable_eq env (structural_root hi hr) (noAdjacentText_root hi hoff hr)
  rw [erase_value] at this
  exact this

end XotModel.Reach
